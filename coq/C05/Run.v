(* C05 uses the shared model of the asynchronous core (coq/RELAY). *)
From NR Require Import Lib.Base Lib.Wire RELAY.Run.
Definition suites := NR.RELAY.Run.suites.
Definition dispatch := dispatch_in suites.
