(* C10 - wire entry points: the history runner and the oracles of coq/KVW/Run.v *)
From NR Require Import Lib.Base Lib.Wire KVW.Run.
Definition suites := KVW.Run.suites.
Definition dispatch := dispatch_in suites.
