(* C10 - model: the LMDB write path (nostr_relay/storage/kv.py) lives in coq/KVW, shared with the
   LMDB halves of C06 / C07 / C08 / C09 / C17:
     KVW/Entries.v   Event.id_bytes, encode_event / decode_event, convert() of every index, entry keys
     KVW/Write.v     one write transaction (working copy + mutation log, key-size error, injected fault),
                     Index.write / Index.clear / IdIndex.write, _delete_event, bulk_update
     KVW/PostSave.v  _post_save (replacement, NIP-09 deletion), WriterThread.run per queued operation
     KVW/Gc.v        KVGarbageCollector.collect, LMDBStorage.add_event / get_event
   built on the shared engine / key layout / scanner of coq/KVM. *)
From NR Require Export KVM.Engine KVM.Keys KVM.Scan KVW.Types KVW.Entries KVW.Write KVW.PostSave KVW.Gc.
