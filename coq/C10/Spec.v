(* C10 - what "every index entry has its record and every record all its index entries" means.
   KVM.Coherent.Coherent (the In-based statement, also the hypothesis of the query-path theorems):
     the keys are strictly sorted, the sentinel 0xee is present, and every (key, value) of the keyspace is
       - the sentinel, or
       - a primary record 00 ++ id of a well-formed stored event e, or
       - an index entry (value b"") that is one of index_entries e of an event e whose primary record is present;
     and every key of index_entries e of every stored e is present.
   KVW.Proofs_Coherent.Coh is the same statement read through `get`, plus: a stored record has
   created_at <> 0 and is a fixed point of encode_event (what decode_event returns re-encodes to itself). *)
From NR Require Export KVM.Coherent KVW.Proofs_Coherent KVW.Proofs_Run KVW.Oracles.

(* the executable form evaluated on the implementation's keyspace dumps *)
Definition holds_c10 := coherent_b.
