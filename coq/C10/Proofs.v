(* C10 - lemmas: see KVW/Proofs_Engine.v (ordered engine), Proofs_Tx.v (effects of the index loops),
   Proofs_Keys.v (key shapes), Proofs_Coherent.v (each operation preserves Coh), Proofs_Run.v (histories,
   bridge to KVM.Coherent, access paths), Proofs_Progress.v (key-size invariant). *)
From NR Require Export KVW.Thm_Common.
Open Scope list_scope. Open Scope Z_scope.

(* index_keys (decode (encode w)) = index_keys w for admitted events *)
Lemma decode_encode_keys now w r : event_wf w -> encode_event w = Some r ->
  sec_keys (decode_event now r) = sec_keys w /\ primary_key (decode_event now r) = primary_key w.
Proof.
  intros W E. destruct (encode_wf w r W E) as [X1 [X2 [X3 [X4 X5]]]].
  assert (N : w_created r <> 0) by (rewrite X3; apply W). rewrite (decode_stored now r N).
  split; [apply sec_keys_ext; assumption|apply primary_key_ext; assumption].
Qed.

(* a garbage-collection pass only queues deletions *)
Lemma gc_pass_steps_ok T d (mk : wop -> wstep) : (forall o, s_op (mk o) = o) -> forall d0, steps_ok d0 (map mk (gc_ops T d)).
Proof. intros H. apply del_steps_ok; [exact H|]. intros o. apply gc_ops_are_dels. Qed.
