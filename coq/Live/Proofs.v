(* live matching = NIP-01 matching with the window since <= t < until *)
From NR Require Import Lib.Base Lib.BaseFacts Lib.Nip01 Live.Model.
From Coq Require Import ZifyBool Btauto.
Open Scope list_scope. Open Scope Z_scope.

Definition tag_hit (name : pystr) (matches : list pystr) (t : list pystr) : bool :=
  match t with n :: v :: _ => str_eqb n name && mem_str v matches | _ => false end.
Definition has_tag_step (name : pystr) (matches : list pystr) (acc : bool * option pystr) (t : list pystr) :=
  match t with
  | n :: rest =>
      if str_eqb n name then
        (true, match matches, rest with
               | _ :: _, v :: _ => if mem_str v matches then Some v else snd acc
               | _, _ => snd acc end)
      else acc
  | [] => acc
  end.

Lemma has_tag_step_spec name matches acc t :
  is_some (snd (has_tag_step name matches acc t)) = is_some (snd acc) || tag_hit name matches t.
Proof.
  unfold has_tag_step, tag_hit. destruct t as [|n rest]; [rewrite orb_false_r; reflexivity|].
  destruct (str_eqb n name) eqn:En; simpl.
  - destruct rest as [|v rest']; [destruct matches; rewrite orb_false_r; reflexivity|].
    destruct matches as [|m0 ms]; [simpl; rewrite orb_false_r; reflexivity|].
    destruct (mem_str v (m0 :: ms)); simpl; [rewrite orb_true_r | rewrite orb_false_r]; reflexivity.
  - destruct rest; rewrite orb_false_r; reflexivity.
Qed.

Lemma has_tag_fold name matches tags : forall acc,
  is_some (snd (fold_left (has_tag_step name matches) tags acc))
  = is_some (snd acc) || existsb (tag_hit name matches) tags.
Proof.
  induction tags as [|t tags IH]; intros acc; simpl.
  - rewrite orb_false_r; reflexivity.
  - rewrite IH, has_tag_step_spec, orb_assoc. reflexivity.
Qed.

Lemma has_tag_snd_spec e name matches :
  is_some (snd (has_tag e name matches)) = has_tag_value e name matches.
Proof.
  unfold has_tag, has_tag_value. change (fun acc t => _) with (has_tag_step name matches).
  rewrite has_tag_fold. simpl. reflexivity.
Qed.

Lemma forallb_map_id {A} (g : A -> bool) l : forallb (fun b => b) (map g l) = forallb g l.
Proof. induction l as [|x l IH]; simpl; [reflexivity | rewrite IH; reflexivity]. Qed.
Lemma forallb_ext' {A} (f g : A -> bool) l : (forall x, f x = g x) -> forallb f l = forallb g l.
Proof. intros H. induction l as [|x l IH]; simpl; [reflexivity | rewrite H, IH; reflexivity]. Qed.

Lemma conds_all f e :
  forallb (fun b => b) (conds f e) =
  core_match f e && after_closed (w_created e) (f_since f) && before_open (w_created e) (f_until f).
Proof.
  unfold conds, core_match, in_opt_str, in_opt_Z, author_or_delegator, after_closed, before_open.
  repeat rewrite forallb_app. rewrite forallb_map_id.
  rewrite (forallb_ext' (fun nv => is_some (snd (has_tag e (fst nv) (snd nv))))
                        (fun nv => has_tag_value e (fst nv) (snd nv))) by (intros; apply has_tag_snd_spec).
  set (T := forallb _ (f_tags f)).
  destruct (f_ids f) as [i|]; destruct (f_authors f) as [a|]; destruct (f_kinds f) as [k|];
    destruct (f_since f) as [s|]; destruct (f_until f) as [u|]; simpl;
    rewrite ?has_tag_snd_spec, ?andb_true_r; btauto.
Qed.

Lemma conds_nil f e : (match conds f e with [] => true | _ => false end) = negb (has_cond f).
Proof.
  unfold conds, has_cond.
  destruct (f_ids f); destruct (f_authors f); destruct (f_kinds f); destruct (f_since f); destruct (f_until f);
    destruct (f_tags f); reflexivity.
Qed.

(* the characterisation used by C05(d) *)
Theorem live_filter_spec f e :
  live_filter f e = has_cond f && core_match f e
                    && after_closed (w_created e) (f_since f) && before_open (w_created e) (f_until f).
Proof.
  unfold live_filter. rewrite conds_nil, conds_all, negb_involutive.
  repeat rewrite andb_assoc. reflexivity.
Qed.

(* live matching lies between must_match and may_match for filters that have a condition *)
Theorem live_between f e :
  has_cond f = true ->
  (must_match f e = true -> live_filter f e = true) /\ (live_filter f e = true -> may_match f e = true).
Proof.
  intros Hc. rewrite live_filter_spec, Hc. unfold must_match, may_match, after_open, after_closed, before_open, before_closed.
  destruct (core_match f e); simpl; [|split; discriminate].
  destruct (f_since f); destruct (f_until f); simpl; split; lia.
Qed.

Theorem check_event_spec fs e :
  check_event fs e = existsb (fun f => has_cond f && core_match f e
                    && after_closed (w_created e) (f_since f) && before_open (w_created e) (f_until f)) fs.
Proof.
  unfold check_event. induction fs as [|f fs IH]; simpl; [reflexivity|].
  rewrite live_filter_spec, IH. reflexivity.
Qed.
