(* BaseSubscription.check_event (nostr_relay/storage/base.py) and Event.has_tag (aionostr):
   live matching of a new event against the validated filters of a subscription. *)
From NR Require Import Lib.Base Lib.Nip01.
Open Scope list_scope. Open Scope Z_scope.

(* Event.has_tag(name, matches) -> (found, match): match = value of the LAST tag
   [name, v, ...] with v in matches (None if matches is empty or nothing matches) *)
Definition has_tag (e : wevent) (name : pystr) (matches : list pystr) : bool * option pystr :=
  fold_left (fun acc t =>
     match t with
     | n :: rest =>
         if str_eqb n name then
           (true, match matches, rest with
                  | _ :: _, v :: _ => if mem_str v matches then Some v else snd acc
                  | _, _ => snd acc end)
         else acc
     | [] => acc            (* tag[0] on an empty tag raises; admission (C03) excludes empty tags *)
     end) (w_tags e) (false, None).

Definition is_some {A} (o : option A) : bool := match o with Some _ => true | None => false end.

(* the set `matched` of one loop iteration, as the list of the booleans added to it *)
Definition conds (f : filter) (e : wevent) : list bool :=
  match f_ids f with Some l => [mem_str (w_id e) l] | None => [] end ++
  match f_authors f with
  | Some l => [mem_str (w_pubkey e) l || is_some (snd (has_tag e s_delegation l))]
  | None => [] end ++
  match f_kinds f with Some l => [mem_Z (w_kind e) l] | None => [] end ++
  match f_since f with Some s => [s <=? w_created e] | None => [] end ++
  match f_until f with Some u => [w_created e <? u] | None => [] end ++
  map (fun nv => is_some (snd (has_tag e (fst nv) (snd nv)))) (f_tags f).

(* `if matched and all(matched): return True` *)
Definition live_filter (f : filter) (e : wevent) : bool :=
  let c := conds f e in negb (match c with [] => true | _ => false end) && forallb (fun b => b) c.

Definition check_event (fs : list filter) (e : wevent) : bool := existsb (fun f => live_filter f e) fs.

(* a filter with no condition at all never matches live (and is not served from storage) *)
Definition has_cond (f : filter) : bool :=
  is_some (f_ids f) || is_some (f_authors f) || is_some (f_kinds f) || is_some (f_since f)
  || is_some (f_until f) || negb (match f_tags f with [] => true | _ => false end).
