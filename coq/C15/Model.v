(* C15 - executable model of NIP-42 authentication as written:
   auth.Authenticator.check_auth_event / authenticate and the AUTH branch of
   web.start_client with its exception ladder.  The individual tests are the
   generated definitions of Gen/Auth.v; Event.verify() is an oracle carried by
   the event.  No proofs in this file. *)
From NR Require Import Lib.Base Lib.PyRt C15.Rt Gen.Auth.
Open Scope string_scope. Open Scope list_scope. Open Scope Z_scope.

Record aevent := { a_pubkey : pystr; a_kind : Z; a_created : Z; a_tags : list tag; a_verify : vres }.

(* AuthenticationError messages (class after "invalid: "), and exceptions of other classes *)
Inductive aerr := EBadSig | EWrongKind | ETooOld | ETooNew | EWrongDomain | EWrongChallenge | EMissing | EInvalid.
Inductive cres := COk | CAuth (e : aerr) | CExc (name : pystr).

(* the tag loop: tag[0] / tag[1] raise IndexError on tags that are too short; every
   relay tag and every challenge tag is tested, the first failure raises *)
Fixpoint scan_tags (valid : urls) (challenge : pystr) (tags : list tag) (fr fc : bool) : cres * bool * bool :=
  match tags with
  | [] => (COk, fr, fc)
  | [] :: _ => (CExc (pys "IndexError"), fr, fc)
  | (n :: rest) :: r =>
      if str_eqb n (pys "relay") then
        match rest with
        | [] => (CExc (pys "IndexError"), fr, fc)
        | v :: _ => if auth_url_bad v valid then (CAuth EWrongDomain, fr, fc) else scan_tags valid challenge r true fc
        end
      else if str_eqb n (pys "challenge") then
        match rest with
        | [] => (CExc (pys "IndexError"), fr, fc)
        | v :: _ => if negb (str_eqb v challenge) then (CAuth EWrongChallenge, fr, fc) else scan_tags valid challenge r fr true
        end
      else scan_tags valid challenge r fr fc
  end.

Definition check_auth_event (now : Z) (valid : urls) (challenge : pystr) (ev : aevent) : cres :=
  match a_verify ev with
  | VRaises e => CExc e
  | VFalse => CAuth EBadSig
  | VTrue =>
      if auth_kind_bad (a_kind ev) then CAuth EWrongKind else
      let since := auth_since now (a_created ev) in
      if auth_is_too_old since then CAuth ETooOld else
      if auth_is_too_new since then CAuth ETooNew else
      match scan_tags valid challenge (a_tags ev) false false with
      | (COk, fr, fc) => if auth_tags_missing fr fc then CAuth EMissing else COk
      | (r, _, _) => r
      end
  end.

(* what a client can put in message[1] *)
Inductive payload :=
| PNotDict                      (* not a JSON object: AuthenticationError("Invalid") *)
| PBadCtor (exc : pystr)        (* the Event constructor raises (unknown key, non-str content, ...) *)
| PEvent (ev : aevent).

Record token := { t_pubkey : pystr; t_roles : roleset; t_now : Z }.
Inductive auth_result := Authenticated (t : token) | AuthRefused (e : aerr) | AuthCrashed (exc : pystr).

Section Auth.
Variable roles_of : pystr -> roleset.      (* storage.get_auth_roles *)
Variable configured : urls.                (* authentication.relay_urls as configured *)

Definition authenticate (now : Z) (challenge : pystr) (p : payload) : auth_result :=
  match p with
  | PNotDict => AuthRefused EInvalid
  | PBadCtor e => AuthCrashed e
  | PEvent ev =>
      match check_auth_event now (parse_valid_urls configured) challenge ev with
      | COk => Authenticated {| t_pubkey := a_pubkey ev; t_roles := roles_of (a_pubkey ev); t_now := now |}
      | CAuth e => AuthRefused e
      | CExc e => AuthCrashed e
      end
  end.

(* ---------- the connection: AUTH branch of web.start_client ---------- *)
Inductive frame := FNotice (e : aerr) | FClose (code : Z).
Record conn := { c_token : option token; c_open : bool; c_sent : list frame }.
Definition conn0 : conn := {| c_token := None; c_open := true; c_sent := [] |}.

(* one ["AUTH", payload] message at time `now` on a connection whose challenge is `challenge` *)
Definition handle_auth (enabled : bool) (challenge : pystr) (c : conn) (m : Z * payload) : conn :=
  if negb (c_open c) then c else
  if negb enabled then c else
  match authenticate (fst m) challenge (snd m) with
  | Authenticated t => {| c_token := Some t; c_open := true; c_sent := c_sent c |}
  | AuthRefused e => {| c_token := c_token c; c_open := true; c_sent := c_sent c ++ [FNotice e] |}
  | AuthCrashed _ => {| c_token := c_token c; c_open := false; c_sent := c_sent c ++ [FClose web_close_code] |}
  end.
Definition run_auths (enabled : bool) (challenge : pystr) (ms : list (Z * payload)) : conn :=
  fold_left (handle_auth enabled challenge) ms conn0.
End Auth.
