(* C15/C14 - runtime vocabulary of the generated file Gen/Auth.v: how the relay URLs
   are configured (a str or a list), Python's `in` on each, outcomes of Event.verify().
   No proofs in this file. *)
From NR Require Import Lib.Base Lib.PyRt.
Open Scope list_scope. Open Scope Z_scope.

(* authentication.relay_urls as it appears in the configuration *)
Inductive urls := UStr (s : pystr) | UList (l : list pystr).

(* Python `u in s` for two strs: u occurs in s as a contiguous run *)
Fixpoint is_substring (u s : pystr) : bool :=
  is_prefix u s || match s with [] => false | _ :: r => is_substring u r end.

(* `tag[1] in self.valid_urls` *)
Definition url_in (u : pystr) (v : urls) : bool :=
  match v with UStr s => is_substring u s | UList l => mem_str u l end.

(* the URLs the relay answers to, as a list of whole strings *)
Definition urls_as_list (v : urls) : list pystr := match v with UStr s => [s] | UList l => l end.

(* Event.verify() is an oracle: a boolean, or an exception escaping from it *)
Inductive vres := VTrue | VFalse | VRaises (e : pystr).
