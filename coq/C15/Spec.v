(* C15 - what a fresh, correctly signed answer to this connection's challenge is. *)
From NR Require Import Lib.Base Lib.PyRt C15.Rt C15.Model.
Open Scope string_scope. Open Scope list_scope. Open Scope Z_scope.

Definition tag_named (n : string) (t : tag) : Prop := exists rest, t = pys n :: rest.
Definition tag_value (t : tag) (v : pystr) : Prop := exists n rest, t = n :: v :: rest.

(* the NIP-42 conditions, for the relay URLs taken as whole strings *)
Definition valid_answer (now : Z) (relay_urls : list pystr) (challenge : pystr) (ev : aevent) : Prop :=
  a_verify ev = VTrue /\
  a_kind ev = 22242 /\
  Z.abs (now - a_created ev) < 600 /\
  (exists t, In t (a_tags ev) /\ tag_named "relay" t) /\
  (forall t, In t (a_tags ev) -> tag_named "relay" t -> exists v, tag_value t v /\ In v relay_urls) /\
  (exists t, In t (a_tags ev) /\ tag_named "challenge" t) /\
  (forall t, In t (a_tags ev) -> tag_named "challenge" t -> tag_value t challenge).

(* the same as a boolean, for the executable statement *)
Definition tag_is (n : string) (t : tag) : bool := match t with x :: _ => str_eqb x (pys n) | [] => false end.
Definition valid_answerb (now : Z) (relay_urls : list pystr) (challenge : pystr) (ev : aevent) : bool :=
  match a_verify ev with VTrue => true | _ => false end &&
  (a_kind ev =? 22242) && (Z.abs (now - a_created ev) <? 600) &&
  existsb (tag_is "relay") (a_tags ev) &&
  forallb (fun t => negb (tag_is "relay" t) || match t with _ :: v :: _ => mem_str v relay_urls | _ => false end) (a_tags ev) &&
  existsb (tag_is "challenge") (a_tags ev) &&
  forallb (fun t => negb (tag_is "challenge" t) || match t with _ :: v :: _ => str_eqb v challenge | _ => false end) (a_tags ev).
