(* C15 - lemmas: the tag loop, soundness and completeness of check_auth_event against
   valid_answer, the AUTH branch keeps the token unless authenticate returned, replay
   across connections. *)
From NR Require Import Lib.Base Lib.BaseFacts Lib.PyRt C15.Rt Gen.Auth C15.Model C15.Spec.
From Coq Require Import ZifyBool.
Open Scope Z_scope.

(* parse_options turns every configured value into a list of whole URLs *)
Lemma parse_valid_urls_list v : parse_valid_urls v = UList (urls_as_list v).
Proof. destruct v; reflexivity. Qed.

Lemma relay_neq_challenge : str_eqb (pys "challenge") (pys "relay") = false.
Proof. reflexivity. Qed.

Lemma tag_named_cons (n : string) x rest : tag_named n (x :: rest) <-> x = pys n.
Proof. unfold tag_named. split; [intros [r H]; congruence | intros ->; eauto]. Qed.
Lemma tag_named_nil (n : string) : ~ tag_named n [].
Proof. intros [r H]. discriminate. Qed.

(* ---------- the tag loop over a list of whole URLs ---------- *)
Definition relay_ok (l : list pystr) (t : tag) : Prop := tag_named "relay" t -> exists v, tag_value t v /\ In v l.
Definition chal_ok (ch : pystr) (t : tag) : Prop := tag_named "challenge" t -> tag_value t ch.

Lemma scan_ok l ch tags : forall fr fc fr' fc',
  scan_tags (UList l) ch tags fr fc = (COk, fr', fc') ->
  Forall (relay_ok l) tags /\ Forall (chal_ok ch) tags /\ Forall (fun t => t <> []) tags /\
  (fr' = true <-> fr = true \/ exists t, In t tags /\ tag_named "relay" t) /\
  (fc' = true <-> fc = true \/ exists t, In t tags /\ tag_named "challenge" t).
Proof.
  induction tags as [|t r IH]; intros fr fc fr' fc' H; simpl in H.
  - injection H as <- <-. repeat split; try constructor; try tauto; intros [H|[t [[] _]]]; exact H.
  - destruct t as [|n rest]; [discriminate|].
    destruct (str_eqb n (pys "relay")) eqn:E1.
    + apply str_eqb_eq in E1. subst n. destruct rest as [|v rest']; [discriminate|].
      unfold auth_url_bad, url_in in H. destruct (mem_str v l) eqn:M; simpl in H; [|discriminate].
      apply mem_str_In in M. destruct (IH _ _ _ _ H) as (R & C & N & F1 & F2).
      split; [constructor; [intros _; exists v; split; [exists (pys "relay"), rest'; reflexivity | exact M] | exact R]|].
      split; [constructor; [intros T; apply tag_named_cons in T; discriminate | exact C]|].
      split; [constructor; [discriminate | exact N]|].
      split.
      * rewrite F1. split; [intros _; right; exists (pys "relay" :: v :: rest'); split; [left; reflexivity | apply tag_named_cons; reflexivity]|auto].
      * rewrite F2. split; [intros [Hc|[t [Ht Tn]]]; [auto | right; exists t; split; [right; exact Ht | exact Tn]]|].
        intros [Hc|[t [[<-|Ht] Tn]]]; [auto | apply tag_named_cons in Tn; discriminate | right; exists t; auto].
    + destruct (str_eqb n (pys "challenge")) eqn:E2.
      * apply str_eqb_eq in E2. subst n. destruct rest as [|v rest']; [discriminate|].
        destruct (str_eqb v ch) eqn:V; simpl in H; [|discriminate]. apply str_eqb_eq in V. subst v.
        destruct (IH _ _ _ _ H) as (R & C & N & F1 & F2).
        split; [constructor; [intros T; apply tag_named_cons in T; discriminate | exact R]|].
        split; [constructor; [intros _; exists (pys "challenge"), rest'; reflexivity | exact C]|].
        split; [constructor; [discriminate | exact N]|].
        split.
        -- rewrite F1. split; [intros [Hc|[t [Ht Tn]]]; [auto | right; exists t; split; [right; exact Ht | exact Tn]]|].
           intros [Hc|[t [[<-|Ht] Tn]]]; [auto | apply tag_named_cons in Tn; discriminate | right; exists t; auto].
        -- rewrite F2. split; [intros _; right; exists (pys "challenge" :: ch :: rest'); split; [left; reflexivity | apply tag_named_cons; reflexivity]|auto].
      * apply str_eqb_neq in E1, E2. destruct (IH _ _ _ _ H) as (R & C & N & F1 & F2).
        split; [constructor; [intros T; apply tag_named_cons in T; contradiction | exact R]|].
        split; [constructor; [intros T; apply tag_named_cons in T; contradiction | exact C]|].
        split; [constructor; [discriminate | exact N]|].
        split.
        -- rewrite F1. split; [intros [Hc|[t [Ht Tn]]]; [auto | right; exists t; split; [right; exact Ht | exact Tn]]|].
           intros [Hc|[t [[<-|Ht] Tn]]]; [auto | apply tag_named_cons in Tn; contradiction | right; exists t; auto].
        -- rewrite F2. split; [intros [Hc|[t [Ht Tn]]]; [auto | right; exists t; split; [right; exact Ht | exact Tn]]|].
           intros [Hc|[t [[<-|Ht] Tn]]]; [auto | apply tag_named_cons in Tn; contradiction | right; exists t; auto].
Qed.

Lemma scan_complete l ch tags : forall fr fc,
  Forall (relay_ok l) tags -> Forall (chal_ok ch) tags -> Forall (fun t => t <> []) tags ->
  exists fr' fc', scan_tags (UList l) ch tags fr fc = (COk, fr', fc').
Proof.
  induction tags as [|t r IH]; intros fr fc R C N; simpl; [eauto|].
  inversion R as [|? ? Rt Rr]; inversion C as [|? ? Ct Cr]; inversion N as [|? ? Nt Nr]; subst.
  destruct t as [|n rest]; [contradiction|].
  destruct (str_eqb n (pys "relay")) eqn:E1.
  - apply str_eqb_eq in E1. subst n. destruct (Rt (proj2 (tag_named_cons "relay" _ _) eq_refl)) as [v [[n' [rest' E]] Hv]].
    injection E as <- ->. unfold auth_url_bad, url_in. apply mem_str_In in Hv. rewrite Hv. simpl. apply IH; assumption.
  - destruct (str_eqb n (pys "challenge")) eqn:E2.
    + apply str_eqb_eq in E2. subst n. destruct (Ct (proj2 (tag_named_cons "challenge" _ _) eq_refl)) as [n' [rest' E]].
      injection E as <- ->. rewrite str_eqb_refl. simpl. apply IH; assumption.
    + apply IH; assumption.
Qed.

(* ---------- check_auth_event against the statement ---------- *)
Lemma check_sound now l ch ev :
  check_auth_event now (UList l) ch ev = COk -> valid_answer now l ch ev.
Proof.
  unfold check_auth_event, valid_answer. destruct (a_verify ev); try discriminate.
  unfold auth_kind_bad, auth_since, auth_is_too_old, auth_is_too_new, auth_tags_missing.
  destruct (a_kind ev =? 22242) eqn:K; cbn [negb]; [|discriminate].
  match goal with |- context [?a >=? ?b] => destruct (a >=? b) eqn:O end; [discriminate|].
  match goal with |- context [?a <=? ?b] => destruct (a <=? b) eqn:Nw end; [discriminate|].
  destruct (scan_tags (UList l) ch (a_tags ev) false false) as [[r fr] fc] eqn:S.
  destruct r; try discriminate.
  destruct (fr && fc) eqn:B; simpl; [|discriminate]. intros _. apply andb_prop in B. destruct B as [-> ->].
  destruct (scan_ok _ _ _ _ _ _ _ S) as (R & C & _ & F1 & F2).
  rewrite Forall_forall in R, C.
  split; [reflexivity|]. split; [lia|]. split; [lia|].
  split; [destruct (proj1 F1 eq_refl) as [H|H]; [discriminate | exact H]|].
  split; [intros t Ht Tn; exact (R t Ht Tn)|].
  split; [destruct (proj1 F2 eq_refl) as [H|H]; [discriminate | exact H]|].
  intros t Ht Tn. exact (C t Ht Tn).
Qed.

Lemma check_complete now l ch ev :
  valid_answer now l ch ev -> Forall (fun t => t <> []) (a_tags ev) -> check_auth_event now (UList l) ch ev = COk.
Proof.
  unfold valid_answer. intros (V & K & T & [tr [Hr Nr]] & R & [tc [Hc Nc]] & C) N.
  unfold check_auth_event. rewrite V.
  unfold auth_kind_bad, auth_since, auth_is_too_old, auth_is_too_new, auth_tags_missing.
  replace (a_kind ev =? 22242) with true by lia. cbn [negb].
  match goal with |- context [?a >=? ?b] => replace (a >=? b) with false by lia end.
  match goal with |- context [?a <=? ?b] => replace (a <=? b) with false by lia end.
  destruct (scan_complete l ch (a_tags ev) false false) as [fr [fc S]].
  { apply Forall_forall. intros t Ht Tn. auto. }
  { apply Forall_forall. intros t Ht Tn. auto. }
  { exact N. }
  rewrite S. destruct (scan_ok _ _ _ _ _ _ _ S) as (_ & _ & _ & F1 & F2).
  assert (fr = true) as -> by (apply F1; right; exists tr; auto).
  assert (fc = true) as -> by (apply F2; right; exists tc; auto). reflexivity.
Qed.

Section Conn.
Variable roles_of : pystr -> roleset.
Variable configured : urls.

(* a token is handed out only for a fresh, correctly signed answer to this challenge that names
   a configured URL (as a whole string), and it carries the signer's pubkey *)
Lemma auth_sound now ch p t :
  authenticate roles_of configured now ch p = Authenticated t ->
  exists ev, p = PEvent ev /\ valid_answer now (urls_as_list configured) ch ev /\
             t_pubkey t = a_pubkey ev /\ t_roles t = roles_of (a_pubkey ev).
Proof.
  unfold authenticate. destruct p as [| |ev]; try discriminate.
  rewrite parse_valid_urls_list.
  destruct (check_auth_event now (UList (urls_as_list configured)) ch ev) eqn:C; try discriminate.
  intros H. injection H as <-. exists ev. split; [reflexivity|]. split; [apply check_sound; exact C|]. split; reflexivity.
Qed.

Lemma auth_complete now ch ev :
  valid_answer now (urls_as_list configured) ch ev -> Forall (fun t => t <> []) (a_tags ev) ->
  exists t, authenticate roles_of configured now ch (PEvent ev) = Authenticated t /\ t_pubkey t = a_pubkey ev.
Proof.
  intros V N. unfold authenticate. rewrite parse_valid_urls_list, (check_complete _ _ _ _ V N). eexists. split; reflexivity.
Qed.

(* any AUTH that does not authenticate leaves the identity as it was; a crash closes the connection *)
Lemma failed_auth_keeps_token enabled ch c m :
  (forall t, authenticate roles_of configured (fst m) ch (snd m) <> Authenticated t) ->
  c_token (handle_auth roles_of configured enabled ch c m) = c_token c.
Proof.
  intros H. unfold handle_auth. destruct (negb (c_open c)); [reflexivity|]. destruct (negb enabled); [reflexivity|].
  destruct (authenticate roles_of configured (fst m) ch (snd m)) eqn:A; try reflexivity. destruct (H t eq_refl).
Qed.

Lemma handle_auth_token enabled ch c m t :
  c_token (handle_auth roles_of configured enabled ch c m) = Some t ->
  c_token c = Some t \/ authenticate roles_of configured (fst m) ch (snd m) = Authenticated t.
Proof.
  unfold handle_auth. destruct (negb (c_open c)); [auto|]. destruct (negb enabled); [auto|].
  destruct (authenticate roles_of configured (fst m) ch (snd m)) eqn:A; simpl; auto. intros H. injection H as <-. auto.
Qed.

(* whatever the order of attempts, an identity held by the connection was proved by a valid answer
   among the messages it received *)
Lemma token_from_valid_answer enabled ch ms : forall c t,
  c_token (fold_left (handle_auth roles_of configured enabled ch) ms c) = Some t ->
  c_token c = Some t \/
  exists now ev, In (now, PEvent ev) ms /\ valid_answer now (urls_as_list configured) ch ev /\ t_pubkey t = a_pubkey ev.
Proof.
  induction ms as [|m ms IH]; intros c t H; simpl in H; [auto|].
  destruct (IH _ _ H) as [H1|[now [ev [Hi Hv]]]].
  - apply handle_auth_token in H1. destruct H1 as [H1|H1]; [auto|].
    destruct (auth_sound _ _ _ _ H1) as [ev [Hp [Hv [Hk _]]]]. right. exists (fst m), ev.
    split; [left; destruct m as [n p]; simpl in *; congruence | auto].
  - right. exists now, ev. split; [right; exact Hi | exact Hv].
Qed.

(* an answer that authenticates on a connection with challenge ch1 is refused, with
   "Wrong challenge", on any connection whose challenge differs *)
Lemma scan_other_challenge l ch1 ch2 tags : ch1 <> ch2 -> forall fr fc fr' fc',
  scan_tags (UList l) ch1 tags fr fc = (COk, fr', fc') ->
  (exists t, In t tags /\ tag_named "challenge" t) ->
  exists a b, scan_tags (UList l) ch2 tags fr fc = (CAuth EWrongChallenge, a, b).
Proof.
  intros D. induction tags as [|t r IH]; intros fr fc fr' fc' H [t0 [Hi Tn]]; [destruct Hi|].
  simpl in H |- *. destruct t as [|n rest]; [discriminate|].
  destruct (str_eqb n (pys "relay")) eqn:E1.
  - destruct rest as [|v rest']; [discriminate|]. destruct (auth_url_bad v (UList l)); [discriminate|].
    destruct Hi as [<-|Hi]; [apply tag_named_cons in Tn; apply str_eqb_eq in E1; subst n; discriminate|].
    apply (IH _ _ _ _ H). exists t0. auto.
  - destruct (str_eqb n (pys "challenge")) eqn:E2.
    + destruct rest as [|v rest']; [discriminate|].
      destruct (str_eqb v ch1) eqn:V; simpl in H; [|discriminate]. apply str_eqb_eq in V. subst v.
      replace (str_eqb ch1 ch2) with false by (symmetry; apply str_eqb_neq; exact D). simpl. eauto.
    + destruct Hi as [<-|Hi]; [apply tag_named_cons in Tn; apply str_eqb_neq in E2; contradiction|].
      apply (IH _ _ _ _ H). exists t0. auto.
Qed.

Lemma cross_connection_replay now ch1 ch2 p t :
  ch1 <> ch2 ->
  authenticate roles_of configured now ch1 p = Authenticated t ->
  authenticate roles_of configured now ch2 p = AuthRefused EWrongChallenge.
Proof.
  intros D H. destruct (auth_sound _ _ _ _ H) as [ev [-> [V _]]].
  unfold authenticate in *. rewrite parse_valid_urls_list in *.
  unfold check_auth_event in *. destruct (a_verify ev); try discriminate.
  destruct (auth_kind_bad (a_kind ev)); [discriminate|].
  destruct (auth_is_too_old (auth_since now (a_created ev))); [discriminate|].
  destruct (auth_is_too_new (auth_since now (a_created ev))); [discriminate|].
  destruct (scan_tags (UList (urls_as_list configured)) ch1 (a_tags ev) false false) as [[r fr] fc] eqn:S.
  destruct r; try discriminate.
  destruct V as (_ & _ & _ & _ & _ & Hc & _).
  destruct (scan_other_challenge _ _ _ _ D _ _ _ _ S Hc) as [a [b S2]]. rewrite S2. reflexivity.
Qed.
End Conn.

(* F19 (fixed in /repo): with relay_urls kept as a str the membership test is a substring test *)
Definition f19_event : aevent :=
  {| a_pubkey := pys "k"; a_kind := 22242; a_created := 1000;
     a_tags := [[pys "relay"; pys "ws"]; [pys "challenge"; pys "c"]]; a_verify := VTrue |}.
Lemma f19_str_urls_refuted :
  check_auth_event 1000 default_relay_urls (pys "c") f19_event = COk /\
  ~ valid_answer 1000 (urls_as_list default_relay_urls) (pys "c") f19_event.
Proof.
  split; [reflexivity|]. intros (_ & _ & _ & _ & R & _).
  destruct (R [pys "relay"; pys "ws"]) as [v [[n [rest E]] Hv]]; [left; reflexivity | exists [pys "ws"]; reflexivity |].
  injection E as <- <- <-. destruct Hv as [Hv|[]]. vm_compute in Hv. discriminate.
Qed.

(* the boolean used by the executable statement is the statement *)
Lemma tag_is_named (n : string) t : tag_is n t = true <-> tag_named n t.
Proof.
  destruct t as [|x r]; simpl.
  - split; [discriminate | intros H; destruct (tag_named_nil n H)].
  - rewrite str_eqb_eq, tag_named_cons. reflexivity.
Qed.

Lemma valid_answerb_spec now l ch ev : valid_answerb now l ch ev = true <-> valid_answer now l ch ev.
Proof.
  unfold valid_answerb, valid_answer. rewrite !andb_true_iff, existsb_exists, existsb_exists, !forallb_forall.
  assert (HV : (match a_verify ev with VTrue => true | _ => false end) = true <-> a_verify ev = VTrue)
    by (destruct (a_verify ev); split; congruence).
  rewrite HV.
  assert (HR : (forall x, In x (a_tags ev) ->
                   negb (tag_is "relay" x) || match x with _ :: v :: _ => mem_str v l | _ => false end = true)
               <-> (forall t, In t (a_tags ev) -> tag_named "relay" t -> exists v, tag_value t v /\ In v l)).
  { split; intros H t Ht.
    - intros Tn. specialize (H t Ht). apply tag_is_named in Tn. rewrite Tn in H. simpl in H.
      destruct t as [|a [|v r]]; try discriminate. apply mem_str_In in H. exists v. split; [exists a, r; reflexivity | exact H].
    - destruct (tag_is "relay" t) eqn:E; [|reflexivity]. simpl. apply tag_is_named in E.
      destruct (H t Ht E) as [v [[n [r ->]] Hv]]. apply mem_str_In. exact Hv. }
  assert (HC : (forall x, In x (a_tags ev) ->
                   negb (tag_is "challenge" x) || match x with _ :: v :: _ => str_eqb v ch | _ => false end = true)
               <-> (forall t, In t (a_tags ev) -> tag_named "challenge" t -> tag_value t ch)).
  { split; intros H t Ht.
    - intros Tn. specialize (H t Ht). apply tag_is_named in Tn. rewrite Tn in H. simpl in H.
      destruct t as [|a [|v r]]; try discriminate. apply str_eqb_eq in H. subst v. exists a, r; reflexivity.
    - destruct (tag_is "challenge" t) eqn:E; [|reflexivity]. simpl. apply tag_is_named in E.
      destruct (H t Ht E) as [n [r ->]]. apply str_eqb_refl. }
  rewrite HR, HC.
  assert (HE : forall n, (exists x, In x (a_tags ev) /\ tag_is n x = true) <-> (exists t, In t (a_tags ev) /\ tag_named n t)).
  { intros n. split; intros [t [Ht H]]; exists t; split; try assumption; apply tag_is_named; exact H. }
  rewrite !HE. rewrite Z.eqb_eq, Z.ltb_lt. tauto.
Qed.
