From NR Require Import Lib.Base Lib.BaseFacts Lib.PyRt C15.Rt Gen.Auth C15.Model C15.Spec.
From Coq Require Import ZifyBool.
Open Scope Z_scope.
Lemma placeholder : auth_kind = 22242.
Proof. reflexivity. Qed.
