(* C15 - wire entry points and executable statements. *)
From NR Require Import Lib.Base Lib.PyRt Lib.Wire C15.Rt Gen.Auth C15.Model C15.Spec.
Open Scope string_scope. Open Scope list_scope. Open Scope Z_scope.

Definition urls_of_jv (v : jv) : urls :=
  match v with JStr s => UStr s | JArr l => UList (map as_str l) | _ => default_relay_urls end.
Definition vres_of_jv (v : jv) : vres :=
  let s := as_str v in
  if str_eqb s (pys "true") then VTrue else if str_eqb s (pys "false") then VFalse else VRaises s.
Definition aevent_of_jv (v : jv) : aevent :=
  {| a_pubkey := as_str (jfield "pubkey" v); a_kind := as_int (jfield "kind" v); a_created := as_int (jfield "created_at" v);
     a_tags := map tag_of_jv (as_arr (jfield "tags" v)); a_verify := vres_of_jv (jfield "verify" v) |}.
(* payload: null = not a dict; {"ctor_exc": name} = Event() raises; otherwise the event *)
Definition payload_of_jv (v : jv) : payload :=
  match v with
  | JObj _ => match jfield "ctor_exc" v with JStr e => PBadCtor e | _ => PEvent (aevent_of_jv v) end
  | _ => PNotDict
  end.

Definition aerr_name (e : aerr) : pystr :=
  match e with
  | EBadSig => pys "BadSig" | EWrongKind => pys "WrongKind" | ETooOld => pys "TooOld" | ETooNew => pys "TooNew"
  | EWrongDomain => pys "WrongDomain" | EWrongChallenge => pys "WrongChallenge" | EMissing => pys "Missing"
  | EInvalid => pys "Invalid"
  end.
Definition no_roles (pk : pystr) : roleset := [].
Definition jresult (r : auth_result) : jv :=
  match r with
  | Authenticated t => jobj [("token", JStr (t_pubkey t))]
  | AuthRefused e => jobj [("refused", JStr (aerr_name e))]
  | AuthCrashed e => jobj [("crashed", JStr e)]
  end.

(* {now, urls, challenge, payload} *)
Definition run_authenticate (v : jv) : jv :=
  jresult (authenticate no_roles (urls_of_jv (jfield "urls" v)) (as_int (jfield "now" v)) (as_str (jfield "challenge" v))
                        (payload_of_jv (jfield "payload" v))).

(* executable statement: obs = {"token": pk} | {"refused": ..} | {"crashed": ..} *)
Definition is_valid_payload (now : Z) (u : urls) (ch : pystr) (p : payload) : option pystr :=
  match p with
  | PEvent ev => if valid_answerb now (urls_as_list u) ch ev then Some (a_pubkey ev) else None
  | _ => None
  end.
Definition holds_authenticate (v : jv) : jv :=
  let p := payload_of_jv (jfield "payload" v) in
  let ok := is_valid_payload (as_int (jfield "now" v)) (urls_of_jv (jfield "urls" v)) (as_str (jfield "challenge" v)) p in
  match jfield "token" (jfield "obs" v), ok with
  | JStr pk, Some pk' => if str_eqb pk pk' then jstr "ok" else jstr "token-for-another-pubkey"
  | JStr _, None => jstr "authenticated-without-valid-answer"
  | _, Some _ => jstr "valid-answer-refused"
  | _, None => jstr "ok"
  end.

Definition msg_of_jv (v : jv) : Z * payload := (as_int (jv_nth 0 v), payload_of_jv (jv_nth 1 v)).
Definition jframe (f : frame) : jv :=
  match f with FNotice e => JArr [jstr "NOTICE"; JStr (aerr_name e)] | FClose c => JArr [jstr "CLOSE"; JInt c] end.
(* {enabled, urls, challenge, msgs} -> {token, open, frames} *)
Definition run_conn (v : jv) : jv :=
  let c := run_auths no_roles (urls_of_jv (jfield "urls" v)) (as_bool (jfield "enabled" v)) (as_str (jfield "challenge" v))
                     (map msg_of_jv (as_arr (jfield "msgs" v))) in
  jobj [("token", match c_token c with Some t => JStr (t_pubkey t) | None => JNull end);
        ("open", JBool (c_open c)); ("frames", JArr (map jframe (c_sent c)))].

(* executable statement for a connection: obs = {identity: pk|null, consumed: n}:
   the identity is that of the last valid answer among the AUTH messages the connection consumed *)
Fixpoint last_valid (u : urls) (ch : pystr) (ms : list (Z * payload)) (acc : option pystr) : option pystr :=
  match ms with
  | [] => acc
  | (now, p) :: r => last_valid u ch r (match is_valid_payload now u ch p with Some pk => Some pk | None => acc end)
  end.
Definition holds_conn (v : jv) : jv :=
  let u := urls_of_jv (jfield "urls" v) in
  let ms := firstn (Z.to_nat (as_int (jfield "consumed" (jfield "obs" v)))) (map msg_of_jv (as_arr (jfield "msgs" v))) in
  let want := if as_bool (jfield "enabled" v) then last_valid u (as_str (jfield "challenge" v)) ms None else None in
  match jfield "identity" (jfield "obs" v), want with
  | JStr pk, Some pk' => if str_eqb pk pk' then jstr "ok" else jstr "identity-not-from-last-valid-answer"
  | JStr _, None => jstr "identity-without-valid-answer"
  | _, Some _ => jstr "valid-answer-did-not-authenticate"
  | _, None => jstr "ok"
  end.

Definition run_const (v : jv) : jv :=
  jobj [("challenge_bytes", JInt challenge_bytes); ("close_code", JInt web_close_code);
        ("shape", JBool (authenticate_shape_ok && web_auth_branch_ok))].

Definition suites : list (string * (jv -> jv)) :=
  [("c15.authenticate", run_authenticate); ("c15.holds", holds_authenticate); ("c15.conn", run_conn);
   ("c15.conn_holds", holds_conn); ("c15.const", run_const)].
Definition dispatch := dispatch_in suites.
