(* wire suite of the filter-validation model alone: what a REQ's filter is after NostrQuery.model_validate.
   Used by the query properties (C01 / C02 / C11 / C12): their statements are about the filter the client SENT, so the
   validated filter the storage layers work with has to be that filter (and not a clamped or completed one). *)
From NR Require Import Lib.Base Lib.PyRt Lib.Wire Lib.Nip01 Filt.Model.
Open Scope string_scope. Open Scope list_scope. Open Scope Z_scope.

Definition jv_of_filter (f : filter) : jv :=
  let os o := match o with Some l => JArr (map JStr l) | None => JNull end in
  let oz o := match o with Some z => JInt z | None => JNull end in
  jobj [("ids", os (f_ids f)); ("authors", os (f_authors f));
        ("kinds", match f_kinds f with Some l => JArr (map JInt l) | None => JNull end);
        ("since", oz (f_since f)); ("until", oz (f_until f)); ("limit", oz (f_limit f));
        ("tags", JArr (map (fun t => JArr [JStr (fst t); JArr (map JStr (snd t))]) (f_tags f)))].
Definition run_validate (v : jv) : jv :=
  match validate_filter (as_int (jfield "max_limit" v)) (jfield "raw" v) with
  | FOk f => jobj [("k", jstr "ok"); ("f", jv_of_filter f)]
  | FInvalid => jobj [("k", jstr "invalid")]
  | FNotQuery => jobj [("k", jstr "notquery")]
  | FCrash => jobj [("k", jstr "crash")]
  | FUnmodelled => jobj [("k", jstr "unmodelled")]
  end.

Definition suites : list (string * (jv -> jv)) := [("filt.validate", run_validate)].
Definition dispatch := dispatch_in suites.
