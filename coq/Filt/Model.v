(* NostrQuery.model_validate (nostr_relay/storage/base.py) on a raw JSON value:
   the `#x` key rule, pydantic's lax coercions for the fields (as far as modelled),
   ids_are_hex, sort_fields, check_tags.  Outcome classes:
     FOk f      - validated filter
     FInvalid   - pydantic ValidationError: the filter is dropped by subscribe
     FNotQuery  - StorageError("not a query"): escapes subscribe -> NOTICE
     FCrash     - any other exception (TypeError from set()/sort_fields): escapes to the
                  connection handler's generic branch (close 1013)
     FUnmodelled- input outside the modelled coercion subset (harness skips the case) *)
From NR Require Import Lib.Base Lib.Nip01.
Open Scope string_scope. Open Scope list_scope. Open Scope Z_scope.

Inductive fres := FOk (f : filter) | FInvalid | FNotQuery | FCrash | FUnmodelled.

(* ---- lax int coercion ---- *)
Inductive ires := IOk (z : Z) | IBad | IUnk.
Definition all_digits (s : pystr) : bool := match s with [] => false | _ => forallb is_digit s end.
Definition int_of_jv (v : jv) : ires :=
  match v with
  | JInt z => IOk z
  | JBool b => IOk (if b then 1 else 0)
  | JStr s =>
      match s with
      | 45%N :: r => if all_digits r then match Z_of_dec s with Some z => IOk z | None => IBad end else IUnk
      | _ => if all_digits s then match Z_of_dec s with Some z => IOk z | None => IBad end
             else match s with [] => IBad | _ => IUnk end
      end
  | JFloat _ => IUnk
  | JBytes _ => IUnk
  | _ => IBad
  end.

(* ---- list[int] ---- *)
Fixpoint ints_of (l : list jv) : option (option (list Z)) :=   (* None = unmodelled, Some None = invalid *)
  match l with
  | [] => Some (Some [])
  | x :: r => match int_of_jv x, ints_of r with
              | IUnk, _ => None
              | _, None => None
              | IBad, _ => Some None
              | IOk z, Some (Some t) => Some (Some (z :: t))
              | IOk _, Some None => Some None
              end
  end.

(* sorted(set(values), reverse=True) *)
Fixpoint insert_desc_Z (x : Z) (l : list Z) : list Z :=
  match l with
  | [] => [x]
  | y :: r => if x =? y then l else if y <? x then x :: l else y :: insert_desc_Z x r
  end.
Definition sort_desc_Z (l : list Z) : list Z := fold_right insert_desc_Z [] l.
Fixpoint insert_desc_str (x : pystr) (l : list pystr) : list pystr :=
  match l with
  | [] => [x]
  | y :: r => match lex_cmp x y with
              | Eq => l
              | Gt => x :: l
              | Lt => y :: insert_desc_str x r
              end
  end.
Definition sort_desc_str (l : list pystr) : list pystr := fold_right insert_desc_str [] l.

(* ---- ids_are_hex ---- *)
Definition lower_cp (c : cp) : cp := if (N.leb 65 c && N.leb c 90)%bool then (c + 32)%N else c.
(* str.lower() restricted to ASCII; non-ASCII characters are not hex anyway and make the id invalid,
   except those whose lower() is ASCII hex - none exist *)
Definition lower_ascii (s : pystr) : pystr := map lower_cp s.
Definition hexid_ok (s : pystr) : bool := forallb is_lower_hex_char s && Nat.leb 64 (length s).
Fixpoint hexids_of (l : list jv) : option (list pystr) :=      (* None = invalid *)
  match l with
  | [] => Some []
  | JStr s :: r => let s' := lower_ascii s in
                   if hexid_ok s' then option_map (cons s') (hexids_of r) else None
  | _ :: _ => None
  end.

(* ---- the #x rule: k.startswith("#") and len(k) == 2 and isinstance(v, list) ---- *)
Definition is_hashable (v : jv) : bool :=
  match v with JArr _ | JObj _ => false | _ => true end.
Definition tag_entries (kv : list (pystr * jv)) : list (pystr * list jv) :=
  flat_map (fun p => match fst p, snd p with
                     | [35%N; c], JArr l => [([c], l)]
                     | _, _ => [] end) kv.
(* set(v) then check_tags: all values must be str *)
Fixpoint strs_of (l : list jv) : option (list pystr) :=
  match l with
  | [] => Some []
  | JStr s :: r => option_map (cons s) (strs_of r)
  | _ :: _ => None
  end.
Definition sort_tags_desc (l : list (pystr * list pystr)) : list (pystr * list pystr) :=
  fold_right (fun x acc =>
    (fix ins (acc : list (pystr * list pystr)) :=
       match acc with
       | [] => [x]
       | y :: r => match lex_cmp (fst x) (fst y) with Lt => y :: ins r | _ => x :: acc end
       end) acc) [] l.

Definition opt_field (k : string) (kv : list (pystr * jv)) : option jv := jget (pys k) kv.

(* Optional[int] with bounds: result None = invalid / unmodelled flagged separately *)
Inductive ores := OAbsent | OVal (z : Z) | OBad | OUnk.
Definition opt_int (o : option jv) : ores :=
  match o with
  | None | Some JNull => OAbsent
  | Some v => match int_of_jv v with IOk z => OVal z | IBad => OBad | IUnk => OUnk end
  end.
Definition time_bound : Z := 2145934800.

Definition validate_filter (max_limit : Z) (raw : jv) : fres :=
  match raw with
  | JObj kv =>
      let tes := tag_entries kv in
      if negb (forallb (fun te => forallb is_hashable (snd te)) tes) then FCrash else
      (* kinds: None -> sort_fields(None) raises TypeError *)
      match opt_field "kinds" kv with
      | Some JNull => FCrash
      | _ =>
      let ids := match opt_field "ids" kv with
                 | None => Some None
                 | Some (JArr l) => option_map (fun x => Some (sort_desc_str x)) (hexids_of l)
                 | Some _ => None end in
      let authors := match opt_field "authors" kv with
                 | None => Some None
                 | Some (JArr l) => option_map (fun x => Some (sort_desc_str x)) (hexids_of l)
                 | Some _ => None end in
      let kinds := match opt_field "kinds" kv with
                 | None => Some (Some None)
                 | Some (JArr l) => match ints_of l with
                                    | None => None
                                    | Some None => Some None
                                    | Some (Some zs) => Some (Some (Some (sort_desc_Z zs))) end
                 | Some _ => Some None end in
      let since := opt_int (opt_field "since" kv) in
      let until := opt_int (opt_field "until" kv) in
      let limit := match opt_field "limit" kv with
                   | None => OVal max_limit
                   | o => opt_int o end in
      let search_ok := match opt_field "search" kv with None | Some JNull | Some (JStr _) => true | _ => false end in
      let tags := fold_right (fun te acc => match acc, strs_of (snd te) with
                                            | Some a, Some vs => Some ((fst te, dedup_str vs) :: a)
                                            | _, _ => None end) (Some []) tes in
      match kinds, since, until, limit with
      | None, _, _, _ | _, OUnk, _, _ | _, _, OUnk, _ | _, _, _, OUnk => FUnmodelled
      | Some k, _, _, _ =>
          let in_time o := match o with OVal z => (0 <=? z) && (z <? time_bound) | OAbsent => true | _ => false end in
          let lim_ok := match limit with OVal z => 0 <=? z | OAbsent => true | _ => false end in
          match ids, authors, k, tags with
          | Some i, Some a, Some k', Some t =>
              if in_time since && in_time until && lim_ok && search_ok then
                FOk {| f_ids := i; f_authors := a; f_kinds := k';
                       f_since := match since with OVal z => Some z | _ => None end;
                       f_until := match until with OVal z => Some z | _ => None end;
                       f_limit := match limit with OVal z => Some z | _ => None end;
                       f_tags := sort_tags_desc t |}
              else FInvalid
          | _, _, _, _ => FInvalid
          end
      end
      end
  | _ => FNotQuery
  end.
