(* Invariants and step lemmas of the asynchronous-core model, for every schedule. *)
From NR Require Import Lib.Base Lib.BaseFacts Lib.PyRt Lib.Nip01 Gen.Web Filt.Model Live.Model Live.Proofs RELAY.Model.
From Coq Require Import ZifyBool.
Open Scope list_scope. Open Scope Z_scope.

(* ------------------------------------------------------------------ basic facts *)
Lemma get_set_conn_same c x l : get_conn c (set_conn c x l) = Some x.
Proof.
  induction l as [|[c' y] l IH]; simpl.
  - rewrite Nat.eqb_refl. reflexivity.
  - destruct (Nat.eqb c c') eqn:E; simpl; rewrite ?Nat.eqb_refl, ?E; auto.
Qed.
Lemma get_set_conn_other c c' x l : c <> c' -> get_conn c' (set_conn c x l) = get_conn c' l.
Proof.
  intros Hn. induction l as [|[c'' y] l IH]; simpl.
  - destruct (Nat.eqb c' c) eqn:E; [apply Nat.eqb_eq in E; congruence | reflexivity].
  - destruct (Nat.eqb c c'') eqn:E; simpl.
    + apply Nat.eqb_eq in E. subst c''.
      destruct (Nat.eqb c' c) eqn:E2; [apply Nat.eqb_eq in E2; congruence | reflexivity].
    + destruct (Nat.eqb c' c''); auto.
Qed.

Lemma emit_subs f x : c_subs (emit f x) = c_subs x.
Proof. unfold emit. destruct (c_open x); reflexivity. Qed.
Lemma emit_open f x : c_open (emit f x) = c_open x.
Proof. unfold emit. destruct (c_open x) eqn:E; simpl; congruence. Qed.

Lemma del_sub_length s l : (length (del_sub s l) <= length l)%nat.
Proof. induction l as [|[s' x] l IH]; simpl; [lia|]. destruct (str_eqb s s'); simpl; lia. Qed.

Lemma cancel_sub_subs cfg sid x : c_subs (cancel_sub cfg sid x) = del_sub sid (c_subs x).
Proof.
  unfold cancel_sub. destruct (get_sub sid (c_subs x)) eqn:E.
  - destruct (kv_backend cfg && sb_running s); rewrite ?emit_subs; reflexivity.
  - (* not registered: deleting is the identity *)
    revert E. induction (c_subs x) as [|[s' y] l IH]; simpl; [reflexivity|].
    destruct (str_eqb sid s'); [discriminate|]. intros E. rewrite <- IH by assumption. reflexivity.
Qed.

(* ------------------------------------------------------------------ C13(e): subscription limit *)
Definition within_limit (cfg : rcfg) (x : conn) : Prop :=
  sub_limit cfg = 0 \/ Z.of_nat (length (c_subs x)) <= sub_limit cfg.

Lemma handle_req_limit cfg st c x sidv raws rows prep cq st' x' d :
  0 <= sub_limit cfg -> within_limit cfg x ->
  handle_req cfg st c x sidv raws rows prep cq = (st', x', d) -> within_limit cfg x'.
Proof.
  intros Hl Hw. unfold handle_req.
  destruct (py_str sidv) as [sid|]; [|intros E; inversion E; subst; assumption].
  set (x1 := cancel_sub cfg sid x).
  assert (H1 : (length (c_subs x1) <= length (c_subs x))%nat).
  { unfold x1. rewrite cancel_sub_subs. apply del_sub_length. }
  assert (Hw1 : within_limit cfg x1) by (destruct Hw as [Hw|Hw]; [left; assumption | right; lia]).
  destruct (negb (sub_limit cfg =? 0) && (Z.of_nat (length (c_subs x1)) =? sub_limit cfg)) eqn:Elim.
  - intros E; inversion E; subst. unfold within_limit. rewrite emit_subs. assumption.
  - destruct (validate_all (max_limit cfg) raws) as [fs| | |].
    + destruct fs as [|f fs].
      * intros E; inversion E; subst. unfold within_limit. simpl. rewrite emit_subs. assumption.
      * destruct prep; [destruct cq|]; intros E; inversion E; subst; unfold within_limit; simpl;
          rewrite ?emit_subs; try assumption.
        rewrite app_length. simpl. destruct Hw1 as [Hw1|Hw1]; [left; assumption|].
        destruct (sub_limit cfg =? 0) eqn:E0; [left; lia | right; lia].
    + intros E; inversion E; subst. unfold within_limit. rewrite emit_subs. assumption.
    + intros E; inversion E; subst. unfold within_limit. rewrite emit_subs. assumption.
    + intros E; inversion E; subst. assumption.
Qed.

(* a REQ refused because of the limit leaves the existing subscriptions intact *)
Lemma handle_req_refused_intact cfg st c x sid raws rows prep cq :
  get_sub sid (c_subs x) = None ->
  negb (sub_limit cfg =? 0) && (Z.of_nat (length (c_subs x)) =? sub_limit cfg) = true ->
  exists st', handle_req cfg st c x (JStr sid) raws rows prep cq = (st', emit (FrNotice s_rejected) x, DContinue)
              /\ r_conns st' = r_conns st /\ r_pending st' = r_pending st.
Proof.
  intros Hn Hl. unfold handle_req. simpl.
  assert (Hx : cancel_sub cfg sid x = x) by (unfold cancel_sub; rewrite Hn; reflexivity).
  rewrite Hx, Hl. eexists. split; [reflexivity|]. simpl. split; reflexivity.
Qed.

(* ------------------------------------------------------------------ C13(b): a REQ is never met with silence *)
Definition answered (sid : pystr) (x x' : conn) (d : disp) : Prop :=
  d = DClose \/ d = DUnmodelled \/ get_sub sid (c_subs x') <> None \/
  (c_open x = true -> exists f, c_out x' = f :: c_out x /\
                      (f = FrEose sid \/ exists cls, f = FrNotice cls)).

Lemma get_sub_app_new sid sb l : get_sub sid (l ++ [(sid, sb)]) <> None.
Proof.
  induction l as [|[s' y] l IH]; simpl.
  - rewrite str_eqb_refl. discriminate.
  - destruct (str_eqb sid s'); [discriminate | assumption].
Qed.

Lemma emit_out_open f x : c_open x = true -> c_out (emit f x) = f :: c_out x.
Proof. intros H. unfold emit. rewrite H. reflexivity. Qed.

Lemma cancel_sub_out_sql cfg sid x : kv_backend cfg = false -> c_out (cancel_sub cfg sid x) = c_out x.
Proof.
  intros Hk. unfold cancel_sub. destruct (get_sub sid (c_subs x)); [|reflexivity]. rewrite Hk. reflexivity.
Qed.
Lemma cancel_sub_open cfg sid x : c_open (cancel_sub cfg sid x) = c_open x.
Proof.
  unfold cancel_sub. destruct (get_sub sid (c_subs x)); [|reflexivity].
  destruct (kv_backend cfg && sb_running s); rewrite ?emit_open; reflexivity.
Qed.

Theorem req_never_silent cfg st c x sid raws rows prep cq st' x' d :
  kv_backend cfg = false ->
  handle_req cfg st c x (JStr sid) raws rows prep cq = (st', x', d) -> answered sid x x' d.
Proof.
  intros Hk. unfold handle_req, answered. simpl.
  set (x1 := cancel_sub cfg sid x).
  assert (Ho : c_out x1 = c_out x) by (apply cancel_sub_out_sql; assumption).
  assert (Hop : c_open x1 = c_open x) by apply cancel_sub_open.
  destruct (negb (sub_limit cfg =? 0) && (Z.of_nat (length (c_subs x1)) =? sub_limit cfg)).
  - intros E; inversion E; subst. right; right; right. intros Hopen.
    exists (FrNotice s_rejected). rewrite emit_out_open by congruence. rewrite Ho. eauto.
  - destruct (validate_all (max_limit cfg) raws) as [fs| | |].
    + destruct fs as [|f fs].
      * intros E; inversion E; subst. right; right; right. intros Hopen.
        exists (FrEose sid). simpl. rewrite emit_out_open by congruence. rewrite Ho. eauto.
      * destruct prep; [destruct cq|]; intros E; inversion E; subst.
        -- right; right; left. simpl. apply get_sub_app_new.
        -- right; right; right. intros Hopen. exists (FrNotice s_restricted).
           rewrite emit_out_open by congruence. rewrite Ho. eauto.
        -- right; right; right. intros Hopen. exists (FrEose sid). simpl.
           rewrite emit_out_open by congruence. rewrite Ho. eauto.
    + intros E; inversion E; subst. right; right; right. intros Hopen.
      exists (FrNotice s_notquery). rewrite emit_out_open by congruence. rewrite Ho. eauto.
    + intros E; inversion E; subst. left; reflexivity.
    + intros E; inversion E; subst. right; left; reflexivity.
Qed.

(* ------------------------------------------------------------------ C05(a): fan-out is exact *)
Definition registered (st : rstate) : list (nat * pystr) :=
  flat_map (fun c => match get_conn c (r_conns st) with
                     | Some x => map (fun p => (c, fst p)) (c_subs x) | None => [] end) (r_registry st).

Theorem fan_out_exact st e :
  map (fun t => (n_cid t, n_sid t)) (fan_out st e) = registered st
  /\ Forall (fun t => n_event t = e) (fan_out st e).
Proof.
  unfold fan_out, registered. split.
  - induction (r_registry st) as [|c l IH]; simpl; [reflexivity|].
    rewrite map_app, IH. f_equal. destruct (get_conn c (r_conns st)); [|reflexivity].
    rewrite map_map. reflexivity.
  - apply Forall_forall. intros t Ht. apply in_flat_map in Ht. destruct Ht as [c [_ Ht]].
    destruct (get_conn c (r_conns st)); [|contradiction]. apply in_map_iff in Ht.
    destruct Ht as [p [<- _]]. reflexivity.
Qed.

(* each task carries the filters its subscription had at the fan-out moment *)
Lemma fan_out_filters st e t :
  In t (fan_out st e) ->
  exists x sb, get_conn (n_cid t) (r_conns st) = Some x /\ In (n_sid t, sb) (c_subs x)
               /\ n_filters t = sb_filters sb /\ n_gen t = sb_gen sb.
Proof.
  unfold fan_out. intros Ht. apply in_flat_map in Ht. destruct Ht as [c [_ Ht]].
  destruct (get_conn c (r_conns st)) as [x|] eqn:E; [|contradiction].
  apply in_map_iff in Ht. destruct Ht as [[sid sb] [<- Hin]]. simpl. exists x, sb. auto.
Qed.

(* a notify task enqueues its event, under its own subscription id, iff the filters match:
   exactly one frame or none, and only on its own connection *)
Theorem run_ntask_effect st t :
  let st' := run_ntask st t in
  (forall c, c <> n_cid t -> get_conn c (r_conns st') = get_conn c (r_conns st)) /\
  match get_conn (n_cid t) (r_conns st) with
  | None => st' = st
  | Some x =>
      get_conn (n_cid t) (r_conns st') =
        Some (if check_event (n_filters t) (n_event t) then emit (FrEvent (n_sid t) (w_id (n_event t))) x else x)
  end.
Proof.
  unfold run_ntask. destruct (get_conn (n_cid t) (r_conns st)) as [x|] eqn:E; simpl.
  - destruct (check_event (n_filters t) (n_event t)); simpl; split; try (intros; reflexivity); try assumption.
    + intros c Hc. apply get_set_conn_other. congruence.
    + apply get_set_conn_same.
  - split; [intros; reflexivity | reflexivity].
Qed.

(* ------------------------------------------------------------------ C06(a): one OK per EVENT message *)
Definition is_ok (f : frame) : bool := match f with FrOk _ _ _ => true | _ => false end.

Theorem event_one_ok cfg st c x m rows prep cq add auth st' x' d :
  validate_message m = true -> as_str (jv_nth 0 m) = pys "EVENT" -> c_open x = true ->
  handle_msg cfg st c x m false rows prep cq add auth = (st', x', d) ->
  d = DContinue /\ exists f, c_out x' = f :: c_out x /\ is_ok f = true.
Proof.
  intros Hv Hc Ho. unfold handle_msg. rewrite Hv, Hc. simpl.
  destruct add as [e changed|r|r]; intros E; inversion E; subst; split; try reflexivity;
    eexists; (split; [rewrite ?emit_out_open by assumption; simpl; rewrite ?emit_out_open by assumption; reflexivity | reflexivity]).
Qed.

(* ------------------------------------------------------------------ C19: dispositions and cleanup *)
(* whatever the message, the handler ends in one of: continue (possibly with frames), clean close *)
Theorem handle_total cfg st c x m lim rows prep cq add auth :
  exists st' x' d, handle_msg cfg st c x m lim rows prep cq add auth = (st', x', d).
Proof. destruct (handle_msg cfg st c x m lim rows prep cq add auth) as [[st' x'] d]. eauto. Qed.

(* an ignored message (invalid shape) changes nothing *)
Theorem invalid_message_ignored cfg st c x m lim rows prep cq add auth :
  validate_message m = false ->
  handle_msg cfg st c x m lim rows prep cq add auth = (st, x, DContinue).
Proof. intros H. unfold handle_msg. rewrite H. reflexivity. Qed.

(* when a connection ends (client gone, or closed by the handler) nothing of it stays registered *)
Theorem drop_cleans st c x :
  let st' := drop_conn st c x in
  ~ In c (r_registry st') /\ exists y, get_conn c (r_conns st') = Some y /\ c_subs y = [] /\ c_open y = false.
Proof.
  simpl. split.
  - intros H. apply filter_In in H. destruct H as [_ H]. rewrite Nat.eqb_refl in H. discriminate.
  - exists (closed x). split; [apply get_set_conn_same | split; reflexivity].
Qed.

(* the other connections' state is untouched by a REQ / CLOSE of connection c *)
Theorem req_close_frame_others cfg st c x m rows prep cq add auth st' x' d c' :
  c' <> c -> as_str (jv_nth 0 m) <> pys "EVENT" ->
  handle_msg cfg st c x m false rows prep cq add auth = (st', x', d) ->
  get_conn c' (r_conns st') = get_conn c' (r_conns st) /\ r_pending st' = r_pending st.
Proof.
  intros Hn Hne. unfold handle_msg.
  destruct (negb (validate_message m)); [intros E; inversion E; subst; auto|].
  simpl.
  destruct (str_eqb (as_str (jv_nth 0 m)) (pys "REQ")).
  - unfold handle_req. destruct (py_str (jv_nth 1 m)); [|intros E; inversion E; subst; auto].
    destruct (negb (sub_limit cfg =? 0) && _); [intros E; inversion E; subst; auto|].
    destruct (validate_all _ _) as [fs| | |]; try (intros E; inversion E; subst; auto; fail).
    destruct fs; [intros E; inversion E; subst; auto|].
    destruct prep; [destruct cq|]; intros E; inversion E; subst; auto.
  - destruct (str_eqb (as_str (jv_nth 0 m)) (pys "CLOSE")).
    + destruct (py_str (jv_nth 1 m)); intros E; inversion E; subst; auto.
    + destruct (str_eqb (as_str (jv_nth 0 m)) (pys "EVENT")) eqn:Ee.
      * apply str_eqb_eq in Ee. contradiction.
      * destruct (auth_enabled cfg); [destruct auth|]; intros E; inversion E; subst; auto.
Qed.

(* ------------------------------------------------------------------ the limit holds in every reachable state *)
Definition AllWithin (cfg : rcfg) (st : rstate) : Prop :=
  forall c x, get_conn c (r_conns st) = Some x -> within_limit cfg x.

Lemma within_emit cfg f x : within_limit cfg x -> within_limit cfg (emit f x).
Proof. unfold within_limit. rewrite emit_subs. auto. Qed.

Lemma AllWithin_set cfg st c x :
  AllWithin cfg st -> within_limit cfg x ->
  forall c' y, get_conn c' (set_conn c x (r_conns st)) = Some y -> within_limit cfg y.
Proof.
  intros HA Hx c' y. destruct (Nat.eq_dec c c') as [->|Hn].
  - rewrite get_set_conn_same. intros E; inversion E; subst; assumption.
  - rewrite get_set_conn_other by assumption. apply HA.
Qed.

Lemma run_ntask_within cfg st t : AllWithin cfg st -> AllWithin cfg (run_ntask st t).
Proof.
  intros HA. unfold run_ntask. destruct (get_conn (n_cid t) (r_conns st)) as [x|] eqn:E; [|assumption].
  destruct (check_event (n_filters t) (n_event t)); [|assumption].
  unfold AllWithin. simpl. apply AllWithin_set; [assumption|]. apply within_emit. eapply HA; eassumption.
Qed.

Lemma fold_ntask_within cfg l : forall st, AllWithin cfg st -> AllWithin cfg (fold_left run_ntask l st).
Proof. induction l as [|t l IH]; simpl; intros st H; [assumption|]. apply IH. apply run_ntask_within. assumption. Qed.

Lemma drain_within cfg st : AllWithin cfg st -> AllWithin cfg (drain_pending st).
Proof. intros H. unfold drain_pending, AllWithin. simpl. apply (fold_ntask_within cfg (r_pending st) st H). Qed.

Lemma handle_msg_within cfg st c x m lim rows prep cq add auth st' x' d :
  0 <= sub_limit cfg -> AllWithin cfg st -> within_limit cfg x ->
  handle_msg cfg st c x m lim rows prep cq add auth = (st', x', d) ->
  AllWithin cfg st' /\ within_limit cfg x'.
Proof.
  intros Hl HA Hx. unfold handle_msg.
  destruct (negb (validate_message m)); [intros E; inversion E; subst; auto|].
  destruct lim.
  - destruct (str_eqb (as_str (jv_nth 0 m)) (pys "EVENT")).
    + destruct (jv_nth 1 m); try (intros E; inversion E; subst; split; [assumption | apply within_emit; assumption]).
      destruct (jget (pys "id") kv) as [[]|]; intros E; inversion E; subst; split; auto; apply within_emit; assumption.
    + intros E; inversion E; subst; split; [assumption | apply within_emit; assumption].
  - destruct (str_eqb (as_str (jv_nth 0 m)) (pys "REQ")).
    + intros E. split; [|eapply handle_req_limit; eassumption].
      unfold handle_req in E. destruct (py_str (jv_nth 1 m)); [|inversion E; subst; assumption].
      destruct (negb (sub_limit cfg =? 0) && _); [inversion E; subst; assumption|].
      destruct (validate_all _ _) as [fs| | |]; try (inversion E; subst; assumption).
      destruct fs; [inversion E; subst; assumption|].
      destruct prep; [destruct cq|]; inversion E; subst; assumption.
    + destruct (str_eqb (as_str (jv_nth 0 m)) (pys "CLOSE")).
      * destruct (py_str (jv_nth 1 m)); intros E; inversion E; subst; split; auto.
        unfold within_limit. rewrite cancel_sub_subs. pose proof (del_sub_length p (c_subs x)).
        destruct Hx; [left; assumption | right; lia].
      * destruct (str_eqb (as_str (jv_nth 0 m)) (pys "EVENT")).
        -- destruct add as [e changed|r|r]; intros E; inversion E; subst; split;
             try (apply within_emit; assumption); try assumption.
           destruct changed; assumption.
        -- destruct (auth_enabled cfg); [destruct auth|]; intros E; inversion E; subst; split;
             try (apply within_emit; assumption); assumption.
Qed.

Lemma fold_emit_subs l : forall y, c_subs (fold_left (fun y f => emit f y) l y) = c_subs y.
Proof. induction l as [|a l IH]; simpl; intros y; [reflexivity|]. rewrite IH. apply emit_subs. Qed.
Lemma within_flush cfg x : within_limit cfg x -> within_limit cfg (flush x).
Proof. unfold within_limit, flush. simpl. rewrite fold_emit_subs. auto. Qed.

Lemma upd_sub_length s y l : length (upd_sub s y l) = length l.
Proof. induction l as [|[s' x] l IH]; simpl; [reflexivity|]. destruct (str_eqb s s'); simpl; congruence. Qed.

Lemma map_length_subs (f : pystr * sub -> pystr * sub) l : length (map f l) = length l.
Proof. apply map_length. Qed.

Theorem step_within cfg st o st' :
  0 <= sub_limit cfg -> AllWithin cfg st -> step cfg st o = SOkS st' -> AllWithin cfg st'.
Proof.
  intros Hl HA. destruct o as [c|c m lim rows prep cq add auth|c|c|c sid|k|c|c m rows prep cq]; simpl.
  - destruct (get_conn c (r_conns st)); [discriminate|]. intros E; inversion E; subst.
    unfold AllWithin. simpl. apply AllWithin_set; [assumption|]. right. simpl. lia.
  - match goal with |- context [if ?b then drain_pending st else st] =>
      set (st0 := if b then drain_pending st else st);
      assert (HA0 : AllWithin cfg st0) by (unfold st0; destruct b; [apply drain_within|]; assumption) end.
    destruct (get_conn c (r_conns st0)) as [x|] eqn:Ex; [|discriminate].
    destruct (c_open x); [|discriminate].
    destruct (handle_msg cfg st0 c x m lim rows prep cq add auth) as [[st1 x1] d] eqn:Eh.
    destruct (handle_msg_within _ _ _ _ _ _ _ _ _ _ _ _ _ _ Hl HA0 (HA0 _ _ Ex) Eh) as [HA1 Hx1].
    destruct d; intros E; inversion E; subst; unfold AllWithin; simpl.
    + apply AllWithin_set; [assumption | apply within_flush; assumption].
    + apply AllWithin_set; [assumption|]. right. simpl. lia.
  - destruct (get_conn c (r_conns st)) as [x|]; [|discriminate]. destruct (c_open x); [|discriminate].
    intros E; inversion E; subst; assumption.
  - destruct (get_conn c (r_conns st)) as [x|]; [|discriminate]. destruct (c_open x); [|discriminate].
    intros E; inversion E; subst. unfold AllWithin, drop_conn. simpl.
    apply AllWithin_set; [assumption|]. right. simpl. lia.
  - destruct (get_conn c (r_conns st)) as [x|] eqn:Ex; [|discriminate].
    destruct (get_sub sid (c_subs x)) as [sb|]; [|discriminate].
    destruct (sb_running sb) eqn:Er; [|discriminate].
    unfold row_step. rewrite Er.
    destruct (sb_rows sb) as [|batch rest]; intros E; inversion E; subst; unfold AllWithin; simpl;
      apply AllWithin_set; try assumption; unfold within_limit; simpl; rewrite upd_sub_length.
    + rewrite emit_subs. apply (HA _ _ Ex).
    + assert (G : forall l y, c_subs (fold_left (fun y eid => emit (FrEvent sid eid) y) l y) = c_subs y).
      { induction l as [|a l IH]; simpl; intros y; [reflexivity|]. rewrite IH. apply emit_subs. }
      rewrite G. apply (HA _ _ Ex).
  - destruct (nth_error (r_pending st) k) as [t|]; [|discriminate].
    intros E; inversion E; subst. unfold AllWithin. simpl. apply run_ntask_within. assumption.
  - destruct (get_conn c (r_conns st)) as [x|]; [|discriminate]. destruct (c_open x); [|discriminate].
    intros E; inversion E; subst. unfold AllWithin, drop_conn. simpl.
    apply AllWithin_set; [assumption|]. right. simpl. lia.
  - destruct (get_conn c (r_conns st)) as [x|] eqn:Ex; [|discriminate]. destruct (c_open x); [|discriminate].
    destruct (handle_msg cfg st c x m false rows prep cq (AddCrash []) AuthOk) as [[st1 x1] d] eqn:Eh.
    destruct (handle_msg_within _ _ _ _ _ _ _ _ _ _ _ _ _ _ Hl HA (HA _ _ Ex) Eh) as [HA1 Hx1].
    destruct d; intros E; inversion E; subst; unfold AllWithin, drop_conn; simpl;
      (apply AllWithin_set; [assumption|]; right; simpl; lia).
Qed.

Theorem limit_invariant cfg ops : forall st st',
  0 <= sub_limit cfg -> AllWithin cfg st -> run cfg st ops = SOkS st' -> AllWithin cfg st'.
Proof.
  induction ops as [|o ops IH]; simpl; intros st st' Hl HA.
  - intros E; inversion E; subst; assumption.
  - destruct (step cfg st o) as [st1| |] eqn:Es; try discriminate.
    intros E. eapply IH; [assumption | | exact E]. eapply step_within; eassumption.
Qed.

Lemma AllWithin_init cfg : AllWithin cfg init.
Proof. unfold AllWithin, init. simpl. discriminate. Qed.
