(* Relay wire entry points: run a recorded schedule through the model and report the
   per-connection transcripts, the registry after every operation and the pending count. *)
From NR Require Import Lib.Base Lib.PyRt Lib.Wire Lib.Nip01 Filt.Model Live.Model RELAY.Model.
Open Scope string_scope. Open Scope list_scope. Open Scope Z_scope.

Definition addres_of_jv (v : jv) : addres :=
  let k := as_str (jfield "k" v) in
  if str_eqb k (pys "ok") then AddOk (wevent_of_jv (jfield "event" v)) (as_bool (jfield "changed" v))
  else if str_eqb k (pys "refused") then AddRefused (as_str (jfield "reason" v))
  else AddCrash (as_str (jfield "reason" v)).
Definition authres_of_jv (v : jv) : authres :=
  let k := as_str (jfield "k" v) in
  if str_eqb k (pys "ok") then AuthOk else if str_eqb k (pys "err") then AuthErr (as_str (jfield "reason" v)) else AuthCrash.
Definition nat_of_jv (v : jv) : nat := Z.to_nat (as_int v).
Definition op_of_jv (v : jv) : op :=
  let k := as_str (jfield "op" v) in
  let c := nat_of_jv (jfield "c" v) in
  if str_eqb k (pys "open") then OOpen c
  else if str_eqb k (pys "badjson") then OBadJson c
  else if str_eqb k (pys "crashjson") then OCrashJson c
  else if str_eqb k (pys "row") then ORow c (as_str (jfield "sid" v))
  else if str_eqb k (pys "notify") then ONotify (nat_of_jv (jfield "k" v))
  else if str_eqb k (pys "drop") then ODrop c
  else if str_eqb k (pys "reqgone") then
    OReqGone c (jfield "m" v) (map (fun b => map as_str (as_arr b)) (as_arr (jfield "rows" v)))
             (as_bool (jfield "prep" v)) (as_bool (jfield "can_query" v))
  else OMsg c (jfield "m" v) (as_bool (jfield "limited" v))
            (map (fun b => map as_str (as_arr b)) (as_arr (jfield "rows" v)))
            (as_bool (jfield "prep" v)) (as_bool (jfield "can_query" v))
            (addres_of_jv (jfield "add" v)) (authres_of_jv (jfield "auth" v)).

Definition jv_of_frame (f : frame) : jv :=
  match f with
  | FrEvent sid eid => JArr [jstr "EVENT"; JStr sid; JStr eid]
  | FrEose sid => JArr [jstr "EOSE"; JStr sid]
  | FrOk eid ok r => JArr [jstr "OK"; JStr eid; JBool ok; JStr r]
  | FrNotice c => JArr [jstr "NOTICE"; JStr c]
  | FrClosed code => JArr [jstr "CLOSED"; JInt code]
  end.
Definition jv_of_registry (st : rstate) : jv :=
  JArr (map (fun c => JArr [JInt (Z.of_nat c);
                            JArr (match get_conn c (r_conns st) with
                                  | Some x => map (fun p => JStr (fst p)) (c_subs x) | None => [] end)])
            (r_registry st)).
Definition cfg_of_jv (v : jv) : rcfg :=
  {| sub_limit := as_int (jfield "sub_limit" v); max_limit := as_int (jfield "max_limit" v);
     kv_backend := as_bool (jfield "kv" v); auth_enabled := as_bool (jfield "auth" v) |}.

Fixpoint run_obs (cfg : rcfg) (st : rstate) (ops : list op) (acc : list jv) : jv :=
  match ops with
  | [] => jobj [("res", jstr "ok");
                ("transcripts", JArr (map (fun p => JArr [JInt (Z.of_nat (fst p)); JArr (map jv_of_frame (rev (c_out (snd p))))]) (r_conns st)));
                ("registries", JArr (rev acc)); ("pending", JInt (Z.of_nat (length (r_pending st))))]
  | o :: r => match step cfg st o with
              | SOkS st' => run_obs cfg st' r (jv_of_registry st' :: acc)
              | SUnmodelled => jobj [("res", jstr "unmodelled"); ("at", JInt (Z.of_nat (length acc)))]
              | SStuck => jobj [("res", jstr "stuck"); ("at", JInt (Z.of_nat (length acc)))]
              end
  end.
Definition run_relay (v : jv) : jv :=
  run_obs (cfg_of_jv (jfield "cfg" v)) init (map op_of_jv (as_arr (jfield "ops" v))) [].

(* filter validation and live matching on their own *)
Definition jv_of_filter (f : filter) : jv :=
  let os o := match o with Some l => JArr (map JStr l) | None => JNull end in
  let oz o := match o with Some z => JInt z | None => JNull end in
  jobj [("ids", os (f_ids f)); ("authors", os (f_authors f));
        ("kinds", match f_kinds f with Some l => JArr (map JInt l) | None => JNull end);
        ("since", oz (f_since f)); ("until", oz (f_until f)); ("limit", oz (f_limit f));
        ("tags", JArr (map (fun t => JArr [JStr (fst t); JArr (map JStr (snd t))]) (f_tags f)))].
Definition run_validate (v : jv) : jv :=
  match validate_filter (as_int (jfield "max_limit" v)) (jfield "raw" v) with
  | FOk f => jobj [("k", jstr "ok"); ("f", jv_of_filter f)]
  | FInvalid => jobj [("k", jstr "invalid")]
  | FNotQuery => jobj [("k", jstr "notquery")]
  | FCrash => jobj [("k", jstr "crash")]
  | FUnmodelled => jobj [("k", jstr "unmodelled")]
  end.
Definition run_live (v : jv) : jv :=
  JBool (check_event (map filter_of_jv (as_arr (jfield "filters" v))) (wevent_of_jv (jfield "event" v))).

Definition suites : list (string * (jv -> jv)) :=
  [("relay.run", run_relay); ("relay.validate", run_validate); ("relay.live", run_live)].
Definition dispatch := dispatch_in suites.
