(* C13(a): over every schedule, a connection never receives more EOSE frames for a
   subscription id than the number of REQs it sent for that id; a REQ whose query task is
   still running is the only thing that can still produce one.  (SQL backend; on LMDB a
   cancelled task additionally emits its sentinel - covered by the trace validation.) *)
From NR Require Import Lib.Base Lib.BaseFacts Lib.PyRt Lib.Nip01 Gen.Web Filt.Model Live.Model RELAY.Model RELAY.Proofs.
From Coq Require Import ZifyBool.
Open Scope list_scope.

Definition is_eose (sid : pystr) (f : frame) : bool :=
  match f with FrEose s => str_eqb s sid | _ => false end.
Definition eose_n (sid : pystr) (out : list frame) : nat := length (List.filter (is_eose sid) out).
(* registrations under sid whose query task has not yet emitted its sentinel *)
Definition pend (sid : pystr) (x : conn) : nat :=
  length (List.filter (fun p => str_eqb (fst p) sid && sb_running (snd p)) (c_subs x)).

Definition req_of (c : nat) (sid : pystr) (o : op) : nat :=
  match o with
  | OMsg c' m lim _ _ _ _ _ =>
      if Nat.eqb c c' && validate_message m && negb lim && str_eqb (as_str (jv_nth 0 m)) (pys "REQ")
         && match py_str (jv_nth 1 m) with Some s => str_eqb s sid | None => false end
      then 1 else 0
  | OReqGone c' m _ _ _ =>
      if Nat.eqb c c' && validate_message m && negb false && str_eqb (as_str (jv_nth 0 m)) (pys "REQ")
         && match py_str (jv_nth 1 m) with Some s => str_eqb s sid | None => false end
      then 1 else 0
  | _ => 0
  end%nat.
Fixpoint reqs (c : nat) (sid : pystr) (ops : list op) : nat :=
  match ops with [] => 0 | o :: r => req_of c sid o + reqs c sid r end%nat.

Definition Acc (st : rstate) (n : nat -> pystr -> nat) : Prop :=
  forall c x, get_conn c (r_conns st) = Some x ->
    c_deferred x = [] /\ forall sid, (eose_n sid (c_out x) + pend sid x <= n c sid)%nat.

(* ---- effect of the primitive operations on the two counters ---- *)
Lemma eose_emit sid f x :
  eose_n sid (c_out (emit f x)) = (eose_n sid (c_out x) + (if c_open x && is_eose sid f then 1 else 0))%nat.
Proof.
  unfold emit, eose_n. destruct (c_open x); simpl; [|lia].
  destruct (is_eose sid f); simpl; lia.
Qed.
Lemma eose_emit_le sid f x : is_eose sid f = false -> eose_n sid (c_out (emit f x)) = eose_n sid (c_out x).
Proof. intros H. rewrite eose_emit, H, andb_false_r. lia. Qed.
Lemma pend_emit sid f x : pend sid (emit f x) = pend sid x.
Proof. unfold pend. rewrite emit_subs. reflexivity. Qed.
Lemma deferred_emit f x : c_deferred (emit f x) = c_deferred x.
Proof. unfold emit. destruct (c_open x); reflexivity. Qed.

Lemma pend_del_le sid s l :
  (length (List.filter (fun p : pystr * sub => str_eqb (fst p) sid && sb_running (snd p)) (del_sub s l))
   <= length (List.filter (fun p : pystr * sub => str_eqb (fst p) sid && sb_running (snd p)) l))%nat.
Proof.
  induction l as [|[s' y] l IH]; simpl; [lia|].
  destruct (str_eqb s s'); simpl.
  - destruct (str_eqb s' sid && sb_running y); simpl; lia.
  - destruct (str_eqb s' sid && sb_running y); simpl; lia.
Qed.
Lemma pend_del_same sid l :
  get_sub sid l <> None ->
  forall sb, get_sub sid l = Some sb -> sb_running sb = true ->
  (S (length (List.filter (fun p : pystr * sub => str_eqb (fst p) sid && sb_running (snd p)) (del_sub sid l)))
   = length (List.filter (fun p : pystr * sub => str_eqb (fst p) sid && sb_running (snd p)) l))%nat.
Proof.
  intros _. induction l as [|[s' y] l IH]; simpl; [discriminate|].
  intros sb. destruct (str_eqb sid s') eqn:E.
  - intros H Hr; inversion H; subst. apply str_eqb_eq in E. subst s'. rewrite str_eqb_refl, Hr. simpl. reflexivity.
  - intros H Hr. simpl. rewrite str_eqb_sym, E. simpl. apply (IH sb H Hr).
Qed.

Lemma pend_cancel_le cfg s sid x : (pend sid (cancel_sub cfg s x) <= pend sid x)%nat.
Proof. unfold pend. rewrite cancel_sub_subs. apply pend_del_le. Qed.
Lemma out_cancel cfg s x : c_out (cancel_sub cfg s x) = c_out x.
Proof.
  unfold cancel_sub. destruct (get_sub s (c_subs x)); [|reflexivity].
  destruct (kv_backend cfg && sb_running s0); reflexivity.
Qed.
Lemma deferred_cancel_sql cfg s x : kv_backend cfg = false -> c_deferred (cancel_sub cfg s x) = c_deferred x.
Proof. intros H. unfold cancel_sub. destruct (get_sub s (c_subs x)); [|reflexivity]. rewrite H. reflexivity. Qed.
Lemma pend_cancel_other cfg s sid x : str_eqb s sid = false -> pend sid (cancel_sub cfg s x) = pend sid x.
Proof.
  intros H. unfold pend. rewrite cancel_sub_subs. induction (c_subs x) as [|[s' y] l IH]; simpl; [reflexivity|].
  destruct (str_eqb s s') eqn:E; simpl.
  - apply str_eqb_eq in E. subst s'. rewrite H. reflexivity.
  - destruct (str_eqb s' sid && sb_running y); simpl; rewrite IH; reflexivity.
Qed.

Lemma flush_nil x : c_deferred x = [] -> flush x = x.
Proof. intros H. unfold flush. rewrite H. simpl. destruct x; simpl in *; subst; reflexivity. Qed.

Lemma pend_app sid l s sb :
  length (List.filter (fun p : pystr * sub => str_eqb (fst p) sid && sb_running (snd p)) (l ++ [(s, sb)]))
  = (length (List.filter (fun p : pystr * sub => str_eqb (fst p) sid && sb_running (snd p)) l)
     + (if str_eqb s sid && sb_running sb then 1 else 0))%nat.
Proof. rewrite filter_app, app_length. simpl. destruct (str_eqb s sid && sb_running sb); simpl; lia. Qed.

(* ---- the handler ---- *)
Definition Pre (x : conn) (k : pystr -> nat) : Prop :=
  c_deferred x = [] /\ forall sid, (eose_n sid (c_out x) + pend sid x <= k sid)%nat.

Lemma handle_req_acc cfg st c x a1 raws rows prep cq st' x' d k :
  kv_backend cfg = false -> Pre x k ->
  handle_req cfg st c x a1 raws rows prep cq = (st', x', d) ->
  r_conns st' = r_conns st /\
  Pre x' (fun sid => k sid + match py_str a1 with Some s => if str_eqb s sid then 1 else 0 | None => 0 end)%nat.
Proof.
  intros Hk [Hd Hx]. unfold handle_req.
  destruct (py_str a1) as [s|]; [|intros E; inversion E; subst; split; [reflexivity|split; [assumption|intros; specialize (Hx sid); lia]]].
  set (x1 := cancel_sub cfg s x).
  assert (H1 : forall sid, (eose_n sid (c_out x1) + pend sid x1 <= k sid)%nat).
  { intros sid. unfold x1. rewrite out_cancel. pose proof (pend_cancel_le cfg s sid x). specialize (Hx sid). lia. }
  assert (H1s : (eose_n s (c_out x1) + 0 <= k s)%nat).
  { unfold x1. rewrite out_cancel. specialize (Hx s). lia. }
  assert (Hd1 : c_deferred x1 = []) by (unfold x1; rewrite deferred_cancel_sql; assumption).
  assert (Gen : forall f y, c_deferred y = [] ->
            (forall sid, (eose_n sid (c_out y) + pend sid y <= k sid)%nat) ->
            (forall sid, is_eose sid f = true -> str_eqb s sid = true) ->
            Pre (emit f y) (fun sid => k sid + (if str_eqb s sid then 1 else 0))%nat).
  { intros f y Hdy Hy Hf. split; [rewrite deferred_emit; assumption|]. intros sid.
    rewrite eose_emit, pend_emit. specialize (Hy sid). specialize (Hf sid).
    destruct (is_eose sid f); [rewrite (Hf eq_refl)|]; destruct (c_open y); simpl; lia. }
  match goal with |- context [if ?b then (_, emit (FrNotice s_rejected) x1, _) else _] => destruct b end.
  - intros E; inversion E; subst. split; [reflexivity|]. apply Gen; auto. intros sid H; discriminate.
  - destruct (validate_all (max_limit cfg) raws) as [fs| | |].
    + destruct fs as [|f fs].
      * intros E; inversion E; subst. split; [reflexivity|].
        assert (P := Gen (FrEose s) x1 Hd1 H1 (fun sid H => H)).
        destruct P as [P1 P2]. split; [exact P1|]. intros sid. specialize (P2 sid).
        unfold pend in *. simpl in *. exact P2.
      * destruct prep; [destruct cq|]; intros E; inversion E; subst; (split; [reflexivity|]).
        -- split; [simpl; assumption|]. intros sid. unfold pend. simpl. rewrite pend_app. simpl.
           specialize (H1 sid). unfold pend in H1. rewrite andb_true_r.
           destruct (str_eqb s sid) eqn:Es; simpl; lia.
        -- apply Gen; auto. intros sid H; discriminate.
        -- assert (P := Gen (FrEose s) x1 Hd1 H1 (fun sid H => H)).
           destruct P as [P1 P2]. split; [exact P1|]. intros sid. specialize (P2 sid).
           unfold pend in *. simpl in *. exact P2.
    + intros E; inversion E; subst. split; [reflexivity|]. apply Gen; auto. intros sid H; discriminate.
    + intros E; inversion E; subst. split; [reflexivity|]. apply Gen; auto. intros sid H; discriminate.
    + intros E; inversion E; subst. split; [reflexivity|]. split; [assumption|]. intros sid. specialize (H1 sid). lia.
Qed.

Lemma Pre_emit_noeose f x k :
  (forall sid, is_eose sid f = false) -> Pre x k -> Pre (emit f x) k.
Proof.
  intros Hf [Hd Hx]. split; [rewrite deferred_emit; assumption|]. intros sid.
  rewrite eose_emit_le, pend_emit by apply Hf. apply Hx.
Qed.
Lemma Pre_mono x k k' : (forall sid, (k sid <= k' sid)%nat) -> Pre x k -> Pre x k'.
Proof. intros H [Hd Hx]. split; [assumption|]. intros sid. specialize (Hx sid). specialize (H sid). lia. Qed.
Lemma Pre_throttle t x k : Pre x k -> Pre (with_throttle t x) k.
Proof. intros H. exact H. Qed.

Definition msg_req (m : jv) (lim : bool) (sid : pystr) : nat :=
  if validate_message m && negb lim && str_eqb (as_str (jv_nth 0 m)) (pys "REQ")
     && match py_str (jv_nth 1 m) with Some s => str_eqb s sid | None => false end then 1%nat else 0%nat.

Lemma handle_msg_acc cfg st c x m lim rows prep cq add auth st' x' d k :
  kv_backend cfg = false -> Pre x k ->
  handle_msg cfg st c x m lim rows prep cq add auth = (st', x', d) ->
  r_conns st' = r_conns st /\ Pre x' (fun sid => k sid + msg_req m lim sid)%nat.
Proof.
  intros Hk HP. unfold handle_msg, msg_req.
  assert (Up : forall y, Pre y k -> Pre y (fun sid => (k sid + msg_req m lim sid)%nat))
    by (intros y; apply Pre_mono; intros; lia).
  unfold msg_req in Up.
  destruct (validate_message m) eqn:Hv; simpl; [|intros E; inversion E; subst; split; [reflexivity | apply Up; assumption]].
  destruct lim; simpl.
  - destruct (str_eqb (as_str (jv_nth 0 m)) (pys "EVENT")).
    + destruct (jv_nth 1 m); try (intros E; inversion E; subst; split; [reflexivity|];
        apply Up; apply Pre_throttle; apply Pre_emit_noeose; [intros; reflexivity | assumption]).
      destruct (jget (pys "id") kv) as [[]|]; intros E; inversion E; subst; split; try reflexivity;
        apply Up; try assumption; apply Pre_throttle; apply Pre_emit_noeose; try assumption; intros; reflexivity.
    + intros E; inversion E; subst; split; [reflexivity|].
      apply Up; apply Pre_throttle; apply Pre_emit_noeose; [intros; reflexivity | assumption].
  - destruct (str_eqb (as_str (jv_nth 0 m)) (pys "REQ")) eqn:Er; simpl.
    + intros E. destruct (handle_req_acc _ _ _ _ _ _ _ _ _ _ _ _ _ Hk HP E) as [A B]. split; [assumption|].
      eapply Pre_mono; [|exact B]. intros sid. simpl.
      destruct (py_str (jv_nth 1 m)) as [s0|]; [destruct (str_eqb s0 sid)|]; simpl; lia.
    + destruct (str_eqb (as_str (jv_nth 0 m)) (pys "CLOSE")).
      * destruct (py_str (jv_nth 1 m)) as [s|]; intros E; inversion E; subst; split; try reflexivity; apply Up; try assumption.
        destruct HP as [Hd Hx]. split; [rewrite deferred_cancel_sql; assumption|]. intros sid.
        rewrite out_cancel. pose proof (pend_cancel_le cfg s sid x). specialize (Hx sid). lia.
      * destruct (str_eqb (as_str (jv_nth 0 m)) (pys "EVENT")).
        -- destruct add as [e changed|r|r].
           ++ destruct changed; intros E; inversion E; subst; (split; [reflexivity|]);
                apply Up; apply Pre_emit_noeose; try assumption; intros; reflexivity.
           ++ intros E; inversion E; subst; (split; [reflexivity|]);
                apply Up; apply Pre_throttle; apply Pre_emit_noeose; try assumption; intros; reflexivity.
           ++ intros E; inversion E; subst; (split; [reflexivity|]);
                apply Up; apply Pre_emit_noeose; try assumption; intros; reflexivity.
        -- destruct (auth_enabled cfg); [destruct auth|]; intros E; inversion E; subst; split; try reflexivity;
             apply Up; try assumption; apply Pre_emit_noeose; try assumption; intros; reflexivity.
Qed.

(* the handler only ever appends frames to the transcript *)
Definition Prep (x y : conn) : Prop := exists l, c_out y = l ++ c_out x.
Lemma Prep_refl x : Prep x x. Proof. exists []. reflexivity. Qed.
Lemma Prep_emit f x y : Prep x y -> Prep x (emit f y).
Proof. intros [l E]. unfold emit. destruct (c_open y); [exists (f :: l); simpl; rewrite E; reflexivity | exists l; assumption]. Qed.
Lemma Prep_cancel cfg s x : Prep x (cancel_sub cfg s x).
Proof. exists []. simpl. apply out_cancel. Qed.

Lemma handle_msg_prepends cfg st c x m lim rows prep cq add auth st' x' d :
  handle_msg cfg st c x m lim rows prep cq add auth = (st', x', d) -> Prep x x'.
Proof.
  unfold handle_msg.
  destruct (negb (validate_message m)); [intros E; inversion E; subst; apply Prep_refl|].
  destruct lim.
  - destruct (str_eqb (as_str (jv_nth 0 m)) (pys "EVENT")).
    + destruct (jv_nth 1 m); try (intros E; inversion E; subst; apply (Prep_emit _ x x), Prep_refl).
      destruct (jget (pys "id") kv) as [[]|]; intros E; inversion E; subst;
        try apply Prep_refl; apply (Prep_emit _ x x), Prep_refl.
    + intros E; inversion E; subst. apply (Prep_emit _ x x), Prep_refl.
  - destruct (str_eqb (as_str (jv_nth 0 m)) (pys "REQ")).
    + unfold handle_req. destruct (py_str (jv_nth 1 m)) as [s|]; [|intros E; inversion E; subst; apply Prep_refl].
      pose proof (Prep_cancel cfg s x) as Pc.
      match goal with |- context [if ?b then (_, emit (FrNotice s_rejected) _, _) else _] => destruct b end;
        [intros E; inversion E; subst; apply Prep_emit; assumption|].
      destruct (validate_all _ _) as [fs| | |]; try (intros E; inversion E; subst; try apply Prep_emit; assumption).
      destruct fs; [intros E; inversion E; subst; destruct Pc as [l El]; exists (if c_open (cancel_sub cfg s x) then FrEose s :: l else l);
                    unfold emit; simpl; destruct (c_open (cancel_sub cfg s x)); simpl; rewrite El; reflexivity|].
      destruct prep; [destruct cq|]; intros E; inversion E; subst.
      * destruct Pc as [l El]. exists l. simpl. assumption.
      * apply Prep_emit; assumption.
      * destruct Pc as [l El]. exists (if c_open (cancel_sub cfg s x) then FrEose s :: l else l).
        unfold emit; simpl; destruct (c_open (cancel_sub cfg s x)); simpl; rewrite El; reflexivity.
    + destruct (str_eqb (as_str (jv_nth 0 m)) (pys "CLOSE")).
      * destruct (py_str (jv_nth 1 m)); intros E; inversion E; subst; [apply Prep_cancel | apply Prep_refl].
      * destruct (str_eqb (as_str (jv_nth 0 m)) (pys "EVENT")).
        -- destruct add as [e changed|r|r]; intros E; inversion E; subst; apply (Prep_emit _ x x), Prep_refl.
        -- destruct (auth_enabled cfg); [destruct auth|]; intros E; inversion E; subst;
             try apply Prep_refl; apply (Prep_emit _ x x), Prep_refl.
Qed.

Lemma eose_filter_le sid (f : frame -> bool) l out :
  (eose_n sid (List.filter f l ++ out) <= eose_n sid (l ++ out))%nat.
Proof.
  unfold eose_n. rewrite !filter_app, !app_length.
  assert (length (List.filter (is_eose sid) (List.filter f l)) <= length (List.filter (is_eose sid) l))%nat.
  { induction l as [|a l IH]; simpl; [lia|]. destruct (f a); simpl; destruct (is_eose sid a); simpl; lia. }
  lia.
Qed.

(* ---- lifting to states ---- *)
Lemma Acc_set st c x n n' :
  Acc st n -> (forall c' sid, (n c' sid <= n' c' sid)%nat) -> Pre x (n' c) ->
  forall c' y, get_conn c' (set_conn c x (r_conns st)) = Some y ->
    c_deferred y = [] /\ forall sid, (eose_n sid (c_out y) + pend sid y <= n' c' sid)%nat.
Proof.
  intros HA Hm HP c' y. destruct (Nat.eq_dec c c') as [->|Hn].
  - rewrite get_set_conn_same. intros E; inversion E; subst. exact HP.
  - rewrite get_set_conn_other by assumption. intros E. destruct (HA _ _ E) as [A B]. split; [assumption|].
    intros sid. specialize (B sid). specialize (Hm c' sid). lia.
Qed.

Lemma run_ntask_acc st t n : Acc st n -> Acc (run_ntask st t) n.
Proof.
  intros HA. unfold run_ntask. destruct (get_conn (n_cid t) (r_conns st)) as [x|] eqn:E; [|assumption].
  destruct (check_event (n_filters t) (n_event t)); [|assumption].
  unfold Acc. simpl. apply (Acc_set st (n_cid t) _ n n HA); [intros; lia|].
  apply Pre_emit_noeose; [intros; reflexivity | exact (HA _ _ E)].
Qed.
Lemma drain_acc st n : Acc st n -> Acc (drain_pending st) n.
Proof.
  intros H. unfold drain_pending, Acc. simpl.
  assert (G : forall l s, Acc s n -> Acc (fold_left run_ntask l s) n)
    by (induction l as [|t l IH]; simpl; intros s Hs; [assumption | apply IH, run_ntask_acc, Hs]).
  apply (G (r_pending st) st H).
Qed.

Lemma Pre_closed x k : Pre x k -> Pre (closed x) k.
Proof. intros [_ Hx]. split; [reflexivity|]. intros sid. specialize (Hx sid). unfold pend in *. simpl. lia. Qed.

Lemma fold_emit_events sid batch : forall y k, Pre y k ->
  Pre (fold_left (fun y eid => emit (FrEvent sid eid) y) batch y) k.
Proof.
  induction batch as [|e l IH]; simpl; intros y k H; [assumption|].
  apply IH. apply Pre_emit_noeose; [intros; reflexivity | assumption].
Qed.

Lemma pend_upd_stop sid s sb sb1 l :
  get_sub s l = Some sb -> sb_running sb = true -> sb_running sb1 = false ->
  (length (List.filter (fun p : pystr * sub => str_eqb (fst p) sid && sb_running (snd p)) (upd_sub s sb1 l))
   + (if str_eqb s sid then 1 else 0)
   = length (List.filter (fun p : pystr * sub => str_eqb (fst p) sid && sb_running (snd p)) l))%nat.
Proof.
  intros Hg Hr Hr1. induction l as [|[s' y] l IH]; simpl in *; [discriminate|].
  destruct (str_eqb s s') eqn:E.
  - inversion Hg; subst. apply str_eqb_eq in E. subst s'. simpl. rewrite Hr, Hr1.
    destruct (str_eqb s sid); simpl; lia.
  - simpl. specialize (IH Hg).
    destruct (str_eqb s' sid && sb_running y); simpl; lia.
Qed.
Lemma pend_upd_same sid s sb sb1 l :
  get_sub s l = Some sb -> sb_running sb = sb_running sb1 ->
  length (List.filter (fun p : pystr * sub => str_eqb (fst p) sid && sb_running (snd p)) (upd_sub s sb1 l))
  = length (List.filter (fun p : pystr * sub => str_eqb (fst p) sid && sb_running (snd p)) l).
Proof.
  intros Hg Hr. induction l as [|[s' y] l IH]; simpl in *; [discriminate|].
  destruct (str_eqb s s') eqn:E.
  - inversion Hg; subst. simpl. rewrite Hr. destruct (str_eqb s' sid && sb_running sb1); reflexivity.
  - simpl. destruct (str_eqb s' sid && sb_running y); simpl; rewrite (IH Hg); reflexivity.
Qed.

Theorem step_acc cfg st o st' n :
  kv_backend cfg = false -> Acc st n -> step cfg st o = SOkS st' ->
  Acc st' (fun c sid => n c sid + req_of c sid o)%nat.
Proof.
  intros Hk HA.
  assert (Up : forall s, Acc s n -> Acc s (fun c sid => n c sid + req_of c sid o)%nat).
  { intros s H c x E. destruct (H c x E) as [A B]. split; [assumption|]. intros sid. specialize (B sid). lia. }
  destruct o as [c|c m lim rows prep cq add auth|c|c|c sid|k|c|c m rows prep cq]; simpl.
  - destruct (get_conn c (r_conns st)); [discriminate|]. intros E; inversion E; subst.
    unfold Acc. simpl. apply (Acc_set st c new_conn n); [assumption | intros; lia|].
    split; [reflexivity|]. intros sid. unfold eose_n, pend. simpl. lia.
  - match goal with |- context [if ?b then drain_pending st else st] =>
      set (st0 := if b then drain_pending st else st);
      assert (HA0 : Acc st0 n) by (unfold st0; destruct b; [apply drain_acc|]; assumption) end.
    destruct (get_conn c (r_conns st0)) as [x|] eqn:Ex; [|discriminate].
    destruct (c_open x); [|discriminate].
    destruct (handle_msg cfg st0 c x m lim rows prep cq add auth) as [[st1 x1] d] eqn:Eh.
    destruct (handle_msg_acc _ _ _ _ _ _ _ _ _ _ _ _ _ _ (n c) Hk (HA0 _ _ Ex) Eh) as [Hc HP].
    assert (HP' : Pre x1 (fun sid => n c sid + req_of c sid (OMsg c m lim rows prep cq add auth))%nat).
    { eapply Pre_mono; [|exact HP]. intros sid. unfold msg_req. simpl. rewrite Nat.eqb_refl. simpl. lia. }
    assert (HA1 : Acc {| r_conns := r_conns st0; r_registry := r_registry st1; r_pending := r_pending st1; r_gen := r_gen st1 |} n)
      by exact HA0.
    destruct d; intros E; inversion E; subst; unfold Acc; simpl; rewrite Hc.
    + apply (Acc_set st0 c _ n); [assumption | intros; lia|].
      rewrite flush_nil by (destruct HP' as [A _]; exact A). exact HP'.
    + apply (Acc_set st0 c _ n); [assumption | intros; lia|]. apply Pre_closed. exact HP'.
  - destruct (get_conn c (r_conns st)) as [x|]; [|discriminate]. destruct (c_open x); [|discriminate].
    intros E; inversion E; subst. apply Up. assumption.
  - destruct (get_conn c (r_conns st)) as [x|] eqn:Ex; [|discriminate]. destruct (c_open x); [|discriminate].
    intros E; inversion E; subst. unfold Acc, drop_conn. simpl.
    apply (Acc_set st c _ n); [assumption | intros; lia|]. apply Pre_closed.
    eapply Pre_mono; [|apply Pre_emit_noeose; [intros; reflexivity | exact (HA _ _ Ex)]]. intros; simpl; lia.
  - destruct (get_conn c (r_conns st)) as [x|] eqn:Ex; [|discriminate].
    destruct (get_sub sid (c_subs x)) as [sb|] eqn:Eg; [|discriminate].
    destruct (sb_running sb) eqn:Er; [|discriminate].
    unfold row_step. rewrite Er.
    destruct (HA _ _ Ex) as [Hd Hx].
    destruct (sb_rows sb) as [|batch rest]; intros E; inversion E; subst; unfold Acc; simpl;
      apply (Acc_set st c _ n); try assumption; try (intros; lia).
    + (* sentinel *)
      split; [simpl; rewrite deferred_emit; assumption|]. intros sid0. simpl.
      unfold pend. simpl. rewrite emit_subs.
      pose proof (pend_upd_stop sid0 sid sb {| sb_filters := sb_filters sb; sb_gen := sb_gen sb; sb_rows := []; sb_running := false |}
                    (c_subs x) Eg Er eq_refl) as Hp.
      rewrite eose_emit. specialize (Hx sid0). unfold pend in Hx. simpl.
      destruct (c_open x); simpl; destruct (str_eqb sid sid0); simpl in *; lia.
    + (* a batch of stored rows *)
      pose proof (fold_emit_events sid batch x (n c) (conj Hd Hx)) as [Hd' Hx'].
      split; [simpl; assumption|]. intros sid0. simpl. unfold pend. simpl.
      assert (G : forall l y, c_subs (fold_left (fun y eid => emit (FrEvent sid eid) y) l y) = c_subs y).
      { induction l as [|a l IH]; simpl; intros y; [reflexivity|]. rewrite IH. apply emit_subs. }
      rewrite G.
      rewrite (pend_upd_same sid0 sid sb _ (c_subs x) Eg) by (simpl; assumption).
      specialize (Hx' sid0). unfold pend in Hx'. rewrite G in Hx'. lia.
  - destruct (nth_error (r_pending st) k) as [t|]; [|discriminate].
    intros E; inversion E; subst. apply Up. unfold Acc. simpl. apply run_ntask_acc. assumption.
  - destruct (get_conn c (r_conns st)) as [x|] eqn:Ex; [|discriminate]. destruct (c_open x); [|discriminate].
    intros E; inversion E; subst. unfold Acc, drop_conn. simpl.
    apply (Acc_set st c _ n); [assumption | intros; lia|]. apply Pre_closed.
    eapply Pre_mono; [|exact (HA _ _ Ex)]. intros; simpl; lia.
  - destruct (get_conn c (r_conns st)) as [x|] eqn:Ex; [|discriminate]. destruct (c_open x); [|discriminate].
    destruct (handle_msg cfg st c x m false rows prep cq (AddCrash []) AuthOk) as [[st1 x1] d] eqn:Eh.
    destruct (handle_msg_acc _ _ _ _ _ _ _ _ _ _ _ _ _ _ (n c) Hk (HA _ _ Ex) Eh) as [Hc HP].
    destruct (handle_msg_prepends _ _ _ _ _ _ _ _ _ _ _ _ _ _ Eh) as [l El].
    assert (Hfresh : firstn (length (c_out x1) - length (c_out x)) (c_out x1) = l).
    { rewrite El, app_length. replace (length l + length (c_out x) - length (c_out x))%nat with (length l) by lia.
      rewrite firstn_app, Nat.sub_diag, firstn_all. simpl. apply app_nil_r. }
    assert (Fin : forall kept, (forall sid, (eose_n sid (kept ++ c_out x) <= eose_n sid (c_out x1))%nat) ->
            Acc (drop_conn st1 c {| c_subs := c_subs x1; c_out := kept ++ c_out x; c_open := c_open x1;
                                    c_throttle := c_throttle x1; c_sender := c_sender x1; c_deferred := [] |})
                (fun c0 sid => (n c0 sid + req_of c0 sid (OReqGone c m rows prep cq))%nat)).
    { intros kept Hkept. unfold Acc, drop_conn. simpl. rewrite Hc.
      apply (Acc_set st c _ n); [assumption | intros; lia|]. split; [reflexivity|]. intros sid. unfold pend. simpl.
      destruct HP as [_ HP]. specialize (HP sid). specialize (Hkept sid). unfold msg_req in HP. simpl.
      rewrite Nat.eqb_refl. simpl in *. lia. }
    destruct d; intros E; try discriminate; injection E as <-; rewrite Hfresh; apply Fin; intros sid; rewrite El;
      (destruct ((0 <? c_throttle x)%Z && c_sender x); [lia | apply eose_filter_le]).
Qed.

Theorem run_acc cfg ops : forall st st' n,
  kv_backend cfg = false -> Acc st n -> run cfg st ops = SOkS st' ->
  Acc st' (fun c sid => n c sid + reqs c sid ops)%nat.
Proof.
  induction ops as [|o ops IH]; simpl; intros st st' n Hk HA.
  - intros E; inversion E; subst. intros c x Ex. destruct (HA c x Ex) as [A B]. split; [assumption|].
    intros sid. specialize (B sid). lia.
  - destruct (step cfg st o) as [st1| |] eqn:Es; try discriminate. intros E.
    pose proof (IH st1 st' _ Hk (step_acc _ _ _ _ _ Hk HA Es) E) as H.
    intros c x Ex. destruct (H c x Ex) as [A B]. split; [assumption|]. intros sid. specialize (B sid). lia.
Qed.

(* the headline: from the initial state, for every schedule *)
Theorem eose_at_most_one_per_req cfg ops st c x sid :
  kv_backend cfg = false -> run cfg init ops = SOkS st -> get_conn c (r_conns st) = Some x ->
  (eose_n sid (c_out x) + pend sid x <= reqs c sid ops)%nat.
Proof.
  intros Hk Hr Ex.
  assert (A0 : Acc init (fun _ _ => 0%nat)) by (intros c0 x0 E; simpl in E; discriminate).
  destruct (run_acc cfg ops init st _ Hk A0 Hr c x Ex) as [_ B]. specialize (B sid). simpl in B. lia.
Qed.
