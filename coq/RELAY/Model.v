(* The asynchronous core as a deterministic machine driven by an explicit schedule
   (DESIGN 3.4): web.start_client's command loop, BaseStorage.subscribe / unsubscribe /
   notify_all_connected, BaseSubscription.notify, the per-subscription query task and the
   per-connection outbound FIFO.  What the storage engine answers (stored rows of a REQ,
   outcome of add_event, outcome of authenticate, rate-limiter verdict) is DATA carried by
   the schedule: the storage models are tied to the code elsewhere (C01/C02/C06/C15). *)
From NR Require Import Lib.Base Lib.PyRt Lib.Nip01 Gen.Web Filt.Model Live.Model.
Open Scope string_scope. Open Scope list_scope. Open Scope Z_scope.

(* ---------- frames as observed at ws_send ---------- *)
Inductive frame :=
| FrEvent (sid : pystr) (eid : pystr)
| FrEose (sid : pystr)
| FrOk (eid : pystr) (ok : bool) (reason : pystr)      (* reason: class prefix up to ':' *)
| FrNotice (cls : pystr)
| FrClosed (code : Z).

(* ---------- state ---------- *)
Record sub := { sb_filters : list filter;      (* validated filters, used by live matching *)
                sb_gen : nat;                   (* generation: distinguishes re-REQs under one id *)
                sb_rows : list (list pystr);    (* batches of stored rows the query task has still to enqueue
                                                   (SQL: one row per step; LMDB: one plan per step) *)
                sb_running : bool }.            (* query task not finished (sentinel not yet enqueued) *)
Record conn := { c_subs : list (pystr * sub);   (* dict order *)
                 c_out : list frame;            (* transcript, newest first *)
                 c_open : bool;
                 c_throttle : Z;                (* in quarter seconds; only its growth matters *)
                 c_sender : bool;               (* send task created *)
                 c_deferred : list frame }.     (* frames a cancelled LMDB query task will enqueue once the
                                                   current handler step yields (its `finally` sentinel) *)
Record ntask := { n_cid : nat; n_sid : pystr; n_gen : nat; n_filters : list filter; n_event : wevent }.
Record rstate := { r_conns : list (nat * conn);     (* registry order = order of first subscribe *)
                   r_registry : list nat;           (* cids present in storage.clients, in dict order *)
                   r_pending : list ntask;          (* notify tasks created and not yet run *)
                   r_gen : nat }.

Record rcfg := { sub_limit : Z; max_limit : Z; kv_backend : bool; auth_enabled : bool }.

(* ---------- schedule ---------- *)
Inductive addres := AddOk (e : wevent) (changed : bool) | AddRefused (reason : pystr) | AddCrash (reason : pystr).
Inductive authres := AuthOk | AuthErr (reason : pystr) | AuthCrash.
Inductive op :=
| OOpen (c : nat)
| OMsg (c : nat) (m : jv) (limited : bool)          (* a decoded client frame; limiter verdict.  limited = true
                                                        with m not well-formed never happens (the limiter is asked
                                                        after validate_message) *)
       (rows : list (list pystr)) (prep : bool) (can_query : bool)   (* REQ: stored answer, prepare(), can_do(query) *)
       (add : addres) (auth : authres)              (* EVENT / AUTH outcomes *)
| OBadJson (c : nat)                                 (* text the JSON decoder rejects (JSONDecodeError): ignored *)
| OCrashJson (c : nat)                               (* the decoder raises something else (RecursionError on deep nesting,
                                                        UnicodeEncodeError on lone surrogates): generic handler, close 1013 *)
| ORow (c : nat) (sid : pystr)                      (* the query task of the registered (c,sid) takes one step *)
| ONotify (k : nat)                                 (* the k-th pending notify task runs *)
| ODrop (c : nat)                                   (* the client goes away *)
| OReqGone (c : nat) (m : jv)                       (* the client sends a REQ and is gone before the send task ever
                                                        runs: what the handler put on the subscription queue is never
                                                        sent; frames written directly (NOTICE, close) are *)
           (rows : list (list pystr)) (prep : bool) (can_query : bool).

(* ---------- helpers ---------- *)
Fixpoint get_conn (c : nat) (l : list (nat * conn)) : option conn :=
  match l with [] => None | (c', x) :: r => if Nat.eqb c c' then Some x else get_conn c r end.
Fixpoint set_conn (c : nat) (x : conn) (l : list (nat * conn)) : list (nat * conn) :=
  match l with
  | [] => [(c, x)]
  | (c', y) :: r => if Nat.eqb c c' then (c, x) :: r else (c', y) :: set_conn c x r
  end.
Fixpoint get_sub (s : pystr) (l : list (pystr * sub)) : option sub :=
  match l with [] => None | (s', x) :: r => if str_eqb s s' then Some x else get_sub s r end.
Fixpoint del_sub (s : pystr) (l : list (pystr * sub)) : list (pystr * sub) :=
  match l with [] => [] | (s', x) :: r => if str_eqb s s' then r else (s', x) :: del_sub s r end.
Fixpoint upd_sub (s : pystr) (y : sub) (l : list (pystr * sub)) : list (pystr * sub) :=
  match l with [] => [] | (s', x) :: r => if str_eqb s s' then (s', y) :: r else (s', x) :: upd_sub s y r end.
Definition emit (f : frame) (x : conn) : conn :=
  if c_open x then {| c_subs := c_subs x; c_out := f :: c_out x; c_open := true;
                      c_throttle := c_throttle x; c_sender := c_sender x; c_deferred := c_deferred x |} else x.
(* frames put on the subscription queue reach the client only once the send task exists;
   the send task is created by the first successful REQ and drains the queue in order, so
   queue order = transcript order for those frames (R4) *)
Definition with_subs (l : list (pystr * sub)) (x : conn) : conn :=
  {| c_subs := l; c_out := c_out x; c_open := c_open x; c_throttle := c_throttle x; c_sender := c_sender x;
     c_deferred := c_deferred x |}.
Definition with_throttle (t : Z) (x : conn) : conn :=
  {| c_subs := c_subs x; c_out := c_out x; c_open := c_open x; c_throttle := t; c_sender := c_sender x;
     c_deferred := c_deferred x |}.
Definition with_sender (x : conn) : conn :=
  {| c_subs := c_subs x; c_out := c_out x; c_open := c_open x; c_throttle := c_throttle x; c_sender := true;
     c_deferred := c_deferred x |}.
Definition closed (x : conn) : conn :=
  {| c_subs := []; c_out := c_out x; c_open := false; c_throttle := c_throttle x; c_sender := c_sender x;
     c_deferred := [] |}.
Definition defer (f : frame) (x : conn) : conn :=
  {| c_subs := c_subs x; c_out := c_out x; c_open := c_open x; c_throttle := c_throttle x; c_sender := c_sender x;
     c_deferred := c_deferred x ++ [f] |}.
(* the step has yielded: the deferred frames are enqueued, in order *)
Definition flush (x : conn) : conn :=
  let y := fold_left (fun y f => emit f y) (c_deferred x) x in
  {| c_subs := c_subs y; c_out := c_out y; c_open := c_open y; c_throttle := c_throttle y; c_sender := c_sender y;
     c_deferred := [] |}.

(* str(message[1]) for the JSON values modelled: strings, integers, booleans, null *)
Definition py_str (v : jv) : option pystr :=
  match v with
  | JStr s => Some s
  | JInt z => Some (dec_of_Z z)
  | JBool true => Some (pys "True")
  | JBool false => Some (pys "False")
  | JNull => Some (pys "None")
  | _ => None
  end.

Definition reason_class (s : pystr) : pystr :=
  (fix go (l : pystr) := match l with [] => [] | c :: r => if N.eqb c 58 then [] else c :: go r end) s.

(* ---------- the query task of a subscription ---------- *)
(* one step: enqueue the next stored row, or the sentinel (EOSE) when none is left *)
Definition row_step (sid : pystr) (sb : sub) (x : conn) : conn * sub :=
  if sb_running sb then
    match sb_rows sb with
    | batch :: rest => (fold_left (fun y eid => emit (FrEvent sid eid) y) batch x,
                      {| sb_filters := sb_filters sb; sb_gen := sb_gen sb; sb_rows := rest; sb_running := true |})
    | [] => (emit (FrEose sid) x,
             {| sb_filters := sb_filters sb; sb_gen := sb_gen sb; sb_rows := []; sb_running := false |})
    end
  else (x, sb).

(* unsubscribe(client, sub_id): cancel the query task and delete the registration.
   SQL: a cancelled task just ends.  LMDB: its `finally` still enqueues the sentinel. *)
Definition cancel_sub (cfg : rcfg) (sid : pystr) (x : conn) : conn :=
  match get_sub sid (c_subs x) with
  | None => x
  | Some sb =>
      let x' := with_subs (del_sub sid (c_subs x)) x in
      if kv_backend cfg && sb_running sb then defer (FrEose sid) x' else x'
  end.

(* validate the raw filters in order, as the loop in subscribe does *)
Inductive vres := VOk (fs : list filter) | VNotQuery | VCrash | VUnmodelled.
Fixpoint validate_all (ml : Z) (raws : list jv) : vres :=
  match raws with
  | [] => VOk []
  | r :: rest =>
      match validate_filter ml r with
      | FNotQuery => VNotQuery
      | FCrash => VCrash
      | FUnmodelled => VUnmodelled
      | FInvalid => validate_all ml rest
      | FOk f => match validate_all ml rest with VOk fs => VOk (f :: fs) | o => o end
      end
  end.

Inductive disp := DContinue | DClose | DUnmodelled.

Definition s_rejected := pys "rejected".
Definition s_restricted := pys "restricted".
Definition s_notquery := pys "not a query".

Definition in_registry (c : nat) (l : list nat) : bool := existsb (Nat.eqb c) l.

(* REQ: web.start_client + BaseStorage.subscribe *)
Definition handle_req (cfg : rcfg) (st : rstate) (c : nat) (x : conn) (sidv : jv) (raws : list jv)
           (rows : list (list pystr)) (prep can_query : bool) : rstate * conn * disp :=
  match py_str sidv with
  | None => (st, x, DUnmodelled)
  | Some sid =>
      (* subs = self.clients.setdefault(client_id, {}) *)
      let reg := if in_registry c (r_registry st) then r_registry st else r_registry st ++ [c] in
      let st1 := {| r_conns := r_conns st; r_registry := reg; r_pending := r_pending st; r_gen := r_gen st |} in
      let x1 := cancel_sub cfg sid x in
      if negb (sub_limit cfg =? 0) && (Z.of_nat (length (c_subs x1)) =? sub_limit cfg) then
        (st1, emit (FrNotice s_rejected) x1, DContinue)
      else
        match validate_all (max_limit cfg) raws with
        | VUnmodelled => (st1, x1, DUnmodelled)
        | VNotQuery => (st1, emit (FrNotice s_notquery) x1, DContinue)
        | VCrash => (st1, emit (FrClosed 1013) x1, DClose)
        | VOk [] => (st1, with_sender (emit (FrEose sid) x1), DContinue)
        | VOk fs =>
            if prep then
              if can_query then
                let sb := {| sb_filters := fs; sb_gen := r_gen st; sb_rows := rows; sb_running := true |} in
                ({| r_conns := r_conns st; r_registry := reg; r_pending := r_pending st; r_gen := S (r_gen st) |},
                 with_sender (with_subs (c_subs x1 ++ [(sid, sb)]) x1), DContinue)
              else (st1, emit (FrNotice s_restricted) x1, DContinue)
            else (st1, with_sender (emit (FrEose sid) x1), DContinue)
        end
  end.

(* notify_all_connected: one task per registered subscription, in registry / dict order *)
Definition fan_out (st : rstate) (e : wevent) : list ntask :=
  flat_map (fun c => match get_conn c (r_conns st) with
                     | Some x => map (fun p => {| n_cid := c; n_sid := fst p; n_gen := sb_gen (snd p);
                                                  n_filters := sb_filters (snd p); n_event := e |}) (c_subs x)
                     | None => [] end) (r_registry st).

(* BaseSubscription.notify: check_event, then enqueue under the captured subscription id *)
Definition run_ntask (st : rstate) (t : ntask) : rstate :=
  match get_conn (n_cid t) (r_conns st) with
  | None => st
  | Some x =>
      if check_event (n_filters t) (n_event t)
      then {| r_conns := set_conn (n_cid t) (emit (FrEvent (n_sid t) (w_id (n_event t))) x) (r_conns st);
              r_registry := r_registry st; r_pending := r_pending st; r_gen := r_gen st |}
      else st
  end.

(* add_event begins by awaiting the previous round of notify tasks: the harness (and this
   model) run whatever is still pending, oldest first, before the new fan-out *)
Definition drain_pending (st : rstate) : rstate :=
  let st' := fold_left run_ntask (r_pending st) st in
  {| r_conns := r_conns st'; r_registry := r_registry st'; r_pending := []; r_gen := r_gen st' |}.

Definition bump (t lo : Z) : Z := Z.max t lo * 2.

Definition handle_msg (cfg : rcfg) (st : rstate) (c : nat) (x : conn) (m : jv) (limited : bool)
           (rows : list (list pystr)) (prep can_query : bool) (add : addres) (auth : authres)
  : rstate * conn * disp :=
  if negb (validate_message m) then (st, x, DContinue) else
  let cmd := as_str (jv_nth 0 m) in
  let a1 := jv_nth 1 m in
  if limited then
    if str_eqb cmd (pys "EVENT") then
      match a1 with
      | JObj kv => match jget (pys "id") kv with
                   | Some (JStr i) => (st, with_throttle (bump (c_throttle x) 1) (emit (FrOk i false (pys "rate-limited")) x), DContinue)
                   | Some _ => (st, x, DUnmodelled)
                   | None => (st, with_throttle (bump (c_throttle x) 1) (emit (FrOk [] false (pys "rate-limited")) x), DContinue)
                   end
      | _ => (st, with_throttle (bump (c_throttle x) 1) (emit (FrOk [] false (pys "rate-limited")) x), DContinue)
      end
    else (st, with_throttle (bump (c_throttle x) 1) (emit (FrNotice (pys "rate-limited")) x), DContinue)
  else if str_eqb cmd (pys "REQ") then
    handle_req cfg st c x a1 (skipn 2 (as_arr m)) rows prep can_query
  else if str_eqb cmd (pys "CLOSE") then
    match py_str a1 with
    | None => (st, x, DUnmodelled)
    | Some sid => (st, cancel_sub cfg sid x, DContinue)
    end
  else if str_eqb cmd (pys "EVENT") then
    match add with
    | AddOk e changed =>
        (* the storage fans out before add_event returns; the OK frame follows *)
        let st1 := if changed then
                     {| r_conns := r_conns st; r_registry := r_registry st;
                        r_pending := fan_out st e; r_gen := r_gen st |}
                   else st in
        (st1, emit (FrOk (w_id e) changed (if changed then [] else pys "duplicate")) x, DContinue)
    | AddRefused reason =>
        (st, with_throttle (bump (c_throttle x) 4) (emit (FrOk [] false (reason_class reason)) x), DContinue)
    | AddCrash reason => (st, emit (FrOk [] false (reason_class reason)) x, DContinue)
    end
  else (* AUTH *)
    if auth_enabled cfg then
      match auth with
      | AuthOk => (st, x, DContinue)
      | AuthErr reason => (st, emit (FrNotice (reason_class reason)) x, DContinue)
      | AuthCrash => (st, emit (FrClosed 1013) x, DClose)
      end
    else (st, x, DContinue).

Definition new_conn : conn :=
  {| c_subs := []; c_out := []; c_open := true; c_throttle := 0; c_sender := false; c_deferred := [] |}.

(* the `finally` of start_client: storage.unsubscribe(client_id) drops the whole registration *)
Definition drop_conn (st : rstate) (c : nat) (x : conn) : rstate :=
  {| r_conns := set_conn c (closed x) (r_conns st);
     r_registry := List.filter (fun c' => negb (Nat.eqb c c')) (r_registry st);
     r_pending := r_pending st; r_gen := r_gen st |}.

Inductive sres := SOkS (st : rstate) | SUnmodelled | SStuck.

Definition step (cfg : rcfg) (st : rstate) (o : op) : sres :=
  match o with
  | OOpen c => match get_conn c (r_conns st) with
               | Some _ => SStuck
               | None => SOkS {| r_conns := set_conn c new_conn (r_conns st); r_registry := r_registry st;
                                 r_pending := r_pending st; r_gen := r_gen st |}
               end
  | OBadJson c => match get_conn c (r_conns st) with
                  | Some x => if c_open x then SOkS st else SStuck
                  | None => SStuck end
  | OCrashJson c => match get_conn c (r_conns st) with
                    | Some x => if c_open x then SOkS (drop_conn st c (emit (FrClosed 1013) x)) else SStuck
                    | None => SStuck end
  | OMsg c m limited rows prep can_query add auth =>
      (* notify_all_connected awaits the previous round of notify tasks: the driver releases every
         pending task, oldest first, before it hands over an EVENT message *)
      let st := if validate_message m && str_eqb (as_str (jv_nth 0 m)) (pys "EVENT") && negb limited
                then drain_pending st else st in
      match get_conn c (r_conns st) with
      | Some x =>
          if c_open x then
            let '(st1, x1, d) := handle_msg cfg st c x m limited rows prep can_query add auth in
            match d with
            | DUnmodelled => SUnmodelled
            | DContinue => SOkS {| r_conns := set_conn c (flush x1) (r_conns st1); r_registry := r_registry st1;
                                   r_pending := r_pending st1; r_gen := r_gen st1 |}
            | DClose => SOkS (drop_conn st1 c x1)
            end
          else SStuck
      | None => SStuck
      end
  | ORow c sid =>
      match get_conn c (r_conns st) with
      | Some x => match get_sub sid (c_subs x) with
                  | Some sb =>
                      if sb_running sb then
                        let '(x1, sb1) := row_step sid sb x in
                        let subs1 := upd_sub sid sb1 (c_subs x1) in
                        SOkS {| r_conns := set_conn c (with_subs subs1 x1) (r_conns st); r_registry := r_registry st;
                                r_pending := r_pending st; r_gen := r_gen st |}
                      else SStuck
                  | None => SStuck end
      | None => SStuck end
  | ONotify k =>
      match nth_error (r_pending st) k with
      | Some t =>
          let st1 := run_ntask st t in
          SOkS {| r_conns := r_conns st1; r_registry := r_registry st1;
                  r_pending := firstn k (r_pending st) ++ skipn (S k) (r_pending st); r_gen := r_gen st1 |}
      | None => SStuck end
  | ODrop c =>
      match get_conn c (r_conns st) with
      | Some x => if c_open x then SOkS (drop_conn st c x) else SStuck
      | None => SStuck end
  | OReqGone c m rows prep can_query =>
      match get_conn c (r_conns st) with
      | Some x =>
          if c_open x then
            let '(st1, x1, d) := handle_msg cfg st c x m false rows prep can_query (AddCrash []) AuthOk in
            match d with
            | DUnmodelled => SUnmodelled
            | _ =>
                (* keep only the directly written frames of this step: the handler does not yield between putting
                   a frame on the subscription queue and reading the disconnect, so the send task (even if it
                   exists already) is cancelled before it sends what was queued in this step *)
                let fresh := firstn (length (c_out x1) - length (c_out x)) (c_out x1) in
                (* ... unless the connection is throttled: then the REQ branch sleeps once before the next read,
                   and an already existing send task drains the queue meanwhile *)
                let kept := if (0 <? c_throttle x) && c_sender x then fresh
                            else List.filter (fun f => match f with FrEvent _ _ | FrEose _ => false | _ => true end) fresh in
                let x2 := {| c_subs := c_subs x1; c_out := kept ++ c_out x; c_open := c_open x1; c_throttle := c_throttle x1;
                             c_sender := c_sender x1; c_deferred := [] |} in
                SOkS (drop_conn st1 c x2)
            end
          else SStuck
      | None => SStuck end
  end.

Definition init : rstate := {| r_conns := []; r_registry := []; r_pending := []; r_gen := 0 |}.

Fixpoint run (cfg : rcfg) (st : rstate) (ops : list op) : sres :=
  match ops with
  | [] => SOkS st
  | o :: r => match step cfg st o with SOkS st' => run cfg st' r | e => e end
  end.
