(* Runtime vocabulary of the translated (Gen/*.v) fragments. *)
From NR Require Import Lib.Base.
Open Scope string_scope. Open Scope list_scope.
Open Scope Z_scope.

Definition tag := list pystr.
Record vevent := { ev_id : pystr; ev_pubkey : pystr; ev_created_at : Z; ev_kind : Z;
                   ev_tags : list tag; ev_content : pystr; ev_sig : pystr }.
Record vconfig := { cf_max_event_size : Z; cf_oldest_event : Z; cf_valid_kinds : list Z;
                    cf_pubkey_whitelist : list pystr; cf_pubkey_blacklist : list pystr;
                    cf_require_pow : Z; cf_hellthread_limit : Z; cf_service_pubkey : pystr;
                    cf_subscription_limit : Z; cf_max_limit : Z }.

Definition is_nil {A} (l : list A) : bool := match l with [] => true | _ => false end.

(* int.from_bytes(bytes.fromhex(h),"big") for a lower/upper-case hex string h
   (non-hex characters count as 0; admission has rejected those before) *)
Definition int_of_hex (h : pystr) : Z :=
  fold_left (fun acc c => acc * 16 + match hexval c with Some v => Z.of_N v | None => 0 end) h 0.
Definition bit_length (z : Z) : Z := if z =? 0 then 0 else Z.log2 (Z.abs z) + 1.
Definition bit_length_of_hex (h : pystr) : Z := bit_length (int_of_hex h).

(* role sets are sets of characters *)
Definition roleset := list N.
Definition role_inter (a b : roleset) : roleset := filter (fun x => mem_N x b) a.

Definition jv_is_list (v : jv) : bool := match v with JArr _ => true | _ => false end.
Definition jv_is_dict (v : jv) : bool := match v with JObj _ => true | _ => false end.
Definition jv_is_str (v : jv) : bool := match v with JStr _ => true | _ => false end.
Definition jv_len (v : jv) : Z := match v with JArr l => Z.of_nat (length l) | _ => 0 end.
Definition jv_nth (i : nat) (v : jv) : jv := match v with JArr l => nth i l JNull | _ => JNull end.
(* `x in ("A","B")` for an arbitrary JSON value x: only strings can be equal to a str *)
Definition jv_str_in (v : jv) (l : list pystr) : bool :=
  match v with JStr s => mem_str s l | _ => false end.

(* wire decoders shared by several Run.v files *)
Definition tag_of_jv (v : jv) : tag := map as_str (as_arr v).
Definition vevent_of_jv (v : jv) : vevent :=
  {| ev_id := as_str (jfield "id" v); ev_pubkey := as_str (jfield "pubkey" v);
     ev_created_at := as_int (jfield "created_at" v); ev_kind := as_int (jfield "kind" v);
     ev_tags := map tag_of_jv (as_arr (jfield "tags" v)); ev_content := as_str (jfield "content" v);
     ev_sig := as_str (jfield "sig" v) |}.
Definition vconfig_of_jv (v : jv) : vconfig :=
  {| cf_max_event_size := as_int (jfield "max_event_size" v); cf_oldest_event := as_int (jfield "oldest_event" v);
     cf_valid_kinds := map as_int (as_arr (jfield "valid_kinds" v));
     cf_pubkey_whitelist := map as_str (as_arr (jfield "pubkey_whitelist" v));
     cf_pubkey_blacklist := map as_str (as_arr (jfield "pubkey_blacklist" v));
     cf_require_pow := as_int (jfield "require_pow" v); cf_hellthread_limit := as_int (jfield "hellthread_limit" v);
     cf_service_pubkey := as_str (jfield "service_pubkey" v);
     cf_subscription_limit := as_int (jfield "subscription_limit" v); cf_max_limit := as_int (jfield "max_limit" v) |}.
Definition jopt_str (o : option pystr) : jv := match o with Some s => JStr s | None => JNull end.
