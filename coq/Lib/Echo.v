From NR Require Import Lib.Base.
Open Scope string_scope. Open Scope list_scope. Open Scope Z_scope.
(* pipeline self-test suite: echoes its input and adds derived fields *)
Definition run_echo (v : jv) : jv :=
  jobj [("echo", v); ("int_plus_1", JInt (as_int (jfield "i" v) + 1));
        ("hex", JStr (hex_of_bytes (as_str (jfield "b" v))))].
