(* Shared NIP-01 vocabulary: well-formed (admitted) events, validated filters
   (the fields of a pydantic NostrQuery after model_validate), and the
   specification of matching used by the query / live-delivery properties.
   DESIGN.md 3.1 / 3.2.  No proofs here. *)
From NR Require Import Lib.Base.
Open Scope string_scope. Open Scope list_scope. Open Scope Z_scope.

(* an event as the relay holds it after admission (ids/keys/sigs are hex strings,
   as in aionostr.Event; C03 guarantees lower-case hex and string tags) *)
Record wevent := { w_id : pystr; w_pubkey : pystr; w_created : Z; w_kind : Z;
                   w_tags : list (list pystr); w_content : pystr; w_sig : pystr }.

Definition wevent_eqb (a b : wevent) : bool :=
  str_eqb (w_id a) (w_id b) && str_eqb (w_pubkey a) (w_pubkey b) && (w_created a =? w_created b) &&
  (w_kind a =? w_kind b) && list_eqb (list_eqb str_eqb) (w_tags a) (w_tags b) &&
  str_eqb (w_content a) (w_content b) && str_eqb (w_sig a) (w_sig b).

(* a validated filter: ids/authors lower-cased hex of >= 64 digits, deduplicated and sorted
   descending by sort_fields; kinds likewise; tags = list of (single-letter name, value set) *)
Record filter := { f_ids : option (list pystr); f_authors : option (list pystr);
                   f_kinds : option (list Z); f_since : option Z; f_until : option Z;
                   f_limit : option Z; f_tags : list (pystr * list pystr) }.

Definition in_opt_str (x : pystr) (o : option (list pystr)) : bool :=
  match o with None => true | Some l => mem_str x l end.
Definition in_opt_Z (x : Z) (o : option (list Z)) : bool :=
  match o with None => true | Some l => mem_Z x l end.

(* the event carries a tag [name, v, ...] with v among vals *)
Definition has_tag_value (e : wevent) (name : pystr) (vals : list pystr) : bool :=
  existsb (fun t => match t with
                    | n :: v :: _ => str_eqb n name && mem_str v vals
                    | _ => false end) (w_tags e).
Definition s_delegation := pys "delegation".
(* NIP-26: the author condition is also met by the delegator named in a delegation tag *)
Definition author_or_delegator (e : wevent) (o : option (list pystr)) : bool :=
  match o with
  | None => true
  | Some l => mem_str (w_pubkey e) l || has_tag_value e s_delegation l
  end.

Definition core_match (f : filter) (e : wevent) : bool :=
  in_opt_str (w_id e) (f_ids f) && author_or_delegator e (f_authors f) &&
  in_opt_Z (w_kind e) (f_kinds f) &&
  forallb (fun nv => has_tag_value e (fst nv) (snd nv)) (f_tags f).

Definition after_open (t : Z) (o : option Z) := match o with None => true | Some s => s <? t end.
Definition after_closed (t : Z) (o : option Z) := match o with None => true | Some s => s <=? t end.
Definition before_open (t : Z) (o : option Z) := match o with None => true | Some u => t <? u end.
Definition before_closed (t : Z) (o : option Z) := match o with None => true | Some u => t <=? u end.

(* completeness is demanded for events strictly inside the window, soundness w.r.t. the closed one (R1) *)
Definition must_match (f : filter) (e : wevent) : bool :=
  core_match f e && after_open (w_created e) (f_since f) && before_open (w_created e) (f_until f).
Definition may_match (f : filter) (e : wevent) : bool :=
  core_match f e && after_closed (w_created e) (f_since f) && before_closed (w_created e) (f_until f).

(* kind classes (NIP-16/33), cf. Gen/Kinds.v which is translated from aionostr *)
Definition is_ephemeral_kind (k : Z) := (20000 <=? k) && (k <? 30000).
Definition is_replaceable_kind (k : Z) := (k =? 0) || (k =? 3) || ((10000 <=? k) && (k <? 20000)).
Definition is_param_replaceable_kind (k : Z) := (30000 <=? k) && (k <? 40000).
(* NIP-33 d value: value of the first d tag; absent / bare / empty are all "" *)
Definition s_d := pys "d".
Fixpoint d_value (tags : list (list pystr)) : pystr :=
  match tags with
  | [] => []
  | (n :: rest) :: r => if str_eqb n s_d then match rest with v :: _ => v | [] => [] end else d_value r
  | [] :: r => d_value r
  end.
(* replaceable address: (pubkey, kind, d-value or none) *)
Definition address (e : wevent) : option (pystr * Z * pystr) :=
  if is_replaceable_kind (w_kind e) then Some (w_pubkey e, w_kind e, [])
  else if is_param_replaceable_kind (w_kind e) then Some (w_pubkey e, w_kind e, d_value (w_tags e))
  else None.
Definition same_address (a b : wevent) : bool :=
  match address a, address b with
  | Some (p1, k1, d1), Some (p2, k2, d2) => str_eqb p1 p2 && (k1 =? k2) && str_eqb d1 d2
  | _, _ => false
  end.
(* NIP-09: ids referenced by the e tags of a deletion *)
Definition s_e := pys "e".
Definition e_refs (e : wevent) : list pystr :=
  flat_map (fun t => match t with n :: v :: _ => if str_eqb n s_e then [v] else [] | _ => [] end) (w_tags e).
(* NIP-40: value of the first expiration tag *)
Definition s_expiration := pys "expiration".
Fixpoint expiration_value (tags : list (list pystr)) : option pystr :=
  match tags with
  | [] => None
  | (n :: v :: _) :: r => if str_eqb n s_expiration then Some v else expiration_value r
  | _ :: r => expiration_value r
  end.

(* wire decoders *)
Definition wevent_of_jv (v : jv) : wevent :=
  {| w_id := as_str (jfield "id" v); w_pubkey := as_str (jfield "pubkey" v);
     w_created := as_int (jfield "created_at" v); w_kind := as_int (jfield "kind" v);
     w_tags := map (fun t => map as_str (as_arr t)) (as_arr (jfield "tags" v));
     w_content := as_str (jfield "content" v); w_sig := as_str (jfield "sig" v) |}.
Definition jv_of_wevent (e : wevent) : jv :=
  jobj [("id", JStr (w_id e)); ("pubkey", JStr (w_pubkey e)); ("created_at", JInt (w_created e));
        ("kind", JInt (w_kind e)); ("tags", JArr (map (fun t => JArr (map JStr t)) (w_tags e)));
        ("content", JStr (w_content e)); ("sig", JStr (w_sig e))].
Definition opt_strs_of_jv (v : jv) : option (list pystr) :=
  match v with JArr l => Some (map as_str l) | _ => None end.
Definition opt_ints_of_jv (v : jv) : option (list Z) :=
  match v with JArr l => Some (map as_int l) | _ => None end.
(* {"ids":[..]|null, "authors":.., "kinds":.., "since":int|null, "until":.., "limit":.., "tags":[[name,[v..]],..]} *)
Definition filter_of_jv (v : jv) : filter :=
  {| f_ids := opt_strs_of_jv (jfield "ids" v); f_authors := opt_strs_of_jv (jfield "authors" v);
     f_kinds := opt_ints_of_jv (jfield "kinds" v); f_since := as_opt_int (jfield "since" v);
     f_until := as_opt_int (jfield "until" v); f_limit := as_opt_int (jfield "limit" v);
     f_tags := map (fun t => (as_str (nth 0 (as_arr t) JNull), map as_str (as_arr (nth 1 (as_arr t) JNull))))
                   (as_arr (jfield "tags" v)) |}.
