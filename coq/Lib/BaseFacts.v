(* Facts about the helpers of Base.v used across the development. *)
From NR Require Import Lib.Base.
Open Scope Z_scope.

Lemma list_eqb_spec {A} (eqb : A -> A -> bool) :
  (forall x y, eqb x y = true <-> x = y) ->
  forall a b, list_eqb eqb a b = true <-> a = b.
Proof.
  intros H a; induction a as [|x a IH]; intros [|y b]; simpl; try (split; congruence).
  rewrite andb_true_iff, H, IH. split; [intros [-> ->]; reflexivity | intros E; inversion E; auto].
Qed.

Lemma str_eqb_eq a b : str_eqb a b = true <-> a = b.
Proof. apply list_eqb_spec. intros; apply N.eqb_eq. Qed.
Lemma str_eqb_refl a : str_eqb a a = true.
Proof. apply str_eqb_eq; reflexivity. Qed.
Lemma str_eqb_neq a b : str_eqb a b = false <-> a <> b.
Proof.
  split; intros H.
  - intros E; apply str_eqb_eq in E; congruence.
  - destruct (str_eqb a b) eqn:E; [apply str_eqb_eq in E; contradiction | reflexivity].
Qed.
Lemma str_eqb_sym a b : str_eqb a b = str_eqb b a.
Proof.
  destruct (str_eqb a b) eqn:E.
  - apply str_eqb_eq in E; subst; symmetry; apply str_eqb_refl.
  - symmetry; apply str_eqb_neq; apply str_eqb_neq in E; congruence.
Qed.
Lemma mem_str_In x l : mem_str x l = true <-> In x l.
Proof.
  unfold mem_str; rewrite existsb_exists; split.
  - intros [y [Hy E]]; apply str_eqb_eq in E; subst; assumption.
  - intros H; exists x; split; [assumption | apply str_eqb_refl].
Qed.
Lemma mem_Z_In x l : mem_Z x l = true <-> In x l.
Proof.
  unfold mem_Z; rewrite existsb_exists; split.
  - intros [y [Hy E]]; apply Z.eqb_eq in E; subst; assumption.
  - intros H; exists x; split; [assumption | apply Z.eqb_refl].
Qed.
Lemma mem_N_In x l : mem_N x l = true <-> In x l.
Proof.
  unfold mem_N; rewrite existsb_exists; split.
  - intros [y [Hy E]]; apply N.eqb_eq in E; subst; assumption.
  - intros H; exists x; split; [assumption | apply N.eqb_refl].
Qed.
