(* Shared vocabulary: Python strings / bytes as lists of N, a JSON-like value
   type used both by the models and as the wire format between the Python
   harness and the extracted model, and small executable helpers.
   No proofs in this file (facts are in BaseFacts.v). *)
From Coq Require Export Ascii String.
From Coq Require Export List ZArith NArith Bool Lia.
Export ListNotations.
Open Scope Z_scope.

Definition cp := N.                (* a code point *)
Definition pystr := list cp.       (* Python str *)
Definition byte := N.              (* a byte; < 256 when well-formed *)
Definition bytes := list byte.     (* Python bytes *)

(* string literals *)
Definition pys (s : string) : pystr := map N_of_ascii (list_ascii_of_string s).

Inductive jv :=
| JNull
| JBool (b : bool)
| JInt (z : Z)
| JStr (s : pystr)
| JBytes (b : bytes)
| JFloat (repr : pystr)            (* a float, carried as its repr; never interpreted *)
| JArr (l : list jv)
| JObj (kv : list (pystr * jv)).

(* ---------- equality on lists ---------- *)
Fixpoint list_eqb {A} (eqb : A -> A -> bool) (a b : list A) : bool :=
  match a, b with
  | [], [] => true
  | x :: a', y :: b' => eqb x y && list_eqb eqb a' b'
  | _, _ => false
  end.
Definition str_eqb : pystr -> pystr -> bool := list_eqb N.eqb.
Definition mem_str (x : pystr) (l : list pystr) : bool := existsb (str_eqb x) l.
Definition mem_Z (x : Z) (l : list Z) : bool := existsb (Z.eqb x) l.
Definition mem_N (x : N) (l : list N) : bool := existsb (N.eqb x) l.

(* ---------- lexicographic order on byte strings / code point strings ---------- *)
Fixpoint lex_cmp (a b : list N) : comparison :=
  match a, b with
  | [], [] => Eq
  | [], _ :: _ => Lt
  | _ :: _, [] => Gt
  | x :: a', y :: b' =>
      match N.compare x y with
      | Eq => lex_cmp a' b'
      | c => c
      end
  end.
Definition lex_ltb a b := match lex_cmp a b with Lt => true | _ => false end.
Definition lex_leb a b := match lex_cmp a b with Gt => false | _ => true end.

Fixpoint is_prefix (p s : list N) : bool :=
  match p, s with
  | [], _ => true
  | x :: p', y :: s' => N.eqb x y && is_prefix p' s'
  | _ :: _, [] => false
  end.

(* ---------- hex ---------- *)
Local Open Scope N_scope.
Definition hexdigit (n : N) : cp :=        (* 0..15 -> '0'..'9','a'..'f' *)
  if N.ltb n 10 then n + 48 else n + 87.
Definition hexval (c : cp) : option N :=   (* accepts upper case, like bytes.fromhex *)
  if (N.leb 48 c && N.leb c 57)%bool then Some (c - 48)
  else if (N.leb 97 c && N.leb c 102)%bool then Some (c - 87)
  else if (N.leb 65 c && N.leb c 70)%bool then Some (c - 55)
  else None.
Definition is_lower_hex_char (c : cp) : bool :=
  (N.leb 48 c && N.leb c 57) || (N.leb 97 c && N.leb c 102).
Definition hex_of_byte (b : byte) : pystr := [hexdigit (b / 16); hexdigit (b mod 16)]%N.
Definition hex_of_bytes (b : bytes) : pystr := flat_map hex_of_byte b.
(* strict: pairs of hex digits, no whitespace *)
Fixpoint bytes_of_hex (s : pystr) : option bytes :=
  match s with
  | [] => Some []
  | [_] => None
  | a :: b :: rest =>
      match hexval a, hexval b, bytes_of_hex rest with
      | Some x, Some y, Some r => Some ((x * 16 + y)%N :: r)
      | _, _, _ => None
      end
  end.
Definition is_lower_hex (s : pystr) : bool := forallb is_lower_hex_char s.

Local Close Scope N_scope.
(* ---------- big-endian 4-byte integers: int.to_bytes(4,"big") ---------- *)
Definition be4 (z : Z) : option bytes :=
  if (0 <=? z) && (z <? 4294967296) then
    let n := Z.to_N z in
    Some [ (n / 16777216) mod 256; (n / 65536) mod 256; (n / 256) mod 256; n mod 256 ]%N
  else None.
Definition of_be4 (b : bytes) : Z :=
  Z.of_N (fold_left (fun acc x => acc * 256 + x)%N b 0%N).

(* ---------- decimal ---------- *)
Fixpoint dec_of_pos_fuel (fuel : nat) (n : N) (acc : pystr) : pystr :=
  match fuel with
  | O => acc
  | S f =>
      let acc' := ((n mod 10) + 48)%N :: acc in
      if N.ltb n 10%N then acc' else dec_of_pos_fuel f (n / 10)%N acc'
  end.
Definition dec_of_N (n : N) : pystr := dec_of_pos_fuel (S (N.to_nat (N.size n))) n [].
Definition dec_of_Z (z : Z) : pystr :=
  if z <? 0 then 45%N :: dec_of_N (Z.to_N (- z)) else dec_of_N (Z.to_N z).
Definition is_digit (c : cp) : bool := (N.leb 48 c && N.leb c 57)%N.
Definition N_of_dec (s : pystr) : option N :=
  match s with
  | [] => None
  | _ => fold_left (fun acc c => match acc with
                                 | Some a => if is_digit c then Some (a * 10 + (c - 48))%N else None
                                 | None => None end) s (Some 0%N)
  end.
Definition Z_of_dec (s : pystr) : option Z :=
  match s with
  | 45%N :: r => option_map (fun n => - Z.of_N n) (N_of_dec r)
  | _ => option_map Z.of_N (N_of_dec s)
  end.

(* ---------- jv accessors (used by the Run.v wire decoders) ---------- *)
Fixpoint jget (k : pystr) (kv : list (pystr * jv)) : option jv :=
  match kv with
  | [] => None
  | (k', v) :: r => if str_eqb k k' then Some v else jget k r
  end.
Definition jfield (k : string) (v : jv) : jv :=
  match v with JObj kv => match jget (pys k) kv with Some x => x | None => JNull end | _ => JNull end.
Definition as_int (v : jv) : Z := match v with JInt z => z | _ => 0 end.
Definition as_bool (v : jv) : bool := match v with JBool b => b | _ => false end.
Definition as_str (v : jv) : pystr := match v with JStr s => s | JBytes s => s | _ => [] end.
Definition as_arr (v : jv) : list jv := match v with JArr l => l | _ => [] end.
Definition as_opt_int (v : jv) : option Z := match v with JInt z => Some z | _ => None end.
Definition jstr (s : string) : jv := JStr (pys s).
Definition jobj (l : list (string * jv)) : jv := JObj (map (fun p => (pys (fst p), snd p)) l).
Definition jints (l : list Z) : jv := JArr (map JInt l).
Definition jstrs (l : list pystr) : jv := JArr (map JStr l).

Fixpoint jv_eqb (a b : jv) {struct a} : bool :=
  match a, b with
  | JNull, JNull => true
  | JBool x, JBool y => Bool.eqb x y
  | JInt x, JInt y => Z.eqb x y
  | JStr x, JStr y => str_eqb x y
  | JBytes x, JBytes y => str_eqb x y
  | JFloat x, JFloat y => str_eqb x y
  | JArr x, JArr y =>
      (fix go (l1 l2 : list jv) : bool :=
         match l1, l2 with
         | [], [] => true
         | u :: l1', v :: l2' => jv_eqb u v && go l1' l2'
         | _, _ => false
         end) x y
  | JObj x, JObj y =>
      (fix go (l1 l2 : list (pystr * jv)) : bool :=
         match l1, l2 with
         | [], [] => true
         | (k1, u) :: l1', (k2, v) :: l2' => str_eqb k1 k2 && jv_eqb u v && go l1' l2'
         | _, _ => false
         end) x y
  | _, _ => false
  end.

(* ---------- misc list helpers ---------- *)
Fixpoint count_occ_b {A} (p : A -> bool) (l : list A) : nat :=
  match l with [] => O | x :: r => (if p x then 1 else 0) + count_occ_b p r end.
Fixpoint dedup_str (l : list pystr) : list pystr :=
  match l with
  | [] => []
  | x :: r => if mem_str x r then dedup_str r else x :: dedup_str r
  end.
Fixpoint find_map {A B} (f : A -> option B) (l : list A) : option B :=
  match l with [] => None | x :: r => match f x with Some y => Some y | None => find_map f r end end.
