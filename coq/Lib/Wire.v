(* Dispatch helper for the per-property Run.v files: each defines
     Definition suites : list (string * (jv -> jv)) := ...
     Definition dispatch := dispatch_in suites.
   and is extracted on its own (build/<pid>/modeld). *)
From NR Require Import Lib.Base.
Fixpoint lookup_suite (name : pystr) (l : list (string * (jv -> jv))) : option (jv -> jv) :=
  match l with
  | nil => None
  | (n, f) :: r => if str_eqb name (pys n) then Some f else lookup_suite name r
  end.
Definition dispatch_in (l : list (string * (jv -> jv))) (suite : pystr) (v : jv) : jv :=
  match lookup_suite suite l with Some f => f v | None => JNull end.
