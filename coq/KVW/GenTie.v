(* Tie between the write-path model (coq/KVW) and the fragments of nostr_relay/storage/kv.py that
   tools/pyfrag.d/kvwrite.py regenerates into Gen/KVWrite.v on every run: if the source changes one
   of them, the regenerated definition changes and a lemma below breaks (or the translator refuses).
   The constants shared with the query side are tied in KVM/Proofs_Const.v (Gen/KVConst.v). *)
From NR Require Import Lib.Base Lib.BaseFacts Lib.Nip01 Lib.PyRt KVM.Engine KVM.Keys KVM.Proofs_Const
     KVW.Types KVW.Entries KVW.Write KVW.PostSave KVW.Gc KVW.Run.
From NR Require Gen.KVWrite Gen.KVConst Gen.Kinds.
From Coq Require Import ZifyBool.
Open Scope list_scope. Open Scope Z_scope.

(* WriterThread._d_value is the NIP-33 d value of the specification *)
Lemma d_value_agrees tags : KVWrite.d_value_of tags = d_value tags.
Proof.
  unfold KVWrite.d_value_of. induction tags as [|t tags IH]; [reflexivity|].
  destruct t as [|n rest]; [exact IH|]. cbn [find]. unfold KVWrite.d_value_test at 1. cbn [is_nil negb andb nth d_value].
  fold s_d. destruct (str_eqb n s_d); [|exact IH].
  unfold KVWrite.d_value_of_tag. destruct rest as [|v r]; [reflexivity|].
  cbn [length nth]. replace (Z.of_nat (S (S (length r))) >? 1) with true by lia. reflexivity.
Qed.

(* _post_save: which index is scanned with which upper bound *)
Lemma post_save_scans_agree :
  idx_of_name KVWrite.replace_index = IxAuthorKinds /\ KVWrite.replace_until_offset = 0 /\
  idx_of_name KVWrite.delete_index = IxAuthors /\ KVWrite.delete_until_offset = -1 /\ KVWrite.reference_tag = s_e.
Proof. repeat split; reflexivity. Qed.
Lemma post_save_kinds_agree k :
  is_replaceable_kind k = (mem_Z k [Kinds.kind_SET_METADATA; Kinds.kind_CONTACTS] || ((10000 <=? k) && (k <? 20000))) /\
  (k =? 5) = (k =? Kinds.kind_DELETE).
Proof. split; [unfold is_replaceable_kind, mem_Z; simpl; rewrite orb_false_r; reflexivity|reflexivity]. Qed.

(* _delete_event clears the indexes in reverse write order *)
Lemma delete_order_agrees :
  map idx_of_name KVWrite.write_index_order = write_indexes /\ KVWrite.delete_reversed = true.
Proof. split; reflexivity. Qed.

(* KVGarbageCollector.collect *)
Lemma gc_constants_agree :
  kinds_key KVWrite.gc_kind_lo = kinds_key 20000 /\ kinds_key KVWrite.gc_kind_hi = kinds_key 30000 /\
  KVWrite.gc_kind_hi_exclusive = true /\
  to_key IxTags (MStrStr KVWrite.gc_tag_name KVWrite.gc_tag_value) = KKey expiration_prefix /\
  KVWrite.gc_tag_name = s_expiration /\ KVWrite.gc_entry_tail = 38%nat /\ KVWrite.gc_numeric_test = true.
Proof. repeat split; reflexivity. Qed.
(* the ephemeral range of the collector is the ephemeral class of the specification *)
Lemma gc_range_is_ephemeral k : is_ephemeral_kind k = ((KVWrite.gc_kind_lo <=? k) && (k <? KVWrite.gc_kind_hi)).
Proof. reflexivity. Qed.

(* WriterThread.run / add_event *)
Lemma writer_ops_agree : KVWrite.writer_ops = [pys "add"; pys "del"; pys "reindex"; pys "bulk_update"] /\ KVWrite.one_txn_per_task = true /\
  KVWrite.forgets_in_flight_after_add = true.
Proof. repeat split; reflexivity. Qed.
Lemma add_event_checks_agree :
  KVWrite.add_event_checks = [pys "validate"; pys "ephemeral"; pys "storable"; pys "in_flight"; pys "stored"; pys "register"; pys "queue"; pys "broadcast"].
Proof. reflexivity. Qed.
