(* C07 (LMDB half): all effects of one queued operation are one write transaction; an engine
   failure at any mutation restores the old state; a kill at any mutation leaves the old or the
   new state; later operations are unaffected. *)
From NR Require Import KVW.Thm_Common.
Open Scope list_scope. Open Scope Z_scope.

(* (0) one operation = one transaction whose committed result is exactly its logged mutations *)
Theorem C07_kv_single_txn fault kill now d op d' e ms : run_op fault kill now d op = (d', e, ms) ->
  match e with Committed => d' = apply_muts d ms | _ => d' = d end.
Proof. apply single_txn. Qed.

(* (i) an engine error at the k-th mutation, for every k: if the operation performs more than k
   mutations it ends aborted after exactly the first k of them and the store is the old one;
   otherwise the run is the run without the fault *)
Theorem C07_kv_fail_at_k now d op k :
  let '(d0, e0, ms0) := run_op None None now d op in
  run_op (Some k) None now d op = if Nat.ltb k (length ms0) then (d, Aborted, firstn k ms0) else (d0, e0, ms0).
Proof. apply fail_at_k. Qed.
Corollary C07_kv_fail_at_k_restores now d op k : (k < length (snd (run_op None None now d op)))%nat ->
  fst (fst (run_op (Some k) None now d op)) = d.
Proof. apply fail_at_k_restores. Qed.

(* (ii) a process kill at the k-th mutation: the store is the old one whenever the kill precedes
   the commit, and otherwise the new one *)
Theorem C07_kv_kill_at_k now d op k :
  let '(d0, e0, ms0) := run_op None None now d op in
  run_op None (Some k) now d op =
    match e0 with Committed => if Nat.ltb k (length ms0) then (d, Killed, ms0) else (d0, e0, ms0) | _ => (d0, e0, ms0) end.
Proof. apply kill_at_k. Qed.
Corollary C07_kv_kill_old_or_new now d op k :
  let d1 := fst (fst (run_op None (Some k) now d op)) in d1 = d \/ d1 = fst (fst (run_op None None now d op)).
Proof. apply kill_old_or_new. Qed.

(* (iii) a transaction that did not commit leaves no trace in the rest of the history *)
Theorem C07_kv_later_unaffected d s rest :
  snd (fst (run_op (s_fault s) (s_kill s) (s_now s) d (s_op s))) <> Committed ->
  run_steps d (s :: rest) = run_steps d rest.
Proof.
  intros H. simpl. f_equal. unfold run_step, db_after.
  pose proof (single_txn (s_fault s) (s_kill s) (s_now s) d (s_op s)) as T.
  destruct (run_op (s_fault s) (s_kill s) (s_now s) d (s_op s)) as [[d' e] ms]. specialize (T d' e ms eq_refl).
  simpl in *. destruct e; [contradiction|exact T|exact T].
Qed.
(* ... and whatever happens, the keyspace stays coherent (C10) *)
Theorem C07_kv_inv_under_faults d s : Inv d -> op_ok d (s_op s) -> Inv (run_step d s).
Proof. apply inv_step. Qed.
