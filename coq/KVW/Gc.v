(* LMDB write path, part 4: KVGarbageCollector.collect (two forward range walks over a read
   transaction, then one queued "del" per id found) and the storage-level entry points
   LMDBStorage.add_event / delete_event / get_event.  No proofs in this file. *)
From NR Require Import Lib.Base Lib.Nip01 KVM.Engine KVM.Keys KVM.Scan KVW.Types KVW.Entries KVW.Write KVW.PostSave.
Open Scope list_scope. Open Scope Z_scope.

(* cursor.set_range(start) then `for key in cursor.iternext(): if stop key: break` *)
Fixpoint drop_below (start : bytes) (ks : list bytes) : list bytes :=
  match ks with
  | [] => []
  | k :: r => if lex_ltb k start then drop_below start r else ks
  end.
Fixpoint take_until (stop : bytes -> bool) (ks : list bytes) : list bytes :=
  match ks with
  | [] => []
  | k :: r => if stop k then [] else k :: take_until stop r
  end.

Definition kinds_key (z : Z) : bytes := match to_key IxKinds (MInt z) with KKey k => k | _ => [] end.
(* b"\x09expiration\x00" *)
Definition expiration_prefix : bytes :=
  match to_key IxTags (MStrStr s_expiration []) with KKey k => k | _ => [] end.

(* bytes.isdigit() and int(value) *)
Definition timestamp_of (v : bytes) : option Z := option_map Z.of_N (N_of_dec v).

(* ids (hex of key[-32:]) of the entries of ephemeral kinds: kinds_key 20000 <= key < kinds_key 30000 *)
Definition gc_ephemeral (ks : list bytes) : list bytes :=
  map tail32 (take_until (fun k => negb (lex_ltb k (kinds_key 30000))) (drop_below (kinds_key 20000) ks)).
(* value bytes of an expiration entry: key[len(prefix):-38] *)
Definition expiration_value_of (k : bytes) : bytes :=
  let body := skipn (length expiration_prefix) k in
  firstn (length body - 38) body.
Definition gc_expired (now : Z) (ks : list bytes) : list bytes :=
  map tail32
    (List.filter (fun k => match timestamp_of (expiration_value_of k) with Some t => t <? now | None => false end)
       (take_until (fun k => negb (is_prefix expiration_prefix k)) (drop_below expiration_prefix ks))).
Definition gc_collect (now : Z) (ks : list bytes) : list bytes := gc_ephemeral ks ++ gc_expired now ks.
(* storage.delete_event(event_id) for each: queued ("del", [hex id]) *)
Definition gc_ops (now : Z) (d : kvdb) : list wop :=
  map (fun b => ODel (hex_of_bytes b)) (gc_collect now (keys d)).

(* ---- LMDBStorage.add_event ---- *)
Inductive ack := AckRaise | AckTrue | AckDuplicate.
(* the admission-side bound on what the writer can store: a dry run of every Index.write on a
   stand-in transaction that only checks key sizes (integer ranges of the 4-byte key fields,
   hex / utf-8 / msgpack conversions, every key within the engine's key size) *)
Definition storable (w : wevent) : bool :=
  match write_event None w {| t_db := []; t_log := [] |} with Ok _ _ => true | Err _ => false end.

Section Store.
Variable valid : wevent -> bool.       (* outcome of the configured validator pipeline and of the role check for 'save' *)
(* (acknowledgement, broadcast?, operation queued) ; `raw` is the submitted JSON object as an Event would hold it;
   `pending` = WriterThread.in_flight: the ids acknowledged and queued whose "add" the writer has not processed yet *)
Definition add_event (now : Z) (d : kvdb) (pending : list pystr) (raw : wevent) : ack * bool * option wop :=
  let w := ctor now raw in
  if negb (valid w) then (AckRaise, false, None)
  else if is_ephemeral_kind (w_kind w) then (AckTrue, true, None)
  else if negb (storable w) then (AckRaise, false, None)
  else match id_bytes w with
       | None => (AckRaise, false, None)
       | Some idb =>
           if mem_str (w_id w) pending then (AckDuplicate, false, None)
           else match get (primary_key_of idb) d with
                | Some (REvent _) => (AckDuplicate, false, None)
                | _ => (AckTrue, true, Some (OAdd w))
                end
       end.
End Store.

(* LMDBStorage.get_event: decode_event(get_event_data(txn, bytes.fromhex(event_id))) *)
Inductive getres := GRaise | GNone | GEvent (w : wevent).
Definition get_event (now : Z) (d : kvdb) (h : pystr) : getres :=
  match py_fromhex h with
  | None => GRaise
  | Some idb => match get (primary_key_of idb) d with
                | Some (REvent r) => GEvent (decode_event now r)
                | _ => GNone
                end
  end.
