(* Without an injected engine failure a writer transaction only raises for the reasons the model
   names.  KOk: every key of the store is within the engine's key size (puts check it), hence
   deleting a stored record never raises; write_event of an event add_event found storable never
   raises.  Used by C17 (every collected event is really removed) and C06 (truthful acks). *)
From NR Require Import Lib.Base Lib.BaseFacts Lib.Nip01 KVM.Engine KVM.Keys KVM.Scan
     KVW.Types KVW.Entries KVW.Write KVW.PostSave KVW.Gc KVW.Proofs_Engine KVW.Proofs_Tx KVW.Proofs_Keys
     KVW.Proofs_Coherent KVW.Proofs_Run KVW.Proofs_ScanUse KVW.Proofs_PostSave.
Open Scope list_scope. Open Scope Z_scope.

Lemma some_inj' {A} (a b : A) : Some a = Some b -> a = b.
Proof. congruence. Qed.

(* ---------------- invariants of the working copy preserved by put (of an admissible key) and delete ---------------- *)
Section Pres.
Variable P : kvdb -> Prop.
Hypothesis Pput : forall k v d, key_ok k = true -> P d -> P (put_raw k v d).
Hypothesis Pdel : forall k d, P d -> P (delete_raw k d).

Definition pres {A} (m : M A) : Prop := forall t, P (t_db t) -> match m t with Ok _ t' => P (t_db t') | Err _ => True end.
Lemma pres_same {A} (m : M A) : (forall t, match m t with Ok _ t' => t' = t | Err _ => True end) -> pres m.
Proof. intros H t T. specialize (H t). destruct (m t); [subst; exact T|exact I]. Qed.
Lemma pres_bind {A B} (m : M A) (f : A -> M B) : pres m -> (forall a, pres (f a)) -> pres (bind m f).
Proof. intros K1 K2 t T. unfold bind. specialize (K1 t T). destruct (m t) as [a t1|]; [|exact I]. apply K2, K1. Qed.
Lemma pres_iter {A} (f : A -> M unit) l : (forall x, pres (f x)) -> pres (m_iter f l).
Proof. intros H. induction l; simpl; [apply pres_same; intros; reflexivity|]. apply pres_bind; auto. Qed.
Lemma pres_put fault k v : pres (m_put fault k v).
Proof.
  intros t T. unfold m_put. destruct (key_ok k) eqn:E; [|exact I]. destruct (fault_hits _ _); [exact I|]. simpl. apply Pput; assumption.
Qed.
Lemma pres_del fault k : pres (m_del fault k).
Proof. intros t T. unfold m_del. destruct (key_ok k); [|exact I]. destruct (fault_hits _ _); [exact I|]. simpl. apply Pdel; assumption. Qed.
Lemma pres_of_opt {A} (o : option A) : pres (of_opt o).
Proof. apply pres_same. intros t. destruct o; reflexivity. Qed.
Lemma pres_scan i ms u : pres (m_scan i ms u).
Proof. apply pres_same. intros t. unfold m_scan. destruct (index_scanner _ _ _ _ _ _); auto. Qed.
Lemma pres_write_timed (op : bytes -> M unit) i w : (forall k, pres (op k)) -> pres (write_timed op i w).
Proof.
  intros H. unfold write_timed. apply pres_bind; [apply pres_of_opt|intros]. apply pres_bind; [apply pres_of_opt|intros].
  apply pres_iter. intros kr. destruct kr; [apply H| |]; apply pres_same; intros ?; reflexivity.
Qed.
Lemma pres_ids_key w : pres (ids_key w).
Proof. apply pres_same. intros t. unfold ids_key. destruct (to_key _ _); reflexivity. Qed.
Lemma pres_write_index fault i w : pres (write_index fault i w).
Proof.
  destruct i; simpl; try (apply pres_write_timed; intros; apply pres_put).
  apply pres_bind; [apply pres_ids_key|intros]. apply pres_bind; [apply pres_of_opt|intros]. apply pres_put.
Qed.
Lemma pres_clear_index fault i w : pres (clear_index fault i w).
Proof.
  destruct i; simpl; try (apply pres_write_timed; intros; apply pres_del).
  apply pres_bind; [apply pres_ids_key|intros]. apply pres_del.
Qed.
Lemma pres_write_event fault w : pres (write_event fault w).
Proof. apply pres_iter. intros. apply pres_write_index. Qed.
Lemma pres_delete_event fault w : pres (delete_event fault w).
Proof. apply pres_iter. intros. apply pres_clear_index. Qed.
Lemma pres_event_data idb : pres (m_event_data idb).
Proof. apply pres_same. intros t. reflexivity. Qed.
Lemma pres_candidate now eid : pres (m_candidate now eid).
Proof. apply pres_same. intros t. reflexivity. Qed.
Lemma pres_post_save fault now w : pres (post_save fault now w).
Proof.
  unfold post_save. destruct (_ || _).
  - unfold replace_older. apply pres_bind; [apply pres_of_opt|intros saved]. apply pres_bind; [apply pres_scan|intros].
    apply pres_iter. intros eid. destruct (bytes_eqb eid saved); [apply pres_same; intros ?; reflexivity|].
    apply pres_bind; [apply pres_candidate|intros c]. destruct c; [|apply pres_same; intros ?; reflexivity].
    destruct (_ && _); [apply pres_same; intros ?; reflexivity|apply pres_delete_event].
  - destruct (w_kind w =? 5)%Z; [|apply pres_same; intros ?; reflexivity].
    unfold delete_referenced. destruct (e_ref_ids w) as [|r0 rs]; [apply pres_same; intros ?; reflexivity|].
    apply pres_bind; [apply pres_scan|intros]. apply pres_iter. intros eid.
    destruct (mem_bytes eid (r0 :: rs)); [|apply pres_same; intros ?; reflexivity].
    apply pres_bind; [apply pres_candidate|intros c]. destruct c; [apply pres_delete_event|apply pres_same; intros ?; reflexivity].
Qed.
Lemma pres_op_body fault now op : pres (op_body fault now op).
Proof.
  destruct op as [w|h|i w|i ws]; simpl.
  - apply pres_bind; [apply pres_of_opt|intros]. apply pres_bind; [apply pres_event_data|intros r].
    destruct r; [apply pres_same; intros ?; reflexivity|].
    apply pres_bind; [apply pres_write_event|intros; apply pres_post_save].
  - apply pres_bind; [apply pres_of_opt|intros]. apply pres_bind; [apply pres_candidate|intros c].
    destruct c; [apply pres_delete_event|apply pres_same; intros ?; reflexivity].
  - apply pres_bind; [apply pres_of_opt|intros]. apply pres_bind; [apply pres_event_data|intros r].
    destruct r; [apply pres_write_index|apply pres_same; intros ?; reflexivity].
  - apply pres_iter. intros o. destruct o; [|apply pres_same; intros ?; reflexivity].
    apply pres_bind; [apply pres_of_opt|intros]. apply pres_bind; [apply pres_event_data|intros r].
    destruct r; [apply pres_write_index|apply pres_same; intros ?; reflexivity].
Qed.
End Pres.

(* ---------------- KOk ---------------- *)
Definition KOk (d : kvdb) : Prop := Forall (fun k => key_ok k = true) (keys d).
Lemma kok_put k v d : key_ok k = true -> KOk d -> KOk (put_raw k v d).
Proof. intros. apply keys_put_Forall; assumption. Qed.
Lemma kok_del k d : KOk d -> KOk (delete_raw k d).
Proof. intros. apply keys_delete_Forall; assumption. Qed.
Lemma kok_init : KOk [(tombstone, RIndex)].
Proof. repeat constructor. Qed.
Theorem run_op_kok fault kill now d op : KOk d -> KOk (db_after fault kill now d op).
Proof.
  intros K. unfold db_after, run_op.
  pose proof (pres_op_body KOk kok_put kok_del fault now op {| t_db := d; t_log := [] |} K) as H.
  destruct (op_body fault now op _) as [[] t'|l]; [|exact K]. destruct (killed kill (t_log t')); [exact K|exact H].
Qed.
Lemma kok_get d k v : KOk d -> get k d = Some v -> key_ok k = true.
Proof. intros K G. unfold KOk in K. rewrite Forall_forall in K. apply K. eapply get_In_keys; eauto. Qed.

(* ---------------- progress (fault = None) ---------------- *)
Lemma iter_puts_progress v ks t : Forall (fun k => key_ok k = true) ks -> exists t', m_iter (fun k => m_put None k v) ks t = Ok tt t'.
Proof.
  intros F. revert t. induction F as [|k ks Hk F IH]; intros t; [eexists; reflexivity|].
  simpl. unfold bind, m_put at 1. rewrite Hk. simpl. apply IH.
Qed.
Lemma iter_dels_progress ks t : Forall (fun k => key_ok k = true) ks -> exists t', m_iter (fun k => m_del None k) ks t = Ok tt t'.
Proof.
  intros F. revert t. induction F as [|k ks Hk F IH]; intros t; [eexists; reflexivity|].
  simpl. unfold bind, m_del at 1. rewrite Hk. simpl. apply IH.
Qed.
Lemma iter_conv_progress (op : bytes -> M unit) (E : bytes -> bytes) l ks t t' :
  all_keys l = Some ks -> m_iter op (map E ks) t = Ok tt t' ->
  m_iter (fun kr => match kr with KKey k => op (E k) | _ => fail end) l t = Ok tt t'.
Proof.
  revert ks t. induction l as [|kr l IH]; intros ks t A H; simpl in A.
  - apply some_inj' in A. subst ks. exact H.
  - destruct kr as [k| |]; try discriminate. destruct (all_keys l) as [ks'|] eqn:A'; [|discriminate].
    apply some_inj' in A. subst ks. simpl in H. simpl. unfold bind in *.
    destruct (op (E k) t) as [[] t1|]; [|discriminate]. eapply IH; eauto.
Qed.
Lemma write_timed_progress (op : bytes -> M unit) i w es t t' :
  idx_entries i w = Some es -> m_iter op es t = Ok tt t' -> write_timed op i w t = Ok tt t'.
Proof.
  unfold idx_entries, write_timed. destruct (id_bytes w) as [idb|]; [|discriminate].
  destruct (be4 (w_created w)) as [ct|]; [|discriminate]. destruct (all_keys (conv i w)) as [ks|] eqn:A; [|discriminate].
  intros H. apply some_inj' in H. subst es. intros H. unfold bind, of_opt, ret. eapply iter_conv_progress; eauto.
Qed.

Lemma m_iter_progress {A} (f : A -> M unit) l :
  (forall x, In x l -> forall t, exists t', f x t = Ok tt t') -> forall t, exists t', m_iter f l t = Ok tt t'.
Proof.
  induction l as [|x l IH]; intros H t; [eexists; reflexivity|]. simpl. unfold bind.
  destruct (H x (or_introl eq_refl) t) as [t1 E]. rewrite E. apply IH. intros y Hy. apply H. right. exact Hy.
Qed.

Lemma sub_key_ok (es es_i : list bytes) : (forall k, In k es_i -> In k es) -> Forall (fun k => key_ok k = true) es -> Forall (fun k => key_ok k = true) es_i.
Proof. intros S F. rewrite Forall_forall in *. intros k Hk. apply F, S, Hk. Qed.

Lemma delete_event_progress c pk es t : ids_key_of c = Some pk -> key_ok pk = true -> sec_keys c = Some es ->
  Forall (fun k => key_ok k = true) es -> exists t', delete_event None c t = Ok tt t'.
Proof.
  intros Epk Kpk Ees F. unfold delete_event. apply m_iter_progress. intros i Hi t0.
  assert (Hi' : i = IxIds \/ In i sec_indexes) by (destruct i; simpl; auto 10).
  destruct Hi' as [->|Hs].
  - simpl. unfold bind, ids_key. unfold ids_key_of in Epk. destruct (to_key IxIds (MStr (w_id c))); try discriminate.
    apply some_inj' in Epk. subst b. unfold ret. unfold m_del. rewrite Kpk. simpl. eexists; reflexivity.
  - destruct (sec_keys_idx i c es Ees Hs) as [es_i Ei].
    assert (Fi : Forall (fun k => key_ok k = true) es_i) by (eapply sub_key_ok; [|exact F]; intros k Hk; eapply idx_entries_sub; eauto).
    destruct (iter_dels_progress es_i t0 Fi) as [t' Ht'].
    exists t'. assert (clear_index None i c = write_timed (m_del None) i c) as -> by (destruct i; try reflexivity; simpl in Hs; exfalso; intuition discriminate).
    eapply write_timed_progress; eauto.
Qed.

(* a stored record of a coherent store whose keys are all admissible can be deleted *)
Lemma delete_stored_progress d x c t : Coh d -> KOk d -> t_db t = d -> rec_at d x = Some c ->
  exists t', delete_event None c t = Ok tt t'.
Proof.
  intros C K Et R. apply rec_at_some in R.
  destruct (coh_stored_pk d _ c C R) as [idb [Hid [_ Epk]]]. apply primary_key_of_inj in Epk. subst idb.
  destruct (coh_stored_sec d _ c C R) as [es Ees].
  eapply (delete_event_progress c (primary_key_of x) es).
  - apply ids_key_of_strict, Hid.
  - eapply kok_get; eauto.
  - exact Ees.
  - apply Forall_forall. intros k Hk. eapply kok_get; [exact K|]. eapply (coh_full d C); eauto.
Qed.

Lemma write_event_progress w t : storable w = true -> exists t', write_event None w t = Ok tt t'.
Proof.
  unfold storable. destruct (write_event None w {| t_db := []; t_log := [] |}) as [[] t0|] eqn:E; [|discriminate]. intros _.
  assert (S0 : Sorted (t_db {| t_db := @nil (bytes * rec); t_log := [] |})) by (unfold Sorted; simpl; constructor).
  destruct (write_event_ok None w _ t0 S0 E) as [pk [r [es [d1 [Epk [Er [Ees [Kpk [F _]]]]]]]]].
  unfold write_event. apply m_iter_progress. intros i Hi t1.
  assert (Hi' : i = IxIds \/ In i sec_indexes) by (destruct i; simpl; auto 10).
  destruct Hi' as [->|Hs].
  - simpl. unfold bind, ids_key. unfold ids_key_of in Epk. destruct (to_key IxIds (MStr (w_id w))); try discriminate.
    apply some_inj' in Epk. subst b. unfold ret, of_opt. rewrite Er. unfold ret, m_put. rewrite Kpk. simpl. eexists; reflexivity.
  - destruct (sec_keys_idx i w es Ees Hs) as [es_i Ei].
    assert (Fi : Forall (fun k => key_ok k = true) es_i) by (eapply sub_key_ok; [|exact F]; intros k Hk; eapply idx_entries_sub; eauto).
    destruct (iter_puts_progress RIndex es_i t1 Fi) as [t' Ht'].
    exists t'. assert (write_index None i w = write_timed (fun k => m_put None k RIndex) i w) as -> by (destruct i; try reflexivity; simpl in Hs; exfalso; intuition discriminate).
    eapply write_timed_progress; eauto.
Qed.

(* ---------------- storage.delete_event(hex id) / one step of a garbage-collection pass ---------------- *)
Lemma m_candidate_eq now eid t : m_candidate now eid t = Ok (option_map (decode_event now) (rec_at (t_db t) eid)) t.
Proof. reflexivity. Qed.
Lemma odel_body now b t : Forall (fun x => (x < 256)%N) b ->
  op_body None now (ODel (hex_of_bytes b)) t =
  match option_map (decode_event now) (rec_at (t_db t) b) with Some c => delete_event None c t | None => ret tt t end.
Proof.
  intros W. cbn [op_body]. unfold bind at 1. rewrite (py_fromhex_hex b W). cbn [of_opt]. unfold ret at 1.
  unfold bind. rewrite m_candidate_eq. destruct (option_map (decode_event now) (rec_at (t_db t) b)); reflexivity.
Qed.
Theorem del_step now d b : Coh d -> KOk d -> Forall (fun x => (x < 256)%N) b ->
  let d' := db_after None None now d (ODel (hex_of_bytes b)) in
  Coh d' /\ KOk d' /\ rec_at d' b = None /\ forall y, y <> b -> rec_at d' y = rec_at d y.
Proof.
  intros C K W d'. assert (C' : Coh d') by (apply run_op_coh; [exact C|exact I]).
  assert (K' : KOk d') by (apply run_op_kok; exact K). split; [exact C'|]. split; [exact K'|].
  unfold d', db_after, run_op. rewrite (odel_body now b _ W). cbn [t_db].
  destruct (rec_at d b) as [c|] eqn:R.
  - pose proof R as R0. apply rec_at_some in R0.
    destruct (coh_prim d C _ _ R0) as [_ [_ [N _]]]. cbn [option_map]. rewrite (decode_stored now c N).
    destruct (delete_stored_progress d b c {| t_db := d; t_log := [] |} C K eq_refl R) as [t' Ht']. rewrite Ht'. cbn [killed fst].
    destruct (delete_rec None b c {| t_db := d; t_log := [] |} t' C R Ht') as [_ [A B]]. auto.
  - cbn [option_map]. unfold ret. cbn [killed fst t_db]. split; [exact R|reflexivity].
Qed.

Fixpoint run_dels (now : Z) (d : kvdb) (ids : list bytes) : kvdb :=
  match ids with [] => d | b :: r => run_dels now (db_after None None now d (ODel (hex_of_bytes b))) r end.

Lemma run_dels_spec now ids : forall d, Coh d -> KOk d -> Forall (fun b => Forall (fun x => (x < 256)%N) b) ids ->
  let d' := run_dels now d ids in
  Coh d' /\ KOk d' /\ forall x, rec_at d' x = if In_bytes_dec x ids then None else rec_at d x.
Proof.
  induction ids as [|b ids IH]; intros d C K W; cbn [run_dels].
  - split; [exact C|]. split; [exact K|]. intros x. destruct (In_bytes_dec x []) as [[]|]; reflexivity.
  - inversion W as [|? ? Wb Wr]; subst. destruct (del_step now d b C K Wb) as [C1 [K1 [R1 Ro]]].
    destruct (IH _ C1 K1 Wr) as [C2 [K2 R2]]. split; [exact C2|]. split; [exact K2|]. intros x. rewrite R2.
    destruct (In_bytes_dec x ids) as [I|I]; destruct (In_bytes_dec x (b :: ids)) as [J|J]; try reflexivity.
    + exfalso. apply J. right. exact I.
    + destruct J as [<-|J]; [exact R1|contradiction].
    + apply Ro. intros ->. apply J. left. reflexivity.
Qed.
