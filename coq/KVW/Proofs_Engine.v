(* Facts about the ordered engine (KVM.Engine get / put_raw / delete_raw on key-sorted lists)
   in the form the write-path proofs use them: everything is read through `get`. *)
From NR Require Import Lib.Base Lib.BaseFacts KVM.Engine KVM.Order.
From Coq Require Import Sorting.Sorted.
Open Scope list_scope.

Section Facts.
Context {V : Type}.
Notation db := (@db V).

Definition Sorted (d : db) : Prop := StrictSorted (keys d).

Lemma lex_cmp_gt_lt a b : lex_cmp a b = Gt -> lex_cmp b a = Lt.
Proof. intros H. apply lex_lt_gt. exact H. Qed.

Lemma sorted_cons_inv k v (d : db) : Sorted ((k, v) :: d) -> Sorted d /\ Forall (fun x => lex_cmp k x = Lt) (keys d).
Proof. unfold Sorted; simpl. intros H. apply sorted_inv in H. exact H. Qed.

Lemma get_below k (d : db) : Forall (fun x => lex_cmp k x = Lt) (keys d) -> get k d = None.
Proof.
  destruct d as [|[k' v'] r]; simpl; intros H; [reflexivity|].
  inversion H; subst. rewrite H2. reflexivity.
Qed.

Lemma Forall_lt_trans k k' (l : list bytes) :
  lex_cmp k k' = Lt -> Forall (fun x => lex_cmp k' x = Lt) l -> Forall (fun x => lex_cmp k x = Lt) l.
Proof. intros H. apply Forall_impl. intros a Ha. eapply lex_lt_trans; eauto. Qed.

(* ---- put ---- *)
Lemma get_put_same k v (d : db) : get k (put_raw k v d) = Some v.
Proof.
  induction d as [|[k' v'] r IH]; simpl.
  - rewrite lex_cmp_refl. reflexivity.
  - destruct (lex_cmp k k') eqn:E; simpl.
    + rewrite lex_cmp_refl. reflexivity.
    + rewrite lex_cmp_refl. reflexivity.
    + rewrite E. exact IH.
Qed.

Lemma get_put_other k v k2 (d : db) : Sorted d -> k2 <> k -> get k2 (put_raw k v d) = get k2 d.
Proof.
  induction d as [|[k' v'] r IH]; simpl; intros S N.
  - destruct (lex_cmp k2 k) eqn:E; try reflexivity. apply lex_cmp_eq in E. contradiction.
  - apply sorted_cons_inv in S. destruct S as [S F].
    destruct (lex_cmp k k') eqn:E; simpl.
    + apply lex_cmp_eq in E. subst k'.
      destruct (lex_cmp k2 k) eqn:E2; try reflexivity. apply lex_cmp_eq in E2. contradiction.
    + destruct (lex_cmp k2 k) eqn:E2.
      * apply lex_cmp_eq in E2. contradiction.
      * rewrite (lex_lt_trans _ _ _ E2 E). reflexivity.
      * reflexivity.
    + destruct (lex_cmp k2 k') eqn:E2; try reflexivity. apply IH; assumption.
Qed.

Lemma keys_put_Forall (P : bytes -> Prop) k v (d : db) : P k -> Forall P (keys d) -> Forall P (keys (put_raw k v d)).
Proof.
  induction d as [|[k' v'] r IH]; simpl; intros Hk H.
  - constructor; auto.
  - inversion H; subst. destruct (lex_cmp k k'); simpl; repeat (constructor; auto).
Qed.

Lemma put_sorted k v (d : db) : Sorted d -> Sorted (put_raw k v d).
Proof.
  induction d as [|[k' v'] r IH]; intros S.
  - unfold Sorted; simpl. constructor; constructor.
  - pose proof (sorted_cons_inv _ _ _ S) as [S' F]. simpl.
    destruct (lex_cmp k k') eqn:E.
    + apply lex_cmp_eq in E. subst. exact S.
    + unfold Sorted; simpl. constructor; [exact S|]. constructor; [exact E|].
      eapply Forall_lt_trans; eauto.
    + unfold Sorted; simpl. constructor; [apply IH, S'|].
      apply keys_put_Forall; [apply lex_cmp_gt_lt, E | exact F].
Qed.

(* ---- delete ---- *)
Lemma keys_delete_Forall (P : bytes -> Prop) k (d : db) : Forall P (keys d) -> Forall P (keys (delete_raw k d)).
Proof.
  induction d as [|[k' v'] r IH]; simpl; intros H; [constructor|].
  inversion H; subst. destruct (lex_cmp k k'); simpl; auto.
Qed.

Lemma delete_sorted k (d : db) : Sorted d -> Sorted (delete_raw k d).
Proof.
  induction d as [|[k' v'] r IH]; intros S; [exact S|].
  pose proof (sorted_cons_inv _ _ _ S) as [S' F]. simpl.
  destruct (lex_cmp k k'); auto.
  unfold Sorted; simpl. constructor; [apply IH, S'|]. apply keys_delete_Forall, F.
Qed.

Lemma get_delete_same k (d : db) : Sorted d -> get k (delete_raw k d) = None.
Proof.
  induction d as [|[k' v'] r IH]; intros S; [reflexivity|].
  pose proof (sorted_cons_inv _ _ _ S) as [S' F]. simpl.
  destruct (lex_cmp k k') eqn:E; simpl.
  - apply lex_cmp_eq in E. subst. apply get_below, F.
  - rewrite E. reflexivity.
  - rewrite E. apply IH, S'.
Qed.

Lemma get_delete_other k k2 (d : db) : Sorted d -> k2 <> k -> get k2 (delete_raw k d) = get k2 d.
Proof.
  induction d as [|[k' v'] r IH]; intros S N; [reflexivity|].
  pose proof (sorted_cons_inv _ _ _ S) as [S' F]. simpl.
  destruct (lex_cmp k k') eqn:E; simpl.
  - apply lex_cmp_eq in E. subst k'.
    destruct (lex_cmp k2 k) eqn:E2.
    + apply lex_cmp_eq in E2. contradiction.
    + apply get_below. eapply Forall_lt_trans; eauto.
    + reflexivity.
  - reflexivity.
  - destruct (lex_cmp k2 k'); try reflexivity. apply IH; assumption.
Qed.

(* ---- membership ---- *)
Lemma get_In k v (d : db) : get k d = Some v -> In (k, v) d.
Proof.
  induction d as [|[k' v'] r IH]; simpl; [discriminate|].
  destruct (lex_cmp k k') eqn:E; try discriminate.
  - apply lex_cmp_eq in E. subst. intros H. injection H as ->. left; reflexivity.
  - intros H. right. apply IH, H.
Qed.

Lemma In_get k v (d : db) : Sorted d -> In (k, v) d -> get k d = Some v.
Proof.
  induction d as [|[k' v'] r IH]; simpl; intros S H; [contradiction|].
  pose proof (sorted_cons_inv _ _ _ S) as [S' F].
  destruct H as [H|H].
  - injection H as -> ->. rewrite lex_cmp_refl. reflexivity.
  - assert (Hk : In k (keys r)) by (apply in_map_iff; exists (k, v); auto).
    rewrite Forall_forall in F. specialize (F k Hk). apply lex_lt_gt in F. rewrite F. apply IH; assumption.
Qed.

Lemma In_keys_get k (d : db) : Sorted d -> In k (keys d) -> exists v, get k d = Some v.
Proof.
  intros S H. apply in_map_iff in H. destruct H as [[k' v] [E H]]. simpl in E. subst k'.
  exists v. apply In_get; assumption.
Qed.
Lemma get_In_keys k v (d : db) : get k d = Some v -> In k (keys d).
Proof. intros H. apply get_In in H. apply in_map_iff. exists (k, v). auto. Qed.
End Facts.
