(* What the two scanner calls of _post_save yield on a coherent keyspace, stated on stored
   records.  Input: the scanner agrees with KVM.ScanSpec.scan_spec (hypothesis-style premise
   `ScanOk`, discharged by kvquery's KVM.Proofs_Coherent.coherent_scanner_correct).  Output:
   the ids yielded for authorkinds [(pubkey, kind)] until=T are exactly the ids of the stored
   events of that author and kind created at or before T (likewise authors [pubkey]). *)
From NR Require Import Lib.Base Lib.BaseFacts Lib.Nip01 KVM.Engine KVM.Keys KVM.Scan KVM.ScanSpec KVM.Proofs_Blocks
     KVW.Types KVW.Entries KVW.Write KVW.PostSave KVW.Proofs_Engine KVW.Proofs_Tx KVW.Proofs_Keys
     KVW.Proofs_Coherent.
From Coq Require Import ZifyBool.
Open Scope list_scope. Open Scope Z_scope.

(* ---------------- big-endian order ---------------- *)
Lemma lex4 (a3 a2 a1 a0 b3 b2 b1 b0 : N) :
  (a2 < 256)%N -> (a1 < 256)%N -> (a0 < 256)%N -> (b2 < 256)%N -> (b1 < 256)%N -> (b0 < 256)%N ->
  lex_cmp [a3; a2; a1; a0] [b3; b2; b1; b0] =
  N.compare (a3 * 16777216 + a2 * 65536 + a1 * 256 + a0) (b3 * 16777216 + b2 * 65536 + b1 * 256 + b0).
Proof.
  intros. cbn [lex_cmp]. symmetry.
  destruct (N.compare a3 b3) eqn:E3; [apply N.compare_eq in E3 | rewrite N.compare_lt_iff in E3 | rewrite N.compare_gt_iff in E3];
    [| apply N.compare_lt_iff; lia | apply N.compare_gt_iff; lia].
  destruct (N.compare a2 b2) eqn:E2; [apply N.compare_eq in E2 | rewrite N.compare_lt_iff in E2 | rewrite N.compare_gt_iff in E2];
    [| apply N.compare_lt_iff; lia | apply N.compare_gt_iff; lia].
  destruct (N.compare a1 b1) eqn:E1; [apply N.compare_eq in E1 | rewrite N.compare_lt_iff in E1 | rewrite N.compare_gt_iff in E1];
    [| apply N.compare_lt_iff; lia | apply N.compare_gt_iff; lia].
  destruct (N.compare a0 b0) eqn:E0; [apply N.compare_eq in E0 | rewrite N.compare_lt_iff in E0 | rewrite N.compare_gt_iff in E0];
    [apply N.compare_eq_iff; lia | apply N.compare_lt_iff; lia | apply N.compare_gt_iff; lia].
Qed.

Lemma be4_digits z b : be4 z = Some b ->
  exists a3 a2 a1 a0, b = [a3; a2; a1; a0] /\ (a3 < 256)%N /\ (a2 < 256)%N /\ (a1 < 256)%N /\ (a0 < 256)%N /\
                      Z.to_N z = (a3 * 16777216 + a2 * 65536 + a1 * 256 + a0)%N /\ 0 <= z.
Proof.
  unfold be4. destruct ((0 <=? z) && (z <? 4294967296)) eqn:E; [|discriminate]. intros H. injection H as <-.
  set (n := Z.to_N z). assert (Hn : (n < 4294967296)%N) by (unfold n; lia).
  exists ((n / 16777216) mod 256)%N, ((n / 65536) mod 256)%N, ((n / 256) mod 256)%N, (n mod 256)%N.
  split; [reflexivity|].
  repeat split; try (apply N.mod_lt; lia); try lia.
  pose proof (N.div_mod n 256 ltac:(lia)) as D0.
  pose proof (N.div_mod (n / 256) 256 ltac:(lia)) as D1.
  pose proof (N.div_mod (n / 256 / 256) 256 ltac:(lia)) as D2.
  rewrite !N.div_div in D1, D2 by lia. rewrite N.div_div in D2 by lia.
  change (256 * 256)%N with 65536%N in *. change (65536 * 256)%N with 16777216%N in *.
  assert (Hs : (n / 16777216 < 256)%N) by (apply N.div_lt_upper_bound; lia).
  rewrite (N.mod_small (n / 16777216) 256 Hs). lia.
Qed.

Lemma be4_compare a b x y : be4 a = Some x -> be4 b = Some y -> lex_cmp x y = Z.compare a b.
Proof.
  intros Ha Hb. destruct (be4_digits a x Ha) as [a3 [a2 [a1 [a0 [-> [A3 [A2 [A1 [A0 [Ea Pa]]]]]]]]]].
  destruct (be4_digits b y Hb) as [b3 [b2 [b1 [b0 [-> [B3 [B2 [B1 [B0 [Eb Pb]]]]]]]]]].
  rewrite lex4 by assumption. rewrite <- Ea, <- Eb. rewrite <- (Z2N.inj_compare a b) by assumption. reflexivity.
Qed.
Lemma be4_leb a b x y : be4 a = Some x -> be4 b = Some y -> lex_leb x y = (a <=? b).
Proof.
  intros Ha Hb. unfold lex_leb. rewrite (be4_compare a b x y Ha Hb). unfold Z.leb. reflexivity.
Qed.
Lemma be4_inj a b x : be4 a = Some x -> be4 b = Some x -> a = b.
Proof.
  intros Ha Hb. pose proof (be4_compare a b x x Ha Hb) as H. rewrite lex_cmp_refl in H.
  symmetry in H. apply Z.compare_eq in H. exact H.
Qed.
Lemma be4_len z b : be4 z = Some b -> length b = 4%nat.
Proof. unfold be4. destruct (_ && _); [|discriminate]. intros H. injection H as <-. reflexivity. Qed.

(* ---------------- entry_of ---------------- *)
Lemma app_inj_len {A} (a b x y : list A) : length a = length b -> a ++ x = b ++ y -> a = b /\ x = y.
Proof.
  revert b. induction a as [|u a IH]; intros [|v b] L H; simpl in *; try discriminate; [auto|].
  injection H as -> H. injection L as L. destruct (IH b L H) as [-> ->]. auto.
Qed.

Lemma nth_skipn' {A} (l : list A) k n d : nth n (skipn k l) d = nth (k + n) l d.
Proof.
  revert l. induction k as [|k IH]; intros l; [reflexivity|]. destruct l as [|x l]; simpl.
  - destruct n; reflexivity.
  - apply IH.
Qed.

Lemma skipn_skipn' {A} (l : list A) a b : skipn a (skipn b l) = skipn (b + a) l.
Proof.
  revert l. induction b as [|b IH]; intros l; [reflexivity|]. destruct l as [|x l]; simpl.
  - destruct a; reflexivity.
  - apply IH.
Qed.

Lemma entry_of_inv m key ts eid : entry_of m key = Some (ts, eid) ->
  key = m ++ [0%N] ++ ts ++ [0%N] ++ eid /\ length ts = 4%nat /\ length eid = 32%nat.
Proof.
  unfold entry_of. destruct (Nat.eqb (length key) (length m + 38)) eqn:E1; [|discriminate].
  destruct (KVM.ScanSpec.bytes_eqb (firstn (length m) key) m) eqn:E2; [|discriminate].
  destruct (N.eqb (nth (length m) key 1%N) 0) eqn:E3; [|discriminate].
  destruct (N.eqb (nth (length m + 5) key 1%N) 0) eqn:E4; [|discriminate].
  cbn [andb]. intros H. injection H as <- <-.
  apply Nat.eqb_eq in E1. apply bytes_eqb_eq in E2. apply N.eqb_eq in E3. apply N.eqb_eq in E4.
  rewrite <- (firstn_skipn (length m) key) at 1. rewrite E2.
  set (r := skipn (length m) key).
  assert (Lr : length r = 38%nat) by (unfold r; rewrite skipn_length; lia).
  assert (N0 : nth 0 r 1%N = 0%N).
  { unfold r. rewrite nth_skipn'. rewrite Nat.add_0_r. exact E3. }
  assert (N5 : nth 5 r 1%N = 0%N).
  { unfold r. rewrite nth_skipn'. exact E4. }
  assert (S1 : skipn (length m + 1) key = skipn 1 r) by (unfold r; rewrite skipn_skipn'; reflexivity).
  assert (S6 : skipn (length m + 6) key = skipn 6 r) by (unfold r; rewrite skipn_skipn'; reflexivity).
  rewrite S1, S6.
  do 39 (destruct r as [|? r]; [simpl in Lr; try lia|]); [|simpl in Lr; lia].
  simpl in N0, N5. subst. simpl. split; [reflexivity|]. split; reflexivity.
Qed.

(* ---------------- the entry of a stored event in one index ---------------- *)
Definition ak_key (pkb kb : bytes) : bytes := 4%N :: pkb ++ [0%N] ++ kb.
Definition au_key (pkb : bytes) : bytes := 3%N :: pkb.

Lemma idx_entries_In i w es_i es : In i sec_indexes -> sec_keys w = Some es -> idx_entries i w = Some es_i ->
  forall k, In k es_i -> In k es.
Proof. intros. eapply idx_entries_sub; eauto. Qed.

Lemma sec_keys_idx i w es : sec_keys w = Some es -> In i sec_indexes -> exists es_i, idx_entries i w = Some es_i.
Proof.
  unfold sec_keys, sec_indexes. cbn [map]. intros H Hi.
  destruct (idx_entries IxCreated w) as [e1|] eqn:E1; [|discriminate].
  destruct (idx_entries IxKinds w) as [e2|] eqn:E2; [|discriminate].
  destruct (idx_entries IxAuthors w) as [e3|] eqn:E3; [|discriminate].
  destruct (idx_entries IxAuthorKinds w) as [e4|] eqn:E4; [|discriminate].
  destruct (idx_entries IxTags w) as [e5|] eqn:E5; [|discriminate].
  simpl in Hi. destruct Hi as [<-|[<-|[<-|[<-|[<-|[]]]]]]; eauto.
Qed.

(* pubkey bytes and kind bytes of a stored record *)
Lemma stored_fields d pk e : Coh d -> get pk d = Some (REvent e) ->
  exists idb pkb kb ct es,
    id_bytes e = Some idb /\ length idb = 32%nat /\ pk = primary_key_of idb /\
    py_fromhex (w_pubkey e) = Some pkb /\ length pkb = 32%nat /\ hex_of_bytes pkb = w_pubkey e /\
    be4 (w_kind e) = Some kb /\ be4 (w_created e) = Some ct /\ sec_keys e = Some es /\
    In (entry_key (ak_key pkb kb) ct idb) es /\ In (entry_key (au_key pkb) ct idb) es.
Proof.
  intros C G. destruct (coh_stored_pk d pk e C G) as [idb [Hid [Lid ->]]].
  destruct (coh_prim d C _ _ G) as [_ [[_ [Hp _]] _]].
  destruct (hex64_bytes _ Hp) as [pkb [Epk [Lpk Xpk]]].
  destruct (coh_stored_sec d _ e C G) as [es Ees].
  destruct (sec_keys_ranges e es Ees) as [R1 R2].
  assert (exists kb, be4 (w_kind e) = Some kb) as [kb Ekb].
  { unfold be4. replace ((0 <=? w_kind e) && (w_kind e <? 4294967296)) with true by lia. eauto. }
  assert (exists ct, be4 (w_created e) = Some ct) as [ct Ect].
  { unfold be4. replace ((0 <=? w_created e) && (w_created e <? 4294967296)) with true by lia. eauto. }
  exists idb, pkb, kb, ct, es. repeat split; try assumption.
  - apply (idx_entries_sub IxAuthorKinds e es [entry_key (ak_key pkb kb) ct idb]); [simpl; auto 10|exact Ees| |left; reflexivity].
    unfold idx_entries. rewrite Hid, Ect. unfold conv, to_key. rewrite (bytes_from_hex_strict _ _ Epk), Ekb. reflexivity.
  - apply (idx_entries_sub IxAuthors e es [entry_key (au_key pkb) ct idb]); [simpl; auto 10|exact Ees| |left; reflexivity].
    unfold idx_entries. rewrite Hid, Ect. unfold conv, to_key. rewrite (bytes_from_hex_strict _ _ Epk). reflexivity.
Qed.

(* an entry key of a stored event that starts with the byte of index i is that event's entry in index i *)
Lemma sec_key_of_index w es k p rest : sec_keys w = Some es -> In k es -> k = p :: rest ->
  exists i idb ct km, In i sec_indexes /\ idx_prefix i = p /\ id_bytes w = Some idb /\ be4 (w_created w) = Some ct /\
                      In (KKey km) (conv i w) /\ k = entry_key km ct idb.
Proof.
  intros H Hin Hk. destruct (sec_keys_shape w es k H Hin) as [i [idb [ct [km [Hi [Hid [Hct [Hc ->]]]]]]]].
  destruct (conv_head i w km Hc) as [_ [r ->]]. exists i, idb, ct, (idx_prefix i :: r).
  repeat split; try assumption. unfold entry_key in Hk. simpl in Hk. injection Hk as -> _. reflexivity.
Qed.

Section ScanUse.
(* the scanner yields what its specification says, on coherent keyspaces, for one match value
   (this is KVM.Proofs_Coherent.coherent_scanner_correct specialised) *)
Definition ScanOk : Prop := forall d i m until, Coh d -> (exists k, to_key i m = KKey k) -> i <> IxIds ->
  index_scanner (keys d) i [m] None (Some until) (fun _ => true) =
  scan_spec (keys d) i [m] None (Some until) (fun _ => true).

Lemma spec_block_In ks u cm eid :
  In eid (spec_block ks false None (Some u) (fun _ => true) cm) <->
  exists key ts, In key ks /\ entry_of cm key = Some (ts, eid) /\ lex_leb ts u = true.
Proof.
  unfold spec_block. rewrite in_flat_map. split.
  - intros [key [Hk H]]. apply in_rev in Hk. destruct (entry_of cm key) as [[ts e]|] eqn:E; [|destruct H].
    unfold in_window_b in H. simpl in H. destruct (lex_leb ts u) eqn:L; simpl in H; [|destruct H].
    destruct H as [<-|[]]. exists key, ts. auto.
  - intros [key [ts [Hk [E L]]]]. exists key. split; [apply in_rev; rewrite rev_involutive; exact Hk|].
    rewrite E. unfold in_window_b. simpl. rewrite L. simpl. left; reflexivity.
Qed.

(* a key of a coherent store lying in a timed index block is an entry of a stored record *)
Lemma coh_entry_owner d key p rest : Coh d -> In key (keys d) -> key = p :: rest -> sec_prefix p ->
  exists pk e es, get pk d = Some (REvent e) /\ sec_keys e = Some es /\ In key es.
Proof.
  intros C Hk -> P. destruct (In_keys_get _ d (coh_sorted d C) Hk) as [v G]. destruct v as [|e].
  - destruct (coh_sec d C _ G) as [T|[e [pk [es [A [B I]]]]]].
    + unfold tombstone in T. injection T as -> _. unfold sec_prefix in P. lia.
    + exists pk, e, es. auto.
  - destruct (coh_prim d C _ _ G) as [Pk _]. unfold primary_key in Pk. destruct (id_bytes e); [|discriminate].
    simpl in Pk. unfold primary_key_of in Pk. injection Pk as Hp _. subst p. unfold sec_prefix in P. lia.
Qed.

Hypothesis scan_ok : ScanOk.

(* authorkinds [(pubkey, kind)] until = T *)
Theorem scan_authorkinds d pkhex kind until pkb kb : Coh d ->
  py_fromhex pkhex = Some pkb -> length pkb = 32%nat -> hex_of_bytes pkb = pkhex -> be4 kind = Some kb ->
  match index_scanner (keys d) IxAuthorKinds [MStrInt pkhex kind] None (Some until) (fun _ => true) with
  | SOk ids =>
      (exists ub, be4 until = Some ub) /\
      forall eid, In eid ids <->
        exists e, get (primary_key_of eid) d = Some (REvent e) /\ w_pubkey e = pkhex /\ w_kind e = kind /\ w_created e <= until
  | SRaise => be4 until = None
  | SFuel => False
  end.
Proof.
  intros C Epk Lpk Xpk Ekb.
  assert (Ek : to_key IxAuthorKinds (MStrInt pkhex kind) = KKey (ak_key pkb kb)).
  { unfold to_key. rewrite (bytes_from_hex_strict _ _ Epk), Ekb. reflexivity. }
  rewrite (scan_ok d IxAuthorKinds (MStrInt pkhex kind) until C (ex_intro _ _ Ek)) by discriminate.
  unfold scan_spec. cbn [map]. rewrite Ek. cbn [compile option_map conv_time].
  destruct (be4 until) as [ub|] eqn:Eu; [|reflexivity].
  cbn [flat_map]. split; [eauto|]. intros eid. rewrite app_nil_r. rewrite spec_block_In. split.
  - intros [key [ts [Hk [E L]]]]. destruct (entry_of_inv _ _ _ _ E) as [Dk [Lts Leid]].
    assert (Hkey : key = 4%N :: (pkb ++ [0%N] ++ kb ++ [0%N] ++ ts ++ [0%N] ++ eid)).
    { rewrite Dk. unfold ak_key. simpl. rewrite <- !app_assoc. reflexivity. }
    destruct (coh_entry_owner d key 4%N _ C Hk Hkey) as [pk [e [es [G [S I]]]]].
    { unfold sec_prefix. auto. }
    destruct (sec_key_of_index e es key 4%N _ S I Hkey) as [i [idb [ct [km [Hi [Hp [Hid [Hct [Hc Ke]]]]]]]]].
    assert (i = IxAuthorKinds) as ->.
    { simpl in Hi. destruct Hi as [<-|[<-|[<-|[<-|[<-|[]]]]]]; simpl in Hp; try discriminate. reflexivity. }
    destruct (stored_fields d pk e C G) as [idb' [pkb' [kb' [ct' [es' [Hid' [Lid' [-> [Epk' [Lpk' [Xpk' [Ekb' [Ect' _]]]]]]]]]]]]].
    rewrite Hid in Hid'. injection Hid' as <-. rewrite Hct in Ect'. injection Ect' as <-.
    simpl in Hc. destruct Hc as [Hc|[]]. unfold to_key in Hc. rewrite (bytes_from_hex_strict _ _ Epk'), Ekb' in Hc.
    injection Hc as <-.
    (* both decompositions of the key *)
    rewrite Dk in Ke. unfold entry_key in Ke.
    assert (L1 : length (ak_key pkb kb) = length (4%N :: pkb' ++ [0%N] ++ kb')).
    { unfold ak_key. simpl. rewrite !app_length. simpl. rewrite Lpk, Lpk', (be4_len _ _ Ekb), (be4_len _ _ Ekb'). reflexivity. }
    destruct (app_inj_len _ _ _ _ L1 Ke) as [K1 K2].
    injection K2 as K2.
    assert (L2 : length ts = length ct) by (rewrite Lts, (be4_len _ _ Hct); reflexivity).
    destruct (app_inj_len _ _ _ _ L2 K2) as [-> K3]. injection K3 as ->.
    unfold ak_key in K1. injection K1 as K1.
    assert (L3 : length pkb = length pkb') by congruence.
    destruct (app_inj_len _ _ _ _ L3 K1) as [-> K4]. injection K4 as ->.
    exists e. split; [exact G|]. split; [congruence|]. split; [eapply be4_inj; eauto|].
    rewrite (be4_leb _ _ _ _ Hct Eu) in L. lia.
  - intros [e [G [P1 [P2 P3]]]].
    destruct (stored_fields d _ e C G) as [idb [pkb' [kb' [ct [es [Hid [Lid [Hpk [Epk' [Lpk' [Xpk' [Ekb' [Ect [Ees [Iak _]]]]]]]]]]]]]]].
    unfold primary_key_of in Hpk. injection Hpk as <-.
    rewrite P1 in Epk'. rewrite Epk in Epk'. injection Epk' as <-. rewrite P2, Ekb in Ekb'. injection Ekb' as <-.
    exists (entry_key (ak_key pkb kb) ct eid), ct. split; [|split].
    + eapply get_In_keys. eapply (coh_full d C e _ es G Ees). exact Iak.
    + unfold entry_key. change ([0%N] ++ ct ++ [0%N] ++ eid) with (0%N :: ct ++ 0%N :: eid).
      apply KVM.Proofs_Blocks.entry_of_entry; [eapply be4_len; eauto|exact Lid].
    + rewrite (be4_leb _ _ _ _ Ect Eu). lia.
Qed.

(* authors [pubkey] until = T *)
Theorem scan_authors d pkhex until pkb : Coh d ->
  py_fromhex pkhex = Some pkb -> length pkb = 32%nat -> hex_of_bytes pkb = pkhex ->
  match index_scanner (keys d) IxAuthors [MStr pkhex] None (Some until) (fun _ => true) with
  | SOk ids =>
      (exists ub, be4 until = Some ub) /\
      forall eid, In eid ids <->
        exists e, get (primary_key_of eid) d = Some (REvent e) /\ w_pubkey e = pkhex /\ w_created e <= until
  | SRaise => be4 until = None
  | SFuel => False
  end.
Proof.
  intros C Epk Lpk Xpk.
  assert (Ek : to_key IxAuthors (MStr pkhex) = KKey (au_key pkb)).
  { unfold to_key. rewrite (bytes_from_hex_strict _ _ Epk). reflexivity. }
  rewrite (scan_ok d IxAuthors (MStr pkhex) until C (ex_intro _ _ Ek)) by discriminate.
  unfold scan_spec. cbn [map]. rewrite Ek. cbn [compile option_map conv_time].
  destruct (be4 until) as [ub|] eqn:Eu; [|reflexivity].
  cbn [flat_map]. split; [eauto|]. intros eid. rewrite app_nil_r. rewrite spec_block_In. split.
  - intros [key [ts [Hk [E L]]]]. destruct (entry_of_inv _ _ _ _ E) as [Dk [Lts Leid]].
    assert (Hkey : key = 3%N :: (pkb ++ [0%N] ++ ts ++ [0%N] ++ eid)).
    { rewrite Dk. reflexivity. }
    destruct (coh_entry_owner d key 3%N _ C Hk Hkey) as [pk [e [es [G [S I]]]]].
    { unfold sec_prefix. auto. }
    destruct (sec_key_of_index e es key 3%N _ S I Hkey) as [i [idb [ct [km [Hi [Hp [Hid [Hct [Hc Ke]]]]]]]]].
    assert (i = IxAuthors) as ->.
    { simpl in Hi. destruct Hi as [<-|[<-|[<-|[<-|[<-|[]]]]]]; simpl in Hp; try discriminate. reflexivity. }
    destruct (stored_fields d pk e C G) as [idb' [pkb' [kb' [ct' [es' [Hid' [Lid' [-> [Epk' [Lpk' [Xpk' [Ekb' [Ect' _]]]]]]]]]]]]].
    rewrite Hid in Hid'. injection Hid' as <-. rewrite Hct in Ect'. injection Ect' as <-.
    simpl in Hc. destruct Hc as [Hc|[]]. unfold to_key in Hc. rewrite (bytes_from_hex_strict _ _ Epk') in Hc.
    injection Hc as <-.
    rewrite Dk in Ke. unfold entry_key in Ke.
    assert (L1 : length (au_key pkb) = length (3%N :: pkb')) by (unfold au_key; simpl; unfold bytes, byte in *; lia).
    destruct (app_inj_len _ _ _ _ L1 Ke) as [K1 K2].
    injection K2 as K2.
    assert (L2 : length ts = length ct) by (rewrite Lts, (be4_len _ _ Hct); reflexivity).
    destruct (app_inj_len _ _ _ _ L2 K2) as [-> K3]. injection K3 as ->.
    unfold au_key in K1. injection K1 as ->.
    exists e. split; [exact G|]. split; [congruence|].
    rewrite (be4_leb _ _ _ _ Hct Eu) in L. lia.
  - intros [e [G [P1 P3]]].
    destruct (stored_fields d _ e C G) as [idb [pkb' [kb' [ct [es [Hid [Lid [Hpk [Epk' [Lpk' [Xpk' [Ekb' [Ect [Ees [_ Iau]]]]]]]]]]]]]]].
    unfold primary_key_of in Hpk. injection Hpk as <-.
    rewrite P1 in Epk'. rewrite Epk in Epk'. injection Epk' as <-.
    exists (entry_key (au_key pkb) ct eid), ct. split; [|split].
    + eapply get_In_keys. eapply (coh_full d C e _ es G Ees). exact Iau.
    + unfold entry_key. change ([0%N] ++ ct ++ [0%N] ++ eid) with (0%N :: ct ++ 0%N :: eid).
      apply KVM.Proofs_Blocks.entry_of_entry; [eapply be4_len; eauto|exact Lid].
    + rewrite (be4_leb _ _ _ _ Ect Eu). lia.
Qed.
End ScanUse.
