(* C17 (LMDB): what KVGarbageCollector.collect finds on a coherent keyspace: exactly the ids of
   the stored events of an ephemeral kind and of those carrying an expiration tag whose value is
   a decimal timestamp earlier than the clock. *)
From NR Require Import Lib.Base Lib.BaseFacts Lib.Nip01 KVM.Engine KVM.Keys KVM.Scan
     KVW.Types KVW.Entries KVW.Write KVW.PostSave KVW.Gc KVW.Oracles KVW.Proofs_Engine KVW.Proofs_Tx KVW.Proofs_Keys
     KVW.Proofs_Coherent KVW.Proofs_ScanUse KVW.Proofs_PostSave.
From Coq Require Import ZifyBool Sorting.Sorted.
Open Scope list_scope. Open Scope Z_scope.
Ltac Zify.zify_post_hook ::= Z.to_euclidean_division_equations.

(* ---------------- range walks over a sorted key list ---------------- *)
Lemma drop_below_In lo ks k : StrictSorted ks -> (In k (drop_below lo ks) <-> In k ks /\ lex_ltb k lo = false).
Proof.
  induction ks as [|h ks IH]; intros S; simpl; [tauto|].
  apply sorted_inv in S. destruct S as [S F]. destruct (lex_ltb h lo) eqn:E.
  - rewrite (IH S). split; [tauto|]. intros [[<-|H] L]; [congruence|tauto].
  - simpl. split; [|tauto]. intros [<-|H]; [auto|]. split; [auto|].
    rewrite Forall_forall in F. specialize (F k H). unfold lt in F.
    apply lex_ltb_ge. apply lex_ltb_ge in E. intros G. apply lex_lt_gt in G.
    apply E. apply lex_lt_gt. eapply lex_lt_trans; eauto.
Qed.
Lemma drop_below_sorted lo ks : StrictSorted ks -> StrictSorted (drop_below lo ks).
Proof.
  induction ks as [|h ks IH]; intros S; simpl; [exact S|]. destruct (lex_ltb h lo); [|exact S].
  apply IH. apply sorted_inv in S. tauto.
Qed.
Lemma take_until_In (stop : bytes -> bool) l k : StrictSorted l ->
  (forall a b, In a l -> In b l -> lex_cmp a b = Lt -> stop a = true -> stop b = true) ->
  (In k (take_until stop l) <-> In k l /\ stop k = false).
Proof.
  induction l as [|h l IH]; intros S M; simpl; [tauto|].
  apply sorted_inv in S. destruct S as [S F]. destruct (stop h) eqn:E.
  - split; [intros []|]. intros [[<-|H] L]; [congruence|].
    rewrite Forall_forall in F. specialize (F k H). rewrite (M h k (or_introl eq_refl) (or_intror H) F E) in L. discriminate.
  - simpl. rewrite IH; [|exact S|intros a b Ha Hb; apply M; right; assumption].
    split; [intros [<-|[H L]]; auto | intros [[<-|H] L]; auto].
Qed.

Lemma is_prefix_has_prefix p k : is_prefix p k = has_prefix k p.
Proof.
  revert k. induction p as [|x p IH]; intros k; [reflexivity|]. destruct k as [|y k]; [reflexivity|].
  rewrite has_prefix_cons. simpl. rewrite IH. rewrite N.eqb_sym. reflexivity.
Qed.

Lemma prefixed_block_In p ks k : StrictSorted ks ->
  (In k (take_until (fun k => negb (is_prefix p k)) (drop_below p ks)) <-> In k ks /\ is_prefix p k = true).
Proof.
  intros S. rewrite take_until_In; [|apply drop_below_sorted, S|].
  - rewrite (drop_below_In p ks k S). split.
    + intros [[H _] L]. split; [exact H|]. destruct (is_prefix p k); [reflexivity|discriminate].
    + intros [H L]. rewrite L. split; [|reflexivity]. split; [exact H|].
      apply lex_ltb_ge. rewrite is_prefix_has_prefix in L. apply prefixed_ge, L.
  - intros a b Ha Hb Lab Sa. apply (drop_below_In p ks a S) in Ha. destruct Ha as [_ Ga].
    destruct (is_prefix p b) eqn:Pb; [|reflexivity]. exfalso.
    rewrite is_prefix_has_prefix in Pb. apply has_prefix_spec in Pb. destruct Pb as [suf ->].
    assert (Na : has_prefix a p = false) by (rewrite <- is_prefix_has_prefix; destruct (is_prefix p a); [discriminate|reflexivity]).
    pose proof (not_prefixed_lt a p suf Lab Na) as L. apply lex_ltb_lt in L. congruence.
Qed.

(* ---------------- decimal values ---------------- *)
Definition dstep (acc : option N) (c : N) : option N :=
  match acc with Some a => if is_digit c then Some (a * 10 + (c - 48))%N else None | None => None end.
Lemma N_of_dec_fold s : N_of_dec s = match s with [] => None | _ => fold_left dstep s (Some 0%N) end.
Proof. reflexivity. Qed.
Lemma fold_dstep_none l : fold_left dstep l None = None.
Proof. induction l; [reflexivity|exact IHl]. Qed.
Lemma some_inj {A} (a b : A) : Some a = Some b -> a = b.
Proof. congruence. Qed.
Lemma utf8_cp_digits (c : N) (cb : list N) acc : utf8_cp c = Some cb -> fold_left dstep cb acc = dstep acc c /\ cb <> [].
Proof.
  unfold utf8_cp. destruct (c <? 128)%N eqn:E1.
  - intros H. injection H as <-. split; [reflexivity|discriminate].
  - assert (Hc : dstep acc c = None) by (unfold dstep, is_digit; destruct acc; [replace ((48 <=? c)%N && (c <=? 57)%N) with false by lia|]; reflexivity).
    rewrite Hc.
    assert (Hb : forall b rest, (128 <= b)%N -> fold_left dstep (b :: rest) acc = None).
    { intros b rest Hb. simpl. replace (dstep acc b) with (@None N); [apply fold_dstep_none|].
      unfold dstep, is_digit. destruct acc; [replace ((48 <=? b)%N && (b <=? 57)%N) with false by lia|]; reflexivity. }
    destruct (c <? 2048)%N; [intros H; apply some_inj in H; subst cb; split; [apply Hb; lia|discriminate]|].
    destruct ((55296 <=? c)%N && (c <=? 57343)%N); [discriminate|].
    destruct (c <? 65536)%N; [intros H; apply some_inj in H; subst cb; split; [apply Hb; lia|discriminate]|].
    destruct (c <? 1114112)%N; [intros H; apply some_inj in H; subst cb; split; [apply Hb; lia|discriminate]|discriminate].
Qed.
Lemma utf8_digits (v : list N) : forall (uv : list N) acc, utf8 v = Some uv -> fold_left dstep uv acc = fold_left dstep v acc /\ (uv = [] <-> v = []).
Proof.
  induction v as [|c r IH]; intros uv acc H; simpl in H.
  - injection H as <-. split; [reflexivity|tauto].
  - destruct (utf8_cp c) as [cb|] eqn:Ec; [|discriminate]. destruct (utf8 r) as [ur|] eqn:Er; [|discriminate].
    apply some_inj in H. subst uv. destruct (utf8_cp_digits c cb acc Ec) as [F N]. unfold bytes, byte, cp in *. split.
    + rewrite fold_left_app, F. cbn [fold_left]. apply (IH ur (dstep acc c) eq_refl).
    + split; [|discriminate]. intros E. apply app_eq_nil in E. tauto.
Qed.
Lemma N_of_dec_utf8 v uv : utf8 v = Some uv -> N_of_dec uv = N_of_dec v.
Proof.
  intros H. destruct (utf8_digits v uv (Some 0%N) H) as [F E]. rewrite !N_of_dec_fold.
  destruct uv as [|b uv']; destruct v as [|c v']; try reflexivity.
  - destruct E as [E _]. specialize (E eq_refl). discriminate.
  - destruct E as [_ E]. specialize (E eq_refl). discriminate.
  - exact F.
Qed.

(* ---------------- collected ids on a coherent store ---------------- *)
Lemma tail32_entry' km ct idb : length idb = 32%nat -> tail32 (entry_key km ct idb) = idb.
Proof. apply tail32_entry. Qed.

Definition k20000 : bytes := [2; 0; 0; 78; 32]%N.
Definition k30000 : bytes := [2; 0; 0; 117; 48]%N.
Lemma kinds_key_20000 : kinds_key 20000 = k20000. Proof. reflexivity. Qed.
Lemma kinds_key_30000 : kinds_key 30000 = k30000. Proof. reflexivity. Qed.

(* position of a kind entry relative to a bare kind key *)
Lemma kind_entry_cmp (kb rest : list N) z (zb : list N) : length kb = 4%nat -> be4 z = Some zb -> rest <> [] ->
  lex_cmp (2%N :: kb ++ rest) (2%N :: zb) = match lex_cmp kb zb with Eq => Gt | c => c end.
Proof.
  intros L Hz N. cbn [lex_cmp]. rewrite N.compare_refl.
  replace (lex_cmp (kb ++ rest) zb) with (lex_cmp (kb ++ rest) (zb ++ [])) by (rewrite app_nil_r; reflexivity).
  rewrite lex_cmp_app_eqlen by (rewrite L; symmetry; eapply be4_len; eauto).
  destruct (lex_cmp kb zb); try reflexivity. destruct rest; [contradiction|reflexivity].
Qed.

Theorem gc_ephemeral_spec d b : Coh d ->
  (In b (gc_ephemeral (keys d)) <-> exists e, rec_at d b = Some e /\ is_ephemeral_kind (w_kind e) = true).
Proof.
  intros C. pose proof (coh_sorted d C) as S. unfold gc_ephemeral. rewrite kinds_key_20000, kinds_key_30000.
  rewrite in_map_iff. split.
  - intros [key [<- Hk]]. apply take_until_In in Hk; [|apply drop_below_sorted, S|].
    2:{ intros a b0 _ _ Lab Sa. apply negb_true_iff in Sa. apply negb_true_iff. apply lex_ltb_ge in Sa. apply lex_ltb_ge.
        intros G. apply Sa. apply lex_lt_gt. apply lex_lt_gt in G. eapply lex_lt_trans; eauto. }
    destruct Hk as [Hk Hhi]. apply (drop_below_In k20000 (keys d) key S) in Hk. destruct Hk as [Hin Hlo].
    apply negb_false_iff in Hhi.
    (* the key starts with the byte of the kind index *)
    assert (Hhead : exists rest, key = 2%N :: rest).
    { destruct key as [|p rest]; [discriminate|]. exists rest. f_equal.
      unfold lex_ltb, k20000, k30000 in *. simpl in Hlo, Hhi.
      destruct (N.compare p 2) eqn:Ep; [apply N.compare_eq in Ep; exact Ep|discriminate|discriminate]. }
    destruct Hhead as [rest ->].
    destruct (coh_entry_owner d _ 2%N rest C Hin eq_refl) as [pk [e [es [G [Se I]]]]]; [unfold sec_prefix; auto|].
    destruct (sec_key_of_index e es _ 2%N rest Se I eq_refl) as [i [idb [ct [km [Hi [Hp [Hid [Hct [Hc Ke]]]]]]]]].
    assert (i = IxKinds) as ->.
    { simpl in Hi. destruct Hi as [<-|[<-|[<-|[<-|[<-|[]]]]]]; simpl in Hp; try discriminate. reflexivity. }
    destruct (stored_fields d pk e C G) as [idb' [pkb [kb [ct' [es' [Hid' [Lid [-> [_ [_ [_ [Ekb [Ect' _]]]]]]]]]]]]].
    rewrite Hid in Hid'. injection Hid' as <-.
    simpl in Hc. destruct Hc as [Hc|[]]. unfold to_key in Hc. rewrite Ekb in Hc. injection Hc as <-.
    exists e. split.
    + rewrite Ke. rewrite (tail32_entry' _ ct idb Lid). apply rec_at_some. exact G.
    + unfold entry_key in Ke. simpl in Ke. injection Ke as ->.
      assert (Lkb : length kb = 4%nat) by (eapply be4_len; eauto).
      assert (B2 : be4 20000 = Some [0; 0; 78; 32]%N) by reflexivity.
      assert (B3 : be4 30000 = Some [0; 0; 117; 48]%N) by reflexivity.
      unfold lex_ltb, k20000, k30000 in Hlo, Hhi.
      rewrite (kind_entry_cmp kb _ 20000 _ Lkb B2) in Hlo by discriminate.
      rewrite (kind_entry_cmp kb _ 30000 _ Lkb B3) in Hhi by discriminate.
      rewrite (be4_compare _ _ _ _ Ekb B2) in Hlo. rewrite (be4_compare _ _ _ _ Ekb B3) in Hhi.
      unfold is_ephemeral_kind. destruct (Z.compare (w_kind e) 20000) eqn:E2; destruct (Z.compare (w_kind e) 30000) eqn:E3;
        try discriminate; try (apply Z.compare_eq in E2); try (apply Z.compare_eq in E3);
        try (rewrite Z.compare_lt_iff in E2); try (rewrite Z.compare_lt_iff in E3);
        try (rewrite Z.compare_gt_iff in E2); try (rewrite Z.compare_gt_iff in E3); lia.
  - intros [e [R K]]. apply rec_at_some in R.
    destruct (stored_fields d _ e C R) as [idb [pkb [kb [ct [es [Hid [Lid [Hpk [_ [_ [_ [Ekb [Ect [Ees _]]]]]]]]]]]]]].
    unfold primary_key_of in Hpk. injection Hpk as <-.
    set (key := entry_key (2%N :: kb) ct b).
    assert (Ikey : In key es).
    { apply (idx_entries_sub IxKinds e es [key]); [simpl; auto 10|exact Ees| |left; reflexivity].
      unfold idx_entries. rewrite Hid, Ect. unfold conv, to_key. rewrite Ekb. reflexivity. }
    exists key. split; [apply tail32_entry', Lid|].
    apply take_until_In; [apply drop_below_sorted, S| |].
    { intros a b0 _ _ Lab Sa. apply negb_true_iff in Sa. apply negb_true_iff. apply lex_ltb_ge in Sa. apply lex_ltb_ge.
      intros G. apply Sa. apply lex_lt_gt. apply lex_lt_gt in G. eapply lex_lt_trans; eauto. }
    assert (Lkb : length kb = 4%nat) by (eapply be4_len; eauto).
    assert (B2 : be4 20000 = Some [0; 0; 78; 32]%N) by reflexivity.
    assert (B3 : be4 30000 = Some [0; 0; 117; 48]%N) by reflexivity.
    unfold is_ephemeral_kind in K.
    split.
    + apply drop_below_In; [exact S|]. split; [eapply get_In_keys, (coh_full d C e _ es R Ees key Ikey)|].
      unfold lex_ltb, k20000, key, entry_key. simpl app.
      rewrite (kind_entry_cmp kb _ 20000 _ Lkb B2) by discriminate. rewrite (be4_compare _ _ _ _ Ekb B2).
      destruct (Z.compare (w_kind e) 20000) eqn:E2; try reflexivity. rewrite Z.compare_lt_iff in E2. lia.
    + apply negb_false_iff. unfold lex_ltb, k30000, key, entry_key. simpl app.
      rewrite (kind_entry_cmp kb _ 30000 _ Lkb B3) by discriminate. rewrite (be4_compare _ _ _ _ Ekb B3).
      destruct (Z.compare (w_kind e) 30000) eqn:E3; try reflexivity; [apply Z.compare_eq in E3|rewrite Z.compare_gt_iff in E3]; lia.
Qed.

(* ---------------- expiration entries ---------------- *)
Definition uexp : list N := [101; 120; 112; 105; 114; 97; 116; 105; 111; 110]%N.    (* b"expiration" *)
Lemma expiration_prefix_val : expiration_prefix = 9%N :: uexp ++ [0%N].
Proof. reflexivity. Qed.
Lemma utf8_expiration : utf8 s_expiration = Some uexp.
Proof. reflexivity. Qed.

Lemma no_zero_prefix (b : list N) : Forall (fun x => x <> 0%N) b -> forall a X Y, a ++ 0%N :: X = b ++ 0%N :: Y -> (length b <= length a)%nat.
Proof.
  induction 1 as [|y b Hy Hb IH]; intros a X Y E; [simpl; lia|].
  destruct a as [|x a]; simpl in E.
  - injection E as E _. congruence.
  - injection E as _ E. simpl. specialize (IH a X Y E). lia.
Qed.
Lemma uexp_nonzero : Forall (fun x => x <> 0%N) uexp.
Proof. unfold uexp. repeat constructor; discriminate. Qed.
Lemma utf8_cp_len (c : N) (cb : list N) : utf8_cp c = Some cb -> (length cb <= 4)%nat.
Proof.
  unfold utf8_cp. destruct (c <? 128)%N; [intros H; apply some_inj in H; subst; simpl; lia|].
  destruct (c <? 2048)%N; [intros H; apply some_inj in H; subst; simpl; lia|].
  destruct (_ && _); [discriminate|].
  destruct (c <? 65536)%N; [intros H; apply some_inj in H; subst; simpl; lia|].
  destruct (c <? 1114112)%N; [intros H; apply some_inj in H; subst; simpl; lia|discriminate].
Qed.

Lemma all_keys_all l ks kr : all_keys l = Some ks -> In kr l -> exists k, kr = KKey k /\ In k ks.
Proof.
  revert ks. induction l as [|x l IH]; intros ks H Hin; [destruct Hin|]. simpl in H.
  destruct x as [k0| |]; try discriminate. destruct (all_keys l) as [ks'|]; [|discriminate]. apply some_inj in H. subst ks.
  destruct Hin as [<-|Hin]; [exists k0; split; [reflexivity|left; reflexivity]|].
  destruct (IH ks' eq_refl Hin) as [k [E I]]. exists k. split; [exact E|right; exact I].
Qed.

(* the expiration entry of a tag [expiration, v, ...] and the value read back from it *)
Lemma expiration_entry_value (uv ct idb : list N) : length ct = 4%nat -> length idb = 32%nat ->
  expiration_value_of (entry_key (9%N :: uexp ++ [0%N] ++ uv) ct idb) = uv /\
  is_prefix expiration_prefix (entry_key (9%N :: uexp ++ [0%N] ++ uv) ct idb) = true.
Proof.
  intros Lc Li. split.
  - unfold expiration_value_of. rewrite expiration_prefix_val. unfold entry_key, uexp. simpl.
    unfold bytes, byte in *.
    assert (E : (length (uv ++ 0%N :: ct ++ 0%N :: idb) - 38 = length uv)%nat).
    { rewrite app_length. simpl. rewrite app_length. simpl. lia. }
    rewrite E. rewrite firstn_app, Nat.sub_diag, firstn_all. simpl. apply app_nil_r.
  - rewrite expiration_prefix_val. rewrite is_prefix_has_prefix. apply has_prefix_spec. exists (uv ++ [0%N] ++ ct ++ [0%N] ++ idb). reflexivity.
Qed.

Theorem gc_expired_spec d now b : Coh d ->
  (In b (gc_expired now (keys d)) <-> exists e, rec_at d b = Some e /\ expired_at now e = true).
Proof.
  intros C. pose proof (coh_sorted d C) as S. unfold gc_expired. rewrite in_map_iff. split.
  - intros [key [<- Hk]]. apply filter_In in Hk. destruct Hk as [Hk Hv].
    apply (prefixed_block_In expiration_prefix (keys d) key S) in Hk. destruct Hk as [Hin Hpre].
    rewrite is_prefix_has_prefix in Hpre. apply has_prefix_spec in Hpre. destruct Hpre as [suf Dk].
    rewrite expiration_prefix_val in Dk.
    destruct (coh_entry_owner d key 9%N ((uexp ++ [0%N]) ++ suf) C Hin Dk) as [pk [e [es [G [Se I]]]]]; [unfold sec_prefix; auto 10|].
    destruct (sec_key_of_index e es key 9%N _ Se I Dk) as [i [idb [ct [km [Hi [Hp [Hid [Hct [Hc Ke]]]]]]]]].
    assert (i = IxTags) as ->.
    { simpl in Hi. destruct Hi as [<-|[<-|[<-|[<-|[<-|[]]]]]]; simpl in Hp; try discriminate. reflexivity. }
    destruct (stored_fields d pk e C G) as [idb' [pkb0 [kb0 [ct' [es0 [Hid' [Lid [-> [_ [_ [_ [_ [Ect' _]]]]]]]]]]]]].
    rewrite Hid in Hid'. apply some_inj in Hid'. subst idb'. rewrite Hct in Ect'. apply some_inj in Ect'. subst ct'.
    unfold conv in Hc. apply in_map_iff in Hc. destruct Hc as [t [Ht Hin_t]]. apply filter_In in Hin_t. destruct Hin_t as [Hin_t Hix].
    destruct t as [|n [|v r]]; try discriminate. unfold tag_key, to_key in Ht.
    destruct (utf8 n) as [un|] eqn:En; [|discriminate]. destruct (utf8 v) as [uv|] eqn:Ev; [|discriminate].
    apply (f_equal (fun kr => match kr with KKey k => k | _ => [] end)) in Ht. cbv beta iota in Ht. subst km.
    (* the tag name is "expiration" *)
    rewrite Dk in Ke. unfold entry_key in Ke. cbn [idx_prefix app] in Ke. apply (f_equal (@tl N)) in Ke. cbn [tl] in Ke.
    rewrite <- !app_assoc in Ke. cbn [app] in Ke.
    assert (Hn : un = uexp /\ n = s_expiration).
    { pose proof (no_zero_prefix uexp uexp_nonzero un _ _ (eq_sym Ke)) as Len.
      unfold tag_indexable in Hix. apply orb_true_iff in Hix. destruct Hix as [Hix|Hix]; [apply orb_true_iff in Hix; destruct Hix as [Hix|Hix]|].
      - exfalso. apply Nat.eqb_eq in Hix. destruct n as [|c [|c2 n']]; try discriminate. cbn [utf8] in En.
        destruct (utf8_cp c) as [cb|] eqn:Ec; [|discriminate]. apply some_inj in En. subst un.
        rewrite app_nil_r in Len. pose proof (utf8_cp_len c cb Ec). unfold uexp in Len. simpl in Len. lia.
      - apply str_eqb_eq in Hix. subst n. rewrite utf8_expiration in En. apply some_inj in En. auto.
      - exfalso. apply str_eqb_eq in Hix. subst n. vm_compute in En. apply some_inj in En. subst un. discriminate Ke. }
    destruct Hn as [-> ->]. apply app_inv_head in Ke. apply (f_equal (@tl N)) in Ke. cbn [tl] in Ke.
    assert (Lct : length ct = 4%nat) by (eapply be4_len; eauto).
    assert (Kfull : key = entry_key (9%N :: uexp ++ [0%N] ++ uv) ct idb).
    { rewrite Dk. unfold entry_key. cbn [app]. f_equal. rewrite <- !app_assoc. cbn [app]. f_equal. f_equal. exact Ke. }
    destruct (expiration_entry_value uv ct idb Lct Lid) as [Val _]. rewrite <- Kfull in Val. rewrite Val in Hv.
    exists e. split.
    + rewrite Kfull. rewrite (tail32_entry' _ ct idb Lid). apply rec_at_some. exact G.
    + unfold expired_at. apply existsb_exists. exists (s_expiration :: v :: r). split; [exact Hin_t|].
      rewrite str_eqb_refl. cbn [andb]. unfold timestamp_of in Hv. rewrite (N_of_dec_utf8 v uv Ev) in Hv.
      destruct (N_of_dec v); [exact Hv|discriminate].
  - intros [e [R X]]. apply rec_at_some in R.
    destruct (stored_fields d _ e C R) as [idb [pkb0 [kb0 [ct [es [Hid [Lid [Hpk [_ [_ [_ [_ [Ect [Ees _]]]]]]]]]]]]]].
    apply primary_key_of_inj in Hpk. subst idb.
    unfold expired_at in X. apply existsb_exists in X. destruct X as [t [Hin_t Ht]].
    destruct t as [|n [|v r]]; try discriminate. apply andb_true_iff in Ht. destruct Ht as [Hn Hx].
    apply str_eqb_eq in Hn. subst n.
    destruct (sec_keys_idx IxTags e es Ees ltac:(simpl; auto 10)) as [es_t Et].
    pose proof Et as Et'. unfold idx_entries in Et'. rewrite Hid, Ect in Et'.
    destruct (all_keys (conv IxTags e)) as [ks|] eqn:Ak; [|discriminate]. apply some_inj in Et'.
    assert (Hconv : In (tag_key (s_expiration :: v :: r)) (conv IxTags e)).
    { unfold conv. apply in_map. apply filter_In. split; [exact Hin_t|]. unfold tag_indexable. rewrite str_eqb_refl.
      rewrite orb_true_r. reflexivity. }
    destruct (all_keys_all _ ks _ Ak Hconv) as [km [Ekm Ikm]].
    unfold tag_key, to_key in Ekm. rewrite utf8_expiration in Ekm. destruct (utf8 v) as [uv|] eqn:Ev; [|discriminate].
    apply (f_equal (fun kr => match kr with KKey k => k | _ => [] end)) in Ekm. cbv beta iota in Ekm. subst km.
    assert (Lct : length ct = 4%nat) by (eapply be4_len; eauto).
    set (key := entry_key (9%N :: uexp ++ [0%N] ++ uv) ct b).
    assert (Ikey : In key es).
    { apply (idx_entries_sub IxTags e es es_t key); [simpl; auto 10|exact Ees|exact Et|]. rewrite <- Et'. apply in_map_iff.
      exists (idx_prefix IxTags :: uexp ++ [0%N] ++ uv). split; [reflexivity|exact Ikm]. }
    destruct (expiration_entry_value uv ct b Lct Lid) as [Val Pre]. fold key in Val, Pre.
    exists key. split; [apply tail32_entry', Lid|]. apply filter_In. split.
    + apply prefixed_block_In; [exact S|]. split; [eapply get_In_keys, (coh_full d C e _ es R Ees key Ikey)|exact Pre].
    + rewrite Val. unfold timestamp_of. rewrite (N_of_dec_utf8 v uv Ev). destruct (N_of_dec v); [exact Hx|discriminate].
Qed.

Theorem gc_collect_spec d now b : Coh d ->
  (In b (gc_collect now (keys d)) <-> exists e, rec_at d b = Some e /\ collectable now e = true).
Proof.
  intros C. unfold gc_collect, collectable. rewrite in_app_iff, (gc_ephemeral_spec d b C), (gc_expired_spec d now b C). split.
  - intros [[e [R K]]|[e [R K]]]; exists e; rewrite K; split; auto. apply orb_true_r.
  - intros [e [R K]]. apply orb_true_iff in K. destruct K; [left|right]; eauto.
Qed.
