(* KVW wire entry points: histories of storage-level operations on the LMDB write model,
   and the executable statements (oracles) evaluated on the implementation's observations. *)
From NR Require Import Lib.Base Lib.Nip01 Lib.Wire KVM.Engine KVM.Keys KVM.Scan
     KVW.Types KVW.Entries KVW.Write KVW.PostSave KVW.Gc KVW.Queue KVW.Oracles.
Open Scope string_scope. Open Scope list_scope. Open Scope Z_scope.

Definition idx_of_name (s : pystr) : idx :=
  if str_eqb s (pys "ids") then IxIds else if str_eqb s (pys "created_at") then IxCreated
  else if str_eqb s (pys "kinds") then IxKinds else if str_eqb s (pys "authors") then IxAuthors
  else if str_eqb s (pys "authorkinds") then IxAuthorKinds else IxTags.
Definition opt_nat (v : jv) : option nat := match v with JInt z => Some (Z.to_nat z) | _ => None end.
Definition opt_wevent (v : jv) : option wevent := match v with JObj _ => Some (wevent_of_jv v) | _ => None end.

Definition jv_of_rec (r : rec) : jv := match r with RIndex => JNull | REvent e => jv_of_wevent e end.
Definition jv_of_db (d : kvdb) : jv := JArr (map (fun kv => JArr [JBytes (fst kv); jv_of_rec (snd kv)]) d).
Definition jv_of_mut (m : mut) : jv :=
  match m with
  | MPut k v => JArr [jstr "put"; JBytes k; jv_of_rec v]
  | MDel k => JArr [jstr "delete"; JBytes k]
  end.
Definition jv_of_end (e : txn_end) : jv :=
  jstr (match e with Committed => "commit" | Aborted => "abort" | Killed => "killed" end).
Definition jv_of_txn (r : kvdb * txn_end * list mut) : jv :=
  JArr [jv_of_end (snd (fst r)); JArr (map jv_of_mut (snd r))].

(* fold queued operations; the fault / kill counters run on across the transactions of one harness step
   exactly as the shim's do (armed once per step) *)
Fixpoint run_ops (fault kill : option nat) (now : Z) (d : kvdb) (ops : list wop) : kvdb * list jv :=
  match ops with
  | [] => (d, [])
  | op :: r =>
      let res := run_op fault kill now d op in
      let n := length (snd res) in
      let dec o := match o with Some k => Some (k - n)%nat | None => None end in
      (* a fault/kill index beyond this transaction's mutations moves on to the next one *)
      let hit := match snd (fst res) with Committed => false | _ => true end in
      let '(d', js) := run_ops (if hit then None else dec fault) (if hit then None else dec kill) now (fst (fst res)) r in
      (d', jv_of_txn res :: js)
  end.

Definition db_of_jv (v : jv) : kvdb :=
  map (fun kv => (as_str (nth 0 (as_arr kv) JNull),
                  match nth 1 (as_arr kv) JNull with JObj o => REvent (wevent_of_jv (JObj o)) | _ => RIndex end)) (as_arr v).

(* one harness step on the shared state (committed keyspace, queue, in-flight ids).  "hold": true = the
   writer thread is held at its transaction lock: the step only queues; any other step lets the writer
   drain the whole queue afterwards *)
Definition step (st : sstate) (o : jv) : sstate * jv :=
  let now := as_int (jfield "now" o) in
  let fault := opt_nat (jfield "fault" o) in
  let kill := opt_nat (jfield "kill" o) in
  let hold := as_bool (jfield "hold" o) in
  let name := as_str (jfield "op" o) in
  let d := s_db st in
  let finish (out : jv) (bc : bool) (st1 : sstate) :=
      if hold then (st1, jobj [("out", out); ("bcast", JBool bc); ("txns", JArr []); ("db", jv_of_db (s_db st1))])
      else let '(d', txns) := run_ops fault kill now (s_db st1) (s_queue st1) in
           (mkS d' [] [], jobj [("out", out); ("bcast", JBool bc); ("txns", JArr txns); ("db", jv_of_db d')]) in
  let queue (ops : list wop) := mkS d (s_queue st ++ ops) (s_inflight st) in
  if str_eqb name (pys "submit") then
    let valid := as_bool (jfield "valid" o) in
    let '(a, bc, st1) := submit (fun _ => valid) now st (wevent_of_jv (jfield "event" o)) in
    finish (jstr (match a with AckRaise => "raise" | AckTrue => "true" | AckDuplicate => "duplicate" end)) bc st1
  else if str_eqb name (pys "wadd") then      (* an "add" task put on the writer queue directly *)
    finish (jstr "queued") false (queue [OAdd (ctor now (wevent_of_jv (jfield "event" o)))])
  else if str_eqb name (pys "del") then finish (jstr "queued") false (queue [ODel (as_str (jfield "id" o))])
  else if str_eqb name (pys "gc") then
    let ops := gc_ops now d in finish (JInt (Z.of_nat (length ops))) false (queue ops)
  else if str_eqb name (pys "reindex") then
    finish (jstr "queued") false (queue [OReindex (idx_of_name (as_str (jfield "index" o))) (ctor now (wevent_of_jv (jfield "event" o)))])
  else if str_eqb name (pys "bulk") then
    finish (jstr "queued") false (queue [OBulk (idx_of_name (as_str (jfield "index" o))) (map (option_map (ctor now)) (map opt_wevent (as_arr (jfield "events" o))))])
  else if str_eqb name (pys "get") then
    finish (match get_event now d (as_str (jfield "id" o)) with
            | GRaise => jstr "raise" | GNone => JNull | GEvent w => jv_of_wevent w end) false (queue [])
  else finish JNull false (queue []).

Fixpoint steps (st : sstate) (l : list jv) : list jv :=
  match l with [] => [] | o :: r => let '(st', j) := step st o in j :: steps st' r end.

Definition init_db : kvdb := [(tombstone, RIndex)].
(* case: {ops: [...]} -> one observation per op *)
Definition run_hist (v : jv) : jv := JArr (steps (mkS init_db [] []) (as_arr (jfield "ops" v))).

(* ---- executable statements on the implementation's observations ----
   case: {ops: [...], obs: [{out, bcast, txns, db} per op]} -> per op the list of reports
   [coherence; acknowledgement / effect reports ...]; "ok" or the class of the failure *)
Definition is_null (v : jv) : bool := match v with JNull => true | _ => false end.
Definition all_committed (b : jv) : bool :=
  forallb (fun t => str_eqb (as_str (nth 0 (as_arr t) JNull)) (pys "commit")) (as_arr (jfield "txns" b)).
Fixpoint check_steps (prev : kvdb) (ops obs : list jv) : list jv :=
  match ops, obs with
  | o :: ro, b :: rb =>
      let after := db_of_jv (jfield "db" b) in
      let now := as_int (jfield "now" o) in
      let name := as_str (jfield "op" o) in
      let armed := negb (is_null (jfield "fault" o)) || negb (is_null (jfield "kill" o)) in
      let interrupted := negb (all_committed b) in
      let lab (k : string) (r : pystr) := JArr [jstr k; JStr r] in
      let effect (e : wevent) :=
          if is_replaceable_kind (w_kind e) || is_param_replaceable_kind (w_kind e) then lab "replace" (replace_report prev after e)
          else if w_kind e =? 5 then lab "delete" (delete_report prev after e)
          else lab "plain" (plain_report prev after e) in
      let held := as_bool (jfield "hold" o) in
      let reports :=
        if held then [lab "held" (unchanged_report prev after)]
        else if str_eqb name (pys "submit") then
          let raw := wevent_of_jv (jfield "event" o) in
          let e := ctor now raw in
          let out := as_str (jfield "out" b) in
          [lab "ack" (ack_report now out (as_bool (jfield "bcast" b)) (as_bool (jfield "valid" o)) armed prev after raw);
           if armed && interrupted then lab "fault" (unchanged_report prev after)
           else if str_eqb out (pys "true") && negb (is_ephemeral_kind (w_kind e)) then effect e
           else lab "none" (pys "ok")]
        else if armed && interrupted then [lab "fault" (unchanged_report prev after)]
        else if str_eqb name (pys "wadd") then
          let e := ctor now (wevent_of_jv (jfield "event" o)) in
          [if interrupted then lab "fault" (unchanged_report prev after) else effect e]
        else if str_eqb name (pys "gc") then [lab "gc" (gc_report now prev after)]
        else if str_eqb name (pys "del") then [lab "del" (del_report prev after (as_str (jfield "id" o)))]
        else if str_eqb name (pys "release") then []          (* the writer drains what was queued while it was held *)
        else [lab "unchanged" (unchanged_report prev after)] in
      JArr (lab "coherence" (coherent_report after) :: reports) :: check_steps after ro rb
  | _, _ => []
  end.
Definition run_check (v : jv) : jv :=
  JArr (check_steps init_db (as_arr (jfield "ops" v)) (as_arr (jfield "obs" v))).

Definition suites : list (string * (jv -> jv)) :=
  [("kvw.hist", run_hist); ("kvw.check", run_check)].
Definition dispatch := dispatch_in suites.
