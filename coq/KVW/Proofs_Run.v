(* Histories of writer transactions: coherence of every reachable keyspace (C10), the bridge to
   KVM.Coherent.Coherent, the access-path corollary. *)
From NR Require Import Lib.Base Lib.BaseFacts Lib.Nip01 KVM.Engine KVM.Keys KVM.Scan
     KVW.Types KVW.Entries KVW.Write KVW.PostSave KVW.Gc KVW.Proofs_Engine KVW.Proofs_Tx KVW.Proofs_Keys
     KVW.Proofs_Coherent.
Open Scope list_scope. Open Scope Z_scope.

(* one writer transaction of a history: the queued operation, the clock seen while it runs, and what
   the environment does to it (engine failure at a mutation, process kill at a mutation) *)
Record wstep := mkStep { s_fault : option nat; s_kill : option nat; s_now : Z; s_op : wop }.
Definition run_step (d : kvdb) (s : wstep) : kvdb := db_after (s_fault s) (s_kill s) (s_now s) d (s_op s).
Fixpoint run_steps (d : kvdb) (l : list wstep) : kvdb :=
  match l with [] => d | s :: r => run_steps (run_step d s) r end.
(* side conditions on the arguments of the operations, checked where each operation runs *)
Fixpoint steps_ok (d : kvdb) (l : list wstep) : Prop :=
  match l with [] => True | s :: r => op_ok d (s_op s) /\ steps_ok (run_step d s) r end.

Definition init_db : kvdb := [(tombstone, RIndex)].     (* LMDBStorage.write_tombstone at setup *)

Lemma coh_init : Coh init_db.
Proof.
  constructor.
  - unfold Sorted, init_db. simpl. repeat constructor.
  - reflexivity.
  - intros k e H. unfold init_db in H. simpl in H. destruct (lex_cmp k tombstone); discriminate.
  - intros k H. left. unfold init_db in H. simpl in H. destruct (lex_cmp k tombstone) eqn:E; try discriminate.
    apply lex_cmp_eq in E. exact E.
  - intros e pk es H. unfold init_db in H. simpl in H. destruct (lex_cmp pk tombstone); discriminate.
Qed.

Theorem run_op_coh fault kill now d op : Coh d -> op_ok d op -> Coh (db_after fault kill now d op).
Proof.
  intros C O. unfold db_after, run_op.
  destruct (op_body fault now op {| t_db := d; t_log := [] |}) as [[] t'|l] eqn:E; [|exact C].
  destruct (killed kill (t_log t')); [exact C|]. simpl.
  eapply (op_body_coh fault now op {| t_db := d; t_log := [] |}); eauto.
Qed.

Theorem run_steps_coh l : forall d, Coh d -> steps_ok d l -> Coh (run_steps d l).
Proof.
  induction l as [|s l IH]; intros d C O; [exact C|]. destruct O as [O1 O2].
  simpl. apply IH; [|exact O2]. apply run_op_coh; assumption.
Qed.
Corollary history_coherent l : steps_ok init_db l -> Coh (run_steps init_db l).
Proof. apply run_steps_coh, coh_init. Qed.

(* a garbage-collection pass is a list of "del" operations: no side condition *)
Lemma del_steps_ok (mk : wop -> wstep) : (forall o, s_op (mk o) = o) -> forall ops, (forall o, In o ops -> exists h, o = ODel h) ->
  forall d, steps_ok d (map mk ops).
Proof.
  intros Hmk ops. induction ops as [|o ops IH]; intros H d0; [exact I|]. simpl. split.
  - rewrite Hmk. destruct (H o (or_introl eq_refl)) as [h ->]. exact I.
  - apply IH. intros o' Ho'. apply H. right. exact Ho'.
Qed.
Lemma gc_ops_are_dels now d o : In o (gc_ops now d) -> exists h, o = ODel h.
Proof. unfold gc_ops. intros H. apply in_map_iff in H. destruct H as [b [<- _]]. eauto. Qed.

(* what LMDBStorage.add_event queues satisfies the side condition of "add" *)
Lemma add_event_op_ok valid now d pending raw a b op :
  (forall w, valid w = true -> hex64 (w_id w) = true /\ hex64 (w_pubkey w) = true) -> now <> 0 ->
  add_event valid now d pending raw = (a, b, Some op) -> op_ok d op.
Proof.
  intros V N. unfold add_event.
  destruct (valid (ctor now raw)) eqn:Ev; simpl; [|discriminate].
  destruct (is_ephemeral_kind _); [discriminate|]. destruct (storable _); simpl; [|discriminate].
  destruct (id_bytes _); [|discriminate]. destruct (mem_str _ pending); [discriminate|]. destruct (get _ d) as [[|r]|]; intros H; try discriminate; injection H as _ _ <-;
    (destruct (V _ Ev) as [V1 V2]; split; [exact V1|split; [exact V2|]];
     unfold ctor; destruct (w_created raw =? 0) eqn:E; simpl; lia).
Qed.

(* ---- the In-based statement assumed by the query-path theorems ---- *)
Theorem coh_implies_Coherent d : Coh d -> Coherent d.
Proof.
  intros C. pose proof (coh_sorted d C) as S. split; [exact S|]. split; [eapply get_In_keys, (coh_tomb d C)|]. split.
  - intros k v H. apply (In_get k v d S) in H. destruct v as [|e].
    + destruct (coh_sec d C k H) as [T|[e [pk [es [A [B I]]]]]]; [left; exact T|]. right. right. split; [reflexivity|].
      exists e, pk, es. destruct (coh_prim d C pk e A) as [P _].
      split; [exact P|]. split; [apply get_In, A|]. rewrite <- sec_keys_index_entries. auto.
    + right. left. exists e. destruct (coh_prim d C k e H) as [P [W _]]. auto.
  - intros e pk es P H E k I. apply (In_get pk _ d S) in H. rewrite <- sec_keys_index_entries in E.
    eapply get_In_keys, (coh_full d C e pk es H E k I).
Qed.

(* ---- access paths: an index entry is present exactly when the record it names is stored and has it ---- *)
Corollary found_via d k : Coh d -> k <> tombstone ->
  (get k d = Some RIndex <->
   exists e es, get (primary_key_of (tail32 k)) d = Some (REvent e) /\ sec_keys e = Some es /\ In k es).
Proof.
  intros C N. split.
  - intros H. destruct (coh_sec d C k H) as [T|[e [pk [es [A [B I]]]]]]; [contradiction|].
    exists e, es. destruct (coh_stored_pk d pk e C A) as [idb [Hid [L ->]]].
    rewrite (sec_key_tail32 e es k idb B I Hid L). auto.
  - intros [e [es [A [B I]]]]. eapply (coh_full d C); eauto.
Qed.
(* ... and a stored record is found under every one of its attributes *)
Corollary record_indexed d pk e : Coh d -> get pk d = Some (REvent e) ->
  exists es, sec_keys e = Some es /\ forall k, In k es -> get k d = Some RIndex.
Proof.
  intros C H. destruct (coh_stored_sec d pk e C H) as [es E]. exists es. split; [exact E|]. eapply (coh_full d C); eauto.
Qed.
