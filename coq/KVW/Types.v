(* Value / database types of the LMDB write model are shared with the query side:
   KVM/Coherent.v (owner: kvquery) defines `rec`, `kvdb`, `id_bytes`, `primary_key_of`,
   `tag_indexable`, `index_entries`, `stored_wf` and the In-based `Coherent`; KVM/Order.v the
   order facts on lex_cmp.  This file only re-exports them. *)
From NR Require Export KVM.Order KVM.Coherent.
