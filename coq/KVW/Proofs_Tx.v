(* What a successful run of the write-path computations does to the working copy, read through
   `get`: Index.write / Index.clear loops, write_event, delete_event.  All statements hold for
   every fault setting (a run that returns Ok was not hit by the fault). *)
From NR Require Import Lib.Base Lib.BaseFacts Lib.Nip01 KVM.Engine KVM.Keys KVM.Scan
     KVW.Types KVW.Entries KVW.Write KVW.Proofs_Engine.
Open Scope list_scope.

Definition bytes_dec : forall a b : bytes, {a = b} + {a <> b} := list_eq_dec N.eq_dec.
Definition In_bytes_dec (k : bytes) (l : list bytes) : {In k l} + {~ In k l} := in_dec bytes_dec k l.

Lemma bytes_eqb_true a b : bytes_eqb a b = true <-> a = b.
Proof. apply bytes_eqb_eq. Qed.
Lemma bytes_eqb_false a b : bytes_eqb a b = false <-> a <> b.
Proof.
  split; intros H.
  - intros E. apply bytes_eqb_true in E. congruence.
  - destruct (bytes_eqb a b) eqn:E; [apply bytes_eqb_true in E; contradiction | reflexivity].
Qed.

(* effect of a batch of puts / deletes *)
Definition Puts (d d' : kvdb) (ks : list bytes) (v : rec) : Prop :=
  Sorted d' /\ (forall k, In k ks -> get k d' = Some v) /\ (forall k, ~ In k ks -> get k d' = get k d).
Definition Dels (d d' : kvdb) (ks : list bytes) : Prop :=
  Sorted d' /\ (forall k, In k ks -> get k d' = None) /\ (forall k, ~ In k ks -> get k d' = get k d).

Lemma Puts_nil d v : Sorted d -> Puts d d [] v.
Proof. intros S. split; [exact S|]. split; [intros k []|reflexivity]. Qed.
Lemma Dels_nil d : Sorted d -> Dels d d [].
Proof. intros S. split; [exact S|]. split; [intros k []|reflexivity]. Qed.

Lemma Puts_app d d1 d2 ks1 ks2 v : Puts d d1 ks1 v -> Puts d1 d2 ks2 v -> Puts d d2 (ks1 ++ ks2) v.
Proof.
  intros [S1 [A1 B1]] [S2 [A2 B2]]. split; [exact S2|]. split.
  - intros k H. destruct (In_bytes_dec k ks2) as [I|I]; [apply A2, I|].
    rewrite B2 by exact I. apply in_app_or in H. destruct H; [apply A1; assumption | contradiction].
  - intros k H. rewrite B2, B1; [reflexivity| |]; intros I; apply H, in_or_app; auto.
Qed.
Lemma Dels_app d d1 d2 ks1 ks2 : Dels d d1 ks1 -> Dels d1 d2 ks2 -> Dels d d2 (ks1 ++ ks2).
Proof.
  intros [S1 [A1 B1]] [S2 [A2 B2]]. split; [exact S2|]. split.
  - intros k H. destruct (In_bytes_dec k ks2) as [I|I]; [apply A2, I|].
    rewrite B2 by exact I. apply in_app_or in H. destruct H; [apply A1; assumption | contradiction].
  - intros k H. rewrite B2, B1; [reflexivity| |]; intros I; apply H, in_or_app; auto.
Qed.
Lemma Puts_one d k v : Sorted d -> Puts d (put_raw k v d) [k] v.
Proof.
  intros S. split; [apply put_sorted, S|]. split.
  - intros k' [<-|[]]. apply get_put_same.
  - intros k' H. apply get_put_other; [exact S|]. intros ->. apply H. left; reflexivity.
Qed.
Lemma Dels_one d k : Sorted d -> Dels d (delete_raw k d) [k].
Proof.
  intros S. split; [apply delete_sorted, S|]. split.
  - intros k' [<-|[]]. apply get_delete_same, S.
  - intros k' H. apply get_delete_other; [exact S|]. intros ->. apply H. left; reflexivity.
Qed.
Lemma Dels_perm d d' ks ks' : (forall k, In k ks <-> In k ks') -> Dels d d' ks -> Dels d d' ks'.
Proof.
  intros E [S [A B]]. split; [exact S|]. split.
  - intros k H. apply A, E, H.
  - intros k H. apply B. intros I. apply H, E, I.
Qed.

Section WithFault.
Variable fault : option nat.

Lemma m_put_ok k v t t' : m_put fault k v t = Ok tt t' ->
  key_ok k = true /\ t_db t' = put_raw k v (t_db t).
Proof.
  unfold m_put. destruct (key_ok k); [|discriminate]. destruct (fault_hits fault _); [discriminate|].
  intros H. injection H as <-. auto.
Qed.
Lemma m_del_ok k t t' : m_del fault k t = Ok tt t' ->
  key_ok k = true /\ t_db t' = delete_raw k (t_db t).
Proof.
  unfold m_del. destruct (key_ok k); [|discriminate]. destruct (fault_hits fault _); [discriminate|].
  intros H. injection H as <-. auto.
Qed.

Lemma bind_ok {A B} (m : M A) (f : A -> M B) t b t' :
  bind m f t = Ok b t' -> exists a t1, m t = Ok a t1 /\ f a t1 = Ok b t'.
Proof. unfold bind. destruct (m t) as [a t1|l]; [|discriminate]. eauto. Qed.
Lemma of_opt_ok {A} (o : option A) t a t' : of_opt o t = Ok a t' -> o = Some a /\ t' = t.
Proof. destruct o; simpl; unfold ret, fail; intros H; [injection H as -> ->; auto | discriminate]. Qed.
Lemma ret_ok {A} (a : A) t b t' : ret a t = Ok b t' -> b = a /\ t' = t.
Proof. unfold ret. intros H. injection H as -> ->. auto. Qed.

Lemma iter_puts_ok v ks t t' : Sorted (t_db t) ->
  m_iter (fun k => m_put fault k v) ks t = Ok tt t' ->
  Puts (t_db t) (t_db t') ks v /\ Forall (fun k => key_ok k = true) ks.
Proof.
  revert t. induction ks as [|k ks IH]; intros t S H; simpl in H.
  - apply ret_ok in H. destruct H as [_ ->]. split; [apply Puts_nil, S | constructor].
  - apply bind_ok in H. destruct H as [[] [t1 [H1 H2]]]. apply m_put_ok in H1. destruct H1 as [K E].
    assert (S1 : Sorted (t_db t1)) by (rewrite E; apply put_sorted, S).
    destruct (IH t1 S1 H2) as [P F]. split; [|constructor; assumption].
    change (k :: ks) with ([k] ++ ks). eapply Puts_app; [|exact P]. rewrite E. apply Puts_one, S.
Qed.
Lemma iter_dels_ok ks t t' : Sorted (t_db t) ->
  m_iter (fun k => m_del fault k) ks t = Ok tt t' ->
  Dels (t_db t) (t_db t') ks /\ Forall (fun k => key_ok k = true) ks.
Proof.
  revert t. induction ks as [|k ks IH]; intros t S H; simpl in H.
  - apply ret_ok in H. destruct H as [_ ->]. split; [apply Dels_nil, S | constructor].
  - apply bind_ok in H. destruct H as [[] [t1 [H1 H2]]]. apply m_del_ok in H1. destruct H1 as [K E].
    assert (S1 : Sorted (t_db t1)) by (rewrite E; apply delete_sorted, S).
    destruct (IH t1 S1 H2) as [P F]. split; [|constructor; assumption].
    change (k :: ks) with ([k] ++ ks). eapply Dels_app; [|exact P]. rewrite E. apply Dels_one, S.
Qed.

Lemma m_iter_app_ok {A} (f : A -> M unit) l1 l2 t t' :
  m_iter f (l1 ++ l2) t = Ok tt t' -> exists t1, m_iter f l1 t = Ok tt t1 /\ m_iter f l2 t1 = Ok tt t'.
Proof.
  revert t. induction l1 as [|a l1 IH]; intros t H; simpl in *.
  - exists t. split; [reflexivity|exact H].
  - apply bind_ok in H. destruct H as [[] [t1 [H1 H2]]]. destruct (IH t1 H2) as [t2 [A1 A2]].
    exists t2. split; [|exact A2]. unfold bind. rewrite H1. exact A1.
Qed.

(* the loop over convert(): success means every yielded item was a key *)
Lemma iter_conv_ok (op : bytes -> M unit) (E : bytes -> bytes) l t t' :
  m_iter (fun kr => match kr with KKey k => op (E k) | _ => fail end) l t = Ok tt t' ->
  exists ks, all_keys l = Some ks /\ m_iter op (map E ks) t = Ok tt t'.
Proof.
  revert t. induction l as [|kr l IH]; intros t H; simpl in H.
  - exists []. split; [reflexivity|exact H].
  - apply bind_ok in H. destruct H as [[] [t1 [H1 H2]]].
    destruct kr as [k| |]; try (unfold fail in H1; discriminate).
    destruct (IH t1 H2) as [ks [A B]]. exists (k :: ks). split.
    + simpl. rewrite A. reflexivity.
    + simpl. unfold bind. rewrite H1. exact B.
Qed.

Lemma write_timed_ok (op : bytes -> M unit) i w t t' :
  write_timed op i w t = Ok tt t' ->
  exists es, idx_entries i w = Some es /\ m_iter op es t = Ok tt t'.
Proof.
  unfold write_timed. intros H.
  apply bind_ok in H. destruct H as [idb [t1 [H1 H]]]. apply of_opt_ok in H1. destruct H1 as [E1 ->].
  apply bind_ok in H. destruct H as [ct [t2 [H2 H]]]. apply of_opt_ok in H2. destruct H2 as [E2 ->].
  apply iter_conv_ok in H. destruct H as [ks [A B]].
  exists (map (fun k => entry_key k ct idb) ks). split; [|exact B].
  unfold idx_entries. rewrite E1, E2, A. reflexivity.
Qed.

(* Index.write over the timed indexes in a list of indexes *)
Lemma iter_timed_puts_ok (ixs : list idx) w t t' : Sorted (t_db t) ->
  m_iter (fun i => write_timed (fun k => m_put fault k RIndex) i w) ixs t = Ok tt t' ->
  exists es, concat_opt (map (fun i => idx_entries i w) ixs) = Some es /\
             Puts (t_db t) (t_db t') es RIndex /\ Forall (fun k => key_ok k = true) es.
Proof.
  revert t. induction ixs as [|i ixs IH]; intros t S H; simpl in H.
  - apply ret_ok in H. destruct H as [_ ->]. exists []. split; [reflexivity|]. split; [apply Puts_nil, S|constructor].
  - apply bind_ok in H. destruct H as [[] [t1 [H1 H2]]].
    apply write_timed_ok in H1. destruct H1 as [es1 [E1 I1]].
    apply iter_puts_ok in I1; [|exact S]. destruct I1 as [P1 F1].
    assert (S1 : Sorted (t_db t1)) by apply P1.
    destruct (IH t1 S1 H2) as [es2 [E2 [P2 F2]]].
    exists (es1 ++ es2). split; [simpl; rewrite E1, E2; reflexivity|]. split.
    + eapply Puts_app; eauto.
    + apply Forall_app. auto.
Qed.
Lemma iter_timed_dels_ok (ixs : list idx) w t t' : Sorted (t_db t) ->
  m_iter (fun i => write_timed (fun k => m_del fault k) i w) ixs t = Ok tt t' ->
  exists es, concat_opt (map (fun i => idx_entries i w) ixs) = Some es /\
             Dels (t_db t) (t_db t') es /\ Forall (fun k => key_ok k = true) es.
Proof.
  revert t. induction ixs as [|i ixs IH]; intros t S H; simpl in H.
  - apply ret_ok in H. destruct H as [_ ->]. exists []. split; [reflexivity|]. split; [apply Dels_nil, S|constructor].
  - apply bind_ok in H. destruct H as [[] [t1 [H1 H2]]].
    apply write_timed_ok in H1. destruct H1 as [es1 [E1 I1]].
    apply iter_dels_ok in I1; [|exact S]. destruct I1 as [P1 F1].
    assert (S1 : Sorted (t_db t1)) by apply P1.
    destruct (IH t1 S1 H2) as [es2 [E2 [P2 F2]]].
    exists (es1 ++ es2). split; [simpl; rewrite E1, E2; reflexivity|]. split.
    + eapply Dels_app; eauto.
    + apply Forall_app. auto.
Qed.

Definition ids_key_of (w : wevent) : option bytes :=
  match to_key IxIds (MStr (w_id w)) with KKey k => Some k | _ => None end.
Lemma ids_key_ok w t k t' : ids_key w t = Ok k t' -> ids_key_of w = Some k /\ t' = t.
Proof.
  unfold ids_key, ids_key_of. destruct (to_key IxIds (MStr (w_id w))); unfold ret, fail; intros H; try discriminate.
  injection H as -> ->. auto.
Qed.

(* write_event: primary record, then every index entry *)
Lemma write_event_ok w t t' : Sorted (t_db t) ->
  write_event fault w t = Ok tt t' ->
  exists pk r es d1,
    ids_key_of w = Some pk /\ encode_event w = Some r /\ sec_keys w = Some es /\
    key_ok pk = true /\ Forall (fun k => key_ok k = true) es /\
    Puts (t_db t) d1 [pk] (REvent r) /\ Puts d1 (t_db t') es RIndex.
Proof.
  intros S H. unfold write_event, write_indexes in H. simpl m_iter in H.
  apply bind_ok in H. destruct H as [[] [t1 [H1 H2]]].
  unfold write_index in H1.
  apply bind_ok in H1. destruct H1 as [pk [ta [Ha H1]]]. apply ids_key_ok in Ha. destruct Ha as [Epk ->].
  apply bind_ok in H1. destruct H1 as [r [tb [Hb H1]]]. apply of_opt_ok in Hb. destruct Hb as [Er ->].
  apply m_put_ok in H1. destruct H1 as [Kpk Edb].
  assert (S1 : Sorted (t_db t1)) by (rewrite Edb; apply put_sorted, S).
  assert (H3 : m_iter (fun i => write_timed (fun k => m_put fault k RIndex) i w) sec_indexes t1 = Ok tt t').
  { exact H2. }
  apply iter_timed_puts_ok in H3; [|exact S1]. destruct H3 as [es [Ees [P F]]].
  exists pk, r, es, (t_db t1).
  split; [exact Epk|]. split; [exact Er|]. split; [exact Ees|]. split; [exact Kpk|]. split; [exact F|].
  split; [|exact P]. rewrite Edb. apply Puts_one, S.
Qed.

(* delete_event: index entries in reverse index order, then the primary record *)
Lemma delete_event_ok w t t' : Sorted (t_db t) ->
  delete_event fault w t = Ok tt t' ->
  exists pk es d1,
    ids_key_of w = Some pk /\ sec_keys w = Some es /\
    Dels (t_db t) d1 es /\ Dels d1 (t_db t') [pk].
Proof.
  intros S H. unfold delete_event, write_indexes, sec_indexes in H. simpl rev in H.
  (* [IxTags; IxAuthorKinds; IxAuthors; IxKinds; IxCreated; IxIds] *)
  change (m_iter (fun i => clear_index fault i w) [IxTags; IxAuthorKinds; IxAuthors; IxKinds; IxCreated; IxIds] t = Ok tt t') in H.
  assert (Hsplit : exists t1,
     m_iter (fun i => clear_index fault i w) [IxTags; IxAuthorKinds; IxAuthors; IxKinds; IxCreated] t = Ok tt t1 /\
     m_iter (fun i => clear_index fault i w) [IxIds] t1 = Ok tt t').
  { apply (m_iter_app_ok (fun i => clear_index fault i w) [IxTags; IxAuthorKinds; IxAuthors; IxKinds; IxCreated] [IxIds]). exact H. }
  destruct Hsplit as [t1 [H1 H2]].
  change (m_iter (fun i => write_timed (fun k => m_del fault k) i w) [IxTags; IxAuthorKinds; IxAuthors; IxKinds; IxCreated] t = Ok tt t1) in H1.
  simpl in H2. apply bind_ok in H2. destruct H2 as [[] [t2 [H2 H3]]]. apply ret_ok in H3. destruct H3 as [_ <-].
  apply iter_timed_dels_ok in H1; [|exact S]. destruct H1 as [es' [E' [D' F']]].
  apply bind_ok in H2. destruct H2 as [pk [ta [Ha H2]]]. apply ids_key_ok in Ha. destruct Ha as [Epk ->].
  apply m_del_ok in H2. destruct H2 as [Kpk Edb].
  (* es' lists the same keys as sec_keys w, index by index in reverse *)
  simpl in E'.
  destruct (idx_entries IxTags w) as [e5|] eqn:E5; [|discriminate].
  destruct (idx_entries IxAuthorKinds w) as [e4|] eqn:E4; [|discriminate].
  destruct (idx_entries IxAuthors w) as [e3|] eqn:E3; [|discriminate].
  destruct (idx_entries IxKinds w) as [e2|] eqn:E2; [|discriminate].
  destruct (idx_entries IxCreated w) as [e1|] eqn:E1; [|discriminate].
  simpl in E'. injection E' as <-.
  exists pk, (e1 ++ e2 ++ e3 ++ e4 ++ e5 ++ []), (t_db t1). split; [exact Epk|]. split.
  { unfold sec_keys, sec_indexes. simpl. rewrite E1, E2, E3, E4, E5. reflexivity. }
  split.
  - eapply Dels_perm; [|exact D']. intros k. rewrite !in_app_iff. simpl. tauto.
  - rewrite Edb. apply Dels_one. apply D'.
Qed.
End WithFault.
