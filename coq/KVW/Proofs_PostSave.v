(* C09 / C08 (LMDB): which stored records one "add" transaction removes.
   rec_at d x is the record stored under id bytes x.  The scanner enters through the premise
   ScanOk of KVW.Proofs_ScanUse. *)
From NR Require Import Lib.Base Lib.BaseFacts Lib.Nip01 KVM.Engine KVM.Keys KVM.Scan
     KVW.Types KVW.Entries KVW.Write KVW.PostSave KVW.Gc KVW.Proofs_Engine KVW.Proofs_Tx KVW.Proofs_Keys
     KVW.Proofs_Coherent KVW.Proofs_ScanUse.
From Coq Require Import ZifyBool.
Open Scope list_scope. Open Scope Z_scope.

Definition rec_at (d : kvdb) (x : bytes) : option wevent :=
  match get (primary_key_of x) d with Some (REvent e) => Some e | _ => None end.

Lemma rec_at_some d x e : rec_at d x = Some e <-> get (primary_key_of x) d = Some (REvent e).
Proof.
  unfold rec_at. destruct (get (primary_key_of x) d) as [[|r]|]; split; intros H; try discriminate; congruence.
Qed.
Lemma primary_key_of_inj a b : primary_key_of a = primary_key_of b -> a = b.
Proof. unfold primary_key_of. intros H. injection H as ->. reflexivity. Qed.

(* a stored record sits under the bytes of its own id *)
Lemma rec_at_id d x e : Coh d -> rec_at d x = Some e -> id_bytes e = Some x /\ length x = 32%nat /\ stored_ok e.
Proof.
  intros C H. apply rec_at_some in H. destruct (coh_stored_pk d _ e C H) as [idb [A [L E]]].
  apply primary_key_of_inj in E. subst idb. split; [exact A|]. split; [exact L|]. apply (coh_prim d C _ _ H).
Qed.

(* ---------------- one deletion ---------------- *)
Lemma delete_rec fault x c t t' : Coh (t_db t) -> rec_at (t_db t) x = Some c -> delete_event fault c t = Ok tt t' ->
  Coh (t_db t') /\ rec_at (t_db t') x = None /\ forall y, y <> x -> rec_at (t_db t') y = rec_at (t_db t) y.
Proof.
  intros C R H. apply rec_at_some in R.
  destruct (coh_delete fault _ c t t' C R H) as [C' [G0 [G1 G2]]]. split; [exact C'|]. split.
  - unfold rec_at. rewrite G0. reflexivity.
  - intros y N. destruct (rec_at (t_db t) y) as [e|] eqn:Ry.
    + apply rec_at_some. apply rec_at_some in Ry. apply G1; [|exact Ry]. intros E. apply N, primary_key_of_inj, E.
    + destruct (rec_at (t_db t') y) as [e|] eqn:Ry'; [|reflexivity].
      apply rec_at_some in Ry'. apply G2 in Ry'. apply rec_at_some in Ry'. congruence.
Qed.

(* ---------------- the two candidate loops, generically ---------------- *)
Section Loop.
Variable fault : option nat.
Variable now : Z.
Variable skip : bytes -> bool.
Variable sel : wevent -> bool.
Variable on_none : M unit.
Hypothesis on_none_pure : forall t t', on_none t = Ok tt t' -> t' = t.

Definition body (eid : bytes) : M unit :=
  if skip eid then ret tt else
  c <- m_candidate now eid ;;
  match c with
  | None => on_none
  | Some c => if sel c then delete_event fault c else ret tt
  end.

Lemma body_step eid t t' : Coh (t_db t) -> body eid t = Ok tt t' ->
  (t_db t' = t_db t /\ (skip eid = true \/ rec_at (t_db t) eid = None \/ exists c, rec_at (t_db t) eid = Some c /\ sel c = false)) \/
  (exists c, skip eid = false /\ rec_at (t_db t) eid = Some c /\ sel c = true /\
             Coh (t_db t') /\ rec_at (t_db t') eid = None /\ forall y, y <> eid -> rec_at (t_db t') y = rec_at (t_db t) y).
Proof.
  intros C H. unfold body in H. destruct (skip eid) eqn:Es.
  - apply ret_ok in H. destruct H as [_ ->]. left. auto.
  - apply bind_ok in H. destruct H as [c [t1 [H1 H]]]. destruct c as [c|].
    + apply coh_candidate in H1; [|exact C]. destruct H1 as [-> G]. apply rec_at_some in G.
      destruct (sel c) eqn:Ec.
      * right. exists c. destruct (delete_rec fault eid c t t' C G H) as [A [B D]]. auto 10.
      * apply ret_ok in H. destruct H as [_ ->]. left. split; [reflexivity|]. right. right. eauto.
    + apply m_candidate_ok in H1. destruct H1 as [-> E]. apply on_none_pure in H. subst t'. left. split; [reflexivity|].
      right. left. unfold rec_at. destruct (get (primary_key_of eid) (t_db t)) as [[|r]|]; try reflexivity. discriminate.
Qed.

Lemma loop_spec ids : forall t t', Coh (t_db t) -> m_iter body ids t = Ok tt t' ->
  Coh (t_db t') /\
  (forall x e, rec_at (t_db t') x = Some e -> rec_at (t_db t) x = Some e) /\
  (forall x e, rec_at (t_db t) x = Some e ->
     rec_at (t_db t') x = Some e \/ (rec_at (t_db t') x = None /\ In x ids /\ skip x = false /\ sel e = true)) /\
  (forall x e, In x ids -> skip x = false -> rec_at (t_db t) x = Some e -> sel e = true -> rec_at (t_db t') x = None).
Proof.
  induction ids as [|eid ids IH]; intros t t' C H; simpl in H.
  - apply ret_ok in H. destruct H as [_ ->]. split; [exact C|]. split; [auto|]. split; [auto|]. intros x e [].
  - apply bind_ok in H. destruct H as [[] [t1 [H1 H2]]].
    destruct (body_step eid t t1 C H1) as [[E Why]|[c [Es [Rc [Sc [C1 [R1 Roth]]]]]]].
    + assert (C1 : Coh (t_db t1)) by (rewrite E; exact C).
      destruct (IH t1 t' C1 H2) as [A1 [A2 [A3 A4]]]. rewrite E in *. split; [exact A1|]. split; [exact A2|]. split.
      * intros x e R. destruct (A3 x e R) as [K|[K1 [K2 [K3 K4]]]]; [left; exact K|]. right. simpl. auto.
      * intros x e [<-|Hin] Hs R Hsel; [|eapply A4; eauto].
        exfalso. destruct Why as [W|[W|[c [W1 W2]]]]; congruence.
    + destruct (IH t1 t' C1 H2) as [A1 [A2 [A3 A4]]]. split; [exact A1|]. split; [|split].
      * intros x e R. specialize (A2 x e R). destruct (bytes_dec x eid) as [->|N]; [congruence|].
        rewrite (Roth x N) in A2. exact A2.
      * intros x e R. destruct (bytes_dec x eid) as [->|N].
        -- right. rewrite Rc in R. injection R as <-. split; [|simpl; auto].
           destruct (rec_at (t_db t') eid) as [e'|] eqn:R'; [|reflexivity]. apply A2 in R'. congruence.
        -- rewrite <- (Roth x N) in R. destruct (A3 x e R) as [K|[K1 [K2 [K3 K4]]]]; [left; exact K|]. right. simpl. auto.
      * intros x e Hin Hs R Hsel. destruct (bytes_dec x eid) as [->|N].
        -- destruct (rec_at (t_db t') eid) as [e'|] eqn:R'; [|reflexivity]. apply A2 in R'. congruence.
        -- destruct Hin as [<-|Hin]; [contradiction|]. rewrite <- (Roth x N) in R. eapply A4; eauto.
Qed.
End Loop.

(* ---------------- write_event: the records afterwards ---------------- *)
Lemma write_rec fault w idb t t' : Coh (t_db t) -> event_wf w -> id_bytes w = Some idb ->
  rec_at (t_db t) idb = None -> write_event fault w t = Ok tt t' ->
  exists r, encode_event w = Some r /\ Coh (t_db t') /\ rec_at (t_db t') idb = Some r /\
            forall y, y <> idb -> rec_at (t_db t') y = rec_at (t_db t) y.
Proof.
  intros C W Hid R H.
  assert (G : get (primary_key_of idb) (t_db t) = None).
  { unfold rec_at in R. destruct (get (primary_key_of idb) (t_db t)) as [[|r]|] eqn:G; try discriminate; [|reflexivity].
    exfalso. eapply coh_primary_slot; eauto. }
  destruct (coh_write fault w idb t t' C W Hid G H) as [C' [r [Er Gr]]].
  exists r. split; [exact Er|]. split; [exact C'|]. split; [apply rec_at_some, Gr|].
  intros y N.
  destruct (write_event_ok fault w t t' (coh_sorted _ C) H) as [pk [r' [es [d1 [Epk [_ [Ees [_ [_ [[_ [A1 B1]] [_ [A2 B2]]]]]]]]]]]].
  rewrite (ids_key_of_strict w idb Hid) in Epk. injection Epk as <-.
  unfold rec_at. rewrite B2, B1; [reflexivity| |].
  - intros [E|[]]. apply N. symmetry. apply primary_key_of_inj, E.
  - intros I. exact (sec_key_not_primary w es _ y Ees I eq_refl).
Qed.

Lemma m_iter_ext {A} (f g : A -> M unit) l : (forall x t, f x t = g x t) -> forall t, m_iter f l t = m_iter g l t.
Proof.
  intros H. induction l as [|x l IH]; intros t; [reflexivity|]. simpl. unfold bind. rewrite H.
  destruct (g x t); [apply IH|reflexivity].
Qed.
Lemma mem_bytes_In x l : mem_bytes x l = true <-> In x l.
Proof.
  unfold mem_bytes. rewrite existsb_exists. split.
  - intros [y [Hy E]]. apply bytes_eqb_eq in E. subst. exact Hy.
  - intros H. exists x. split; [exact H|]. apply bytes_eqb_eq. reflexivity.
Qed.
Lemma bytes_eqb_refl' x : bytes_eqb x x = true.
Proof. apply bytes_eqb_true. reflexivity. Qed.

Lemma hex64_fields s : hex64 s = true -> exists b, py_fromhex s = Some b /\ length b = 32%nat /\ hex_of_bytes b = s.
Proof. apply hex64_bytes. Qed.
Lemma be4_some z : 0 <= z < 4294967296 -> exists b, be4 z = Some b.
Proof. intros H. unfold be4. replace ((0 <=? z) && (z <? 4294967296)) with true by lia. eauto. Qed.

(* the body of an "add" of an id that is not stored: write_event, then _post_save *)
Lemma add_fresh_ok fault now w idb t t' : Coh (t_db t) -> id_bytes w = Some idb -> rec_at (t_db t) idb = None ->
  op_body fault now (OAdd w) t = Ok tt t' ->
  exists t1, write_event fault w t = Ok tt t1 /\ post_save fault now w t1 = Ok tt t'.
Proof.
  intros C Hid R H. simpl in H.
  apply bind_ok in H. destruct H as [idb' [ta [Ha H]]]. apply of_opt_ok in Ha. destruct Ha as [E ->].
  rewrite Hid in E. injection E as <-.
  apply bind_ok in H. destruct H as [r [tb [Hb H]]]. apply m_event_data_ok in Hb. destruct Hb as [-> Er].
  fold (rec_at (t_db t) idb) in Er. rewrite R in Er. subst r.
  apply bind_ok in H. destruct H as [[] [t1 [H1 H2]]]. eauto.
Qed.

(* ---------------- C09: replaceable events ---------------- *)
Section WithScan.
Hypothesis scan_ok : ScanOk.

Definition same_d (w c : wevent) : bool :=
  negb (is_param_replaceable_kind (w_kind w) && negb (str_eqb (d_value (w_tags c)) (d_value (w_tags w)))).

Lemma kinds_disjoint k : is_replaceable_kind k = true -> is_param_replaceable_kind k = false.
Proof. unfold is_replaceable_kind, is_param_replaceable_kind. lia. Qed.

Lemma same_address_intro e w : is_replaceable_kind (w_kind w) || is_param_replaceable_kind (w_kind w) = true ->
  w_pubkey e = w_pubkey w -> w_kind e = w_kind w -> same_d w e = true -> same_address e w = true.
Proof.
  intros K P Q D. unfold same_address, address. rewrite Q, P.
  destruct (is_replaceable_kind (w_kind w)) eqn:R.
  - rewrite str_eqb_refl, Z.eqb_refl. reflexivity.
  - simpl in K. rewrite K. rewrite str_eqb_refl, Z.eqb_refl. simpl.
    unfold same_d in D. rewrite K in D. simpl in D. destruct (str_eqb _ _); [reflexivity|discriminate].
Qed.
Lemma same_address_elim e w : is_replaceable_kind (w_kind w) || is_param_replaceable_kind (w_kind w) = true ->
  same_address e w = true -> w_pubkey e = w_pubkey w /\ w_kind e = w_kind w /\ same_d w e = true.
Proof.
  intros K H. unfold same_address, address in H.
  destruct (is_replaceable_kind (w_kind e)) eqn:Re; [|destruct (is_param_replaceable_kind (w_kind e)) eqn:Pe; [|discriminate]].
  - destruct (is_replaceable_kind (w_kind w)) eqn:Rw; [|destruct (is_param_replaceable_kind (w_kind w)); [|discriminate]].
    + apply andb_true_iff in H. destruct H as [H _]. apply andb_true_iff in H. destruct H as [H1 H2].
      apply str_eqb_eq in H1. apply Z.eqb_eq in H2. split; [exact H1|]. split; [exact H2|].
      unfold same_d. rewrite (kinds_disjoint _ Rw). reflexivity.
    + apply andb_true_iff in H. destruct H as [H _]. apply andb_true_iff in H. destruct H as [H1 H2].
      apply Z.eqb_eq in H2. rewrite H2 in Re. congruence.
  - destruct (is_replaceable_kind (w_kind w)) eqn:Rw; [|destruct (is_param_replaceable_kind (w_kind w)); [|discriminate]].
    + apply andb_true_iff in H. destruct H as [H _]. apply andb_true_iff in H. destruct H as [H1 H2].
      apply Z.eqb_eq in H2. rewrite H2 in Re. congruence.
    + apply andb_true_iff in H. destruct H as [H H3]. apply andb_true_iff in H. destruct H as [H1 H2].
      apply str_eqb_eq in H1. apply Z.eqb_eq in H2. split; [exact H1|]. split; [exact H2|].
      unfold same_d. rewrite H3. destruct (is_param_replaceable_kind (w_kind w)); reflexivity.
Qed.

Theorem add_replaceable fault now w idb t t' :
  Coh (t_db t) -> event_wf w -> id_bytes w = Some idb -> rec_at (t_db t) idb = None ->
  is_replaceable_kind (w_kind w) || is_param_replaceable_kind (w_kind w) = true ->
  op_body fault now (OAdd w) t = Ok tt t' ->
  exists r, encode_event w = Some r /\ Coh (t_db t') /\ rec_at (t_db t') idb = Some r /\
    (forall x e, x <> idb -> rec_at (t_db t') x = Some e -> rec_at (t_db t) x = Some e) /\
    (forall x e, rec_at (t_db t) x = Some e -> same_address e w = true -> w_created e <= w_created w ->
                 rec_at (t_db t') x = None) /\
    (forall x e, rec_at (t_db t) x = Some e -> rec_at (t_db t') x = None ->
                 same_address e w = true /\ w_created e <= w_created w).
Proof.
  intros C W Hid R K H.
  destruct (add_fresh_ok fault now w idb t t' C Hid R H) as [t1 [H1 H2]].
  destruct (write_rec fault w idb t t1 C W Hid R H1) as [r [Er [C1 [R1 Roth]]]].
  unfold post_save in H2. rewrite K in H2. unfold replace_older in H2.
  apply bind_ok in H2. destruct H2 as [saved [ta [Ha H2]]]. apply of_opt_ok in Ha. destruct Ha as [E ->].
  rewrite Hid in E. injection E as <-.
  apply bind_ok in H2. destruct H2 as [ids [tb [Hb H2]]].
  pose proof (m_scan_ok _ _ _ _ _ _ Hb) as ->.
  (* what the scanner yielded *)
  destruct W as [W1 [W2 W3]]. destruct (hex64_fields _ W2) as [pkb [Epk [Lpk Xpk]]].
  destruct (write_event_ok fault w t t1 (coh_sorted _ C) H1) as [_ [_ [es [_ [_ [_ [Ees _]]]]]]].
  destruct (sec_keys_ranges w es Ees) as [Rc Rk]. destruct (be4_some _ Rk) as [kb Ekb].
  pose proof (scan_authorkinds scan_ok (t_db t1) (w_pubkey w) (w_kind w) (w_created w) pkb kb C1 Epk Lpk Xpk Ekb) as Sc.
  unfold m_scan in Hb.
  destruct (index_scanner (keys (t_db t1)) IxAuthorKinds [MStrInt (w_pubkey w) (w_kind w)] None (Some (w_created w)) (fun _ => true))
    as [ids'| |]; try discriminate. injection Hb as <-. destruct Sc as [_ Sc].
  (* the loop *)
  rewrite (m_iter_ext _ (body fault now (fun x => bytes_eqb x idb) (same_d w) fail)) in H2.
  2:{ intros eid t0. unfold body. destruct (bytes_eqb eid idb); [reflexivity|]. unfold bind.
      destruct (m_candidate now eid t0) as [[c|] tc|]; try reflexivity. unfold same_d.
      destruct (is_param_replaceable_kind (w_kind w) && negb (str_eqb (d_value (w_tags c)) (d_value (w_tags w)))); reflexivity. }
  destruct (loop_spec fault now (fun x => bytes_eqb x idb) (same_d w) fail ltac:(intros ? ? X; discriminate X) ids' t1 t' C1 H2)
    as [C' [A2 [A3 A4]]].
  assert (Rold : forall x e, rec_at (t_db t) x = Some e -> x <> idb /\ rec_at (t_db t1) x = Some e).
  { intros x e Rx. assert (N : x <> idb) by (intros ->; congruence). split; [exact N|]. rewrite (Roth x N). exact Rx. }
  exists r. split; [exact Er|]. split; [exact C'|]. split; [|split; [|split]].
  - destruct (A3 idb r R1) as [Keep|[_ [_ [Sk _]]]]; [exact Keep|]. rewrite bytes_eqb_refl' in Sk. discriminate.
  - intros x e N Rx. apply A2 in Rx. rewrite (Roth x N) in Rx. exact Rx.
  - intros x e Rx Ha Hc. destruct (Rold x e Rx) as [N Rx1].
    destruct (same_address_elim e w K Ha) as [P [Q D]].
    apply (A4 x e); [|apply bytes_eqb_false; exact N|exact Rx1|exact D].
    apply Sc. exists e. split; [apply rec_at_some; exact Rx1|]. auto.
  - intros x e Rx Rx'. destruct (Rold x e Rx) as [N Rx1].
    destruct (A3 x e Rx1) as [Keep|[_ [Hin [_ Hsel]]]]; [congruence|].
    apply Sc in Hin. destruct Hin as [e' [Ge' [P [Q Le]]]]. apply rec_at_some in Ge'. rewrite Rx1 in Ge'. injection Ge' as <-.
    split; [apply same_address_intro; assumption|exact Le].
Qed.

(* ---------------- C08: NIP-09 deletion ---------------- *)
Theorem add_deletion fault now w idb t t' :
  Coh (t_db t) -> event_wf w -> id_bytes w = Some idb -> rec_at (t_db t) idb = None -> w_kind w = 5 ->
  op_body fault now (OAdd w) t = Ok tt t' ->
  exists r, encode_event w = Some r /\ Coh (t_db t') /\ rec_at (t_db t') idb = Some r /\
    (forall x e, x <> idb -> rec_at (t_db t') x = Some e -> rec_at (t_db t) x = Some e) /\
    (forall x e, rec_at (t_db t) x = Some e -> rec_at (t_db t') x = None ->
                 w_pubkey e = w_pubkey w /\ In x (e_ref_ids w) /\ w_created e < w_created w) /\
    (forall x e, rec_at (t_db t) x = Some e -> w_pubkey e = w_pubkey w -> In x (e_ref_ids w) ->
                 w_created e < w_created w -> rec_at (t_db t') x = None).
Proof.
  intros C W Hid R K H.
  destruct (add_fresh_ok fault now w idb t t' C Hid R H) as [t1 [H1 H2]].
  destruct (write_rec fault w idb t t1 C W Hid R H1) as [r [Er [C1 [R1 Roth]]]].
  assert (Rold : forall x e, rec_at (t_db t) x = Some e -> x <> idb /\ rec_at (t_db t1) x = Some e).
  { intros x e Rx. assert (N : x <> idb) by (intros ->; congruence). split; [exact N|]. rewrite (Roth x N). exact Rx. }
  unfold post_save in H2. rewrite K in H2. change (is_replaceable_kind 5 || is_param_replaceable_kind 5) with false in H2.
  change (5 =? 5) with true in H2. cbv iota in H2. unfold delete_referenced in H2.
  destruct (e_ref_ids w) as [|r0 rs] eqn:Eref.
  - apply ret_ok in H2. destruct H2 as [_ ->]. exists r. split; [exact Er|]. split; [exact C1|]. split; [exact R1|]. split; [|split].
    + intros x e N Rx. rewrite (Roth x N) in Rx. exact Rx.
    + intros x e Rx Rx'. destruct (Rold x e Rx) as [_ Rx1]. congruence.
    + intros x e _ _ [].
  - apply bind_ok in H2. destruct H2 as [found [tb [Hb H2]]].
    pose proof (m_scan_ok _ _ _ _ _ _ Hb) as ->.
    destruct W as [W1 [W2 W3]]. destruct (hex64_fields _ W2) as [pkb [Epk [Lpk Xpk]]].
    pose proof (scan_authors scan_ok (t_db t1) (w_pubkey w) (w_created w - 1) pkb C1 Epk Lpk Xpk) as Sc.
    unfold m_scan in Hb.
    destruct (index_scanner (keys (t_db t1)) IxAuthors [MStr (w_pubkey w)] None (Some (w_created w - 1)) (fun _ => true))
      as [ids'| |]; try discriminate. injection Hb as <-. destruct Sc as [_ Sc].
    rewrite (m_iter_ext _ (body fault now (fun x => negb (mem_bytes x (r0 :: rs))) (fun _ => true) (ret tt))) in H2.
    2:{ intros eid t0. unfold body. destruct (mem_bytes eid (r0 :: rs)); cbn [negb]; [|reflexivity]. unfold bind.
        destruct (m_candidate now eid t0) as [[c|] tc|]; reflexivity. }
    destruct (loop_spec fault now (fun x => negb (mem_bytes x (r0 :: rs))) (fun _ => true) (ret tt)
                ltac:(intros ? ? X; apply ret_ok in X; destruct X as [_ X]; exact X) ids' t1 t' C1 H2)
      as [C' [A2 [A3 A4]]].
    exists r. split; [exact Er|]. split; [exact C'|]. split; [|split; [|split]].
    + destruct (A3 idb r R1) as [Keep|[_ [Hin _]]]; [exact Keep|].
      apply Sc in Hin. destruct Hin as [e' [Ge' [_ Le]]]. apply rec_at_some in Ge'. rewrite R1 in Ge'. injection Ge' as <-.
      destruct (encode_wf w r (conj W1 (conj W2 W3)) Er) as [_ [_ [X3 _]]]. lia.
    + intros x e N Rx. apply A2 in Rx. rewrite (Roth x N) in Rx. exact Rx.
    + intros x e Rx Rx'. destruct (Rold x e Rx) as [N Rx1].
      destruct (A3 x e Rx1) as [Keep|[_ [Hin [Hsk _]]]]; [congruence|].
      apply Sc in Hin. destruct Hin as [e' [Ge' [P Le]]]. apply rec_at_some in Ge'. rewrite Rx1 in Ge'. injection Ge' as <-.
      split; [exact P|]. split; [|lia]. apply mem_bytes_In. destruct (mem_bytes x (r0 :: rs)); [reflexivity|discriminate].
    + intros x e Rx P Hin Lt. destruct (Rold x e Rx) as [N Rx1].
      apply (A4 x e); [| |exact Rx1|reflexivity].
      * apply Sc. exists e. split; [apply rec_at_some; exact Rx1|]. split; [exact P|lia].
      * apply mem_bytes_In in Hin. rewrite Hin. reflexivity.
Qed.

(* ---------------- every other kind ---------------- *)
Theorem add_plain fault now w idb t t' :
  Coh (t_db t) -> event_wf w -> id_bytes w = Some idb -> rec_at (t_db t) idb = None ->
  is_replaceable_kind (w_kind w) || is_param_replaceable_kind (w_kind w) = false -> w_kind w <> 5 ->
  op_body fault now (OAdd w) t = Ok tt t' ->
  exists r, encode_event w = Some r /\ Coh (t_db t') /\ rec_at (t_db t') idb = Some r /\
    forall x, x <> idb -> rec_at (t_db t') x = rec_at (t_db t) x.
Proof.
  intros C W Hid R K K5 H.
  destruct (add_fresh_ok fault now w idb t t' C Hid R H) as [t1 [H1 H2]].
  destruct (write_rec fault w idb t t1 C W Hid R H1) as [r [Er [C1 [R1 Roth]]]].
  unfold post_save in H2. rewrite K in H2. replace (w_kind w =? 5) with false in H2 by lia.
  apply ret_ok in H2. destruct H2 as [_ ->]. exists r. auto.
Qed.
End WithScan.
