(* LMDB write path, part 3: WriterThread._post_save (replacement of older versions, NIP-09
   deletion) and WriterThread.run: one queued operation = one write transaction;
   an exception aborts (the working copy is dropped), a kill drops the commit.
   The scanner generator is suspended while candidates are deleted; LMDB keeps the cursors of a
   write transaction on their logical position under txn.delete, so the ids it yields are those it
   yields on the key list at scan start (engine assumption, DESIGN 6): modelled as scan, then fold.
   No proofs in this file. *)
From NR Require Import Lib.Base Lib.Nip01 KVM.Engine KVM.Keys KVM.Scan KVW.Types KVW.Entries KVW.Write.
Open Scope list_scope. Open Scope Z_scope.

Section PostSave.
Variable fault : option nat.
Variable now : Z.

(* ids referenced by the e tags of a deletion: tags with a value, whose value is hex (malformed ones are skipped) *)
Definition e_ref_ids (w : wevent) : list bytes :=
  flat_map (fun v => match bytes_from_hex v with Some b => [b] | None => [] end) (e_refs w).

(* decode_event(get_event_data(txn, event_id)) *)
Definition m_candidate (eid : bytes) : M (option wevent) :=
  r <- m_event_data eid ;; ret (option_map (decode_event now) r).

Definition replace_older (w : wevent) : M unit :=
  saved <- of_opt (id_bytes w) ;;
  ids <- m_scan IxAuthorKinds [MStrInt (w_pubkey w) (w_kind w)] (Some (w_created w)) ;;
  m_iter (fun eid =>
            if bytes_eqb eid saved then ret tt else
            c <- m_candidate eid ;;
            match c with
            | None => fail                                   (* attribute access on None *)
            | Some c =>
                if is_param_replaceable_kind (w_kind w)
                   && negb (str_eqb (d_value (w_tags c)) (d_value (w_tags w)))
                then ret tt else delete_event fault c
            end) ids.

Definition delete_referenced (w : wevent) : M unit :=
  let ids := e_ref_ids w in
  match ids with
  | [] => ret tt
  | _ =>
      found <- m_scan IxAuthors [MStr (w_pubkey w)] (Some (w_created w - 1)) ;;
      m_iter (fun eid =>
                if mem_bytes eid ids then
                  c <- m_candidate eid ;;
                  match c with Some c => delete_event fault c | None => ret tt end
                else ret tt) found
  end.

Definition post_save (w : wevent) : M unit :=
  let k := w_kind w in
  if is_replaceable_kind k || is_param_replaceable_kind k then replace_older w
  else if k =? 5 then delete_referenced w
  else ret tt.
End PostSave.

(* ---- operations queued to the writer ---- *)
Inductive wop :=
| OAdd (w : wevent)
| ODel (idhex : pystr)
| OReindex (i : idx) (w : wevent)
| OBulk (i : idx) (ws : list (option wevent)).

Section Run.
Variable fault : option nat.
Variable now : Z.

(* the body of `with env.begin(write=True) as txn:` *)
Definition op_body (op : wop) : M unit :=
  match op with
  | OAdd w =>
      idb <- of_opt (id_bytes w) ;;
      r <- m_event_data idb ;;
      match r with
      | Some _ => ret tt                              (* already stored: nothing *)
      | None => _ <- write_event fault w ;; post_save fault now w
      end
  | ODel h =>
      idb <- of_opt (py_fromhex h) ;;
      c <- m_candidate now idb ;;
      match c with Some c => delete_event fault c | None => ret tt end
  | OReindex i w =>
      idb <- of_opt (id_bytes w) ;;
      r <- m_event_data idb ;;
      match r with Some _ => write_index fault i w | None => ret tt end
  | OBulk i ws =>
      m_iter (fun o => match o with
                       | Some w =>
                           idb <- of_opt (id_bytes w) ;;
                           r <- m_event_data idb ;;
                           match r with Some _ => write_index fault i w | None => ret tt end
                       | None => ret tt end) ws
  end.
End Run.

Inductive txn_end := Committed | Aborted | Killed.
(* kill = Some k: the process dies at the k-th mutation: nothing of a transaction that reaches
   that mutation is ever committed *)
Definition killed (kill : option nat) (log : list mut) : bool :=
  match kill with Some k => Nat.ltb k (length log) | None => false end.

(* WriterThread.run for one task: (new committed db, how the transaction ended, mutations in order) *)
Definition run_op (fault kill : option nat) (now : Z) (d : kvdb) (op : wop) : kvdb * txn_end * list mut :=
  match op_body fault now op {| t_db := d; t_log := [] |} with
  | Ok _ t => if killed kill (t_log t) then (d, Killed, rev (t_log t)) else (t_db t, Committed, rev (t_log t))
  | Err l => (d, Aborted, rev l)
  end.
Definition db_after (fault kill : option nat) (now : Z) (d : kvdb) (op : wop) : kvdb :=
  fst (fst (run_op fault kill now d op)).
