(* Shared final vocabulary of the LMDB write-path theorems: the invariant of every reachable
   keyspace, reading a committed transaction, the scanner premise discharged. *)
From NR Require Export Lib.Base Lib.Nip01 KVM.Engine KVM.Keys KVM.Scan
     KVW.Types KVW.Entries KVW.Write KVW.PostSave KVW.Gc KVW.Oracles
     KVW.Proofs_Engine KVW.Proofs_Tx KVW.Proofs_Keys KVW.Proofs_Coherent KVW.Proofs_Run KVW.Proofs_Fault
     KVW.Proofs_ScanUse KVW.Proofs_ScanOk KVW.Proofs_PostSave KVW.Proofs_Progress KVW.Proofs_Gc KVW.Proofs_Ack KVW.GenTie.
Open Scope list_scope. Open Scope Z_scope.

(* what holds of the keyspace after every history of writer transactions *)
Definition Inv (d : kvdb) : Prop := Coh d /\ KOk d.

Theorem inv_init : Inv init_db.
Proof. split; [apply coh_init|apply kok_init]. Qed.
Theorem inv_step d s : Inv d -> op_ok d (s_op s) -> Inv (run_step d s).
Proof. intros [C K] O. split; [apply run_op_coh; assumption|apply run_op_kok; assumption]. Qed.
Theorem inv_history l : forall d, Inv d -> steps_ok d l -> Inv (run_steps d l).
Proof.
  induction l as [|s l IH]; intros d I O; [exact I|]. destruct O as [O1 O2]. simpl. apply IH; [apply inv_step; assumption|exact O2].
Qed.

Lemma run_op_committed fault kill now d op d' ms : run_op fault kill now d op = (d', Committed, ms) ->
  exists t', op_body fault now op {| t_db := d; t_log := [] |} = Ok tt t' /\ d' = t_db t'.
Proof.
  unfold run_op. destruct (op_body fault now op _) as [[] t'|l]; [|discriminate].
  destruct (killed kill (t_log t')); [discriminate|]. intros H. injection H as <- _. eauto.
Qed.
