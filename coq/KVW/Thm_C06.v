(* C06 (LMDB half): which acknowledgements of LMDBStorage.add_event are truthful.
   The writer runs after the acknowledgement.  With the admission-side checks (stored or already
   queued -> duplicate; not storable -> refused) every acknowledged event is stored by its own
   transaction, in every interleaving of submissions and writer steps, unless the ENGINE fails in
   that transaction (kv_engine_failure_after_ack: the one open class). *)
From NR Require Import Lib.BaseFacts KVW.Thm_Common KVW.Queue.
Open Scope list_scope. Open Scope Z_scope.

Section Ack.
Variable valid : wevent -> bool.
(* what the validator pipeline guarantees (C03: is_signed checks id = sha256 and the key formats) *)
Hypothesis valid_hex : forall w, valid w = true -> hex64 (w_id w) = true /\ hex64 (w_pubkey w) = true.

(* (d) a refusal leaves no trace: nothing is queued, nothing is broadcast *)
Theorem C06_kv_refused_no_trace now d p raw b q : add_event valid now d p raw = (AckRaise, b, q) -> b = false /\ q = None.
Proof.
  unfold add_event. destruct (valid _); simpl; [|intros H; injection H as <- <-; auto].
  destruct (is_ephemeral_kind _); [discriminate|]. destruct (storable _); simpl; [|intros H; injection H as <- <-; auto].
  destruct (id_bytes _); [|intros H; injection H as <- <-; auto]. destruct (mem_str _ p); [discriminate|].
  destruct (get _ d) as [[|r]|]; discriminate.
Qed.
(* (e) resubmitting an event that is stored, or whose add is still queued: duplicate, nothing queued, nothing broadcast *)
Theorem C06_kv_duplicate now d p raw idb : valid (ctor now raw) = true -> is_ephemeral_kind (w_kind (ctor now raw)) = false ->
  storable (ctor now raw) = true -> id_bytes (ctor now raw) = Some idb ->
  (exists e, rec_at d idb = Some e) \/ In (w_id (ctor now raw)) p ->
  add_event valid now d p raw = (AckDuplicate, false, None).
Proof.
  intros V E S Hid H. unfold add_event. rewrite V, E, S, Hid. simpl. destruct (mem_str _ p) eqn:M; [reflexivity|].
  destruct H as [[e R]|I]; [apply rec_at_some in R; rewrite R; reflexivity|].
  apply mem_str_In in I. congruence.
Qed.
Theorem C06_kv_duplicate_only_if_known now d p raw b q : add_event valid now d p raw = (AckDuplicate, b, q) ->
  b = false /\ q = None /\ exists idb, id_bytes (ctor now raw) = Some idb /\
                                      ((exists e, rec_at d idb = Some e) \/ In (w_id (ctor now raw)) p).
Proof.
  unfold add_event. destruct (valid _); simpl; [|discriminate]. destruct (is_ephemeral_kind _); [discriminate|].
  destruct (storable _); simpl; [|discriminate]. destruct (id_bytes _) as [idb|]; [|discriminate].
  destruct (mem_str _ p) eqn:M.
  - intros H. injection H as <- <-. split; [reflexivity|]. split; [reflexivity|]. exists idb. split; [reflexivity|].
    right. apply mem_str_In, M.
  - destruct (get _ d) as [[|r]|] eqn:G; try discriminate. intros H. injection H as <- <-. split; [reflexivity|]. split; [reflexivity|].
    exists idb. split; [reflexivity|]. left. exists r. apply rec_at_some, G.
Qed.
(* (c) a valid, storable event that is neither stored nor queued is never refused *)
Theorem C06_kv_valid_accepted now d p raw idb : valid (ctor now raw) = true -> is_ephemeral_kind (w_kind (ctor now raw)) = false ->
  storable (ctor now raw) = true -> id_bytes (ctor now raw) = Some idb -> rec_at d idb = None -> ~ In (w_id (ctor now raw)) p ->
  add_event valid now d p raw = (AckTrue, true, Some (OAdd (ctor now raw))).
Proof.
  intros V E S Hid R N. unfold add_event. rewrite V, E, S, Hid. simpl.
  destruct (mem_str _ p) eqn:M; [apply mem_str_In in M; contradiction|]. unfold rec_at in R.
  destruct (get (primary_key_of idb) d) as [[|r]|]; try reflexivity. discriminate.
Qed.

(* ---- the queue between add_event and the writer thread ---- *)
Definition queued_ok (d : kvdb) (infl : list pystr) (op : wop) : Prop :=
  match op with
  | OAdd w => event_wf w /\ storable w = true /\ In (w_id w) infl /\ exists idb, id_bytes w = Some idb /\ rec_at d idb = None
  | ODel _ => True
  | _ => False
  end.
(* every queued add is storable, registered in in_flight, of an id that is not stored; queued ids are distinct *)
Definition QInv (st : sstate) : Prop :=
  Inv (s_db st) /\ Forall (queued_ok (s_db st) (s_inflight st)) (s_queue st) /\ NoDup (add_ids (s_queue st)).

Theorem C06_kv_qinv_init : QInv (mkS init_db [] []).
Proof. split; [apply inv_init|]. split; constructor. Qed.

Lemma NoDup_app_single {A} (l : list A) x : NoDup l -> ~ In x l -> NoDup (l ++ [x]).
Proof.
  intros N H. apply NoDup_rev in N. rewrite <- (rev_involutive (l ++ [x])). apply NoDup_rev. rewrite rev_app_distr. simpl.
  constructor; [rewrite <- in_rev; exact H|exact N].
Qed.
Lemma add_ids_app q1 q2 : add_ids (q1 ++ q2) = add_ids q1 ++ add_ids q2.
Proof. unfold add_ids. apply flat_map_app. Qed.
Lemma queued_ids_inflight d infl q : Forall (queued_ok d infl) q -> forall x, In x (add_ids q) -> In x infl.
Proof.
  induction 1 as [|op q H F IH]; intros x Hx; [destruct Hx|]. simpl in Hx. apply in_app_or in Hx. destruct Hx as [Hx|Hx]; [|auto].
  destruct op; try destruct Hx as [<-|[]]; try destruct Hx. apply H.
Qed.
Lemma queued_ok_weaken d infl x op : queued_ok d infl op -> queued_ok d (x :: infl) op.
Proof. destruct op; simpl; auto. intros [A [B [C D]]]. split; [exact A|]. split; [exact B|]. split; [right; exact C|exact D]. Qed.

Theorem C06_kv_qinv_submit now st raw a b st' : now <> 0 -> QInv st -> submit valid now st raw = (a, b, st') -> QInv st'.
Proof.
  intros Nz [I [F N]] H. unfold submit in H. destruct (add_event valid now (s_db st) (s_inflight st) raw) as [[a0 b0] q] eqn:E.
  destruct q as [op|]; [|injection H as _ _ <-; split; [exact I|split; assumption]].
  pose proof (add_event_op_ok valid now _ _ raw _ _ op valid_hex Nz E) as O.
  unfold add_event in E. destruct (valid (ctor now raw)) eqn:V; simpl in E; [|discriminate].
  destruct (is_ephemeral_kind _); [discriminate|]. destruct (storable (ctor now raw)) eqn:S; simpl in E; [|discriminate].
  destruct (id_bytes (ctor now raw)) as [idb|] eqn:Hid; [|discriminate].
  destruct (mem_str (w_id (ctor now raw)) (s_inflight st)) eqn:M; [discriminate|].
  destruct (get (primary_key_of idb) (s_db st)) as [[|r0]|] eqn:G; try discriminate.
  - exfalso. destruct I as [C _]. eapply coh_primary_slot; eauto.
  - injection E as _ _ <-. injection H as _ _ <-. simpl in O. set (w := ctor now raw) in *. unfold QInv. cbn [s_db s_queue s_inflight].
    split; [exact I|]. split.
    + apply Forall_app. split.
      * eapply Forall_impl; [|exact F]. intros op. apply queued_ok_weaken.
      * constructor; [|constructor]. simpl. split; [exact O|]. split; [exact S|]. split; [left; reflexivity|].
        exists idb. split; [exact Hid|]. unfold rec_at. rewrite G. reflexivity.
    + rewrite add_ids_app. change (add_ids [OAdd w]) with [w_id w]. apply NoDup_app_single; [exact N|].
      intros Hin. apply (queued_ids_inflight _ _ _ F) in Hin. apply mem_str_In in Hin. congruence.
Qed.
Theorem C06_kv_qinv_enqueue_del st h : QInv st -> QInv (enqueue_del st h).
Proof.
  intros [I [F N]]. unfold enqueue_del, QInv. cbn [s_db s_queue s_inflight]. split; [exact I|]. split.
  - apply Forall_app. split; [exact F|]. constructor; [exact Logic.I|constructor].
  - rewrite add_ids_app. change (add_ids [ODel h]) with (@nil pystr). rewrite app_nil_r. exact N.
Qed.

(* a transaction never makes a record appear under another id than the one it adds *)
Lemma odel_no_new fault kill now d h x e : Coh d -> rec_at (db_after fault kill now d (ODel h)) x = Some e -> rec_at d x = Some e.
Proof.
  intros C. unfold db_after, run_op. destruct (op_body fault now (ODel h) {| t_db := d; t_log := [] |}) as [[] t'|l] eqn:E; [|auto].
  destruct (killed kill (t_log t')); [auto|]. cbn [fst]. simpl in E.
  apply bind_ok in E. destruct E as [idb [t1 [H1 E]]]. apply of_opt_ok in H1. destruct H1 as [_ ->].
  apply bind_ok in E. destruct E as [c [t2 [H2 E]]]. destruct c as [c|].
  - apply coh_candidate in H2; [|exact C]. destruct H2 as [-> G]. apply rec_at_some in G.
    destruct (delete_rec fault idb c {| t_db := d; t_log := [] |} t' C G E) as [_ [R0 Ro]]. intros R.
    destruct (bytes_dec x idb) as [->|Nx]; [congruence|]. rewrite (Ro x Nx) in R. exact R.
  - apply m_candidate_ok in H2. destruct H2 as [-> _]. apply ret_ok in E. destruct E as [_ ->]. auto.
Qed.
Lemma oadd_no_new fault kill now d w idb x e : Coh d -> event_wf w -> id_bytes w = Some idb -> rec_at d idb = None ->
  x <> idb -> rec_at (db_after fault kill now d (OAdd w)) x = Some e -> rec_at d x = Some e.
Proof.
  intros C W Hid R Nx. unfold db_after, run_op. destruct (op_body fault now (OAdd w) {| t_db := d; t_log := [] |}) as [[] t'|l] eqn:E; [|auto].
  destruct (killed kill (t_log t')); [auto|]. cbn [fst].
  destruct (is_replaceable_kind (w_kind w) || is_param_replaceable_kind (w_kind w)) eqn:Kd.
  - destruct (add_replaceable scan_ok_holds fault now w idb {| t_db := d; t_log := [] |} t' C W Hid R Kd E) as [r [_ [_ [_ [A _]]]]]. apply A, Nx.
  - destruct (Z.eq_dec (w_kind w) 5) as [K5|K5].
    + destruct (add_deletion scan_ok_holds fault now w idb {| t_db := d; t_log := [] |} t' C W Hid R K5 E) as [r [_ [_ [_ [A _]]]]]. apply A, Nx.
    + destruct (add_plain fault now w idb {| t_db := d; t_log := [] |} t' C W Hid R Kd K5 E) as [r [_ [_ [_ A]]]]. rewrite (A x Nx). auto.
Qed.
Lemma wf_id_bytes_inj w1 w2 idb : event_wf w1 -> event_wf w2 -> id_bytes w1 = Some idb -> id_bytes w2 = Some idb -> w_id w1 = w_id w2.
Proof.
  intros [H1 _] [H2 _] E1 E2. destruct (hex64_bytes _ H1) as [b1 [A1 [_ X1]]]. destruct (hex64_bytes _ H2) as [b2 [A2 [_ X2]]].
  unfold id_bytes in *. congruence.
Qed.
Lemma remove_str_In x y l : In y l -> y <> x -> In y (remove_str x l).
Proof. intros H N. unfold remove_str. apply filter_In. split; [exact H|]. apply negb_true_iff. apply str_eqb_neq. congruence. Qed.

(* the writer processes the head of the queue: any ending of its transaction *)
Theorem C06_kv_qinv_writer_step fault kill now st : QInv st -> QInv (writer_step fault kill now st).
Proof.
  intros [I [F N]]. unfold writer_step. destruct (s_queue st) as [|op q] eqn:Q; [split; [exact I|rewrite Q; split; assumption]|].
  unfold QInv. cbn [s_db s_queue s_inflight]. try rewrite Q in F; try rewrite Q in N. inversion F as [|? ? Hop Fq]; subst. destruct I as [C K].
  destruct op as [w|h|i w|i ws]; simpl in Hop; try contradiction.
  - destruct Hop as [W [S [Iw [idb [Hid R]]]]].
    split; [apply (inv_step (s_db st) (mkStep fault kill now (OAdd w)) (conj C K)); exact W|]. simpl in N. inversion N as [|? ? Nw Nq]; subst.
    split; [|exact Nq]. rewrite Forall_forall in *. intros op Hin. specialize (Fq op Hin). destruct op as [w2|h2| |]; simpl in *; auto.
    destruct Fq as [W2 [S2 [I2 [idb2 [Hid2 R2]]]]].
    assert (Nid : w_id w2 <> w_id w).
    { intros E. apply Nw. rewrite <- E. unfold add_ids. apply in_flat_map. exists (OAdd w2). split; [exact Hin|left; reflexivity]. }
    split; [exact W2|]. split; [exact S2|]. split; [apply remove_str_In; assumption|]. exists idb2. split; [exact Hid2|].
    destruct (rec_at (db_after fault kill now (s_db st) (OAdd w)) idb2) as [e|] eqn:R'; [|reflexivity]. exfalso.
    assert (Nb : idb2 <> idb). { intros ->. apply Nid. eapply wf_id_bytes_inj; eauto. }
    pose proof (oadd_no_new fault kill now (s_db st) w idb idb2 e C W Hid R Nb R'). congruence.
  - split; [apply (inv_step (s_db st) (mkStep fault kill now (ODel h)) (conj C K)); exact Logic.I|]. split; [|exact N].
    rewrite Forall_forall in *. intros op Hin. specialize (Fq op Hin). destruct op as [w2|h2| |]; simpl in *; auto.
    destruct Fq as [W2 [S2 [I2 [idb2 [Hid2 R2]]]]]. split; [exact W2|]. split; [exact S2|]. split; [exact I2|]. exists idb2. split; [exact Hid2|].
    destruct (rec_at (db_after fault kill now (s_db st) (ODel h)) idb2) as [e|] eqn:R'; [|reflexivity]. exfalso.
    pose proof (odel_no_new fault kill now (s_db st) h idb2 e C R'). congruence.
Qed.

(* (b) OK=true is truthful in every interleaving: when the writer reaches the queued add - whatever
   was submitted, queued or written in between - and the engine does not fail in that transaction, the
   transaction commits and the event is stored, with every index entry (C10) *)
Theorem C06_kv_ack_true_stored now st w q : QInv st -> s_queue st = OAdd w :: q ->
  exists idb r d' ms, id_bytes w = Some idb /\ encode_event w = Some r /\
    run_op None None now (s_db st) (OAdd w) = (d', Committed, ms) /\
    s_db (writer_step None None now st) = d' /\ rec_at d' idb = Some r.
Proof.
  intros [[C K] [F _]] Q. rewrite Q in F. inversion F as [|? ? Hop _]; subst. simpl in Hop.
  destruct Hop as [W [S [_ [idb [Hid R]]]]].
  destruct (add_commits scan_ok_holds now w idb {| t_db := s_db st; t_log := [] |} C K W S Hid R) as [t' Ht'].
  assert (Hr : exists r, encode_event w = Some r /\ rec_at (t_db t') idb = Some r).
  { destruct (is_replaceable_kind (w_kind w) || is_param_replaceable_kind (w_kind w)) eqn:Kd.
    - destruct (add_replaceable scan_ok_holds None now w idb {| t_db := s_db st; t_log := [] |} t' C W Hid R Kd Ht') as [r [Er [_ [Rn _]]]]. eauto.
    - destruct (Z.eq_dec (w_kind w) 5) as [K5|K5].
      + destruct (add_deletion scan_ok_holds None now w idb {| t_db := s_db st; t_log := [] |} t' C W Hid R K5 Ht') as [r [Er [_ [Rn _]]]]. eauto.
      + destruct (add_plain None now w idb {| t_db := s_db st; t_log := [] |} t' C W Hid R Kd K5 Ht') as [r [Er [_ [Rn _]]]]. eauto. }
  destruct Hr as [r [Er Rn]]. exists idb, r, (t_db t'), (rev (t_log t')).
  split; [exact Hid|]. split; [exact Er|].
  assert (Hrun : run_op None None now (s_db st) (OAdd w) = (t_db t', Committed, rev (t_log t'))) by (unfold run_op; rewrite Ht'; reflexivity).
  split; [exact Hrun|]. split; [|exact Rn]. unfold writer_step. rewrite Q. cbn [s_db]. unfold db_after. rewrite Hrun. reflexivity.
Qed.
(* what an acknowledgement OK=true of a non-ephemeral event means for the shared state *)
Theorem C06_kv_ack_true_queued now st raw b st' : submit valid now st raw = (AckTrue, b, st') ->
  is_ephemeral_kind (w_kind (ctor now raw)) = false ->
  b = true /\ s_queue st' = s_queue st ++ [OAdd (ctor now raw)] /\ s_db st' = s_db st.
Proof.
  unfold submit. destruct (add_event valid now (s_db st) (s_inflight st) raw) as [[a0 b0] q] eqn:E. intros H Eph.
  unfold add_event in E. destruct (valid _); simpl in E; [|injection E as <- _ _; destruct q as [[]|]; discriminate].
  rewrite Eph in E. destruct (storable _); simpl in E; [|injection E as <- _ _; destruct q as [[]|]; discriminate].
  destruct (id_bytes _); [|injection E as <- _ _; destruct q as [[]|]; discriminate].
  destruct (mem_str _ _); [injection E as <- _ _; destruct q as [[]|]; discriminate|].
  destruct (get _ _) as [[|r]|]; injection E as <- <- <-; try discriminate; injection H as <- <-; auto.
Qed.
End Ack.

(* ---- the residual class (open finding): classifier and witness ---- *)
(* the engine fails or the process dies inside the writer's transaction *)
Definition kv_engine_failure_after_ack (fault kill : option nat) : bool :=
  match fault, kill with None, None => false | _, _ => true end.

Definition ex_event : wevent :=
  {| w_id := repeat 97%N 64; w_pubkey := repeat 98%N 64; w_created := 100; w_kind := 1;
     w_tags := [[pys "t"; pys "x"]]; w_content := pys "hi"; w_sig := repeat 99%N 128 |}.
(* acknowledged, then the engine fails at the first mutation: nothing stored (the full statement
   "OK=true -> stored once the writer is idle" fails for fault <> None) *)
Theorem C06_kv_ack_true_stored_refuted_engine_failure :
  add_event (fun _ => true) 1000 init_db [] ex_event = (AckTrue, true, Some (OAdd ex_event)) /\
  kv_engine_failure_after_ack (Some 0%nat) None = true /\
  db_after (Some 0%nat) None 1000 init_db (OAdd ex_event) = init_db.
Proof. repeat split; vm_compute; reflexivity. Qed.
(* the same event submitted again before the writer ran: a duplicate (was acknowledged twice before 11f39ac) *)
Example C06_kv_in_flight_duplicate_example :
  let '(a1, b1, st1) := submit (fun _ => true) 1000 (mkS init_db [] []) ex_event in
  let '(a2, b2, st2) := submit (fun _ => true) 1000 st1 ex_event in
  (a1, b1, a2, b2, length (s_queue st2)) = (AckTrue, true, AckDuplicate, false, 1%nat).
Proof. vm_compute. reflexivity. Qed.
