(* C06 (LMDB half): which acknowledgements of LMDBStorage.add_event are truthful.
   The writer runs after the acknowledgement; with the admission-side checks (already stored ->
   duplicate; not storable -> refused) an acknowledged event is stored by its transaction unless the
   ENGINE fails (kv_engine_failure_after_ack) or the same id is submitted again while its first
   "add" is still queued (kv_duplicate_in_flight): these two classes are open findings. *)
From NR Require Import KVW.Thm_Common.
Open Scope list_scope. Open Scope Z_scope.

Section Ack.
Variable valid : wevent -> bool.
(* what the validator pipeline guarantees (C03: is_signed checks id = sha256 and the key formats) *)
Hypothesis valid_hex : forall w, valid w = true -> hex64 (w_id w) = true /\ hex64 (w_pubkey w) = true.

(* (d) a refusal leaves no trace: nothing is queued, nothing is broadcast *)
Theorem C06_kv_refused_no_trace now d raw b q : add_event valid now d raw = (AckRaise, b, q) -> b = false /\ q = None.
Proof.
  unfold add_event. destruct (valid _); simpl; [|intros H; injection H as <- <-; auto].
  destruct (is_ephemeral_kind _); [discriminate|]. destruct (storable _); simpl; [|intros H; injection H as <- <-; auto].
  destruct (id_bytes _); [|intros H; injection H as <- <-; auto]. destruct (get _ d) as [[|r]|]; discriminate.
Qed.
(* (e) resubmitting a stored event: answered as a duplicate, nothing queued, nothing broadcast *)
Theorem C06_kv_duplicate now d raw idb e : valid (ctor now raw) = true -> is_ephemeral_kind (w_kind (ctor now raw)) = false ->
  storable (ctor now raw) = true -> id_bytes (ctor now raw) = Some idb -> rec_at d idb = Some e ->
  add_event valid now d raw = (AckDuplicate, false, None).
Proof.
  intros V E S Hid R. unfold add_event. rewrite V, E, S, Hid. simpl. apply rec_at_some in R. rewrite R. reflexivity.
Qed.
Theorem C06_kv_duplicate_only_if_stored now d raw b q : add_event valid now d raw = (AckDuplicate, b, q) ->
  b = false /\ q = None /\ exists idb e, id_bytes (ctor now raw) = Some idb /\ rec_at d idb = Some e.
Proof.
  unfold add_event. destruct (valid _); simpl; [|discriminate]. destruct (is_ephemeral_kind _); [discriminate|].
  destruct (storable _); simpl; [|discriminate]. destruct (id_bytes _) as [idb|]; [|discriminate].
  destruct (get _ d) as [[|r]|] eqn:G; try discriminate. intros H. injection H as <- <-. split; [reflexivity|]. split; [reflexivity|].
  exists idb, r. split; [reflexivity|]. apply rec_at_some, G.
Qed.
(* (c) a valid, storable event that is not stored is never refused *)
Theorem C06_kv_valid_accepted now d raw idb : valid (ctor now raw) = true -> is_ephemeral_kind (w_kind (ctor now raw)) = false ->
  storable (ctor now raw) = true -> id_bytes (ctor now raw) = Some idb -> rec_at d idb = None ->
  add_event valid now d raw = (AckTrue, true, Some (OAdd (ctor now raw))).
Proof.
  intros V E S Hid R. unfold add_event. rewrite V, E, S, Hid. simpl. unfold rec_at in R.
  destruct (get (primary_key_of idb) d) as [[|r]|]; try reflexivity. discriminate.
Qed.

(* (b) OK=true for a non-ephemeral event: the queued "add", run by the writer on the store the
   acknowledgement was computed from, without an engine failure, commits, and the event is stored
   (with every index entry: C10) *)
Theorem C06_kv_ack_true_stored now d raw q : Inv d -> now <> 0 ->
  add_event valid now d raw = (AckTrue, true, Some q) ->
  exists w idb r d' ms, q = OAdd w /\ id_bytes w = Some idb /\
    run_op None None now d q = (d', Committed, ms) /\ encode_event w = Some r /\ rec_at d' idb = Some r /\ Inv d'.
Proof.
  intros [C K] Nz H. pose proof (add_event_op_ok valid now d raw _ _ q valid_hex Nz H) as O.
  unfold add_event in H. destruct (valid (ctor now raw)) eqn:V; simpl in H; [|discriminate].
  destruct (is_ephemeral_kind _) eqn:E; [discriminate|]. destruct (storable (ctor now raw)) eqn:S; simpl in H; [|discriminate].
  destruct (id_bytes (ctor now raw)) as [idb|] eqn:Hid; [|discriminate].
  destruct (get (primary_key_of idb) d) as [[|r0]|] eqn:G; try discriminate.
  - exfalso. eapply coh_primary_slot; eauto.
  - injection H as <-. set (w := ctor now raw) in *. simpl in O.
    assert (R : rec_at d idb = None) by (unfold rec_at; rewrite G; reflexivity).
    destruct (add_commits scan_ok_holds now w idb {| t_db := d; t_log := [] |} C K O S Hid R) as [t' Ht'].
    exists w, idb.
    assert (Hr : exists r, encode_event w = Some r /\ rec_at (t_db t') idb = Some r).
    { destruct (is_replaceable_kind (w_kind w) || is_param_replaceable_kind (w_kind w)) eqn:Kd.
      - destruct (add_replaceable scan_ok_holds None now w idb {| t_db := d; t_log := [] |} t' C O Hid R Kd Ht') as [r [Er [_ [Rn _]]]]. eauto.
      - destruct (Z.eq_dec (w_kind w) 5) as [K5|K5].
        + destruct (add_deletion scan_ok_holds None now w idb {| t_db := d; t_log := [] |} t' C O Hid R K5 Ht') as [r [Er [_ [Rn _]]]]. eauto.
        + destruct (add_plain None now w idb {| t_db := d; t_log := [] |} t' C O Hid R Kd K5 Ht') as [r [Er [_ [Rn _]]]]. eauto. }
    destruct Hr as [r [Er Rn]]. exists r, (t_db t'), (rev (t_log t')).
    split; [reflexivity|]. split; [exact Hid|]. split; [unfold run_op; rewrite Ht'; reflexivity|]. split; [exact Er|]. split; [exact Rn|].
    pose proof (inv_step d (mkStep None None now (OAdd w)) (conj C K) O) as I'.
    unfold run_step, db_after, run_op in I'. cbn [s_fault s_kill s_now s_op] in I'. rewrite Ht' in I'. exact I'.
Qed.
End Ack.

(* ---- the residual classes (open findings) on a concrete event ---- *)
Definition ex_event : wevent :=
  {| w_id := repeat 97%N 64; w_pubkey := repeat 98%N 64; w_created := 100; w_kind := 1;
     w_tags := [[pys "t"; pys "x"]]; w_content := pys "hi"; w_sig := repeat 99%N 128 |}.

(* kv_engine_failure_after_ack: acknowledged, then the engine fails at the first mutation: nothing stored *)
Theorem C06_kv_ack_true_stored_refuted_engine_failure :
  add_event (fun _ => true) 1000 init_db ex_event = (AckTrue, true, Some (OAdd ex_event)) /\
  db_after (Some 0%nat) None 1000 init_db (OAdd ex_event) = init_db.
Proof. split; vm_compute; reflexivity. Qed.
(* kv_duplicate_in_flight: the same event submitted again before the writer ran: acknowledged true and broadcast twice *)
Theorem C06_kv_duplicate_refuted_in_flight :
  add_event (fun _ => true) 1000 init_db ex_event = (AckTrue, true, Some (OAdd ex_event)) /\
  (* second submission, writer still idle on the same store *)
  add_event (fun _ => true) 1000 init_db ex_event = (AckTrue, true, Some (OAdd ex_event)) /\
  (* the writer then stores it once: the second queued add is skipped *)
  let d1 := db_after None None 1000 init_db (OAdd ex_event) in
  db_after None None 1000 d1 (OAdd ex_event) = d1.
Proof. repeat split; vm_compute; reflexivity. Qed.
