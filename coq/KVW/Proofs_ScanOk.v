(* Discharges the premise ScanOk of KVW.Proofs_ScanUse / Proofs_PostSave with kvquery's theorem
   KVM.Proofs_Coherent.coherent_scanner_correct (index_scanner = scan_spec on coherent stores). *)
From NR Require Import Lib.Base Lib.Nip01 KVM.Engine KVM.Keys KVM.Scan KVM.ScanSpec KVM.Proofs_Scan KVM.Proofs_Coherent
     KVW.Types KVW.Entries KVW.Proofs_Coherent KVW.Proofs_Run KVW.Proofs_ScanUse.
From Coq Require Import Sorting.Sorted.
Open Scope list_scope.

Theorem scan_ok_holds : ScanOk.
Proof.
  intros d i m until C [k Ek] Ni.
  apply coherent_scanner_correct; [apply coh_implies_Coherent, C|].
  intros cms H. cbn [map compile] in H. rewrite Ek in H. cbn [compile option_map] in H. injection H as <-.
  split; [left; discriminate|]. intros E. contradiction.
Qed.
