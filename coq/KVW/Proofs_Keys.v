(* Shapes of the keys an event occupies: hex round trips, first byte of every index entry,
   the id in the last 32 bytes, agreement of sec_keys with KVM.Coherent.index_entries. *)
From NR Require Import Lib.Base Lib.BaseFacts Lib.Nip01 KVM.Engine KVM.Keys KVW.Types KVW.Entries.
From Coq Require Import ZifyBool.
Open Scope list_scope.

(* ---------------- hex ---------------- *)
Lemma lower_hex_char c : is_lower_hex_char c = true ->
  is_ascii_ws c = false /\ exists x, hexval c = Some x /\ (x < 16)%N /\ hexdigit x = c.
Proof.
  unfold is_lower_hex_char, is_ascii_ws, hexval, hexdigit. intros H.
  split; [lia|].
  destruct ((48 <=? c)%N && (c <=? 57)%N) eqn:E1.
  - exists (c - 48)%N. split; [reflexivity|]. split; [lia|].
    destruct (c - 48 <? 10)%N eqn:E; lia.
  - destruct ((97 <=? c)%N && (c <=? 102)%N) eqn:E2; [|lia].
    exists (c - 87)%N. split; [reflexivity|]. split; [lia|].
    destruct (c - 87 <? 10)%N eqn:E; lia.
Qed.

Lemma hex_pair (x y : N) : (x < 16)%N -> (y < 16)%N -> hex_of_byte (x * 16 + y)%N = [hexdigit x; hexdigit y].
Proof.
  intros Hx Hy. unfold hex_of_byte.
  assert ((x * 16 + y) / 16 = x)%N as -> by (symmetry; apply (N.div_unique _ 16 x y); lia).
  assert ((x * 16 + y) mod 16 = y)%N as -> by (symmetry; apply (N.mod_unique _ 16 x y); lia).
  reflexivity.
Qed.

(* a lower-case hex string of 2n digits decodes to n bytes whose hex is the string again *)
Lemma py_fromhex_lower n : forall s, length s = (2 * n)%nat -> is_lower_hex s = true ->
  exists b, py_fromhex s = Some b /\ length b = n /\ hex_of_bytes b = s /\ Forall (fun x => (x < 256)%N) b.
Proof.
  induction n as [|n IH]; intros s L H.
  - destruct s; [|discriminate]. exists []. repeat split; constructor.
  - destruct s as [|a [|b r]]; try (simpl in L; lia).
    simpl in H. apply andb_true_iff in H. destruct H as [Ha H]. apply andb_true_iff in H. destruct H as [Hb Hr].
    destruct (lower_hex_char a Ha) as [Wa [x [Ex [Lx Dx]]]].
    destruct (lower_hex_char b Hb) as [Wb [y [Ey [Ly Dy]]]].
    destruct (IH r) as [t [Et [Lt [Ht Ft]]]]; [simpl in L; lia | exact Hr |].
    exists ((x * 16 + y)%N :: t). split; [|split; [|split]].
    + simpl. rewrite Wa, Ex, Ey, Et. reflexivity.
    + simpl. lia.
    + change (hex_of_byte (x * 16 + y)%N ++ hex_of_bytes t = a :: b :: r).
      rewrite hex_pair by assumption. rewrite Dx, Dy, Ht. reflexivity.
    + constructor; [lia|exact Ft].
Qed.

Lemma hex64_bytes s : hex64 s = true ->
  exists b, py_fromhex s = Some b /\ length b = 32%nat /\ hex_of_bytes b = s.
Proof.
  unfold hex64. intros H. apply andb_true_iff in H. destruct H as [L H]. apply Nat.eqb_eq in L.
  destruct (py_fromhex_lower 32 s L H) as [b [A [B [C _]]]]. eauto.
Qed.
Lemma bytes_from_hex_strict s b : py_fromhex s = Some b -> bytes_from_hex s = Some b.
Proof. unfold bytes_from_hex. intros ->. reflexivity. Qed.

(* ---------------- shapes ---------------- *)
Definition sec_prefix (p : byte) : Prop := p = 1%N \/ p = 2%N \/ p = 3%N \/ p = 4%N \/ p = 9%N.

Lemma to_key_head i m k : to_key i m = KKey k -> exists rest, k = idx_prefix i :: rest.
Proof.
  unfold to_key. destruct i, m; try discriminate;
    repeat match goal with
           | |- context [match ?x with _ => _ end] => destruct x; try discriminate
           end; intros H; injection H as <-; eauto.
Qed.

Lemma all_keys_In l ks k : all_keys l = Some ks -> In k ks -> In (KKey k) l.
Proof.
  revert ks. induction l as [|kr l IH]; intros ks H Hin; simpl in H.
  - injection H as <-. destruct Hin.
  - destruct kr as [k0| |]; try discriminate. destruct (all_keys l) as [ks'|]; [|discriminate].
    injection H as <-. destruct Hin as [->|Hin]; [left; reflexivity|right; eapply IH; eauto].
Qed.

Lemma conv_head i w k : In (KKey k) (conv i w) -> i <> IxIds /\ exists rest, k = idx_prefix i :: rest.
Proof.
  destruct i; unfold conv; intros H.
  - destruct H.
  - destruct H as [H|[]]. split; [discriminate|]. exact (to_key_head IxCreated _ _ H).
  - destruct H as [H|[]]. split; [discriminate|]. exact (to_key_head IxKinds _ _ H).
  - destruct H as [H|[]]. split; [discriminate|]. exact (to_key_head IxAuthors _ _ H).
  - destruct H as [H|[]]. split; [discriminate|]. exact (to_key_head IxAuthorKinds _ _ H).
  - split; [discriminate|]. apply in_map_iff in H. destruct H as [t [E _]].
    unfold tag_key in E. destruct t as [|n [|v r]]; try discriminate. exact (to_key_head IxTags _ _ E).
Qed.

Lemma idx_entries_shape i w es k : idx_entries i w = Some es -> In k es ->
  exists idb ct km, id_bytes w = Some idb /\ be4 (w_created w) = Some ct /\ In (KKey km) (conv i w) /\
                    k = entry_key km ct idb.
Proof.
  unfold idx_entries. destruct (id_bytes w) as [idb|]; [|discriminate].
  destruct (be4 (w_created w)) as [ct|]; [|discriminate].
  destruct (all_keys (conv i w)) as [ks|] eqn:A; [|discriminate].
  intros H Hin. injection H as <-. apply in_map_iff in Hin. destruct Hin as [km [<- Hk]].
  exists idb, ct, km. repeat split; try reflexivity. eapply all_keys_In; eauto.
Qed.

Lemma concat_opt_In {A} (l : list (option (list A))) es x : concat_opt l = Some es -> In x es ->
  exists e, In (Some e) l /\ In x e.
Proof.
  revert es. induction l as [|o l IH]; intros es H Hin; simpl in H.
  - injection H as <-. destruct Hin.
  - destruct o as [e|]; [|discriminate]. destruct (concat_opt l) as [es'|]; [|discriminate].
    injection H as <-. apply in_app_or in Hin. destruct Hin as [Hin|Hin].
    + exists e. split; [left; reflexivity|exact Hin].
    + destruct (IH es' eq_refl Hin) as [e' [A1 A2]]. exists e'. split; [right; exact A1|exact A2].
Qed.

Lemma sec_keys_shape w es k : sec_keys w = Some es -> In k es ->
  exists i idb ct km, In i sec_indexes /\ id_bytes w = Some idb /\ be4 (w_created w) = Some ct /\
                      In (KKey km) (conv i w) /\ k = entry_key km ct idb.
Proof.
  unfold sec_keys. intros H Hin. destruct (concat_opt_In _ _ _ H Hin) as [e [A B]].
  apply in_map_iff in A. destruct A as [i [E Hi]].
  destruct (idx_entries_shape i w e k E B) as [idb [ct [km [X1 [X2 [X3 X4]]]]]].
  exists i, idb, ct, km. auto.
Qed.

(* first byte of an index entry *)
Lemma sec_key_head w es k : sec_keys w = Some es -> In k es -> exists p rest, k = p :: rest /\ sec_prefix p.
Proof.
  intros H Hin. destruct (sec_keys_shape w es k H Hin) as [i [idb [ct [km [Hi [_ [_ [Hc ->]]]]]]]].
  destruct (conv_head i w km Hc) as [_ [rest ->]].
  exists (idx_prefix i), (rest ++ [0%N] ++ ct ++ [0%N] ++ idb). split; [reflexivity|].
  unfold sec_prefix. simpl in Hi. destruct Hi as [<-|[<-|[<-|[<-|[<-|[]]]]]]; simpl; auto.
Qed.
Lemma sec_key_not_primary w es k idb : sec_keys w = Some es -> In k es -> k <> primary_key_of idb.
Proof.
  intros H Hin E. destruct (sec_key_head w es k H Hin) as [p [rest [-> P]]].
  unfold primary_key_of in E. injection E as -> _. unfold sec_prefix in P. lia.
Qed.
Lemma sec_key_not_tombstone w es k : sec_keys w = Some es -> In k es -> k <> tombstone.
Proof.
  intros H Hin E. destruct (sec_key_head w es k H Hin) as [p [rest [-> P]]].
  unfold tombstone in E. injection E as -> _. unfold sec_prefix in P. lia.
Qed.
Lemma primary_not_tombstone idb : primary_key_of idb <> tombstone.
Proof. unfold primary_key_of, tombstone. intros E. injection E as E. discriminate. Qed.

(* the id sits in the last 32 bytes *)
Lemma skipn_tail {A} (a e : list A) n : length e = n -> skipn (length (a ++ e) - n) (a ++ e) = e.
Proof.
  intros <-. rewrite app_length. replace (length a + length e - length e)%nat with (length a) by lia.
  rewrite skipn_app, skipn_all, Nat.sub_diag. reflexivity.
Qed.
Lemma skipn_tail5 {A} (a b c d e : list A) n : length e = n ->
  skipn (length (a ++ b ++ c ++ d ++ e) - n) (a ++ b ++ c ++ d ++ e) = e.
Proof.
  intros L. replace (a ++ b ++ c ++ d ++ e) with ((a ++ b ++ c ++ d) ++ e) by (rewrite <- !app_assoc; reflexivity).
  apply skipn_tail, L.
Qed.
Lemma tail32_entry (km ct idb : list N) : length idb = 32%nat -> tail32 (entry_key km ct idb) = idb.
Proof. intros L. exact (skipn_tail5 km [0%N] ct [0%N] idb 32 L). Qed.
Lemma sec_key_tail32 w es k (idb : list N) : sec_keys w = Some es -> In k es -> id_bytes w = Some idb -> length idb = 32%nat ->
  tail32 k = idb.
Proof.
  intros H Hin Hid L. destruct (sec_keys_shape w es k H Hin) as [i [idb' [ct [km [_ [Hid' [_ [_ ->]]]]]]]].
  rewrite Hid in Hid'. injection Hid' as <-. apply tail32_entry, L.
Qed.

(* ---------------- agreement with KVM.Coherent.index_entries ---------------- *)
Lemma all_some_app {A} (l1 l2 : list (option A)) :
  all_some (l1 ++ l2) = match all_some l1, all_some l2 with Some a, Some b => Some (a ++ b) | _, _ => None end.
Proof.
  induction l1 as [|o l1 IH]; simpl.
  - destruct (all_some l2); reflexivity.
  - destruct o; [|reflexivity]. rewrite IH. destruct (all_some l1), (all_some l2); reflexivity.
Qed.

Lemma tags_entries_agree idb ct (tags : list (list pystr)) :
  all_some (map (fun im : idx * mval => match to_key (fst im) (snd im) with KKey k => Some (entry_key k ct idb) | _ => None end)
              (flat_map (fun t => if tag_indexable t then [(IxTags, MStrStr (nth 0 t []) (nth 1 t []))] else []) tags))
  = option_map (map (fun k => entry_key k ct idb)) (all_keys (map tag_key (List.filter tag_indexable tags))).
Proof.
  induction tags as [|t tags IH]; [reflexivity|].
  cbn [flat_map List.filter]. destruct (tag_indexable t) eqn:E; [|exact IH].
  cbn [app map fst snd all_some all_keys].
  assert (Ht : to_key IxTags (MStrStr (nth 0 t []) (nth 1 t [])) = tag_key t).
  { unfold tag_indexable in E. destruct t as [|n [|v r]]; try discriminate. reflexivity. }
  rewrite Ht. destruct (tag_key t); try reflexivity.
  rewrite IH. destruct (all_keys (map tag_key (List.filter tag_indexable tags))); reflexivity.
Qed.

Lemma sec_keys_index_entries w : sec_keys w = index_entries w.
Proof.
  unfold sec_keys, index_entries, sec_indexes, index_matches. cbn [map]. unfold idx_entries.
  destruct (id_bytes w) as [idb|]; [|reflexivity].
  destruct (be4 (w_created w)) as [ct|]; [|reflexivity].
  rewrite map_app, all_some_app, tags_entries_agree.
  cbn [map fst snd conv all_keys all_some concat_opt option_map].
  destruct (to_key IxCreated (MInt (w_created w))); try reflexivity.
  destruct (to_key IxKinds (MInt (w_kind w))); try reflexivity.
  destruct (to_key IxAuthors (MStr (w_pubkey w))); try reflexivity.
  destruct (to_key IxAuthorKinds (MStrInt (w_pubkey w) (w_kind w))); try reflexivity.
  cbn [map fst snd conv all_keys all_some concat_opt option_map app].
  destruct (all_keys (map tag_key (List.filter tag_indexable (w_tags w)))); try reflexivity.
  cbn [map fst snd conv all_keys all_some concat_opt option_map app]. rewrite app_nil_r. reflexivity.
Qed.
