(* LMDB write path, part 5: the storage as add_event and the writer thread share it: the committed
   keyspace, the queue of operations acknowledged but not yet processed, and WriterThread.in_flight
   (ids of queued adds).  Submissions and writer steps interleave arbitrarily.  No proofs here. *)
From NR Require Import Lib.Base Lib.Nip01 KVM.Engine KVM.Keys KVW.Types KVW.Entries KVW.Write KVW.PostSave KVW.Gc.
Open Scope list_scope. Open Scope Z_scope.

Record sstate := mkS { s_db : kvdb; s_queue : list wop; s_inflight : list pystr }.
Definition remove_str (x : pystr) (l : list pystr) : list pystr := List.filter (fun y => negb (str_eqb x y)) l.

(* LMDBStorage.add_event: the lookups and the registration happen without an await in between *)
Definition submit (valid : wevent -> bool) (now : Z) (st : sstate) (raw : wevent) : ack * bool * sstate :=
  let '(a, b, q) := add_event valid now (s_db st) (s_inflight st) raw in
  match q with
  | Some (OAdd w) => (a, b, mkS (s_db st) (s_queue st ++ [OAdd w]) (w_id w :: s_inflight st))
  | Some op => (a, b, mkS (s_db st) (s_queue st ++ [op]) (s_inflight st))
  | None => (a, b, st)
  end.
(* LMDBStorage.delete_event / each id found by a garbage-collection pass *)
Definition enqueue_del (st : sstate) (h : pystr) : sstate := mkS (s_db st) (s_queue st ++ [ODel h]) (s_inflight st).
(* WriterThread.run: one task; after an add (committed or failed) its id is forgotten *)
Definition writer_step (fault kill : option nat) (now : Z) (st : sstate) : sstate :=
  match s_queue st with
  | [] => st
  | op :: q =>
      mkS (db_after fault kill now (s_db st) op) q
          (match op with OAdd w => remove_str (w_id w) (s_inflight st) | _ => s_inflight st end)
  end.
Definition add_ids (q : list wop) : list pystr :=
  flat_map (fun op => match op with OAdd w => [w_id w] | _ => [] end) q.
