(* LMDB write path, part 2: one write transaction as a computation over a working copy
   with a mutation log; Index.write / Index.clear of every index class, IdIndex.write,
   WriterThread._delete_event, Index.bulk_update.
   The engine raises on keys longer than 511 bytes; the harness can inject an engine
   failure at the k-th mutation of the transaction (`fault`).  No proofs in this file. *)
From NR Require Import Lib.Base Lib.Nip01 KVM.Engine KVM.Keys KVM.Scan KVW.Types KVW.Entries.
Open Scope list_scope. Open Scope Z_scope.

Inductive mut := MPut (k : bytes) (v : rec) | MDel (k : bytes).

Record tx := mkTx { t_db : kvdb; t_log : list mut }.        (* log: newest first *)
Inductive res (A : Type) := Ok (a : A) (t : tx) | Err (log : list mut).   (* Err = an exception escapes *)
Arguments Ok {A} a t. Arguments Err {A} log.
Definition M (A : Type) := tx -> res A.
Definition ret {A} (a : A) : M A := fun t => Ok a t.
Definition fail {A} : M A := fun t => Err (t_log t).
Definition bind {A B} (m : M A) (f : A -> M B) : M B :=
  fun t => match m t with Ok a t' => f a t' | Err l => Err l end.
Notation "x <- m ;; f" := (bind m (fun x => f)) (at level 61, m at next level, right associativity).
Fixpoint m_iter {A} (f : A -> M unit) (l : list A) : M unit :=
  match l with [] => ret tt | x :: r => _ <- f x ;; m_iter f r end.
Definition of_opt {A} (o : option A) : M A := match o with Some a => ret a | None => fail end.

Section Txn.
Variable fault : option nat.          (* InjectedFault at this (0-based) mutation of the transaction *)
Variable now : Z.                     (* clock seen by Event.__init__ when a record is decoded *)

Definition fault_hits (n : nat) : bool := match fault with Some k => Nat.eqb n k | None => false end.

(* txn.put / txn.delete: key size check first, then the mutation counter (fault point), then the effect *)
Definition m_put (k : bytes) (v : rec) : M unit := fun t =>
  if key_ok k then
    if fault_hits (length (t_log t)) then Err (t_log t)
    else Ok tt {| t_db := put_raw k v (t_db t); t_log := MPut k v :: t_log t |}
  else Err (t_log t).
Definition m_del (k : bytes) : M unit := fun t =>
  if key_ok k then
    if fault_hits (length (t_log t)) then Err (t_log t)
    else Ok tt {| t_db := delete_raw k (t_db t); t_log := MDel k :: t_log t |}
  else Err (t_log t).
Definition m_get (k : bytes) : M (option rec) := fun t => Ok (get k (t_db t)) t.

(* get_event_data(txn, id): the row, or None when absent (unpackb(None) -> TypeError, caught) *)
Definition m_event_data (idb : bytes) : M (option wevent) :=
  v <- m_get (primary_key_of idb) ;;
  ret (match v with Some (REvent r) => Some r | _ => None end).

(* Index.write(event, txn, operation) of the five timed indexes: id_bytes, then ctime, then one
   put/delete per key the convert() generator yields (an exception when it reaches a bad one) *)
Definition write_timed (op : bytes -> M unit) (i : idx) (w : wevent) : M unit :=
  idb <- of_opt (id_bytes w) ;;
  ct <- of_opt (be4 (w_created w)) ;;
  m_iter (fun kr => match kr with KKey k => op (entry_key k ct idb) | _ => fail end) (conv i w).
(* IdIndex.write: txn.put(to_key(event.id), encode_event(event)) / txn.delete(to_key(event.id)) *)
Definition ids_key (w : wevent) : M bytes :=
  match to_key IxIds (MStr (w_id w)) with KKey k => ret k | _ => fail end.
Definition write_index (i : idx) (w : wevent) : M unit :=
  match i with
  | IxIds => k <- ids_key w ;; r <- of_opt (encode_event w) ;; m_put k (REvent r)
  | _ => write_timed (fun k => m_put k RIndex) i w
  end.
Definition clear_index (i : idx) (w : wevent) : M unit :=
  match i with
  | IxIds => k <- ids_key w ;; m_del k
  | _ => write_timed m_del i w
  end.

(* write_indexes = [ids, created_at, kinds, authors, authorkinds, tags] *)
Definition write_indexes : list idx := IxIds :: sec_indexes.
Definition write_event (w : wevent) : M unit := m_iter (fun i => write_index i w) write_indexes.
(* _delete_event: for index in reversed(write_indexes): index.clear(event, txn) *)
Definition delete_event (w : wevent) : M unit := m_iter (fun i => clear_index i w) (rev write_indexes).
(* Index.bulk_update *)
Definition bulk_update (i : idx) (ws : list (option wevent)) : M unit :=
  m_iter (fun o => match o with Some w => write_index i w | None => ret tt end) ws.

(* Index.scanner on the transaction's current key list, events = FakeContainer(), no since *)
Definition m_scan (i : idx) (matches : list mval) (until : option Z) : M (list bytes) := fun t =>
  match index_scanner (keys (t_db t)) i matches None until (fun _ => true) with
  | SOk ids => Ok ids t
  | _ => Err (t_log t)
  end.
End Txn.
