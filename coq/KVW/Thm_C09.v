(* C09 (LMDB half): accepting a replaceable / parameterized replaceable event removes the stored
   events of the same address that are not newer, and removes nothing else. *)
From NR Require Import KVW.Thm_Common.
Open Scope list_scope. Open Scope Z_scope.

Theorem C09_kv_replace fault kill now d w idb d' ms :
  Inv d -> event_wf w -> id_bytes w = Some idb -> rec_at d idb = None ->
  is_replaceable_kind (w_kind w) || is_param_replaceable_kind (w_kind w) = true ->
  run_op fault kill now d (OAdd w) = (d', Committed, ms) ->
  Inv d' /\
  (exists r, encode_event w = Some r /\ rec_at d' idb = Some r) /\
  (* replace_removes_older (also the versions of the same second: "either way" is allowed) *)
  (forall x e, rec_at d x = Some e -> same_address e w = true -> w_created e <= w_created w -> rec_at d' x = None) /\
  (* replace_frame: whatever disappears is an older-or-equal version of the same address *)
  (forall x e, rec_at d x = Some e -> rec_at d' x = None -> same_address e w = true /\ w_created e <= w_created w) /\
  (* nothing else appears, records are never altered *)
  (forall x e, x <> idb -> rec_at d' x = Some e -> rec_at d x = Some e).
Proof.
  intros [C K] W Hid R Kd H. pose proof (inv_step d (mkStep fault kill now (OAdd w)) (conj C K) W) as I'.
  unfold run_step, db_after in I'. simpl in I'. rewrite H in I'. simpl in I'.
  destruct (run_op_committed _ _ _ _ _ _ _ H) as [t' [Hb ->]].
  destruct (add_replaceable scan_ok_holds fault now w idb {| t_db := d; t_log := [] |} t' C W Hid R Kd Hb) as [r [Er [_ [Rn [A1 [A2 A3]]]]]].
  split; [exact I'|]. split; [eauto|]. split; [exact A2|]. split; [exact A3|exact A1].
Qed.

(* the newest version of an address is never removed: what an add removes is not newer than the
   added event, which itself stays *)
Corollary C09_kv_newest_survives fault kill now d w idb d' ms x e :
  Inv d -> event_wf w -> id_bytes w = Some idb -> rec_at d idb = None ->
  is_replaceable_kind (w_kind w) || is_param_replaceable_kind (w_kind w) = true ->
  run_op fault kill now d (OAdd w) = (d', Committed, ms) ->
  rec_at d x = Some e -> w_created w < w_created e -> rec_at d' x = Some e.
Proof.
  intros I W Hid R Kd H Rx Lt.
  destruct (C09_kv_replace fault kill now d w idb d' ms I W Hid R Kd H) as [[C' _] [_ [_ [Fr App]]]].
  destruct (rec_at d' x) as [e'|] eqn:R'.
  - assert (N : x <> idb) by (intros ->; congruence). rewrite (App x e' N R') in Rx. congruence.
  - destruct (Fr x e Rx R') as [_ Le]. lia.
Qed.

(* events that are not replaceable remove nothing *)
Theorem C09_kv_regular_removes_nothing fault kill now d w idb d' ms :
  Inv d -> event_wf w -> id_bytes w = Some idb -> rec_at d idb = None ->
  is_replaceable_kind (w_kind w) || is_param_replaceable_kind (w_kind w) = false -> w_kind w <> 5 ->
  run_op fault kill now d (OAdd w) = (d', Committed, ms) ->
  forall x, x <> idb -> rec_at d' x = rec_at d x.
Proof.
  intros [C K] W Hid R Kd K5 H. destruct (run_op_committed _ _ _ _ _ _ _ H) as [t' [Hb ->]].
  destruct (add_plain fault now w idb {| t_db := d; t_log := [] |} t' C W Hid R Kd K5 Hb) as [r [_ [_ [_ A]]]]. exact A.
Qed.
