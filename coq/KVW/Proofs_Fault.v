(* C07 (LMDB): an engine failure injected at the k-th mutation of a writer transaction.
   Simulation: the run with the fault equals the run without it as long as fewer than k+1
   mutations happen, and otherwise escapes with an exception after exactly the first k. *)
From NR Require Import Lib.Base Lib.BaseFacts Lib.Nip01 KVM.Engine KVM.Keys KVM.Scan
     KVW.Types KVW.Entries KVW.Write KVW.PostSave KVW.Gc KVW.Proofs_Tx.
Open Scope list_scope.

(* the oldest k entries of a log (logs are newest first) *)
Definition cut (k : nat) (l : list mut) : list mut := skipn (length l - k) l.
Definition trunc {A} (k : nat) (r : res A) : res A :=
  match r with
  | Ok a t => if Nat.leb (length (t_log t)) k then Ok a t else Err (cut k (t_log t))
  | Err l => if Nat.leb (length l) k then Err l else Err (cut k l)
  end.
(* computations only ever extend the log *)
Definition ext {A} (m : M A) : Prop :=
  forall t, match m t with Ok _ t' => exists n, t_log t' = n ++ t_log t | Err l => exists n, l = n ++ t_log t end.
Definition sim {A} (k : nat) (mf mn : M A) : Prop :=
  ext mn /\ forall t, (length (t_log t) <= k)%nat -> mf t = trunc k (mn t).

Lemma cut_app k n l : (k <= length l)%nat -> cut k (n ++ l) = cut k l.
Proof.
  intros H. unfold cut. rewrite app_length.
  replace (length n + length l - k)%nat with (length n + (length l - k))%nat by lia.
  rewrite skipn_app. rewrite skipn_all2 by lia. simpl.
  replace (length n + (length l - k) - length n)%nat with (length l - k)%nat by lia. reflexivity.
Qed.
Lemma cut_all k l : (length l <= k)%nat -> cut k l = l.
Proof. intros H. unfold cut. replace (length l - k)%nat with 0%nat by lia. reflexivity. Qed.
Lemma cut_length k l : (k <= length l)%nat -> length (cut k l) = k.
Proof. intros H. unfold cut. rewrite skipn_length. lia. Qed.

Lemma ext_same {A} (m : M A) :
  (forall t, match m t with Ok _ t' => t_log t' = t_log t | Err l => l = t_log t end) -> ext m.
Proof. intros H t. specialize (H t). destruct (m t); exists []; simpl; assumption. Qed.
(* a computation that neither mutates nor looks at the fault *)
Lemma sim_same {A} k (m : M A) :
  (forall t, match m t with Ok _ t' => t_log t' = t_log t | Err l => l = t_log t end) -> sim k m m.
Proof.
  intros H. split; [apply ext_same, H|]. intros t L. specialize (H t). destruct (m t) as [a t'|l]; simpl.
  - rewrite H. replace (Nat.leb (length (t_log t)) k) with true by (symmetry; apply Nat.leb_le; exact L). reflexivity.
  - rewrite H. replace (Nat.leb (length (t_log t)) k) with true by (symmetry; apply Nat.leb_le; exact L). reflexivity.
Qed.
Lemma sim_ret {A} k (a : A) : sim k (ret a) (ret a).
Proof. apply sim_same. intros t. reflexivity. Qed.
Lemma sim_fail {A} k : sim k (@fail A) (@fail A).
Proof. apply sim_same. intros t. reflexivity. Qed.
Lemma sim_of_opt {A} k (o : option A) : sim k (of_opt o) (of_opt o).
Proof. destruct o; [apply sim_ret|apply sim_fail]. Qed.
Lemma sim_get k key : sim k (m_get key) (m_get key).
Proof. apply sim_same. intros t. reflexivity. Qed.
Lemma sim_scan k i ms u : sim k (m_scan i ms u) (m_scan i ms u).
Proof. apply sim_same. intros t. unfold m_scan. destruct (index_scanner _ _ _ _ _ _); reflexivity. Qed.

Lemma sim_bind {A B} k (mf mn : M A) (ff fn : A -> M B) :
  sim k mf mn -> (forall a, sim k (ff a) (fn a)) -> sim k (bind mf ff) (bind mn fn).
Proof.
  intros [E1 S1] H2. split.
  - intros t. unfold bind. specialize (E1 t). destruct (mn t) as [a t1|l]; [|exact E1].
    destruct E1 as [n1 En1]. destruct (H2 a) as [E2 _]. specialize (E2 t1).
    destruct (fn a t1) as [b t2|l2]; destruct E2 as [n2 En2]; exists (n2 ++ n1); rewrite En2, En1, app_assoc; reflexivity.
  - intros t L. unfold bind. rewrite (S1 t L). specialize (E1 t). destruct (mn t) as [a t1|l]; simpl.
    + destruct (Nat.leb (length (t_log t1)) k) eqn:E.
      * apply Nat.leb_le in E. destruct (H2 a) as [_ S2]. apply S2, E.
      * apply Nat.leb_gt in E. destruct (H2 a) as [E2 _]. specialize (E2 t1).
        destruct (fn a t1) as [b t2|l2]; destruct E2 as [n2 En2]; simpl.
        -- rewrite En2, app_length. replace (Nat.leb (length n2 + length (t_log t1)) k) with false by (symmetry; apply Nat.leb_gt; lia).
           rewrite cut_app by lia. reflexivity.
        -- rewrite En2, app_length. replace (Nat.leb (length n2 + length (t_log t1)) k) with false by (symmetry; apply Nat.leb_gt; lia).
           rewrite cut_app by lia. reflexivity.
    + destruct (Nat.leb (length l) k); reflexivity.
Qed.
Lemma sim_iter {A} k (ff fn : A -> M unit) l : (forall x, sim k (ff x) (fn x)) -> sim k (m_iter ff l) (m_iter fn l).
Proof. intros H. induction l as [|x l IH]; simpl; [apply sim_ret|]. apply sim_bind; [apply H|intros _; exact IH]. Qed.

Lemma sim_put k key v : sim k (m_put (Some k) key v) (m_put None key v).
Proof.
  split.
  - intros t. unfold m_put. destruct (key_ok key); cbn [fault_hits]; [exists [MPut key v]|exists []]; reflexivity.
  - intros t L. unfold m_put, trunc. destruct (key_ok key); cbn [fault_hits t_log].
    + change (length (MPut key v :: t_log t)) with (S (length (t_log t))).
      destruct (Nat.eqb (length (t_log t)) k) eqn:E.
      * apply Nat.eqb_eq in E. replace (Nat.leb (S (length (t_log t))) k) with false by (symmetry; apply Nat.leb_gt; lia).
        f_equal. unfold cut. change (length (MPut key v :: t_log t)) with (S (length (t_log t))).
        replace (S (length (t_log t)) - k)%nat with 1%nat by lia. reflexivity.
      * apply Nat.eqb_neq in E. replace (Nat.leb (S (length (t_log t))) k) with true by (symmetry; apply Nat.leb_le; lia). reflexivity.
    + replace (Nat.leb (length (t_log t)) k) with true by (symmetry; apply Nat.leb_le; lia). reflexivity.
Qed.
Lemma sim_del k key : sim k (m_del (Some k) key) (m_del None key).
Proof.
  split.
  - intros t. unfold m_del. destruct (key_ok key); cbn [fault_hits]; [exists [MDel key]|exists []]; reflexivity.
  - intros t L. unfold m_del, trunc. destruct (key_ok key); cbn [fault_hits t_log].
    + change (length (MDel key :: t_log t)) with (S (length (t_log t))).
      destruct (Nat.eqb (length (t_log t)) k) eqn:E.
      * apply Nat.eqb_eq in E. replace (Nat.leb (S (length (t_log t))) k) with false by (symmetry; apply Nat.leb_gt; lia).
        f_equal. unfold cut. change (length (MDel key :: t_log t)) with (S (length (t_log t))).
        replace (S (length (t_log t)) - k)%nat with 1%nat by lia. reflexivity.
      * apply Nat.eqb_neq in E. replace (Nat.leb (S (length (t_log t))) k) with true by (symmetry; apply Nat.leb_le; lia). reflexivity.
    + replace (Nat.leb (length (t_log t)) k) with true by (symmetry; apply Nat.leb_le; lia). reflexivity.
Qed.

Ltac sim_step :=
  first [ apply sim_ret | apply sim_fail | apply sim_of_opt | apply sim_get | apply sim_scan
        | apply sim_put | apply sim_del
        | apply sim_bind; [|intros ?] | apply sim_iter; intros ? ].

Lemma sim_write_timed k (opf opn : bytes -> M unit) i w :
  (forall key, sim k (opf key) (opn key)) -> sim k (write_timed opf i w) (write_timed opn i w).
Proof.
  intros H. unfold write_timed. repeat sim_step. destruct x; [apply H|apply sim_fail|apply sim_fail].
Qed.
Lemma sim_ids_key k w : sim k (ids_key w) (ids_key w).
Proof. unfold ids_key. destruct (to_key IxIds (MStr (w_id w))); [apply sim_ret|apply sim_fail|apply sim_fail]. Qed.
Lemma sim_write_index k i w : sim k (write_index (Some k) i w) (write_index None i w).
Proof.
  destruct i; simpl; try (apply sim_write_timed; intros; apply sim_put).
  apply sim_bind; [apply sim_ids_key|intros]. repeat sim_step.
Qed.
Lemma sim_clear_index k i w : sim k (clear_index (Some k) i w) (clear_index None i w).
Proof.
  destruct i; simpl; try (apply sim_write_timed; intros; apply sim_del).
  apply sim_bind; [apply sim_ids_key|intros]. apply sim_del.
Qed.
Lemma sim_write_event k w : sim k (write_event (Some k) w) (write_event None w).
Proof. unfold write_event. apply sim_iter. intros. apply sim_write_index. Qed.
Lemma sim_delete_event k w : sim k (delete_event (Some k) w) (delete_event None w).
Proof. unfold delete_event. apply sim_iter. intros. apply sim_clear_index. Qed.
Lemma sim_event_data k idb : sim k (m_event_data idb) (m_event_data idb).
Proof. unfold m_event_data. repeat sim_step. Qed.
Lemma sim_candidate k now eid : sim k (m_candidate now eid) (m_candidate now eid).
Proof. unfold m_candidate. apply sim_bind; [apply sim_event_data|intros; apply sim_ret]. Qed.

Lemma sim_post_save k now w : sim k (post_save (Some k) now w) (post_save None now w).
Proof.
  unfold post_save. destruct (_ || _).
  - unfold replace_older. apply sim_bind; [apply sim_of_opt|intros saved]. apply sim_bind; [apply sim_scan|intros ids].
    apply sim_iter. intros eid. destruct (bytes_eqb eid saved); [apply sim_ret|].
    apply sim_bind; [apply sim_candidate|intros c]. destruct c; [|apply sim_fail].
    destruct (_ && _); [apply sim_ret|apply sim_delete_event].
  - destruct (w_kind w =? 5)%Z; [|apply sim_ret].
    unfold delete_referenced. destruct (e_ref_ids w) as [|r0 rs]; [apply sim_ret|].
    apply sim_bind; [apply sim_scan|intros found]. apply sim_iter. intros eid.
    destruct (mem_bytes eid (r0 :: rs)); [|apply sim_ret].
    apply sim_bind; [apply sim_candidate|intros c]. destruct c; [apply sim_delete_event|apply sim_ret].
Qed.

Lemma sim_op_body k now op : sim k (op_body (Some k) now op) (op_body None now op).
Proof.
  destruct op as [w|h|i w|i ws]; simpl.
  - apply sim_bind; [apply sim_of_opt|intros idb]. apply sim_bind; [apply sim_event_data|intros r].
    destruct r; [apply sim_ret|]. apply sim_bind; [apply sim_write_event|intros; apply sim_post_save].
  - apply sim_bind; [apply sim_of_opt|intros idb]. apply sim_bind; [apply sim_candidate|intros c].
    destruct c; [apply sim_delete_event|apply sim_ret].
  - apply sim_bind; [apply sim_of_opt|intros idb]. apply sim_bind; [apply sim_event_data|intros r].
    destruct r; [apply sim_write_index|apply sim_ret].
  - apply sim_iter. intros o. destruct o; [|apply sim_ret].
    apply sim_bind; [apply sim_of_opt|intros idb]. apply sim_bind; [apply sim_event_data|intros r].
    destruct r; [apply sim_write_index|apply sim_ret].
Qed.

(* ---------------- statements about run_op ---------------- *)
Definition apply_mut (d : kvdb) (m : mut) : kvdb :=
  match m with MPut k v => put_raw k v d | MDel k => delete_raw k d end.
Definition apply_muts (d : kvdb) (ms : list mut) : kvdb := fold_left apply_mut ms d.

(* the working copy is the start state with the logged mutations applied, whatever the fault setting *)
Definition tracks (d0 : kvdb) (t : tx) : Prop := t_db t = apply_muts d0 (rev (t_log t)).
Definition keeps {A} (m : M A) : Prop := forall d0 t, tracks d0 t -> match m t with Ok _ t' => tracks d0 t' | Err _ => True end.
Lemma keeps_same {A} (m : M A) : (forall t, match m t with Ok _ t' => t' = t | Err _ => True end) -> keeps m.
Proof. intros H d0 t T. specialize (H t). destruct (m t); [subst; exact T|exact I]. Qed.
Lemma keeps_bind {A B} (m : M A) (f : A -> M B) : keeps m -> (forall a, keeps (f a)) -> keeps (bind m f).
Proof.
  intros K1 K2 d0 t T. unfold bind. specialize (K1 d0 t T). destruct (m t) as [a t1|]; [|exact I]. apply K2, K1.
Qed.
Lemma keeps_iter {A} (f : A -> M unit) l : (forall x, keeps (f x)) -> keeps (m_iter f l).
Proof. intros H. induction l; simpl; [apply keeps_same; intros; reflexivity|]. apply keeps_bind; auto. Qed.
Lemma keeps_put fault k v : keeps (m_put fault k v).
Proof.
  intros d0 t T. unfold m_put. destruct (key_ok k); [|exact I]. destruct (fault_hits _ _); [exact I|].
  unfold tracks in *. simpl. unfold apply_muts in *. rewrite fold_left_app. simpl. rewrite <- T. reflexivity.
Qed.
Lemma keeps_del fault k : keeps (m_del fault k).
Proof.
  intros d0 t T. unfold m_del. destruct (key_ok k); [|exact I]. destruct (fault_hits _ _); [exact I|].
  unfold tracks in *. simpl. unfold apply_muts in *. rewrite fold_left_app. simpl. rewrite <- T. reflexivity.
Qed.
Ltac keeps_step :=
  first [ apply keeps_put | apply keeps_del
        | apply keeps_bind; [|intros ?] | apply keeps_iter; intros ?
        | (apply keeps_same; intros ?; reflexivity) ].
Lemma keeps_of_opt {A} (o : option A) : keeps (of_opt o).
Proof. apply keeps_same. intros t. destruct o; reflexivity. Qed.
Lemma keeps_scan i ms u : keeps (m_scan i ms u).
Proof. apply keeps_same. intros t. unfold m_scan. destruct (index_scanner _ _ _ _ _ _); auto. Qed.
Lemma keeps_write_timed (op : bytes -> M unit) i w : (forall k, keeps (op k)) -> keeps (write_timed op i w).
Proof.
  intros H. unfold write_timed. apply keeps_bind; [apply keeps_of_opt|intros]. apply keeps_bind; [apply keeps_of_opt|intros].
  apply keeps_iter. intros kr. destruct kr; [apply H| |]; apply keeps_same; intros ?; reflexivity.
Qed.
Lemma keeps_ids_key w : keeps (ids_key w).
Proof. apply keeps_same. intros t. unfold ids_key. destruct (to_key _ _); reflexivity. Qed.
Lemma keeps_write_index fault i w : keeps (write_index fault i w).
Proof.
  destruct i; simpl; try (apply keeps_write_timed; intros; apply keeps_put).
  apply keeps_bind; [apply keeps_ids_key|intros]. apply keeps_bind; [apply keeps_of_opt|intros]. apply keeps_put.
Qed.
Lemma keeps_clear_index fault i w : keeps (clear_index fault i w).
Proof.
  destruct i; simpl; try (apply keeps_write_timed; intros; apply keeps_del).
  apply keeps_bind; [apply keeps_ids_key|intros]. apply keeps_del.
Qed.
Lemma keeps_delete_event fault w : keeps (delete_event fault w).
Proof. apply keeps_iter. intros. apply keeps_clear_index. Qed.
Lemma keeps_event_data idb : keeps (m_event_data idb).
Proof. apply keeps_same. intros t. reflexivity. Qed.
Lemma keeps_candidate now eid : keeps (m_candidate now eid).
Proof. apply keeps_same. intros t. reflexivity. Qed.
Lemma keeps_post_save fault now w : keeps (post_save fault now w).
Proof.
  unfold post_save. destruct (_ || _).
  - unfold replace_older. apply keeps_bind; [apply keeps_of_opt|intros saved]. apply keeps_bind; [apply keeps_scan|intros].
    apply keeps_iter. intros eid. destruct (bytes_eqb eid saved); [apply keeps_same; intros ?; reflexivity|].
    apply keeps_bind; [apply keeps_candidate|intros c]. destruct c; [|apply keeps_same; intros ?; reflexivity].
    destruct (_ && _); [apply keeps_same; intros ?; reflexivity|apply keeps_delete_event].
  - destruct (w_kind w =? 5)%Z; [|apply keeps_same; intros ?; reflexivity].
    unfold delete_referenced. destruct (e_ref_ids w) as [|r0 rs]; [apply keeps_same; intros ?; reflexivity|].
    apply keeps_bind; [apply keeps_scan|intros]. apply keeps_iter. intros eid.
    destruct (mem_bytes eid (r0 :: rs)); [|apply keeps_same; intros ?; reflexivity].
    apply keeps_bind; [apply keeps_candidate|intros c]. destruct c; [apply keeps_delete_event|apply keeps_same; intros ?; reflexivity].
Qed.
Lemma keeps_op_body fault now op : keeps (op_body fault now op).
Proof.
  destruct op as [w|h|i w|i ws]; simpl.
  - apply keeps_bind; [apply keeps_of_opt|intros]. apply keeps_bind; [apply keeps_event_data|intros r].
    destruct r; [apply keeps_same; intros ?; reflexivity|].
    apply keeps_bind; [apply keeps_iter; intros; apply keeps_write_index|intros; apply keeps_post_save].
  - apply keeps_bind; [apply keeps_of_opt|intros]. apply keeps_bind; [apply keeps_candidate|intros c].
    destruct c; [apply keeps_delete_event|apply keeps_same; intros ?; reflexivity].
  - apply keeps_bind; [apply keeps_of_opt|intros]. apply keeps_bind; [apply keeps_event_data|intros r].
    destruct r; [apply keeps_write_index|apply keeps_same; intros ?; reflexivity].
  - apply keeps_iter. intros o. destruct o; [|apply keeps_same; intros ?; reflexivity].
    apply keeps_bind; [apply keeps_of_opt|intros]. apply keeps_bind; [apply keeps_event_data|intros r].
    destruct r; [apply keeps_write_index|apply keeps_same; intros ?; reflexivity].
Qed.

(* (i) one operation = one transaction: the committed state is the old state with exactly the logged
   mutations applied; any other ending leaves the old state *)
Theorem single_txn fault kill now d op d' e ms : run_op fault kill now d op = (d', e, ms) ->
  match e with Committed => d' = apply_muts d ms | _ => d' = d end.
Proof.
  unfold run_op. pose proof (keeps_op_body fault now op d {| t_db := d; t_log := [] |} eq_refl) as K.
  destruct (op_body fault now op _) as [[] t'|l].
  - destruct (killed kill (t_log t')); intros H; injection H as <- <- <-; [reflexivity|exact K].
  - intros H. injection H as <- <- <-. reflexivity.
Qed.

(* (ii) engine failure at mutation k *)
Theorem fail_at_k now d op k :
  let '(d0, e0, ms0) := run_op None None now d op in
  run_op (Some k) None now d op =
    if Nat.ltb k (length ms0) then (d, Aborted, firstn k ms0) else (d0, e0, ms0).
Proof.
  unfold run_op. destruct (sim_op_body k now op) as [_ S].
  specialize (S {| t_db := d; t_log := [] |} (Nat.le_0_l k)). simpl killed. rewrite S.
  destruct (op_body None now op _) as [[] t'|l]; simpl.
  - rewrite rev_length. destruct (Nat.leb (length (t_log t')) k) eqn:E.
    + apply Nat.leb_le in E. replace (Nat.ltb k (length (t_log t'))) with false by (symmetry; apply Nat.ltb_ge; lia). reflexivity.
    + apply Nat.leb_gt in E. replace (Nat.ltb k (length (t_log t'))) with true by (symmetry; apply Nat.ltb_lt; lia).
      f_equal. unfold cut. rewrite firstn_rev. reflexivity.
  - rewrite rev_length. destruct (Nat.leb (length l) k) eqn:E.
    + apply Nat.leb_le in E. replace (Nat.ltb k (length l)) with false by (symmetry; apply Nat.ltb_ge; lia). reflexivity.
    + apply Nat.leb_gt in E. replace (Nat.ltb k (length l)) with true by (symmetry; apply Nat.ltb_lt; lia).
      f_equal. unfold cut. rewrite firstn_rev. reflexivity.
Qed.
Corollary fail_at_k_restores now d op k : (k < length (snd (run_op None None now d op)))%nat ->
  fst (fst (run_op (Some k) None now d op)) = d.
Proof.
  intros H. pose proof (fail_at_k now d op k) as F. destruct (run_op None None now d op) as [[d0 e0] ms0].
  simpl in H. rewrite F. apply Nat.ltb_lt in H. rewrite H. reflexivity.
Qed.

(* (iii) process kill at mutation k: old state or new state, old whenever the kill precedes the commit *)
Theorem kill_at_k now d op k :
  let '(d0, e0, ms0) := run_op None None now d op in
  run_op None (Some k) now d op =
    match e0 with
    | Committed => if Nat.ltb k (length ms0) then (d, Killed, ms0) else (d0, e0, ms0)
    | _ => (d0, e0, ms0)
    end.
Proof.
  unfold run_op. destruct (op_body None now op _) as [[] t'|l]; simpl; [|reflexivity].
  rewrite rev_length. destruct (Nat.ltb k (length (t_log t'))); reflexivity.
Qed.
Corollary kill_old_or_new now d op k :
  let d1 := fst (fst (run_op None (Some k) now d op)) in d1 = d \/ d1 = fst (fst (run_op None None now d op)).
Proof.
  pose proof (kill_at_k now d op k) as F. destruct (run_op None None now d op) as [[d0 e0] ms0]. simpl. rewrite F.
  destruct e0; simpl; auto. destruct (Nat.ltb k (length ms0)); simpl; auto.
Qed.
