(* C06 (LMDB): an "add" of an event that add_event found storable, whose id is not stored, commits
   when the engine does not fail: the acknowledgement OK=true is truthful.  Needs: the ids the
   scanner yields are pairwise different and all stored, so the candidate loop never raises. *)
From NR Require Import Lib.Base Lib.BaseFacts Lib.Nip01 KVM.Engine KVM.Keys KVM.Scan KVM.ScanSpec
     KVW.Types KVW.Entries KVW.Write KVW.PostSave KVW.Gc KVW.Proofs_Engine KVW.Proofs_Tx KVW.Proofs_Keys
     KVW.Proofs_Coherent KVW.Proofs_Run KVW.Proofs_ScanUse KVW.Proofs_PostSave KVW.Proofs_Progress.
From Coq Require Import ZifyBool.
Open Scope list_scope. Open Scope Z_scope.

(* ---------------- the ids of one block are pairwise different ---------------- *)
Lemma NoDup_flat_map_single {A B} (g : A -> list B) l : NoDup l ->
  (forall x, (length (g x) <= 1)%nat) ->
  (forall x y z, In x l -> In y l -> In z (g x) -> In z (g y) -> x = y) -> NoDup (flat_map g l).
Proof.
  induction 1 as [|a l Ha Hl IH]; intros H1 Hinj; simpl; [constructor|].
  assert (IH' : NoDup (flat_map g l)).
  { apply IH; [exact H1|]. intros x y z Hx Hy. apply Hinj; right; assumption. }
  specialize (H1 a). destruct (g a) as [|b [|b2 r]] eqn:E; [exact IH'| |simpl in H1; lia].
  simpl. constructor; [|exact IH']. intros Hin. apply in_flat_map in Hin. destruct Hin as [y [Hy Hb]].
  assert (a = y); [|subst; contradiction].
  apply (Hinj a y b); [left; reflexivity|right; exact Hy|rewrite E; left; reflexivity|exact Hb].
Qed.

(* the 4 bytes before the trailing 00 ++ id *)
Definition ts_of (key : list N) : list N := firstn 4 (skipn (length key - 37) key).
Lemma ts_generic {A} (a t i : list A) (z : A) : length t = 4%nat -> length i = 32%nat ->
  firstn 4 (skipn (length (a ++ [z] ++ t ++ [z] ++ i) - 37) (a ++ [z] ++ t ++ [z] ++ i)) = t.
Proof.
  intros Lc Li.
  replace (a ++ [z] ++ t ++ [z] ++ i) with ((a ++ [z]) ++ (t ++ [z] ++ i)) by (rewrite <- app_assoc; reflexivity).
  assert (E : (length ((a ++ [z]) ++ t ++ [z] ++ i) - 37 = length (a ++ [z]))%nat).
  { rewrite !app_length. simpl. lia. }
  rewrite E. rewrite skipn_app, skipn_all, Nat.sub_diag. simpl skipn. cbn [app].
  rewrite firstn_app. rewrite Lc. rewrite Nat.sub_diag, firstn_all2 by lia. simpl. apply app_nil_r.
Qed.
Lemma ts_of_entry (km ct idb : list N) : length ct = 4%nat -> length idb = 32%nat -> ts_of (entry_key km ct idb) = ct.
Proof. intros Lc Li. exact (ts_generic km ct idb 0%N Lc Li). Qed.

Lemma block_nodup d u cm p rest : Coh d -> cm = p :: rest -> sec_prefix p ->
  NoDup (spec_block (keys d) false None (Some u) (fun _ => true) cm).
Proof.
  intros C Ecm P. unfold spec_block. apply NoDup_flat_map_single.
  - apply NoDup_rev. apply sorted_NoDup. apply C.
  - intros key. destruct (entry_of cm key) as [[ts eid]|]; [|simpl; lia]. destruct (_ && _); simpl; lia.
  - intros x y z Hx Hy Hzx Hzy. apply in_rev in Hx. apply in_rev in Hy.
    destruct (entry_of cm x) as [[ts1 e1]|] eqn:E1; [|destruct Hzx]. destruct (in_window_b None (Some u) ts1 && true); [|destruct Hzx].
    destruct Hzx as [<-|[]].
    destruct (entry_of cm y) as [[ts2 e2]|] eqn:E2; [|destruct Hzy]. destruct (in_window_b None (Some u) ts2 && true); [|destruct Hzy].
    destruct Hzy as [->|[]].
    destruct (entry_of_inv _ _ _ _ E1) as [Dx [L1 Le]]. destruct (entry_of_inv _ _ _ _ E2) as [Dy [L2 _]].
    assert (Own : forall key ts, In key (keys d) -> key = entry_key cm ts e1 -> length ts = 4%nat ->
                  exists e, rec_at d e1 = Some e /\ be4 (w_created e) = Some ts).
    { intros key ts Hk Dk Lt.
      destruct (coh_entry_owner d key p (rest ++ [0%N] ++ ts ++ [0%N] ++ e1) C Hk) as [pk [e [es [G [S I]]]]].
      { rewrite Dk, Ecm. reflexivity. } { exact P. }
      destruct (stored_fields d pk e C G) as [idb [pkb [kb [ct [es' [Hid [Lid [-> [_ [_ [_ [_ [Ect [Ees _]]]]]]]]]]]]]].
      rewrite S in Ees. apply some_inj' in Ees. subst es'.
      destruct (sec_keys_shape e es key S I) as [i [idb' [ct' [km [_ [Hid' [Hct' [_ Kk]]]]]]]].
      rewrite Hid in Hid'. apply some_inj' in Hid'. subst idb'. rewrite Ect in Hct'. apply some_inj' in Hct'. subst ct'.
      assert (Lct : length ct = 4%nat) by (eapply be4_len; eauto).
      assert (T1 : tail32 key = e1) by (rewrite Dk; apply tail32_entry, Le).
      assert (T2 : tail32 key = idb) by (rewrite Kk; apply tail32_entry, Lid).
      assert (S1 : ts_of key = ts) by (rewrite Dk; apply ts_of_entry; assumption).
      assert (S2 : ts_of key = ct) by (rewrite Kk; apply ts_of_entry; assumption).
      exists e. split; [apply rec_at_some; congruence|congruence]. }
    destruct (Own x ts1 Hx Dx L1) as [ea [Ra Ta]]. destruct (Own y ts2 Hy Dy L2) as [eb [Rb Tb]].
    rewrite Ra in Rb. apply some_inj' in Rb. subst eb. rewrite Ta in Tb. apply some_inj' in Tb. subst ts2.
    rewrite Dx, Dy. reflexivity.
Qed.

Section WithScan.
Hypothesis scan_ok : ScanOk.

Lemma scan_nodup d i m until ids cm : Coh d -> to_key i m = KKey cm -> i <> IxIds ->
  index_scanner (keys d) i [m] None (Some until) (fun _ => true) = SOk ids -> NoDup ids.
Proof.
  intros C Ek Ni H. rewrite (scan_ok d i m until C (ex_intro _ _ Ek) Ni) in H.
  unfold scan_spec in H. cbn [map] in H. rewrite Ek in H. cbn [compile option_map conv_time] in H.
  destruct (be4 until) as [ub|]; [|discriminate].
  assert (H' : SOk (spec_block (keys d) false None (Some ub) (fun _ => true) cm ++ []) = SOk ids) by (destruct i; try exact H; contradiction).
  injection H' as <-. rewrite app_nil_r.
  destruct (to_key_head i m cm Ek) as [rest ->]. eapply block_nodup; [exact C|reflexivity|].
  unfold sec_prefix. destruct i; simpl; auto 10. contradiction.
Qed.

(* ---------------- the candidate loop does not raise ---------------- *)
Lemma loop_progress now skip sel on_none ids : forall t,
  NoDup ids -> Coh (t_db t) -> KOk (t_db t) ->
  (forall x, In x ids -> skip x = false -> exists c, rec_at (t_db t) x = Some c) ->
  exists t', m_iter (body None now skip sel on_none) ids t = Ok tt t'.
Proof.
  induction ids as [|x ids IH]; intros t N C K H; [eexists; reflexivity|].
  inversion N as [|? ? Nx Nr]; subst. simpl. unfold bind.
  assert (Step : exists t1, body None now skip sel on_none x t = Ok tt t1 /\ Coh (t_db t1) /\ KOk (t_db t1) /\
                            forall y, y <> x -> rec_at (t_db t1) y = rec_at (t_db t) y).
  { unfold body. destruct (skip x) eqn:Es; [exists t; auto|].
    destruct (H x (or_introl eq_refl) Es) as [c R]. unfold bind. rewrite m_candidate_eq. rewrite R. cbn [option_map].
    pose proof R as R0. apply rec_at_some in R0. destruct (coh_prim _ C _ _ R0) as [_ [_ [Nc _]]]. rewrite (decode_stored now c Nc).
    destruct (sel c); [|exists t; auto].
    destruct (delete_stored_progress (t_db t) x c t C K eq_refl R) as [t1 Ht1]. exists t1. split; [exact Ht1|].
    destruct (delete_rec None x c t t1 C R Ht1) as [C1 [_ B]]. split; [exact C1|]. split; [|exact B].
    pose proof (pres_delete_event KOk kok_del None c t K) as P. rewrite Ht1 in P. exact P. }
  destruct Step as [t1 [E [C1 [K1 Ro]]]]. rewrite E. apply IH; [exact Nr|exact C1|exact K1|].
  intros y Hy Hs. rewrite Ro; [apply H; [right; exact Hy|exact Hs]|]. intros ->. contradiction.
Qed.

(* ---------------- an acknowledged add commits ---------------- *)
Theorem add_commits now w idb t :
  Coh (t_db t) -> KOk (t_db t) -> event_wf w -> storable w = true -> id_bytes w = Some idb -> rec_at (t_db t) idb = None ->
  exists t', op_body None now (OAdd w) t = Ok tt t'.
Proof.
  intros C K W St Hid R.
  cbn [op_body]. unfold bind at 1. rewrite Hid. cbn [of_opt]. unfold ret at 1. unfold bind at 1.
  assert (Ed : m_event_data idb t = Ok None t).
  { unfold m_event_data, bind, m_get, ret. unfold rec_at in R.
    destruct (get (primary_key_of idb) (t_db t)) as [[|r]|]; try reflexivity. discriminate R. }
  rewrite Ed. unfold bind.
  destruct (write_event_progress w t St) as [t1 H1]. rewrite H1.
  destruct (write_rec None w idb t t1 C W Hid R H1) as [r [Er [C1 [R1 Roth]]]].
  pose proof (pres_write_event KOk kok_put None w t K) as K1. rewrite H1 in K1.
  destruct (write_event_ok None w t t1 (coh_sorted _ C) H1) as [_ [_ [es [_ [_ [_ [Ees _]]]]]]].
  destruct (sec_keys_ranges w es Ees) as [Rc Rk]. destruct W as [W1 [W2 W3]].
  destruct (hex64_fields _ W2) as [pkb [Epk [Lpk Xpk]]].
  unfold post_save. destruct (is_replaceable_kind (w_kind w) || is_param_replaceable_kind (w_kind w)) eqn:Kd.
  - unfold replace_older. unfold bind at 1. rewrite Hid. cbn [of_opt]. unfold ret at 1. unfold bind at 1.
    destruct (be4_some _ Rk) as [kb Ekb].
    pose proof (scan_authorkinds scan_ok (t_db t1) (w_pubkey w) (w_kind w) (w_created w) pkb kb C1 Epk Lpk Xpk Ekb) as Sc.
    assert (Ek : to_key IxAuthorKinds (MStrInt (w_pubkey w) (w_kind w)) = KKey (ak_key pkb kb)).
    { unfold to_key. rewrite (bytes_from_hex_strict _ _ Epk), Ekb. reflexivity. }
    unfold m_scan.
    destruct (index_scanner (keys (t_db t1)) IxAuthorKinds [MStrInt (w_pubkey w) (w_kind w)] None (Some (w_created w)) (fun _ => true))
      as [ids| |] eqn:Es.
    + destruct Sc as [_ Sc].
      pose proof (scan_nodup (t_db t1) _ _ _ ids _ C1 Ek ltac:(discriminate) Es) as Nd.
      rewrite (m_iter_ext _ (body None now (fun x => bytes_eqb x idb) (same_d w) fail)).
      2:{ intros eid t0. unfold body. destruct (bytes_eqb eid idb); [reflexivity|]. unfold bind.
          destruct (m_candidate now eid t0) as [[c|] tc|]; try reflexivity. unfold same_d.
          destruct (is_param_replaceable_kind (w_kind w) && negb (str_eqb (d_value (w_tags c)) (d_value (w_tags w)))); reflexivity. }
      apply loop_progress; [exact Nd|exact C1|exact K1|].
      intros x Hx _. apply Sc in Hx. destruct Hx as [e [G _]]. exists e. apply rec_at_some, G.
    + destruct (be4_some _ Rc) as [cb Ecb]. congruence.
    + destruct Sc.
  - destruct (w_kind w =? 5) eqn:K5; [|eexists; reflexivity].
    unfold delete_referenced. destruct (e_ref_ids w) as [|r0 rs]; [eexists; reflexivity|].
    pose proof (scan_authors scan_ok (t_db t1) (w_pubkey w) (w_created w - 1) pkb C1 Epk Lpk Xpk) as Sc.
    assert (Ek : to_key IxAuthors (MStr (w_pubkey w)) = KKey (au_key pkb)).
    { unfold to_key. rewrite (bytes_from_hex_strict _ _ Epk). reflexivity. }
    unfold bind at 1. unfold m_scan.
    destruct (index_scanner (keys (t_db t1)) IxAuthors [MStr (w_pubkey w)] None (Some (w_created w - 1)) (fun _ => true))
      as [ids| |] eqn:Es.
    + destruct Sc as [_ Sc].
      pose proof (scan_nodup (t_db t1) _ _ _ ids _ C1 Ek ltac:(discriminate) Es) as Nd.
      rewrite (m_iter_ext _ (body None now (fun x => negb (mem_bytes x (r0 :: rs))) (fun _ => true) (ret tt))).
      2:{ intros eid t0. unfold body. destruct (mem_bytes eid (r0 :: rs)); cbn [negb]; [|reflexivity]. unfold bind.
          destruct (m_candidate now eid t0) as [[c|] tc|]; reflexivity. }
      apply loop_progress; [exact Nd|exact C1|exact K1|].
      intros x Hx _. apply Sc in Hx. destruct Hx as [e [G _]]. exists e. apply rec_at_some, G.
    + assert (Hr : 0 <= w_created w - 1 < 4294967296) by lia. destruct (be4_some _ Hr) as [cb Ecb]. congruence.
    + destruct Sc.
Qed.
End WithScan.
