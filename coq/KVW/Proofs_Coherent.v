(* C10 (LMDB): coherence of the keyspace is an invariant of every writer operation.
   Coh is the get-based form used in the proofs; coh_implies_Coherent bridges to the
   In-based KVM.Coherent.Coherent the query-path theorems assume. *)
From NR Require Import Lib.Base Lib.BaseFacts Lib.Nip01 KVM.Engine KVM.Keys KVM.Scan
     KVW.Types KVW.Entries KVW.Write KVW.PostSave KVW.Gc KVW.Proofs_Engine KVW.Proofs_Tx KVW.Proofs_Keys.
From Coq Require Import ZifyBool.
Open Scope list_scope. Open Scope Z_scope.

(* ---------------- hex: decode (encode b) = b ---------------- *)
Lemma hexdigit_props (n : N) : (n < 16)%N ->
  is_ascii_ws (hexdigit n) = false /\ hexval (hexdigit n) = Some n.
Proof.
  intros H. unfold hexdigit, is_ascii_ws, hexval.
  destruct (n <? 10)%N eqn:E.
  - split; [lia|]. replace ((48 <=? n + 48)%N && (n + 48 <=? 57)%N) with true by lia. f_equal. lia.
  - split; [lia|]. replace ((48 <=? n + 87)%N && (n + 87 <=? 57)%N) with false by lia.
    replace ((97 <=? n + 87)%N && (n + 87 <=? 102)%N) with true by lia. f_equal. lia.
Qed.
Lemma py_fromhex_hex b : Forall (fun x => (x < 256)%N) b -> py_fromhex (hex_of_bytes b) = Some b.
Proof.
  induction 1 as [|x b Hx Hb IH]; [reflexivity|].
  change (hex_of_bytes (x :: b)) with (hexdigit (x / 16) :: hexdigit (x mod 16) :: hex_of_bytes b).
  assert (H1 : (x / 16 < 16)%N) by (apply N.div_lt_upper_bound; lia).
  assert (H2 : (x mod 16 < 16)%N) by (apply N.mod_lt; lia).
  destruct (hexdigit_props _ H1) as [W1 V1]. destruct (hexdigit_props _ H2) as [W2 V2].
  simpl. rewrite W1, V1, V2, IH. f_equal. f_equal.
  rewrite N.mul_comm. symmetry. apply N.div_mod. lia.
Qed.
Lemma hexval_lt c x : hexval c = Some x -> (x < 16)%N.
Proof.
  unfold hexval. destruct ((48 <=? c)%N && (c <=? 57)%N) eqn:E1; [intros H; injection H as <-; lia|].
  destruct ((97 <=? c)%N && (c <=? 102)%N) eqn:E2; [intros H; injection H as <-; lia|].
  destruct ((65 <=? c)%N && (c <=? 70)%N) eqn:E3; [intros H; injection H as <-; lia|discriminate].
Qed.
Lemma py_fromhex_wf_len n : forall s b, (length s <= n)%nat -> py_fromhex s = Some b -> Forall (fun x => (x < 256)%N) b.
Proof.
  induction n as [|n IH]; intros s b L H.
  - destruct s; [|simpl in L; lia]. injection H as <-. constructor.
  - destruct s as [|a r]; [injection H as <-; constructor|]. simpl in H.
    destruct (is_ascii_ws a).
    + apply (IH r); [simpl in L; lia|exact H].
    + destruct r as [|c r']; [discriminate|].
      destruct (hexval a) as [x|] eqn:Ea; [|discriminate]. destruct (hexval c) as [y|] eqn:Ec; [|discriminate].
      destruct (py_fromhex r') as [t|] eqn:Et; [|discriminate]. injection H as <-.
      constructor; [apply hexval_lt in Ea; apply hexval_lt in Ec; lia|].
      apply (IH r'); [simpl in L; lia|exact Et].
Qed.
Lemma py_fromhex_wf s b : py_fromhex s = Some b -> Forall (fun x => (x < 256)%N) b.
Proof. apply (py_fromhex_wf_len (length s)). lia. Qed.
Lemma py_fromhex_roundtrip s b : py_fromhex s = Some b -> py_fromhex (hex_of_bytes b) = Some b.
Proof. intros H. apply py_fromhex_hex. eapply py_fromhex_wf; eauto. Qed.

(* ---------------- encode / decode ---------------- *)
Lemma encode_fields w r : encode_event w = Some r ->
  exists i p s, py_fromhex (w_id w) = Some i /\ py_fromhex (w_pubkey w) = Some p /\ py_fromhex (w_sig w) = Some s /\
    r = {| w_id := hex_of_bytes i; w_pubkey := hex_of_bytes p; w_created := w_created w; w_kind := w_kind w;
           w_tags := w_tags w; w_content := w_content w; w_sig := hex_of_bytes s |}.
Proof.
  unfold encode_event. destruct (py_fromhex (w_id w)) as [i|]; [|discriminate].
  destruct (py_fromhex (w_pubkey w)) as [p|]; [|discriminate].
  destruct (py_fromhex (w_sig w)) as [s|]; [|discriminate].
  destruct (_ && _); [|discriminate]. intros H. injection H as <-. exists i, p, s. auto.
Qed.
Lemma encode_idem w r : encode_event w = Some r -> encode_event r = Some r.
Proof.
  intros H. pose proof H as H0. apply encode_fields in H. destruct H as [i [p [s [Ei [Ep [Es ->]]]]]].
  unfold encode_event in *. simpl.
  rewrite (py_fromhex_roundtrip _ _ Ei), (py_fromhex_roundtrip _ _ Ep), (py_fromhex_roundtrip _ _ Es).
  rewrite Ei, Ep, Es in H0. destruct (_ && _); [reflexivity|discriminate].
Qed.

(* what admission guarantees about an event handed to the writer: 64 lower-case hex digits for id and
   pubkey (C03), and a creation time that is not 0 (Event.__init__ replaces 0 by the clock) *)
Definition event_wf (w : wevent) : Prop := hex64 (w_id w) = true /\ hex64 (w_pubkey w) = true /\ w_created w <> 0.

Lemma encode_wf w r : event_wf w -> encode_event w = Some r ->
  w_id r = w_id w /\ w_pubkey r = w_pubkey w /\ w_created r = w_created w /\ w_kind r = w_kind w /\ w_tags r = w_tags w.
Proof.
  intros [Hi [Hp _]] H. apply encode_fields in H. destruct H as [i [p [s [Ei [Ep [Es ->]]]]]]. simpl.
  destruct (hex64_bytes _ Hi) as [i' [Ei' [_ Xi]]]. destruct (hex64_bytes _ Hp) as [p' [Ep' [_ Xp]]].
  rewrite Ei in Ei'. injection Ei' as <-. rewrite Ep in Ep'. injection Ep' as <-. auto.
Qed.
Lemma sec_keys_ext a b : w_id a = w_id b -> w_pubkey a = w_pubkey b -> w_created a = w_created b ->
  w_kind a = w_kind b -> w_tags a = w_tags b -> sec_keys a = sec_keys b.
Proof.
  intros E1 E2 E3 E4 E5. unfold sec_keys, sec_indexes, idx_entries, id_bytes. cbn [map]. unfold conv.
  rewrite E1, E2, E3, E4, E5. reflexivity.
Qed.
Lemma primary_key_ext a b : w_id a = w_id b -> primary_key a = primary_key b.
Proof. unfold primary_key, id_bytes. intros ->. reflexivity. Qed.

Lemma be4_range z b : be4 z = Some b -> 0 <= z < 4294967296.
Proof. unfold be4. destruct ((0 <=? z) && (z <? 4294967296)) eqn:E; [lia|discriminate]. Qed.
Lemma sec_keys_ranges w es : sec_keys w = Some es -> 0 <= w_created w < 4294967296 /\ 0 <= w_kind w < 4294967296.
Proof.
  unfold sec_keys, sec_indexes, idx_entries. cbn [map]. unfold conv.
  destruct (id_bytes w); [|discriminate]. destruct (be4 (w_created w)) as [ct|] eqn:E; [|discriminate].
  intros H. split; [eapply be4_range; eauto|].
  cbn [concat_opt all_keys option_map] in H.
  destruct (to_key IxCreated (MInt (w_created w))); try discriminate.
  unfold to_key at 1 in H. destruct (be4 (w_kind w)) eqn:E2; [eapply be4_range; eauto|].
  cbn [concat_opt all_keys option_map] in H. discriminate.
Qed.

(* ---------------- the invariant ---------------- *)
Definition stored_ok (e : wevent) : Prop := stored_wf e /\ w_created e <> 0 /\ encode_event e = Some e.

Record Coh (d : kvdb) : Prop := mkCoh {
  coh_sorted : Sorted d;
  coh_tomb : get tombstone d = Some RIndex;
  coh_prim : forall k e, get k d = Some (REvent e) -> primary_key e = Some k /\ stored_ok e;
  coh_sec : forall k, get k d = Some RIndex -> k = tombstone \/
      exists e pk es, get pk d = Some (REvent e) /\ sec_keys e = Some es /\ In k es;
  coh_full : forall e pk es, get pk d = Some (REvent e) -> sec_keys e = Some es ->
      forall k, In k es -> get k d = Some RIndex }.

Lemma stored_ok_id e : stored_ok e -> exists idb, id_bytes e = Some idb /\ length idb = 32%nat.
Proof.
  intros [[Hi _] _]. destruct (hex64_bytes _ Hi) as [b [A [B _]]]. exists b. split; assumption.
Qed.
Lemma coh_stored_pk d pk e : Coh d -> get pk d = Some (REvent e) ->
  exists idb, id_bytes e = Some idb /\ length idb = 32%nat /\ pk = primary_key_of idb.
Proof.
  intros C H. destruct (coh_prim d C pk e H) as [P O]. destruct (stored_ok_id e O) as [idb [A B]].
  exists idb. split; [exact A|]. split; [exact B|]. unfold primary_key in P. rewrite A in P. simpl in P. congruence.
Qed.
Lemma coh_stored_sec d pk e : Coh d -> get pk d = Some (REvent e) -> exists es, sec_keys e = Some es.
Proof.
  intros C H. destruct (coh_prim d C pk e H) as [_ [[_ [_ [_ [_ N]]]] _]].
  rewrite <- sec_keys_index_entries in N. destruct (sec_keys e); [eauto|congruence].
Qed.
(* entries of two different stored events are different keys *)
Lemma coh_disjoint d pk1 e1 es1 pk2 e2 es2 k : Coh d ->
  get pk1 d = Some (REvent e1) -> get pk2 d = Some (REvent e2) -> pk1 <> pk2 ->
  sec_keys e1 = Some es1 -> sec_keys e2 = Some es2 -> In k es1 -> In k es2 -> False.
Proof.
  intros C H1 H2 N S1 S2 I1 I2.
  destruct (coh_stored_pk d pk1 e1 C H1) as [i1 [A1 [L1 ->]]].
  destruct (coh_stored_pk d pk2 e2 C H2) as [i2 [A2 [L2 ->]]].
  pose proof (sec_key_tail32 e1 es1 k i1 S1 I1 A1 L1) as T1.
  pose proof (sec_key_tail32 e2 es2 k i2 S2 I2 A2 L2) as T2.
  apply N. congruence.
Qed.
(* a primary key position holds a record or nothing *)
Lemma coh_primary_slot d idb : Coh d -> get (primary_key_of idb) d = Some RIndex -> False.
Proof.
  intros C H. destruct (coh_sec d C _ H) as [E|[e [pk [es [_ [S I]]]]]].
  - exact (primary_not_tombstone idb E).
  - exact (sec_key_not_primary e es _ idb S I eq_refl).
Qed.
Lemma coh_ext d d' : Coh d -> Sorted d' -> (forall k, get k d' = get k d) -> Coh d'.
Proof.
  intros C S E. constructor.
  - exact S.
  - rewrite E. apply C.
  - intros k e H. rewrite E in H. apply (coh_prim d C), H.
  - intros k H. rewrite E in H. destruct (coh_sec d C k H) as [T|[e [pk [es [A [B I]]]]]]; [left; exact T|].
    right. exists e, pk, es. rewrite E. auto.
  - intros e pk es H S' k I. rewrite E in H. rewrite E. eapply (coh_full d C); eauto.
Qed.

Lemma ids_key_of_strict w idb : id_bytes w = Some idb -> ids_key_of w = Some (primary_key_of idb).
Proof.
  unfold ids_key_of, id_bytes, to_key. intros H. rewrite (bytes_from_hex_strict _ _ H). reflexivity.
Qed.
Lemma decode_stored now e : w_created e <> 0 -> decode_event now e = e.
Proof. unfold decode_event, ctor. intros H. destruct (w_created e =? 0) eqn:E; [lia|reflexivity]. Qed.

(* ---------------- write_event of a fresh id ---------------- *)
Lemma coh_write fault w idb t t' : Coh (t_db t) -> event_wf w -> id_bytes w = Some idb ->
  get (primary_key_of idb) (t_db t) = None -> write_event fault w t = Ok tt t' ->
  Coh (t_db t') /\ exists r, encode_event w = Some r /\ get (primary_key_of idb) (t_db t') = Some (REvent r).
Proof.
  intros C W Hid Hnone H. set (d := t_db t) in *. set (pk := primary_key_of idb) in *.
  destruct (write_event_ok fault w t t' (coh_sorted d C) H) as [pk' [r [es [d1 [Epk [Er [Ees [_ [_ [P1 P2]]]]]]]]]].
  rewrite (ids_key_of_strict w idb Hid) in Epk. injection Epk as <-. fold pk in P1.
  destruct (encode_wf w r W Er) as [X1 [X2 [X3 [X4 X5]]]].
  assert (Sr : sec_keys r = Some es) by (rewrite (sec_keys_ext r w X1 X2 X3 X4 X5); exact Ees).
  assert (Pr : primary_key r = Some pk).
  { rewrite (primary_key_ext r w X1). unfold primary_key. rewrite Hid. reflexivity. }
  assert (Or : stored_ok r).
  { destruct W as [W1 [W2 W3]]. split; [|split; [rewrite X3; exact W3 | eapply encode_idem; eauto]].
    destruct (sec_keys_ranges w es Ees) as [R1 R2].
    split; [rewrite X1; exact W1|]. split; [rewrite X2; exact W2|]. split; [rewrite X3; exact R1|].
    split; [rewrite X4; exact R2|]. rewrite <- sec_keys_index_entries, Sr. discriminate. }
  destruct P1 as [S1 [A1 B1]]. destruct P2 as [S2 [A2 B2]]. set (d' := t_db t') in *.
  assert (Npk : ~ In pk es) by (intros I; exact (sec_key_not_primary w es pk idb Ees I eq_refl)).
  assert (Gpk : get pk d' = Some (REvent r)) by (rewrite B2 by exact Npk; apply A1; left; reflexivity).
  assert (Gother : forall k, ~ In k es -> k <> pk -> get k d' = get k d).
  { intros k N1 N2. rewrite B2 by exact N1. apply B1. intros [E|[]]. congruence. }
  split; [|exists r; auto]. constructor.
  - exact S2.
  - rewrite Gother; [apply C | intros I; exact (sec_key_not_tombstone w es _ Ees I eq_refl) |
                     intros E; exact (primary_not_tombstone idb (eq_sym E))].
  - intros k e G. destruct (In_bytes_dec k es) as [I|I]; [rewrite (A2 k I) in G; discriminate|].
    destruct (bytes_dec k pk) as [->|N]; [rewrite Gpk in G; injection G as <-; auto|].
    rewrite (Gother k I N) in G. apply (coh_prim d C), G.
  - intros k G. destruct (In_bytes_dec k es) as [I|I]; [right; exists r, pk, es; auto|].
    destruct (bytes_dec k pk) as [->|N]; [rewrite Gpk in G; discriminate|].
    rewrite (Gother k I N) in G. destruct (coh_sec d C k G) as [T|[e [pk' [es' [A [B I']]]]]]; [left; exact T|].
    right. exists e, pk', es'. split; [|auto].
    destruct (coh_stored_pk d pk' e C A) as [i' [_ [_ ->]]].
    rewrite Gother; [exact A| intros I2; exact (sec_key_not_primary w es _ i' Ees I2 eq_refl) | ].
    intros E. fold pk in Hnone. rewrite E in A. congruence.
  - intros e pk' es' G S' k I'.
    destruct (In_bytes_dec pk' es) as [I|I]; [rewrite (A2 pk' I) in G; discriminate|].
    destruct (bytes_dec pk' pk) as [->|N].
    + rewrite Gpk in G. injection G as <-. rewrite Sr in S'. injection S' as <-. apply A2, I'.
    + rewrite (Gother pk' I N) in G. pose proof (coh_full d C e pk' es' G S' k I') as Gk.
      destruct (In_bytes_dec k es) as [Ik|Ik]; [apply A2, Ik|].
      rewrite Gother; [exact Gk|exact Ik|]. intros ->. fold pk in Hnone. congruence.
Qed.

(* ---------------- _delete_event of a stored record ---------------- *)
Lemma coh_delete fault pk c t t' : Coh (t_db t) -> get pk (t_db t) = Some (REvent c) ->
  delete_event fault c t = Ok tt t' ->
  Coh (t_db t') /\ get pk (t_db t') = None /\
  (forall k e, k <> pk -> get k (t_db t) = Some (REvent e) -> get k (t_db t') = Some (REvent e)) /\
  (forall k e, get k (t_db t') = Some (REvent e) -> get k (t_db t) = Some (REvent e)).
Proof.
  intros C G H. set (d := t_db t) in *.
  destruct (delete_event_ok fault c t t' (coh_sorted d C) H) as [pk' [es [d1 [Epk [Ees [D1 D2]]]]]].
  destruct (coh_stored_pk d pk c C G) as [idb [Hid [Lid ->]]].
  rewrite (ids_key_of_strict c idb Hid) in Epk. injection Epk as <-. set (pk := primary_key_of idb) in *.
  destruct D1 as [S1 [A1 B1]]. destruct D2 as [S2 [A2 B2]]. set (d' := t_db t') in *.
  assert (Npk : ~ In pk es) by (intros I; exact (sec_key_not_primary c es pk idb Ees I eq_refl)).
  assert (Gpk : get pk d' = None) by (apply A2; left; reflexivity).
  assert (Ges : forall k, In k es -> get k d' = None).
  { intros k I. rewrite B2; [apply A1, I|]. intros [E|[]]. apply Npk. rewrite E. exact I. }
  assert (Gother : forall k, ~ In k es -> k <> pk -> get k d' = get k d).
  { intros k N1 N2. rewrite B2; [apply B1, N1|]. intros [E|[]]. congruence. }
  assert (Gsub : forall k v, get k d' = Some v -> get k d = Some v /\ ~ In k es /\ k <> pk).
  { intros k v Gk. destruct (In_bytes_dec k es) as [I|I]; [rewrite (Ges k I) in Gk; discriminate|].
    destruct (bytes_dec k pk) as [->|N]; [rewrite Gpk in Gk; discriminate|].
    rewrite (Gother k I N) in Gk. auto. }
  assert (Gprim : forall k e, k <> pk -> get k d = Some (REvent e) -> get k d' = Some (REvent e)).
  { intros k e N Gk. rewrite Gother; [exact Gk| |exact N].
    destruct (coh_stored_pk d k e C Gk) as [i' [_ [_ ->]]]. intros I. exact (sec_key_not_primary c es _ i' Ees I eq_refl). }
  split; [|split; [exact Gpk|split; [exact Gprim|intros k e Gk; apply (Gsub k _ Gk)]]]. constructor.
  - exact S2.
  - rewrite Gother; [apply C | intros I; exact (sec_key_not_tombstone c es _ Ees I eq_refl) |
                     intros E; exact (primary_not_tombstone idb (eq_sym E))].
  - intros k e Gk. apply (coh_prim d C). apply (Gsub k _ Gk).
  - intros k Gk. destruct (Gsub k _ Gk) as [Gd [N1 N2]].
    destruct (coh_sec d C k Gd) as [T|[e [pk' [es' [A [B I']]]]]]; [left; exact T|]. right. exists e, pk', es'.
    split; [|auto]. apply Gprim; [|exact A]. intros ->. rewrite G in A. injection A as <-.
    rewrite Ees in B. injection B as <-. contradiction.
  - intros e pk' es' Gk S' k I'. destruct (Gsub pk' _ Gk) as [Gd [N1 N2]].
    pose proof (coh_full d C e pk' es' Gd S' k I') as Gk'.
    rewrite Gother; [exact Gk'| |].
    + intros I. exact (coh_disjoint d pk' e es' pk c es k C Gd G N2 S' Ees I' I).
    + intros ->. exact (sec_key_not_primary e es' _ idb S' I' eq_refl).
Qed.

(* ---------------- loops ---------------- *)
Lemma m_iter_inv {A} (I : tx -> Prop) (f : A -> M unit) l :
  (forall x t t', I t -> f x t = Ok tt t' -> I t') ->
  forall t t', I t -> m_iter f l t = Ok tt t' -> I t'.
Proof.
  intros Hf. induction l as [|x l IH]; intros t t' Ht H; simpl in H.
  - apply ret_ok in H. destruct H as [_ ->]. exact Ht.
  - apply bind_ok in H. destruct H as [[] [t1 [H1 H2]]]. eapply IH; [|exact H2]. eapply Hf; eauto.
Qed.

Lemma m_iter_inv_in {A} (I : tx -> Prop) (f : A -> M unit) l :
  (forall x t t', In x l -> I t -> f x t = Ok tt t' -> I t') ->
  forall t t', I t -> m_iter f l t = Ok tt t' -> I t'.
Proof.
  induction l as [|x l IH]; intros Hf t t' Ht H; simpl in H.
  - apply ret_ok in H. destruct H as [_ ->]. exact Ht.
  - apply bind_ok in H. destruct H as [[] [t1 [H1 H2]]]. eapply IH; [|eapply Hf; [left; reflexivity|exact Ht|exact H1]|exact H2].
    intros y ta tb Hy. apply Hf. right. exact Hy.
Qed.

Lemma m_event_data_ok idb t o t' : m_event_data idb t = Ok o t' ->
  t' = t /\ o = match get (primary_key_of idb) (t_db t) with Some (REvent r) => Some r | _ => None end.
Proof. unfold m_event_data, bind, m_get, ret. intros H. injection H as <- <-. auto. Qed.
Lemma m_candidate_ok now eid t o t' : m_candidate now eid t = Ok o t' ->
  t' = t /\ o = option_map (decode_event now)
                  match get (primary_key_of eid) (t_db t) with Some (REvent r) => Some r | _ => None end.
Proof.
  unfold m_candidate. intros H. apply bind_ok in H. destruct H as [r [t1 [H1 H2]]].
  apply m_event_data_ok in H1. destruct H1 as [-> ->]. apply ret_ok in H2. destruct H2 as [-> ->]. auto.
Qed.
(* a candidate read back from a coherent store is the stored record itself *)
Lemma coh_candidate now eid t c t' : Coh (t_db t) -> m_candidate now eid t = Ok (Some c) t' ->
  t' = t /\ get (primary_key_of eid) (t_db t) = Some (REvent c).
Proof.
  intros C H. apply m_candidate_ok in H. destruct H as [-> H]. split; [reflexivity|].
  destruct (get (primary_key_of eid) (t_db t)) as [[|r]|] eqn:G; try discriminate.
  simpl in H. injection H as ->. destruct (coh_prim _ C _ _ G) as [_ [_ [N _]]].
  rewrite (decode_stored now r N). reflexivity.
Qed.

Lemma m_scan_ok i ms u t ids t' : m_scan i ms u t = Ok ids t' -> t' = t.
Proof. unfold m_scan. destruct (index_scanner _ _ _ _ _ _); try discriminate. intros H. injection H as _ <-. reflexivity. Qed.

Lemma coh_replace_older fault now w t t' : Coh (t_db t) -> replace_older fault now w t = Ok tt t' -> Coh (t_db t').
Proof.
  intros C H. unfold replace_older in H.
  apply bind_ok in H. destruct H as [saved [t1 [H1 H]]]. apply of_opt_ok in H1. destruct H1 as [_ ->].
  apply bind_ok in H. destruct H as [ids [t2 [H2 H]]]. apply m_scan_ok in H2. subst t2.
  revert H. apply (m_iter_inv (fun t => Coh (t_db t))); [|exact C].
  intros eid ta tb Ca Hb. destruct (bytes_eqb eid saved); [apply ret_ok in Hb; destruct Hb as [_ ->]; exact Ca|].
  apply bind_ok in Hb. destruct Hb as [c [tc [Hc Hb]]]. destruct c as [c|]; [|unfold fail in Hb; discriminate].
  apply coh_candidate in Hc; [|exact Ca]. destruct Hc as [-> Gc].
  destruct (_ && _); [apply ret_ok in Hb; destruct Hb as [_ ->]; exact Ca|].
  eapply coh_delete; eauto.
Qed.
Lemma coh_delete_referenced fault now w t t' : Coh (t_db t) -> delete_referenced fault now w t = Ok tt t' -> Coh (t_db t').
Proof.
  intros C H. unfold delete_referenced in H. destruct (e_ref_ids w) as [|x xs]; [apply ret_ok in H; destruct H as [_ ->]; exact C|].
  apply bind_ok in H. destruct H as [ids [t2 [H2 H]]]. apply m_scan_ok in H2. subst t2.
  revert H. apply (m_iter_inv (fun t => Coh (t_db t))); [|exact C].
  intros eid ta tb Ca Hb. destruct (mem_bytes eid (x :: xs)); [|apply ret_ok in Hb; destruct Hb as [_ ->]; exact Ca].
  apply bind_ok in Hb. destruct Hb as [c [tc [Hc Hb]]]. destruct c as [c|].
  - apply coh_candidate in Hc; [|exact Ca]. destruct Hc as [-> Gc]. eapply coh_delete; eauto.
  - apply m_candidate_ok in Hc. destruct Hc as [-> _]. apply ret_ok in Hb. destruct Hb as [_ ->]. exact Ca.
Qed.
Lemma coh_post_save fault now w t t' : Coh (t_db t) -> post_save fault now w t = Ok tt t' -> Coh (t_db t').
Proof.
  intros C H. unfold post_save in H. destruct (_ || _).
  - eapply coh_replace_older; eauto.
  - destruct (w_kind w =? 5); [eapply coh_delete_referenced; eauto|]. apply ret_ok in H. destruct H as [_ ->]. exact C.
Qed.

(* ---------------- reindex / bulk_update ---------------- *)
(* the argument of a reindex is an event read from this store: if a record with its id is (still)
   stored, it is that record *)
Definition reindex_ok (d : kvdb) (w : wevent) : Prop :=
  forall idb r, id_bytes w = Some idb -> get (primary_key_of idb) d = Some (REvent r) -> r = w.

Lemma coh_same_puts d d' ks v : Coh d -> Puts d d' ks v -> (forall k, In k ks -> get k d = Some v) -> Coh d'.
Proof.
  intros C [S [A B]] H. apply (coh_ext d d' C S). intros k.
  destruct (In_bytes_dec k ks) as [I|I]; [rewrite (A k I), (H k I); reflexivity | apply B, I].
Qed.
Lemma idx_entries_sub i w es es_i k : In i sec_indexes -> sec_keys w = Some es -> idx_entries i w = Some es_i -> In k es_i -> In k es.
Proof.
  unfold sec_keys, sec_indexes. cbn [map]. intros Hi H Ei Hk.
  destruct (idx_entries IxCreated w) as [e1|] eqn:E1; [|discriminate].
  destruct (idx_entries IxKinds w) as [e2|] eqn:E2; [|discriminate].
  destruct (idx_entries IxAuthors w) as [e3|] eqn:E3; [|discriminate].
  destruct (idx_entries IxAuthorKinds w) as [e4|] eqn:E4; [|discriminate].
  destruct (idx_entries IxTags w) as [e5|] eqn:E5; [|discriminate].
  cbn [concat_opt option_map] in H. injection H as <-. rewrite !in_app_iff.
  simpl in Hi. destruct Hi as [<-|[<-|[<-|[<-|[<-|[]]]]]]; rewrite Ei in *;
    match goal with E : Some _ = Some _ |- _ => injection E as <- end; tauto.
Qed.
Lemma coh_write_index fault i w idb t t' : Coh (t_db t) -> id_bytes w = Some idb ->
  get (primary_key_of idb) (t_db t) = Some (REvent w) -> write_index fault i w t = Ok tt t' -> Coh (t_db t').
Proof.
  intros C Hid G H. set (d := t_db t) in *.
  destruct (coh_prim d C _ _ G) as [_ [_ [_ Enc]]].
  destruct (coh_stored_sec d _ w C G) as [es Ees].
  assert (Hi : i = IxIds \/ In i sec_indexes) by (destruct i; simpl; auto 10).
  destruct Hi as [->|Hi].
  - unfold write_index in H. apply bind_ok in H. destruct H as [pk [ta [Ha H]]]. apply ids_key_ok in Ha. destruct Ha as [Epk ->].
    apply bind_ok in H. destruct H as [r [tb [Hb H]]]. apply of_opt_ok in Hb. destruct Hb as [Er ->].
    rewrite (ids_key_of_strict w idb Hid) in Epk. injection Epk as <-. rewrite Enc in Er. injection Er as <-.
    apply m_put_ok in H. destruct H as [_ E]. rewrite E.
    eapply coh_same_puts; [exact C | apply Puts_one, C |]. intros k [<-|[]]. exact G.
  - assert (H' : write_timed (fun k => m_put fault k RIndex) i w t = Ok tt t') by (destruct i; try exact H; exfalso; simpl in Hi; intuition discriminate).
    apply write_timed_ok in H'. destruct H' as [es_i [Ei Hit]].
    apply iter_puts_ok in Hit; [|apply C]. destruct Hit as [P _].
    eapply coh_same_puts; [exact C|exact P|]. intros k Ik.
    eapply (coh_full d C w _ es G Ees). eapply idx_entries_sub; eauto.
Qed.

(* ---------------- one operation ---------------- *)
Definition op_ok (d : kvdb) (op : wop) : Prop :=
  match op with
  | OAdd w => event_wf w
  | ODel _ => True
  | OReindex _ w => reindex_ok d w
  | OBulk _ ws => forall w, In (Some w) ws -> reindex_ok d w
  end.

Lemma coh_reindex_one fault i w t t' : Coh (t_db t) -> reindex_ok (t_db t) w ->
  (idb <- of_opt (id_bytes w) ;; r <- m_event_data idb ;;
   match r with Some _ => write_index fault i w | None => ret tt end) t = Ok tt t' ->
  Coh (t_db t') /\ (forall k, get k (t_db t') = get k (t_db t)).
Proof.
  intros C R H. apply bind_ok in H. destruct H as [idb [t1 [H1 H]]]. apply of_opt_ok in H1. destruct H1 as [Hid ->].
  apply bind_ok in H. destruct H as [r [t2 [H2 H]]]. apply m_event_data_ok in H2. destruct H2 as [-> Er].
  destruct (get (primary_key_of idb) (t_db t)) as [[|r0]|] eqn:G; subst r;
    try (apply ret_ok in H; destruct H as [_ ->]; split; [exact C|reflexivity]).
  pose proof (R idb r0 Hid G) as ->.
  assert (C' : Coh (t_db t')) by (eapply coh_write_index; eauto). split; [exact C'|].
  (* a reindex rewrites what is there: recover extensional equality from the proof of coh_write_index *)
  destruct (coh_prim _ C _ _ G) as [_ [_ [_ Enc]]]. destruct (coh_stored_sec _ _ w C G) as [es Ees].
  assert (Hi : i = IxIds \/ In i sec_indexes) by (destruct i; simpl; auto 10).
  destruct Hi as [->|Hi].
  - unfold write_index in H. apply bind_ok in H. destruct H as [pk [ta [Ha H]]]. apply ids_key_ok in Ha. destruct Ha as [Epk ->].
    apply bind_ok in H. destruct H as [r [tb [Hb H]]]. apply of_opt_ok in Hb. destruct Hb as [Er ->].
    rewrite (ids_key_of_strict w idb Hid) in Epk. injection Epk as <-. rewrite Enc in Er. injection Er as <-.
    apply m_put_ok in H. destruct H as [_ E]. rewrite E. intros k.
    destruct (bytes_dec k (primary_key_of idb)) as [->|N]; [rewrite get_put_same, G; reflexivity|].
    apply get_put_other; [apply C|exact N].
  - assert (H' : write_timed (fun k => m_put fault k RIndex) i w t = Ok tt t') by (destruct i; try exact H; exfalso; simpl in Hi; intuition discriminate).
    apply write_timed_ok in H'. destruct H' as [es_i [Ei Hit]].
    apply iter_puts_ok in Hit; [|apply C]. destruct Hit as [[S [A B]] _]. intros k.
    destruct (In_bytes_dec k es_i) as [I|I]; [|apply B, I]. rewrite (A k I). symmetry.
    eapply (coh_full _ C w _ es G Ees). eapply idx_entries_sub; eauto.
Qed.

Lemma reindex_ok_ext d d' w : (forall k, get k d' = get k d) -> reindex_ok d w -> reindex_ok d' w.
Proof. intros E R idb r Hid G. rewrite E in G. eapply R; eauto. Qed.

Theorem op_body_coh fault now op t t' : Coh (t_db t) -> op_ok (t_db t) op ->
  op_body fault now op t = Ok tt t' -> Coh (t_db t').
Proof.
  intros C O H. destruct op as [w|h|i w|i ws]; simpl in H, O.
  - apply bind_ok in H. destruct H as [idb [t1 [H1 H]]]. apply of_opt_ok in H1. destruct H1 as [Hid ->].
    apply bind_ok in H. destruct H as [r [t2 [H2 H]]]. apply m_event_data_ok in H2. destruct H2 as [-> Er].
    destruct (get (primary_key_of idb) (t_db t)) as [[|r0]|] eqn:G; subst r.
    + exfalso. eapply coh_primary_slot; eauto.
    + apply ret_ok in H. destruct H as [_ ->]. exact C.
    + apply bind_ok in H. destruct H as [[] [t3 [H3 H]]].
      destruct (coh_write fault w idb t t3 C O Hid G H3) as [C3 _]. eapply coh_post_save; eauto.
  - apply bind_ok in H. destruct H as [idb [t1 [H1 H]]]. apply of_opt_ok in H1. destruct H1 as [_ ->].
    apply bind_ok in H. destruct H as [c [t2 [H2 H]]]. destruct c as [c|].
    + apply coh_candidate in H2; [|exact C]. destruct H2 as [-> G]. eapply coh_delete; eauto.
    + apply m_candidate_ok in H2. destruct H2 as [-> _]. apply ret_ok in H. destruct H as [_ ->]. exact C.
  - eapply coh_reindex_one; eauto.
  - assert (Inv : Coh (t_db t') /\ forall k, get k (t_db t') = get k (t_db t)); [|apply Inv].
    revert H. apply (m_iter_inv_in (fun t0 => Coh (t_db t0) /\ forall k, get k (t_db t0) = get k (t_db t))); [|split; [exact C|reflexivity]].
    intros o ta tb Hin [Ca Ea] Hb. destruct o as [w|]; [|apply ret_ok in Hb; destruct Hb as [_ ->]; auto].
    destruct (coh_reindex_one fault i w ta tb Ca) as [Cb Eb]; [| exact Hb |].
    + apply (reindex_ok_ext (t_db t)); [exact Ea|]. apply O. exact Hin.
    + split; [exact Cb|]. intros k. rewrite Eb. apply Ea.
Qed.
