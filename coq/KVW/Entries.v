(* LMDB write path, part 1: what one event occupies in the keyspace.
   nostr_relay/storage/kv.py: Event.id_bytes, encode_event / decode_event / get_event_data,
   the convert() generator of every index class, Index.write's entry keys.
   No proofs in this file. *)
From NR Require Import Lib.Base Lib.Nip01 KVM.Engine KVM.Keys KVW.Types.
Open Scope list_scope. Open Scope Z_scope.

Definition bytes_eqb : bytes -> bytes -> bool := list_eqb N.eqb.

(* ---- aionostr.Event.__init__: `self.created_at = created_at or int(time.time())` ---- *)
Definition ctor (now : Z) (w : wevent) : wevent :=
  if w_created w =? 0 then
    {| w_id := w_id w; w_pubkey := w_pubkey w; w_created := now; w_kind := w_kind w;
       w_tags := w_tags w; w_content := w_content w; w_sig := w_sig w |}
  else w.

(* Event.id_bytes = bytes.fromhex(self.id) (None = ValueError), primary_key_of, tag_indexable:
   KVM.Coherent *)

(* ---- encode_event: the msgpack row (VERSION, id, created_at, kind, pubkey, content, tags, sig).
   The stored value is modelled by the record decode_event rebuilds from it:
   id/pubkey/sig are bytes.hex() of the stored bytes.  None = an exception:
   bytes.fromhex (ValueError), packb integer outside [-2^63, 2^64) (OverflowError),
   str.encode of a surrogate (UnicodeEncodeError). *)
Definition msgpack_int_ok (z : Z) : bool := (-9223372036854775808 <=? z) && (z <? 18446744073709551616).
Definition utf8_ok (s : pystr) : bool := match utf8 s with Some _ => true | None => false end.
Definition encode_event (w : wevent) : option wevent :=
  match py_fromhex (w_id w), py_fromhex (w_pubkey w), py_fromhex (w_sig w) with
  | Some i, Some p, Some s =>
      if msgpack_int_ok (w_created w) && msgpack_int_ok (w_kind w) && utf8_ok (w_content w)
         && forallb (forallb utf8_ok) (w_tags w)
      then Some {| w_id := hex_of_bytes i; w_pubkey := hex_of_bytes p; w_created := w_created w;
                   w_kind := w_kind w; w_tags := w_tags w; w_content := w_content w;
                   w_sig := hex_of_bytes s |}
      else None
  | _, _, _ => None
  end.
(* decode_event: Event(id=data[1].hex(), created_at=data[2], ...) goes through the constructor again *)
Definition decode_event (now : Z) (r : wevent) : wevent := ctor now r.

(* ---- convert(): the match keys one index derives from an event, in generator order;
   a KSkip / KOverflow element is an exception raised when the generator reaches it ---- *)
Definition tag_key (t : list pystr) : kres :=
  match t with n :: v :: _ => to_key IxTags (MStrStr n v) | _ => KSkip end.
Definition conv (i : idx) (w : wevent) : list kres :=
  match i with
  | IxIds => []
  | IxCreated => [to_key IxCreated (MInt (w_created w))]
  | IxKinds => [to_key IxKinds (MInt (w_kind w))]
  | IxAuthors => [to_key IxAuthors (MStr (w_pubkey w))]
  | IxAuthorKinds => [to_key IxAuthorKinds (MStrInt (w_pubkey w) (w_kind w))]
  | IxTags => map tag_key (List.filter tag_indexable (w_tags w))
  end.

(* the five timed indexes in write order (INDEXES order; "search" is disabled) *)
Definition sec_indexes : list idx := [IxCreated; IxKinds; IxAuthors; IxAuthorKinds; IxTags].

Fixpoint all_keys (l : list kres) : option (list bytes) :=
  match l with
  | [] => Some []
  | KKey k :: r => option_map (cons k) (all_keys r)
  | _ :: _ => None
  end.
(* entry keys of one index: b"%s\x00%s\x00%s" % (key, ctime, event_id) *)
Definition idx_entries (i : idx) (w : wevent) : option (list bytes) :=
  match id_bytes w, be4 (w_created w), all_keys (conv i w) with
  | Some idb, Some ct, Some ks => Some (map (fun k => entry_key k ct idb) ks)
  | _, _, _ => None
  end.
Fixpoint concat_opt {A} (l : list (option (list A))) : option (list A) :=
  match l with
  | [] => Some []
  | Some x :: r => option_map (app x) (concat_opt r)
  | None :: _ => None
  end.
(* all secondary keys of an event, in write order; None if Index.write would raise *)
Definition sec_keys (w : wevent) : option (list bytes) :=
  concat_opt (map (fun i => idx_entries i w) sec_indexes).

(* last 32 bytes of a key: key[-32:] *)
Definition tail32 (k : bytes) : bytes := skipn (length k - 32) k.
