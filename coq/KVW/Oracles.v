(* Executable statements of the LMDB halves of C10 / C09 / C08 / C17 / C06, evaluated by the
   harness on the IMPLEMENTATION's keyspace dumps; each returns "ok" or the name of the class of
   failure.  The boolean specifications used here are the ones the theorems of KVW/Thm_*.v are
   stated with. *)
From NR Require Import Lib.Base Lib.Nip01 KVM.Engine KVM.Keys KVM.Scan KVW.Types KVW.Entries KVW.Write KVW.PostSave KVW.Gc.
Open Scope string_scope. Open Scope list_scope. Open Scope Z_scope.

Definition stored (d : kvdb) : list wevent :=
  flat_map (fun kv => match snd kv with REvent e => [e] | RIndex => [] end) d.
Definition has_id (h : pystr) (l : list wevent) : bool := existsb (fun x => str_eqb (w_id x) h) l.

(* ---------------- C10: coherence of a keyspace dump ---------------- *)
Fixpoint strictly_sorted_b (ks : list bytes) : bool :=
  match ks with
  | a :: ((b :: _) as r) => lex_ltb a b && strictly_sorted_b r
  | _ => true
  end.
Definition stored_wf_b (e : wevent) : bool :=
  hex64 (w_id e) && hex64 (w_pubkey e) && (0 <=? w_created e) && (w_created e <? 4294967296)
  && (0 <=? w_kind e) && (w_kind e <? 4294967296)
  && match index_entries e with Some _ => true | None => false end.
Definition mem_key (k : bytes) (l : list bytes) : bool := existsb (bytes_eqb k) l.
Definition entry_ok (d : kvdb) (k : bytes) (v : rec) : pystr :=
  if bytes_eqb k tombstone then pys "ok" else
  match k with
  | 0%N :: _ =>
      match v with
      | REvent e => if match primary_key e with Some pk => bytes_eqb pk k | None => false end && stored_wf_b e
                    then pys "ok" else pys "bad-primary-record"
      | RIndex => pys "bad-primary-record"
      end
  | _ =>
      match v with
      | REvent _ => pys "value-under-index-key"
      | RIndex =>
          match get (primary_key_of (tail32 k)) d with
          | Some (REvent e) =>
              match index_entries e with
              | Some es => if mem_key k es then pys "ok" else pys "entry-under-value-the-event-does-not-have"
              | None => pys "bad-primary-record"
              end
          | _ => pys "dangling-index-entry"
          end
      end
  end.
Fixpoint first_bad (l : list pystr) : pystr :=
  match l with [] => pys "ok" | x :: r => if str_eqb x (pys "ok") then first_bad r else x end.
Definition record_ok (d : kvdb) (e : wevent) : pystr :=
  match index_entries e with
  | Some es => if forallb (fun k => match get k d with Some RIndex => true | _ => false end) es
               then pys "ok" else pys "record-without-index-entry"
  | None => pys "bad-primary-record"
  end.
Definition coherent_report (d : kvdb) : pystr :=
  if negb (strictly_sorted_b (keys d)) then pys "unsorted-keys"
  else if negb (mem_key tombstone (keys d)) then pys "no-tombstone"
  else first_bad (map (fun kv => entry_ok d (fst kv) (snd kv)) d ++ map (record_ok d) (stored d)).
Definition coherent_b (d : kvdb) : bool := str_eqb (coherent_report d) (pys "ok").

(* ---------------- C09 ---------------- *)
(* events of `before` that are gone in `after` *)
Definition removed (before after : kvdb) : list wevent :=
  List.filter (fun x => negb (has_id (w_id x) (stored after))) (stored before).
Definition replace_report (before after : kvdb) (e : wevent) : pystr :=
  if has_id (w_id e) (stored before) then
    (if list_eqb str_eqb (map w_id (stored before)) (map w_id (stored after)) then pys "ok" else pys "duplicate-changed-store")
  else if negb (has_id (w_id e) (stored after)) then pys "accepted-event-not-stored"
  else if existsb (fun x => same_address x e && (w_created x <? w_created e) && has_id (w_id x) (stored after)) (stored before)
       then pys "older-version-survives"
  else if existsb (fun x => negb (same_address x e && (w_created x <=? w_created e))) (removed before after)
       then pys "unrelated-event-removed"
  else pys "ok".

(* ---------------- C08 ---------------- *)
Definition referenced (d x : wevent) : bool :=
  str_eqb (w_pubkey x) (w_pubkey d) &&
  match id_bytes x with Some b => KVM.Scan.mem_bytes b (e_ref_ids d) | None => false end.
Definition delete_report (before after : kvdb) (e : wevent) : pystr :=
  if has_id (w_id e) (stored before) then
    (if list_eqb str_eqb (map w_id (stored before)) (map w_id (stored after)) then pys "ok" else pys "duplicate-changed-store")
  else if negb (has_id (w_id e) (stored after)) then pys "accepted-event-not-stored"
  else if existsb (fun x => negb (referenced e x)) (removed before after) then pys "unreferenced-or-foreign-event-removed"
  else if existsb (fun x => referenced e x && (w_created x <? w_created e) && has_id (w_id x) (stored after)) (stored before)
       then pys "referenced-own-older-event-survives"
  else pys "ok".
(* neither replaceable nor a deletion *)
Definition plain_report (before after : kvdb) (e : wevent) : pystr :=
  if has_id (w_id e) (stored before) then
    (if list_eqb str_eqb (map w_id (stored before)) (map w_id (stored after)) then pys "ok" else pys "duplicate-changed-store")
  else if negb (has_id (w_id e) (stored after)) then pys "accepted-event-not-stored"
  else match removed before after with [] => pys "ok" | _ => pys "unrelated-event-removed" end.

(* ---------------- C17 ---------------- *)
(* some expiration tag carries a decimal timestamp earlier than `now` *)
Definition expired_at (now : Z) (e : wevent) : bool :=
  existsb (fun t => match t with
                    | n :: v :: _ => str_eqb n s_expiration &&
                                     match N_of_dec v with Some x => Z.of_N x <? now | None => false end
                    | _ => false end) (w_tags e).
Definition collectable (now : Z) (e : wevent) : bool := is_ephemeral_kind (w_kind e) || expired_at now e.
Definition gc_report (now : Z) (before after : kvdb) : pystr :=
  if existsb (fun x => collectable now x && has_id (w_id x) (stored after)) (stored before)
  then (if existsb (fun x => is_ephemeral_kind (w_kind x) && has_id (w_id x) (stored after)) (stored before)
        then pys "ephemeral-event-survives" else pys "expired-event-survives")
  else if existsb (fun x => negb (collectable now x)) (removed before after) then pys "live-event-collected"
  else if negb (forallb (fun x => has_id (w_id x) (stored before)) (stored after)) then pys "event-appeared"
  else pys "ok".

(* ---------------- C06 ---------------- *)
Definition same_db (a b : kvdb) : bool :=
  list_eqb (fun x y => bytes_eqb (fst x) (fst y) &&
                       match snd x, snd y with
                       | RIndex, RIndex => true
                       | REvent p, REvent q => wevent_eqb p q
                       | _, _ => false end) a b.
(* out: "raise" | "true" | "duplicate"; the store is observed with the writer idle, right after the
   submission; engine_fault: the harness injected an engine failure / kill into this write *)
Definition ack_report (now : Z) (out : pystr) (bcast valid engine_fault : bool) (before after : kvdb) (raw : wevent) : pystr :=
  let e := ctor now raw in
  let was := has_id (w_id e) (stored before) in
  if str_eqb out (pys "true") then
    if negb bcast then pys "acked-not-broadcast"
    else if is_ephemeral_kind (w_kind e) then (if same_db before after then pys "ok" else pys "ephemeral-event-stored")
    else if was then pys "duplicate-acked-true-and-rebroadcast"
    else if has_id (w_id e) (stored after) then pys "ok"
    else if engine_fault then pys "engine-failure-after-ack"
    else pys "acked-but-lost"
  else
    if bcast then pys "refused-but-broadcast"
    else if negb (same_db before after) then pys "refused-but-store-changed"
    else if str_eqb out (pys "duplicate") then (if was then pys "ok" else pys "fresh-event-called-duplicate")
    else if valid && (is_ephemeral_kind (w_kind e) || storable e) && negb was then pys "valid-event-refused"
    else pys "ok".

(* storage.delete_event(id): exactly that record disappears *)
Definition del_report (before after : kvdb) (h : pystr) : pystr :=
  if has_id h (stored after) then pys "deleted-event-still-stored"
  else if existsb (fun x => negb (str_eqb (w_id x) h)) (removed before after) then pys "unrelated-event-removed"
  else if negb (forallb (fun x => has_id (w_id x) (stored before)) (stored after)) then pys "event-appeared"
  else pys "ok".
(* reindex / bulk_update / get_event / an aborted or killed transaction leave the keyspace as it was *)
Definition unchanged_report (before after : kvdb) : pystr :=
  if same_db before after then pys "ok" else pys "store-changed".
