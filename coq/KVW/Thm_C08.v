(* C08 (LMDB half): a kind-5 event removes exactly the stored events of its own author that it
   references and that are older than itself; a removed event is unreachable through every
   access path (C10). *)
From NR Require Import KVW.Thm_Common.
Open Scope list_scope. Open Scope Z_scope.

Theorem C08_kv_delete fault kill now d w idb d' ms :
  Inv d -> event_wf w -> id_bytes w = Some idb -> rec_at d idb = None -> w_kind w = 5 ->
  run_op fault kill now d (OAdd w) = (d', Committed, ms) ->
  Inv d' /\
  (exists r, encode_event w = Some r /\ rec_at d' idb = Some r) /\
  (* delete_frame: only referenced events of the deleter's own pubkey, older than the deletion *)
  (forall x e, rec_at d x = Some e -> rec_at d' x = None ->
               w_pubkey e = w_pubkey w /\ In x (e_ref_ids w) /\ w_created e < w_created w) /\
  (* delete_effective *)
  (forall x e, rec_at d x = Some e -> w_pubkey e = w_pubkey w -> In x (e_ref_ids w) -> w_created e < w_created w ->
               rec_at d' x = None) /\
  (forall x e, x <> idb -> rec_at d' x = Some e -> rec_at d x = Some e).
Proof.
  intros [C K] W Hid R K5 H. pose proof (inv_step d (mkStep fault kill now (OAdd w)) (conj C K) W) as I'.
  unfold run_step, db_after in I'. simpl in I'. rewrite H in I'. simpl in I'.
  destruct (run_op_committed _ _ _ _ _ _ _ H) as [t' [Hb ->]].
  destruct (add_deletion scan_ok_holds fault now w idb {| t_db := d; t_log := [] |} t' C W Hid R K5 Hb) as [r [Er [_ [Rn [A1 [A2 A3]]]]]].
  split; [exact I'|]. split; [eauto|]. split; [exact A2|]. split; [exact A3|exact A1].
Qed.

(* deleted_unreachable: once the record is gone, no index entry names it (so no scanner can yield it)
   and get_event finds nothing *)
Theorem C08_kv_deleted_unreachable d x : Inv d -> rec_at d x = None -> length x = 32%nat ->
  (forall k, k <> tombstone -> tail32 k = x -> get k d = None) /\
  (forall now h, py_fromhex h = Some x -> get_event now d h = GNone).
Proof.
  intros [C K] R L. split.
  - intros k Nt Tk. destruct (get k d) as [[|e]|] eqn:G; [| |reflexivity].
    + exfalso. apply (found_via d k C Nt) in G. destruct G as [e [es [G _]]]. rewrite Tk in G. apply rec_at_some in G. congruence.
    + exfalso. destruct (coh_stored_pk d k e C G) as [idb [Hid [Li ->]]].
      assert (T : tail32 (primary_key_of idb) = idb).
      { unfold tail32, primary_key_of. simpl length. rewrite Li. reflexivity. }
      rewrite T in Tk. subst idb. apply rec_at_some in G. congruence.
  - intros now h Hh. unfold get_event. rewrite Hh. unfold rec_at in R.
    destruct (get (primary_key_of x) d) as [[|r]|]; try reflexivity. discriminate.
Qed.
