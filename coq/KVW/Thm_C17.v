(* C17 (LMDB half): a garbage-collection pass at time T removes exactly the stored events of an
   ephemeral kind and those carrying an expiration tag whose value is a decimal timestamp earlier
   than T - with all their index entries (C10) - and nothing else. *)
From NR Require Import KVW.Thm_Common.
Open Scope list_scope. Open Scope Z_scope.

(* what collect() finds *)
Theorem C17_kv_collect_exact d T b : Inv d ->
  (In b (gc_collect T (keys d)) <-> exists e, rec_at d b = Some e /\ collectable T e = true).
Proof. intros [C _]. apply gc_collect_spec, C. Qed.

(* the pass = the queued "del" operations, each in its own transaction (clock `now` while they run) *)
Definition gc_pass (T now : Z) (d : kvdb) : kvdb := run_dels now d (gc_collect T (keys d)).
Lemma run_dels_fold now l : forall d0,
  run_dels now d0 l = fold_left (fun d op => db_after None None now d op) (map (fun b => ODel (hex_of_bytes b)) l) d0.
Proof. induction l as [|b l IH]; intros d0; [reflexivity|]. simpl. apply IH. Qed.
Lemma gc_pass_is_gc_ops T now d :
  gc_pass T now d = fold_left (fun d op => db_after None None now d op) (gc_ops T d) d.
Proof. unfold gc_pass, gc_ops. apply run_dels_fold. Qed.

Theorem C17_kv_gc_exact T now d : Inv d ->
  Inv (gc_pass T now d) /\
  forall x, rec_at (gc_pass T now d) x =
            match rec_at d x with Some e => if collectable T e then None else Some e | None => None end.
Proof.
  intros [C K]. unfold gc_pass.
  assert (W : Forall (fun b => Forall (fun x => (x < 256)%N) b) (gc_collect T (keys d))).
  { apply Forall_forall. intros b Hb. apply (gc_collect_spec d T b C) in Hb. destruct Hb as [e [R _]].
    destruct (rec_at_id d b e C R) as [Hid _]. eapply py_fromhex_wf; eauto. }
  destruct (run_dels_spec now (gc_collect T (keys d)) d C K W) as [C' [K' R']]. split; [split; assumption|].
  intros x. rewrite R'. destruct (In_bytes_dec x (gc_collect T (keys d))) as [I|I].
  - apply (gc_collect_spec d T x C) in I. destruct I as [e [R Col]]. rewrite R, Col. reflexivity.
  - destruct (rec_at d x) as [e|] eqn:R; [|reflexivity]. destruct (collectable T e) eqn:Col; [|reflexivity].
    exfalso. apply I. apply (gc_collect_spec d T x C). eauto.
Qed.
(* gc_frame, spelled out: an event with no expiration tag, or whose expiration lies in the future or is
   not a decimal number, of a non-ephemeral kind, is kept *)
Corollary C17_kv_gc_frame T now d x e : Inv d -> rec_at d x = Some e ->
  is_ephemeral_kind (w_kind e) = false -> expired_at T e = false -> rec_at (gc_pass T now d) x = Some e.
Proof.
  intros I R K1 K2. destruct (C17_kv_gc_exact T now d I) as [_ H]. rewrite H, R. unfold collectable. rewrite K1, K2. reflexivity.
Qed.
(* ephemeral events are never queued for writing by add_event (they are only broadcast) *)
Theorem C17_kv_ephemeral_not_stored valid now d pending raw :
  is_ephemeral_kind (w_kind (ctor now raw)) = true -> valid (ctor now raw) = true ->
  add_event valid now d pending raw = (AckTrue, true, None).
Proof. intros E V. unfold add_event. rewrite V, E. reflexivity. Qed.
