(* C17 - garbage collection removes expired and ephemeral events and nothing else.
   Assembled by tools/gen_props.py from Props/SQLM.v: property theorems only
   (statement, `exact`, Print Assumptions); the proofs live in the backend model directories.
   Each backend's theorems sit in their own module so that equally named definitions of the two
   backend models cannot shadow one another. *)
From NR Require Lib.Base Lib.Nip01 SQLM.Rel SQLM.Write SQLM.Query SQLM.Text SQLM.Where SQLM.Req SQLM.Spec SQLM.Proofs_Text SQLM.Proofs_Shape SQLM.Proofs_Rel SQLM.Proofs_Write SQLM.Proofs_Gc SQLM.Proofs_Where SQLM.Proofs_Hist SQLM.Abbrev SQLM.Proofs_Const SQLM.Proofs_SaText SQLM.Thm_C09 SQLM.Thm_C08 SQLM.Thm_C17 SQLM.Thm_C07 SQLM.Thm_C06 SQLM.Thm_C01 SQLM.Thm_C12 SQLM.Thm_C02 SQLM.Thm_C11 SQLM.Run.
From NR Require Gen.SqlConst Gen.Kinds.
From Coq Require Sorting.Permutation.

(* ================= SQL backend (nostr_relay/storage/db.py) ================= *)
Module SQLM.
Import Lib.Base Lib.Nip01 SQLM.Rel SQLM.Write SQLM.Query SQLM.Text SQLM.Where SQLM.Req SQLM.Spec SQLM.Proofs_Text SQLM.Proofs_Shape SQLM.Proofs_Rel SQLM.Proofs_Write SQLM.Proofs_Gc SQLM.Proofs_Where SQLM.Proofs_Hist SQLM.Abbrev SQLM.Proofs_Const SQLM.Proofs_SaText SQLM.Thm_C09 SQLM.Thm_C08 SQLM.Thm_C17 SQLM.Thm_C07 SQLM.Thm_C06 SQLM.Thm_C01 SQLM.Thm_C12 SQLM.Thm_C02 SQLM.Thm_C11 SQLM.Run.
Import Gen.SqlConst Gen.Kinds.
Import Sorting.Permutation.
Open Scope list_scope. Open Scope Z_scope.

(* ---------------- C17 ---------------- *)
Theorem C17_sql_gc_exact : forall now h T, T <= int64_max ->
  stored (fst (collect T (run_history now h))) = List.filter (fun e => negb (may_collect T e)) (stored (run_history now h)).
Proof. exact sql_gc_exact. Qed.
Print Assumptions C17_sql_gc_exact.

Theorem C17_sql_gc_frame : forall now h T,
  Inv (fst (collect T (run_history now h))) /\
  forall r, In r (d_events (fst (collect T (run_history now h)))) -> In r (d_events (run_history now h)).
Proof. exact sql_gc_frame. Qed.
Print Assumptions C17_sql_gc_frame.

Theorem C17_sql_gc_statement : forall now h T, T <= int64_max ->
  c17_ok T (stored (run_history now h)) (stored (fst (collect T (run_history now h)))) = true.
Proof. exact sql_gc_statement. Qed.
Print Assumptions C17_sql_gc_statement.

(* ---- supporting theorems of this backend model (invariants, ties to the source, non-vacuity) ---- *)
(* primary key, TagsCoherent (tags table = the tag rows process_tags derives from the stored events), rows well-formed *)
Theorem SQLM_history_invariant : forall now h, Inv (run_history now h).
Proof. exact history_Inv. Qed.
Print Assumptions SQLM_history_invariant.

(* for an admitted event the stored form is the event itself *)
Theorem SQLM_canonical : forall e r, wf_wevent e = true -> row_of_event e = Some r -> event_of_row r = e.
Proof. exact sql_canonical. Qed.
Print Assumptions SQLM_canonical.

(* ---------------- ties to the source, re-checked against Gen/*.v on every run ---------------- *)
Theorem SQLM_gc_query_tie : lex Gen.SqlConst.gc_query = Some gc_template.
Proof. exact gc_query_tie. Qed.
Print Assumptions SQLM_gc_query_tie.

Theorem SQLM_select_text_tie : lex Gen.SqlConst.select_text = Some select_head /\ lex (Gen.SqlConst.tail_text ++ pys "5") = Some (select_tail 5).
Proof. split; [exact select_text_tie | exact tail_text_tie]. Qed.
Print Assumptions SQLM_select_text_tie.

Theorem SQLM_interpolation_lint : Gen.SqlConst.sql_interpolations_ok = true.
Proof. exact sql_interpolations_checked. Qed.
Print Assumptions SQLM_interpolation_lint.

Theorem SQLM_indexed_name_tie : forall n, indexed_name n = mem_str n Gen.SqlConst.indexed_long_names || Nat.eqb (length n) 1.
Proof. exact indexed_name_tie. Qed.
Print Assumptions SQLM_indexed_name_tie.

Theorem SQLM_kinds_tie : forall e,
  is_repl_py (w_kind e) = k_is_replaceable (vev e) /\ is_param_py (w_kind e) = k_is_paramaterized_replaceable (vev e) /\
  Write.kind_DELETE = Gen.Kinds.kind_DELETE /\ Write.kind_SET_METADATA = Gen.Kinds.kind_SET_METADATA /\
  Write.kind_CONTACTS = Gen.Kinds.kind_CONTACTS.
Proof. exact kinds_tie. Qed.
Print Assumptions SQLM_kinds_tie.

(* non-vacuity of the history-level hypotheses: a reachable, non-trivial store satisfying wf_history *)
Example SQLM_history_inhabited :
  wf_wevent (Examples.mkev "01" "aa" 10 1 [["t"; "x"]]%string) = true /\
  length (d_events (run_history Examples.now0 [Examples.mkev "01" "aa" 10 1 [["t"; "x"]]%string])) = 1%nat /\
  length (d_tags (run_history Examples.now0 [Examples.mkev "01" "aa" 10 1 [["t"; "x"]]%string])) = 1%nat.
Proof. vm_compute. repeat split; reflexivity. Qed.

End SQLM.
