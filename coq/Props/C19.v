(* C19 - no client input can crash, wedge or leak a connection, or disturb others.
   The Gallina handler is total by construction; the theorems state WHICH dispositions exist and
   what they leave behind.  That no exception escapes the real handler is carried by the tie. *)
From NR Require Import Lib.Base Lib.PyRt Lib.Nip01 Gen.Web Filt.Model Live.Model RELAY.Model RELAY.Proofs.
Open Scope Z_scope.

Theorem C19_handle_total : forall cfg st c x m lim rows prep cq add auth,
  exists st' x' d, handle_msg cfg st c x m lim rows prep cq add auth = (st', x', d).
Proof. exact handle_total. Qed.
Print Assumptions C19_handle_total.

(* a frame of the wrong shape is ignored: no state change, the connection keeps answering *)
Theorem C19_invalid_ignored : forall cfg st c x m lim rows prep cq add auth,
  validate_message m = false ->
  handle_msg cfg st c x m lim rows prep cq add auth = (st, x, DContinue).
Proof. exact invalid_message_ignored. Qed.
Print Assumptions C19_invalid_ignored.

(* when a connection ends - the client goes away or the handler closes it - nothing of it stays registered *)
Theorem C19_drop_cleans : forall st c x,
  let st' := drop_conn st c x in
  ~ In c (r_registry st') /\ exists y, get_conn c (r_conns st') = Some y /\ c_subs y = [] /\ c_open y = false.
Proof. exact drop_cleans. Qed.
Print Assumptions C19_drop_cleans.

(* REQ / CLOSE / AUTH / ignored frames of one connection never change another connection or the pending tasks *)
Theorem C19_others_untouched : forall cfg st c x m rows prep cq add auth st' x' d c',
  c' <> c -> as_str (jv_nth 0 m) <> pys "EVENT" ->
  handle_msg cfg st c x m false rows prep cq add auth = (st', x', d) ->
  get_conn c' (r_conns st') = get_conn c' (r_conns st) /\ r_pending st' = r_pending st.
Proof. exact req_close_frame_others. Qed.
Print Assumptions C19_others_untouched.

(* an EVENT message is always answered by exactly one OK frame and the connection stays open *)
Theorem C19_event_one_ok : forall cfg st c x m rows prep cq add auth st' x' d,
  validate_message m = true -> as_str (jv_nth 0 m) = pys "EVENT" -> c_open x = true ->
  handle_msg cfg st c x m false rows prep cq add auth = (st', x', d) ->
  d = DContinue /\ exists f, c_out x' = f :: c_out x /\ is_ok f = true.
Proof. exact event_one_ok. Qed.
Print Assumptions C19_event_one_ok.

(* Tie of an assumption built into the model: `emit` (a query task or a live push putting a frame on the connection's
   answer queue) is total - it never waits for room, so a row step is enabled whenever its task runs and the connection is open
   (see C13_row_step).  The translator confirms on every run that start_client creates that queue as `asyncio.Queue()` without
   a size; with a bounded queue a task can be held at `put`, which the model has no state for. *)
Theorem C19_answer_queue_tie : Gen.Web.answer_queue_unbounded = true.
Proof. vm_compute. reflexivity. Qed.
Print Assumptions C19_answer_queue_tie.

