(* C03 - only authentic events are stored, acknowledged or forwarded.
   Property theorems only; proofs are in C03/Proofs.v.  SHA-256, BIP-340 verification, the
   canonical serialization, UTF-8 encoding and int(float) are universally quantified (oracles):
   every theorem below holds for ALL functions in their place - nothing is assumed about them.
   The statements are about the repaired validators.is_signed (fix: commit in findings.d/C03.txt);
   `C03_legacy_refuted` records what the unrepaired validator (= Event.verify) let through (F08).
   The theorems are stated under "is_signed is in the configured validator list": that is the
   default of every backend (storage/base.py, db.py parse_options), but a configuration may omit it. *)
From NR Require Import Lib.Base Lib.PyRt C04.Model C03.Model C03.Spec C03.Proofs.
Open Scope list_scope. Open Scope Z_scope.

(* the repaired validator accepts exactly the authentic events *)
Theorem C03_is_signed_iff_authentic :
  forall serialize sha256 schnorr_ok utf8 ev,
  is_signed serialize sha256 schnorr_ok utf8 ev = true <-> authentic serialize sha256 schnorr_ok utf8 ev.
Proof. intros; split; [apply is_signed_authentic | apply authentic_is_signed]. Qed.
Print Assumptions C03_is_signed_iff_authentic.

(* admit_authentic: for every raw JSON value a client (or a bulk file, or the service-event
   code) hands to add_event, every clock value, every validator list containing is_signed and
   WHATEVER the backend does with a validated event (`post`: authorization, duplicate handling,
   replacement, SQL or LMDB write, fan-out): acked_true \/ stored \/ broadcast -> authentic. *)
Theorem C03_admit_authentic :
  forall serialize sha256 schnorr_ok utf8 int_of_float now validators post j,
  In (fun ev => is_signed serialize sha256 schnorr_ok utf8 ev) validators ->
  let o := add_event serialize sha256 int_of_float now validators post j in
  (acked o = true \/ stored o = true \/ broadcast o = true) ->
  exists ev, construct serialize sha256 int_of_float now j = Built ev /\ o = post ev /\
             authentic serialize sha256 schnorr_ok utf8 ev.
Proof. exact admit_authentic. Qed.
Print Assumptions C03_admit_authentic.

(* all_paths_admit: the websocket EVENT path, the bulk loader and add_service_event have no effect
   except through add_event (so C03_admit_authentic applies to each of them, on both backends) *)
Theorem C03_all_paths_admit :
  forall serialize sha256 int_of_float now validators post p,
  let o := path_outcome serialize sha256 int_of_float now validators post p in
  (acked o = true \/ stored o = true \/ broadcast o = true) ->
  exists j, o = add_event serialize sha256 int_of_float now validators post j.
Proof. exact all_paths_admit. Qed.
Print Assumptions C03_all_paths_admit.

Theorem C03_paths_authentic :
  forall serialize sha256 schnorr_ok utf8 int_of_float now validators post p,
  In (fun ev => is_signed serialize sha256 schnorr_ok utf8 ev) validators ->
  let o := path_outcome serialize sha256 int_of_float now validators post p in
  (acked o = true \/ stored o = true \/ broadcast o = true) ->
  exists ev, o = post ev /\ authentic serialize sha256 schnorr_ok utf8 ev.
Proof.
  intros serialize sha256 schnorr_ok utf8 int_of_float now validators post p Hin o H.
  destruct (all_paths_admit serialize sha256 int_of_float now validators post p H) as [j Ej].
  subst o. rewrite Ej in *. destruct (admit_authentic serialize sha256 schnorr_ok utf8 int_of_float now validators post j Hin H) as [ev [_ [E A]]].
  exists ev. split; assumption.
Qed.
Print Assumptions C03_paths_authentic.

(* what C04 needs of an admitted event: lower-case hex id/pubkey/sig, tag items strings or integers,
   non-empty id, created_at <> 0 *)
Theorem C03_admitted_is_c04_wf :
  forall serialize sha256 int_of_float now j ev w,
  construct serialize sha256 int_of_float now j = Built ev -> now <> 0 -> wf_event ev = Some w ->
  event_ok w = true /\ w_id w <> [] /\ w_created_at w <> 0.
Proof.
  intros serialize sha256 int_of_float now j ev w Hc Hn Hw. destruct (wf_event_c04 ev w Hw) as [H1 H2].
  split; [exact H1|]. split; [exact H2|].
  apply (construct_created_nonzero serialize sha256 int_of_float now j ev (w_created_at w) Hc Hn).
  apply (wf_created _ _ (wf_event_facts ev w Hw)).
Qed.
Print Assumptions C03_admitted_is_c04_wf.

(* F08 (fixed): the unrepaired validator never compared the claimed id with the recomputed hash.
   Take ANY authentic event and replace its id by ANY other well-formed id (64 zeros, another
   event's id): it passed - and it is not authentic. *)
Theorem C03_legacy_refuted :
  forall serialize sha256 schnorr_ok utf8 ev x,
  authentic serialize sha256 schnorr_ok utf8 ev -> wf_hex 64 (JStr x) = Some x -> o_id ev <> JStr x ->
  legacy_is_signed serialize sha256 schnorr_ok utf8 (set_id ev (JStr x)) = true /\
  ~ authentic serialize sha256 schnorr_ok utf8 (set_id ev (JStr x)).
Proof. exact legacy_refuted. Qed.
Print Assumptions C03_legacy_refuted.

(* Open finding (findings.d/C03.txt, class serializer-hex-case): the serializer the relay calls
   (aionostr/rapidjson) differs from JSON.stringify / json.dumps on the 9 control characters whose
   \u00XX escape contains a hex letter.  Relative to any other serializer `nip01` that agrees with
   the relay's on events free of those characters, admission is authentic for such events
   (partial, guard = clean_event = negation of the classifier) ... *)
Theorem C03_admit_authentic_nip01_partial :
  forall serialize sha256 schnorr_ok utf8 nip01 ev w,
  (forall w, clean_event w = true ->
     serialize (JStr (w_pubkey w)) (JInt (w_created_at w)) (w_kind w) (jtags (w_tags w)) (w_content w) =
     nip01 (JStr (w_pubkey w)) (JInt (w_created_at w)) (w_kind w) (jtags (w_tags w)) (w_content w)) ->
  is_signed serialize sha256 schnorr_ok utf8 ev = true -> wf_event ev = Some w -> clean_event w = true ->
  authentic nip01 sha256 schnorr_ok utf8 ev.
Proof. exact is_signed_authentic_nip01. Qed.
Print Assumptions C03_admit_authentic_nip01_partial.

(* ... and wherever the two serializations of an accepted event hash differently, the accepted
   event is NOT authentic with respect to `nip01` (the witness on the real code is replayed by
   the check: content U+001F signed over the relay's serialization) *)
Theorem C03_admit_authentic_nip01_refuted :
  forall serialize sha256 schnorr_ok utf8 nip01 ev w ser ser',
  is_signed serialize sha256 schnorr_ok utf8 ev = true -> wf_event ev = Some w ->
  serialize (JStr (w_pubkey w)) (JInt (w_created_at w)) (w_kind w) (jtags (w_tags w)) (w_content w) = Some ser ->
  nip01 (JStr (w_pubkey w)) (JInt (w_created_at w)) (w_kind w) (jtags (w_tags w)) (w_content w) = Some ser' ->
  hex_of_bytes (sha256 ser) <> hex_of_bytes (sha256 ser') ->
  ~ authentic nip01 sha256 schnorr_ok utf8 ev.
Proof. exact serializers_differ_refutes. Qed.
Print Assumptions C03_admit_authentic_nip01_refuted.

(* ---------- non-vacuity: with concrete (toy) oracles an event is admitted, a forged id is not ---------- *)
Definition toy_ser (pk ca : jv) (kd : Z) (tags : jv) (content : pystr) : option bytes := Some content.
Definition toy_sha (b : bytes) : bytes := map (fun _ => 171%N) (seq 0 32).          (* ab ab ab ... *)
Definition toy_schnorr (pk msg sg : bytes) : bool := Nat.eqb (length pk) 32 && Nat.eqb (length sg) 64.
Definition toy_utf8 (s : pystr) : option bytes := Some s.
Definition hex_ab (n : nat) : pystr := flat_map (fun _ => [97; 98]%N) (seq 0 n).
Definition toy_json (id : pystr) : jv :=
  JObj [(k_id, JStr id); (k_pubkey, JStr (hex_ab 32)); (k_created_at, JInt 1700000000); (k_kind, JInt 1);
        (k_tags, JArr [JArr [JStr (pys "t"); JStr (pys "x")]]); (k_content, JStr (pys "hi")); (k_sig, JStr (hex_ab 64))].
Definition toy_post (ev : robj) : outcome := mkOut true true true.

Example C03_ex_admitted :
  acked (add_event toy_ser toy_sha (fun _ => None) 5 [is_signed toy_ser toy_sha toy_schnorr toy_utf8] toy_post (toy_json (hex_ab 32))) = true.
Proof. vm_compute. reflexivity. Qed.

Example C03_ex_forged_id_refused :
  add_event toy_ser toy_sha (fun _ => None) 5 [is_signed toy_ser toy_sha toy_schnorr toy_utf8] toy_post
            (toy_json (flat_map (fun _ => [48]%N) (seq 0 64))) = refused.
Proof. vm_compute. reflexivity. Qed.

Example C03_ex_legacy_admitted_forged_id :
  acked (add_event toy_ser toy_sha (fun _ => None) 5 [legacy_is_signed toy_ser toy_sha toy_schnorr toy_utf8] toy_post
                   (toy_json (flat_map (fun _ => [48]%N) (seq 0 64)))) = true.
Proof. vm_compute. reflexivity. Qed.

(* ---------- tie to the source, re-checked on every run ---------- *)
(* tools/pyfrag.d/frames_c03.py translates the format check of validators.is_signed in /repo's working
   tree (Gen/IsSigned.v) and checks the shape of what follows it (claimed id == compute_id of the event's
   own fields, then verify(); exceptions refuse): the translated check implies the model's wf_event *)
From NR Require Gen.IsSigned C03.ProofsGen.
Theorem C03_source_format_check : forall ev,
  Gen.IsSigned.gen_format_ok ev = true -> exists w, wf_event ev = Some w.
Proof. exact C03.ProofsGen.gen_format_ok_wf. Qed.
Print Assumptions C03_source_format_check.

Example C03_source_compares_id : Gen.IsSigned.gen_id_compared_then_verified = true.
Proof. reflexivity. Qed.

(* the executable statement evaluated by the check on the implementation's observations (c03.holds)
   answers "ok" for an observed effect exactly when the event passes the theorem's predicate *)
From NR Require C03.Run.
Theorem C03_executable_statement : forall ser sha sch u8 ev,
  C03.Run.classify ser sha sch u8 ev = pys "ok" <-> is_signed ser sha sch u8 ev = true.
Proof. exact C03.Run.classify_ok. Qed.
Print Assumptions C03_executable_statement.

(* the validator pipeline (validators.get_validator, translated into Gen/Validators.v on every run: the configured functions are
   called in order and the first refusal ends the run): an event passes it only if EVERY configured validator passes, so is_signed
   cannot be skipped, outrun or outvoted whatever else is configured in front of it or behind it *)
From NR Require Gen.Validators.
Theorem C03_pipeline_runs_every_validator : forall (A : Type) (vs : list (A -> option pystr)) (x : A),
  Gen.Validators.run_in_order vs x = None <-> forall v, In v vs -> v x = None.
Proof.
  intros A vs x. induction vs as [|v vs IH]; simpl.
  - split; [intros _ v [] | reflexivity].
  - destruct (v x) eqn:E.
    + split; [discriminate|]. intros H. rewrite <- E. apply H. left; reflexivity.
    + rewrite IH. split.
      * intros H w [->|Hw]; [exact E|apply H; exact Hw].
      * intros H w Hw. apply H. right; exact Hw.
Qed.
Print Assumptions C03_pipeline_runs_every_validator.
