(* C08 - only an event's author can delete it (NIP-09).
   Assembled by tools/gen_props.py from Props/SQLM.v, Props/KVW.v: property theorems only
   (statement, `exact`, Print Assumptions); the proofs live in the backend model directories.
   Each backend's theorems sit in their own module so that equally named definitions of the two
   backend models cannot shadow one another. *)
From NR Require Lib.Base Lib.Nip01 SQLM.Rel SQLM.Write SQLM.Query SQLM.Text SQLM.Where SQLM.Req SQLM.Spec SQLM.Proofs_Text SQLM.Proofs_Shape SQLM.Proofs_Rel SQLM.Proofs_Write SQLM.Proofs_Gc SQLM.Proofs_Where SQLM.Proofs_Hist SQLM.Abbrev SQLM.Proofs_Const SQLM.Proofs_SaText SQLM.Thm_C09 SQLM.Thm_C08 SQLM.Thm_C17 SQLM.Thm_C07 SQLM.Thm_C06 SQLM.Thm_C01 SQLM.Thm_C12 SQLM.Thm_C02 SQLM.Thm_C11 SQLM.Run.
From NR Require Gen.SqlConst Gen.Kinds.
From Coq Require Sorting.Permutation.
From NR Require KVW.Thm_C06 Lib.BaseFacts KVW.Thm_Common KVW.Queue KVW.Thm_C07 KVW.Thm_C08 KVW.Thm_C09 KVW.Thm_C17 KVW.Thm_Common Lib.Base Lib.Nip01 KVM.Engine KVM.Keys KVM.Scan KVW.Types KVW.Entries KVW.Write KVW.PostSave KVW.Gc KVW.Oracles KVW.Proofs_Engine KVW.Proofs_Tx KVW.Proofs_Keys KVW.Proofs_Coherent KVW.Proofs_Run KVW.Proofs_Fault KVW.Proofs_ScanUse KVW.Proofs_ScanOk KVW.Proofs_PostSave KVW.Proofs_Progress KVW.Proofs_Gc KVW.Proofs_Ack KVW.GenTie.

(* ================= SQL backend (nostr_relay/storage/db.py) ================= *)
Module SQLM.
Import Lib.Base Lib.Nip01 SQLM.Rel SQLM.Write SQLM.Query SQLM.Text SQLM.Where SQLM.Req SQLM.Spec SQLM.Proofs_Text SQLM.Proofs_Shape SQLM.Proofs_Rel SQLM.Proofs_Write SQLM.Proofs_Gc SQLM.Proofs_Where SQLM.Proofs_Hist SQLM.Abbrev SQLM.Proofs_Const SQLM.Proofs_SaText SQLM.Thm_C09 SQLM.Thm_C08 SQLM.Thm_C17 SQLM.Thm_C07 SQLM.Thm_C06 SQLM.Thm_C01 SQLM.Thm_C12 SQLM.Thm_C02 SQLM.Thm_C11 SQLM.Run.
Import Gen.SqlConst Gen.Kinds.
Import Sorting.Permutation.
Open Scope list_scope. Open Scope Z_scope.

(* ---------------- C08 ---------------- *)
Theorem C08_sql_delete_frame : forall now h e r0,
  row_of_event (event_init now e) = Some r0 -> r_kind r0 = 5 ->
  forall x, In x (stored (run_history now h)) -> in_store x (stored (after now h e)) = false -> may_delete (event_of_row r0) x = true.
Proof. exact sql_delete_frame. Qed.
Print Assumptions C08_sql_delete_frame.

Theorem C08_sql_delete_effective : forall now h e r0,
  row_of_event (event_init now e) = Some r0 -> outcome now h e = inl true ->
  forall x, In x (stored (run_history now h)) -> may_delete (event_of_row r0) x = true -> in_store x (stored (after now h e)) = false.
Proof. exact sql_delete_effective. Qed.
Print Assumptions C08_sql_delete_effective.

Theorem C08_sql_deleted_unreachable : forall now h e rx,
  In rx (d_events (run_history now h)) -> in_store (event_of_row rx) (stored (after now h e)) = false ->
  (forall dl ml fs, ~ In rx (req dl ml (after now h e) fs)) /\ TagsCoherent (after now h e).
Proof. exact sql_deleted_unreachable. Qed.
Print Assumptions C08_sql_deleted_unreachable.

(* ---- supporting theorems of this backend model (invariants, ties to the source, non-vacuity) ---- *)
(* primary key, TagsCoherent (tags table = the tag rows process_tags derives from the stored events), rows well-formed *)
Theorem SQLM_history_invariant : forall now h, Inv (run_history now h).
Proof. exact history_Inv. Qed.
Print Assumptions SQLM_history_invariant.

(* for an admitted event the stored form is the event itself *)
Theorem SQLM_canonical : forall e r, wf_wevent e = true -> row_of_event e = Some r -> event_of_row r = e.
Proof. exact sql_canonical. Qed.
Print Assumptions SQLM_canonical.

(* ---------------- ties to the source, re-checked against Gen/*.v on every run ---------------- *)
Theorem SQLM_gc_query_tie : lex Gen.SqlConst.gc_query = Some gc_template.
Proof. exact gc_query_tie. Qed.
Print Assumptions SQLM_gc_query_tie.

Theorem SQLM_select_text_tie : lex Gen.SqlConst.select_text = Some select_head /\ lex (Gen.SqlConst.tail_text ++ pys "5") = Some (select_tail 5).
Proof. split; [exact select_text_tie | exact tail_text_tie]. Qed.
Print Assumptions SQLM_select_text_tie.

Theorem SQLM_interpolation_lint : Gen.SqlConst.sql_interpolations_ok = true.
Proof. exact sql_interpolations_checked. Qed.
Print Assumptions SQLM_interpolation_lint.

(* the model gives a failed or cancelled save / query no lasting effect on later operations (`C07_sql_fail_at_k_restores`, `C07_sql_later_events_unaffected`): the code holds its
   slots, locks, connections and transactions (`C07_sql_single_txn`: committed or rolled back as a whole) only through `async with` / `with`, and shields nothing from cancellation *)
Theorem SQLM_waits_scoped_lint : Gen.SqlConst.sql_waits_scoped = true.
Proof. vm_compute. reflexivity. Qed.
Print Assumptions SQLM_waits_scoped_lint.

Theorem SQLM_indexed_name_tie : forall n, indexed_name n = mem_str n Gen.SqlConst.indexed_long_names || Nat.eqb (length n) 1.
Proof. exact indexed_name_tie. Qed.
Print Assumptions SQLM_indexed_name_tie.

Theorem SQLM_kinds_tie : forall e,
  is_repl_py (w_kind e) = k_is_replaceable (vev e) /\ is_param_py (w_kind e) = k_is_paramaterized_replaceable (vev e) /\
  Write.kind_DELETE = Gen.Kinds.kind_DELETE /\ Write.kind_SET_METADATA = Gen.Kinds.kind_SET_METADATA /\
  Write.kind_CONTACTS = Gen.Kinds.kind_CONTACTS.
Proof. exact kinds_tie. Qed.
Print Assumptions SQLM_kinds_tie.

(* non-vacuity of the history-level hypotheses: a reachable, non-trivial store satisfying wf_history *)
Example SQLM_history_inhabited :
  wf_wevent (Examples.mkev "01" "aa" 10 1 [["t"; "x"]]%string) = true /\
  length (d_events (run_history Examples.now0 [Examples.mkev "01" "aa" 10 1 [["t"; "x"]]%string])) = 1%nat /\
  length (d_tags (run_history Examples.now0 [Examples.mkev "01" "aa" 10 1 [["t"; "x"]]%string])) = 1%nat.
Proof. vm_compute. repeat split; reflexivity. Qed.

End SQLM.

(* ================= LMDB write path (kv.py indexes, writer thread, garbage collector) ================= *)
Module KVW.
Import KVW.Thm_C06 Lib.BaseFacts KVW.Thm_Common KVW.Queue KVW.Thm_C07 KVW.Thm_C08 KVW.Thm_C09 KVW.Thm_C17 KVW.Thm_Common Lib.Base Lib.Nip01 KVM.Engine KVM.Keys KVM.Scan KVW.Types KVW.Entries KVW.Write KVW.PostSave KVW.Gc KVW.Oracles KVW.Proofs_Engine KVW.Proofs_Tx KVW.Proofs_Keys KVW.Proofs_Coherent KVW.Proofs_Run KVW.Proofs_Fault KVW.Proofs_ScanUse KVW.Proofs_ScanOk KVW.Proofs_PostSave KVW.Proofs_Progress KVW.Proofs_Gc KVW.Proofs_Ack KVW.GenTie.
Open Scope list_scope. Open Scope Z_scope.

Theorem C08_kv_delete fault kill now d w idb d' ms :
  Inv d -> event_wf w -> id_bytes w = Some idb -> rec_at d idb = None -> w_kind w = 5 ->
  run_op fault kill now d (OAdd w) = (d', Committed, ms) ->
  Inv d' /\
  (exists r, encode_event w = Some r /\ rec_at d' idb = Some r) /\
  (* delete_frame: only referenced events of the deleter's own pubkey, older than the deletion *)
  (forall x e, rec_at d x = Some e -> rec_at d' x = None ->
               w_pubkey e = w_pubkey w /\ In x (e_ref_ids w) /\ w_created e < w_created w) /\
  (* delete_effective *)
  (forall x e, rec_at d x = Some e -> w_pubkey e = w_pubkey w -> In x (e_ref_ids w) -> w_created e < w_created w ->
               rec_at d' x = None) /\
  (forall x e, x <> idb -> rec_at d' x = Some e -> rec_at d x = Some e).
Proof. exact (C08_kv_delete fault kill now d w idb d' ms). Qed.
Print Assumptions C08_kv_delete.

(* deleted_unreachable: once the record is gone, no index entry names it (so no scanner can yield it)
   and get_event finds nothing *)
Theorem C08_kv_deleted_unreachable d x :
  Inv d -> rec_at d x = None -> length x = 32%nat ->
  (forall k, k <> tombstone -> tail32 k = x -> get k d = None) /\
  (forall now h, py_fromhex h = Some x -> get_event now d h = GNone).
Proof. exact (C08_kv_deleted_unreachable d x). Qed.
Print Assumptions C08_kv_deleted_unreachable.

(* ---- supporting theorems of this backend model (invariants, ties to the source, non-vacuity) ---- *)
Theorem NoDup_app_single (valid : wevent -> bool) (valid_hex : forall w, valid w = true -> hex64 (w_id w) = true /\ hex64 (w_pubkey w) = true) {A} (l : list A) x :
  NoDup l -> ~ In x l -> NoDup (l ++ [x]).
Proof. first [exact (NoDup_app_single valid valid_hex l x) | exact (NoDup_app_single valid l x) | exact (NoDup_app_single valid_hex l x) | exact (NoDup_app_single l x)]. Qed.
Print Assumptions NoDup_app_single.

Theorem add_ids_app (valid : wevent -> bool) (valid_hex : forall w, valid w = true -> hex64 (w_id w) = true /\ hex64 (w_pubkey w) = true) q1 q2 :
  add_ids (q1 ++ q2) = add_ids q1 ++ add_ids q2.
Proof. first [exact (add_ids_app valid valid_hex q1 q2) | exact (add_ids_app valid q1 q2) | exact (add_ids_app valid_hex q1 q2) | exact (add_ids_app q1 q2)]. Qed.
Print Assumptions add_ids_app.

Theorem queued_ids_inflight (valid : wevent -> bool) (valid_hex : forall w, valid w = true -> hex64 (w_id w) = true /\ hex64 (w_pubkey w) = true) d infl q :
  Forall (queued_ok d infl) q -> forall x, In x (add_ids q) -> In x infl.
Proof. first [exact (queued_ids_inflight valid valid_hex d infl q) | exact (queued_ids_inflight valid d infl q) | exact (queued_ids_inflight valid_hex d infl q) | exact (queued_ids_inflight d infl q)]. Qed.
Print Assumptions queued_ids_inflight.

Theorem queued_ok_weaken (valid : wevent -> bool) (valid_hex : forall w, valid w = true -> hex64 (w_id w) = true /\ hex64 (w_pubkey w) = true) d infl x op :
  queued_ok d infl op -> queued_ok d (x :: infl) op.
Proof. first [exact (queued_ok_weaken valid valid_hex d infl x op) | exact (queued_ok_weaken valid d infl x op) | exact (queued_ok_weaken valid_hex d infl x op) | exact (queued_ok_weaken d infl x op)]. Qed.
Print Assumptions queued_ok_weaken.

(* a transaction never makes a record appear under another id than the one it adds *)
Theorem odel_no_new (valid : wevent -> bool) (valid_hex : forall w, valid w = true -> hex64 (w_id w) = true /\ hex64 (w_pubkey w) = true) fault kill now d h x e :
  Coh d -> rec_at (db_after fault kill now d (ODel h)) x = Some e -> rec_at d x = Some e.
Proof. first [exact (odel_no_new valid valid_hex fault kill now d h x e) | exact (odel_no_new valid fault kill now d h x e) | exact (odel_no_new valid_hex fault kill now d h x e) | exact (odel_no_new fault kill now d h x e)]. Qed.
Print Assumptions odel_no_new.

Theorem oadd_no_new (valid : wevent -> bool) (valid_hex : forall w, valid w = true -> hex64 (w_id w) = true /\ hex64 (w_pubkey w) = true) fault kill now d w idb x e :
  Coh d -> event_wf w -> id_bytes w = Some idb -> rec_at d idb = None ->
  x <> idb -> rec_at (db_after fault kill now d (OAdd w)) x = Some e -> rec_at d x = Some e.
Proof. first [exact (oadd_no_new valid valid_hex fault kill now d w idb x e) | exact (oadd_no_new valid fault kill now d w idb x e) | exact (oadd_no_new valid_hex fault kill now d w idb x e) | exact (oadd_no_new fault kill now d w idb x e)]. Qed.
Print Assumptions oadd_no_new.

Theorem wf_id_bytes_inj (valid : wevent -> bool) (valid_hex : forall w, valid w = true -> hex64 (w_id w) = true /\ hex64 (w_pubkey w) = true) w1 w2 idb :
  event_wf w1 -> event_wf w2 -> id_bytes w1 = Some idb -> id_bytes w2 = Some idb -> w_id w1 = w_id w2.
Proof. first [exact (wf_id_bytes_inj valid valid_hex w1 w2 idb) | exact (wf_id_bytes_inj valid w1 w2 idb) | exact (wf_id_bytes_inj valid_hex w1 w2 idb) | exact (wf_id_bytes_inj w1 w2 idb)]. Qed.
Print Assumptions wf_id_bytes_inj.

Theorem remove_str_In (valid : wevent -> bool) (valid_hex : forall w, valid w = true -> hex64 (w_id w) = true /\ hex64 (w_pubkey w) = true) x y l :
  In y l -> y <> x -> In y (remove_str x l).
Proof. first [exact (remove_str_In valid valid_hex x y l) | exact (remove_str_In valid x y l) | exact (remove_str_In valid_hex x y l) | exact (remove_str_In x y l)]. Qed.
Print Assumptions remove_str_In.

Theorem run_dels_fold now l :
  forall d0,
  run_dels now d0 l = fold_left (fun d op => db_after None None now d op) (map (fun b => ODel (hex_of_bytes b)) l) d0.
Proof. exact (run_dels_fold now l). Qed.
Print Assumptions run_dels_fold.

Theorem gc_pass_is_gc_ops T now d :
  gc_pass T now d = fold_left (fun d op => db_after None None now d op) (gc_ops T d) d.
Proof. exact (gc_pass_is_gc_ops T now d). Qed.
Print Assumptions gc_pass_is_gc_ops.

Theorem inv_init :
  Inv init_db.
Proof. exact (inv_init). Qed.
Print Assumptions inv_init.

Theorem inv_step d s :
  Inv d -> op_ok d (s_op s) -> Inv (run_step d s).
Proof. exact (inv_step d s). Qed.
Print Assumptions inv_step.

Theorem inv_history l :
  forall d, Inv d -> steps_ok d l -> Inv (run_steps d l).
Proof. exact (inv_history l). Qed.
Print Assumptions inv_history.

Theorem run_op_committed fault kill now d op d' ms :
  run_op fault kill now d op = (d', Committed, ms) ->
  exists t', op_body fault now op {| t_db := d; t_log := [] |} = Ok tt t' /\ d' = t_db t'.
Proof. exact (run_op_committed fault kill now d op d' ms). Qed.
Print Assumptions run_op_committed.

End KVW.
