(* C10 - every LMDB index entry has its record and every record all its index entries.
   Property theorems only; proofs are in coq/KVW (see C10/Proofs.v). *)
From NR Require Import C10.Model C10.Spec C10.Proofs.
Open Scope list_scope. Open Scope Z_scope.

(* The full statement: for every sequence of writer transactions - add, del, reindex, bulk_update; an
   add covers replacement and NIP-09 deletion through _post_save; a garbage-collection pass is a
   sequence of dels - each of them possibly hit by an engine failure or a process kill at an arbitrary
   mutation, the keyspace is coherent.  Side conditions (steps_ok): an added event carries 64-digit
   lower-case hex id and pubkey and created_at <> 0 (admission, C03 / Event.__init__); the argument of
   a reindex is the stored record if a record with its id is stored (it was read from this store). *)
Theorem C10_coherent_history : forall l : list wstep, steps_ok init_db l -> Coherent (run_steps init_db l).
Proof. intros l H. apply coh_implies_Coherent, history_coherent, H. Qed.
Print Assumptions C10_coherent_history.

(* one transaction, any ending: commit, exception (abort drops the working copy), kill *)
Theorem C10_step : forall fault kill now d op, Coh d -> op_ok d op -> Coh (db_after fault kill now d op).
Proof. exact run_op_coh. Qed.
Print Assumptions C10_step.
Theorem C10_init : Coh init_db.
Proof. exact coh_init. Qed.
Print Assumptions C10_init.
Theorem C10_coh_is_coherent : forall d, Coh d -> Coherent d.
Proof. exact coh_implies_Coherent. Qed.
Print Assumptions C10_coh_is_coherent.

(* what LMDBStorage.add_event queues satisfies the side condition, given what validation guarantees *)
Theorem C10_add_event_ok : forall valid now d pending raw a b op,
  (forall w, valid w = true -> hex64 (w_id w) = true /\ hex64 (w_pubkey w) = true) -> now <> 0 ->
  add_event valid now d pending raw = (a, b, Some op) -> op_ok d op.
Proof. exact add_event_op_ok. Qed.
Print Assumptions C10_add_event_ok.
(* a garbage-collection pass has no side condition *)
Theorem C10_gc_ok : forall T d (mk : wop -> wstep), (forall o, s_op (mk o) = o) -> forall d0, steps_ok d0 (map mk (gc_ops T d)).
Proof. exact gc_pass_steps_ok. Qed.
Print Assumptions C10_gc_ok.

(* deletion re-derives the keys from the stored record: they are the keys that were written *)
Theorem C10_decode_encode_keys : forall now w r, event_wf w -> encode_event w = Some r ->
  sec_keys (decode_event now r) = sec_keys w /\ primary_key (decode_event now r) = primary_key w.
Proof. exact decode_encode_keys. Qed.
Print Assumptions C10_decode_encode_keys.

(* corollary found_via: an index entry is present exactly when the record named by its last 32 bytes is
   stored and has that entry; a stored record is present under every one of its attributes.  Hence an
   event is found - or, once removed, not found - identically through every access path. *)
Theorem C10_found_via : forall d k, Coh d -> k <> tombstone ->
  (get k d = Some RIndex <->
   exists e es, get (primary_key_of (tail32 k)) d = Some (REvent e) /\ sec_keys e = Some es /\ In k es).
Proof. exact found_via. Qed.
Print Assumptions C10_found_via.
Theorem C10_record_indexed : forall d pk e, Coh d -> get pk d = Some (REvent e) ->
  exists es, sec_keys e = Some es /\ forall k, In k es -> get k d = Some RIndex.
Proof. exact record_indexed. Qed.
Print Assumptions C10_record_indexed.
Theorem C10_sec_keys_are_index_entries : forall w, sec_keys w = index_entries w.
Proof. exact sec_keys_index_entries. Qed.
Print Assumptions C10_sec_keys_are_index_entries.

(* ---- non-vacuity: a history with an addition, a replacement, a NIP-09 deletion, an aborted and a killed
   transaction, a reindex, and a deletion by id; its side conditions hold and its keyspace is non-trivial ---- *)
Definition hx (c : N) (n : nat) : pystr := repeat c n.
Definition ev (idc : N) (kind created : Z) (tags : list (list pystr)) : wevent :=
  {| w_id := hx idc 64; w_pubkey := hx 98 64; w_created := created; w_kind := kind; w_tags := tags;
     w_content := pys "x"; w_sig := hx 99 128 |}.
Definition e1 := ev 49 10000 100 [[pys "t"; pys "a"]].
Definition e2 := ev 50 10000 200 [[pys "t"; pys "b"]; [pys "t"; pys "b"]].
Definition e3 := ev 51 1 150 [[pys "expiration"; pys "5"]; [pys "p"]].
Definition e4 := ev 52 5 300 [[pys "e"; hx 51 64]; [pys "e"; pys "zz"]].
Definition st (f k : option nat) (op : wop) : wstep := mkStep f k 1000 op.
Definition example_history : list wstep :=
  [st None None (OAdd e1); st (Some 2%nat) None (OAdd e2); st None (Some 1%nat) (OAdd e2); st None None (OAdd e2);
   st None None (OAdd e3); st None None (OReindex IxTags e3); st None None (OAdd e4); st None None (ODel (hx 50 64))].
Example C10_example_stored :
  map (fun e => w_id e) (stored (run_steps init_db example_history)) = [hx 52 64] /\
  length (run_steps init_db example_history) = 8%nat /\
  coherent_b (run_steps init_db example_history) = true.
Proof. vm_compute. repeat split; reflexivity. Qed.
Example C10_example_side_conditions : steps_ok init_db example_history.
Proof.
  cbn [steps_ok example_history st s_op op_ok].
  repeat split; try (vm_compute; reflexivity); try (vm_compute; discriminate).
  intros idb r H G. vm_compute in H. injection H as <-. vm_compute in G. injection G as <-. reflexivity.
Qed.
(* the side condition of reindex matters: indexing an event that is not the stored record of its id
   leaves an entry under a value the stored event does not have *)
Example C10_reindex_side_condition_needed :
  let d := run_steps init_db [st None None (OAdd e1)] in
  coherent_b d = true /\
  coherent_b (db_after None None 1000 d (OReindex IxTags (ev 49 10000 100 [[pys "t"; pys "other"]]))) = false.
Proof. vm_compute. split; reflexivity. Qed.
