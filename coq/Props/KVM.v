(* LMDB query path (shared model KVM): the LMDB halves of C01 / C02 / C11 / C12.
   Theorem statements only; proofs are in KVM/Proofs_*.v and KVM/Thm_C*.v.
   Model: KVM/{Engine,Keys,Scan,Plan,Match,Exec}.v mirror kv.py's Index.scanner, MultiIndex, planner,
   compile_match_from_query, matcher, execute_one_plan, executor; KVM/ScanSpec.v and KVM/Spec.v say what they are for;
   KVM/Coherent.v is the store invariant proved by the write path (KVW). *)
From NR Require Import Lib.Base Lib.Nip01 KVM.Engine KVM.Keys KVM.Scan KVM.ScanSpec KVM.Order KVM.Coherent
  KVM.Plan KVM.Match KVM.Exec KVM.Spec KVM.Proofs_Scan KVM.Proofs_Blocks KVM.Proofs_ScanTop KVM.Proofs_Coherent
  KVM.Proofs_Match KVM.Proofs_Exec KVM.Proofs_Hit KVM.Proofs_Const KVM.Thm_C01 KVM.Thm_C02 KVM.Thm_C11 KVM.Thm_C12
  KVM.Proofs_HexOrder KVM.Check KVM.Examples.
From NR Require Gen.KVConst.
Open Scope list_scope. Open Scope Z_scope.

(* ===== the scanner (heart of C02 / C11 / C08 / C09) ===== *)
(* Index.scanner returns exactly the entries of the requested blocks inside the closed window, per match in
   order, newest first, for EVERY strictly sorted keyspace of byte strings that contains the tombstone, whose
   long keys end with 00 ++ id(32) (Shaped) and whose first key does not belong to the scanned index (floor_ok):
   foreign keys next to every block boundary, values extending / prefixing the requested one, values with the
   00 separator inside, ids starting ff, neighbouring index prefixes included.  Never out of fuel. *)
Theorem KVM_scanner_correct : scanner_correct_statement.
Proof. exact scanner_correct. Qed.
Print Assumptions KVM_scanner_correct.

Theorem KVM_scanner_correct_coherent : forall d i ms since until ev,
  Coherent d ->
  (forall cms, compile (map (to_key i) ms) = Some cms -> (cms <> [] \/ i = IxCreated) /\ (i = IxIds -> Desc cms)) ->
  index_scanner (keys d) i ms since until ev = scan_spec (keys d) i ms since until ev.
Proof. exact scanner_correct_coherent. Qed.
Print Assumptions KVM_scanner_correct_coherent.

(* ===== C01-kv ===== *)
Theorem C01_kv_answer_sound : forall d p e, In e (execute_one_plan d p) ->
  exists i, get (primary_key_of i) d = Some (REvent e) /\ residual (p_query p) e = true.
Proof. exact kv_answer_sound. Qed.
Print Assumptions C01_kv_answer_sound.

Theorem C01_kv_residual_may_match : forall f e, wf_filter f -> hex64 (w_id e) = true -> hex64 (w_pubkey e) = true ->
  residual (plan_items f) e = true -> may_match f e = true.
Proof. exact kv_residual_may_match. Qed.
Print Assumptions C01_kv_residual_may_match.

Theorem C01_kv_reads_only : forall d1 d2 p, keys d1 = keys d2 ->
  (forall i, get (primary_key_of i) d1 = get (primary_key_of i) d2) -> execute_one_plan d1 p = execute_one_plan d2 p.
Proof. exact kv_exec_reads_only. Qed.
Print Assumptions C01_kv_reads_only.

Theorem C01_kv_sound : forall dl mx d fs e,
  KVConst.exec_interpolations_ok = true -> Coherent d -> Forall wf_filter fs -> In e (answer_kv dl mx d fs) ->
  stored d e /\ exists f, In f (firstn maximum_plans fs) /\ may_match f e = true.
Proof. exact C01_kv. Qed.
Print Assumptions C01_kv_sound.

(* ===== C02-kv ===== *)
Theorem C02_kv_complete_partial : forall dl mx d f e,
  Coherent d -> (forall x, stored d x -> tags_ok x) -> wf_filter f -> ids_desc f ->
  range_scan_refused f = false ->
  stored d e -> must_match f e = true -> delegator_only_match f e = false ->
  exists p, plan_one dl mx f = Some p /\
    ((forall n, p_limit p = Some n -> at_most d (may_match f) n) ->
     In e (execute_one_plan d p) /\ count_id e (execute_one_plan d p) = 1%nat).
Proof. exact C02_kv_partial. Qed.
Print Assumptions C02_kv_complete_partial.

Theorem C02_kv_residual_complete : forall dl mx d f p e,
  Coherent d -> wf_filter f -> ids_desc f -> plan_one dl mx f = Some p ->
  (forall n, p_limit p = Some n -> at_most d (may_match f) n) ->
  stored d e -> residual (plan_items f) e = true ->
  In e (execute_one_plan d p) /\ count_id e (execute_one_plan d p) = 1%nat.
Proof. exact kv_plan_complete. Qed.
Print Assumptions C02_kv_residual_complete.

Theorem C02_kv_at_most_once_per_filter : forall dl mx d fs e,
  Coherent d -> Forall wf_filter fs -> stored d e ->
  (count_id e (answer_kv dl mx d fs) <= count_occ_b (fun f => may_match f e) (firstn maximum_plans fs))%nat.
Proof. exact C02_kv_at_most. Qed.
Print Assumptions C02_kv_at_most_once_per_filter.

Theorem C02_kv_req_complete_partial : forall dl mx d fs f e,
  Coherent d -> (forall x, stored d x -> tags_ok x) -> In f (firstn maximum_plans fs) -> wf_filter f -> ids_desc f ->
  range_scan_refused f = false ->
  (forall n, p_limit (mk_plan dl mx f) = Some n -> at_most d (may_match f) n) ->
  stored d e -> must_match f e = true -> delegator_only_match f e = false ->
  In e (answer_kv dl mx d fs).
Proof. exact C02_kv_req_at_least_once. Qed.
Print Assumptions C02_kv_req_complete_partial.

(* the two guards are genuinely needed (open findings F07 and "range scan refused") *)
Theorem C02_kv_refuted_delegator : exists f e,
  must_match f e = true /\ delegator_only_match f e = true /\ residual (plan_items f) e = false.
Proof.
  exists {| f_ids := None; f_authors := Some [pys "aa"]; f_kinds := None; f_since := None; f_until := None;
            f_limit := None; f_tags := [] |},
         {| w_id := pys "01"; w_pubkey := pys "bb"; w_created := 5; w_kind := 1;
            w_tags := [[pys "delegation"; pys "aa"; pys "c"; pys "s"]]; w_content := []; w_sig := [] |}.
  vm_compute. auto.
Qed.
Print Assumptions C02_kv_refuted_delegator.

Theorem C02_kv_refuted_range_scan : exists f e,
  must_match f e = true /\ skipped f = false /\ plan_one None (Some 5) f = None.
Proof.
  exists {| f_ids := None; f_authors := None; f_kinds := None; f_since := Some 0; f_until := None;
            f_limit := Some 3; f_tags := [] |},
         {| w_id := pys "01"; w_pubkey := pys "bb"; w_created := 5; w_kind := 1; w_tags := []; w_content := []; w_sig := [] |}.
  vm_compute. auto.
Qed.
Print Assumptions C02_kv_refuted_range_scan.

(* the hypothesis ids_desc follows from what model_validate does to 64-digit ids (lower case, sorted descending, deduplicated) *)
Theorem KVM_ids_desc_of_sorted : forall f,
  (forall l, f_ids f = Some l -> Forall (fun v => hex64 v = true) l /\ Sorted.StronglySorted (fun a b => lex_cmp b a = Lt) l) ->
  ids_desc f.
Proof. exact ids_desc_of_sorted. Qed.
Print Assumptions KVM_ids_desc_of_sorted.

(* ===== C11-kv ===== *)
Theorem C11_kv_answer_exact : forall dl mx d f p,
  Coherent d -> wf_filter f -> ids_desc f -> plan_one dl mx f = Some p ->
  (forall n, p_limit p = Some n -> at_most d (may_match f) n) ->
  forall e, In e (execute_one_plan d p) <-> (stored d e /\ P_kv f e = true).
Proof. exact answer_exact_kv. Qed.
Print Assumptions C11_kv_answer_exact.

Theorem C11_kv_P_sound : forall f e, wf_filter f -> hex64 (w_id e) = true -> hex64 (w_pubkey e) = true ->
  P_kv f e = true -> may_match f e = true.
Proof. exact P_kv_may_match. Qed.
Print Assumptions C11_kv_P_sound.

Theorem C11_kv_P_complete_partial : forall f e, wf_filter f -> hex64 (w_id e) = true -> hex64 (w_pubkey e) = true -> tags_ok e ->
  must_match f e = true -> delegator_only_match f e = false -> range_scan_refused f = false -> P_kv f e = true.
Proof. exact must_match_P_kv. Qed.
Print Assumptions C11_kv_P_complete_partial.

Theorem C11_kv_unrelated_data : forall dl mx d1 d2 f p,
  Coherent d1 -> Coherent d2 -> wf_filter f -> ids_desc f -> plan_one dl mx f = Some p ->
  (forall n, p_limit p = Some n -> at_most d1 (may_match f) n) ->
  (forall n, p_limit p = Some n -> at_most d2 (may_match f) n) ->
  (forall e, may_match f e = true -> (stored d1 e <-> stored d2 e)) ->
  forall e, In e (execute_one_plan d1 p) <-> In e (execute_one_plan d2 p).
Proof. exact C11_kv_frame. Qed.
Print Assumptions C11_kv_unrelated_data.

Theorem C11_kv_monotone_in_filter_partial : forall dl mx d f' f p',
  Coherent d -> wf_filter f' -> wf_filter f -> ids_desc f -> refines f' f ->
  range_scan_refused f = false ->
  plan_one dl mx f' = Some p' ->
  exists p, plan_one dl mx f = Some p /\
    ((forall n, p_limit p = Some n -> at_most d (may_match f) n) ->
     forall e, In e (execute_one_plan d p') -> In e (execute_one_plan d p)).
Proof. exact C11_kv_monotone_partial. Qed.
Print Assumptions C11_kv_monotone_in_filter_partial.

(* the guard is needed: the refused filter {} is refined by {"kinds":[1]}, which has a plan *)
Theorem C11_kv_monotone_refuted : exists f' f,
  refines f' f /\ plan_one None (Some 5) f = None /\ plan_one None (Some 5) f' <> None.
Proof.
  exists {| f_ids := None; f_authors := None; f_kinds := Some [1]; f_since := None; f_until := None; f_limit := None; f_tags := [] |},
         {| f_ids := None; f_authors := None; f_kinds := None; f_since := None; f_until := None; f_limit := None; f_tags := [] |}.
  split; [|split; [reflexivity|discriminate]].
  unfold refines, opt_sub; simpl. repeat split; try discriminate. intros n vs [].
Qed.
Print Assumptions C11_kv_monotone_refuted.

Theorem C11_kv_union_of_single_values : forall dl mx d f l p,
  Coherent d -> wf_filter f -> ids_desc f -> f_kinds f = Some l -> plan_one dl mx f = Some p ->
  (forall n, p_limit p = Some n -> at_most d (may_match f) n) ->
  forall e, In e (execute_one_plan d p) <->
            exists k pk, In k l /\ plan_one dl mx (set_kinds f [k]) = Some pk /\ In e (execute_one_plan d pk).
Proof. exact C11_kv_union_kinds. Qed.
Print Assumptions C11_kv_union_of_single_values.

Theorem C11_kv_union_tag_values : forall tags n vs, tag_clause tags n vs = existsb (fun v => tag_clause tags n [v]) vs.
Proof. exact tag_clause_union. Qed.
Print Assumptions C11_kv_union_tag_values.
Theorem C11_kv_union_hex_values : forall field vals, length field = 64%nat -> Forall (fun v => (64 <= length v)%nat) vals ->
  hex_clause field vals = existsb (fun v => hex_clause field [v]) vals.
Proof. exact hex_clause_union. Qed.
Print Assumptions C11_kv_union_hex_values.

(* ===== C12-kv ===== *)
Theorem C12_kv_never_more_than_allowed : forall mx d f p, plan_one None (Some mx) f = Some p -> 0 <= eff_limit mx f ->
  Z.of_nat (length (execute_one_plan d p)) <= eff_limit mx f.
Proof. exact C12_kv_cap. Qed.
Print Assumptions C12_kv_never_more_than_allowed.

Theorem C12_kv_newest_kept_partial : forall dl mx d f p x y,
  Coherent d -> (forall e, stored d e -> tags_ok e) -> wf_filter f -> ids_desc f -> plan_one dl mx f = Some p ->
  single_block_plan p ->
  stored d x -> must_match f x = true -> delegator_only_match f x = false ->
  In y (execute_one_plan d p) -> ~ In x (execute_one_plan d p) -> w_created x <= w_created y.
Proof. exact C12_kv_newest_partial. Qed.
Print Assumptions C12_kv_newest_kept_partial.

(* several filters in one REQ: each is planned and served on its own, under its own limit; the subscriber receives the
   concatenation of what it would receive for each of the first maximum_plans filters sent alone *)
Theorem C12_kv_several_filters_concat : forall dl mx d fs,
  answer_kv dl mx d fs = flat_map (fun f => answer_kv dl mx d [f]) (firstn maximum_plans fs).
Proof. exact C12_kv_req_is_concat. Qed.
Print Assumptions C12_kv_several_filters_concat.

Theorem C12_kv_filters_do_not_interfere : forall dl mx d fs f e,
  In f (firstn maximum_plans fs) -> In e (answer_kv dl mx d [f]) -> In e (answer_kv dl mx d fs).
Proof. exact C12_kv_req_filter_independent. Qed.
Print Assumptions C12_kv_filters_do_not_interfere.

(* a limit that is not reached truncates nothing: C02_kv_complete_partial above (at_most) *)

(* ===== the model's constants are the source's ===== *)
Theorem KVM_constants : idx_prefix IxTags = KVConst.prefix_tags /\ tombstone = KVConst.tombstone_key /\
  Plan.maximum_plans = KVConst.maximum_plans /\ (forall k c i, entry_key k c i = fill KVConst.entry_format [k; c; i]) /\
  (forall t, Coherent.tag_indexable t = KVConst.tag_indexable t).
Proof.
  split; [apply prefixes_agree|]. split; [exact tombstone_agrees|]. split; [exact maximum_plans_agrees|].
  split; [exact entry_key_format|exact tag_indexable_agrees].
Qed.
Print Assumptions KVM_constants.

(* ===== refutations at store level (open findings F16 multi-value and F07) ===== *)
Theorem C12_kv_refuted : exists d f p x y,
  Coherent d /\ wf_filter f /\ plan_one None (Some 5) f = Some p /\ multi_match_filter f = true /\
  stored d x /\ must_match f x = true /\ In y (execute_one_plan d p) /\ ~ In x (execute_one_plan d p) /\
  w_created y < w_created x.
Proof. exact C12_kv_refuted_multi_value. Qed.
Print Assumptions C12_kv_refuted.

Theorem C02_kv_refuted : exists d f p e,
  Coherent d /\ wf_filter f /\ plan_one None (Some 5) f = Some p /\ at_most d (may_match f) 5 /\
  stored d e /\ must_match f e = true /\ ~ In e (execute_one_plan d p).
Proof. exact C02_kv_refuted_delegator_store. Qed.
Print Assumptions C02_kv_refuted.

(* a limit of at least the number of stored events never truncates *)
Theorem KVM_at_most_total : forall d P n, Z.of_nat (length (stored_events d)) <= n -> at_most d P n.
Proof. exact at_most_total. Qed.
Print Assumptions KVM_at_most_total.

(* the hypotheses floor_ok and Shaped of scanner_correct cannot be dropped *)
Example KVM_scanner_needs_floor :
  sortedb ks_nofloor = true /\ In tombstone ks_nofloor /\
  index_scanner ks_nofloor IxTags [MStrStr (pys "t") [97; 98; 0; 1]%N; MStrStr (pys "t") (pys "ab")] None None (fun _ => true) = SOk [id32 7] /\
  scan_spec ks_nofloor IxTags [MStrStr (pys "t") [97; 98; 0; 1]%N; MStrStr (pys "t") (pys "ab")] None None (fun _ => true) = SOk [id32 7; id32 8].
Proof. exact scanner_needs_floor. Qed.
Example KVM_scanner_needs_shape :
  sortedb ks_unshaped = true /\
  index_scanner ks_unshaped IxKinds [MInt 1] None None (fun _ => true) = SOk [id32 7] /\
  scan_spec ks_unshaped IxKinds [MInt 1] None None (fun _ => true) = SOk [].
Proof. exact scanner_needs_shape. Qed.

(* ===== non-vacuity: a concrete coherent store with four events (one delegated), and the model on it ===== *)
Example KVM_store_coherent : Coherent ex_store /\ (forall e, stored ex_store e -> tags_ok e) /\ length (stored_events ex_store) = 4%nat.
Proof. split; [exact ex_coherent|]. split; [exact ex_tags_ok|exact ex_size]. Qed.
Print Assumptions KVM_store_coherent.
Example KVM_single_index : exists p, plan_one None (Some 5) xf_k7 = Some p /\ execute_one_plan ex_store p = [ev4; ev3] /\ single_block_plan p.
Proof. exact ex_k7. Qed.
Example KVM_single_index_hypotheses : wf_filter xf_k7 /\ ids_desc xf_k7 /\ range_scan_refused xf_k7 = false /\
  at_most ex_store (may_match xf_k7) 5 /\ must_match xf_k7 ev3 = true /\ delegator_only_match xf_k7 ev3 = false.
Proof. exact ex_k7_hypotheses. Qed.
Example KVM_id_index : exists p, plan_one None (Some 5) xf_id = Some p /\ map w_id (execute_one_plan ex_store p) = [hx 51; hx 49].
Proof. exact ex_ids. Qed.
Example KVM_id_index_desc : ids_desc xf_id.
Proof. exact ex_ids_desc. Qed.
Example KVM_multi_index : exists p st, plan_one None (Some 5) xf_multi = Some p /\ p_index p = PMulti st /\ length st = 2%nat /\
  execute_one_plan ex_store p = [ev3].
Proof. exact ex_multi. Qed.
Example KVM_range_scan : exists p, plan_one None (Some 5) xf_since = Some p /\ p_index p = PSingle IxCreated [] /\
  map w_created (execute_one_plan ex_store p) = [1011; 1010].
Proof. exact ex_range. Qed.
Print Assumptions KVM_range_scan.

Example scanner_empty_db :
  index_scanner [] IxKinds [MInt 1] None None (fun _ => true) = SOk [].
Proof. vm_compute. reflexivity. Qed.
Print Assumptions scanner_empty_db.
