(* Development target for the shared LMDB model (not a property). *)
From NR Require Import Lib.Base KVM.Engine KVM.Keys KVM.Scan.
Example scanner_empty_db :
  index_scanner [] IxKinds [MInt 1] None None (fun _ => true) = SOk [].
Proof. vm_compute. reflexivity. Qed.
Print Assumptions scanner_empty_db.
