(* Development target for the shared model of the asynchronous core (not a property). *)
From NR Require Import Lib.Base Lib.Nip01 Live.Model Live.Proofs RELAY.Model.
Theorem live_filter_characterised : forall f e,
  live_filter f e = has_cond f && core_match f e
                    && after_closed (w_created e) (f_since f) && before_open (w_created e) (f_until f).
Proof. exact live_filter_spec. Qed.
Print Assumptions live_filter_characterised.
