(* Development target for the shared model of the asynchronous core; the per-property files
   C05 / C13 / C19 restate its theorems by hand; C06(a) is picked up from here by tools/gen_props.py. *)
From NR Require Import Lib.Base Lib.PyRt Lib.Nip01 Gen.Web Filt.Model Live.Model Live.Proofs RELAY.Model RELAY.Proofs RELAY.Eose.
Open Scope Z_scope.

(* C06(a): whatever the storage answers - accepted, duplicate, refused by a validator or by the role
   check, or an unexpected exception - an EVENT message is answered by exactly one OK frame and the
   connection stays open *)
Theorem C06_relay_one_ok_per_event : forall cfg st c x m rows prep cq add auth st' x' d,
  validate_message m = true -> as_str (jv_nth 0 m) = pys "EVENT" -> c_open x = true ->
  handle_msg cfg st c x m false rows prep cq add auth = (st', x', d) ->
  d = DContinue /\ exists f, c_out x' = f :: c_out x /\ is_ok f = true.
Proof. exact event_one_ok. Qed.
Print Assumptions C06_relay_one_ok_per_event.

(* a rate-limited EVENT is answered by one OK false as well (whatever its payload looks like, as far as modelled) *)
Theorem C06_relay_limited_event_one_ok : forall cfg st c x m rows prep cq add auth st' x' d,
  validate_message m = true -> as_str (jv_nth 0 m) = pys "EVENT" -> c_open x = true ->
  handle_msg cfg st c x m true rows prep cq add auth = (st', x', d) ->
  d = DUnmodelled \/ (d = DContinue /\ exists f, c_out x' = f :: c_out x /\ is_ok f = true).
Proof.
  intros cfg st c x m rows prep cq add auth st' x' d Hv Hc Ho. unfold handle_msg. rewrite Hv, Hc. simpl.
  destruct (jv_nth 1 m); try (intros E; inversion E; subst; right; split; [reflexivity|];
    eexists; split; [simpl; rewrite emit_out_open by assumption; reflexivity | reflexivity]).
  destruct (jget (pys "id") kv) as [[]|]; intros E; inversion E; subst; try (left; reflexivity);
    right; (split; [reflexivity|]); eexists; (split; [simpl; rewrite emit_out_open by assumption; reflexivity | reflexivity]).
Qed.
Print Assumptions C06_relay_limited_event_one_ok.

Theorem RELAY_live_filter_characterised : forall f e,
  live_filter f e = has_cond f && core_match f e
                    && after_closed (w_created e) (f_since f) && before_open (w_created e) (f_until f).
Proof. exact live_filter_spec. Qed.
Print Assumptions RELAY_live_filter_characterised.
