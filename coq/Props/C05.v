(* C05 - a new event reaches exactly the matching open subscriptions, once each; live matching
   agrees with stored (NIP-01) matching.  Proofs in RELAY/Proofs.v and Live/Proofs.v. *)
From NR Require Import Lib.Base Lib.Nip01 Live.Model Live.Proofs RELAY.Model RELAY.Proofs.
Open Scope Z_scope.

(* (a),(c) the fan-out creates exactly one notify task per subscription registered at that moment,
   in registry order, none for anything else, each carrying the accepted event *)
Theorem C05_fan_out_exact : forall st e,
  map (fun t => (n_cid t, n_sid t)) (fan_out st e) = registered st
  /\ Forall (fun t => n_event t = e) (fan_out st e).
Proof. exact fan_out_exact. Qed.
Print Assumptions C05_fan_out_exact.

(* each task carries the filters of its own subscription *)
Theorem C05_task_filters : forall st e t,
  In t (fan_out st e) ->
  exists x sb, get_conn (n_cid t) (r_conns st) = Some x /\ In (n_sid t, sb) (c_subs x)
               /\ n_filters t = sb_filters sb /\ n_gen t = sb_gen sb.
Proof. exact fan_out_filters. Qed.
Print Assumptions C05_task_filters.

(* (a),(b),(c) when a task runs it enqueues the event once under its own subscription id iff its filters
   match, and touches no other connection *)
Theorem C05_task_effect : forall st t,
  let st' := run_ntask st t in
  (forall c, c <> n_cid t -> get_conn c (r_conns st') = get_conn c (r_conns st)) /\
  match get_conn (n_cid t) (r_conns st) with
  | None => st' = st
  | Some x =>
      get_conn (n_cid t) (r_conns st') =
        Some (if check_event (n_filters t) (n_event t) then emit (FrEvent (n_sid t) (w_id (n_event t))) x else x)
  end.
Proof. exact run_ntask_effect. Qed.
Print Assumptions C05_task_effect.

(* (d) live matching is NIP-01 matching with the window since <= t < until: it returns every event that
   must match and only events that may match (timestamps equal to a bound excepted) *)
Theorem C05_live_is_nip01 : forall fs e,
  check_event fs e = existsb (fun f => has_cond f && core_match f e
                    && after_closed (w_created e) (f_since f) && before_open (w_created e) (f_until f)) fs.
Proof. exact check_event_spec. Qed.
Print Assumptions C05_live_is_nip01.

Theorem C05_live_between : forall f e,
  has_cond f = true ->
  (must_match f e = true -> live_filter f e = true) /\ (live_filter f e = true -> may_match f e = true).
Proof. exact live_between. Qed.
Print Assumptions C05_live_between.
