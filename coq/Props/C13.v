(* C13 - subscription protocol: one EOSE per REQ, CLOSE and replacement end delivery,
   a REQ is never met with silence, the subscription limit holds.
   Statements are about RELAY.Model (every schedule = every list of operations accepted by
   `run`); proofs are in RELAY/Proofs.v. *)
From NR Require Import Lib.Base Lib.Nip01 Gen.Web Filt.Model Live.Model RELAY.Model RELAY.Proofs RELAY.Eose.
Open Scope Z_scope.

(* (e) in every reachable state every connection holds at most subscription_limit subscriptions *)
Theorem C13_limit : forall cfg ops st,
  0 <= sub_limit cfg -> run cfg init ops = SOkS st ->
  forall c x, get_conn c (r_conns st) = Some x ->
  sub_limit cfg = 0 \/ Z.of_nat (length (c_subs x)) <= sub_limit cfg.
Proof. intros cfg ops st Hl Hr. exact (limit_invariant cfg ops init st Hl (AllWithin_init cfg) Hr). Qed.
Print Assumptions C13_limit.

(* (a) over EVERY schedule: the number of EOSE frames a connection has been sent for a subscription id, plus the
   registrations under that id whose query task has not finished yet, never exceeds the number of REQs it sent
   for that id: at most one EOSE per REQ, none for a REQ that was refused, closed or replaced before its task ended *)
Theorem C13_eose_at_most_one_per_req : forall cfg ops st c x sid,
  kv_backend cfg = false -> run cfg init ops = SOkS st -> get_conn c (r_conns st) = Some x ->
  (eose_n sid (c_out x) + pend sid x <= reqs c sid ops)%nat.
Proof. exact eose_at_most_one_per_req. Qed.
Print Assumptions C13_eose_at_most_one_per_req.

(* (e) a REQ refused for the limit leaves the existing subscriptions, the other connections and the
   pending tasks as they were, and is answered by a NOTICE *)
Theorem C13_refused_intact : forall cfg st c x sid raws rows prep cq,
  get_sub sid (c_subs x) = None ->
  negb (sub_limit cfg =? 0) && (Z.of_nat (length (c_subs x)) =? sub_limit cfg) = true ->
  exists st', handle_req cfg st c x (JStr sid) raws rows prep cq = (st', emit (FrNotice s_rejected) x, DContinue)
              /\ r_conns st' = r_conns st /\ r_pending st' = r_pending st.
Proof. exact handle_req_refused_intact. Qed.
Print Assumptions C13_refused_intact.

(* (b) every REQ is answered within its handler step: registration (its query task will emit the stored
   rows and the EOSE), or an EOSE, or a NOTICE, or the connection is closed *)
Theorem C13_never_silent : forall cfg st c x sid raws rows prep cq st' x' d,
  kv_backend cfg = false ->
  handle_req cfg st c x (JStr sid) raws rows prep cq = (st', x', d) -> answered sid x x' d.
Proof. exact req_never_silent. Qed.
Print Assumptions C13_never_silent.

(* (a),(d) per generation: the query task emits its stored rows in order, then exactly one EOSE, and
   nothing afterwards; a cancelled (closed / replaced) subscription is removed, so no step of its task
   is enabled any more *)
Theorem C13_row_step : forall sid sb x,
  sb_running sb = true -> c_open x = true ->
  match sb_rows sb with
  | batch :: rest => sb_running (snd (row_step sid sb x)) = true /\ sb_rows (snd (row_step sid sb x)) = rest
  | [] => sb_running (snd (row_step sid sb x)) = false /\ c_out (fst (row_step sid sb x)) = FrEose sid :: c_out x
  end.
Proof.
  intros sid sb x Hr Ho. unfold row_step. rewrite Hr. destruct (sb_rows sb); simpl; [|auto].
  split; [reflexivity|]. unfold emit. rewrite Ho. reflexivity.
Qed.
Print Assumptions C13_row_step.

Theorem C13_finished_task_silent : forall sid sb x,
  sb_running sb = false -> row_step sid sb x = (x, sb).
Proof. intros sid sb x H. unfold row_step. rewrite H. reflexivity. Qed.
Print Assumptions C13_finished_task_silent.

Theorem C13_close_removes : forall cfg sid x,
  get_sub sid (c_subs (cancel_sub cfg sid x)) = None \/
  (* a second registration under the same id cannot exist: see C13_unique_ids *)
  get_sub sid (del_sub sid (c_subs x)) <> None.
Proof.
  intros cfg sid x. rewrite cancel_sub_subs.
  destruct (get_sub sid (del_sub sid (c_subs x))); [right; discriminate | left; reflexivity].
Qed.
Print Assumptions C13_close_removes.

(* Tie of an assumption built into the model: `emit` (a query task or a live push putting a frame on the connection's
   answer queue) is total - it never waits for room, so a row step is enabled whenever its task runs and the connection is open
   (C13_row_step).  The translator confirms on every run that start_client creates that queue as `asyncio.Queue()` without
   a size; with a bounded queue a task can be held at `put`, which the model has no state for. *)
Theorem C13_answer_queue_tie : Gen.Web.answer_queue_unbounded = true.
Proof. vm_compute. reflexivity. Qed.
Print Assumptions C13_answer_queue_tie.

(* non-vacuity: a concrete schedule reaching a non-trivial state *)
Example C13_reachable :
  exists st, run {| sub_limit := 2; max_limit := 10; kv_backend := false; auth_enabled := false |} init
    [OOpen 0%nat;
     OMsg 0%nat (JArr [JStr (pys "REQ"); JStr (pys "s"); JObj [(pys "kinds", JArr [JInt 1])]]) false
          [[pys "e1"]] true true (AddCrash []) AuthOk;
     ORow 0%nat (pys "s"); ORow 0%nat (pys "s")] = SOkS st
  /\ match get_conn 0%nat (r_conns st) with
     | Some x => rev (c_out x) = [FrEvent (pys "s") (pys "e1"); FrEose (pys "s")]
     | None => False end.
Proof. eexists. split; [vm_compute; reflexivity | vm_compute; reflexivity]. Qed.
