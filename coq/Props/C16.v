(* C16 - configured admission policies are applied to every event, fail-closed. *)
From NR Require Import Lib.Base Lib.PyRt C16.Rt Gen.Validators Gen.Lists C16.Model C16.Spec C16.Proofs.
Open Scope Z_scope.

Theorem C16_is_recent_bound : forall now ev cfg,
  v_is_recent now ev cfg = None <-> -3600 <= now - ev_created_at ev <= cf_oldest_event cfg.
Proof. exact is_recent_bound. Qed.
Print Assumptions C16_is_recent_bound.
