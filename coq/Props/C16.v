(* C16 - configured admission policies are applied to every event, fail-closed.
   Property theorems only; proofs are in C16/Proofs.v and C16/ListProofs.v.
   v_* , run_in_order (Gen/Validators.v) and v_is_pubkey_allowed, publish_ops, tail_ops,
   ptag_pubkey (Gen/Lists.v) are regenerated from /repo on every run. *)
From NR Require Import Lib.Base Lib.PyRt C16.Rt Gen.Validators Gen.Lists C16.Model C16.Spec C16.Proofs C16.ListProofs.
Open Scope Z_scope.

(* ---------------------------------------------------------------- one bound per validator *)
Theorem C16_is_recent_bound : forall now ev cfg,
  v_is_recent now ev cfg = None <-> -3600 <= now - ev_created_at ev <= cf_oldest_event cfg.
Proof. exact is_recent_bound. Qed.
Print Assumptions C16_is_recent_bound.

Theorem C16_is_not_too_large_bound : forall now ev cfg,
  v_is_not_too_large now ev cfg = None <-> Z.of_nat (length (ev_content ev)) <= cf_max_event_size cfg.
Proof. exact is_not_too_large_bound. Qed.
Print Assumptions C16_is_not_too_large_bound.

Theorem C16_is_certain_kind_bound : forall now ev cfg,
  v_is_certain_kind now ev cfg = None <-> In (ev_kind ev) (cf_valid_kinds cfg).
Proof. exact is_certain_kind_bound. Qed.
Print Assumptions C16_is_certain_kind_bound.

Theorem C16_is_author_whitelisted_bound : forall now ev cfg,
  v_is_author_whitelisted now ev cfg = None <-> In (ev_pubkey ev) (cf_pubkey_whitelist cfg).
Proof. exact is_author_whitelisted_bound. Qed.
Print Assumptions C16_is_author_whitelisted_bound.

Theorem C16_is_author_blacklisted_bound : forall now ev cfg,
  v_is_author_blacklisted now ev cfg = None <-> ~ In (ev_pubkey ev) (cf_pubkey_blacklist cfg).
Proof. exact is_author_blacklisted_bound. Qed.
Print Assumptions C16_is_author_blacklisted_bound.

(* is_pow <-> id < 2^(256 - require_pow) ... *)
Theorem C16_is_pow_bound : forall now ev cfg,
  v_is_pow now ev cfg = None <-> int_of_hex (ev_id ev) < 2 ^ (256 - cf_require_pow cfg).
Proof. exact is_pow_bound. Qed.
Print Assumptions C16_is_pow_bound.

(* ... i.e. the 64-digit id has at least that many leading zero bits *)
Theorem C16_is_pow_leading_zeros : forall now ev cfg,
  all_hex (ev_id ev) = true -> Z.of_nat (length (ev_id ev)) = 64 ->
  (v_is_pow now ev cfg = None <-> cf_require_pow cfg <= leading_zeros (bits_of_hex (ev_id ev))).
Proof. exact is_pow_leading_zeros. Qed.
Print Assumptions C16_is_pow_leading_zeros.

Theorem C16_is_not_hellthread_bound : forall now ev cfg,
  v_is_not_hellthread now ev cfg = None <->
  cf_hellthread_limit cfg = 0 \/ ~ In (ev_kind ev) [1; 7] \/ p_count ev <= cf_hellthread_limit cfg.
Proof. exact is_not_hellthread_bound. Qed.
Print Assumptions C16_is_not_hellthread_bound.

Theorem C16_is_service_event_bound : forall now ev cfg,
  v_is_service_event now ev cfg = None <-> ev_kind ev <> 31494 \/ ev_pubkey ev = cf_service_pubkey cfg.
Proof. exact is_service_event_bound. Qed.
Print Assumptions C16_is_service_event_bound.

Theorem C16_is_pubkey_allowed_bound : forall allowed denied ev,
  v_is_pubkey_allowed allowed denied ev = None <->
  match py_fromhex (ev_pubkey ev) with
  | Some b => (is_nil allowed || bmem b allowed) && (is_nil denied || negb (bmem b denied))
  | None => is_nil allowed && is_nil denied
  end = true.
Proof. exact is_pubkey_allowed_spec. Qed.
Print Assumptions C16_is_pubkey_allowed_bound.

(* all ten, as the code runs them (id through bytes.fromhex, t[0] on every tag, Event.verify an
   oracle), against the independent statement of the bounds in C16/Spec.v *)
Theorem C16_validator_spec : forall v e ev,
  in_domain v e ev = true -> (run_validator v e ev = None <-> spec_passes v e ev = true).
Proof. exact validator_spec. Qed.
Print Assumptions C16_validator_spec.

(* ---------------------------------------------------------------- the pipeline *)
(* stored or broadcast -> every configured validator passed; first raise wins; a refusal
   carries a reason and leaves no trace *)
Theorem C16_pipeline_all : forall vs e ev st,
  (fst (submit vs e ev st) = Accepted <-> forall v, In v vs -> run_validator v e ev = None) /\
  (snd (submit vs e ev st) <> st -> forall v, In v vs -> run_validator v e ev = None) /\
  (forall err, fst (submit vs e ev st) = Refused err ->
     snd (submit vs e ev st) = st /\
     exists pre v post, vs = pre ++ v :: post /\ (forall u, In u pre -> run_validator u e ev = None) /\
                        run_validator v e ev = Some err).
Proof. exact submit_all. Qed.
Print Assumptions C16_pipeline_all.

Theorem C16_pipeline_bounds : forall vs e ev st,
  fst (submit vs e ev st) = Accepted ->
  forall v, In v vs -> in_domain v e ev = true -> spec_passes v e ev = true.
Proof. exact submit_bounds. Qed.
Print Assumptions C16_pipeline_bounds.

Theorem C16_refusal_justified : forall vs e ev st err,
  fst (submit vs e ev st) = Refused err ->
  exists v, In v vs /\ (in_domain v e ev = true -> spec_passes v e ev = false).
Proof. exact submit_refusal_justified. Qed.
Print Assumptions C16_refusal_justified.

(* ---------------------------------------------------------------- dynamic lists *)
(* the collected set is exactly the p-tagged pubkeys of the query results *)
Theorem C16_collect_exact : forall events b, In b (collect events) <-> collected_spec events b.
Proof. exact collected_meaning. Qed.
Print Assumptions C16_collect_exact.

(* a validation that is not interleaved with anything is the translated function *)
Theorem C16_reader_atomic : forall σ ev,
  rstep (ev_pubkey ev) σ (rstep (ev_pubkey ev) σ (rstep (ev_pubkey ev) σ (rstep (ev_pubkey ev) σ RA0)))
  = RDone (v_is_pubkey_allowed (g_allow σ) (g_deny σ) ev).
Proof. exact reader_atomic. Qed.
Print Assumptions C16_reader_atomic.

(* the program the theorems below are about is the translated run_once *)
Theorem C16_refresh_prog : forall old results initial,
  refresh_prog results initial = prog_of (case_of old results initial).
Proof. exact refresh_prog_of. Qed.
Print Assumptions C16_refresh_prog.

(* for ALL schedules (any number of validator threads, any interleaving of their atomic reads
   with the atomic steps of the refresh): an enforced allow list is never observed empty *)
Theorem C16_refresh_never_empty : forall c pks sched,
  enforced_allow c = true -> g_allow (s_sets (srun sched (sys0 c pks))) <> [].
Proof. exact refresh_never_empty. Qed.
Print Assumptions C16_refresh_never_empty.

(* ... a pubkey in neither the old list, the new list nor the static keys is refused, and so
   is a pubkey on the deny list before and after *)
Theorem C16_refresh_refuses : forall c pks sched i pk r,
  must_refuse c pk = true ->
  nth_error (s_readers (srun sched (sys0 c pks))) i = Some (pk, RDone r) -> r <> None.
Proof. exact refresh_refuses. Qed.
Print Assumptions C16_refresh_refuses.

(* ... a pubkey allowed before and after and never denied is admitted *)
Theorem C16_refresh_admits : forall c pks sched i pk r,
  must_admit c pk = true ->
  nth_error (s_readers (srun sched (sys0 c pks))) i = Some (pk, RDone r) -> r = None.
Proof. exact refresh_admits. Qed.
Print Assumptions C16_refresh_admits.

(* ... and when the refresh has completed, the lists are exactly the collected pubkeys plus
   (allow list, when non-empty) the static keys *)
Theorem C16_refresh_final : forall c pks sched,
  s_writer (srun sched (sys0 c pks)) = [] ->
  initial_ok c = true ->
  same_set (g_allow (s_sets (srun sched (sys0 c pks)))) (final_allow c) /\
  same_set (g_deny (s_sets (srun sched (sys0 c pks)))) (final_deny c).
Proof. exact refresh_final. Qed.
Print Assumptions C16_refresh_final.

(* F20 (fixed in /repo): the previous shape clear(); update() lets a validation see the
   enforced list empty and admit an outsider - witness schedule [writer; reader; reader] *)
Theorem C16_refresh_old_shape_refuted :
  enforced_allow (case_of f20_old (fun g => match g with GAllow => Some f20_events | GDeny => None end) []) = true /\
  must_refuse (case_of f20_old (fun g => match g with GAllow => Some f20_events | GDeny => None end) []) f20_outsider = true /\
  g_allow (s_sets (srun [O] f20_sys)) = [] /\
  s_readers (srun [0; 1; 1]%nat f20_sys) = [(f20_outsider, RDone None)].
Proof. exact f20_old_shape_refuted. Qed.
Print Assumptions C16_refresh_old_shape_refuted.

(* ---------------------------------------------------------------- non-vacuity *)
Definition ex_cfg : vconfig :=
  {| cf_max_event_size := 5; cf_oldest_event := 100; cf_valid_kinds := [1]; cf_pubkey_whitelist := [];
     cf_pubkey_blacklist := []; cf_require_pow := 8; cf_hellthread_limit := 1; cf_service_pubkey := [];
     cf_subscription_limit := 32; cf_max_limit := 6000 |}.
Definition ex_ev (created : Z) (content : pystr) : vevent :=
  {| ev_id := pys "00" ++ repeat 102%N 62; ev_pubkey := repeat 49%N 64; ev_created_at := created; ev_kind := 1;
     ev_tags := [[pys "p"; repeat 49%N 64]]; ev_content := content; ev_sig := [] |}.
Definition ex_env : venv :=
  {| e_now := 1000; e_cfg := ex_cfg; e_verify := VTrue; e_lists := {| g_allow := []; g_deny := [] |} |}.
Definition ex_relay : relay := {| r_stored := []; r_broadcast := [] |}.
Definition all_vids := [VTooLarge; VSigned; VRecent; VKind; VPow; VHell; VService; VDyn].

(* an event at every bound at once is admitted by the eight-validator pipeline ... *)
Example C16_ex_admitted :
  fst (submit all_vids ex_env (ex_ev 900 (pys "abcde")) ex_relay) = Accepted /\
  Forall (fun v => in_domain v ex_env (ex_ev 900 (pys "abcde")) = true) all_vids.
Proof. vm_compute. split; [reflexivity | repeat constructor]. Qed.
(* ... and one step outside a single bound (age 101 > 100; 6 > 5 characters) it is refused *)
Example C16_ex_refused :
  fst (submit all_vids ex_env (ex_ev 899 (pys "abcde")) ex_relay) = Refused (pys "StorageError") /\
  fst (submit all_vids ex_env (ex_ev 900 (pys "abcdef")) ex_relay) = Refused (pys "StorageError").
Proof. vm_compute. split; reflexivity. Qed.

(* a refresh case in which all three reader classes are inhabited *)
Definition ex_case : refresh_case :=
  {| rc_old := {| g_allow := [[1%N]; [2%N]]; g_deny := [[9%N]] |}; rc_new_allow := Some [[2%N]; [3%N]];
     rc_new_deny := Some [[9%N]]; rc_initial := [pys "04"] |}.
Example C16_ex_refresh_classes :
  enforced_allow ex_case = true /\ must_refuse ex_case (pys "05") = true /\ must_refuse ex_case (pys "09") = true /\
  must_admit ex_case (pys "02") = true /\ initial_ok ex_case = true /\
  s_writer (srun (repeat O 8) (sys0 ex_case [pys "02"])) = [].
Proof. vm_compute. repeat split. Qed.
