(* Development target for the LMDB write-path model (not a property). *)
From NR Require Import Lib.Base KVW.Types KVW.Entries KVW.Write KVW.PostSave KVW.Gc KVW.Run.
Example kvw_init_coherent : KVW.Oracles.coherent_b init_db = true.
Proof. vm_compute. reflexivity. Qed.
Print Assumptions kvw_init_coherent.
