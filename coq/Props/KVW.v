(* Development target for the LMDB write path: the LMDB halves of C07, C09, C08, C17, C06
   (final statements in coq/KVW/Thm_*.v), re-stated for Print Assumptions.  C10 has its own file. *)
From NR Require Import KVW.Thm_Common KVW.Thm_C07 KVW.Thm_C09 KVW.Thm_C08 KVW.Thm_C17 KVW.Thm_C06 KVW.Run.
Print Assumptions C07_kv_single_txn.
Print Assumptions C07_kv_fail_at_k.
Print Assumptions C07_kv_kill_at_k.
Print Assumptions C07_kv_later_unaffected.
Print Assumptions C09_kv_replace.
Print Assumptions C09_kv_newest_survives.
Print Assumptions C09_kv_regular_removes_nothing.
Print Assumptions C08_kv_delete.
Print Assumptions C08_kv_deleted_unreachable.
Print Assumptions C17_kv_collect_exact.
Print Assumptions C17_kv_gc_exact.
Print Assumptions C17_kv_gc_frame.
Print Assumptions C06_kv_refused_no_trace.
Print Assumptions C06_kv_duplicate.
Print Assumptions C06_kv_valid_accepted.
Print Assumptions C06_kv_ack_true_stored.
Print Assumptions C06_kv_qinv_submit.
Print Assumptions C06_kv_qinv_writer_step.
Print Assumptions C06_kv_ack_true_queued.
Print Assumptions C06_kv_ack_true_stored_refuted_engine_failure.
Print Assumptions inv_history.
Example kvw_init_coherent : coherent_b KVW.Run.init_db = true.
Proof. vm_compute. reflexivity. Qed.
