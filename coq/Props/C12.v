(* C12 - a limit returns the newest matching events, never more than allowed.
   Assembled by tools/gen_props.py from Props/SQLM.v, Props/KVM.v: property theorems only
   (statement, `exact`, Print Assumptions); the proofs live in the backend model directories.
   Each backend's theorems sit in their own module so that equally named definitions of the two
   backend models cannot shadow one another. *)
From NR Require Lib.Base Lib.Nip01 SQLM.Rel SQLM.Write SQLM.Query SQLM.Text SQLM.Where SQLM.Req SQLM.Spec SQLM.Proofs_Text SQLM.Proofs_Shape SQLM.Proofs_Rel SQLM.Proofs_Write SQLM.Proofs_Gc SQLM.Proofs_Where SQLM.Proofs_Hist SQLM.Abbrev SQLM.Proofs_Const SQLM.Proofs_SaText SQLM.Thm_C09 SQLM.Thm_C08 SQLM.Thm_C17 SQLM.Thm_C07 SQLM.Thm_C06 SQLM.Thm_C01 SQLM.Thm_C12 SQLM.Thm_C02 SQLM.Thm_C11 SQLM.Run.
From NR Require Gen.SqlConst Gen.Kinds.
From Coq Require Sorting.Permutation.
From NR Require Lib.Base Lib.Nip01 KVM.Engine KVM.Keys KVM.Scan KVM.ScanSpec KVM.Order KVM.Coherent KVM.Plan KVM.Match KVM.Exec KVM.Spec KVM.Proofs_Scan KVM.Proofs_Blocks KVM.Proofs_ScanTop KVM.Proofs_Coherent KVM.Proofs_Match KVM.Proofs_Exec KVM.Proofs_Hit KVM.Proofs_Const KVM.Thm_C01 KVM.Thm_C02 KVM.Thm_C11 KVM.Thm_C12 KVM.Proofs_HexOrder KVM.Check KVM.Examples.
From NR Require Gen.KVConst.

(* ================= SQL backend (nostr_relay/storage/db.py) ================= *)
Module SQLM.
Import Lib.Base Lib.Nip01 SQLM.Rel SQLM.Write SQLM.Query SQLM.Text SQLM.Where SQLM.Req SQLM.Spec SQLM.Proofs_Text SQLM.Proofs_Shape SQLM.Proofs_Rel SQLM.Proofs_Write SQLM.Proofs_Gc SQLM.Proofs_Where SQLM.Proofs_Hist SQLM.Abbrev SQLM.Proofs_Const SQLM.Proofs_SaText SQLM.Thm_C09 SQLM.Thm_C08 SQLM.Thm_C17 SQLM.Thm_C07 SQLM.Thm_C06 SQLM.Thm_C01 SQLM.Thm_C12 SQLM.Thm_C02 SQLM.Thm_C11 SQLM.Run.
Import Gen.SqlConst Gen.Kinds.
Import Sorting.Permutation.
Open Scope list_scope. Open Scope Z_scope.

(* ---------------- C12 ---------------- *)
Theorem C12_sql_limit_newest : forall d q, 0 <= q_limit q ->
  Z.of_nat (length (answer d q)) <= q_limit q /\
  (forall r, In r (answer d q) -> In r (matching d (q_where q))) /\
  (forall x y, In x (matching d (q_where q)) -> ~ In x (answer d q) -> In y (answer d q) -> r_created x <= r_created y) /\
  (Z.of_nat (length (matching d (q_where q))) <= q_limit q -> Permutation (answer d q) (matching d (q_where q))).
Proof. exact sql_limit_newest. Qed.
Print Assumptions C12_sql_limit_newest.

Theorem C12_sql_limit_value_single_partial : forall dl ml f, evaluate_filter f <> None ->
  query_limit dl ml [f] = match f_limit f with Some l => Z.min l dl | None => dl end.
Proof. exact sql_limit_value_single. Qed.
Print Assumptions C12_sql_limit_value_single_partial.

Theorem C12_sql_limit_value_last : forall dl ml fs f, evaluate_filter f <> None ->
  query_limit dl ml (fs ++ [f]) = match f_limit f with Some l => Z.min l dl | None => query_limit dl ml fs end.
Proof. exact sql_limit_value_last. Qed.
Print Assumptions C12_sql_limit_value_last.

Theorem C12_sql_multi_filter_limit_refuted : exists dl ml d fs, per_filter_limit_ok dl ml d fs = false.
Proof. exact sql_multi_filter_limit_refuted. Qed.
Print Assumptions C12_sql_multi_filter_limit_refuted.

(* ---- supporting theorems of this backend model (invariants, ties to the source, non-vacuity) ---- *)
(* primary key, TagsCoherent (tags table = the tag rows process_tags derives from the stored events), rows well-formed *)
Theorem SQLM_history_invariant : forall now h, Inv (run_history now h).
Proof. exact history_Inv. Qed.
Print Assumptions SQLM_history_invariant.

(* for an admitted event the stored form is the event itself *)
Theorem SQLM_canonical : forall e r, wf_wevent e = true -> row_of_event e = Some r -> event_of_row r = e.
Proof. exact sql_canonical. Qed.
Print Assumptions SQLM_canonical.

(* ---------------- ties to the source, re-checked against Gen/*.v on every run ---------------- *)
Theorem SQLM_gc_query_tie : lex Gen.SqlConst.gc_query = Some gc_template.
Proof. exact gc_query_tie. Qed.
Print Assumptions SQLM_gc_query_tie.

Theorem SQLM_select_text_tie : lex Gen.SqlConst.select_text = Some select_head /\ lex (Gen.SqlConst.tail_text ++ pys "5") = Some (select_tail 5).
Proof. split; [exact select_text_tie | exact tail_text_tie]. Qed.
Print Assumptions SQLM_select_text_tie.

Theorem SQLM_interpolation_lint : Gen.SqlConst.sql_interpolations_ok = true.
Proof. exact sql_interpolations_checked. Qed.
Print Assumptions SQLM_interpolation_lint.

(* the model gives a failed or cancelled save / query no lasting effect on later operations (`C07_sql_fail_at_k_restores`, `C07_sql_later_events_unaffected`): the code holds its
   slots, locks, connections and transactions (`C07_sql_single_txn`: committed or rolled back as a whole) only through `async with` / `with`, and shields nothing from cancellation *)
Theorem SQLM_waits_scoped_lint : Gen.SqlConst.sql_waits_scoped = true.
Proof. vm_compute. reflexivity. Qed.
Print Assumptions SQLM_waits_scoped_lint.

Theorem SQLM_indexed_name_tie : forall n, indexed_name n = mem_str n Gen.SqlConst.indexed_long_names || Nat.eqb (length n) 1.
Proof. exact indexed_name_tie. Qed.
Print Assumptions SQLM_indexed_name_tie.

Theorem SQLM_kinds_tie : forall e,
  is_repl_py (w_kind e) = k_is_replaceable (vev e) /\ is_param_py (w_kind e) = k_is_paramaterized_replaceable (vev e) /\
  Write.kind_DELETE = Gen.Kinds.kind_DELETE /\ Write.kind_SET_METADATA = Gen.Kinds.kind_SET_METADATA /\
  Write.kind_CONTACTS = Gen.Kinds.kind_CONTACTS.
Proof. exact kinds_tie. Qed.
Print Assumptions SQLM_kinds_tie.

(* non-vacuity of the history-level hypotheses: a reachable, non-trivial store satisfying wf_history *)
Example SQLM_history_inhabited :
  wf_wevent (Examples.mkev "01" "aa" 10 1 [["t"; "x"]]%string) = true /\
  length (d_events (run_history Examples.now0 [Examples.mkev "01" "aa" 10 1 [["t"; "x"]]%string])) = 1%nat /\
  length (d_tags (run_history Examples.now0 [Examples.mkev "01" "aa" 10 1 [["t"; "x"]]%string])) = 1%nat.
Proof. vm_compute. repeat split; reflexivity. Qed.

End SQLM.

(* ================= LMDB query path (kv.py scanner, planner, matcher, executor) ================= *)
Module KVM.
Import Lib.Base Lib.Nip01 KVM.Engine KVM.Keys KVM.Scan KVM.ScanSpec KVM.Order KVM.Coherent KVM.Plan KVM.Match KVM.Exec KVM.Spec KVM.Proofs_Scan KVM.Proofs_Blocks KVM.Proofs_ScanTop KVM.Proofs_Coherent KVM.Proofs_Match KVM.Proofs_Exec KVM.Proofs_Hit KVM.Proofs_Const KVM.Thm_C01 KVM.Thm_C02 KVM.Thm_C11 KVM.Thm_C12 KVM.Proofs_HexOrder KVM.Check KVM.Examples.
Open Scope list_scope. Open Scope Z_scope.

(* ===== C12-kv ===== *)
Theorem C12_kv_never_more_than_allowed : forall mx d f p, plan_one None (Some mx) f = Some p -> 0 <= eff_limit mx f ->
  Z.of_nat (length (execute_one_plan d p)) <= eff_limit mx f.
Proof. exact C12_kv_cap. Qed.
Print Assumptions C12_kv_never_more_than_allowed.

Theorem C12_kv_newest_kept_partial : forall dl mx d f p x y,
  Coherent d -> (forall e, stored d e -> tags_ok e) -> wf_filter f -> ids_desc f -> plan_one dl mx f = Some p ->
  single_block_plan p ->
  stored d x -> must_match f x = true -> delegator_only_match f x = false ->
  In y (execute_one_plan d p) -> ~ In x (execute_one_plan d p) -> w_created x <= w_created y.
Proof. exact C12_kv_newest_partial. Qed.
Print Assumptions C12_kv_newest_kept_partial.

(* several filters in one REQ: each is planned and served on its own, under its own limit; the subscriber receives the
   concatenation of what it would receive for each of the first maximum_plans filters sent alone *)
Theorem C12_kv_several_filters_concat : forall dl mx d fs,
  answer_kv dl mx d fs = flat_map (fun f => answer_kv dl mx d [f]) (firstn maximum_plans fs).
Proof. exact C12_kv_req_is_concat. Qed.
Print Assumptions C12_kv_several_filters_concat.

Theorem C12_kv_filters_do_not_interfere : forall dl mx d fs f e,
  In f (firstn maximum_plans fs) -> In e (answer_kv dl mx d [f]) -> In e (answer_kv dl mx d fs).
Proof. exact C12_kv_req_filter_independent. Qed.
Print Assumptions C12_kv_filters_do_not_interfere.

(* ===== refutations at store level (open findings F16 multi-value and F07) ===== *)
Theorem C12_kv_refuted : exists d f p x y,
  Coherent d /\ wf_filter f /\ plan_one None (Some 5) f = Some p /\ multi_match_filter f = true /\
  stored d x /\ must_match f x = true /\ In y (execute_one_plan d p) /\ ~ In x (execute_one_plan d p) /\
  w_created y < w_created x.
Proof. exact C12_kv_refuted_multi_value. Qed.
Print Assumptions C12_kv_refuted.

(* ---- supporting theorems of this backend model (invariants, ties to the source, non-vacuity) ---- *)
(* Index.scanner returns exactly the entries of the requested blocks inside the closed window, per match in
   order, newest first, for EVERY strictly sorted keyspace of byte strings that contains the tombstone, whose
   long keys end with 00 ++ id(32) (Shaped) and whose first key does not belong to the scanned index (floor_ok):
   foreign keys next to every block boundary, values extending / prefixing the requested one, values with the
   00 separator inside, ids starting ff, neighbouring index prefixes included.  Never out of fuel. *)
Theorem KVM_scanner_correct : scanner_correct_statement.
Proof. exact scanner_correct. Qed.
Print Assumptions KVM_scanner_correct.

Theorem KVM_scanner_correct_coherent : forall d i ms since until ev,
  Coherent d ->
  (forall cms, compile (map (to_key i) ms) = Some cms -> (cms <> [] \/ i = IxCreated) /\ (i = IxIds -> Desc cms)) ->
  index_scanner (keys d) i ms since until ev = scan_spec (keys d) i ms since until ev.
Proof. exact scanner_correct_coherent. Qed.
Print Assumptions KVM_scanner_correct_coherent.

(* the hypothesis ids_desc follows from what model_validate does to 64-digit ids (lower case, sorted descending, deduplicated) *)
Theorem KVM_ids_desc_of_sorted : forall f,
  (forall l, f_ids f = Some l -> Forall (fun v => hex64 v = true) l /\ Sorted.StronglySorted (fun a b => lex_cmp b a = Lt) l) ->
  ids_desc f.
Proof. exact ids_desc_of_sorted. Qed.
Print Assumptions KVM_ids_desc_of_sorted.

(* ===== the model's constants are the source's ===== *)
Theorem KVM_constants : idx_prefix IxTags = KVConst.prefix_tags /\ tombstone = KVConst.tombstone_key /\
  Plan.maximum_plans = KVConst.maximum_plans /\ (forall k c i, entry_key k c i = fill KVConst.entry_format [k; c; i]) /\
  (forall t, Coherent.tag_indexable t = KVConst.tag_indexable t).
Proof.
  split; [apply prefixes_agree|]. split; [exact tombstone_agrees|]. split; [exact maximum_plans_agrees|].
  split; [exact entry_key_format|exact tag_indexable_agrees].
Qed.
Print Assumptions KVM_constants.

(* a limit of at least the number of stored events never truncates *)
Theorem KVM_at_most_total : forall d P n, Z.of_nat (length (stored_events d)) <= n -> at_most d P n.
Proof. exact at_most_total. Qed.
Print Assumptions KVM_at_most_total.

(* the hypotheses floor_ok and Shaped of scanner_correct cannot be dropped *)
Example KVM_scanner_needs_floor :
  sortedb ks_nofloor = true /\ In tombstone ks_nofloor /\
  index_scanner ks_nofloor IxTags [MStrStr (pys "t") [97; 98; 0; 1]%N; MStrStr (pys "t") (pys "ab")] None None (fun _ => true) = SOk [id32 7] /\
  scan_spec ks_nofloor IxTags [MStrStr (pys "t") [97; 98; 0; 1]%N; MStrStr (pys "t") (pys "ab")] None None (fun _ => true) = SOk [id32 7; id32 8].
Proof. exact scanner_needs_floor. Qed.

Example KVM_scanner_needs_shape :
  sortedb ks_unshaped = true /\
  index_scanner ks_unshaped IxKinds [MInt 1] None None (fun _ => true) = SOk [id32 7] /\
  scan_spec ks_unshaped IxKinds [MInt 1] None None (fun _ => true) = SOk [].
Proof. exact scanner_needs_shape. Qed.

(* ===== non-vacuity: a concrete coherent store with four events (one delegated), and the model on it ===== *)
Example KVM_store_coherent : Coherent ex_store /\ (forall e, stored ex_store e -> tags_ok e) /\ length (stored_events ex_store) = 4%nat.
Proof. split; [exact ex_coherent|]. split; [exact ex_tags_ok|exact ex_size]. Qed.
Print Assumptions KVM_store_coherent.

Example KVM_single_index : exists p, plan_one None (Some 5) xf_k7 = Some p /\ execute_one_plan ex_store p = [ev4; ev3] /\ single_block_plan p.
Proof. exact ex_k7. Qed.

Example KVM_single_index_hypotheses : wf_filter xf_k7 /\ ids_desc xf_k7 /\ range_scan_refused xf_k7 = false /\
  at_most ex_store (may_match xf_k7) 5 /\ must_match xf_k7 ev3 = true /\ delegator_only_match xf_k7 ev3 = false.
Proof. exact ex_k7_hypotheses. Qed.

Example KVM_id_index : exists p, plan_one None (Some 5) xf_id = Some p /\ map w_id (execute_one_plan ex_store p) = [hx 51; hx 49].
Proof. exact ex_ids. Qed.

Example KVM_id_index_desc : ids_desc xf_id.
Proof. exact ex_ids_desc. Qed.

Example KVM_multi_index : exists p st, plan_one None (Some 5) xf_multi = Some p /\ p_index p = PMulti st /\ length st = 2%nat /\
  execute_one_plan ex_store p = [ev3].
Proof. exact ex_multi. Qed.

Example KVM_range_scan : exists p, plan_one None (Some 5) xf_since = Some p /\ p_index p = PSingle IxCreated [] /\
  map w_created (execute_one_plan ex_store p) = [1011; 1010].
Proof. exact ex_range. Qed.
Print Assumptions KVM_range_scan.

Example scanner_empty_db :
  index_scanner [] IxKinds [MInt 1] None None (fun _ => true) = SOk [].
Proof. vm_compute. reflexivity. Qed.
Print Assumptions scanner_empty_db.

End KVM.
