From NR Require Import Lib.Base Lib.PyRt C15.Rt Gen.Auth C14.Model C14.Spec C14.Proofs.
Theorem C14_placeholder : default_roles = anonymous.
Proof. exact placeholder. Qed.
Print Assumptions C14_placeholder.
