(* C14 - role-based authorization is enforced on every read and write path.
   Property theorems only; proofs are in C14/Proofs.v.  can_do_core, default_roles,
   evaluate_target_save_query and the path booleans sql/kv_save_checked,
   subscribe_query_checked, sql/kv_stored_output_checked, live_output_checked are regenerated
   from /repo on every run (Gen/Auth.v): should a check disappear from a path, the boolean
   turns false and the corresponding theorem below no longer type-checks. *)
From NR Require Import Lib.Base Lib.PyRt C15.Rt Gen.Auth C14.Model C14.Spec C14.Proofs.
From Coq Require Import Sorting.Sorted.
Open Scope Z_scope.

(* can_do = (authentication disabled, or the token's roles - anonymous without a token - intersect
   the roles configured for the action) *)
Theorem C14_can_do_spec : forall c tk a, can_do c tk a = true <-> permitted c tk a.
Proof. exact can_do_spec. Qed.
Print Assumptions C14_can_do_spec.

(* stored or broadcast -> the roles intersect those for 'save' - on BOTH backends;
   the refusal is 'restricted' exactly when a well-formed, valid event lacks the role *)
Theorem C14_save_checked : forall b c tk ctor_ok valid,
  add_event b c tk ctor_ok valid = AddDone <-> ctor_ok = true /\ valid = true /\ permitted c tk ASave.
Proof. exact add_event_done. Qed.
Print Assumptions C14_save_checked.

Theorem C14_save_restricted : forall b c tk ctor_ok valid,
  add_event b c tk ctor_ok valid = AddRestricted <-> ctor_ok = true /\ valid = true /\ ~ permitted c tk ASave.
Proof. exact add_event_restricted. Qed.
Print Assumptions C14_save_restricted.

(* a REQ is served (registered and its query started) only if the roles intersect those for 'query' *)
Theorem C14_query_checked : forall c tk limit subs sid f p subs',
  subscribe c tk limit subs sid f p = (SubStarted, subs') -> permitted c tk AQuery /\ In sid subs'.
Proof. exact subscribe_started. Qed.
Print Assumptions C14_query_checked.

(* otherwise nothing is registered under that id and no other subscription appears *)
Theorem C14_query_refused_nothing_registered : forall c tk limit subs sid f p o subs',
  subscribe c tk limit subs sid f p = (o, subs') -> o <> SubStarted ->
  ~ In sid subs' /\ (forall s, In s subs' -> In s subs).
Proof. exact subscribe_not_started. Qed.
Print Assumptions C14_query_refused_nothing_registered.

Theorem C14_query_restricted_only_without_role : forall c tk limit subs sid f p subs',
  subscribe c tk limit subs sid f p = (SubRestricted, subs') -> ~ permitted c tk AQuery.
Proof. exact subscribe_restricted. Qed.
Print Assumptions C14_query_restricted_only_without_role.

Theorem C14_query_served_with_role : forall c tk limit subs sid,
  permitted c tk AQuery ->
  (limit = 0 \/ Z.of_nat (length (filter (fun s => negb (str_eqb s sid)) subs)) <> limit) ->
  fst (subscribe c tk limit subs sid true true) = SubStarted.
Proof. exact subscribe_permitted_starts. Qed.
Print Assumptions C14_query_served_with_role.

(* every event put on a connection's queue passed the configured output validator:
   from storage (both backends) ... *)
Theorem C14_output_checked_stored : forall (event ctx : Type) (ov : option (event -> ctx -> bool)) b x results e,
  In e (deliver_stored event ctx ov b x results) <-> In e results /\ passes event ctx ov e x = true.
Proof. exact deliver_stored_spec. Qed.
Print Assumptions C14_output_checked_stored.

(* ... and pushed live *)
Theorem C14_output_checked_live : forall (event ctx : Type) (ov : option (event -> ctx -> bool)) x matched e e',
  In e' (deliver_live event ctx ov x matched e) <-> e' = e /\ matched = true /\ passes event ctx ov e x = true.
Proof. exact deliver_live_spec. Qed.
Print Assumptions C14_output_checked_live.

(* role assignments read back exactly as last set, for all assignment sequences: SQL auth table *)
Theorem C14_roles_readback_sql : forall assignments pk,
  sql_get_roles (sql_apply [] assignments) pk = expected_roles assignments pk.
Proof. exact roles_readback_sql. Qed.
Print Assumptions C14_roles_readback_sql.

(* LMDB: over the abstract "newest kind-31494 service event per d value wins" store, for all
   assignment sequences made at strictly increasing clock values *)
Theorem C14_roles_readback_kv : forall ops pk,
  StronglySorted (fun a b => op_time a < op_time b) ops ->
  kv_get_roles (kv_apply [] ops) pk = expected_roles (map op_assign ops) pk.
Proof. exact roles_readback_kv. Qed.
Print Assumptions C14_roles_readback_kv.

(* the boolean of the executable statement is the statement *)
Theorem C14_oracle_is_statement : forall c tk a, permittedb c tk a = true <-> permitted c tk a.
Proof. exact permittedb_spec. Qed.
Print Assumptions C14_oracle_is_statement.

(* ---------------------------------------------------------------- non-vacuity *)
Definition ex_cfg : authcfg := {| ac_enabled := true; ac_save := pys "w"; ac_query := pys "rs" |}.
Example C14_ex_cells :
  add_event Kv ex_cfg (Some (pys "rw")) true true = AddDone /\
  add_event Kv ex_cfg (Some (pys "r")) true true = AddRestricted /\
  add_event Sql ex_cfg None true true = AddRestricted /\
  subscribe ex_cfg (Some (pys "s")) 32 [pys "s"] (pys "s") true true = (SubStarted, [pys "s"]) /\
  subscribe ex_cfg None 32 [pys "old"] (pys "s") true true = (SubRestricted, [pys "old"]) /\
  deliver_live pystr unit (Some (fun a _ => negb (str_eqb a (pys "M")))) tt true (pys "M") = [] /\
  deliver_live pystr unit (Some (fun a _ => negb (str_eqb a (pys "M")))) tt true (pys "C") = [pys "C"] /\
  sql_get_roles (sql_apply [] [(pys "k", pys "r"); (pys "j", pys "s"); (pys "k", pys "Ww")]) (pys "k") = pys "ww" /\
  kv_get_roles (kv_apply [] [(1, pys "k", pys "r"); (2, pys "j", pys "s"); (3, pys "k", pys "Ww")]) (pys "k") = pys "ww" /\
  kv_get_roles (kv_apply [] [(1, pys "k", pys "r")]) (pys "other") = anonymous.
Proof. vm_compute. repeat split. Qed.
