(* C18 - rate limits bound admitted messages per window and do not over-block.
   Property theorems only; proofs are in C18/Proofs.v. *)
From NR Require Import Lib.Base C18.Model C18.Spec C18.Proofs C18.Lift.
Open Scope Z_scope.

(* Tie between the code's deque (trimmed, cleared) and the sliding-window log:
   for every rule list, every deque/log pair related by Rel and every later
   arrival time, the code's decision equals the specification's and Rel is kept. *)
Theorem C18_refines : forall rules ts log last t,
  Rel rules ts log last -> last <= t ->
  fst (deque_step rules ts t) = fst (spec_step rules log t) /\
  Rel rules (snd (deque_step rules ts t)) (snd (spec_step rules log t)) t.
Proof. exact deque_step_refines. Qed.
Print Assumptions C18_refines.

(* The same for RateLimiter.is_limited as a whole (address-specific rules first and alone, otherwise global
   then ip): over every configuration and every arrival sequence with a non-decreasing clock whose
   addresses are not literally "global"/"ip", the model's verdicts are the specification's. *)
Theorem C18_limiter_refines_spec : forall cfg arr,
  times_ok 0 arr -> fst (run cfg [] arr) = fst (spec_run cfg [] arr).
Proof. exact limiter_refines_spec. Qed.
Print Assumptions C18_limiter_refines_spec.

(* RateLimiter.cleanup (run whenever a client disconnects) keeps the refinement: it only forgets what no
   rule governing a per-address deque can count any more *)
Theorem C18_cleanup_refines : forall cfg s sp last now,
  SRel cfg last s sp -> last <= now -> buckets_ok s -> SRel cfg now (cleanup cfg now s) sp.
Proof. exact cleanup_refines. Qed.
Print Assumptions C18_cleanup_refines.

(* never more than n let through in any window of the rule's length *)
Theorem C18_window : forall rules log t,
  LogOK rules log -> Forall (fun a => a <= t) log -> LogOK rules (snd (spec_step rules log t)).
Proof. exact spec_step_window. Qed.
Print Assumptions C18_window.

(* refused only when some rule has already passed n within its interval *)
Theorem C18_refusal_justified : forall rules log t,
  fst (spec_step rules log t) = true ->
  exists r, In r rules /\ 0 <= snd r /\ snd r <= wcount t (fst r) log.
Proof. exact spec_refusal_justified. Qed.
Print Assumptions C18_refusal_justified.

(* n = -1 exempts *)
Theorem C18_exempt : forall rules log t,
  Forall (fun r : rule => snd r < 0) rules -> fst (spec_step rules log t) = false.
Proof. exact spec_exempt. Qed.
Print Assumptions C18_exempt.

(* state per deque bounded by the configured rate, not by connection lifetime *)
Theorem C18_bounded : forall rules ts log t r,
  Rel rules ts log t -> LogOK rules log ->
  In r rules -> fst r = max_interval rules -> 1 <= fst r -> 1 <= snd r ->
  Z.of_nat (length ts) <= 2 * snd r.
Proof. exact deque_bounded. Qed.
Print Assumptions C18_bounded.

(* non-vacuity: a reachable, non-trivial related pair *)
Example C18_rel_inhabited :
  Rel [(60, 2); (1, 1)] [100; 70] [100; 70; 3] 100 /\ LogOK [(60, 2)] [100; 70].
Proof.
  split.
  - split; [simpl; repeat constructor; lia|]. exists 100. split; [lia|]. split; [repeat constructor; lia | reflexivity].
  - split; [simpl; repeat constructor; lia|]. intros r [<-|[]] _ T. unfold wcount, in_window. simpl.
    destruct (100 <=? T) eqn:E1; destruct (70 <=? T) eqn:E2; simpl;
      repeat match goal with |- context [?a <? ?b] => destruct (a <? b) eqn:? end; simpl; lia.
Qed.
