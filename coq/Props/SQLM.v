(* SQLM - theorems of the SQL-backend model (nostr_relay/storage/db.py on SQLite): the SQL halves of
   C09, C08, C17, C07, C06, C01, C12, C02, C11.  Property theorems only; proofs are in SQLM/Proofs_*.v
   and SQLM/Thm_C*.v.  All statements are over run_history now h = the store after ANY history h of
   submissions (no bound), or over an arbitrary store satisfying the invariant Inv where noted. *)
From NR Require Import Lib.Base Lib.Nip01 SQLM.Rel SQLM.Write SQLM.Query SQLM.Text SQLM.Where SQLM.Req SQLM.Spec
     SQLM.Proofs_Text SQLM.Proofs_Shape SQLM.Proofs_Rel SQLM.Proofs_Write SQLM.Proofs_Gc SQLM.Proofs_Where SQLM.Proofs_Hist
     SQLM.Abbrev SQLM.Proofs_Const SQLM.Proofs_SaText SQLM.Thm_C09 SQLM.Thm_C08 SQLM.Thm_C17 SQLM.Thm_C07 SQLM.Thm_C06 SQLM.Thm_C01 SQLM.Thm_C12 SQLM.Thm_C02 SQLM.Thm_C11 SQLM.Run.
From NR Require Import Gen.SqlConst Gen.Kinds.
From Coq Require Import Sorting.Permutation.
Open Scope list_scope. Open Scope Z_scope.

(* ---------------- invariant over all histories ---------------- *)
(* primary key, TagsCoherent (tags table = the tag rows process_tags derives from the stored events), rows well-formed *)
Theorem SQLM_history_invariant : forall now h, Inv (run_history now h).
Proof. exact history_Inv. Qed.
Print Assumptions SQLM_history_invariant.

(* ---------------- C09 ---------------- *)
Theorem C09_sql_replace_removes_older : forall now h e r0,
  row_of_event (event_init now e) = Some r0 -> outcome now h e = inl true ->
  forall x, In x (stored (run_history now h)) -> same_address x (event_of_row r0) = true ->
            w_created x < w_created (event_of_row r0) -> in_store x (stored (after now h e)) = false.
Proof. exact sql_replace_removes_older. Qed.
Print Assumptions C09_sql_replace_removes_older.
Theorem C09_sql_replace_frame : forall now h e r0,
  row_of_event (event_init now e) = Some r0 ->
  forall x, In x (stored (run_history now h)) -> in_store x (stored (after now h e)) = false ->
            (same_address x (event_of_row r0) = true /\ w_created x <= w_created (event_of_row r0)) \/
            may_delete (event_of_row r0) x = true.
Proof. exact sql_replace_frame. Qed.
Print Assumptions C09_sql_replace_frame.
Theorem C09_sql_replace_frame_regular : forall now h e r0,
  row_of_event (event_init now e) = Some r0 -> w_kind (event_of_row r0) <> 5 ->
  forall x, In x (stored (run_history now h)) -> in_store x (stored (after now h e)) = false ->
            same_address x (event_of_row r0) = true /\ w_created x <= w_created (event_of_row r0).
Proof. exact sql_replace_frame_regular. Qed.
Print Assumptions C09_sql_replace_frame_regular.
(* for an admitted event the stored form is the event itself *)
Theorem SQLM_canonical : forall e r, wf_wevent e = true -> row_of_event e = Some r -> event_of_row r = e.
Proof. exact sql_canonical. Qed.
Print Assumptions SQLM_canonical.

(* ---------------- C08 ---------------- *)
Theorem C08_sql_delete_frame : forall now h e r0,
  row_of_event (event_init now e) = Some r0 -> r_kind r0 = 5 ->
  forall x, In x (stored (run_history now h)) -> in_store x (stored (after now h e)) = false -> may_delete (event_of_row r0) x = true.
Proof. exact sql_delete_frame. Qed.
Print Assumptions C08_sql_delete_frame.
Theorem C08_sql_delete_effective : forall now h e r0,
  row_of_event (event_init now e) = Some r0 -> outcome now h e = inl true ->
  forall x, In x (stored (run_history now h)) -> may_delete (event_of_row r0) x = true -> in_store x (stored (after now h e)) = false.
Proof. exact sql_delete_effective. Qed.
Print Assumptions C08_sql_delete_effective.
Theorem C08_sql_deleted_unreachable : forall now h e rx,
  In rx (d_events (run_history now h)) -> in_store (event_of_row rx) (stored (after now h e)) = false ->
  (forall dl ml fs, ~ In rx (req dl ml (after now h e) fs)) /\ TagsCoherent (after now h e).
Proof. exact sql_deleted_unreachable. Qed.
Print Assumptions C08_sql_deleted_unreachable.

(* ---------------- C17 ---------------- *)
Theorem C17_sql_gc_exact : forall now h T, T <= int64_max ->
  stored (fst (collect T (run_history now h))) = List.filter (fun e => negb (may_collect T e)) (stored (run_history now h)).
Proof. exact sql_gc_exact. Qed.
Print Assumptions C17_sql_gc_exact.
Theorem C17_sql_gc_frame : forall now h T,
  Inv (fst (collect T (run_history now h))) /\
  forall r, In r (d_events (fst (collect T (run_history now h)))) -> In r (d_events (run_history now h)).
Proof. exact sql_gc_frame. Qed.
Print Assumptions C17_sql_gc_frame.
Theorem C17_sql_gc_statement : forall now h T, T <= int64_max ->
  c17_ok T (stored (run_history now h)) (stored (fst (collect T (run_history now h)))) = true.
Proof. exact sql_gc_statement. Qed.
Print Assumptions C17_sql_gc_statement.

(* ---------------- C07 ---------------- *)
Theorem C07_sql_fail_at_k_restores : forall now d e k, (k < length (writes_sql now d e))%nat ->
  let r := add_event (Some k) now true true d e in
  ar_db r = d /\ ar_out r = inr EOperational /\
  ar_trace r = TBegin :: map TStmt (firstn (S k) (writes_sql now d e)) ++ [TRollback].
Proof. exact sql_fail_at_k_restores. Qed.
Print Assumptions C07_sql_fail_at_k_restores.
Theorem C07_sql_later_events_unaffected : forall now f valid can d e x rest,
  ar_out (add_event f now valid can d e) = inr x ->
  fold_left (submit now) rest (ar_db (add_event f now valid can d e)) = fold_left (submit now) rest d.
Proof. exact sql_later_events_unaffected. Qed.
Print Assumptions C07_sql_later_events_unaffected.
Theorem C07_sql_single_txn : forall now d e f,
  let r := add_event f now true true d e in
  exists stmts, (ar_trace r = TBegin :: map TStmt stmts ++ [TCommit; TNotify] /\ ar_out r = inl true) \/
                (ar_trace r = TBegin :: map TStmt stmts ++ [TCommit] /\ ar_out r = inl false) \/
                (ar_trace r = TBegin :: map TStmt stmts ++ [TRollback] /\ exists x, ar_out r = inr x /\ ar_db r = d).
Proof. exact sql_single_txn. Qed.
Print Assumptions C07_sql_single_txn.
Theorem C07_sql_notify_after_commit : forall now valid can d e f,
  In TNotify (ar_trace (add_event f now valid can d e)) ->
  exists stmts, ar_trace (add_event f now valid can d e) = TBegin :: map TStmt stmts ++ [TCommit; TNotify] /\
                ar_out (add_event f now valid can d e) = inl true.
Proof. exact sql_notify_after_commit. Qed.
Print Assumptions C07_sql_notify_after_commit.

(* ---------------- C06 (b)-(e) ---------------- *)
Theorem C06_sql_ack_true_stored : forall now h e r0,
  row_of_event (event_init now e) = Some r0 -> outcome now h e = inl true ->
  ref_in (r_tags r0) (r_id r0) = false -> In r0 (d_events (after now h e)).
Proof. exact sql_ack_true_stored. Qed.
Print Assumptions C06_sql_ack_true_stored.
Theorem C06_sql_valid_event_accepted : forall now h e r0,
  wf_wevent (event_init now e) = true -> row_of_event (event_init now e) = Some r0 ->
  has_id (r_id r0) (d_events (run_history now h)) = false -> outcome now h e = inl true.
Proof. exact sql_valid_event_accepted. Qed.
Print Assumptions C06_sql_valid_event_accepted.
Theorem C06_sql_refused_no_trace : forall now h e,
  outcome now h e <> inl true ->
  after now h e = run_history now h /\ ~ In TNotify (ar_trace (add_event None now true true (run_history now h) e)).
Proof. exact sql_refused_no_trace. Qed.
Print Assumptions C06_sql_refused_no_trace.
Theorem C06_sql_resubmission : forall now h e r0,
  row_of_event (event_init now e) = Some r0 -> has_id (r_id r0) (d_events (run_history now h)) = true ->
  after now h e = run_history now h /\ ~ In TNotify (ar_trace (add_event None now true true (run_history now h) e)).
Proof. exact sql_resubmission. Qed.
Print Assumptions C06_sql_resubmission.
Theorem C06_sql_not_admitted_untouched : forall f now valid can d e, valid && can = false ->
  ar_db (add_event f now valid can d e) = d /\ ar_trace (add_event f now valid can d e) = [].
Proof. exact sql_not_admitted_untouched. Qed.
Print Assumptions C06_sql_not_admitted_untouched.

(* ---------------- C01 ---------------- *)
Theorem C01_sql_lex_string_quote : forall v rest, head_is (N.eqb c_quote) rest = false ->
  lex_string (sql_quote v ++ c_quote :: rest) = Some (v, rest).
Proof. exact sql_lex_string_quote. Qed.
Print Assumptions C01_sql_lex_string_quote.
Theorem C01_sql_lex_roundtrip : forall toks, wf_toks toks = true -> lex (render toks) = Some toks.
Proof. exact sql_lex_roundtrip_thm. Qed.
Print Assumptions C01_sql_lex_roundtrip.
Theorem C01_sql_build_query_tokens_wf : forall dl ml fs,
  forallb valid_filter fs = true -> wf_toks (query_toks (build_query dl ml fs)) = true.
Proof. exact sql_build_query_tokens_wf. Qed.
Print Assumptions C01_sql_build_query_tokens_wf.
Theorem C01_sql_build_query_shape : forall dl ml fs fs', map shape fs = map shape fs' ->
  map erase (map clause_toks (q_where (build_query dl ml fs))) = map erase (map clause_toks (q_where (build_query dl ml fs'))).
Proof. exact sql_build_query_shape. Qed.
Print Assumptions C01_sql_build_query_shape.
Theorem C01_sql_where_sound : forall f r, validated f -> row_ok r -> row32 r -> P_sql f r = true -> may_match f (event_of_row r) = true.
Proof. exact sql_where_sound_thm. Qed.
Print Assumptions C01_sql_where_sound.
Theorem C01_sql_sound : forall now h dl ml fs r, wf_history now h -> fs <> [] -> Forall validated fs ->
  In r (req_exec dl ml (run_history now h) fs) ->
  In r (d_events (run_history now h)) /\ exists f, In f fs /\ may_match f (event_of_row r) = true.
Proof. exact sql_c01_sound. Qed.
Print Assumptions C01_sql_sound.

(* F27 repaired: whatever the Unicode word-character predicate of Python's \w (it excludes ':', '\' and the quote),
   sqlalchemy.text() hands SQLite a statement that lexes to exactly the model's tokens *)
Theorem C01_sql_received_statement : forall w dl ml fs,
  w c_colon = false -> w c_bslash = false -> w c_quote = false -> forallb valid_filter fs = true ->
  let toks := query_toks (build_query dl ml fs) in
  exists received, sa_text_pre w (py_render toks) = Some received /\ lex received = Some toks.
Proof. exact sql_received_statement. Qed.
Print Assumptions C01_sql_received_statement.

(* ---------------- C12 ---------------- *)
Theorem C12_sql_limit_newest : forall d q, 0 <= q_limit q ->
  Z.of_nat (length (answer d q)) <= q_limit q /\
  (forall r, In r (answer d q) -> In r (matching d (q_where q))) /\
  (forall x y, In x (matching d (q_where q)) -> ~ In x (answer d q) -> In y (answer d q) -> r_created x <= r_created y) /\
  (Z.of_nat (length (matching d (q_where q))) <= q_limit q -> Permutation (answer d q) (matching d (q_where q))).
Proof. exact sql_limit_newest. Qed.
Print Assumptions C12_sql_limit_newest.
Theorem C12_sql_limit_value_single_partial : forall dl ml f, evaluate_filter f <> None ->
  query_limit dl ml [f] = match f_limit f with Some l => Z.min l dl | None => dl end.
Proof. exact sql_limit_value_single. Qed.
Print Assumptions C12_sql_limit_value_single_partial.
Theorem C12_sql_limit_value_last : forall dl ml fs f, evaluate_filter f <> None ->
  query_limit dl ml (fs ++ [f]) = match f_limit f with Some l => Z.min l dl | None => query_limit dl ml fs end.
Proof. exact sql_limit_value_last. Qed.
Print Assumptions C12_sql_limit_value_last.
Theorem C12_sql_multi_filter_limit_refuted : exists dl ml d fs, per_filter_limit_ok dl ml d fs = false.
Proof. exact sql_multi_filter_limit_refuted. Qed.
Print Assumptions C12_sql_multi_filter_limit_refuted.

(* ---------------- C02 ---------------- *)
Theorem C02_sql_complete : forall f r, wf_filter f -> has_conditions f -> row_ok r ->
  must_match f (event_of_row r) = true -> P_sql f r = true.
Proof. exact sql_complete_thm. Qed.
Print Assumptions C02_sql_complete.
Theorem C02_sql_complete_partial : forall now h dl ml f r, 0 <= query_limit dl ml [f] ->
  valid_filter f = true -> wf_filter f -> has_conditions f ->
  Z.of_nat (length (List.filter (P_sql f) (d_events (run_history now h)))) <= query_limit dl ml [f] ->
  In r (d_events (run_history now h)) -> must_match f (event_of_row r) = true ->
  count_occ_b (fun y => bytes_eqb (r_id y) (r_id r)) (req_exec dl ml (run_history now h) [f]) = 1%nat.
Proof. exact sql_c02_complete_partial. Qed.
Print Assumptions C02_sql_complete_partial.
Theorem C02_sql_refuted_nul : exists d f, c02_full 100 100 d f = false.
Proof. exact sql_c02_refuted_nul. Qed.
Print Assumptions C02_sql_refuted_nul.
Theorem C02_sql_refuted_no_conditions : exists d f, c02_full 100 100 d f = false.
Proof. exact sql_c02_refuted_no_conditions. Qed.
Print Assumptions C02_sql_refuted_no_conditions.

(* ---------------- C11 ---------------- *)
Theorem C11_sql_P_between : forall f r, row_ok r ->
  (wf_filter f -> has_conditions f -> must_match f (event_of_row r) = true -> P_sql f r = true) /\
  (validated f -> row32 r -> P_sql f r = true -> may_match f (event_of_row r) = true).
Proof. exact sql_P_between. Qed.
Print Assumptions C11_sql_P_between.
Theorem C11_sql_answer_exact : forall now h dl ml f,
  req dl ml (run_history now h) [f] =
  sql_limit (query_limit dl ml [f]) (sort_desc (List.filter (P_sql f) (d_events (run_history now h)))).
Proof. exact sql_answer_exact. Qed.
Print Assumptions C11_sql_answer_exact.
Theorem C11_sql_unrelated_data : forall dl ml d d2 f extra, Inv d -> Inv d2 -> validated f ->
  (forall r, In r (d_events d2) <-> In r (d_events d) \/ In r extra) ->
  (forall r, In r extra -> row_ok r /\ row32 r /\ may_match f (event_of_row r) = false) ->
  forall r, In r (matching d2 (q_where (build_query dl ml [f]))) <-> In r (matching d (q_where (build_query dl ml [f]))).
Proof. exact sql_unrelated_data. Qed.
Print Assumptions C11_sql_unrelated_data.
Theorem C11_sql_monotone : forall dl ml d f f', Inv d -> clause_stronger (clause_of f') (clause_of f) ->
  forall r, In r (matching d (q_where (build_query dl ml [f']))) -> In r (matching d (q_where (build_query dl ml [f]))).
Proof. exact sql_monotone. Qed.
Print Assumptions C11_sql_monotone.
Theorem C11_sql_more_conditions_stronger : forall c extra, c <> [] -> clause_stronger (c ++ extra) c.
Proof. exact sql_more_conditions_stronger. Qed.
Print Assumptions C11_sql_more_conditions_stronger.
Theorem C11_sql_narrower_window_stronger : forall tags r pre post s s', s <= s' ->
  eval_clause tags r (pre ++ CSince s' :: post) = true -> eval_clause tags r (pre ++ CSince s :: post) = true.
Proof. exact sql_narrower_window_stronger. Qed.
Print Assumptions C11_sql_narrower_window_stronger.
Theorem C11_sql_union_over_values : forall tags r pre post cab ca cb,
  eval_cond tags r cab = eval_cond tags r ca || eval_cond tags r cb ->
  eval_clause tags r (pre ++ cab :: post) = eval_clause tags r (pre ++ ca :: post) || eval_clause tags r (pre ++ cb :: post).
Proof. exact sql_union_over_values. Qed.
Print Assumptions C11_sql_union_over_values.

(* ---------------- ties to the source, re-checked against Gen/*.v on every run ---------------- *)
Theorem SQLM_gc_query_tie : lex Gen.SqlConst.gc_query = Some gc_template.
Proof. exact gc_query_tie. Qed.
Print Assumptions SQLM_gc_query_tie.
Theorem SQLM_select_text_tie : lex Gen.SqlConst.select_text = Some select_head /\ lex (Gen.SqlConst.tail_text ++ pys "5") = Some (select_tail 5).
Proof. split; [exact select_text_tie | exact tail_text_tie]. Qed.
Print Assumptions SQLM_select_text_tie.
Theorem SQLM_interpolation_lint : Gen.SqlConst.sql_interpolations_ok = true.
Proof. exact sql_interpolations_checked. Qed.
Print Assumptions SQLM_interpolation_lint.
(* the model gives a failed or cancelled save / query no lasting effect on later operations (`C07_sql_fail_at_k_restores`, `C07_sql_later_events_unaffected`): the code holds its
   slots, locks, connections and transactions (`C07_sql_single_txn`: committed or rolled back as a whole) only through `async with` / `with`, and shields nothing from cancellation *)
Theorem SQLM_waits_scoped_lint : Gen.SqlConst.sql_waits_scoped = true.
Proof. vm_compute. reflexivity. Qed.
Print Assumptions SQLM_waits_scoped_lint.
Theorem SQLM_indexed_name_tie : forall n, indexed_name n = mem_str n Gen.SqlConst.indexed_long_names || Nat.eqb (length n) 1.
Proof. exact indexed_name_tie. Qed.
Print Assumptions SQLM_indexed_name_tie.
Theorem SQLM_kinds_tie : forall e,
  is_repl_py (w_kind e) = k_is_replaceable (vev e) /\ is_param_py (w_kind e) = k_is_paramaterized_replaceable (vev e) /\
  Write.kind_DELETE = Gen.Kinds.kind_DELETE /\ Write.kind_SET_METADATA = Gen.Kinds.kind_SET_METADATA /\
  Write.kind_CONTACTS = Gen.Kinds.kind_CONTACTS.
Proof. exact kinds_tie. Qed.
Print Assumptions SQLM_kinds_tie.

(* non-vacuity of the history-level hypotheses: a reachable, non-trivial store satisfying wf_history *)
Example SQLM_history_inhabited :
  wf_wevent (Examples.mkev "01" "aa" 10 1 [["t"; "x"]]%string) = true /\
  length (d_events (run_history Examples.now0 [Examples.mkev "01" "aa" 10 1 [["t"; "x"]]%string])) = 1%nat /\
  length (d_tags (run_history Examples.now0 [Examples.mkev "01" "aa" 10 1 [["t"; "x"]]%string])) = 1%nat.
Proof. vm_compute. repeat split; reflexivity. Qed.
