(* SQLM - theorems of the SQL-backend model (SQL halves of C09, C08, C17, C07, C06, C01, C12, C02, C11).
   Property theorems only; proofs are in SQLM/Proofs_*.v and SQLM/Thm_*.v. *)
From NR Require Import Lib.Base SQLM.Run.
