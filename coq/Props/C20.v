(* C20 - cross-worker notification delivers each event id intact, once, to other workers,
   however the byte streams are split or coalesced.  Property theorems only; proofs are in
   C20/Proofs.v.  The statements are about the repaired notifier (readexactly(32) on both
   sides, fix: commits listed in findings.d/C20.txt); `C20_legacy_refuted` records what the
   unrepaired `read(32)` loop did. *)
From NR Require Import Lib.Base C20.Model C20.Spec C20.Proofs Gen.Lookup.
Open Scope list_scope. Open Scope nat_scope.

(* The framed reader (NotifyClient.connect / each NotifyServer.handle_notify): for EVERY
   chunking of the stream `concat ids ++ p` (ids whole, p shorter than an id) the ids handled
   are exactly `ids`, each whole and once, in order; the partial id p is never handled
   (it stays in the buffer and is dropped by IncompleteReadError at EOF). *)
Theorem C20_reader_exact : forall chunks ids p,
  Forall len32 ids -> length p < IDLEN -> concat chunks = concat ids ++ p ->
  client_run [] chunks = (ids, p).
Proof. exact client_exact. Qed.
Print Assumptions C20_reader_exact.

(* The server, for all numbers n of connections and ALL sequences of transport deliveries
   (any chunking), EOFs and handler steps (any interleaving of the handlers): an invariant
   saying that what was written to the writer of a still connected j on behalf of connection i
   is the list of whole 32-byte units read from i so far (minus the one in flight), and
   nothing for j = i. *)
Theorem C20_server_invariant : forall n ls, Inv n (run n init ls).
Proof. intros; apply inv_run, inv_init. Qed.
Print Assumptions C20_server_invariant.

(* the bytes accepted on a connection are the concatenation of the delivered pieces: chunking is free *)
Theorem C20_arrived_any_chunking : forall n i ls,
  s_arr (run n init ls) i = accepted i false ls.
Proof. intros. rewrite arr_accepted. reflexivity. Qed.
Print Assumptions C20_arrived_any_chunking.

(* notify_exact.  n workers; worker i has announced the ids `ann i` (32 bytes each), all of
   which reached the server (possibly followed by a partial id cut off by a disconnect); the
   server is quiescent; worker j is still connected and its client has received its whole down
   stream in any chunks.
   Then the ids worker j passes to storage.get_event are an interleaving of the OTHER workers'
   announcement sequences: per sender exactly its sequence, each id whole and once, in order,
   none of j's own; and nothing is left in its buffer. *)
Theorem C20_notify_exact : forall n (ann : nat -> list bytes) ls st,
  (forall i, Forall len32 (ann i)) ->
  st = run n init ls ->
  (forall i, exists p, s_arr st i = concat (ann i) ++ p /\ length p < IDLEN) ->
  quiescent st ->
  forall j, j < n -> s_pc st j <> Closed ->
  forall cchunks, concat cchunks = concat (map snd (s_out st j)) ->
  exists tagged, map snd tagged = fst (client_run [] cchunks) /\ snd (client_run [] cchunks) = [] /\
                 Interleaving (others ann j) tagged.
Proof. exact notify_exact. Qed.
Print Assumptions C20_notify_exact.

(* Safety at every moment (no quiescence, no completeness): whatever prefix of its
   announcements a worker managed to send before being cut anywhere - also in the middle of
   an id -, whatever prefix of its down stream a client has received, in any chunks: the ids
   worker j has looked up are, per sender, a prefix of that sender's announcements (whole ids,
   in order, no repetition beyond the announcements themselves), and none are its own. *)
Theorem C20_notify_safe : forall n (ann : nat -> list bytes) ls st j cchunks m,
  (forall i, Forall len32 (ann i)) ->
  st = run n init ls ->
  (forall i, exists mi, s_arr st i = firstn mi (concat (ann i))) ->
  s_pc st j <> Closed ->
  concat cchunks = firstn m (concat (map snd (s_out st j))) ->
  exists tagged, map snd tagged = fst (client_run [] cchunks) /\
    from j tagged = [] /\ forall i, exists k, from i tagged = firstn k (ann i).
Proof. exact notify_safe. Qed.
Print Assumptions C20_notify_safe.

(* each id looked up once; each id found is fanned out once, exactly like a local event
   (the client calls the same storage.notify_all_connected) *)
Theorem C20_client_actions : forall known ids,
  flat_map (fun a => match a with Lookup u => [u] | FanOut _ => [] end) (client_actions known ids) = ids /\
  flat_map (fun a => match a with FanOut u => [u] | Lookup _ => [] end) (client_actions known ids) = filter known ids.
Proof. intros; split; [apply client_actions_lookups | apply client_actions_fanouts]. Qed.
Print Assumptions C20_client_actions.

(* The receiving worker over time (the store changes; ids arrive; anybody may ask for any id at any moment).
   Tie: the translator confirms on every run that NotifyClient.connect is "look the id up, fan out when found" and that the
   look-up of both backends is a read of the store that keeps nothing (so `stored` below is what the code consults). *)
Theorem C20_lookup_tie :
  Gen.Lookup.client_loop_ok = true /\ Gen.Lookup.db_lookup_stateless = true /\ Gen.Lookup.kv_lookup_stateless = true.
Proof. vm_compute. repeat split. Qed.
Print Assumptions C20_lookup_tie.

(* look-ups have no memory: deleting every look-up that is not an announcement from ANY history leaves the fan-outs unchanged *)
Theorem C20_lookups_have_no_memory : forall st evs,
  fanouts (world st evs) = fanouts (world st (filter (fun e => negb (is_probe e)) evs)).
Proof. intros; apply probes_irrelevant. Qed.
Print Assumptions C20_lookups_have_no_memory.

(* an event committed before its id is announced and not removed in between is fanned out, in every history around it *)
Theorem C20_committed_then_announced_is_fanned_out : forall st pre mid post u,
  ~ In (Remove u) mid ->
  In u (fanouts (world st (pre ++ Accept u :: mid ++ Announce u :: post))).
Proof. exact committed_then_announced_is_fanned_out. Qed.
Print Assumptions C20_committed_then_announced_is_fanned_out.

(* nothing is fanned out that was not announced *)
Theorem C20_fanned_out_was_announced : forall evs st u,
  In u (fanouts (world st evs)) -> In (Announce u) evs.
Proof. exact fanned_out_was_announced. Qed.
Print Assumptions C20_fanned_out_was_announced.

(* ---------- non-vacuity and the record of the defect ---------- *)
Definition idA : bytes := map N.of_nat (seq 0 32).
Definition idB : bytes := map N.of_nat (seq 100 32).

(* two workers' ids arriving in interleaved pieces at a 3-connection server: worker 2 gets both, whole *)
Example C20_server_example :
  let st := run 3 init [Arrive 0 (firstn 10 idA); Run 0; Arrive 1 (firstn 5 idB); Run 1;
                        Arrive 0 (skipn 10 idA); Run 0; Run 0; Run 0; Run 0;
                        Arrive 1 (skipn 5 idB); Run 1; Run 1; Run 1; Run 1] in
  map snd (s_out st 2) = [idA; idB] /\ map snd (s_out st 0) = [idB] /\ map snd (s_out st 1) = [idA].
Proof. vm_compute. repeat split. Qed.

Example C20_reader_example :
  client_run [] [firstn 10 idA; skipn 10 idA ++ firstn 3 idB; skipn 3 idB ++ firstn 7 idA] = ([idA; idB], firstn 7 idA).
Proof. vm_compute. reflexivity. Qed.

(* asked for before it existed, then committed elsewhere and announced: fanned out; announced but removed meanwhile: not *)
Example C20_world_example :
  fanouts (world [] [Probe idA; Accept idA; Probe idB; Announce idA; Accept idB; Remove idB; Announce idB]) = [idA].
Proof. vm_compute. reflexivity. Qed.

(* F23 (fixed): with read(32) an id delivered as a 10-byte and a 22-byte piece was looked up as two "ids" *)
Example C20_legacy_refuted :
  legacy_reads [firstn 10 idA; skipn 10 idA] = [firstn 10 idA; skipn 10 idA] /\
  ~ In idA (legacy_reads [firstn 10 idA; skipn 10 idA]).
Proof. split; [vm_compute; reflexivity|]. vm_compute. intros [H|[H|[]]]; discriminate. Qed.
