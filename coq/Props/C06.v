(* C06 - OK acknowledgements agree with what the relay actually did.
   Assembled by tools/gen_props.py from Props/SQLM.v, Props/KVW.v, Props/RELAY.v: property theorems only
   (statement, `exact`, Print Assumptions); the proofs live in the backend model directories.
   Each backend's theorems sit in their own module so that equally named definitions of the two
   backend models cannot shadow one another. *)
From NR Require Lib.Base Lib.Nip01 SQLM.Rel SQLM.Write SQLM.Query SQLM.Text SQLM.Where SQLM.Req SQLM.Spec SQLM.Proofs_Text SQLM.Proofs_Shape SQLM.Proofs_Rel SQLM.Proofs_Write SQLM.Proofs_Gc SQLM.Proofs_Where SQLM.Proofs_Hist SQLM.Abbrev SQLM.Proofs_Const SQLM.Proofs_SaText SQLM.Thm_C09 SQLM.Thm_C08 SQLM.Thm_C17 SQLM.Thm_C07 SQLM.Thm_C06 SQLM.Thm_C01 SQLM.Thm_C12 SQLM.Thm_C02 SQLM.Thm_C11 SQLM.Run.
From NR Require Gen.SqlConst Gen.Kinds.
From Coq Require Sorting.Permutation.
From NR Require KVW.Thm_C06 Lib.BaseFacts KVW.Thm_Common KVW.Queue KVW.Thm_C07 KVW.Thm_C08 KVW.Thm_C09 KVW.Thm_C17 KVW.Thm_Common Lib.Base Lib.Nip01 KVM.Engine KVM.Keys KVM.Scan KVW.Types KVW.Entries KVW.Write KVW.PostSave KVW.Gc KVW.Oracles KVW.Proofs_Engine KVW.Proofs_Tx KVW.Proofs_Keys KVW.Proofs_Coherent KVW.Proofs_Run KVW.Proofs_Fault KVW.Proofs_ScanUse KVW.Proofs_ScanOk KVW.Proofs_PostSave KVW.Proofs_Progress KVW.Proofs_Gc KVW.Proofs_Ack KVW.GenTie.
From NR Require Lib.Base Lib.PyRt Lib.Nip01 Gen.Web Filt.Model Live.Model Live.Proofs RELAY.Model RELAY.Proofs RELAY.Eose.

(* ================= SQL backend (nostr_relay/storage/db.py) ================= *)
Module SQLM.
Import Lib.Base Lib.Nip01 SQLM.Rel SQLM.Write SQLM.Query SQLM.Text SQLM.Where SQLM.Req SQLM.Spec SQLM.Proofs_Text SQLM.Proofs_Shape SQLM.Proofs_Rel SQLM.Proofs_Write SQLM.Proofs_Gc SQLM.Proofs_Where SQLM.Proofs_Hist SQLM.Abbrev SQLM.Proofs_Const SQLM.Proofs_SaText SQLM.Thm_C09 SQLM.Thm_C08 SQLM.Thm_C17 SQLM.Thm_C07 SQLM.Thm_C06 SQLM.Thm_C01 SQLM.Thm_C12 SQLM.Thm_C02 SQLM.Thm_C11 SQLM.Run.
Import Gen.SqlConst Gen.Kinds.
Import Sorting.Permutation.
Open Scope list_scope. Open Scope Z_scope.

(* ---------------- C06 (b)-(e) ---------------- *)
Theorem C06_sql_ack_true_stored : forall now h e r0,
  row_of_event (event_init now e) = Some r0 -> outcome now h e = inl true ->
  ref_in (r_tags r0) (r_id r0) = false -> In r0 (d_events (after now h e)).
Proof. exact sql_ack_true_stored. Qed.
Print Assumptions C06_sql_ack_true_stored.

Theorem C06_sql_valid_event_accepted : forall now h e r0,
  wf_wevent (event_init now e) = true -> row_of_event (event_init now e) = Some r0 ->
  has_id (r_id r0) (d_events (run_history now h)) = false -> outcome now h e = inl true.
Proof. exact sql_valid_event_accepted. Qed.
Print Assumptions C06_sql_valid_event_accepted.

Theorem C06_sql_refused_no_trace : forall now h e,
  outcome now h e <> inl true ->
  after now h e = run_history now h /\ ~ In TNotify (ar_trace (add_event None now true true (run_history now h) e)).
Proof. exact sql_refused_no_trace. Qed.
Print Assumptions C06_sql_refused_no_trace.

Theorem C06_sql_resubmission : forall now h e r0,
  row_of_event (event_init now e) = Some r0 -> has_id (r_id r0) (d_events (run_history now h)) = true ->
  after now h e = run_history now h /\ ~ In TNotify (ar_trace (add_event None now true true (run_history now h) e)).
Proof. exact sql_resubmission. Qed.
Print Assumptions C06_sql_resubmission.

Theorem C06_sql_not_admitted_untouched : forall f now valid can d e, valid && can = false ->
  ar_db (add_event f now valid can d e) = d /\ ar_trace (add_event f now valid can d e) = [].
Proof. exact sql_not_admitted_untouched. Qed.
Print Assumptions C06_sql_not_admitted_untouched.

(* ---- supporting theorems of this backend model (invariants, ties to the source, non-vacuity) ---- *)
(* primary key, TagsCoherent (tags table = the tag rows process_tags derives from the stored events), rows well-formed *)
Theorem SQLM_history_invariant : forall now h, Inv (run_history now h).
Proof. exact history_Inv. Qed.
Print Assumptions SQLM_history_invariant.

(* for an admitted event the stored form is the event itself *)
Theorem SQLM_canonical : forall e r, wf_wevent e = true -> row_of_event e = Some r -> event_of_row r = e.
Proof. exact sql_canonical. Qed.
Print Assumptions SQLM_canonical.

(* ---------------- ties to the source, re-checked against Gen/*.v on every run ---------------- *)
Theorem SQLM_gc_query_tie : lex Gen.SqlConst.gc_query = Some gc_template.
Proof. exact gc_query_tie. Qed.
Print Assumptions SQLM_gc_query_tie.

Theorem SQLM_select_text_tie : lex Gen.SqlConst.select_text = Some select_head /\ lex (Gen.SqlConst.tail_text ++ pys "5") = Some (select_tail 5).
Proof. split; [exact select_text_tie | exact tail_text_tie]. Qed.
Print Assumptions SQLM_select_text_tie.

Theorem SQLM_interpolation_lint : Gen.SqlConst.sql_interpolations_ok = true.
Proof. exact sql_interpolations_checked. Qed.
Print Assumptions SQLM_interpolation_lint.

(* the model gives a failed or cancelled save / query no lasting effect on later operations (`C07_sql_fail_at_k_restores`, `C07_sql_later_events_unaffected`): the code holds its
   slots, locks, connections and transactions (`C07_sql_single_txn`: committed or rolled back as a whole) only through `async with` / `with`, and shields nothing from cancellation *)
Theorem SQLM_waits_scoped_lint : Gen.SqlConst.sql_waits_scoped = true.
Proof. vm_compute. reflexivity. Qed.
Print Assumptions SQLM_waits_scoped_lint.

Theorem SQLM_indexed_name_tie : forall n, indexed_name n = mem_str n Gen.SqlConst.indexed_long_names || Nat.eqb (length n) 1.
Proof. exact indexed_name_tie. Qed.
Print Assumptions SQLM_indexed_name_tie.

Theorem SQLM_kinds_tie : forall e,
  is_repl_py (w_kind e) = k_is_replaceable (vev e) /\ is_param_py (w_kind e) = k_is_paramaterized_replaceable (vev e) /\
  Write.kind_DELETE = Gen.Kinds.kind_DELETE /\ Write.kind_SET_METADATA = Gen.Kinds.kind_SET_METADATA /\
  Write.kind_CONTACTS = Gen.Kinds.kind_CONTACTS.
Proof. exact kinds_tie. Qed.
Print Assumptions SQLM_kinds_tie.

(* non-vacuity of the history-level hypotheses: a reachable, non-trivial store satisfying wf_history *)
Example SQLM_history_inhabited :
  wf_wevent (Examples.mkev "01" "aa" 10 1 [["t"; "x"]]%string) = true /\
  length (d_events (run_history Examples.now0 [Examples.mkev "01" "aa" 10 1 [["t"; "x"]]%string])) = 1%nat /\
  length (d_tags (run_history Examples.now0 [Examples.mkev "01" "aa" 10 1 [["t"; "x"]]%string])) = 1%nat.
Proof. vm_compute. repeat split; reflexivity. Qed.

End SQLM.

(* ================= LMDB write path (kv.py indexes, writer thread, garbage collector) ================= *)
Module KVW.
Import KVW.Thm_C06 Lib.BaseFacts KVW.Thm_Common KVW.Queue KVW.Thm_C07 KVW.Thm_C08 KVW.Thm_C09 KVW.Thm_C17 KVW.Thm_Common Lib.Base Lib.Nip01 KVM.Engine KVM.Keys KVM.Scan KVW.Types KVW.Entries KVW.Write KVW.PostSave KVW.Gc KVW.Oracles KVW.Proofs_Engine KVW.Proofs_Tx KVW.Proofs_Keys KVW.Proofs_Coherent KVW.Proofs_Run KVW.Proofs_Fault KVW.Proofs_ScanUse KVW.Proofs_ScanOk KVW.Proofs_PostSave KVW.Proofs_Progress KVW.Proofs_Gc KVW.Proofs_Ack KVW.GenTie.
Open Scope list_scope. Open Scope Z_scope.

(* (d) a refusal leaves no trace: nothing is queued, nothing is broadcast *)
Theorem C06_kv_refused_no_trace (valid : wevent -> bool) (valid_hex : forall w, valid w = true -> hex64 (w_id w) = true /\ hex64 (w_pubkey w) = true) now d p raw b q :
  add_event valid now d p raw = (AckRaise, b, q) -> b = false /\ q = None.
Proof. first [exact (C06_kv_refused_no_trace valid valid_hex now d p raw b q) | exact (C06_kv_refused_no_trace valid now d p raw b q) | exact (C06_kv_refused_no_trace valid_hex now d p raw b q) | exact (C06_kv_refused_no_trace now d p raw b q)]. Qed.
Print Assumptions C06_kv_refused_no_trace.

(* (e) resubmitting an event that is stored, or whose add is still queued: duplicate, nothing queued, nothing broadcast *)
Theorem C06_kv_duplicate (valid : wevent -> bool) (valid_hex : forall w, valid w = true -> hex64 (w_id w) = true /\ hex64 (w_pubkey w) = true) now d p raw idb :
  valid (ctor now raw) = true -> is_ephemeral_kind (w_kind (ctor now raw)) = false ->
  storable (ctor now raw) = true -> id_bytes (ctor now raw) = Some idb ->
  (exists e, rec_at d idb = Some e) \/ In (w_id (ctor now raw)) p ->
  add_event valid now d p raw = (AckDuplicate, false, None).
Proof. first [exact (C06_kv_duplicate valid valid_hex now d p raw idb) | exact (C06_kv_duplicate valid now d p raw idb) | exact (C06_kv_duplicate valid_hex now d p raw idb) | exact (C06_kv_duplicate now d p raw idb)]. Qed.
Print Assumptions C06_kv_duplicate.

Theorem C06_kv_duplicate_only_if_known (valid : wevent -> bool) (valid_hex : forall w, valid w = true -> hex64 (w_id w) = true /\ hex64 (w_pubkey w) = true) now d p raw b q :
  add_event valid now d p raw = (AckDuplicate, b, q) ->
  b = false /\ q = None /\ exists idb, id_bytes (ctor now raw) = Some idb /\
                                      ((exists e, rec_at d idb = Some e) \/ In (w_id (ctor now raw)) p).
Proof. first [exact (C06_kv_duplicate_only_if_known valid valid_hex now d p raw b q) | exact (C06_kv_duplicate_only_if_known valid now d p raw b q) | exact (C06_kv_duplicate_only_if_known valid_hex now d p raw b q) | exact (C06_kv_duplicate_only_if_known now d p raw b q)]. Qed.
Print Assumptions C06_kv_duplicate_only_if_known.

(* (c) a valid, storable event that is neither stored nor queued is never refused *)
Theorem C06_kv_valid_accepted (valid : wevent -> bool) (valid_hex : forall w, valid w = true -> hex64 (w_id w) = true /\ hex64 (w_pubkey w) = true) now d p raw idb :
  valid (ctor now raw) = true -> is_ephemeral_kind (w_kind (ctor now raw)) = false ->
  storable (ctor now raw) = true -> id_bytes (ctor now raw) = Some idb -> rec_at d idb = None -> ~ In (w_id (ctor now raw)) p ->
  add_event valid now d p raw = (AckTrue, true, Some (OAdd (ctor now raw))).
Proof. first [exact (C06_kv_valid_accepted valid valid_hex now d p raw idb) | exact (C06_kv_valid_accepted valid now d p raw idb) | exact (C06_kv_valid_accepted valid_hex now d p raw idb) | exact (C06_kv_valid_accepted now d p raw idb)]. Qed.
Print Assumptions C06_kv_valid_accepted.

Theorem C06_kv_qinv_init (valid : wevent -> bool) (valid_hex : forall w, valid w = true -> hex64 (w_id w) = true /\ hex64 (w_pubkey w) = true) :
  QInv (mkS init_db [] []).
Proof. first [exact (C06_kv_qinv_init valid valid_hex) | exact (C06_kv_qinv_init valid) | exact (C06_kv_qinv_init valid_hex) | exact (C06_kv_qinv_init)]. Qed.
Print Assumptions C06_kv_qinv_init.

Theorem C06_kv_qinv_submit (valid : wevent -> bool) (valid_hex : forall w, valid w = true -> hex64 (w_id w) = true /\ hex64 (w_pubkey w) = true) now st raw a b st' :
  now <> 0 -> QInv st -> submit valid now st raw = (a, b, st') -> QInv st'.
Proof. first [exact (C06_kv_qinv_submit valid valid_hex now st raw a b st') | exact (C06_kv_qinv_submit valid now st raw a b st') | exact (C06_kv_qinv_submit valid_hex now st raw a b st') | exact (C06_kv_qinv_submit now st raw a b st')]. Qed.
Print Assumptions C06_kv_qinv_submit.

Theorem C06_kv_qinv_enqueue_del (valid : wevent -> bool) (valid_hex : forall w, valid w = true -> hex64 (w_id w) = true /\ hex64 (w_pubkey w) = true) st h :
  QInv st -> QInv (enqueue_del st h).
Proof. first [exact (C06_kv_qinv_enqueue_del valid valid_hex st h) | exact (C06_kv_qinv_enqueue_del valid st h) | exact (C06_kv_qinv_enqueue_del valid_hex st h) | exact (C06_kv_qinv_enqueue_del st h)]. Qed.
Print Assumptions C06_kv_qinv_enqueue_del.

(* the writer processes the head of the queue: any ending of its transaction *)
Theorem C06_kv_qinv_writer_step (valid : wevent -> bool) (valid_hex : forall w, valid w = true -> hex64 (w_id w) = true /\ hex64 (w_pubkey w) = true) fault kill now st :
  QInv st -> QInv (writer_step fault kill now st).
Proof. first [exact (C06_kv_qinv_writer_step valid valid_hex fault kill now st) | exact (C06_kv_qinv_writer_step valid fault kill now st) | exact (C06_kv_qinv_writer_step valid_hex fault kill now st) | exact (C06_kv_qinv_writer_step fault kill now st)]. Qed.
Print Assumptions C06_kv_qinv_writer_step.

(* (b) OK=true is truthful in every interleaving: when the writer reaches the queued add - whatever
   was submitted, queued or written in between - and the engine does not fail in that transaction, the
   transaction commits and the event is stored, with every index entry (C10) *)
Theorem C06_kv_ack_true_stored (valid : wevent -> bool) (valid_hex : forall w, valid w = true -> hex64 (w_id w) = true /\ hex64 (w_pubkey w) = true) now st w q :
  QInv st -> s_queue st = OAdd w :: q ->
  exists idb r d' ms, id_bytes w = Some idb /\ encode_event w = Some r /\
    run_op None None now (s_db st) (OAdd w) = (d', Committed, ms) /\
    s_db (writer_step None None now st) = d' /\ rec_at d' idb = Some r.
Proof. first [exact (C06_kv_ack_true_stored valid valid_hex now st w q) | exact (C06_kv_ack_true_stored valid now st w q) | exact (C06_kv_ack_true_stored valid_hex now st w q) | exact (C06_kv_ack_true_stored now st w q)]. Qed.
Print Assumptions C06_kv_ack_true_stored.

(* what an acknowledgement OK=true of a non-ephemeral event means for the shared state *)
Theorem C06_kv_ack_true_queued (valid : wevent -> bool) (valid_hex : forall w, valid w = true -> hex64 (w_id w) = true /\ hex64 (w_pubkey w) = true) now st raw b st' :
  submit valid now st raw = (AckTrue, b, st') ->
  is_ephemeral_kind (w_kind (ctor now raw)) = false ->
  b = true /\ s_queue st' = s_queue st ++ [OAdd (ctor now raw)] /\ s_db st' = s_db st.
Proof. first [exact (C06_kv_ack_true_queued valid valid_hex now st raw b st') | exact (C06_kv_ack_true_queued valid now st raw b st') | exact (C06_kv_ack_true_queued valid_hex now st raw b st') | exact (C06_kv_ack_true_queued now st raw b st')]. Qed.
Print Assumptions C06_kv_ack_true_queued.

(* acknowledged, then the engine fails at the first mutation: nothing stored (the full statement
   "OK=true -> stored once the writer is idle" fails for fault <> None) *)
Theorem C06_kv_ack_true_stored_refuted_engine_failure :
  add_event (fun _ => true) 1000 init_db [] ex_event = (AckTrue, true, Some (OAdd ex_event)) /\
  kv_engine_failure_after_ack (Some 0%nat) None = true /\
  db_after (Some 0%nat) None 1000 init_db (OAdd ex_event) = init_db.
Proof. exact (C06_kv_ack_true_stored_refuted_engine_failure). Qed.
Print Assumptions C06_kv_ack_true_stored_refuted_engine_failure.

(* ---- supporting theorems of this backend model (invariants, ties to the source, non-vacuity) ---- *)
Theorem NoDup_app_single (valid : wevent -> bool) (valid_hex : forall w, valid w = true -> hex64 (w_id w) = true /\ hex64 (w_pubkey w) = true) {A} (l : list A) x :
  NoDup l -> ~ In x l -> NoDup (l ++ [x]).
Proof. first [exact (NoDup_app_single valid valid_hex l x) | exact (NoDup_app_single valid l x) | exact (NoDup_app_single valid_hex l x) | exact (NoDup_app_single l x)]. Qed.
Print Assumptions NoDup_app_single.

Theorem add_ids_app (valid : wevent -> bool) (valid_hex : forall w, valid w = true -> hex64 (w_id w) = true /\ hex64 (w_pubkey w) = true) q1 q2 :
  add_ids (q1 ++ q2) = add_ids q1 ++ add_ids q2.
Proof. first [exact (add_ids_app valid valid_hex q1 q2) | exact (add_ids_app valid q1 q2) | exact (add_ids_app valid_hex q1 q2) | exact (add_ids_app q1 q2)]. Qed.
Print Assumptions add_ids_app.

Theorem queued_ids_inflight (valid : wevent -> bool) (valid_hex : forall w, valid w = true -> hex64 (w_id w) = true /\ hex64 (w_pubkey w) = true) d infl q :
  Forall (queued_ok d infl) q -> forall x, In x (add_ids q) -> In x infl.
Proof. first [exact (queued_ids_inflight valid valid_hex d infl q) | exact (queued_ids_inflight valid d infl q) | exact (queued_ids_inflight valid_hex d infl q) | exact (queued_ids_inflight d infl q)]. Qed.
Print Assumptions queued_ids_inflight.

Theorem queued_ok_weaken (valid : wevent -> bool) (valid_hex : forall w, valid w = true -> hex64 (w_id w) = true /\ hex64 (w_pubkey w) = true) d infl x op :
  queued_ok d infl op -> queued_ok d (x :: infl) op.
Proof. first [exact (queued_ok_weaken valid valid_hex d infl x op) | exact (queued_ok_weaken valid d infl x op) | exact (queued_ok_weaken valid_hex d infl x op) | exact (queued_ok_weaken d infl x op)]. Qed.
Print Assumptions queued_ok_weaken.

(* a transaction never makes a record appear under another id than the one it adds *)
Theorem odel_no_new (valid : wevent -> bool) (valid_hex : forall w, valid w = true -> hex64 (w_id w) = true /\ hex64 (w_pubkey w) = true) fault kill now d h x e :
  Coh d -> rec_at (db_after fault kill now d (ODel h)) x = Some e -> rec_at d x = Some e.
Proof. first [exact (odel_no_new valid valid_hex fault kill now d h x e) | exact (odel_no_new valid fault kill now d h x e) | exact (odel_no_new valid_hex fault kill now d h x e) | exact (odel_no_new fault kill now d h x e)]. Qed.
Print Assumptions odel_no_new.

Theorem oadd_no_new (valid : wevent -> bool) (valid_hex : forall w, valid w = true -> hex64 (w_id w) = true /\ hex64 (w_pubkey w) = true) fault kill now d w idb x e :
  Coh d -> event_wf w -> id_bytes w = Some idb -> rec_at d idb = None ->
  x <> idb -> rec_at (db_after fault kill now d (OAdd w)) x = Some e -> rec_at d x = Some e.
Proof. first [exact (oadd_no_new valid valid_hex fault kill now d w idb x e) | exact (oadd_no_new valid fault kill now d w idb x e) | exact (oadd_no_new valid_hex fault kill now d w idb x e) | exact (oadd_no_new fault kill now d w idb x e)]. Qed.
Print Assumptions oadd_no_new.

Theorem wf_id_bytes_inj (valid : wevent -> bool) (valid_hex : forall w, valid w = true -> hex64 (w_id w) = true /\ hex64 (w_pubkey w) = true) w1 w2 idb :
  event_wf w1 -> event_wf w2 -> id_bytes w1 = Some idb -> id_bytes w2 = Some idb -> w_id w1 = w_id w2.
Proof. first [exact (wf_id_bytes_inj valid valid_hex w1 w2 idb) | exact (wf_id_bytes_inj valid w1 w2 idb) | exact (wf_id_bytes_inj valid_hex w1 w2 idb) | exact (wf_id_bytes_inj w1 w2 idb)]. Qed.
Print Assumptions wf_id_bytes_inj.

Theorem remove_str_In (valid : wevent -> bool) (valid_hex : forall w, valid w = true -> hex64 (w_id w) = true /\ hex64 (w_pubkey w) = true) x y l :
  In y l -> y <> x -> In y (remove_str x l).
Proof. first [exact (remove_str_In valid valid_hex x y l) | exact (remove_str_In valid x y l) | exact (remove_str_In valid_hex x y l) | exact (remove_str_In x y l)]. Qed.
Print Assumptions remove_str_In.

Theorem run_dels_fold now l :
  forall d0,
  run_dels now d0 l = fold_left (fun d op => db_after None None now d op) (map (fun b => ODel (hex_of_bytes b)) l) d0.
Proof. exact (run_dels_fold now l). Qed.
Print Assumptions run_dels_fold.

Theorem gc_pass_is_gc_ops T now d :
  gc_pass T now d = fold_left (fun d op => db_after None None now d op) (gc_ops T d) d.
Proof. exact (gc_pass_is_gc_ops T now d). Qed.
Print Assumptions gc_pass_is_gc_ops.

Theorem inv_init :
  Inv init_db.
Proof. exact (inv_init). Qed.
Print Assumptions inv_init.

Theorem inv_step d s :
  Inv d -> op_ok d (s_op s) -> Inv (run_step d s).
Proof. exact (inv_step d s). Qed.
Print Assumptions inv_step.

Theorem inv_history l :
  forall d, Inv d -> steps_ok d l -> Inv (run_steps d l).
Proof. exact (inv_history l). Qed.
Print Assumptions inv_history.

Theorem run_op_committed fault kill now d op d' ms :
  run_op fault kill now d op = (d', Committed, ms) ->
  exists t', op_body fault now op {| t_db := d; t_log := [] |} = Ok tt t' /\ d' = t_db t'.
Proof. exact (run_op_committed fault kill now d op d' ms). Qed.
Print Assumptions run_op_committed.

End KVW.

(* ================= connection handler (web.start_client) ================= *)
Module RELAY.
Import Lib.Base Lib.PyRt Lib.Nip01 Gen.Web Filt.Model Live.Model Live.Proofs RELAY.Model RELAY.Proofs RELAY.Eose.
Open Scope Z_scope.

(* C06(a): whatever the storage answers - accepted, duplicate, refused by a validator or by the role
   check, or an unexpected exception - an EVENT message is answered by exactly one OK frame and the
   connection stays open *)
Theorem C06_relay_one_ok_per_event : forall cfg st c x m rows prep cq add auth st' x' d,
  validate_message m = true -> as_str (jv_nth 0 m) = pys "EVENT" -> c_open x = true ->
  handle_msg cfg st c x m false rows prep cq add auth = (st', x', d) ->
  d = DContinue /\ exists f, c_out x' = f :: c_out x /\ is_ok f = true.
Proof. exact event_one_ok. Qed.
Print Assumptions C06_relay_one_ok_per_event.

(* a rate-limited EVENT is answered by one OK false as well (whatever its payload looks like, as far as modelled) *)
Theorem C06_relay_limited_event_one_ok : forall cfg st c x m rows prep cq add auth st' x' d,
  validate_message m = true -> as_str (jv_nth 0 m) = pys "EVENT" -> c_open x = true ->
  handle_msg cfg st c x m true rows prep cq add auth = (st', x', d) ->
  d = DUnmodelled \/ (d = DContinue /\ exists f, c_out x' = f :: c_out x /\ is_ok f = true).
Proof.
  intros cfg st c x m rows prep cq add auth st' x' d Hv Hc Ho. unfold handle_msg. rewrite Hv, Hc. simpl.
  destruct (jv_nth 1 m); try (intros E; inversion E; subst; right; split; [reflexivity|];
    eexists; split; [simpl; rewrite emit_out_open by assumption; reflexivity | reflexivity]).
  destruct (jget (pys "id") kv) as [[]|]; intros E; inversion E; subst; try (left; reflexivity);
    right; (split; [reflexivity|]); eexists; (split; [simpl; rewrite emit_out_open by assumption; reflexivity | reflexivity]).
Qed.
Print Assumptions C06_relay_limited_event_one_ok.

(* ---- supporting theorems of this backend model (invariants, ties to the source, non-vacuity) ---- *)
Theorem RELAY_live_filter_characterised : forall f e,
  live_filter f e = has_cond f && core_match f e
                    && after_closed (w_created e) (f_since f) && before_open (w_created e) (f_until f).
Proof. exact live_filter_spec. Qed.
Print Assumptions RELAY_live_filter_characterised.

End RELAY.
