(* C04 - every frame the relay sends is well-formed JSON of the expected shape with the
   subscription id equal to the client's string, and every served event is verbatim.
   Property theorems only; proofs are in C04/Proofs*.v.  The statements are about the
   repaired serializer (subscription id escaped in EVENT and EOSE frames, fix: commits in
   findings.d/C04.txt); the `legacy` examples record what the unrepaired code did (F09).
   OK / NOTICE / AUTH frames are produced by the rapidjson encoder (a trusted library,
   modelled by `print true` and covered by the correspondence only). *)
From NR Require Import Lib.Base C04.Model C04.Spec C04.ProofsStr C04.ProofsParse C04.Proofs.
Open Scope list_scope.

(* parse_string_encode: for EVERY string s (any code points: quotes, backslashes, controls,
   DEL, non-BMP, lone surrogates), either escaping style, every continuation `rest`:
   the parser reads back exactly s and stops right after the closing quote. *)
Theorem C04_parse_string_encode : forall up s rest,
  parse_chars (flat_map (esc_char up) s ++ 34%N :: rest) = Some (s, rest).
Proof. exact parse_chars_encode. Qed.
Print Assumptions C04_parse_string_encode.

Theorem C04_parse_string_value : forall up s rest f,
  parse_value (S f) (encode_string up s ++ rest) = Some (JStr s, rest).
Proof.
  intros. rewrite parse_value_S, encode_string_app. rewrite skip_ws_nonws by reflexivity.
  change (34 =? 34)%N with true. cbv iota. rewrite parse_chars_encode. reflexivity.
Qed.
Print Assumptions C04_parse_string_value.

(* integers: str(int) is read back, for every integer (no bound) *)
Theorem C04_parse_int_print : forall z rest, no_digit_head rest ->
  parse_number (print_int z ++ rest) = Some (JInt z, rest).
Proof. exact parse_number_print. Qed.
Print Assumptions C04_parse_int_print.

(* parse_print: the parser inverts the printer on the whole frame value grammar (strings,
   integers, true/false/null, arrays and objects of any depth and size) *)
Theorem C04_parse_print : forall up v, json_ok v = true -> parse_json (print up v) = Some v.
Proof. exact parse_print. Qed.
Print Assumptions C04_parse_print.

(* util.event_as_json on an admitted event (event_ok: lower-case hex id/pubkey/sig, tag items strings
   or integers - what C03's admission check guarantees, Props/C03.v C03_admitted_is_c04_wf) IS the
   print of its frame value *)
Theorem C04_event_as_json_is_print : forall sub w, event_ok w = true ->
  event_as_json sub (raw_of w) = Some (print false (event_frame_value sub w)).
Proof. exact event_as_json_is_print. Qed.
Print Assumptions C04_event_as_json_is_print.

(* (a) every EVENT frame parses to ["EVENT", sub, {event}] with sub EQUAL to the string handed to
   the serializer (the client's subscription id; str() of it for non-string ids, R3) - for every
   sub, every content and every tag array of strings / integers *)
Theorem C04_event_frame : forall sub w, event_ok w = true ->
  exists raw, event_as_json sub (raw_of w) = Some raw /\ frame_is raw (event_frame_value sub w).
Proof. exact event_frame_parses. Qed.
Print Assumptions C04_event_frame.

(* (a) every EOSE frame parses to ["EOSE", sub] (either escaping style of the string encoder) *)
Theorem C04_eose_frame : forall up sub, frame_is (eose_frame up sub) (eose_frame_value sub).
Proof. exact eose_frame_parses. Qed.
Print Assumptions C04_eose_frame.

(* hex lemma: bytes.fromhex(x).hex() = x iff x is lower-case hex (of even length: fromhex succeeded) *)
Theorem C04_hex_roundtrip_iff : forall x b, bytes_of_hex x = Some b ->
  (hex_of_bytes b = x <-> is_lower_hex x = true).
Proof. intros x b E. split; [apply hex_roundtrip_conv | apply hex_roundtrip]; exact E. Qed.
Print Assumptions C04_hex_roundtrip_iff.

(* (b) codec_roundtrip: both row encodings give back the admitted event field for field *)
Theorem C04_codec_roundtrip_kv : forall now w row,
  kv_encode w = Some row -> event_ok w = true -> w_id w <> [] -> w_created_at w <> 0%Z ->
  kv_decode now row = Some w.
Proof. exact kv_roundtrip. Qed.
Print Assumptions C04_codec_roundtrip_kv.

Theorem C04_codec_roundtrip_db : forall now w row,
  db_encode w = Some row -> event_ok w = true -> w_id w <> [] -> w_created_at w <> 0%Z ->
  db_decode now row = Some w.
Proof. exact db_roundtrip. Qed.
Print Assumptions C04_codec_roundtrip_db.

(* (b) every served event, on every serving path, is the admitted event; hence the frame it is
   served in denotes exactly the admitted event (so id and signature still verify: same fields) *)
Theorem C04_served_verbatim : forall now p w w',
  event_ok w = true -> w_id w <> [] -> w_created_at w <> 0%Z ->
  served now p w = Some w' -> w' = w.
Proof. exact served_verbatim. Qed.
Print Assumptions C04_served_verbatim.

Theorem C04_served_frame : forall now p sub w w',
  event_ok w = true -> w_id w <> [] -> w_created_at w <> 0%Z ->
  served now p w = Some w' ->
  exists raw, event_as_json sub (raw_of w') = Some raw /\ frame_is raw (event_frame_value sub w).
Proof.
  intros now p sub w w' H Hid Hc S. rewrite (served_verbatim now p w w' H Hid Hc S). apply event_frame_parses. exact H.
Qed.
Print Assumptions C04_served_frame.

(* ---------- non-vacuity ---------- *)
Definition ex_event : wevent :=
  mkW (pys "00ab") (pys "cdef") 1700000000 1
      [[JStr (pys "e"); JStr (pys "x""y\z")]; [JStr (pys "t"); JStr [0; 10; 31; 127; 128512; 1114111]%N]; [JStr (pys "d")];
       [JStr (pys "expiration"); JInt 1672329427]]
      [34; 92; 8; 12; 10; 13; 9; 1; 128512]%N (pys "0123456789abcdef").

Example C04_ex_frame :
  match event_as_json (pys "s""2\") (raw_of ex_event) with
  | Some raw => parse_json raw = Some (event_frame_value (pys "s""2\") ex_event)
  | None => False
  end.
Proof. vm_compute. reflexivity. Qed.

Example C04_ex_served :
  served 5 StoredSQL ex_event = Some ex_event /\ served 5 StoredKV ex_event = Some ex_event.
Proof. vm_compute. split; reflexivity. Qed.

(* ---------- the record of the defect (F09), closed by vm_compute ---------- *)
(* subscription id pasted unescaped: the EOSE frame for the id  s"2\  was  ["EOSE","s"2\"]  - not JSON *)
Example C04_legacy_eose_refuted : parse_json (legacy_eose_frame (pys "s""2\")) = None.
Proof. vm_compute. reflexivity. Qed.

(* ... and an id like  a","b  produced a well-formed frame denoting a DIFFERENT array (4 elements) *)
Example C04_legacy_event_refuted :
  match legacy_event_as_json (pys "a"",""b") (raw_of ex_event) with
  | Some raw => exists v, parse_json raw = Some v /\ v <> event_frame_value (pys "a"",""b") ex_event
  | None => False
  end.
Proof. vm_compute. eexists. split; [reflexivity | discriminate]. Qed.

(* a non-string tag item is rendered with str(): `true` becomes `True` and the frame is not JSON
   (such events are refused by the repaired is_signed: C03) *)
Example C04_nonstring_tag_item_unparsable :
  match event_as_json (pys "s") (mkRaw (JStr (pys "00ab")) (JStr (pys "cdef")) (JInt 5) (JInt 1)
                                      (JArr [JArr [JStr (pys "e"); JBool true]]) (pys "hi") (JStr (pys "01"))) with
  | Some raw => parse_json raw = None
  | None => False
  end.
Proof. vm_compute. reflexivity. Qed.

(* ---------- tie to the source, re-checked on every run ---------- *)
(* tools/pyfrag.d/frames_c04.py regenerates Gen/Frames.v from the f-strings of util.event_as_json
   and web.send_subscriptions in /repo's working tree; they must be the templates the model interprets *)
From NR Require Gen.Frames.
Theorem C04_source_templates :
  Gen.Frames.event_template = model_event_template /\ Gen.Frames.eose_template = model_eose_template.
Proof. split; reflexivity. Qed.
Print Assumptions C04_source_templates.

Theorem C04_templates_are_the_model : forall sub e,
  interp sub e Gen.Frames.event_template = event_as_json sub e /\
  interp sub e Gen.Frames.eose_template = Some (eose_frame true sub).
Proof.
  intros. destruct C04_source_templates as [-> ->]. split; [apply interp_event_template | apply interp_eose_template].
Qed.
Print Assumptions C04_templates_are_the_model.
