(* C15 - NIP-42 authentication succeeds only for a fresh, correctly signed answer.
   Property theorems only; proofs are in C15/Proofs.v.  The tests of check_auth_event
   (auth_kind_bad, auth_since, auth_is_too_old/new, auth_url_bad, auth_tags_missing) and
   parse_valid_urls are regenerated from /repo on every run (Gen/Auth.v); Event.verify() is
   an oracle carried by the event (a_verify); storage.get_auth_roles and the configured
   relay_urls are Section variables of the model. *)
From NR Require Import Lib.Base Lib.PyRt C15.Rt Gen.Auth C15.Model C15.Spec C15.Proofs.
Open Scope Z_scope.

(* token => verified /\ kind 22242 /\ |now - created| < 600 /\ a relay tag is present and every
   relay tag names a configured URL as a list element /\ a challenge tag is present and every
   challenge tag equals this connection's challenge /\ token pubkey = event pubkey *)
Theorem C15_auth_sound : forall roles_of configured now ch p t,
  authenticate roles_of configured now ch p = Authenticated t ->
  exists ev, p = PEvent ev /\ valid_answer now (urls_as_list configured) ch ev /\
             t_pubkey t = a_pubkey ev /\ t_roles t = roles_of (a_pubkey ev).
Proof. exact auth_sound. Qed.
Print Assumptions C15_auth_sound.

(* the statement is not vacuous: every valid answer (whose tags are all non-empty, as
   Event.verify() itself requires) does authenticate *)
Theorem C15_auth_complete : forall roles_of configured now ch ev,
  valid_answer now (urls_as_list configured) ch ev -> Forall (fun t => t <> []) (a_tags ev) ->
  exists t, authenticate roles_of configured now ch (PEvent ev) = Authenticated t /\ t_pubkey t = a_pubkey ev.
Proof. exact auth_complete. Qed.
Print Assumptions C15_auth_complete.

(* any other AUTH leaves the connection's identity unchanged (AUTH branch of web.start_client:
   AuthenticationError -> NOTICE, any other exception -> close 1013; no assignment either way) *)
Theorem C15_failed_auth_keeps_token : forall roles_of configured enabled ch c m,
  (forall t, authenticate roles_of configured (fst m) ch (snd m) <> Authenticated t) ->
  c_token (handle_auth roles_of configured enabled ch c m) = c_token c.
Proof. exact failed_auth_keeps_token. Qed.
Print Assumptions C15_failed_auth_keeps_token.

(* for all orders of AUTH attempts on a connection: an identity it holds afterwards was proved
   by a valid answer among the messages received on this connection *)
Theorem C15_token_from_valid_answer : forall roles_of configured enabled ch ms t,
  c_token (run_auths roles_of configured enabled ch ms) = Some t ->
  exists now ev, In (now, PEvent ev) ms /\ valid_answer now (urls_as_list configured) ch ev /\ t_pubkey t = a_pubkey ev.
Proof.
  intros roles_of configured enabled ch ms t H.
  destruct (token_from_valid_answer roles_of configured enabled ch ms conn0 t H) as [E|E]; [discriminate | exact E].
Qed.
Print Assumptions C15_token_from_valid_answer.

(* an answer captured on one connection is useless on a connection with a different challenge *)
Theorem C15_cross_connection_replay : forall roles_of configured now ch1 ch2 p t,
  ch1 <> ch2 ->
  authenticate roles_of configured now ch1 p = Authenticated t ->
  authenticate roles_of configured now ch2 p = AuthRefused EWrongChallenge.
Proof. exact cross_connection_replay. Qed.
Print Assumptions C15_cross_connection_replay.

(* the boolean evaluated on the implementation's observations (c15.holds, c15.conn_holds) is the statement *)
Theorem C15_oracle_is_statement : forall now l ch ev, valid_answerb now l ch ev = true <-> valid_answer now l ch ev.
Proof. exact valid_answerb_spec. Qed.
Print Assumptions C15_oracle_is_statement.

(* F19 (fixed in /repo): with relay_urls left as the default str, `tag[1] not in self.valid_urls`
   is a substring test and ["relay","ws"] passes check_auth_event *)
Theorem C15_str_urls_refuted :
  check_auth_event 1000 default_relay_urls (pys "c") f19_event = COk /\
  ~ valid_answer 1000 (urls_as_list default_relay_urls) (pys "c") f19_event.
Proof. exact f19_str_urls_refuted. Qed.
Print Assumptions C15_str_urls_refuted.

(* ---------------------------------------------------------------- non-vacuity *)
Definition ex_ok : aevent :=
  {| a_pubkey := pys "k"; a_kind := 22242; a_created := 1599;
     a_tags := [[pys "p"; pys "x"]; [pys "relay"; pys "ws://localhost:6969"]; [pys "challenge"; pys "c"; pys "extra"]];
     a_verify := VTrue |}.
Example C15_ex_valid :
  authenticate (fun _ => [97%N]) default_relay_urls 1000 (pys "c") (PEvent ex_ok)
  = Authenticated {| t_pubkey := pys "k"; t_roles := [97%N]; t_now := 1000 |} /\
  valid_answerb 1000 (urls_as_list default_relay_urls) (pys "c") ex_ok = true.
Proof. vm_compute. split; reflexivity. Qed.
(* one second later the same answer is too new by the strict bound; on another connection it is a wrong challenge;
   a failed attempt after a successful one keeps the first identity; a crash closes *)
Example C15_ex_neighbours :
  authenticate (fun _ => []) default_relay_urls 999 (pys "c") (PEvent ex_ok) = AuthRefused ETooNew /\
  authenticate (fun _ => []) default_relay_urls 1000 (pys "d") (PEvent ex_ok) = AuthRefused EWrongChallenge /\
  option_map t_pubkey (c_token (run_auths (fun _ => []) default_relay_urls true (pys "c")
      [(1000, PEvent ex_ok); (999, PEvent ex_ok); (1000, PNotDict)])) = Some (pys "k") /\
  c_open (run_auths (fun _ => []) default_relay_urls true (pys "c") [(1000, PBadCtor (pys "TypeError")); (1000, PEvent ex_ok)]) = false /\
  c_token (run_auths (fun _ => []) default_relay_urls true (pys "c") [(1000, PBadCtor (pys "TypeError")); (1000, PEvent ex_ok)]) = None.
Proof. vm_compute. repeat split. Qed.
