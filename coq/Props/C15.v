From NR Require Import Lib.Base Lib.PyRt C15.Rt Gen.Auth C15.Model C15.Spec C15.Proofs.
Theorem C15_placeholder : auth_kind = 22242%Z.
Proof. exact placeholder. Qed.
Print Assumptions C15_placeholder.
