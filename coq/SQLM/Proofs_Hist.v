(* SQLM - invariants over all histories of admitted events, and the REQ theorems stated on them. *)
From NR Require Import Lib.Base Lib.BaseFacts Lib.Nip01
     SQLM.Rel SQLM.Write SQLM.Query SQLM.Text SQLM.Where SQLM.Req SQLM.Spec
     SQLM.Proofs_Hex SQLM.Proofs_Rel SQLM.Proofs_Write SQLM.Proofs_Props SQLM.Proofs_Text SQLM.Proofs_Where.
From Coq Require Import ZifyBool Sorting.Permutation.
Open Scope list_scope. Open Scope Z_scope.

Definition Rows32 (d : db) : Prop := forall r, In r (d_events d) -> row32 r.

Lemma wf_row32 e r : wf_wevent e = true -> row_of_event e = Some r -> row32 r.
Proof.
  intros Hwf Er. pose proof (event_of_row_of_event e r Hwf Er) as E.
  unfold wf_wevent in Hwf.
  apply andb_true_iff in Hwf. destruct Hwf as [H _]. apply andb_true_iff in H. destruct H as [H _].
  apply andb_true_iff in H. destruct H as [H _]. apply andb_true_iff in H. destruct H as [H _].
  apply andb_true_iff in H. destruct H as [Hi Hp].
  apply wf_hex_len in Hi. apply wf_hex_len in Hp. rewrite <- E in Hi, Hp. simpl in Hi, Hp.
  rewrite hex_length in Hi, Hp. unfold row32. lia.
Qed.

Lemma submit_Rows32 now d e : Inv d -> Rows32 d -> wf_wevent (event_init now e) = true -> Rows32 (submit now d e).
Proof.
  intros Hinv H32 Hwf r Hr. unfold submit in Hr.
  destruct (res_cases now d e Hinv) as [[x [_ E]] | [[_ [E _]] | [_ [_ [r0 [Er [_ Hev]]]]]]].
  - rewrite E in Hr. apply H32. exact Hr.
  - rewrite E in Hr. apply H32. exact Hr.
  - apply Hev in Hr. destruct Hr as [[Hr | ->] _]; [apply H32; exact Hr | apply (wf_row32 _ _ Hwf Er)].
Qed.

Definition wf_history (now : Z) (h : list wevent) : Prop := Forall (fun e => wf_wevent (event_init now e) = true) h.

Theorem history_Rows32 : forall now h, wf_history now h -> Rows32 (run_history now h).
Proof.
  intros now h. unfold run_history.
  assert (G : forall d, Inv d -> Rows32 d -> wf_history now h -> Rows32 (fold_left (submit now) h d)).
  { induction h as [|e h IH]; intros d Hi H32 Hw; [exact H32|]. inversion Hw. subst. simpl.
    apply IH; [apply submit_Inv; exact Hi | apply submit_Rows32; assumption | assumption]. }
  apply G; [apply Inv_empty | intros r []].
Qed.

(* ---------- C01 over histories ---------- *)
Lemma eval_where_clauses tags r fs : fs <> [] ->
  eval_where tags r (map clause_of fs) = true -> exists f, In f fs /\ eval_clause tags r (clause_of f) = true.
Proof.
  intros Hne H. unfold eval_where in H. destruct (map clause_of fs) as [|c0 cl] eqn:E; [destruct fs; [congruence | discriminate]|].
  rewrite <- E in H. apply existsb_exists in H. destruct H as [c [Hc Hev]]. apply in_map_iff in Hc.
  destruct Hc as [f [<- Hf]]. exists f. auto.
Qed.

Theorem sql_req_sound : forall now h dl ml fs r, wf_history now h -> fs <> [] -> Forall validated fs ->
  In r (req_exec dl ml (run_history now h) fs) ->
  In r (d_events (run_history now h)) /\ exists f, In f fs /\ may_match f (event_of_row r) = true.
Proof.
  intros now h dl ml fs r Hw Hne Hv Hr. unfold req_exec in Hr.
  destruct (executable (build_query dl ml fs)); [|destruct Hr].
  pose proof (history_Inv now h) as Hinv. pose proof (history_Rows32 now h Hw) as H32.
  pose proof (sql_answer_subset _ _ _ Hr) as Hin. split; [exact Hin|].
  unfold answer, sql_limit in Hr.
  assert (Hm : In r (matching (run_history now h) (q_where (build_query dl ml fs)))).
  { apply (Permutation_in _ (Permutation_sym (sort_desc_perm _))).
    destruct (q_limit (build_query dl ml fs) <? 0); [exact Hr|].
    rewrite <- (firstn_skipn (Z.to_nat (q_limit (build_query dl ml fs)))). apply in_or_app. left. exact Hr. }
  unfold matching in Hm. apply filter_In in Hm. destruct Hm as [_ Hm]. cbn [build_query q_where] in Hm.
  destruct (eval_where_clauses _ _ _ Hne Hm) as [f [Hf Hc]]. exists f. split; [exact Hf|].
  rewrite (eval_clause_local _ r _ Hinv Hin) in Hc. rewrite Forall_forall in Hv.
  destruct Hinv as [_ [_ Hrows]]. apply (sql_where_sound f r (Hv f Hf) (Hrows r Hin) (H32 r Hin) Hc).
Qed.

(* ---------- C02 over histories ---------- *)
Lemma executable_valid dl ml fs : forallb valid_filter fs = true -> executable (build_query dl ml fs) = true.
Proof. intros H. unfold executable. rewrite (build_query_lexes dl ml fs H). reflexivity. Qed.

Lemma count_absent (q : row -> bool) i : forall l, ~ In i (map r_id l) ->
  count_occ_b (fun y => bytes_eqb (r_id y) i) (List.filter q l) = 0%nat.
Proof.
  induction l as [|y l IH]; intros H; [reflexivity|]. simpl. simpl in H.
  assert (E : bytes_eqb (r_id y) i = false).
  { destruct (bytes_eqb (r_id y) i) eqn:E; [|reflexivity]. exfalso. apply H. left. apply bytes_eqb_eq. exact E. }
  destruct (q y); simpl; rewrite ?E; apply IH; intros C; apply H; right; exact C.
Qed.
Lemma count_pk (q : row -> bool) r : forall l, NoDup (map r_id l) -> In r l -> q r = true ->
  count_occ_b (fun y => bytes_eqb (r_id y) (r_id r)) (List.filter q l) = 1%nat.
Proof.
  induction l as [|x l IH]; intros Hnd Hin Hq; [destruct Hin|]. simpl in Hnd. inversion Hnd as [|? ? Hx Hnd']. subst.
  simpl. destruct Hin as [->|Hin].
  - rewrite Hq. simpl. rewrite bytes_eqb_refl, (count_absent q (r_id r) l Hx). reflexivity.
  - assert (E : bytes_eqb (r_id x) (r_id r) = false).
    { destruct (bytes_eqb (r_id x) (r_id r)) eqn:E; [|reflexivity]. exfalso. apply Hx. apply bytes_eqb_eq in E. rewrite E. apply in_map. exact Hin. }
    destruct (q x); simpl; rewrite ?E; apply IH; assumption.
Qed.

(* single-filter REQ under its limit: every must-matching stored row is answered, exactly once *)
Theorem sql_req_complete : forall now h dl ml f r, 0 <= query_limit dl ml [f] ->
  valid_filter f = true -> wf_filter f -> has_conditions f ->
  Z.of_nat (length (List.filter (P_sql f) (d_events (run_history now h)))) <= query_limit dl ml [f] ->
  In r (d_events (run_history now h)) -> must_match f (event_of_row r) = true ->
  count_occ_b (fun y => bytes_eqb (r_id y) (r_id r)) (req_exec dl ml (run_history now h) [f]) = 1%nat.
Proof.
  intros now h dl ml f r Hl Hvf Hwf Hc Hunder Hin Hm.
  pose proof (history_Inv now h) as Hinv. set (d := run_history now h) in *.
  unfold req_exec. rewrite executable_valid by (simpl; rewrite Hvf; reflexivity).
  assert (Hperm : Permutation (answer d (build_query dl ml [f])) (List.filter (P_sql f) (d_events d))).
  { rewrite <- (matching_exact_sql dl ml d f Hinv). apply limit_complete; [exact Hl|].
    rewrite (matching_exact_sql dl ml d f Hinv). exact Hunder. }
  assert (Hp : P_sql f r = true) by (destruct Hinv as [_ [_ Hrows]]; apply (sql_complete f r Hwf Hc (Hrows r Hin) Hm)).
  assert (Hcount : forall l l', Permutation l l' -> count_occ_b (fun y => bytes_eqb (r_id y) (r_id r)) l = count_occ_b (fun y => bytes_eqb (r_id y) (r_id r)) l').
  { intros l l' P. induction P; simpl; try lia. }
  rewrite (Hcount _ _ Hperm).
  destruct Hinv as [Hpk _]. apply count_pk; assumption.
Qed.
