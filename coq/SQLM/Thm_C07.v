(* C07, SQL half: all effects of an event are applied atomically (engine faults; single transaction;
   notification after the commit).  Process kill / power loss is SQLite's own atomic commit (trusted). *)
From NR Require Import Lib.Base Lib.BaseFacts Lib.Nip01 SQLM.Rel SQLM.Write SQLM.Spec SQLM.Examples SQLM.Proofs_Fault.
Open Scope list_scope.

(* the statements (crash-point space) of the application of e on store d *)
Definition writes_sql (now : Z) (d : db) (e : wevent) : list stmt := fst (run None d (txn_body (event_init now e)) []).

Theorem sql_fail_at_k_restores : forall now d e k, (k < length (writes_sql now d e))%nat ->
  let r := add_event (Some k) now true true d e in
  ar_db r = d /\ ar_out r = inr EOperational /\
  ar_trace r = TBegin :: map TStmt (firstn (S k) (writes_sql now d e)) ++ [TRollback].
Proof.
  intros now d e k Hk. apply (fail_at_k_restores now true true d e k eq_refl eq_refl).
  unfold nstmts. simpl. unfold writes_sql in Hk. lia.
Qed.
Theorem sql_later_events_unaffected : forall now f valid can d e x rest,
  ar_out (add_event f now valid can d e) = inr x ->
  fold_left (submit now) rest (ar_db (add_event f now valid can d e)) = fold_left (submit now) rest d.
Proof. exact later_events_unaffected. Qed.
Theorem sql_single_txn : forall now d e f,
  let r := add_event f now true true d e in
  exists stmts, (ar_trace r = TBegin :: map TStmt stmts ++ [TCommit; TNotify] /\ ar_out r = inl true) \/
                (ar_trace r = TBegin :: map TStmt stmts ++ [TCommit] /\ ar_out r = inl false) \/
                (ar_trace r = TBegin :: map TStmt stmts ++ [TRollback] /\ exists x, ar_out r = inr x /\ ar_db r = d).
Proof. intros. apply single_txn; reflexivity. Qed.
Theorem sql_notify_after_commit : forall now valid can d e f,
  In TNotify (ar_trace (add_event f now valid can d e)) ->
  exists stmts, ar_trace (add_event f now valid can d e) = TBegin :: map TStmt stmts ++ [TCommit; TNotify] /\
                ar_out (add_event f now valid can d e) = inl true.
Proof. exact notify_after_commit. Qed.

(* non-vacuity: a replaceable event superseding an older version executes 4 statements (duplicate test,
   SELECT older, DELETE, INSERT); a fault at the INSERT (k = 3) - after the DELETE - leaves both stored *)
Example c07_fault_after_delete :
  let d := run_history now0 [mkev "01" "aa" 10 10000 [["t"; "x"]]] in
  let e := mkev "02" "aa" 20 10000 [] in
  length (writes_sql now0 d e) = 4%nat /\
  ids_of (ar_db (add_event (Some 3%nat) now0 true true d e)) = [pys "01"] /\
  d_tags (ar_db (add_event (Some 3%nat) now0 true true d e)) = d_tags d /\
  ids_of (ar_db (add_event (Some 4%nat) now0 true true d e)) = [pys "02"].
Proof. vm_compute. repeat split; reflexivity. Qed.
