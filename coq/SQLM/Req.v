(* SQLM - the REQ path end to end: build_query, the text SQLite must accept, the answer. *)
From NR Require Import Lib.Base Lib.Nip01 SQLM.Rel SQLM.Write SQLM.Query SQLM.Text SQLM.Where.
Open Scope list_scope. Open Scope Z_scope.

(* sqlite3 refuses a statement it cannot lex (a NUL inside a literal): run_query logs the error
   and the REQ is answered with EOSE only *)
Definition executable (q : query) : bool :=
  match lex (render (query_toks q)) with Some _ => true | None => false end.
Definition req_exec (default_limit max_limit : Z) (d : db) (fs : list filter) : list row :=
  let q := build_query default_limit max_limit fs in
  if executable q then answer d q else [].
