(* SQLM - the REQ statement over the relational state: the WHERE clause of a filter is, on
   every reachable store, a store-independent predicate of the row lying between must_match
   and may_match; ORDER BY/LIMIT returns the newest n; consequences (C01, C02, C11, C12). *)
From NR Require Import Lib.Base Lib.BaseFacts Lib.Nip01
     SQLM.Rel SQLM.Write SQLM.Query SQLM.Where SQLM.Spec SQLM.Proofs_Hex SQLM.Proofs_Rel SQLM.Proofs_Write SQLM.Proofs_Gc.
From Coq Require Import ZifyBool Sorting.Permutation Sorting.Sorted.
Open Scope list_scope. Open Scope Z_scope.

(* ---------- the tags table seen from one row ---------- *)
Lemma tag_subquery_local d r n vs : Inv d -> In r (d_events d) ->
  tag_subquery (d_tags d) (r_id r) n vs = tag_subquery (tagrows_of r) (r_id r) n vs.
Proof.
  intros [Hpk [Hcoh _]] Hr. unfold tag_subquery. apply eq_true_iff_eq. rewrite !existsb_exists. split.
  - intros [t [Ht E]]. exists t. split; [|exact E].
    apply andb_true_iff in E. destruct E as [E _]. apply andb_true_iff in E. destruct E as [Ei _]. apply bytes_eqb_eq in Ei.
    apply (Hcoh t) in Ht. destruct Ht as [r2 [Hr2 [_ Ht]]].
    assert (r2 = r) by (apply (PK_unique d r2 r Hpk Hr2 Hr); rewrite <- (tagrows_id r2 t Ht); exact Ei). subst r2. exact Ht.
  - intros [t [Ht E]]. exists t. split; [|exact E]. apply (Hcoh t). exists r. split; [exact Hr|]. split; [discriminate | exact Ht].
Qed.
Lemma eval_cond_local d r c : Inv d -> In r (d_events d) ->
  eval_cond (d_tags d) r c = eval_cond (tagrows_of r) r c.
Proof.
  intros Hi Hr. destruct c; simpl; try reflexivity; rewrite (tag_subquery_local d r _ _ Hi Hr); reflexivity.
Qed.
Lemma eval_clause_local d r c : Inv d -> In r (d_events d) ->
  eval_clause (d_tags d) r c = eval_clause (tagrows_of r) r c.
Proof.
  intros Hi Hr. unfold eval_clause. destruct c as [|x c]; [reflexivity|].
  induction (x :: c) as [|y l IH]; [reflexivity|]. simpl. rewrite (eval_cond_local d r y Hi Hr), IH. reflexivity.
Qed.

(* the store-independent predicate of C11 *)
Definition P_sql (f : filter) (r : row) : bool := eval_clause (tagrows_of r) r (clause_of f).

(* a stored row: 32-byte id and key *)
Definition row32 (r : row) : Prop := length (r_id r) = 32%nat /\ length (r_pubkey r) = 32%nat.
Lemma hex_length b : length (hex_of_bytes b) = (2 * length b)%nat.
Proof. induction b as [|x b IH]; [reflexivity|]. simpl. rewrite IH. lia. Qed.

(* what NostrQuery validation guarantees (R6: hex of at least 64 digits) *)
Definition valid_hexes (l : list pystr) : Prop := forall h, In h l -> is_lower_hex h = true /\ (64 <= length h)%nat.
Definition validated (f : filter) : Prop :=
  (forall l, f_ids f = Some l -> valid_hexes l) /\ (forall l, f_authors f = Some l -> valid_hexes l).

Lemma is_prefix_length p s : is_prefix p s = true -> (length p <= length s)%nat.
Proof.
  revert s. induction p as [|c p IH]; intros s H; [simpl; lia|].
  destruct s as [|c2 s]; [discriminate|]. simpl in H. apply andb_true_iff in H. destruct H as [_ H].
  specialize (IH s H). simpl. lia.
Qed.

Lemma blob_match b h : Forall is_byte b -> b <> [] -> is_lower_hex h = true ->
  bytes_eqb b (blob_of_hex h) = true -> hex_of_bytes b = h.
Proof.
  intros Hb Hne Hl E. apply bytes_eqb_eq in E. unfold blob_of_hex in E.
  destruct (py_fromhex h) as [b'|] eqn:Eh; [|exfalso; apply Hne; exact E]. subst b'. apply (hex_fromhex_lower h b Hl Eh).
Qed.

Lemma tagrows_tag r n v : no_empty_tag (r_tags r) = true ->
  In (mktrow (r_id r) n v) (tagrows_of r) <-> indexed_name n = true /\ exists rest, In (n :: v :: rest) (r_tags r).
Proof.
  intros Hne. destruct (tag_pairs_some _ Hne) as [pairs Ep]. unfold tagrows_of. rewrite Ep.
  rewrite <- (tag_pairs_In _ _ n v Ep). rewrite in_map_iff. split.
  - intros [[n' v'] [E H]]. inversion E. subst. exact H.
  - intros H. exists (n, v). auto.
Qed.
Lemma tag_subquery_has_tag r n vs : no_empty_tag (r_tags r) = true ->
  tag_subquery (tagrows_of r) (r_id r) n vs = true ->
  has_tag_value (event_of_row r) n vs = true.
Proof.
  intros Hne H. unfold tag_subquery in H. apply existsb_exists in H. destruct H as [t [Ht E]].
  apply andb_true_iff in E. destruct E as [E Ev]. apply andb_true_iff in E. destruct E as [Ei En].
  apply bytes_eqb_eq in Ei. apply str_eqb_eq in En. destruct t as [ti tn tv]. simpl in *. subst ti tn.
  apply (tagrows_tag r n tv Hne) in Ht. destruct Ht as [_ [rest Hin]].
  unfold has_tag_value. apply existsb_exists. exists (n :: tv :: rest). split; [exact Hin|]. rewrite str_eqb_refl, Ev. reflexivity.
Qed.
Lemma has_tag_tag_subquery r n vs : no_empty_tag (r_tags r) = true -> indexed_name n = true ->
  has_tag_value (event_of_row r) n vs = true -> tag_subquery (tagrows_of r) (r_id r) n vs = true.
Proof.
  intros Hne Hix H. unfold has_tag_value in H. apply existsb_exists in H. destruct H as [t [Ht E]].
  destruct t as [|n' [|v rest]]; try discriminate. apply andb_true_iff in E. destruct E as [En Ev].
  apply str_eqb_eq in En. subst n'. unfold tag_subquery. apply existsb_exists. exists (mktrow (r_id r) n v). split.
  - apply (tagrows_tag r n v Hne). split; [exact Hix | exists rest; exact Ht].
  - simpl. rewrite bytes_eqb_refl, str_eqb_refl, Ev. reflexivity.
Qed.

Lemma forallb_app_true {A} (p : A -> bool) a b : forallb p (a ++ b) = true <-> forallb p a = true /\ forallb p b = true.
Proof. rewrite forallb_app, andb_true_iff. tauto. Qed.

Lemma eval_clause_nonempty tags r c : eval_clause tags r c = true -> c <> [] /\ forallb (eval_cond tags r) c = true.
Proof. unfold eval_clause. destruct c; [discriminate|]. intros H. split; [discriminate | exact H]. Qed.

Lemma dedup_str_In l x : In x (dedup_str l) <-> In x l.
Proof.
  induction l as [|y l IH]; simpl; [tauto|]. destruct (mem_str y l) eqn:E.
  - rewrite IH. split; [tauto|]. intros [<-|H]; [apply mem_str_In; exact E | exact H].
  - simpl. rewrite IH. tauto.
Qed.

(* ---------- C01: a returned row may-matches its filter ---------- *)
Theorem sql_where_sound : forall f r, validated f -> row_ok r -> row32 r ->
  P_sql f r = true -> may_match f (event_of_row r) = true.
Proof.
  intros f r [Vids Vauth] [Hbi [Hbp [_ Hne]]] [L32 Lp32] H. unfold P_sql, clause_of in H.
  destruct (evaluate_filter f) as [c|] eqn:Ef; [|discriminate].
  apply eval_clause_nonempty in H. destruct H as [_ H].
  unfold evaluate_filter in Ef.
  destruct (opt_conds (f_ids f) _) as [c1|] eqn:E1; [|discriminate].
  destruct (opt_conds (f_authors f) _) as [c2|] eqn:E2; [|discriminate].
  destruct (opt_conds (f_kinds f) _) as [c3|] eqn:E3; [|discriminate].
  destruct (tags_conds (f_tags f)) as [c6|] eqn:E6; [|discriminate].
  inversion Ef. subst c. clear Ef.
  apply forallb_app_true in H. destruct H as [H1 H]. apply forallb_app_true in H. destruct H as [H2 H].
  apply forallb_app_true in H. destruct H as [H3 H]. apply forallb_app_true in H. destruct H as [H4 H].
  apply forallb_app_true in H. destruct H as [H5 H6].
  unfold may_match, core_match. rewrite !andb_true_iff. repeat split.
  - (* ids *)
    unfold in_opt_str. unfold opt_conds in E1. destruct (f_ids f) as [ids|] eqn:Ei; [|reflexivity].
    destruct (is_nil ids) eqn:Enil; [discriminate|]. inversion E1. subst c1. clear E1. unfold ids_conds in H1.
    apply forallb_app_true in H1. destruct H1 as [Hlike Hin].
    assert (Hall64 : forall h, In h ids -> len_is 64 h = true).
    { intros h Hh. destruct (len_is 64 h) eqn:E64; [reflexivity|]. exfalso.
      destruct (Vids ids eq_refl h Hh) as [_ Hlen].
      assert (Hl : In (CIdLike h) (map CIdLike (List.filter (fun s => negb (len_is 64 s) && Nat.ltb 2 (length s)) ids))).
      { apply in_map. apply filter_In. split; [exact Hh|]. rewrite E64. simpl. apply Nat.ltb_lt. lia. }
      rewrite forallb_forall in Hlike. specialize (Hlike _ Hl). simpl in Hlike.
      apply is_prefix_length in Hlike. rewrite hex_length, L32 in Hlike. unfold len_is in E64. apply Nat.eqb_neq in E64. unfold cp, byte in *. lia. }
    destruct (is_nil (List.filter (len_is 64) ids)) eqn:En.
    + exfalso. destruct ids as [|h0 ids']; [discriminate Enil|]. simpl in En. rewrite (Hall64 h0 (or_introl eq_refl)) in En. discriminate.
    + simpl in Hin. rewrite andb_true_r in Hin. apply existsb_exists in Hin. destruct Hin as [h [Hh E]].
      apply filter_In in Hh. destruct Hh as [Hh _]. apply mem_str_In. simpl.
      rewrite (blob_match (r_id r) h Hbi); auto; [|apply (Vids ids eq_refl h Hh)].
      intros C. rewrite C in L32. discriminate.
  - (* authors *)
    unfold author_or_delegator. unfold opt_conds in E2. destruct (f_authors f) as [a|] eqn:Ea; [|reflexivity].
    destruct (is_nil (dedup_str (List.filter (len_is 64) a))); [discriminate|]. inversion E2. subst c2. clear E2.
    simpl in H2. rewrite andb_true_r in H2. apply orb_true_iff in H2. apply orb_true_iff. destruct H2 as [Hp | Hd].
    + left. apply existsb_exists in Hp. destruct Hp as [h [Hh E]]. apply (proj1 (dedup_str_In _ _)) in Hh. apply filter_In in Hh. destruct Hh as [Hh _].
      apply mem_str_In. simpl. rewrite (blob_match (r_pubkey r) h Hbp); auto; [|apply (Vauth a eq_refl h Hh)].
      intros C. rewrite C in Lp32. discriminate.
    + right. apply (tag_subquery_has_tag r _ _ Hne) in Hd. unfold has_tag_value in *. apply existsb_exists in Hd.
      destruct Hd as [t [Ht E]]. apply existsb_exists. exists t. split; [exact Ht|].
      destruct t as [|n [|v rest]]; try discriminate. apply andb_true_iff in E. destruct E as [En Ev]. rewrite En. simpl.
      apply mem_str_In in Ev. apply (proj1 (dedup_str_In _ _)) in Ev. apply filter_In in Ev. apply mem_str_In. tauto.
  - (* kinds *)
    unfold in_opt_Z. unfold opt_conds in E3. destruct (f_kinds f) as [ks|]; [|reflexivity].
    destruct (is_nil ks); [discriminate|]. inversion E3. subst c3. simpl in H3. rewrite andb_true_r in H3. exact H3.
  - (* tags *)
    clear -H6 E6 Hne. revert c6 E6 H6. induction (f_tags f) as [|nv tags IH]; intros c6 E6 H6; [reflexivity|].
    simpl in E6. fold (tags_conds tags) in E6. destruct (tags_conds tags) as [l|] eqn:El; [|discriminate].
    destruct (is_nil (snd nv)); [discriminate|]. inversion E6. subst c6. simpl in H6. apply andb_true_iff in H6.
    destruct H6 as [Ht Hl]. simpl. rewrite (tag_subquery_has_tag r _ _ Hne Ht). apply (IH l eq_refl Hl).
  - (* since *)
    unfold after_closed. destruct (f_since f) as [s|]; [|reflexivity]. simpl in H4. rewrite andb_true_r in H4. exact H4.
  - (* until *)
    unfold before_closed. destruct (f_until f) as [u|]; [|reflexivity]. simpl in H5. rewrite andb_true_r in H5. simpl. lia.
Qed.

(* ---------- C02: a must-matching stored row satisfies the WHERE clause ---------- *)
(* well-formed filter: ids / authors of exactly 64 lower-case hex digits, one-character tag names *)
Definition wf_filter (f : filter) : Prop :=
  (forall l, f_ids f = Some l -> forall h, In h l -> wf_hex 64 h = true) /\
  (forall l, f_authors f = Some l -> forall h, In h l -> wf_hex 64 h = true) /\
  (forall nv, In nv (f_tags f) -> length (fst nv) = 1%nat).
Definition has_conditions (f : filter) : Prop := evaluate_filter f <> Some [].

Lemma wf_hex_len n h : wf_hex n h = true -> length h = n.
Proof. unfold wf_hex. intros H. apply andb_true_iff in H. destruct H as [_ H]. apply Nat.eqb_eq. exact H. Qed.
Lemma filter_all {A} (p : A -> bool) l : (forall x, In x l -> p x = true) -> List.filter p l = l.
Proof.
  induction l as [|x l IH]; intros H; [reflexivity|]. simpl. rewrite (H x (or_introl eq_refl)). f_equal.
  apply IH. intros y Hy. apply H. right. exact Hy.
Qed.
Lemma filter_none {A} (p : A -> bool) l : (forall x, In x l -> p x = false) -> List.filter p l = [].
Proof.
  induction l as [|x l IH]; intros H; [reflexivity|]. simpl. rewrite (H x (or_introl eq_refl)).
  apply IH. intros y Hy. apply H. right. exact Hy.
Qed.

Theorem sql_complete : forall f r, wf_filter f -> has_conditions f -> row_ok r ->
  must_match f (event_of_row r) = true -> P_sql f r = true.
Proof.
  intros f r [Wids [Wauth Wtags]] Hcond [Hbi [Hbp [_ Hne]]] H.
  unfold must_match, core_match in H. rewrite !andb_true_iff in H.
  destruct H as [[[[[Hids Hauth] Hkinds] Htags] Hsince] Huntil].
  (* each group of conditions evaluates to Some and holds *)
  assert (G1 : exists c1, opt_conds (f_ids f) (fun ids => if is_nil ids then None else Some (ids_conds ids)) = Some c1 /\
                          forallb (eval_cond (tagrows_of r) r) c1 = true).
  { unfold opt_conds, in_opt_str in *. destruct (f_ids f) as [ids|] eqn:Ei; [|exists []; auto].
    apply mem_str_In in Hids. destruct ids as [|h0 ids']; [destruct Hids|]. simpl is_nil. cbv iota.
    exists (ids_conds (h0 :: ids')). split; [reflexivity|]. unfold ids_conds.
    assert (H64 : forall h, In h (h0 :: ids') -> len_is 64 h = true).
    { intros h Hh. unfold len_is. apply Nat.eqb_eq. apply (wf_hex_len 64 h). apply (Wids _ eq_refl h Hh). }
    rewrite (filter_all (len_is 64) (h0 :: ids') H64).
    rewrite (filter_none (fun s => negb (len_is 64 s) && Nat.ltb 2 (length s))) by (intros x Hx; rewrite (H64 x Hx); reflexivity).
    simpl map. simpl app. cbn [is_nil forallb eval_cond]. rewrite andb_true_r.
    apply existsb_exists. exists (w_id (event_of_row r)). split; [exact Hids|]. simpl. unfold blob_of_hex.
    rewrite (py_fromhex_hex _ Hbi). apply bytes_eqb_refl. }
  assert (G2 : exists c2, opt_conds (f_authors f) (fun a => let exact := dedup_str (List.filter (len_is 64) a) in
                            if is_nil exact then None else Some [CAuthors exact]) = Some c2 /\
                          forallb (eval_cond (tagrows_of r) r) c2 = true).
  { unfold opt_conds, author_or_delegator in *. destruct (f_authors f) as [a|] eqn:Ea; [|exists []; auto].
    assert (H64 : forall h, In h a -> len_is 64 h = true).
    { intros h Hh. unfold len_is. apply Nat.eqb_eq. apply (wf_hex_len 64 h). apply (Wauth _ eq_refl h Hh). }
    rewrite (filter_all (len_is 64) a H64). cbv zeta.
    assert (Hex : eval_cond (tagrows_of r) r (CAuthors (dedup_str a)) = true).
    { simpl. apply orb_true_iff in Hauth. apply orb_true_iff. destruct Hauth as [Hp | Hd].
      - left. apply mem_str_In in Hp. apply existsb_exists. exists (w_pubkey (event_of_row r)). split; [apply dedup_str_In; exact Hp|].
        simpl. unfold blob_of_hex. rewrite (py_fromhex_hex _ Hbp). apply bytes_eqb_refl.
      - right. apply (has_tag_tag_subquery r s_delegation (dedup_str a) Hne eq_refl).
        unfold has_tag_value in *. apply existsb_exists in Hd. destruct Hd as [t [Ht E]]. apply existsb_exists. exists t. split; [exact Ht|].
        destruct t as [|n [|v rest]]; try discriminate. apply andb_true_iff in E. destruct E as [En Ev]. rewrite En. simpl.
        apply mem_str_In. apply dedup_str_In. apply mem_str_In. exact Ev. }
    destruct (is_nil (dedup_str a)) eqn:En.
    - exfalso. destruct (dedup_str a); [|discriminate]. simpl in Hex. unfold tag_subquery in Hex.
      try rewrite orb_false_l in Hex. apply existsb_exists in Hex. destruct Hex as [t [_ E]]. rewrite andb_false_r in E. discriminate.
    - exists [CAuthors (dedup_str a)]. split; [reflexivity|]. cbn [forallb]. rewrite Hex. reflexivity. }
  assert (G3 : exists c3, opt_conds (f_kinds f) (fun ks => if is_nil ks then None else Some [CKindIn ks]) = Some c3 /\
                          forallb (eval_cond (tagrows_of r) r) c3 = true).
  { unfold opt_conds, in_opt_Z in *. destruct (f_kinds f) as [ks|]; [|exists []; auto].
    destruct ks as [|k ks']; [discriminate|]. exists [CKindIn (k :: ks')]. split; [reflexivity|]. simpl in *. rewrite Hkinds. reflexivity. }
  assert (G6 : exists c6, tags_conds (f_tags f) = Some c6 /\ forallb (eval_cond (tagrows_of r) r) c6 = true).
  { clear -Htags Wtags Hne. induction (f_tags f) as [|nv tags IH]; [exists []; auto|].
    simpl in Htags. apply andb_true_iff in Htags. destruct Htags as [Ht Hrest].
    destruct IH as [l [El Hl]]; [intros x Hx; apply Wtags; right; exact Hx | exact Hrest|].
    simpl. fold (tags_conds tags). rewrite El.
    assert (Hnn : is_nil (snd nv) = false).
    { destruct (snd nv) eqn:Es; [|reflexivity]. unfold has_tag_value in Ht. apply existsb_exists in Ht. destruct Ht as [t [_ E]].
      destruct t as [|n [|v rest]]; try discriminate. simpl in E. rewrite andb_false_r in E. discriminate. }
    rewrite Hnn. exists (CTag (fst nv) (snd nv) :: l). split; [reflexivity|]. cbn [forallb eval_cond]. rewrite Hl, andb_true_r.
    apply (has_tag_tag_subquery r _ _ Hne); [|exact Ht]. unfold indexed_name. rewrite (Wtags nv (or_introl eq_refl)). rewrite !orb_true_r. reflexivity. }
  destruct G1 as [c1 [E1 H1]]. destruct G2 as [c2 [E2 H2]]. destruct G3 as [c3 [E3 H3]]. destruct G6 as [c6 [E6 H6]].
  unfold P_sql, clause_of. unfold has_conditions in Hcond. unfold evaluate_filter in *. rewrite E1, E2, E3, E6 in *.
  assert (Hall : forallb (eval_cond (tagrows_of r) r)
            (c1 ++ c2 ++ c3 ++ match f_since f with Some s => [CSince s] | None => [] end ++
             match f_until f with Some u => [CUntil u] | None => [] end ++ c6) = true).
  { rewrite !forallb_app, H1, H2, H3, H6. simpl.
    unfold after_open, before_open in *. cbn [w_created event_of_row] in Hsince, Huntil.
    destruct (f_since f); destruct (f_until f); simpl; rewrite ?andb_true_r; try reflexivity; lia. }
  unfold eval_clause. destruct (c1 ++ c2 ++ c3 ++ _) eqn:Ec; [congruence | exact Hall].
Qed.

(* ---------- ORDER BY created_at DESC ---------- *)
Definition ge_created (a b : row) : Prop := r_created a >= r_created b.
Lemma insert_desc_perm r l : Permutation (r :: l) (insert_desc r l).
Proof.
  induction l as [|x l IH]; [apply Permutation_refl|]. simpl. destruct (r_created x <? r_created r); [apply Permutation_refl|].
  apply perm_trans with (x :: r :: l); [apply perm_swap | apply perm_skip; exact IH].
Qed.
Lemma sort_desc_perm l : Permutation l (sort_desc l).
Proof.
  induction l as [|x l IH]; [apply Permutation_refl|]. simpl.
  apply perm_trans with (x :: sort_desc l); [apply perm_skip; exact IH | apply insert_desc_perm].
Qed.
Lemma insert_desc_sorted r l : StronglySorted ge_created l -> StronglySorted ge_created (insert_desc r l).
Proof.
  induction l as [|x l IH]; intros H; simpl.
  - constructor; constructor.
  - inversion H as [|? ? Hs Hf]. subst. destruct (r_created x <? r_created r) eqn:E.
    + constructor; [exact H|]. constructor; [unfold ge_created; lia|].
      rewrite Forall_forall in *. intros y Hy. specialize (Hf y Hy). unfold ge_created in *. lia.
    + constructor; [apply IH; exact Hs|]. rewrite Forall_forall in *. intros y Hy.
      apply (Permutation_in _ (Permutation_sym (insert_desc_perm r l))) in Hy. destruct Hy as [<-|Hy]; [unfold ge_created; lia | apply Hf; exact Hy].
Qed.
Lemma sort_desc_sorted l : StronglySorted ge_created (sort_desc l).
Proof. induction l as [|x l IH]; [constructor | simpl; apply insert_desc_sorted; exact IH]. Qed.

Lemma sorted_split (l : list row) n x y : StronglySorted ge_created l ->
  In y (firstn n l) -> In x (skipn n l) -> r_created x <= r_created y.
Proof.
  revert n. induction l as [|a l IH]; intros n Hs Hy Hx; [destruct n; destruct Hx|].
  destruct n as [|n]; [destruct Hy|]. inversion Hs as [|? ? Hs' Hf]. subst. simpl in Hy, Hx. destruct Hy as [<-|Hy].
  - rewrite Forall_forall in Hf.
    assert (Hin : In x l). { rewrite <- (firstn_skipn n l). apply in_or_app. right. exact Hx. }
    specialize (Hf x Hin). unfold ge_created in Hf. lia.
  - apply (IH n Hs' Hy Hx).
Qed.

(* ---------- C12: LIMIT n over ORDER BY created_at DESC = the newest n ---------- *)
Section Limit.
  Variables (d : db) (q : query).
  Let m := matching d (q_where q).
  Let ans := answer d q.
  Hypothesis Hn : 0 <= q_limit q.

  Theorem limit_length : Z.of_nat (length ans) <= q_limit q.
  Proof.
    unfold ans, answer, sql_limit. assert (E : (q_limit q <? 0) = false) by lia. rewrite E.
    rewrite firstn_length. lia.
  Qed.
  Theorem limit_subset : forall r, In r ans -> In r m.
  Proof.
    unfold ans, answer, sql_limit. assert (E : (q_limit q <? 0) = false) by lia. rewrite E. intros r Hr.
    apply (Permutation_in _ (Permutation_sym (sort_desc_perm _))).
    rewrite <- (firstn_skipn (Z.to_nat (q_limit q)) (sort_desc m)). apply in_or_app. left. exact Hr.
  Qed.
  Theorem limit_newest : forall x y, In x m -> ~ In x ans -> In y ans -> r_created x <= r_created y.
  Proof.
    unfold ans, answer, sql_limit. assert (E : (q_limit q <? 0) = false) by lia. rewrite E. intros x y Hx Hnx Hy.
    apply (sorted_split (sort_desc m) (Z.to_nat (q_limit q))); [apply sort_desc_sorted | exact Hy|].
    apply (Permutation_in _ (sort_desc_perm m)) in Hx. rewrite <- (firstn_skipn (Z.to_nat (q_limit q)) (sort_desc m)) in Hx.
    apply in_app_or in Hx. destruct Hx as [Hx|Hx]; [contradiction | exact Hx].
  Qed.
  Theorem limit_complete : Z.of_nat (length m) <= q_limit q -> Permutation ans m.
  Proof.
    intros H. unfold ans, answer, sql_limit. assert (E : (q_limit q <? 0) = false) by lia. rewrite E.
    rewrite firstn_all2; [apply Permutation_sym; apply sort_desc_perm|].
    pose proof (Permutation_length (sort_desc_perm m)) as Hl. unfold m in *. lia.
  Qed.
End Limit.

(* which n the code computes for a single-filter REQ: min(limit, configured maximum) *)
Lemma limit_value_sql dl ml f : evaluate_filter f <> None ->
  query_limit dl ml [f] = match f_limit f with Some l => Z.min l dl | None => dl end.
Proof.
  intros H. unfold query_limit, filter_limit. simpl. destruct (evaluate_filter f); [|congruence]. reflexivity.
Qed.
(* F16, multi-filter: the LAST filter's limit governs the whole statement *)
Lemma limit_value_last dl ml fs f : evaluate_filter f <> None ->
  query_limit dl ml (fs ++ [f]) = match f_limit f with Some l => Z.min l dl | None => query_limit dl ml fs end.
Proof.
  intros H. unfold query_limit. rewrite fold_left_app. simpl. unfold filter_limit at 1.
  destruct (evaluate_filter f); [|congruence]. reflexivity.
Qed.

(* ---------- C11: the answer to one filter, exactly ---------- *)
Lemma eval_where_single tags r c : eval_where tags r [c] = eval_clause tags r c.
Proof. simpl. apply orb_false_r. Qed.

Theorem matching_exact_sql : forall dl ml d f, Inv d ->
  matching d (q_where (build_query dl ml [f])) = List.filter (P_sql f) (d_events d).
Proof.
  intros dl ml d f Hinv. unfold matching, build_query. cbn [q_where map]. apply filter_ext_in.
  intros r Hr. rewrite eval_where_single. apply (eval_clause_local d r _ Hinv Hr).
Qed.
Theorem answer_exact_sql : forall dl ml d f, Inv d ->
  req dl ml d [f] = sql_limit (query_limit dl ml [f]) (sort_desc (List.filter (P_sql f) (d_events d))).
Proof.
  intros. unfold req, answer. rewrite matching_exact_sql by assumption. reflexivity.
Qed.

(* (1) unrelated data: rows that do not may-match the filter never change the matching set *)
Theorem unrelated_data : forall dl ml d d2 f (extra : list row), Inv d -> Inv d2 -> validated f ->
  (forall r, In r (d_events d2) <-> In r (d_events d) \/ In r extra) ->
  (forall r, In r extra -> row_ok r /\ row32 r /\ may_match f (event_of_row r) = false) ->
  forall r, In r (matching d2 (q_where (build_query dl ml [f]))) <-> In r (matching d (q_where (build_query dl ml [f]))).
Proof.
  intros dl ml d d2 f extra H1 H2 Hv Hev Hex r. rewrite !matching_exact_sql by assumption. rewrite !filter_In, Hev.
  split; [|tauto]. intros [[Hr|Hr] Hp]; [tauto|]. exfalso. destruct (Hex r Hr) as [Hok [H32 Hm]].
  rewrite (sql_where_sound f r Hv Hok H32 Hp) in Hm. discriminate.
Qed.

(* (2) monotone: a clause that implies another one selects a subset *)
Definition clause_stronger (c' c : clause) : Prop :=
  forall tags r, eval_clause tags r c' = true -> eval_clause tags r c = true.
Theorem monotone_filter : forall dl ml d f f', Inv d -> clause_stronger (clause_of f') (clause_of f) ->
  forall r, In r (matching d (q_where (build_query dl ml [f']))) -> In r (matching d (q_where (build_query dl ml [f]))).
Proof.
  intros dl ml d f f' Hinv Hs r. rewrite !matching_exact_sql by assumption. rewrite !filter_In. intros [Hr Hp].
  split; [exact Hr|]. apply Hs. exact Hp.
Qed.
(* adding conditions makes a clause stronger *)
Lemma stronger_more_conditions c extra : c <> [] -> clause_stronger (c ++ extra) c.
Proof.
  intros Hne tags r H. apply eval_clause_nonempty in H. destruct H as [_ H]. apply forallb_app_true in H.
  unfold eval_clause. destruct c; [congruence | tauto].
Qed.
(* narrowing the window makes a condition stronger *)
Lemma stronger_cond tags r pre post c c' :
  (eval_cond tags r c' = true -> eval_cond tags r c = true) ->
  eval_clause tags r (pre ++ c' :: post) = true -> eval_clause tags r (pre ++ c :: post) = true.
Proof.
  intros Hc H. apply eval_clause_nonempty in H. destruct H as [_ H]. apply forallb_app_true in H. destruct H as [H1 H2].
  simpl in H2. apply andb_true_iff in H2. destruct H2 as [H2 H3].
  assert (E : forallb (eval_cond tags r) (pre ++ c :: post) = true).
  { apply forallb_app_true. split; [exact H1|]. simpl. rewrite (Hc H2), H3. reflexivity. }
  unfold eval_clause. destruct (pre ++ c :: post) eqn:El; [destruct pre; discriminate | exact E].
Qed.
Lemma since_narrower tags r s s' : s <= s' -> eval_cond tags r (CSince s') = true -> eval_cond tags r (CSince s) = true.
Proof. simpl. lia. Qed.
Lemma until_narrower tags r u u' : u' <= u -> eval_cond tags r (CUntil u') = true -> eval_cond tags r (CUntil u) = true.
Proof. simpl. lia. Qed.

(* (3) a multi-valued condition selects the union of what its parts select *)
Lemma existsb_app2 {A} (p : A -> bool) a b : existsb p (a ++ b) = existsb p a || existsb p b.
Proof. induction a; simpl; [reflexivity|]. rewrite IHa, orb_assoc. reflexivity. Qed.
Lemma mem_str_app x a b : mem_str x (a ++ b) = mem_str x a || mem_str x b.
Proof. apply existsb_app2. Qed.
Lemma tag_subquery_app tags i n a b : tag_subquery tags i n (a ++ b) = tag_subquery tags i n a || tag_subquery tags i n b.
Proof.
  unfold tag_subquery. induction tags as [|t tags IH]; [reflexivity|]. simpl. rewrite IH, mem_str_app.
  destruct (bytes_eqb (t_id t) i && str_eqb (t_name t) n); simpl; [|reflexivity].
  destruct (mem_str (t_value t) a); destruct (mem_str (t_value t) b); simpl; rewrite ?orb_true_r; reflexivity.
Qed.
Lemma union_kinds tags r a b : eval_cond tags r (CKindIn (a ++ b)) = eval_cond tags r (CKindIn a) || eval_cond tags r (CKindIn b).
Proof. simpl. apply existsb_app2. Qed.
Lemma union_ids tags r a b : eval_cond tags r (CIdIn (a ++ b)) = eval_cond tags r (CIdIn a) || eval_cond tags r (CIdIn b).
Proof. simpl. apply existsb_app2. Qed.
Lemma union_tag tags r n a b : eval_cond tags r (CTag n (a ++ b)) = eval_cond tags r (CTag n a) || eval_cond tags r (CTag n b).
Proof. simpl. apply tag_subquery_app. Qed.
Lemma union_authors tags r a b : eval_cond tags r (CAuthors (a ++ b)) = eval_cond tags r (CAuthors a) || eval_cond tags r (CAuthors b).
Proof.
  simpl. rewrite existsb_app2, tag_subquery_app.
  destruct (existsb _ a); destruct (existsb _ b); destruct (tag_subquery tags (r_id r) s_delegation a);
    destruct (tag_subquery tags (r_id r) s_delegation b); reflexivity.
Qed.
Theorem union_over_values : forall tags r pre post cab ca cb,
  eval_cond tags r cab = eval_cond tags r ca || eval_cond tags r cb ->
  eval_clause tags r (pre ++ cab :: post) = eval_clause tags r (pre ++ ca :: post) || eval_clause tags r (pre ++ cb :: post).
Proof.
  intros tags r pre post cab ca cb H.
  assert (E : forall c, eval_clause tags r (pre ++ c :: post) = forallb (eval_cond tags r) pre && (eval_cond tags r c && forallb (eval_cond tags r) post)).
  { intros c. unfold eval_clause. destruct (pre ++ c :: post) eqn:El; [destruct pre; discriminate|]. rewrite <- El, forallb_app. reflexivity. }
  rewrite !E, H. destruct (forallb (eval_cond tags r) pre); destruct (eval_cond tags r ca); destruct (eval_cond tags r cb);
    destruct (forallb (eval_cond tags r) post); reflexivity.
Qed.

(* every answered row is a stored row (in particular: a removed event is served by no query) *)
Theorem sql_answer_subset : forall d q r, In r (answer d q) -> In r (d_events d).
Proof.
  intros d q r H. unfold answer, sql_limit in H.
  assert (Hs : In r (sort_desc (matching d (q_where q)))).
  { destruct (q_limit q <? 0); [exact H|]. rewrite <- (firstn_skipn (Z.to_nat (q_limit q))). apply in_or_app. left. exact H. }
  apply (Permutation_in _ (Permutation_sym (sort_desc_perm _))) in Hs. unfold matching in Hs. apply filter_In in Hs. tauto.
Qed.
