(* SQLM - tie of the model's fixed SQL text and constants to nostr_relay/storage/db.py, re-checked on every
   run against Gen/SqlConst.v (regenerated from the working tree by tools/pyfrag.d/sql_const.py). *)
From NR Require Import Lib.Base Lib.BaseFacts Lib.Nip01 Gen.SqlConst SQLM.Rel SQLM.Write SQLM.Query SQLM.Text.
Open Scope string_scope. Open Scope list_scope.

(* the collector's statement, as tokens; exec (SGc now) in Rel.v is its meaning, %NOW% being replaced by str(int(time())) *)
Definition dot (a b : string) : list tok := [kw a; sy "."; kw b].
Definition gc_template : list tok :=
  [kw "DELETE"; kw "FROM"; kw "events"; kw "WHERE"] ++ dot "events" "id" ++ [kw "IN"; sy "("; kw "SELECT"] ++ dot "events" "id" ++
  [kw "FROM"; kw "events"; kw "LEFT"; kw "JOIN"; kw "tags"; kw "on"] ++ dot "tags" "id" ++ [sy "="] ++ dot "events" "id" ++
  [kw "WHERE"; sy "("; kw "kind"; sy ">="; TNum (pys "20000"); kw "and"; kw "kind"; sy "<"; TNum (pys "30000"); sy ")"; kw "OR"; sy "("] ++
  dot "tags" "name" ++ [sy "="; TStr (pys "expiration"); kw "AND"] ++ dot "tags" "value" ++ [sy "<>"; TStr []; kw "AND"] ++
  dot "tags" "value" ++ [kw "NOT"; kw "GLOB"; TStr (pys "*[^0-9]*"); kw "AND"; kw "CAST"; sy "("] ++ dot "tags" "value" ++
  [kw "AS"; kw "INTEGER"; sy ")"; sy "<"; sy "%"; kw "NOW"; sy "%"; sy ")"; sy ")"].

Example gc_query_tie : lex gc_query = Some gc_template.
Proof. vm_compute. reflexivity. Qed.

(* the constant parts of build_query's statement *)
Example select_text_tie : lex select_text = Some select_head.
Proof. vm_compute. reflexivity. Qed.
Example tail_text_tie : lex (tail_text ++ pys "5") = Some (select_tail 5).
Proof. vm_compute. reflexivity. Qed.

(* the tag names process_tags indexes *)
Lemma indexed_name_tie n : indexed_name n = mem_str n indexed_long_names || Nat.eqb (length n) 1.
Proof. unfold indexed_name, indexed_long_names, mem_str. simpl. rewrite orb_false_r. reflexivity. Qed.

(* interpolation lint of evaluate_filter / build_query (checked side-condition of C01) *)
Example sql_interpolations_checked : sql_interpolations_ok = true.
Proof. reflexivity. Qed.
