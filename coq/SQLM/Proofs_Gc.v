(* SQLM - C17 (SQL half): what one pass of QueryGarbageCollector removes, exactly. *)
From NR Require Import Lib.Base Lib.BaseFacts Lib.Nip01
     SQLM.Rel SQLM.Write SQLM.Spec SQLM.Proofs_Hex SQLM.Proofs_Rel SQLM.Proofs_Write.
From Coq Require Import ZifyBool.
Open Scope list_scope. Open Scope Z_scope.

Lemma tag_pairs_In : forall tags l n v, tag_pairs tags = Some l ->
  (In (n, v) l <-> indexed_name n = true /\ exists rest, In (n :: v :: rest) tags).
Proof.
  induction tags as [|t tags IH]; intros l n v H.
  - simpl in H. inversion H. simpl. split; [contradiction | intros [_ [rest []]]].
  - simpl in H. destruct t as [|n0 r0]; [discriminate|]. destruct (tag_pairs tags) as [l'|] eqn:E; [|discriminate].
    specialize (IH l' n v eq_refl). inversion H as [Hl]. clear H.
    destruct r0 as [|v0 rest0].
    + rewrite IH. split; intros [Hi [rest Hr]]; split; auto; exists rest; [right; exact Hr|].
      destruct Hr as [C|Hr]; [discriminate | exact Hr].
    + destruct (indexed_name n0) eqn:Ei.
      * simpl. rewrite IH. split.
        -- intros [C | [Hi [rest Hr]]]; [inversion C; subst; split; [exact Ei | exists rest0; left; reflexivity] | split; [exact Hi | exists rest; right; exact Hr]].
        -- intros [Hi [rest [C|Hr]]]; [left; inversion C; reflexivity | right; split; [exact Hi | exists rest; exact Hr]].
      * rewrite IH. split; intros [Hi [rest Hr]]; split; auto; exists rest; [right; exact Hr|].
        destruct Hr as [C|Hr]; [inversion C; subst; congruence | exact Hr].
Qed.

(* the table's expiration rows of a stored row are its own expiration tags *)
Lemma gc_expiration_rows d r (p : pystr -> bool) : Inv d -> In r (d_events d) ->
  existsb (fun t => bytes_eqb (t_id t) (r_id r) && str_eqb (t_name t) s_expiration_name && p (t_value t)) (d_tags d)
  = existsb p (expiration_values (event_of_row r)).
Proof.
  intros [Hpk [Hcoh Hrows]] Hr.
  destruct (Hrows r Hr) as [_ [_ [_ Hne]]]. destruct (tag_pairs_some _ Hne) as [pairs Ep].
  apply eq_true_iff_eq. rewrite !existsb_exists. split.
  - intros [t [Ht E]]. apply andb_true_iff in E. destruct E as [E Ep2]. apply andb_true_iff in E. destruct E as [Ei En].
    apply bytes_eqb_eq in Ei. apply str_eqb_eq in En.
    apply (Hcoh t) in Ht. destruct Ht as [r2 [Hr2 [_ Ht]]].
    assert (r2 = r) by (apply (PK_unique d r2 r Hpk Hr2 Hr); rewrite <- (tagrows_id r2 t Ht); exact Ei). subst r2.
    unfold tagrows_of in Ht. rewrite Ep in Ht. apply in_map_iff in Ht. destruct Ht as [[n v] [Et Hp]]. subst t. simpl in *.
    apply (tag_pairs_In _ _ n v Ep) in Hp. destruct Hp as [_ [rest Hin]]. exists v. split; [|exact Ep2].
    unfold expiration_values. simpl. apply in_flat_map. exists (n :: v :: rest). split; [exact Hin|].
    subst n. unfold s_expiration_name. fold s_expiration. rewrite str_eqb_refl. left. reflexivity.
  - intros [v [Hv Ep2]]. unfold expiration_values in Hv. simpl in Hv. apply in_flat_map in Hv. destruct Hv as [t [Ht Hv]].
    destruct t as [|n [|v' rest]]; try contradiction. destruct (str_eqb n s_expiration) eqn:En; [|contradiction].
    destruct Hv as [<-|[]]. apply str_eqb_eq in En. subst n.
    exists (mktrow (r_id r) s_expiration v'). split.
    + apply (Hcoh _). exists r. split; [exact Hr|]. split; [discriminate|]. unfold tagrows_of. rewrite Ep.
      apply in_map_iff. exists (s_expiration, v'). split; [reflexivity|].
      apply (tag_pairs_In _ _ s_expiration v' Ep). split; [reflexivity | exists rest; exact Ht].
    + simpl. rewrite bytes_eqb_refl, Ep2. unfold s_expiration_name. fold s_expiration. rewrite str_eqb_refl. reflexivity.
Qed.

Definition int64_max : Z := 9223372036854775807.
Lemma expired_value_spec now v : now <= int64_max -> expired_value now v = value_expired now v.
Proof.
  intros H. unfold expired_value, value_expired, wf_expiration, cast_integer, int64_max in *.
  destruct (all_digits v); [|reflexivity]. simpl. lia.
Qed.

Lemma gc_pred_spec now d r : now <= int64_max -> Inv d -> In r (d_events d) ->
  gc_pred now (d_tags d) r = may_collect now (event_of_row r).
Proof.
  intros Hn Hinv Hr. unfold gc_pred, may_collect, any_expired, is_ephemeral_kind. simpl w_kind. f_equal.
  rewrite (gc_expiration_rows d r (expired_value now) Hinv Hr).
  induction (expiration_values (event_of_row r)) as [|v l IH]; [reflexivity|]. simpl. rewrite IH, (expired_value_spec now v Hn). reflexivity.
Qed.

Lemma map_filter_ext {A B} (f : A -> B) (p : A -> bool) (q : B -> bool) l :
  (forall x, In x l -> p x = q (f x)) -> map f (List.filter p l) = List.filter q (map f l).
Proof.
  induction l as [|x l IH]; intros H; [reflexivity|]. simpl. rewrite <- (H x (or_introl eq_refl)).
  destruct (p x); simpl; rewrite IH; auto; intros y Hy; apply H; right; exact Hy.
Qed.

(* C17 gc_exact: the pass keeps exactly the events that are neither ephemeral nor expired *)
Theorem gc_exact : forall now d, now <= int64_max -> Inv d ->
  stored (fst (collect now d)) = List.filter (fun e => negb (may_collect now e)) (stored d).
Proof.
  intros now d Hn Hinv. unfold collect. cbn [exec].
  destruct (delete_where (gc_pred now (d_tags d)) d) as [d' n] eqn:E. simpl.
  assert (Ed : d' = fst (delete_where (gc_pred now (d_tags d)) d)) by (rewrite E; reflexivity).
  rewrite Ed. unfold stored, delete_where. simpl. apply map_filter_ext.
  intros r Hr. rewrite (gc_pred_spec now d r Hn Hinv Hr). reflexivity.
Qed.
(* gc_frame: the invariants (in particular TagsCoherent: tag rows of removed events are gone, those of
   kept events are all there) survive the pass, and no row is altered or added *)
Theorem gc_frame : forall now d, Inv d ->
  Inv (fst (collect now d)) /\ forall r, In r (d_events (fst (collect now d))) -> In r (d_events d).
Proof.
  intros now d Hinv. unfold collect. cbn [exec].
  destruct (delete_where (gc_pred now (d_tags d)) d) as [d' n] eqn:E. simpl.
  assert (Ed : d' = fst (delete_where (gc_pred now (d_tags d)) d)) by (rewrite E; reflexivity).
  rewrite Ed. split; [apply delete_Inv; exact Hinv|]. intros r Hr. apply delete_events in Hr. tauto.
Qed.

Lemma first_any_expired now e : first_expired now e = true -> any_expired now e = true.
Proof.
  unfold first_expired, any_expired, expiration_values. induction (w_tags e) as [|t tags IH]; simpl; [discriminate|].
  destruct t as [|n [|v rest]]; try exact IH. destruct (str_eqb n s_expiration); [|exact IH].
  intros H. simpl. rewrite H. reflexivity.
Qed.

Lemma in_store_filter x l (q : wevent -> bool) :
  in_store x (List.filter q l) = true -> in_store x l = true.
Proof.
  unfold in_store. rewrite !existsb_exists. intros [y [Hy E]]. apply filter_In in Hy. exists y. tauto.
Qed.

(* the executable statement of C17 holds for every store reachable by a history *)
Theorem gc_statement : forall now d, now <= int64_max -> Inv d ->
  c17_ok now (stored d) (stored (fst (collect now d))) = true.
Proof.
  intros now d Hn Hinv. rewrite (gc_exact now d Hn Hinv). unfold c17_ok. apply andb_true_iff. split.
  - apply forallb_forall. intros x Hx.
    assert (Hkeep : may_collect now x = false -> in_store x (List.filter (fun e => negb (may_collect now e)) (stored d)) = true).
    { intros Hm. unfold in_store. apply existsb_exists. exists x. split; [|apply str_eqb_refl]. apply filter_In. rewrite Hm. auto. }
    assert (Hgone : may_collect now x = true -> in_store x (List.filter (fun e => negb (may_collect now e)) (stored d)) = false).
    { intros Hm. destruct (in_store x _) eqn:Ein; [|reflexivity]. exfalso.
      unfold in_store in Ein. apply existsb_exists in Ein. destruct Ein as [y [Hy Ey]]. apply filter_In in Hy. destruct Hy as [Hy Hq].
      apply str_eqb_eq in Ey. unfold stored in Hx, Hy. apply in_map_iff in Hx. apply in_map_iff in Hy.
      destruct Hx as [rx [<- Hrx]]. destruct Hy as [ry [<- Hry]]. destruct Hinv as [Hpk [_ Hrows]].
      assert (ry = rx) by (apply (PK_unique d ry rx Hpk Hry Hrx); apply hex_of_bytes_inj; [apply (Hrows ry Hry) | apply (Hrows rx Hrx) | exact Ey]).
      subst ry. rewrite Hm in Hq. discriminate. }
    destruct (must_collect now x) eqn:Em.
    + rewrite Hgone; [reflexivity|]. unfold must_collect, may_collect in *. apply orb_true_iff in Em. apply orb_true_iff.
      destruct Em as [Em|Em]; [left; exact Em | right; apply first_any_expired; exact Em].
    + destruct (may_collect now x) eqn:Ema; [reflexivity | apply Hkeep; reflexivity].
  - apply forallb_forall. intros y Hy. apply filter_In in Hy. destruct Hy as [Hy _].
    unfold in_store. apply existsb_exists. exists y. split; [exact Hy | apply str_eqb_refl].
Qed.
