(* SQLM - C07 (SQL half): one transaction per event; an engine fault at any statement index
   restores the store exactly; later events are unaffected; notification follows the commit. *)
From NR Require Import Lib.Base Lib.BaseFacts Lib.Nip01 SQLM.Rel SQLM.Write.
From Coq Require Import ZifyBool.
Open Scope list_scope. Local Open Scope nat_scope.

Lemma run_trace_ext : forall p f d tr, exists ext, fst (run f d p tr) = tr ++ ext.
Proof.
  induction p as [c|x|s k IH]; intros f d tr.
  - exists []. simpl. rewrite app_nil_r. reflexivity.
  - exists []. simpl. rewrite app_nil_r. reflexivity.
  - cbn [run]. destruct f as [[|n]|].
    + exists [s]. reflexivity.
    + destruct (exec s d) as [[d' res]|x]; [|exists [s]; reflexivity].
      destruct (IH res (Some n) d' (tr ++ [s])) as [ext E]. exists (s :: ext). rewrite E, <- app_assoc. reflexivity.
    + destruct (exec s d) as [[d' res]|x]; [|exists [s]; reflexivity].
      destruct (IH res None d' (tr ++ [s])) as [ext E]. exists (s :: ext). rewrite E, <- app_assoc. reflexivity.
Qed.

(* the statements the fault-free run executes after `tr` *)
Definition nstmts (d : db) (p : prog) (tr : list stmt) : nat := length (fst (run None d p tr)) - length tr.

Lemma firstn_app_exact {A} (l ext : list A) : firstn (length l) (l ++ ext) = l.
Proof. rewrite firstn_app, Nat.sub_diag, firstn_all. simpl. apply app_nil_r. Qed.

Lemma run_fault : forall p d tr k,
  ((k < nstmts d p tr)%nat ->
     run (Some k) d p tr = (firstn (length tr + S k) (fst (run None d p tr)), inr EOperational)) /\
  ((nstmts d p tr <= k)%nat -> run (Some k) d p tr = run None d p tr).
Proof.
  induction p as [c|x|s kk IH]; intros d tr k; unfold nstmts.
  - simpl. rewrite Nat.sub_diag. split; [lia | reflexivity].
  - simpl. rewrite Nat.sub_diag. split; [lia | reflexivity].
  - cbn [run]. destruct (exec s d) as [[d' res]|x] eqn:Ex.
    + destruct (run_trace_ext (kk res) None d' (tr ++ [s])) as [ext E].
      assert (Hlen : length (fst (run None d' (kk res) (tr ++ [s]))) - length tr = S (length ext)).
      { rewrite E, !app_length. simpl. lia. }
      destruct k as [|k'].
      * split; [|rewrite Hlen; lia]. intros _. f_equal. rewrite E.
        replace (length tr + 1)%nat with (length (tr ++ [s])) by (rewrite app_length; simpl; lia).
        symmetry. apply firstn_app_exact.
      * destruct (IH res d' (tr ++ [s]) k') as [I1 I2]. unfold nstmts in I1, I2.
        assert (Hn : length (fst (run None d' (kk res) (tr ++ [s]))) - length (tr ++ [s]) = length ext).
        { rewrite E, !app_length. simpl. lia. }
        rewrite Hlen. rewrite Hn in I1, I2. split; intros H.
        -- rewrite I1 by lia. f_equal. f_equal. rewrite app_length. simpl. lia.
        -- apply I2. lia.
    + simpl. rewrite app_length. simpl.
      replace (length tr + 1 - length tr)%nat with 1%nat by lia.
      destruct k as [|k']; split; intros H; try lia; try reflexivity.
      f_equal. replace (length tr + 1)%nat with (length (tr ++ [s])) by (rewrite app_length; simpl; lia).
      symmetry. apply firstn_all.
Qed.

Section Atomic.
  Variables (now : Z) (valid can : bool) (d : db) (e : wevent).
  Let body := txn_body (event_init now e).
  Let n := nstmts d body [].

  (* C07 (i): a fault at any statement of the transaction leaves the store as it was *)
  Theorem fail_at_k_restores : forall k, valid = true -> can = true -> (k < n)%nat ->
    let r := add_event (Some k) now valid can d e in
    ar_db r = d /\ ar_out r = inr EOperational /\
    ar_trace r = TBegin :: map TStmt (firstn (S k) (fst (run None d body []))) ++ [TRollback].
  Proof.
    intros k -> -> Hk. unfold add_event. simpl negb. cbv iota. fold body.
    destruct (run_fault body d [] k) as [F _]. rewrite (F Hk). simpl. auto.
  Qed.
  (* a fault index beyond the last statement never fires: same result as without fault *)
  Theorem fault_beyond_end : forall k, (n <= k)%nat ->
    add_event (Some k) now valid can d e = add_event None now valid can d e.
  Proof.
    intros k Hk. unfold add_event. fold body. destruct (run_fault body d [] k) as [_ F]. rewrite (F Hk). reflexivity.
  Qed.
  (* whatever the fault and whatever the exception: the store is unchanged unless the transaction commits *)
  Theorem exception_restores : forall f x, ar_out (add_event f now valid can d e) = inr x -> ar_db (add_event f now valid can d e) = d.
  Proof.
    intros f x. unfold add_event. destruct (negb valid); [reflexivity|]. destruct (negb can); [reflexivity|].
    destruct (run f d (txn_body (event_init now e)) []) as [tr [[d1 c]|y]]; simpl; [discriminate | reflexivity].
  Qed.

  (* single transaction: BEGIN, the statements, then COMMIT (followed by the notification iff the
     row was inserted) or ROLLBACK; nothing is executed outside it *)
  Theorem single_txn : forall f, valid = true -> can = true ->
    let r := add_event f now valid can d e in
    exists stmts, (ar_trace r = TBegin :: map TStmt stmts ++ [TCommit; TNotify] /\ ar_out r = inl true) \/
                  (ar_trace r = TBegin :: map TStmt stmts ++ [TCommit] /\ ar_out r = inl false) \/
                  (ar_trace r = TBegin :: map TStmt stmts ++ [TRollback] /\ exists x, ar_out r = inr x /\ ar_db r = d).
  Proof.
    intros f -> ->. unfold add_event. simpl negb. cbv iota.
    destruct (run f d (txn_body (event_init now e)) []) as [tr [[d1 [|]]|y]]; exists tr; simpl.
    - left. auto.
    - right. left. auto.
    - right. right. split; [reflexivity|]. exists y. auto.
  Qed.
  (* C07 (iii): a notification is only ever emitted as the last step, directly after the commit
     of the transaction that inserted the event *)
  Corollary notify_after_commit : forall f,
    In TNotify (ar_trace (add_event f now valid can d e)) ->
    exists stmts, ar_trace (add_event f now valid can d e) = TBegin :: map TStmt stmts ++ [TCommit; TNotify] /\
                  ar_out (add_event f now valid can d e) = inl true.
  Proof.
    intros f H. unfold add_event in *.
    destruct (negb valid); [destruct H|]. destruct (negb can); [destruct H|].
    assert (Hn : forall l t, t <> TNotify -> ~ In TNotify (TBegin :: map TStmt l ++ [t])).
    { intros l t Ht [C|C]; [discriminate|]. apply in_app_or in C. destruct C as [C|[C|[]]]; [|congruence].
      apply in_map_iff in C. destruct C as [s [C _]]. discriminate. }
    destruct (run f d (txn_body (event_init now e)) []) as [tr [[d1 [|]]|y]]; simpl in *.
    - exists tr. auto.
    - exfalso. apply (Hn tr TCommit); [discriminate | exact H].
    - exfalso. apply (Hn tr TRollback); [discriminate | exact H].
  Qed.
End Atomic.

(* C07 (i), second half: a failed application does not affect how the remaining events are applied *)
Theorem later_events_unaffected : forall now f valid can d e x (rest : list wevent),
  ar_out (add_event f now valid can d e) = inr x ->
  fold_left (submit now) rest (ar_db (add_event f now valid can d e)) = fold_left (submit now) rest d.
Proof. intros. rewrite (exception_restores now valid can d e f x H). reflexivity. Qed.
