(* SQLM - what the SQL halves of C09, C08, C17, C06, C07, C01, C12, C02, C11 mean, as
   executable statements over observations (store contents as event lists / table dumps).
   The same definitions are (a) what the theorems of Thm_Cxx.v are about and (b) the
   oracles the harness evaluates on the implementation's own observations. *)
From NR Require Import Lib.Base Lib.Nip01 SQLM.Rel SQLM.Write SQLM.Query SQLM.Where.
Open Scope list_scope. Open Scope Z_scope.

(* events are identified by their id (the primary key) *)
Definition in_store (x : wevent) (s : list wevent) : bool := existsb (fun y => str_eqb (w_id y) (w_id x)) s.

(* ---------- C08: what a deletion d may / must remove ---------- *)
Definition ref_matches (ref : pystr) (x : wevent) : bool :=
  match py_fromhex ref, py_fromhex (w_id x) with
  | Some a, Some b => bytes_eqb a b
  | _, _ => false
  end.
Definition references (d x : wevent) : bool := existsb (fun r => ref_matches r x) (e_refs d).
Definition same_author (d x : wevent) : bool :=
  match py_fromhex (w_pubkey d), py_fromhex (w_pubkey x) with
  | Some a, Some b => bytes_eqb a b
  | _, _ => false
  end.
Definition may_delete (d x : wevent) : bool := (w_kind d =? 5) && same_author d x && references d x.

Definition c08_frame (before after : list wevent) (d : wevent) : bool :=
  forallb (fun x => in_store x after || may_delete d x) before.
Definition c08_effective (before after : list wevent) (d : wevent) : bool :=
  forallb (fun x => negb (may_delete d x && (w_created x <? w_created d)) || negb (in_store x after)) before.

(* ---------- C09 ---------- *)
Definition supersedes (e x : wevent) : bool := same_address x e && (w_created x <? w_created e).
Definition c09_removes_older (before after : list wevent) (e : wevent) : bool :=
  forallb (fun x => negb (supersedes e x) || negb (in_store x after)) before.
(* nothing else disappears: a removed event is an older-or-equal version of e's address, or
   (e being a deletion) an own referenced event *)
Definition c09_frame (before after : list wevent) (e : wevent) : bool :=
  forallb (fun x => in_store x after || (same_address x e && (w_created x <=? w_created e)) || may_delete e x) before.

(* ---------- C17 ---------- *)
Definition wf_expiration (v : pystr) : bool := all_digits v.
Definition expiration_values (e : wevent) : list pystr :=
  flat_map (fun t => match t with n :: v :: _ => if str_eqb n s_expiration then [v] else [] | _ => [] end) (w_tags e).
Definition value_expired (now : Z) (v : pystr) : bool := wf_expiration v && (digits_value v <? now).
Definition first_expired (now : Z) (e : wevent) : bool :=
  match expiration_value (w_tags e) with Some v => value_expired now v | None => false end.
Definition any_expired (now : Z) (e : wevent) : bool := existsb (value_expired now) (expiration_values e).
Definition must_collect (now : Z) (e : wevent) : bool := is_ephemeral_kind (w_kind e) || first_expired now e.
Definition may_collect (now : Z) (e : wevent) : bool := is_ephemeral_kind (w_kind e) || any_expired now e.
Definition c17_ok (now : Z) (before after : list wevent) : bool :=
  forallb (fun x => if must_collect now x then negb (in_store x after)
                    else if may_collect now x then true else in_store x after) before
  && forallb (fun y => in_store y before) after.

(* ---------- table-level equality of two dumps (modulo row order) ---------- *)
Definition row_eqb (a b : row) : bool :=
  bytes_eqb (r_id a) (r_id b) && (r_created a =? r_created b) && (r_kind a =? r_kind b) &&
  bytes_eqb (r_pubkey a) (r_pubkey b) && list_eqb (list_eqb str_eqb) (r_tags a) (r_tags b) &&
  bytes_eqb (r_sig a) (r_sig b) && str_eqb (r_content a) (r_content b).
Definition db_same (a b : db) : bool :=
  forallb (fun r => existsb (row_eqb r) (d_events b)) (d_events a) &&
  forallb (fun r => existsb (row_eqb r) (d_events a)) (d_events b) &&
  forallb (fun t => existsb (trow_eqb t) (d_tags b)) (d_tags a) &&
  forallb (fun t => existsb (trow_eqb t) (d_tags a)) (d_tags b).
(* the tags table is exactly what process_tags derives from the stored events *)
Definition tagrows_of (r : row) : list trow :=
  match tag_pairs (r_tags r) with
  | Some l => map (fun p => mktrow (r_id r) (fst p) (snd p)) l
  | None => []
  end.
Definition tags_coherent_b (d : db) : bool :=
  forallb (fun t => existsb (fun r => existsb (trow_eqb t) (tagrows_of r)) (d_events d)) (d_tags d) &&
  forallb (fun r => forallb (fun t => existsb (trow_eqb t) (d_tags d)) (tagrows_of r)) (d_events d).

(* ---------- C06 (b)-(e) for one submission ---------- *)
Definition wf_hex (n : nat) (s : pystr) : bool := is_lower_hex s && Nat.eqb (length s) n.
Definition wf_wevent (e : wevent) : bool :=
  wf_hex 64 (w_id e) && wf_hex 64 (w_pubkey e) && wf_hex 128 (w_sig e) &&
  int64_ok (w_created e) && int64_ok (w_kind e) && no_empty_tag (w_tags e).
(* outcome: Some true = OK true; Some false = duplicate; None = exception *)
Definition c06_verdict (before after : db) (e : wevent) (valid can : bool) (out : option bool) (notified : bool) : pystr :=
  let stored_before := in_store e (stored before) in
  let ok := match out with Some true => true | _ => false end in
  if ok && negb (in_store e (stored after)) then pys "ack_true_not_stored"
  else if wf_wevent e && valid && can && negb stored_before && negb ok then pys "valid_event_refused"
  else if negb ok && (negb (db_same before after) || notified) then pys "refused_left_trace"
  else if stored_before && (negb (db_same before after) || notified) then pys "resubmission_changed_store"
  else if ok && negb notified then pys "accepted_not_notified"
  else pys "ok".

(* ---------- C01 / C02 / C12: one REQ ---------- *)
Definition matches_some (fs : list filter) (e : wevent) (m : filter -> wevent -> bool) : bool := existsb (fun f => m f e) fs.
(* every answered event is stored and may-matches one of the filters *)
Definition c01_ok (store answer : list wevent) (fs : list filter) : bool :=
  forallb (fun e => in_store e store && matches_some fs e may_match) answer.
Definition count_id (e : wevent) (l : list wevent) : nat := count_occ_b (fun y => str_eqb (w_id y) (w_id e)) l.
(* the effective limit the property speaks of *)
Definition eff_limit (max_limit : Z) (f : filter) : Z :=
  match f_limit f with Some l => Z.min l max_limit | None => max_limit end.
Definition n_may (store : list wevent) (f : filter) : Z := Z.of_nat (length (List.filter (may_match f) store)).
(* single-filter REQ under its limit: every must-match exactly once *)
Definition c02_ok_single (max_limit : Z) (store answer : list wevent) (f : filter) : bool :=
  negb (n_may store f <=? eff_limit max_limit f) ||
  forallb (fun e => negb (must_match f e) || Nat.eqb (count_id e answer) 1) store.
(* several filters, each under its limit: between once and k times *)
Definition c02_ok_multi (max_limit : Z) (store answer : list wevent) (fs : list filter) : bool :=
  forallb (fun f =>
    negb (n_may store f <=? eff_limit max_limit f) ||
    forallb (fun e => negb (must_match f e) ||
                      (Nat.leb 1 (count_id e answer) &&
                       Nat.leb (count_id e answer) (length (List.filter (fun f' => may_match f' e) fs)))) store) fs.
(* single-filter REQ: at most eff events, the newest ones, nothing left out when under the limit *)
Definition c12_ok_single (max_limit : Z) (store answer : list wevent) (f : filter) : bool :=
  (Z.of_nat (length answer) <=? eff_limit max_limit f) &&
  forallb (fun x => negb (must_match f x) || in_store x answer ||
                    forallb (fun y => w_created x <=? w_created y) answer) store.
