(* SQLM - bytes.fromhex / bytes.hex round trips used to relate stored rows (byte strings) to
   events (hex strings). *)
From NR Require Import Lib.Base Lib.BaseFacts SQLM.Rel SQLM.Write.
From Coq Require Import ZifyBool.
Open Scope list_scope. Open Scope N_scope.

Definition is_byte (x : N) : Prop := x < 256.

Lemma hexval_hexdigit n : n < 16 -> hexval (hexdigit n) = Some n.
Proof.
  intros H. unfold hexval, hexdigit. destruct (N.ltb n 10) eqn:E.
  - assert (E1 : (N.leb 48 (n + 48) && N.leb (n + 48) 57) = true) by lia. rewrite E1. f_equal. lia.
  - assert (E1 : (N.leb 48 (n + 87) && N.leb (n + 87) 57) = false) by lia. rewrite E1.
    assert (E2 : (N.leb 97 (n + 87) && N.leb (n + 87) 102) = true) by lia. rewrite E2. f_equal. lia.
Qed.
Lemma hexdigit_not_space n : n < 16 -> is_py_space (hexdigit n) = false.
Proof. intros H. unfold is_py_space, hexdigit. destruct (N.ltb n 10) eqn:E; lia. Qed.
Lemma hexval_lt c v : hexval c = Some v -> v < 16.
Proof.
  unfold hexval. destruct (N.leb 48 c && N.leb c 57) eqn:E1; [intros H; inversion H; lia|].
  destruct (N.leb 97 c && N.leb c 102) eqn:E2; [intros H; inversion H; lia|].
  destruct (N.leb 65 c && N.leb c 70) eqn:E3; [intros H; inversion H; lia | discriminate].
Qed.
Lemma hexdigit_hexval_lower c v : is_lower_hex_char c = true -> hexval c = Some v -> hexdigit v = c.
Proof.
  unfold is_lower_hex_char, hexval, hexdigit. intros Hl.
  destruct (N.leb 48 c && N.leb c 57) eqn:E1.
  - intros H; inversion H. assert (E : N.ltb (c - 48) 10 = true) by lia. rewrite E. lia.
  - destruct (N.leb 97 c && N.leb c 102) eqn:E2; [|lia].
    intros H; inversion H. assert (E : N.ltb (c - 87) 10 = false) by lia. rewrite E. lia.
Qed.
Lemma lower_hex_not_space c : is_lower_hex_char c = true -> is_py_space c = false.
Proof. unfold is_lower_hex_char, is_py_space. lia. Qed.
Lemma lower_hex_hexval c : is_lower_hex_char c = true -> exists v, hexval c = Some v.
Proof.
  unfold is_lower_hex_char, hexval. intros H.
  destruct (N.leb 48 c && N.leb c 57) eqn:E1; [eexists; reflexivity|].
  destruct (N.leb 97 c && N.leb c 102) eqn:E2; [eexists; reflexivity | lia].
Qed.

Lemma byte_split x y : x < 16 -> y < 16 -> (x * 16 + y) / 16 = x /\ (x * 16 + y) mod 16 = y.
Proof.
  intros Hx Hy. pose proof (N.div_mod (x * 16 + y) 16 ltac:(lia)) as D.
  pose proof (N.mod_lt (x * 16 + y) 16 ltac:(lia)) as M.
  generalize dependent ((x * 16 + y) / 16). generalize dependent ((x * 16 + y) mod 16). intros m Hm q Hq. lia.
Qed.
Lemma byte_join x : x < 256 -> x / 16 < 16 /\ x mod 16 < 16 /\ (x / 16) * 16 + x mod 16 = x.
Proof.
  intros H. pose proof (N.div_mod x 16 ltac:(lia)) as D. pose proof (N.mod_lt x 16 ltac:(lia)) as M.
  generalize dependent (x / 16). generalize dependent (x mod 16). intros m Hm q Hq. lia.
Qed.

(* bytes.fromhex(b.hex()) == b *)
Lemma py_fromhex_hex b : Forall is_byte b -> py_fromhex (hex_of_bytes b) = Some b.
Proof.
  induction b as [|x b IH]; intros H; [reflexivity|]. inversion H as [|? ? Hx Hb]. subst.
  destruct (byte_join x Hx) as [H1 [H2 H3]].
  change (hex_of_bytes (x :: b)) with (hexdigit (x / 16) :: hexdigit (x mod 16) :: hex_of_bytes b).
  cbn [py_fromhex]. rewrite (hexdigit_not_space _ H1), (hexval_hexdigit _ H1), (hexval_hexdigit _ H2).
  rewrite (IH Hb). simpl. rewrite H3. reflexivity.
Qed.

(* the result of bytes.fromhex consists of bytes *)
Lemma py_fromhex_bytes_len : forall n s b, (length s <= n)%nat -> py_fromhex s = Some b -> Forall is_byte b.
Proof.
  induction n as [|n IH]; intros s b Hlen H.
  - destruct s; [|simpl in Hlen; lia]. inversion H. constructor.
  - destruct s as [|a r]; [inversion H; constructor|]. cbn [py_fromhex] in H. simpl in Hlen.
    destruct (is_py_space a); [apply (IH r b); [lia | exact H]|].
    destruct r as [|c r']; [discriminate|].
    destruct (hexval a) as [x|] eqn:Ea; [|discriminate]. destruct (hexval c) as [y|] eqn:Ec; [|discriminate].
    destruct (py_fromhex r') as [b'|] eqn:Er; [|discriminate]. inversion H. subst b.
    constructor; [|apply (IH r' b'); [simpl in Hlen; lia | exact Er]].
    apply hexval_lt in Ea. apply hexval_lt in Ec. unfold is_byte. lia.
Qed.
Lemma py_fromhex_bytes s b : py_fromhex s = Some b -> Forall is_byte b.
Proof. apply (py_fromhex_bytes_len (length s)). lia. Qed.

(* bytes.fromhex(s).hex() == s for lower-case hex s *)
Lemma hex_fromhex_lower_len : forall n s b, (length s <= n)%nat ->
  is_lower_hex s = true -> py_fromhex s = Some b -> hex_of_bytes b = s.
Proof.
  induction n as [|n IH]; intros s b Hlen Hl H.
  - destruct s; [|simpl in Hlen; lia]. inversion H. reflexivity.
  - destruct s as [|a r]; [inversion H; reflexivity|]. cbn [py_fromhex] in H. simpl in Hlen.
    unfold is_lower_hex in Hl. cbn [forallb] in Hl. apply andb_true_iff in Hl. destruct Hl as [Ha Hr].
    rewrite (lower_hex_not_space a Ha) in H.
    destruct r as [|c r']; [discriminate|]. cbn [forallb] in Hr. apply andb_true_iff in Hr. destruct Hr as [Hc Hr'].
    destruct (hexval a) as [x|] eqn:Ea; [|discriminate]. destruct (hexval c) as [y|] eqn:Ec; [|discriminate].
    destruct (py_fromhex r') as [b'|] eqn:Er; [|discriminate]. inversion H. subst b.
    pose proof (hexval_lt _ _ Ea) as Hx. pose proof (hexval_lt _ _ Ec) as Hy.
    destruct (byte_split x y Hx Hy) as [D M].
    change (hex_of_bytes (x * 16 + y :: b')) with (hexdigit ((x * 16 + y) / 16) :: hexdigit ((x * 16 + y) mod 16) :: hex_of_bytes b').
    rewrite D, M, (hexdigit_hexval_lower a x Ha Ea), (hexdigit_hexval_lower c y Hc Ec).
    f_equal. f_equal. apply (IH r' b'); [simpl in Hlen; lia | exact Hr' | exact Er].
Qed.
Lemma hex_fromhex_lower s b : is_lower_hex s = true -> py_fromhex s = Some b -> hex_of_bytes b = s.
Proof. apply (hex_fromhex_lower_len (length s)). lia. Qed.

(* bytes.hex is injective on byte strings *)
Lemma hex_of_bytes_inj a b : Forall is_byte a -> Forall is_byte b -> hex_of_bytes a = hex_of_bytes b -> a = b.
Proof.
  intros Ha Hb H. apply py_fromhex_hex in Ha. apply py_fromhex_hex in Hb. rewrite H in Ha. congruence.
Qed.
