(* SQLM - invariants of the relational state and how the engine operations act on them:
   primary key, foreign key / cascade, and TagsCoherent (the tags table is exactly what
   process_tags derives from the stored events). *)
From NR Require Import Lib.Base Lib.BaseFacts Lib.Nip01 SQLM.Rel SQLM.Write SQLM.Spec SQLM.Proofs_Hex.
From Coq Require Import ZifyBool.
Open Scope list_scope.

Lemma bytes_eqb_eq a b : bytes_eqb a b = true <-> a = b.
Proof. apply str_eqb_eq. Qed.
Lemma bytes_eqb_refl a : bytes_eqb a a = true.
Proof. apply str_eqb_refl. Qed.

Definition ids (d : db) : list bytes := map r_id (d_events d).

Lemma has_id_In i l : has_id i l = true <-> In i (map r_id l).
Proof.
  unfold has_id. rewrite existsb_exists, in_map_iff. split.
  - intros [r [Hr E]]. apply bytes_eqb_eq in E. exists r. auto.
  - intros [r [E Hr]]. exists r. split; [exact Hr|]. apply bytes_eqb_eq. exact E.
Qed.
Lemma has_id_false i l : has_id i l = false <-> ~ In i (map r_id l).
Proof.
  split.
  - intros H C. apply has_id_In in C. congruence.
  - intros H. destruct (has_id i l) eqn:E; [|reflexivity]. apply has_id_In in E. contradiction.
Qed.
Lemma mem_bytes_In i l : mem_bytes i l = true <-> In i l.
Proof. apply mem_str_In. Qed.

(* ---------- invariants ---------- *)
Definition PK (d : db) : Prop := NoDup (ids d).
(* tag rows of every stored event except the one whose id is `skip` *)
Definition Coh (skip : option bytes) (d : db) : Prop :=
  forall t, In t (d_tags d) <->
            exists r, In r (d_events d) /\ skip <> Some (r_id r) /\ In t (tagrows_of r).
Definition TagsCoherent (d : db) : Prop := Coh None d.
Definition row_ok (r : row) : Prop :=
  Forall is_byte (r_id r) /\ Forall is_byte (r_pubkey r) /\ Forall is_byte (r_sig r) /\ no_empty_tag (r_tags r) = true.
Definition RowsOk (d : db) : Prop := forall r, In r (d_events d) -> row_ok r.
Definition Inv (d : db) : Prop := PK d /\ TagsCoherent d /\ RowsOk d.

Lemma Inv_empty : Inv empty_db.
Proof.
  split; [constructor|]. split.
  - intros t. simpl. split; [contradiction | intros [r [[] _]]].
  - intros r [].
Qed.

Lemma tagrows_id r t : In t (tagrows_of r) -> t_id t = r_id r.
Proof.
  unfold tagrows_of. destruct (tag_pairs (r_tags r)); [|contradiction].
  intros H. apply in_map_iff in H. destruct H as [p [<- _]]. reflexivity.
Qed.

Lemma PK_unique d r1 r2 : PK d -> In r1 (d_events d) -> In r2 (d_events d) -> r_id r1 = r_id r2 -> r1 = r2.
Proof.
  unfold PK, ids. generalize (d_events d). induction l as [|x l IH]; intros Hnd H1 H2 E; [contradiction|].
  simpl in Hnd. inversion Hnd as [|? ? Hx Hl]. subst.
  destruct H1 as [<-|H1]; destruct H2 as [<-|H2]; auto.
  - exfalso. apply Hx. rewrite E. apply in_map. exact H2.
  - exfalso. apply Hx. rewrite <- E. apply in_map. exact H1.
Qed.

(* ---------- DELETE ... WHERE p (with cascade) ---------- *)
Section Delete.
  Variable p : row -> bool.
  Variable d : db.
  Let d' := fst (delete_where p d).

  Lemma delete_events r : In r (d_events d') <-> In r (d_events d) /\ p r = false.
  Proof.
    unfold d', delete_where. simpl. rewrite filter_In. rewrite negb_true_iff. tauto.
  Qed.
  Lemma delete_tags t : In t (d_tags d') <-> In t (d_tags d) /\ ~ exists r, In r (d_events d) /\ p r = true /\ r_id r = t_id t.
  Proof.
    unfold d', delete_where. simpl. rewrite filter_In, negb_true_iff. split; intros [H1 H2]; split; auto.
    - intros [r [Hr [Hp E]]]. apply has_id_false in H2. apply H2. apply in_map_iff. exists r. split; [exact E|].
      apply filter_In. auto.
    - apply has_id_false. intros C. apply in_map_iff in C. destruct C as [r [E Hr]]. apply filter_In in Hr.
      apply H2. exists r. tauto.
  Qed.
  Lemma delete_PK : PK d -> PK d'.
  Proof.
    unfold PK, ids, d', delete_where. simpl. generalize (d_events d). induction l as [|x l IH]; intros H; [constructor|].
    simpl in H. inversion H as [|? ? Hx Hl]. subst. simpl. destruct (p x); simpl; [apply IH; exact Hl|].
    constructor; [|apply IH; exact Hl]. intros C. apply Hx. apply in_map_iff in C. destruct C as [r [E Hr]].
    apply filter_In in Hr. apply in_map_iff. exists r. tauto.
  Qed.
  Lemma delete_RowsOk : RowsOk d -> RowsOk d'.
  Proof. intros H r Hr. apply delete_events in Hr. apply H. tauto. Qed.
  Lemma delete_Coh skip : PK d -> Coh skip d -> Coh skip d'.
  Proof.
    intros Hpk Hc t. rewrite delete_tags. rewrite (Hc t). split.
    - intros [[r [Hr [Hs Ht]]] Hno]. exists r. split; [|tauto]. apply delete_events. split; [exact Hr|].
      destruct (p r) eqn:E; [|reflexivity]. exfalso. apply Hno. exists r. split; [exact Hr|]. split; [exact E|].
      symmetry. apply tagrows_id. exact Ht.
    - intros [r [Hr [Hs Ht]]]. apply delete_events in Hr. destruct Hr as [Hr Hp]. split; [exists r; tauto|].
      intros [r2 [Hr2 [Hp2 E]]]. rewrite (tagrows_id r t Ht) in E.
      rewrite (PK_unique d r2 r Hpk Hr2 Hr E) in Hp2. congruence.
  Qed.
  Lemma delete_ids_subset i : In i (ids d') -> In i (ids d).
  Proof.
    unfold ids. intros H. apply in_map_iff in H. destruct H as [r [E Hr]]. apply delete_events in Hr.
    apply in_map_iff. exists r. tauto.
  Qed.
End Delete.

Lemma delete_Inv p d : Inv d -> Inv (fst (delete_where p d)).
Proof.
  intros [H1 [H2 H3]]. split; [apply delete_PK; exact H1|]. split; [apply delete_Coh; assumption | apply delete_RowsOk; exact H3].
Qed.

(* deleting by the ids of the rows selected by q = deleting the rows satisfying q (primary key) *)
Lemma delete_ids_as_pred q d : PK d ->
  fst (delete_where (fun r => mem_bytes (r_id r) (map r_id (List.filter q (d_events d)))) d) = fst (delete_where q d).
Proof.
  intros Hpk.
  assert (E : forall r, In r (d_events d) -> mem_bytes (r_id r) (map r_id (List.filter q (d_events d))) = q r).
  { intros r Hr. destruct (q r) eqn:Eq.
    - apply mem_bytes_In. apply in_map. apply filter_In. auto.
    - destruct (mem_bytes _ _) eqn:Em; [|reflexivity]. apply mem_bytes_In in Em. apply in_map_iff in Em.
      destruct Em as [r2 [Eid Hr2]]. apply filter_In in Hr2. destruct Hr2 as [Hr2 Hq2].
      rewrite (PK_unique d r2 r Hpk Hr2 Hr Eid) in Hq2. congruence. }
  unfold delete_where. simpl.
  assert (E1 : List.filter (fun r => mem_bytes (r_id r) (map r_id (List.filter q (d_events d)))) (d_events d) = List.filter q (d_events d)).
  { apply filter_ext_in. exact E. }
  rewrite E1. f_equal. apply filter_ext_in. intros r Hr. rewrite (E r Hr). reflexivity.
Qed.

(* ---------- INSERT OR IGNORE INTO events ---------- *)
Lemma insert_event_fresh r d : has_id (r_id r) (d_events d) = false ->
  insert_event r d = (mkdb (d_events d ++ [r]) (d_tags d), 1%nat).
Proof. intros H. unfold insert_event. rewrite H. reflexivity. Qed.
Lemma insert_event_dup r d : has_id (r_id r) (d_events d) = true -> insert_event r d = (d, O).
Proof. intros H. unfold insert_event. rewrite H. reflexivity. Qed.

Lemma NoDup_snoc {A} (l : list A) x : NoDup l -> ~ In x l -> NoDup (l ++ [x]).
Proof.
  induction l as [|y l IH]; intros H Hx; simpl; [constructor; [intros []|constructor]|].
  inversion H as [|? ? Hy Hl]. subst. constructor.
  - intros C. apply in_app_or in C. destruct C as [C|[C|[]]]; [contradiction|]. apply Hx. left. symmetry. exact C.
  - apply IH; [exact Hl|]. intros C. apply Hx. right. exact C.
Qed.
Lemma insert_PK r d : PK d -> has_id (r_id r) (d_events d) = false -> PK (mkdb (d_events d ++ [r]) (d_tags d)).
Proof.
  unfold PK, ids. simpl. intros H Hf. rewrite map_app. simpl. apply has_id_false in Hf.
  apply NoDup_snoc; assumption.
Qed.
Lemma insert_Coh r d : Coh None d -> has_id (r_id r) (d_events d) = false ->
  Coh (Some (r_id r)) (mkdb (d_events d ++ [r]) (d_tags d)).
Proof.
  intros Hc Hf t. simpl. rewrite (Hc t). apply has_id_false in Hf. split.
  - intros [r2 [Hr2 [_ Ht]]]. exists r2. split; [apply in_or_app; left; exact Hr2|]. split; [|exact Ht].
    intros E. inversion E as [E2]. apply Hf. rewrite E2. apply in_map. exact Hr2.
  - intros [r2 [Hr2 [Hs Ht]]]. apply in_app_or in Hr2. destruct Hr2 as [Hr2|[<-|[]]].
    + exists r2. split; [exact Hr2|]. split; [discriminate | exact Ht].
    + exfalso. apply Hs. reflexivity.
Qed.
Lemma insert_RowsOk r d : RowsOk d -> row_ok r -> RowsOk (mkdb (d_events d ++ [r]) (d_tags d)).
Proof. intros H Hr x Hx. simpl in Hx. apply in_app_or in Hx. destruct Hx as [Hx|[<-|[]]]; auto. Qed.

(* ---------- INSERT OR IGNORE INTO tags ---------- *)
Lemma trow_eqb_eq a b : trow_eqb a b = true <-> a = b.
Proof.
  unfold trow_eqb. rewrite !andb_true_iff, bytes_eqb_eq, !str_eqb_eq. destruct a, b; simpl. split.
  - intros [[-> ->] ->]. reflexivity.
  - intros E. inversion E. auto.
Qed.
Lemma insert_tags_spec : forall l d,
  (forall t, In t l -> has_id (t_id t) (d_events d) = true) ->
  exists d', insert_tags l d = Some d' /\ d_events d' = d_events d /\
             forall t, In t (d_tags d') <-> In t (d_tags d) \/ In t l.
Proof.
  induction l as [|x l IH]; intros d H.
  - exists d. simpl. split; [reflexivity|]. split; [reflexivity|]. intros t. tauto.
  - simpl. rewrite (H x (or_introl eq_refl)). simpl.
    destruct (existsb (trow_eqb x) (d_tags d)) eqn:Ex.
    + destruct (IH d) as [d' [E1 [E2 E3]]]; [intros t Ht; apply H; right; exact Ht|].
      exists d'. split; [exact E1|]. split; [exact E2|]. intros t. rewrite E3.
      apply existsb_exists in Ex. destruct Ex as [y [Hy Ey]]. apply trow_eqb_eq in Ey. subst y.
      split; [tauto|]. intros [H1|[<-|H1]]; auto.
    + destruct (IH (mkdb (d_events d) (d_tags d ++ [x]))) as [d' [E1 [E2 E3]]]; [intros t Ht; simpl; apply H; right; exact Ht|].
      exists d'. split; [exact E1|]. split; [exact E2|]. intros t. rewrite E3. simpl. rewrite in_app_iff. simpl. tauto.
Qed.

Lemma dedup_pairs_In p l : In p (dedup_pairs l) <-> In p l.
Proof.
  induction l as [|q l IH]; simpl; [tauto|].
  destruct (existsb _ l) eqn:E.
  - rewrite IH. split; [tauto|]. intros [<-|H]; [|exact H].
    apply existsb_exists in E. destruct E as [y [Hy Ey]]. apply andb_true_iff in Ey. destruct Ey as [E1 E2].
    apply str_eqb_eq in E1. apply str_eqb_eq in E2. destruct q, y. simpl in *. subst. exact Hy.
  - simpl. rewrite IH. tauto.
Qed.

(* the tag rows process_tags inserts for row r, as a set, are tagrows_of r *)
Lemma insert_own_tags r d pairs : tag_pairs (r_tags r) = Some pairs ->
  Coh (Some (r_id r)) d -> PK d -> In r (d_events d) ->
  exists d', insert_tags (map (fun p => mktrow (r_id r) (fst p) (snd p)) (dedup_pairs pairs)) d = Some d' /\
             d_events d' = d_events d /\ Coh None d'.
Proof.
  intros Hp Hc Hpk Hr.
  destruct (insert_tags_spec (map (fun p => mktrow (r_id r) (fst p) (snd p)) (dedup_pairs pairs)) d) as [d' [E1 [E2 E3]]].
  { intros t Ht. apply in_map_iff in Ht. destruct Ht as [q [<- _]]. simpl. apply has_id_In. apply in_map. exact Hr. }
  exists d'. split; [exact E1|]. split; [exact E2|]. intros t. rewrite E3, E2, (Hc t).
  assert (Hown : In t (map (fun p => mktrow (r_id r) (fst p) (snd p)) (dedup_pairs pairs)) <-> In t (tagrows_of r)).
  { unfold tagrows_of. rewrite Hp, !in_map_iff. split; intros [q [Eq Hq]]; exists q; (split; [exact Eq|]); apply dedup_pairs_In; exact Hq. }
  rewrite Hown. split.
  - intros [[r2 [Hr2 [_ Ht]]]|Ht]; [exists r2 | exists r]; (split; [assumption|]); (split; [discriminate | assumption]).
  - intros [r2 [Hr2 [_ Ht]]]. destruct (list_eq_dec N.eq_dec (r_id r2) (r_id r)) as [E|E].
    + right. rewrite <- (PK_unique d r2 r Hpk Hr2 Hr E). exact Ht.
    + left. exists r2. split; [exact Hr2|]. split; [|exact Ht]. intros C. inversion C. congruence.
Qed.
