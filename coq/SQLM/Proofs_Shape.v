(* SQLM - "filters are pure data" (C01): the token structure of the statement - every token
   except the contents of string / blob / number literals - is a function of the SHAPE of the
   filters only (which fields are present, list lengths, length classes of ids, signs of numbers). *)
From NR Require Import Lib.Base Lib.BaseFacts Lib.Nip01 SQLM.Query SQLM.Text SQLM.Proofs_Text.
From Coq Require Import ZifyBool.
Open Scope list_scope.

Inductive etok := EWord (s : pystr) | ESym (s : pystr) | ELit.
Definition erase_tok (t : tok) : etok :=
  match t with TWord s => EWord s | TSym s => ESym s | TNum _ | TStr _ | TBlob _ => ELit end.
Definition erase (l : list tok) : list etok := map erase_tok l.

Lemma erase_app a b : erase (a ++ b) = erase a ++ erase b.
Proof. apply map_app. Qed.

Lemma comma_sep_erase : forall l l', map erase l = map erase l' -> erase (comma_sep l) = erase (comma_sep l').
Proof.
  induction l as [|x l IH]; intros [|x' l'] H; try discriminate; [reflexivity|].
  simpl in H. inversion H as [[Hx Hl]].
  destruct l as [|y l2]; destruct l' as [|y' l2']; try discriminate.
  - simpl. exact Hx.
  - change (comma_sep (x :: y :: l2)) with (x ++ sy "," :: comma_sep (y :: l2)).
    change (comma_sep (x' :: y' :: l2')) with (x' ++ sy "," :: comma_sep (y' :: l2')).
    rewrite !erase_app. cbn [erase map]. fold (erase (comma_sep (y :: l2))). fold (erase (comma_sep (y' :: l2'))).
    rewrite Hx, (IH (y' :: l2') Hl). reflexivity.
Qed.
Lemma in_list_erase l l' : map erase l = map erase l' -> erase (in_list l) = erase (in_list l').
Proof.
  intros H. unfold in_list. cbn [erase map]. fold (erase (comma_sep l ++ [sy ")"])). fold (erase (comma_sep l' ++ [sy ")"])).
  rewrite !erase_app, (comma_sep_erase l l' H). reflexivity.
Qed.
Lemma map_const_len {A B} (f : A -> B) (b : B) l l' :
  (forall x, f x = b) -> length l = length l' -> map f l = map f l'.
Proof.
  intros Hf. revert l'. induction l as [|x l IH]; intros [|x' l'] H; try discriminate; [reflexivity|].
  simpl. rewrite !Hf. f_equal. apply IH. simpl in H. lia.
Qed.
Lemma lits_erase {A} (mk : A -> tok) (l l' : list A) :
  (forall x, erase_tok (mk x) = ELit) -> length l = length l' ->
  erase (in_list (map (fun h => [mk h]) l)) = erase (in_list (map (fun h => [mk h]) l')).
Proof.
  intros Hm Hlen. apply in_list_erase. rewrite !map_map. apply (map_const_len _ [ELit]); [|exact Hlen].
  intros x. cbn [erase map]. rewrite Hm. reflexivity.
Qed.
Lemma tag_subselect_erase n n' vs vs' : length vs = length vs' ->
  erase (tag_subselect n vs) = erase (tag_subselect n' vs').
Proof.
  intros H. unfold tag_subselect. rewrite !erase_app. f_equal. f_equal.
  rewrite (lits_erase TStr vs vs' (fun _ => eq_refl) H). reflexivity.
Qed.
Lemma num_toks_erase z z' : Z.ltb z 0 = Z.ltb z' 0 -> erase (num_toks z) = erase (num_toks z').
Proof. intros H. unfold num_toks. rewrite H. destruct (Z.ltb z' 0); reflexivity. Qed.

(* ---------- shape of a condition ---------- *)
Inductive cshape := SLike | SIdIn (n : nat) | SAuthors (n : nat) | SKinds (signs : list bool)
                  | SSince (neg : bool) | SUntil (neg : bool) | STag (n : nat).
Definition neg (z : Z) : bool := Z.ltb z 0.
Definition cond_shape (c : cond) : cshape :=
  match c with
  | CIdLike _ => SLike | CIdIn ids => SIdIn (length ids) | CAuthors hs => SAuthors (length hs)
  | CKindIn ks => SKinds (map neg ks) | CSince z => SSince (neg z) | CUntil z => SUntil (neg z)
  | CTag _ vs => STag (length vs)
  end.

Lemma map_erase_num ks ks' : map neg ks = map neg ks' -> map erase (map num_toks ks) = map erase (map num_toks ks').
Proof.
  revert ks'. induction ks as [|k ks IH]; intros [|k' ks'] H; try discriminate; [reflexivity|].
  simpl in H. inversion H as [[Hk Hks]]. simpl. rewrite (num_toks_erase k k' Hk), (IH ks' Hks). reflexivity.
Qed.

Lemma cond_shape_erase c c' : cond_shape c = cond_shape c' -> erase (cond_toks c) = erase (cond_toks c').
Proof.
  destruct c; destruct c'; intros H; simpl in H; try discriminate; inversion H; unfold cond_toks.
  - reflexivity.
  - rewrite !erase_app. f_equal. apply (lits_erase TBlob); auto.
  - rewrite !erase_app. f_equal. f_equal; [apply (lits_erase TBlob); auto|]. f_equal. f_equal.
    apply tag_subselect_erase; auto.
  - cbn [erase map]. f_equal. apply in_list_erase. apply map_erase_num; auto.
  - rewrite !erase_app. f_equal. apply num_toks_erase; auto.
  - rewrite !erase_app. f_equal. apply num_toks_erase; auto.
  - apply tag_subselect_erase; auto.
Qed.

Lemma sep_by_erase sep : forall l l', map erase l = map erase l' -> erase (sep_by sep l) = erase (sep_by sep l').
Proof.
  induction l as [|x l IH]; intros [|x' l'] H; try discriminate; [reflexivity|].
  simpl in H. inversion H as [[Hx Hl]].
  destruct l as [|y l2]; destruct l' as [|y' l2']; try discriminate.
  - simpl. exact Hx.
  - change (sep_by sep (x :: y :: l2)) with (x ++ sep ++ sep_by sep (y :: l2)).
    change (sep_by sep (x' :: y' :: l2')) with (x' ++ sep ++ sep_by sep (y' :: l2')).
    rewrite !erase_app, Hx, (IH (y' :: l2') Hl). reflexivity.
Qed.

Lemma clause_shape_erase c c' : map cond_shape c = map cond_shape c' -> erase (clause_toks c) = erase (clause_toks c').
Proof.
  intros H. unfold clause_toks. destruct c as [|x c]; destruct c' as [|x' c']; try discriminate; [reflexivity|].
  apply sep_by_erase. remember (x :: c) as l. remember (x' :: c') as l'. clear Heql Heql' x x' c c'.
  revert l' H. induction l as [|y l IH]; intros [|y' l'] H; try discriminate; [reflexivity|].
  simpl in H. inversion H as [[Hy Hl]]. simpl. rewrite (cond_shape_erase y y' Hy), (IH l' Hl). reflexivity.
Qed.

(* ---------- shape of a filter ---------- *)
Definition id_class (s : pystr) : bool * bool := (len_is 64 s, Nat.ltb 2 (length s)).
Definition shape (f : filter) :=
  (option_map (map id_class) (f_ids f),
   option_map (fun a => length (dedup_str (List.filter (len_is 64) a))) (f_authors f),
   option_map (map neg) (f_kinds f),
   option_map neg (f_since f), option_map neg (f_until f),
   map (fun nv : pystr * list pystr => length (snd nv)) (f_tags f)).

Lemma filter_len_by_class {A B} (g : A -> B) (p : A -> bool) (q : B -> bool) :
  (forall x, p x = q (g x)) -> forall l l', map g l = map g l' -> length (List.filter p l) = length (List.filter p l').
Proof.
  intros Hp. induction l as [|x l IH]; intros [|x' l'] H; try discriminate; [reflexivity|].
  simpl in H. inversion H as [[Hx Hl]]. simpl. rewrite !Hp, Hx. destruct (q (g x')); simpl; rewrite (IH l' Hl); reflexivity.
Qed.
Lemma is_nil_len {A B} (l : list A) (l' : list B) : length l = length l' -> is_nil l = is_nil l'.
Proof. destruct l; destruct l'; simpl; intros; try discriminate; reflexivity. Qed.

Lemma ids_conds_shape ids ids' : map id_class ids = map id_class ids' ->
  map cond_shape (ids_conds ids) = map cond_shape (ids_conds ids').
Proof.
  intros H. unfold ids_conds. rewrite !map_app, !map_map.
  assert (L1 : length (List.filter (fun s => negb (len_is 64 s) && Nat.ltb 2 (length s)) ids) =
               length (List.filter (fun s => negb (len_is 64 s) && Nat.ltb 2 (length s)) ids')).
  { apply (filter_len_by_class id_class _ (fun c => negb (fst c) && snd c)); [reflexivity | exact H]. }
  assert (L2 : length (List.filter (len_is 64) ids) = length (List.filter (len_is 64) ids')).
  { apply (filter_len_by_class id_class _ fst); [reflexivity | exact H]. }
  f_equal.
  - apply (map_const_len _ SLike); [reflexivity | exact L1].
  - rewrite (is_nil_len _ _ L2). destruct (is_nil (List.filter (len_is 64) ids')); [reflexivity|].
    simpl. rewrite L2. reflexivity.
Qed.

Lemma tags_conds_shape : forall t t',
  map (fun nv : pystr * list pystr => length (snd nv)) t = map (fun nv : pystr * list pystr => length (snd nv)) t' ->
  option_map (map cond_shape) (tags_conds t) = option_map (map cond_shape) (tags_conds t').
Proof.
  induction t as [|nv t IH]; intros [|nv' t'] H; try discriminate; [reflexivity|].
  simpl in H. inversion H as [[Hn Ht]]. specialize (IH t' Ht).
  simpl. fold (tags_conds t). fold (tags_conds t').
  destruct (tags_conds t) as [l|]; destruct (tags_conds t') as [l'|]; simpl in IH; try discriminate; [|reflexivity].
  rewrite (is_nil_len (snd nv) (snd nv') Hn). destruct (is_nil (snd nv')); [reflexivity|].
  simpl. inversion IH as [IH']. rewrite Hn, IH'. reflexivity.
Qed.

Lemma evaluate_filter_shape f f' : shape f = shape f' ->
  option_map (map cond_shape) (evaluate_filter f) = option_map (map cond_shape) (evaluate_filter f').
Proof.
  unfold shape. intros H. inversion H as [[Hids Hauth Hkinds Hsince Huntil Htags]]. clear H.
  unfold evaluate_filter.
  (* ids *)
  assert (E1 : option_map (map cond_shape) (opt_conds (f_ids f) (fun ids => if is_nil ids then None else Some (ids_conds ids))) =
               option_map (map cond_shape) (opt_conds (f_ids f') (fun ids => if is_nil ids then None else Some (ids_conds ids)))).
  { destruct (f_ids f) as [a|]; destruct (f_ids f') as [a'|]; simpl in Hids; try discriminate; [|reflexivity].
    inversion Hids as [Hm]. simpl. rewrite (is_nil_len a a') by (rewrite <- (map_length id_class a), Hm, map_length; reflexivity).
    destruct (is_nil a'); [reflexivity|]. simpl. rewrite (ids_conds_shape a a' Hm). reflexivity. }
  assert (E2 : option_map (map cond_shape) (opt_conds (f_authors f) (fun a =>
                  let exact := dedup_str (List.filter (len_is 64) a) in if is_nil exact then None else Some [CAuthors exact])) =
               option_map (map cond_shape) (opt_conds (f_authors f') (fun a =>
                  let exact := dedup_str (List.filter (len_is 64) a) in if is_nil exact then None else Some [CAuthors exact]))).
  { destruct (f_authors f) as [a|]; destruct (f_authors f') as [a'|]; simpl in Hauth; try discriminate; [|reflexivity].
    inversion Hauth as [Hm]. simpl. rewrite (is_nil_len _ _ Hm).
    destruct (is_nil (dedup_str (List.filter (len_is 64) a'))); [reflexivity|]. simpl. rewrite Hm. reflexivity. }
  assert (E3 : option_map (map cond_shape) (opt_conds (f_kinds f) (fun ks => if is_nil ks then None else Some [CKindIn ks])) =
               option_map (map cond_shape) (opt_conds (f_kinds f') (fun ks => if is_nil ks then None else Some [CKindIn ks]))).
  { destruct (f_kinds f) as [a|]; destruct (f_kinds f') as [a'|]; simpl in Hkinds; try discriminate; [|reflexivity].
    inversion Hkinds as [Hm]. simpl. rewrite (is_nil_len a a') by (rewrite <- (map_length neg a), Hm, map_length; reflexivity).
    destruct (is_nil a'); [reflexivity|]. simpl. rewrite Hm. reflexivity. }
  pose proof (tags_conds_shape (f_tags f) (f_tags f') Htags) as E6.
  destruct (opt_conds (f_ids f) _) as [c1|]; destruct (opt_conds (f_ids f') _) as [c1'|]; simpl in E1; try discriminate; [|reflexivity].
  destruct (opt_conds (f_authors f) _) as [c2|]; destruct (opt_conds (f_authors f') _) as [c2'|]; simpl in E2; try discriminate; [|reflexivity].
  destruct (opt_conds (f_kinds f) _) as [c3|]; destruct (opt_conds (f_kinds f') _) as [c3'|]; simpl in E3; try discriminate; [|reflexivity].
  destruct (tags_conds (f_tags f)) as [c6|]; destruct (tags_conds (f_tags f')) as [c6'|]; simpl in E6; try discriminate; [|reflexivity].
  simpl. rewrite !map_app. inversion E1 as [E1']. inversion E2 as [E2']. inversion E3 as [E3']. inversion E6 as [E6'].
  rewrite E1', E2', E3', E6'.
  destruct (f_since f); destruct (f_since f'); simpl in Hsince; try discriminate;
    destruct (f_until f); destruct (f_until f'); simpl in Huntil; try discriminate;
    simpl; repeat match goal with H : Some _ = Some _ |- _ => inversion H; clear H end;
    repeat match goal with H : neg _ = neg _ |- _ => rewrite H; clear H end; reflexivity.
Qed.

Lemma cons_eq_inv {A} (a b : A) l l' : a :: l = b :: l' -> a = b /\ l = l'.
Proof. intros H; inversion H; auto. Qed.

(* C01 "filters are pure data": two filter lists of the same shape yield, filter by filter, WHERE
   groups with the same token structure; what differs is only the content of literal tokens.
   (The statement is SELECT-head, these groups as a set joined by `) OR (`, and ORDER BY/LIMIT n.) *)
Theorem build_query_shape : forall dl ml fs fs',
  map shape fs = map shape fs' ->
  map erase (map clause_toks (q_where (build_query dl ml fs))) =
  map erase (map clause_toks (q_where (build_query dl ml fs'))).
Proof.
  intros dl ml fs fs' H. unfold build_query. cbn [q_where]. rewrite !map_map.
  revert fs' H. induction fs as [|f fs IH]; intros [|f' fs'] H; try discriminate; [reflexivity|].
  cbn [map] in H. apply cons_eq_inv in H. destruct H as [Hf Hfs]. cbn [map]. rewrite (IH fs' Hfs). f_equal.
  apply clause_shape_erase. unfold clause_of. pose proof (evaluate_filter_shape f f' Hf) as E.
  destruct (evaluate_filter f) as [c|]; destruct (evaluate_filter f') as [c'|]; simpl in E; try discriminate; [|reflexivity].
  inversion E. reflexivity.
Qed.
