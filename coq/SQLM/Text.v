(* SQLM - the SQL text of a REQ: tokens, their rendering, SQLite's lexical rules as far as
   the statements of db.py (and hostile variations of them) need, SQLAlchemy text()'s
   preprocessing of the string, and the printing of Query.v's syntax to tokens.
   Executable; no proofs in this file. *)
From NR Require Import Lib.Base Lib.Nip01 SQLM.Query.
Open Scope list_scope. Open Scope N_scope.

Inductive tok :=
| TWord (s : pystr)     (* keyword / identifier                       *)
| TNum (s : pystr)      (* integer literal: its digits                *)
| TStr (s : pystr)      (* '...' literal: its decoded content         *)
| TBlob (s : pystr)     (* x'...' literal: its hex digits             *)
| TSym (s : pystr).     (* operator / punctuation                     *)

Definition tok_eqb (a b : tok) : bool :=
  match a, b with
  | TWord x, TWord y | TNum x, TNum y | TStr x, TStr y | TBlob x, TBlob y | TSym x, TSym y => str_eqb x y
  | _, _ => false
  end.

(* ---------- rendering ---------- *)
Definition c_quote : cp := 39.
Definition c_space : cp := 32.
Definition c_colon : cp := 58.
Definition c_bslash : cp := 92.
(* str.replace("'", "''") *)
Definition sql_quote (v : pystr) : pystr := flat_map (fun c => if c =? c_quote then [c_quote; c_quote] else [c]) v.
(* str.replace(":", "\\:") - protects the value from text()'s bind-parameter pattern *)
Definition colon_escape (v : pystr) : pystr := flat_map (fun c => if c =? c_colon then [c_bslash; c_colon] else [c]) v.

Definition render_tok (t : tok) : pystr :=
  match t with
  | TWord s | TNum s | TSym s => s
  | TStr s => c_quote :: sql_quote s ++ [c_quote]
  | TBlob s => 120 :: c_quote :: s ++ [c_quote]
  end.
Definition render (l : list tok) : pystr := flat_map (fun t => render_tok t ++ [c_space]) l.
(* the string handed to sqlalchemy.text(): literals additionally colon-escaped *)
Definition py_render_tok (t : tok) : pystr :=
  match t with
  | TStr s => c_quote :: colon_escape (sql_quote s) ++ [c_quote]
  | _ => render_tok t
  end.
Definition py_render (l : list tok) : pystr := flat_map (fun t => py_render_tok t ++ [c_space]) l.

(* ---------- SQLite lexical rules ---------- *)
Definition is_ws (c : cp) : bool := (c =? 32) || (c =? 9) || (c =? 10) || (c =? 12) || (c =? 13).
Definition is_alpha (c : cp) : bool := ((65 <=? c) && (c <=? 90)) || ((97 <=? c) && (c <=? 122)).
Definition is_id_start (c : cp) : bool := is_alpha c || (c =? 95) || (128 <=? c).
Definition is_id_char (c : cp) : bool := is_id_start c || is_digit c || (c =? 36).
Definition is_hex_char (c : cp) : bool := match hexval c with Some _ => true | None => false end.

(* after the opening quote: content with '' -> ', and the rest after the closing quote *)
Fixpoint lex_string (s : pystr) : option (pystr * pystr) :=
  match s with
  | [] => None
  | c :: r =>
      if c =? c_quote then
        match r with
        | c2 :: r2 =>
            if c2 =? c_quote
            then match lex_string r2 with Some (v, rest) => Some (c_quote :: v, rest) | None => None end
            else Some ([], r)
        | [] => Some ([], [])
        end
      else match lex_string r with Some (v, rest) => Some (c :: v, rest) | None => None end
  end.

Fixpoint span (p : cp -> bool) (s : pystr) : pystr * pystr :=
  match s with
  | [] => ([], [])
  | c :: r => if p c then let '(a, b) := span p r in (c :: a, b) else ([], s)
  end.
Fixpoint skip_line (s : pystr) : pystr :=
  match s with [] => [] | c :: r => if c =? 10 then r else skip_line r end.
Fixpoint skip_block (s : pystr) : pystr :=          (* after the opening slash-star *)
  match s with
  | [] => []
  | c :: r => match r with
              | c2 :: r2 => if (c =? 42) && (c2 =? 47) then r2 else skip_block r
              | [] => []
              end
  end.

Definition sym1 (c : cp) : bool :=
  existsb (N.eqb c) [40; 41; 44; 61; 60; 62; 42; 46; 45; 43; 47; 37; 59; 124; 38; 126].
Definition sym2 (a b : cp) : bool :=
  ((a =? 62) && (b =? 61)) || ((a =? 60) && (b =? 61)) || ((a =? 60) && (b =? 62)) ||
  ((a =? 33) && (b =? 61)) || ((a =? 61) && (b =? 61)) || ((a =? 124) && (b =? 124)) ||
  ((a =? 60) && (b =? 60)) || ((a =? 62) && (b =? 62)).

Definition cons_opt (t : tok) (o : option (list tok)) : option (list tok) :=
  match o with Some l => Some (t :: l) | None => None end.
Definition head_is (p : cp -> bool) (s : pystr) : bool := match s with c :: _ => p c | [] => false end.

(* None = a token SQLite rejects, or one outside what this model covers (fail closed) *)
Fixpoint lex_fuel (fuel : nat) (s : pystr) : option (list tok) :=
  match s with
  | [] => Some []
  | c :: r =>
    match fuel with
    | O => None
    | S f =>
      if is_ws c then lex_fuel f r
      else if c =? c_quote then
        match lex_string r with
        | Some (v, rest) => cons_opt (TStr v) (lex_fuel f rest)
        | None => None
        end
      else if ((c =? 120) || (c =? 88)) && head_is (N.eqb c_quote) r then
        let '(h, rest) := span is_hex_char (tl r) in
        if head_is (N.eqb c_quote) rest && Nat.even (length h)
        then cons_opt (TBlob h) (lex_fuel f (tl rest)) else None
      else if is_digit c then
        let '(ds, rest) := span is_digit s in
        if head_is (fun x => is_id_char x || (x =? 46)) rest then None
        else cons_opt (TNum ds) (lex_fuel f rest)
      else if is_id_start c then
        let '(w, rest) := span is_id_char s in cons_opt (TWord w) (lex_fuel f rest)
      else if (c =? 45) && head_is (N.eqb 45) r then lex_fuel f (skip_line r)
      else if (c =? 47) && head_is (N.eqb 42) r then lex_fuel f (skip_block (tl r))
      else if (c =? 46) && head_is is_digit r then None
      else match r with
           | c2 :: r2 => if sym2 c c2 then cons_opt (TSym [c; c2]) (lex_fuel f r2)
                         else if sym1 c then cons_opt (TSym [c]) (lex_fuel f r) else None
           | [] => if sym1 c then Some [TSym [c]] else None
           end
    end
  end.

(* sqlite3 refuses a statement containing NUL *)
Definition lex (s : pystr) : option (list tok) :=
  if existsb (N.eqb 0) s then None else lex_fuel (length s) s.

(* ---------- sqlalchemy.text() ----------
   TextClause.__init__ / visit_textclause apply to the string
     BIND_PARAMS     = (?<![:\w\x5c]):(\w+)(?!:)      -> a bound parameter (here: no value -> statement error)
     BIND_PARAMS_ESC = \x5c(:[\w\$]STAR)(?![:\w\$])   -> replaced by group 1 (STAR = the Kleene star)
   `w` decides \w (Unicode-aware in Python; supplied by the harness for the code points in play). *)
Section SaText.
  Variable w : cp -> bool.
  (* scanning with the previous character; true if some position matches BIND_PARAMS *)
  Fixpoint has_bind_from (prev_blocks : bool) (s : pystr) : bool :=
    match s with
    | [] => false
    | c :: r =>
        if (c =? c_colon) && negb prev_blocks &&
           (let '(run, rest) := span w r in
            match run with
            | [] => false
            | [_] => negb (head_is (N.eqb c_colon) rest)
            | _ => true
            end)
        then true
        else has_bind_from ((c =? c_colon) || w c || (c =? c_bslash)) r
    end.
  Definition has_bind (s : pystr) : bool := has_bind_from false s.

  Definition w_dollar (c : cp) : bool := w c || (c =? 36).
  Fixpoint drop {A} (n : nat) (l : list A) : list A :=
    match n, l with O, _ => l | S k, _ :: r => drop k r | S _, [] => [] end.
  (* left-to-right, non-overlapping substitution of BIND_PARAMS_ESC; skip = characters already consumed *)
  Fixpoint unescape_from (skip : nat) (s : pystr) : pystr :=
    match s with
    | [] => []
    | c :: r =>
        match skip with
        | S k => unescape_from k r
        | O =>
            if (c =? c_bslash) && head_is (N.eqb c_colon) r then
              let '(run, rest) := span w_dollar (tl r) in
              if head_is (N.eqb c_colon) rest then c :: unescape_from O r
              else (c_colon :: run) ++ unescape_from (S (length run)) r
            else c :: unescape_from O r
        end
    end.
  (* what the DBAPI cursor receives; None = statement error before execution *)
  Definition sa_text_pre (s : pystr) : option pystr :=
    if has_bind s then None else Some (unescape_from O s).
End SaText.

(* ---------- printing Query.v's syntax ---------- *)
Local Close Scope N_scope.
Open Scope Z_scope.
Definition kw (s : string) : tok := TWord (pys s).
Definition sy (s : string) : tok := TSym (pys s).
Definition num_toks (z : Z) : list tok :=
  if z <? 0 then [sy "-"; TNum (dec_of_N (Z.to_N (- z)))] else [TNum (dec_of_N (Z.to_N z))].

Fixpoint comma_sep (l : list (list tok)) : list tok :=
  match l with
  | [] => []
  | [x] => x
  | x :: r => x ++ sy "," :: comma_sep r
  end.
Definition in_list (items : list (list tok)) : list tok := kw "IN" :: sy "(" :: comma_sep items ++ [sy ")"].
Definition tag_subselect (name : pystr) (vals : list pystr) : list tok :=
  [kw "id"] ++ [kw "IN"; sy "("; kw "SELECT"; kw "id"; kw "FROM"; kw "tags"; kw "WHERE"; kw "name"; sy "="; TStr name;
                kw "AND"; kw "value"] ++ in_list (map (fun v => [TStr v]) vals) ++ [sy ")"].
Definition c_percent : cp := 37%N.

Definition cond_toks (c : cond) : list tok :=
  match c with
  | CIdLike p => [kw "lower"; sy "("; kw "hex"; sy "("; kw "id"; sy ")"; sy ")"; kw "LIKE"; TStr (p ++ [c_percent])]
  | CIdIn ids => [kw "events"; sy "."; kw "id"] ++ in_list (map (fun h => [TBlob h]) ids)
  | CAuthors hs =>
      [sy "("; kw "pubkey"] ++ in_list (map (fun h => [TBlob h]) hs) ++ [kw "OR"] ++
      tag_subselect s_delegation hs ++ [sy ")"]
  | CKindIn ks => kw "kind" :: in_list (map num_toks ks)
  | CSince z => [kw "created_at"; sy ">="] ++ num_toks z
  | CUntil z => [kw "created_at"; sy "<"] ++ num_toks z
  | CTag n vs => tag_subselect n vs
  end.
Fixpoint sep_by (sep : list tok) (l : list (list tok)) : list tok :=
  match l with
  | [] => []
  | [x] => x
  | x :: r => x ++ sep ++ sep_by sep r
  end.
Definition clause_toks (c : clause) : list tok :=
  match c with [] => [kw "false"] | _ => sep_by [kw "AND"] (map cond_toks c) end.

Definition select_head : list tok :=
  [kw "SELECT"; kw "id"; sy ","; kw "created_at"; sy ","; kw "kind"; sy ","; kw "pubkey"; sy ",";
   kw "tags"; sy ","; kw "sig"; sy ","; kw "content"; kw "FROM"; kw "events"].
Definition select_tail (limit : Z) : list tok :=
  [kw "ORDER"; kw "BY"; kw "created_at"; kw "DESC"; kw "LIMIT"] ++ num_toks limit.
Definition where_toks (groups : list (list tok)) : list tok :=
  match groups with
  | [] => []
  | _ => [kw "WHERE"; sy "("] ++ sep_by [sy ")"; kw "OR"; sy "("] groups ++ [sy ")"]
  end.

(* `where` is a Python set of strings: duplicates collapse (order is the set's, compared modulo order) *)
Fixpoint dedup_groups (l : list (list tok)) : list (list tok) :=
  match l with
  | [] => []
  | g :: r => if existsb (list_eqb tok_eqb g) r then dedup_groups r else g :: dedup_groups r
  end.
Definition query_groups (q : query) : list (list tok) := dedup_groups (map clause_toks (q_where q)).
Definition query_toks (q : query) : list tok :=
  select_head ++ where_toks (query_groups q) ++ select_tail (q_limit q).

(* ---------- canonical splitting of a lexed statement (for comparison modulo set order) ---------- *)
(* tokens between `WHERE (` and the matching final `)` before ORDER, split at depth-0 `) OR (` *)
Definition is_sym (s : string) (t : tok) : bool := tok_eqb t (sy s).
Definition is_kw (s : string) (t : tok) : bool := tok_eqb t (kw s).
Fixpoint split_groups (depth : nat) (cur : list tok) (l : list tok) : list (list tok) * list tok :=
  match l with
  | [] => ([rev cur], [])
  | t :: r =>
      if is_sym "(" t then split_groups (S depth) (t :: cur) r
      else if is_sym ")" t then
        match depth with
        | S d => split_groups d (t :: cur) r
        | O =>
            match r with
            | t2 :: t3 :: r3 =>
                if is_kw "OR" t2 && is_sym "(" t3
                then let '(gs, tail) := split_groups O [] r3 in (rev cur :: gs, tail)
                else ([rev cur], r)
            | _ => ([rev cur], r)
            end
        end
      else split_groups depth (t :: cur) r
  end.
Fixpoint split_query (head : list tok) (l : list tok) : list tok * list (list tok) * list tok :=
  match l with
  | [] => (rev head, [], [])
  | t :: r =>
      if is_kw "WHERE" t then
        match r with
        | t2 :: r2 => if is_sym "(" t2 then let '(gs, tail) := split_groups O [] r2 in (rev head, gs, tail)
                      else (rev head, [], l)
        | [] => (rev head, [], l)
        end
      else if is_kw "ORDER" t then (rev head, [], l)
      else split_query (t :: head) r
  end.
