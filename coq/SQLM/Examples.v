(* SQLM - concrete events and filters for the non-vacuity examples and the refutation witnesses. *)
From NR Require Import Lib.Base Lib.Nip01 SQLM.Rel SQLM.Write SQLM.Query SQLM.Text SQLM.Where SQLM.Req SQLM.Spec.
Open Scope string_scope. Open Scope list_scope. Open Scope Z_scope.

Fixpoint rep (n : nat) (s : pystr) : pystr := match n with O => [] | S k => s ++ rep k s end.
Definition hex64 (two : string) : pystr := rep 32 (pys two).
Definition hex128 (two : string) : pystr := rep 64 (pys two).
Definition mkev (id pk : string) (ts kind : Z) (tags : list (list string)) : wevent :=
  {| w_id := hex64 id; w_pubkey := hex64 pk; w_created := ts; w_kind := kind;
     w_tags := map (map pys) tags; w_content := pys "c"; w_sig := hex128 "00" |}.
Definition ids_of (d : db) : list pystr := map (fun r => firstn 2 (hex_of_bytes (r_id r))) (d_events d).
Definition no_filter : filter :=
  {| f_ids := None; f_authors := None; f_kinds := None; f_since := None; f_until := None; f_limit := None; f_tags := [] |}.
Definition f_kinds_lim (ks : list Z) (lim : option Z) : filter :=
  {| f_ids := None; f_authors := None; f_kinds := Some ks; f_since := None; f_until := None; f_limit := lim; f_tags := [] |}.
Definition f_tag (n v : pystr) : filter :=
  {| f_ids := None; f_authors := None; f_kinds := None; f_since := None; f_until := None; f_limit := None; f_tags := [(n, [v])] |}.
Definition now0 : Z := 1700000000.
