(* SQLM - wire entry points of the SQL-backend model for the correspondence harness
   (harness/sqlm.py) and the executable statements evaluated on the implementation's
   observations. *)
From NR Require Import Lib.Base Lib.Nip01 Lib.Wire SQLM.Rel SQLM.Write SQLM.Query SQLM.Text SQLM.Where SQLM.Spec.
Open Scope string_scope. Open Scope list_scope. Open Scope Z_scope.

(* ---------- decoders / encoders ---------- *)
Definition tags_of_jv (v : jv) : list (list pystr) := map (fun t => map as_str (as_arr t)) (as_arr v).
Definition jv_of_tags (t : list (list pystr)) : jv := JArr (map (fun x => JArr (map JStr x)) t).
Definition row_of_jv (v : jv) : row :=
  let l := as_arr v in
  mkrow (as_str (nth 0 l JNull)) (as_int (nth 1 l JNull)) (as_int (nth 2 l JNull)) (as_str (nth 3 l JNull))
        (tags_of_jv (nth 4 l JNull)) (as_str (nth 5 l JNull)) (as_str (nth 6 l JNull)).
Definition jv_of_row (r : row) : jv :=
  JArr [JBytes (r_id r); JInt (r_created r); JInt (r_kind r); JBytes (r_pubkey r); jv_of_tags (r_tags r);
        JBytes (r_sig r); JStr (r_content r)].
Definition trow_of_jv (v : jv) : trow :=
  let l := as_arr v in mktrow (as_str (nth 0 l JNull)) (as_str (nth 1 l JNull)) (as_str (nth 2 l JNull)).
Definition jv_of_trow (t : trow) : jv := JArr [JBytes (t_id t); JStr (t_name t); JStr (t_value t)].
Definition db_of_jv (v : jv) : db :=
  mkdb (map row_of_jv (as_arr (jfield "events" v))) (map trow_of_jv (as_arr (jfield "tags" v))).
Definition jv_of_db (d : db) : jv :=
  jobj [("events", JArr (map jv_of_row (d_events d))); ("tags", JArr (map jv_of_trow (d_tags d)))].

Definition jv_of_stmt (s : stmt) : jv :=
  match s with
  | SSelectById i => JArr [jstr "select_by_id"; JBytes i]
  | SSelectOlder pk k c => JArr [jstr "select_older"; JBytes pk; JInt k; JInt c]
  | SDeleteIds ids => JArr [jstr "delete_ids"; JArr (map JBytes ids)]
  | SInsertEvent r => JArr [jstr "insert_event"; jv_of_row r]
  | SDeleteOlder pk k c => JArr [jstr "delete_older"; JBytes pk; JInt k; JInt c]
  | SInsertTags l => JArr [jstr "insert_tags"; JArr (map jv_of_trow l)]
  | SDeleteOwn pk i => JArr [jstr "delete_own"; JBytes pk; JBytes i]
  | SGc now => JArr [jstr "gc"; JInt now]
  end.
Definition jv_of_tevent (t : tevent) : jv :=
  match t with
  | TBegin => JArr [jstr "begin"] | TCommit => JArr [jstr "commit"] | TRollback => JArr [jstr "rollback"]
  | TNotify => JArr [jstr "notify"] | TStmt s => jv_of_stmt s
  end.
Definition err_name (e : pyerr) : string :=
  match e with
  | EIndex => "IndexError" | EValue => "ValueError" | EOverflow => "OverflowError" | EIntegrity => "IntegrityError"
  | EOperational => "OperationalError" | EStorage => "StorageError" | EAuth => "AuthenticationError"
  end.
Definition jv_of_out (o : bool + pyerr) : jv :=
  match o with inl c => JBool c | inr e => jstr (err_name e) end.
Definition opt_nat_of_jv (v : jv) : option nat := match v with JInt z => Some (Z.to_nat z) | _ => None end.

(* ---------- corr:sql-submit / sql-fault / sql-gc: a history of operations ----------
   step: {op:"add", ev, valid, can, fault:int|null} | {op:"gc", now}
   case: {now, steps}; output: per step {out, trace, db} *)
Fixpoint run_steps (now : Z) (d : db) (steps : list jv) : list jv :=
  match steps with
  | [] => []
  | s :: rest =>
      if str_eqb (as_str (jfield "op" s)) (pys "gc") then
        let '(d', n) := collect (as_int (jfield "now" s)) d in
        jobj [("out", JInt (Z.of_nat n)); ("trace", JArr [jv_of_stmt (SGc (as_int (jfield "now" s)))]); ("db", jv_of_db d')]
        :: run_steps now d' rest
      else
        let r := add_event (opt_nat_of_jv (jfield "fault" s)) now (as_bool (jfield "valid" s)) (as_bool (jfield "can" s))
                           d (wevent_of_jv (jfield "ev" s)) in
        jobj [("out", jv_of_out (ar_out r)); ("trace", JArr (map jv_of_tevent (ar_trace r))); ("db", jv_of_db (ar_db r))]
        :: run_steps now (ar_db r) rest
  end.
Definition run_history_jv (v : jv) : jv :=
  JArr (run_steps (as_int (jfield "now" v)) empty_db (as_arr (jfield "steps" v))).

(* ---------- executable statements on one observed submission ----------
   {before, after : dumps, ev, now, valid, can, out : true|false|"Error", notified, faulted : bool}
   -> list of violated classifier names *)
Definition out_of_jv (v : jv) : option bool := match v with JBool b => Some b | _ => None end.
Definition add_if (b : bool) (s : string) (l : list jv) : list jv := if b then jstr s :: l else l.
Definition oracle_write (v : jv) : jv :=
  let before := db_of_jv (jfield "before" v) in
  let after := db_of_jv (jfield "after" v) in
  let e := event_init (as_int (jfield "now" v)) (wevent_of_jv (jfield "ev" v)) in
  let out := out_of_jv (jfield "out" v) in
  let accepted := match out with Some true => true | _ => false end in
  let sb := stored before in let sa := stored after in
  let faulted := as_bool (jfield "faulted" v) in
  let c06 := if faulted then pys "ok"
             else c06_verdict before after e (as_bool (jfield "valid" v)) (as_bool (jfield "can" v)) out
                              (as_bool (jfield "notified" v)) in
  (* trace shape (C07): begin first; a notification only as the last step, directly after the commit *)
  let tk := map as_str (as_arr (jfield "trace_kinds" v)) in
  let is_k (s : string) (x : pystr) := str_eqb x (pys s) in
  let notify_ok := match rev tk with
                   | a :: b :: rest => if is_k "notify" a then is_k "commit" b && negb (existsb (is_k "notify") rest)
                                       else negb (existsb (is_k "notify") (b :: rest))
                   | l => negb (existsb (is_k "notify") l)
                   end in
  let one_txn := match tk with
                 | [] => true
                 | b :: rest => is_k "begin" b && negb (existsb (is_k "begin") rest) &&
                                (Nat.eqb (length (List.filter (fun x => is_k "commit" x || is_k "rollback" x) rest)) 1)
                 end in
  JArr (add_if (negb notify_ok) "notify_before_commit"
       (add_if (negb one_txn) "not_one_transaction"
       (add_if (accepted && negb (c09_removes_older sb sa e)) "replace_keeps_older"
       (add_if (negb (c09_frame sb sa e)) "store_frame_broken"
       (add_if (accepted && (w_kind e =? 5) && negb (c08_effective sb sa e)) "delete_ineffective"
       (add_if (negb (tags_coherent_b after)) "tags_incoherent"
       (add_if (faulted && negb (db_same before after && negb (as_bool (jfield "notified" v)))) "non_atomic"
       (if str_eqb c06 (pys "ok") then [] else [JStr c06])))))))).

(* {before, after, now} for a collector pass *)
Definition oracle_gc (v : jv) : jv :=
  let before := db_of_jv (jfield "before" v) in
  let after := db_of_jv (jfield "after" v) in
  JArr (add_if (negb (c17_ok (as_int (jfield "now" v)) (stored before) (stored after))) "gc_not_exact"
       (add_if (negb (tags_coherent_b after)) "tags_incoherent" [])).

(* ---------- corr:sql-text ---------- *)
Definition jv_of_tok (t : tok) : jv :=
  match t with
  | TWord s => JArr [jstr "w"; JStr s] | TNum s => JArr [jstr "n"; JStr s] | TStr s => JArr [jstr "s"; JStr s]
  | TBlob s => JArr [jstr "b"; JStr s] | TSym s => JArr [jstr "y"; JStr s]
  end.
Definition jv_of_toks (l : list tok) : jv := JArr (map jv_of_tok l).
Definition jv_of_split (x : list tok * list (list tok) * list tok) : jv :=
  let '(h, gs, t) := x in jobj [("head", jv_of_toks h); ("groups", JArr (map jv_of_toks gs)); ("tail", jv_of_toks t)].
Definition filters_of_jv (v : jv) : list filter := map filter_of_jv (as_arr v).
(* {filters, default_limit, max_limit} *)
Definition build_jv (v : jv) : jv :=
  let q := build_query (as_int (jfield "default_limit" v)) (as_int (jfield "max_limit" v)) (filters_of_jv (jfield "filters" v)) in
  let toks := query_toks q in
  jobj [("split", jv_of_split (select_head, query_groups q, select_tail (q_limit q)));
        ("text", JStr (render toks)); ("py_text", JStr (py_render toks));
        ("relex", match lex (render toks) with Some l => JBool (list_eqb tok_eqb l toks) | None => JBool false end)].
Definition lex_jv (v : jv) : jv :=
  match lex (as_str v) with
  | Some l => jv_of_split (split_query [] l)
  | None => JNull
  end.
(* {text, words : code points for which Python's \w holds} *)
Definition sapre_jv (v : jv) : jv :=
  let ws := map (fun x => Z.to_N (as_int x)) (as_arr (jfield "words" v)) in
  match sa_text_pre (fun c => mem_N c ws) (as_str (jfield "text" v)) with
  | Some s => JStr s
  | None => JNull
  end.

(* ---------- corr:sql-answer ---------- *)
(* {db, filters, default_limit, max_limit} -> ordered answer ids, and all matching rows (id, created_at) *)
Definition req_jv (v : jv) : jv :=
  let d := db_of_jv (jfield "db" v) in
  let q := build_query (as_int (jfield "default_limit" v)) (as_int (jfield "max_limit" v)) (filters_of_jv (jfield "filters" v)) in
  jobj [("answer", JArr (map (fun r => JBytes (r_id r)) (answer d q)));
        ("matching", JArr (map (fun r => JArr [JBytes (r_id r); JInt (r_created r)]) (sort_desc (matching d (q_where q)))));
        ("limit", JInt (q_limit q))].

(* {store : dump, answer : [row...] as served, filters, max_limit (configured), import_max_limit} -> violated classifiers *)
Definition has_nul (s : pystr) : bool := existsb (N.eqb 0) s.
Definition filter_has_nul (f : filter) : bool :=
  existsb (fun nv => has_nul (fst nv) || existsb has_nul (snd nv)) (f_tags f).
Definition no_conditions (f : filter) : bool :=
  match evaluate_filter f with Some [] => true | _ => false end.
Definition oracle_req (v : jv) : jv :=
  let store := stored (db_of_jv (jfield "store" v)) in
  let ans := map (fun x => event_of_row (row_of_jv x)) (as_arr (jfield "answer" v)) in
  let fs := filters_of_jv (jfield "filters" v) in
  let ml := as_int (jfield "max_limit" v) in
  let c02 := match fs with
             | [f] => c02_ok_single ml store ans f
             | _ => c02_ok_multi ml store ans fs
             end in
  let qlim := query_limit ml (as_int (jfield "import_max_limit" v)) fs in
  let c02cls := if existsb filter_has_nul fs then "sql_value_contains_nul"
                else if existsb no_conditions fs then "sql_filter_without_conditions"
                else if Nat.ltb 1 (length fs) && (Z.of_nat (length ans) =? qlim) then "sql_multi_filter_limit"
                else "sql_incomplete" in
  let c12 := match fs with
             | [f] => c12_ok_single ml store ans f
             | _ => true
             end in
  let multi_limit := match fs with
                     | [_] => false
                     | _ => negb (forallb (fun f => Z.of_nat (length (List.filter (may_match f) ans)) <=? eff_limit ml f) fs)
                     end in
  JArr (add_if (negb (c01_ok store ans fs)) "sql_returns_nonmatching"
       (add_if (negb c02) c02cls
       (add_if (negb c12) "sql_limit_not_newest"
       (add_if multi_limit "sql_multi_filter_limit" [])))).

Definition suites : list (string * (jv -> jv)) :=
  [("sqlm.history", run_history_jv); ("sqlm.oracle_write", oracle_write); ("sqlm.oracle_gc", oracle_gc);
   ("sqlm.build", build_jv); ("sqlm.lex", lex_jv); ("sqlm.sapre", sapre_jv);
   ("sqlm.req", req_jv); ("sqlm.oracle_req", oracle_req)].
Definition dispatch := dispatch_in suites.
