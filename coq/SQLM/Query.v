(* SQLM - Subscription.evaluate_filter / build_query of nostr_relay/storage/db.py as a
   small abstract syntax: one clause (conjunction of conditions) per filter, OR-ed, plus
   the LIMIT the code computes.  Text.v prints this syntax to the SQL text, Where.v gives
   it its meaning over the relational state.  Executable; no proofs in this file. *)
From NR Require Import Lib.Base Lib.Nip01.
Open Scope list_scope. Open Scope Z_scope.

Inductive cond :=
| CIdLike (p : pystr)                    (* lower(hex(id)) LIKE '<p>%'                                   *)
| CIdIn (ids : list pystr)               (* events.id IN (x'..', ...)                                    *)
| CAuthors (hs : list pystr)             (* (pubkey IN (x'..',..) OR id IN (SELECT id FROM tags WHERE
                                             name = 'delegation' AND value IN ('..',..)))                 *)
| CKindIn (ks : list Z)                  (* kind IN (k, ...)                                             *)
| CSince (z : Z)                         (* created_at >= z                                              *)
| CUntil (z : Z)                         (* created_at < z                                               *)
| CTag (name : pystr) (vals : list pystr). (* id IN (SELECT id FROM tags WHERE name = '..' AND value IN (..)) *)

Definition len_is (n : nat) (s : pystr) : bool := Nat.eqb (length s) n.
Definition is_nil {A} (l : list A) : bool := match l with [] => true | _ => false end.

(* ids: 64 digits -> exact blob match; longer than 2 -> prefix LIKE (validation only lets >= 64 through) *)
Definition ids_conds (ids : list pystr) : list cond :=
  let likes := map CIdLike (List.filter (fun s => negb (len_is 64 s) && Nat.ltb 2 (length s)) ids) in
  let exact := List.filter (len_is 64) ids in
  likes ++ (if is_nil exact then [] else [CIdIn exact]).

Definition opt_conds {A} (o : option A) (f : A -> option (list cond)) : option (list cond) :=
  match o with None => Some [] | Some a => f a end.

(* evaluate_filter: None = ValueError *)
Definition tags_conds (tags : list (pystr * list pystr)) : option (list cond) :=
  fold_right (fun nv acc =>
                match acc with
                | None => None
                | Some l => if is_nil (snd nv) then None else Some (CTag (fst nv) (snd nv) :: l)
                end) (Some []) tags.

Definition evaluate_filter (f : filter) : option (list cond) :=
  match opt_conds (f_ids f) (fun ids => if is_nil ids then None else Some (ids_conds ids)) with
  | None => None
  | Some c1 =>
  match opt_conds (f_authors f) (fun a =>
          let exact := dedup_str (List.filter (len_is 64) a) in
          if is_nil exact then None else Some [CAuthors exact]) with
  | None => None
  | Some c2 =>
  match opt_conds (f_kinds f) (fun ks => if is_nil ks then None else Some [CKindIn ks]) with
  | None => None
  | Some c3 =>
  let c4 := match f_since f with Some s => [CSince s] | None => [] end in
  let c5 := match f_until f with Some u => [CUntil u] | None => [] end in
  match tags_conds (f_tags f) with
  | None => None
  | Some c6 => Some (c1 ++ c2 ++ c3 ++ c4 ++ c5 ++ c6)
  end end end end.

(* one clause per filter; [] is rendered as the word false *)
Definition clause := list cond.
Definition clause_of (f : filter) : clause := match evaluate_filter f with Some c => c | None => [] end.

(* build_query's limit: every filter whose limit is not None overrides what came before
   (a filter that raised ValueError is replaced by NostrQuery(), whose limit is max_limit) *)
Definition filter_limit (max_limit : Z) (f : filter) : option Z :=
  match evaluate_filter f with None => Some max_limit | Some _ => f_limit f end.
Definition query_limit (default_limit max_limit : Z) (fs : list filter) : Z :=
  fold_left (fun acc f => match filter_limit max_limit f with
                          | Some l => Z.min l default_limit
                          | None => acc end) fs default_limit.

Record query := { q_where : list clause; q_limit : Z }.
Definition build_query (default_limit max_limit : Z) (fs : list filter) : query :=
  {| q_where := map clause_of fs; q_limit := query_limit default_limit max_limit fs |}.
