(* C08, SQL half: only an event's author can delete it (NIP-09). *)
From NR Require Import Lib.Base Lib.BaseFacts Lib.Nip01 SQLM.Rel SQLM.Write SQLM.Query SQLM.Where SQLM.Req SQLM.Spec SQLM.Examples
     SQLM.Proofs_Hex SQLM.Proofs_Rel SQLM.Proofs_Write SQLM.Proofs_Props SQLM.Proofs_Where.
Open Scope list_scope. Open Scope Z_scope.

Section C08.
  Variables (now : Z) (h : list wevent) (e : wevent) (r0 : row).
  Let d := run_history now h.
  Let res := add_event None now true true d e.
  Hypothesis Hrow : row_of_event (event_init now e) = Some r0.
  Hypothesis Hkind : r_kind r0 = 5.
  Let e0 := event_of_row r0.

  (* frame: whatever the deletion references (own, foreign, unknown, malformed, repeated ids) and whatever
     its outcome, a stored event that disappears has the deletion's author and is referenced by it
     (may_delete: kind 5, same author, an e tag whose value decodes to the event's id) *)
  Theorem sql_delete_frame :
    forall x, In x (stored d) -> in_store x (stored (ar_db res)) = false -> may_delete e0 x = true.
  Proof.
    intros x Hx Hg. pose proof (c08_frame_holds now d e (history_Inv now h) r0 Hrow Hkind) as H.
    unfold c08_frame in H. rewrite forallb_forall in H. specialize (H x Hx). fold e0 in H.
    unfold res, d in *. rewrite Hg in H. exact H.
  Qed.
  (* effectiveness: an accepted deletion removes every own referenced event (older or not: R7) *)
  Theorem sql_delete_effective : ar_out res = inl true ->
    forall x, In x (stored d) -> may_delete e0 x = true -> in_store x (stored (ar_db res)) = false.
  Proof.
    intros Hout x Hx Hm. unfold stored in Hx. apply in_map_iff in Hx. destruct Hx as [rx [<- Hrx]].
    apply (delete_effective now d e (history_Inv now h) r0 Hrow Hout rx Hrx Hm).
  Qed.
  (* a removed event is gone from every access path: no REQ, whatever its filters, serves it,
     and its tag rows are gone with it (TagsCoherent of the new state) *)
  Theorem sql_deleted_unreachable :
    forall rx, In rx (d_events d) -> in_store (event_of_row rx) (stored (ar_db res)) = false ->
    (forall dl ml fs, ~ In rx (req dl ml (ar_db res) fs)) /\ TagsCoherent (ar_db res).
  Proof.
    intros rx Hrx Hg. split.
    - intros dl ml fs C. apply sql_answer_subset in C.
      assert (E : in_store (event_of_row rx) (stored (ar_db res)) = true).
      { unfold in_store, stored. apply existsb_exists. exists (event_of_row rx). split; [apply in_map; exact C | apply str_eqb_refl]. }
      congruence.
    - apply (Inv_after now d e (history_Inv now h)).
  Qed.
End C08.

(* non-vacuity: author aa deletes its own event 01 (also referenced: the foreign 02, an unknown id, a
   malformed id, a bare e tag and 01 again in upper case); only 01 goes, the deletion 09 is stored *)
Example c08_only_own :
  ids_of (run_history now0
     [mkev "01" "aa" 10 1 []; mkev "02" "bb" 10 1 []; mkev "03" "aa" 30 1 [];
      {| w_id := hex64 "09"; w_pubkey := hex64 "aa"; w_created := 20; w_kind := 5;
         w_tags := [[pys "e"; hex64 "01"]; [pys "e"; hex64 "02"]; [pys "e"; hex64 "77"]; [pys "e"; pys "zz"]; [pys "e"];
                    [pys "e"; hex64 "01"]];
         w_content := []; w_sig := hex128 "00" |}])
  = [pys "02"; pys "03"; pys "09"].
Proof. vm_compute. reflexivity. Qed.
