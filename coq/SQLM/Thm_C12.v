(* C12, SQL half: a limit returns the newest matching events, never more than allowed. *)
From NR Require Import Lib.Base Lib.BaseFacts Lib.Nip01 SQLM.Rel SQLM.Write SQLM.Query SQLM.Where SQLM.Req SQLM.Spec SQLM.Examples
     SQLM.Proofs_Rel SQLM.Proofs_Write SQLM.Proofs_Where.
From Coq Require Import Sorting.Permutation.
Open Scope list_scope. Open Scope Z_scope.

(* ORDER BY created_at DESC LIMIT n: at most n rows, all of them matching, none of the left-out matching rows
   newer than a returned one, and nothing left out when at most n rows match - for every store and query *)
Theorem sql_limit_newest : forall d q, 0 <= q_limit q ->
  Z.of_nat (length (answer d q)) <= q_limit q /\
  (forall r, In r (answer d q) -> In r (matching d (q_where q))) /\
  (forall x y, In x (matching d (q_where q)) -> ~ In x (answer d q) -> In y (answer d q) -> r_created x <= r_created y) /\
  (Z.of_nat (length (matching d (q_where q))) <= q_limit q -> Permutation (answer d q) (matching d (q_where q))).
Proof.
  intros d q H. split; [apply limit_length; exact H|]. split; [apply limit_subset; exact H|].
  split; [apply limit_newest; exact H | apply limit_complete; exact H].
Qed.
(* which n the code computes.  Single-filter REQ: min(limit, configured maximum), limit 0 included *)
Theorem sql_limit_value_single : forall dl ml f, evaluate_filter f <> None ->
  query_limit dl ml [f] = match f_limit f with Some l => Z.min l dl | None => dl end.
Proof. exact limit_value_sql. Qed.
Corollary sql_limit_single_is_eff : forall dl ml f l, evaluate_filter f <> None -> f_limit f = Some l ->
  query_limit dl ml [f] = eff_limit dl f.
Proof. intros dl ml f l H E. rewrite (limit_value_sql dl ml f H). unfold eff_limit. rewrite E. reflexivity. Qed.
(* F16 (open): with several filters the LAST filter's limit bounds the whole statement *)
Theorem sql_limit_value_last : forall dl ml fs f, evaluate_filter f <> None ->
  query_limit dl ml (fs ++ [f]) = match f_limit f with Some l => Z.min l dl | None => query_limit dl ml fs end.
Proof. exact limit_value_last. Qed.

(* full statement for several filters: each filter is served at most its own effective limit *)
Definition per_filter_limit_ok (dl ml : Z) (d : db) (fs : list filter) : bool :=
  forallb (fun f => Z.of_nat (length (List.filter (fun r => may_match f (event_of_row r)) (req_exec dl ml d fs))) <=? eff_limit dl f) fs.
(* refuted by the faithful model (finding sql_multi_filter_limit): REQ [{kinds:[1], limit:1}, {kinds:[7]}]
   over two kind-1 events serves both for the first filter *)
Theorem sql_multi_filter_limit_refuted : exists dl ml d fs, per_filter_limit_ok dl ml d fs = false.
Proof.
  exists 5, 5, (run_history now0 [mkev "01" "aa" 10 1 []; mkev "02" "aa" 11 1 []]),
         [f_kinds_lim [1] (Some 1); f_kinds_lim [7] (Some 5)].
  vm_compute. reflexivity.
Qed.
(* and, the other way round, a later small limit truncates an earlier filter that is under its own limit (C02) *)
Example c12_last_limit_truncates :
  let d := run_history now0 [mkev "01" "aa" 10 1 []; mkev "02" "aa" 11 1 []] in
  length (req_exec 5 5 d [f_kinds_lim [1] (Some 5); f_kinds_lim [7] (Some 1)]) = 1%nat.
Proof. vm_compute. reflexivity. Qed.
(* non-vacuity: limit 0 returns nothing, limit 1 the newest, a limit above the maximum is capped *)
Example c12_limits :
  let d := run_history now0 [mkev "01" "aa" 10 1 []; mkev "02" "aa" 30 1 []; mkev "03" "aa" 20 1 []] in
  let ans := fun l => map (fun r => firstn 2 (hex_of_bytes (r_id r))) (req_exec 2 6000 d [f_kinds_lim [1] l]) in
  ans (Some 0) = [] /\ ans (Some 1) = [pys "02"] /\ ans (Some 100) = [pys "02"; pys "03"] /\ ans None = [pys "02"; pys "03"].
Proof. vm_compute. repeat split; reflexivity. Qed.
