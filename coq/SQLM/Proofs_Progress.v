(* SQLM - C06 (c), SQL half: the transaction of a well-formed (admitted) event never raises. *)
From NR Require Import Lib.Base Lib.BaseFacts Lib.Nip01
     SQLM.Rel SQLM.Write SQLM.Spec SQLM.Proofs_Hex SQLM.Proofs_Rel SQLM.Proofs_Write.
From Coq Require Import ZifyBool.
Open Scope list_scope. Open Scope Z_scope.

Lemma lower_hex_fromhex_len : forall n s, (length s <= n)%nat -> is_lower_hex s = true -> Nat.even (length s) = true ->
  exists b, py_fromhex s = Some b.
Proof.
  induction n as [|n IH]; intros s Hlen Hl He.
  - destruct s; [exists []; reflexivity | simpl in Hlen; lia].
  - destruct s as [|a [|c r]]; [exists []; reflexivity | discriminate |].
    unfold is_lower_hex in Hl. cbn [forallb] in Hl. apply andb_true_iff in Hl. destruct Hl as [Ha Hl].
    apply andb_true_iff in Hl. destruct Hl as [Hc Hr].
    destruct (lower_hex_hexval a Ha) as [x Ex]. destruct (lower_hex_hexval c Hc) as [y Ey].
    destruct (IH r) as [b Eb]; [simpl in Hlen; lia | exact Hr | exact He|].
    exists ((x * 16 + y)%N :: b). cbn [py_fromhex]. rewrite (lower_hex_not_space a Ha), Ex, Ey, Eb. reflexivity.
Qed.
Lemma wf_hex_fromhex n s : wf_hex n s = true -> Nat.even n = true -> exists b, py_fromhex s = Some b.
Proof.
  unfold wf_hex. intros H He. apply andb_true_iff in H. destruct H as [Hl Hn]. apply Nat.eqb_eq in Hn.
  apply (lower_hex_fromhex_len (length s)); [lia | exact Hl | rewrite Hn; exact He].
Qed.

Section Progress.
  Variable e : wevent.
  Hypothesis Hwf : wf_wevent e = true.

  Lemma wf_parts : wf_hex 64 (w_id e) = true /\ wf_hex 64 (w_pubkey e) = true /\ wf_hex 128 (w_sig e) = true /\
                   int64_ok (w_created e) = true /\ int64_ok (w_kind e) = true /\ no_empty_tag (w_tags e) = true.
  Proof.
    pose proof Hwf as H. unfold wf_wevent in H.
    apply andb_true_iff in H. destruct H as [H H6]. apply andb_true_iff in H. destruct H as [H H5].
    apply andb_true_iff in H. destruct H as [H H4]. apply andb_true_iff in H. destruct H as [H H3].
    apply andb_true_iff in H. destruct H as [H1 H2]. repeat split; assumption.
  Qed.

  Lemma wf_row : exists r0, row_of_event e = Some r0.
  Proof.
    destruct wf_parts as [H1 [H2 [H3 _]]].
    destruct (wf_hex_fromhex _ _ H1 eq_refl) as [i Ei]. destruct (wf_hex_fromhex _ _ H2 eq_refl) as [p Ep].
    destruct (wf_hex_fromhex _ _ H3 eq_refl) as [s Es]. unfold row_of_event. rewrite Ei, Ep, Es. eexists; reflexivity.
  Qed.

  Lemma process_tags_progress r0 d : row_of_event e = Some r0 -> PK d -> Coh (Some (r_id r0)) d -> In r0 (d_events d) ->
    exists d', eval d (process_tags r0) = inl (d', true).
  Proof.
    intros Er Hpk Hcoh Hin. destruct wf_parts as [_ [_ [_ [_ [_ Hne]]]]].
    rewrite <- (row_of_event_tags e r0 Er) in Hne. destruct (tag_pairs_some _ Hne) as [pairs Ep].
    destruct (insert_own_tags r0 d pairs Ep Hcoh Hpk Hin) as [d1 [E1 _]].
    unfold process_tags. destruct (r_tags r0) as [|t0 tr] eqn:Et; [eexists; reflexivity|]. rewrite <- Et in *. rewrite Ep.
    assert (Hafter : forall after, exists dd, eval d (match dedup_pairs pairs with
                                         | [] => after
                                         | p :: l => PExec (SInsertTags (map (fun p => mktrow (r_id r0) (fst p) (snd p)) (p :: l))) (fun _ => after)
                                         end) = eval dd after).
    { intros after. destruct (dedup_pairs pairs) as [|p l] eqn:Ed; [exists d; reflexivity|].
      exists d1. rewrite eval_exec. cbn [exec]. rewrite E1. reflexivity. }
    destruct (Hafter (if r_kind r0 =? kind_DELETE then delete_refs (r_pubkey r0) (r_tags r0) (PDone true) else PDone true)) as [dd Edd].
    rewrite Edd. destruct (r_kind r0 =? kind_DELETE); [rewrite eval_delete_refs|]; eexists; reflexivity.
  Qed.

  Lemma insert_and_post_progress d : Inv d -> exists d' c, eval d (insert_and_post e) = inl (d', c).
  Proof.
    intros [Hpk [Hcoh Hrows]]. destruct wf_row as [r0 Er]. destruct wf_parts as [_ [_ [_ [Hc [Hk _]]]]].
    destruct (row_of_event_fields e r0 Er) as [_ [_ [Fk [Fc _]]]].
    unfold insert_and_post. rewrite Er. rewrite eval_exec. cbn [exec]. rewrite Fk, Fc, Hk, Hc. cbn [andb].
    destruct (has_id (r_id r0) (d_events d)) eqn:Eh.
    - rewrite (insert_event_dup r0 d Eh). eexists. eexists. reflexivity.
    - rewrite (insert_event_fresh r0 d Eh). cbn [count_of]. simpl (Nat.eqb 1 1). cbv iota.
      set (d1 := mkdb (d_events d ++ [r0]) (d_tags d)).
      assert (Hpk1 : PK d1) by (apply insert_PK; assumption).
      assert (Hcoh1 : Coh (Some (r_id r0)) d1) by (apply insert_Coh; assumption).
      assert (Hin1 : In r0 (d_events d1)) by (simpl; apply in_or_app; right; left; reflexivity).
      unfold post_save. destruct ((r_kind r0 =? kind_SET_METADATA) || (r_kind r0 =? kind_CONTACTS)).
      + rewrite eval_exec. cbn [exec]. rewrite Fk, Fc, Hk, Hc. cbn [andb].
        destruct (delete_where (older_pred (r_pubkey r0) (w_kind e) (w_created e)) d1) as [d2 n2] eqn:Ed.
        assert (Ed2 : d2 = fst (delete_where (older_pred (r_pubkey r0) (w_kind e) (w_created e)) d1)) by (rewrite Ed; reflexivity).
        destruct (process_tags_progress r0 d2 Er) as [d3 E3].
        * rewrite Ed2. apply delete_PK. exact Hpk1.
        * rewrite Ed2. apply delete_Coh; assumption.
        * rewrite Ed2. apply delete_events. split; [exact Hin1|]. unfold older_pred. rewrite <- Fc, Z.ltb_irrefl, andb_false_r. reflexivity.
        * eexists. eexists. exact E3.
      + destruct (process_tags_progress r0 d1 Er Hpk1 Hcoh1 Hin1) as [d3 E3]. eexists. eexists. exact E3.
  Qed.

  Theorem txn_progress d : Inv d -> exists d' c, eval d (txn_body e) = inl (d', c).
  Proof.
    intros Hinv. unfold txn_body, pre_save_then.
    destruct (is_repl_py (w_kind e) || is_param_py (w_kind e)); [|apply insert_and_post_progress; exact Hinv].
    destruct wf_parts as [H1 [H2 [_ [Hc [Hk Hne]]]]].
    destruct (wf_hex_fromhex _ _ H1 eq_refl) as [i Ei]. destruct (wf_hex_fromhex _ _ H2 eq_refl) as [pk Ep].
    rewrite Ei. rewrite eval_exec. cbn [exec rows_of].
    destruct (List.filter (fun r => bytes_eqb (r_id r) i) (d_events d)); [|eexists; eexists; reflexivity].
    rewrite Ep. rewrite eval_exec. cbn [exec rows_of]. rewrite Hk, Hc. cbn [andb].
    destruct Hinv as [Hpk [Hcoh Hrows]].
    assert (Hk2 : forall q, exists d' c, eval d (delete_then (map r_id (List.filter q (d_events d))) (insert_and_post e)) = inl (d', c)).
    { intros q. rewrite (eval_delete_then q d _ Hpk). apply insert_and_post_progress. apply delete_Inv. split; [|split]; assumption. }
    destruct (is_param_py (w_kind e)).
    - rewrite (first_d_py_total _ Hne).
      rewrite same_d_ids_spec by (intros r Hr; apply filter_In in Hr; destruct (Hrows r (proj1 Hr)) as [_ [_ [_ Hn]]]; exact Hn).
      cbn [rows_of]. rewrite filter_filter. apply Hk2.
    - apply Hk2.
  Qed.
End Progress.

(* C06 (c): a well-formed event that passes validators and authorisation and is not yet stored is accepted *)
Theorem wf_event_accepted : forall now d e r0, Inv d -> wf_wevent (event_init now e) = true ->
  row_of_event (event_init now e) = Some r0 -> has_id (r_id r0) (d_events d) = false ->
  ar_out (add_event None now true true d e) = inl true.
Proof.
  intros now d e r0 Hinv Hwf Er Hfresh.
  pose proof (add_event_eval None now true true d e eq_refl eq_refl eq_refl) as A. simpl in A.
  destruct (txn_progress (event_init now e) Hwf d Hinv) as [d' [c E]]. rewrite E in A. destruct A as [_ A]. rewrite A.
  destruct (txn_spec d _ d' c Hinv E) as [_ [[-> [_ [i [Ei Hh]]]] | [-> _]]]; [|reflexivity].
  exfalso. destruct (row_of_event_fields _ _ Er) as [Fi _]. rewrite Ei in Fi. inversion Fi. subst i. congruence.
Qed.
