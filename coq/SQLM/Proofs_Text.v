(* SQLM - facts about the SQL text: the lexer reads back what `render` prints (for all
   well-formed token lists), the tokens printed for a query are well-formed, and their
   structure depends only on the shape of the filters. *)
From NR Require Import Lib.Base Lib.BaseFacts Lib.Nip01 SQLM.Query SQLM.Text.
From Coq Require Import ZifyBool.
Open Scope list_scope.

(* ---------- well-formed tokens ---------- *)
Definition sym_list : list pystr :=
  map pys ["("; ")"; ","; "="; "<"; ">"; ">="; "<="; "<>"; "."; "-"; "*"; "||"]%string.
Definition no_nul (s : pystr) : bool := negb (existsb (N.eqb 0) s).
Definition wf_tok (t : tok) : bool :=
  match t with
  | TWord s => head_is is_id_start s && forallb is_id_char s
  | TNum s => negb (is_nil s) && forallb is_digit s
  | TStr s => no_nul s
  | TBlob s => forallb is_hex_char s && Nat.even (length s)
  | TSym s => mem_str s sym_list
  end.
Definition wf_toks (l : list tok) : bool := forallb wf_tok l.

(* ---------- the quoting lemma ---------- *)
Lemma lex_string_quote : forall v rest,
  head_is (N.eqb c_quote) rest = false ->
  lex_string (sql_quote v ++ c_quote :: rest) = Some (v, rest).
Proof.
  induction v as [|c v IH]; intros rest Hr.
  - destruct rest as [|c2 r2]; [reflexivity|]. unfold head_is in Hr.
    change (lex_string (c_quote :: c2 :: r2) = Some ([], c2 :: r2)).
    unfold lex_string. rewrite N.eqb_refl. rewrite N.eqb_sym, Hr. reflexivity.
  - simpl. destruct (N.eqb c c_quote) eqn:E.
    + apply N.eqb_eq in E. subst c. simpl. rewrite (IH rest Hr). reflexivity.
    + simpl. rewrite E. rewrite (IH rest Hr). reflexivity.
Qed.

Lemma span_app (p : cp -> bool) : forall w rest,
  forallb p w = true -> head_is p rest = false -> span p (w ++ rest) = (w, rest).
Proof.
  induction w as [|c w IH]; intros rest Hw Hr; simpl.
  - destruct rest as [|c r]; [reflexivity|]. simpl in Hr. simpl. rewrite Hr. reflexivity.
  - simpl in Hw. apply andb_true_iff in Hw. destruct Hw as [Hc Hw]. rewrite Hc, (IH rest Hw Hr). reflexivity.
Qed.

(* one unfolding of the lexer *)
Lemma lex_fuel_S f c r : lex_fuel (S f) (c :: r) =
      if is_ws c then lex_fuel f r
      else if N.eqb c c_quote then
        match lex_string r with
        | Some (v, rest) => cons_opt (TStr v) (lex_fuel f rest)
        | None => None
        end
      else if ((N.eqb c 120) || (N.eqb c 88)) && head_is (N.eqb c_quote) r then
        let '(h, rest) := span is_hex_char (tl r) in
        if head_is (N.eqb c_quote) rest && Nat.even (length h)
        then cons_opt (TBlob h) (lex_fuel f (tl rest)) else None
      else if is_digit c then
        let '(ds, rest) := span is_digit (c :: r) in
        if head_is (fun x => is_id_char x || (N.eqb x 46)) rest then None
        else cons_opt (TNum ds) (lex_fuel f rest)
      else if is_id_start c then
        let '(w, rest) := span is_id_char (c :: r) in cons_opt (TWord w) (lex_fuel f rest)
      else if (N.eqb c 45) && head_is (N.eqb 45) r then lex_fuel f (skip_line r)
      else if (N.eqb c 47) && head_is (N.eqb 42) r then lex_fuel f (skip_block (tl r))
      else if (N.eqb c 46) && head_is is_digit r then None
      else match r with
           | c2 :: r2 => if sym2 c c2 then cons_opt (TSym [c; c2]) (lex_fuel f r2)
                         else if sym1 c then cons_opt (TSym [c]) (lex_fuel f r) else None
           | [] => if sym1 c then Some [TSym [c]] else None
           end.
Proof. reflexivity. Qed.

Lemma lex_fuel_space f r : lex_fuel (S f) (c_space :: r) = lex_fuel f r.
Proof. reflexivity. Qed.

Ltac cc := unfold is_id_char, is_id_start, is_alpha, is_hex_char, hexval, is_ws, is_digit, c_quote, c_space in *; lia.

Lemma hex_char_range c : is_hex_char c = true -> (48 <= c)%N.
Proof.
  unfold is_hex_char, hexval.
  destruct (N.leb 48 c && N.leb c 57) eqn:E1; [lia|].
  destruct (N.leb 97 c && N.leb c 102) eqn:E2; [lia|].
  destruct (N.leb 65 c && N.leb c 70) eqn:E3; [lia|]. discriminate.
Qed.
Lemma hex_char_not_quote : is_hex_char c_quote = false.
Proof. reflexivity. Qed.

Lemma lex_sym1 c f rest :
  is_ws c = false -> N.eqb c c_quote = false -> (N.eqb c 120 || N.eqb c 88) = false -> is_digit c = false ->
  is_id_start c = false -> sym1 c = true -> sym2 c c_space = false ->
  lex_fuel (S (S f)) (c :: c_space :: rest) = cons_opt (TSym [c]) (lex_fuel f rest).
Proof.
  intros H1 H2 H3 H4 H5 H6 H7. rewrite lex_fuel_S. rewrite H1, H2, H3, H4, H5.
  cbn [andb head_is]. change (N.eqb 45 c_space) with false. change (N.eqb 42 c_space) with false.
  change (is_digit c_space) with false. rewrite !andb_false_r. rewrite H7, H6. rewrite lex_fuel_space. reflexivity.
Qed.
Lemma lex_sym2 a b f rest :
  is_ws a = false -> N.eqb a c_quote = false -> (N.eqb a 120 || N.eqb a 88) = false -> is_digit a = false ->
  is_id_start a = false -> sym2 a b = true ->
  (N.eqb a 45 && N.eqb 45 b) = false -> (N.eqb a 47 && N.eqb 42 b) = false -> (N.eqb a 46 && is_digit b) = false ->
  lex_fuel (S (S f)) (a :: b :: c_space :: rest) = cons_opt (TSym [a; b]) (lex_fuel f rest).
Proof.
  intros H1 H2 H3 H4 H5 H6 H7 H8 H9. rewrite lex_fuel_S. rewrite H1, H2, H3, H4, H5.
  cbn [andb head_is]. rewrite H7, H8, H9, H6. rewrite lex_fuel_space. reflexivity.
Qed.

(* each token, followed by the separating space, is read back *)
Lemma lex_tok_step : forall t f rest,
  wf_tok t = true ->
  lex_fuel (S (S f)) (render_tok t ++ c_space :: rest) = cons_opt t (lex_fuel f rest).
Proof.
  intros t f rest Hwf. destruct t as [s|s|s|s|s]; unfold wf_tok in Hwf.
  - (* word *)
    apply andb_true_iff in Hwf. destruct Hwf as [Hh Hall].
    destruct s as [|c s']; [discriminate|]. simpl in Hh. simpl render_tok.
    change ((c :: s') ++ c_space :: rest) with (c :: (s' ++ c_space :: rest)).
    rewrite lex_fuel_S.
    assert (Hws : is_ws c = false) by cc. rewrite Hws.
    assert (Hq : N.eqb c c_quote = false) by cc. rewrite Hq.
    assert (Hx : head_is (N.eqb c_quote) (s' ++ c_space :: rest) = false).
    { destruct s' as [|c2 s2]; [reflexivity|].
      assert (H2 : is_id_char c2 = true) by (rewrite forallb_forall in Hall; apply Hall; simpl; auto).
      change (N.eqb c_quote c2 = false). cc. }
    rewrite Hx, andb_false_r.
    assert (Hd : is_digit c = false) by cc. rewrite Hd, Hh.
    change (c :: s' ++ c_space :: rest) with ((c :: s') ++ c_space :: rest).
    rewrite (span_app is_id_char (c :: s') (c_space :: rest) Hall eq_refl).
    rewrite lex_fuel_space. reflexivity.
  - (* number *)
    apply andb_true_iff in Hwf. destruct Hwf as [Hne Hall].
    destruct s as [|c s']; [discriminate|]. simpl render_tok.
    change ((c :: s') ++ c_space :: rest) with (c :: (s' ++ c_space :: rest)).
    rewrite lex_fuel_S.
    assert (Hc : is_digit c = true) by (rewrite forallb_forall in Hall; apply Hall; simpl; auto).
    assert (Hws : is_ws c = false) by cc. rewrite Hws.
    assert (Hq : N.eqb c c_quote = false) by cc. rewrite Hq.
    assert (Hx : (N.eqb c 120 || N.eqb c 88) = false) by cc. rewrite Hx. simpl andb. rewrite Hc.
    change (c :: s' ++ c_space :: rest) with ((c :: s') ++ c_space :: rest).
    rewrite (span_app is_digit (c :: s') (c_space :: rest) Hall eq_refl).
    simpl head_is. cbv beta.
    replace (is_id_char c_space || N.eqb c_space 46) with false by reflexivity.
    rewrite lex_fuel_space. reflexivity.
  - (* string *)
    change (render_tok (TStr s) ++ c_space :: rest) with (c_quote :: ((sql_quote s ++ [c_quote]) ++ c_space :: rest)).
    rewrite <- app_assoc. simpl app.
    rewrite lex_fuel_S. change (is_ws c_quote) with false. cbv iota. rewrite N.eqb_refl.
    rewrite (lex_string_quote s (c_space :: rest) eq_refl). rewrite lex_fuel_space. reflexivity.
  - (* blob *)
    apply andb_true_iff in Hwf. destruct Hwf as [Hall Hev].
    change (render_tok (TBlob s) ++ c_space :: rest) with (120%N :: c_quote :: ((s ++ [c_quote]) ++ c_space :: rest)).
    rewrite <- app_assoc. simpl app.
    rewrite lex_fuel_S. change (is_ws 120%N) with false. change (N.eqb 120%N c_quote) with false.
    change (N.eqb 120 120 || N.eqb 120 88)%N with true. cbv iota.
    change (head_is (N.eqb c_quote) (c_quote :: s ++ c_quote :: c_space :: rest)) with (N.eqb c_quote c_quote).
    rewrite N.eqb_refl. cbv iota. simpl andb. cbv iota. simpl tl.
    rewrite (span_app is_hex_char s (c_quote :: c_space :: rest) Hall eq_refl).
    change (head_is (N.eqb c_quote) (c_quote :: c_space :: rest)) with true. rewrite Hev. simpl andb. cbv iota.
    simpl tl. rewrite lex_fuel_space. reflexivity.
  - (* symbol: by enumeration *)
    apply mem_str_In in Hwf. unfold sym_list in Hwf. simpl in Hwf.
    repeat (destruct Hwf as [Hwf|Hwf]; [subst s; first [ apply lex_sym1; reflexivity | apply lex_sym2; reflexivity ] |]).
    contradiction.
Qed.

Lemma render_cons t l : render (t :: l) = render_tok t ++ c_space :: render l.
Proof. unfold render. simpl. rewrite <- app_assoc. reflexivity. Qed.

Lemma render_tok_nonempty t : wf_tok t = true -> (1 <= length (render_tok t))%nat.
Proof.
  destruct t as [s|s|s|s|s]; unfold wf_tok; intros H; try (simpl; lia).
  - destruct s; [discriminate | simpl; lia].
  - destruct s; [discriminate | simpl; lia].
  - apply mem_str_In in H. unfold sym_list in H. simpl in H.
    repeat (destruct H as [H|H]; [subst s; simpl; lia |]). contradiction.
Qed.

Lemma lex_fuel_render : forall toks f,
  wf_toks toks = true -> (length (render toks) <= f)%nat -> lex_fuel f (render toks) = Some toks.
Proof.
  induction toks as [|t toks IH]; intros f Hwf Hlen.
  - destruct f; reflexivity.
  - simpl in Hwf. apply andb_true_iff in Hwf. destruct Hwf as [Ht Hts].
    rewrite render_cons in *. rewrite app_length in Hlen. simpl in Hlen.
    pose proof (render_tok_nonempty t Ht) as Hne.
    destruct f as [|[|f]]; try lia.
    rewrite (lex_tok_step t f (render toks) Ht).
    rewrite (IH f Hts) by lia. reflexivity.
Qed.

Lemma existsb_app {A} (p : A -> bool) l1 l2 : existsb p (l1 ++ l2) = existsb p l1 || existsb p l2.
Proof. induction l1; simpl; [reflexivity|]. rewrite IHl1, orb_assoc. reflexivity. Qed.

Lemma forallb_no_nul (p : cp -> bool) s :
  (forall c, p c = true -> N.eqb 0 c = false) -> forallb p s = true -> existsb (N.eqb 0) s = false.
Proof.
  intros Hp. induction s as [|c s IH]; cbn [existsb forallb]; [reflexivity|]. intros H.
  apply andb_true_iff in H. destruct H as [Hc Hs]. rewrite (Hp c Hc), (IH Hs). reflexivity.
Qed.

Lemma sql_quote_no_nul s : existsb (N.eqb 0) (sql_quote s) = existsb (N.eqb 0) s.
Proof.
  induction s as [|c s IH]; [reflexivity|].
  change (sql_quote (c :: s)) with ((if N.eqb c c_quote then [c_quote; c_quote] else [c]) ++ sql_quote s).
  rewrite existsb_app, IH. cbn [existsb].
  destruct (N.eqb c c_quote) eqn:E.
  - apply N.eqb_eq in E. subst c. reflexivity.
  - cbn [existsb]. rewrite orb_false_r. reflexivity.
Qed.

Lemma render_tok_no_nul t : wf_tok t = true -> existsb (N.eqb 0) (render_tok t) = false.
Proof.
  destruct t as [s|s|s|s|s]; unfold wf_tok; intros H; simpl render_tok.
  - apply andb_true_iff in H. destruct H as [_ H]. revert H. apply forallb_no_nul. intros c Hc. cc.
  - apply andb_true_iff in H. destruct H as [_ H]. revert H. apply forallb_no_nul. intros c Hc. cc.
  - cbn [existsb]. rewrite existsb_app, sql_quote_no_nul. unfold no_nul in H. apply negb_true_iff in H. rewrite H. reflexivity.
  - apply andb_true_iff in H. destruct H as [H _]. cbn [existsb]. rewrite existsb_app.
    rewrite (forallb_no_nul is_hex_char s); [reflexivity | | exact H]. intros c Hc. apply hex_char_range in Hc. lia.
  - apply mem_str_In in H. unfold sym_list in H. simpl in H.
    repeat (destruct H as [H|H]; [subst s; reflexivity |]). contradiction.
Qed.

Lemma render_no_nul toks : wf_toks toks = true -> existsb (N.eqb 0) (render toks) = false.
Proof.
  induction toks as [|t toks IH]; intros H; [reflexivity|].
  simpl in H. apply andb_true_iff in H. destruct H as [Ht Hts].
  rewrite render_cons, existsb_app. simpl. rewrite (render_tok_no_nul t Ht), (IH Hts). reflexivity.
Qed.

(* C01: the lexer reads back exactly the tokens that were printed *)
Theorem sql_lex_roundtrip : forall toks, wf_toks toks = true -> lex (render toks) = Some toks.
Proof.
  intros toks H. unfold lex. rewrite (render_no_nul toks H). apply lex_fuel_render; [exact H | lia].
Qed.
