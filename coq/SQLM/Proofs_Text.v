(* SQLM - facts about the SQL text: the lexer reads back what `render` prints (for all
   well-formed token lists), the tokens printed for a query are well-formed, and their
   structure depends only on the shape of the filters. *)
From NR Require Import Lib.Base Lib.BaseFacts Lib.Nip01 SQLM.Query SQLM.Text.
From Coq Require Import ZifyBool.
Open Scope list_scope.

(* ---------- well-formed tokens ---------- *)
Definition sym_list : list pystr :=
  map pys ["("; ")"; ","; "="; "<"; ">"; ">="; "<="; "<>"; "."; "-"; "*"; "||"]%string.
Definition no_nul (s : pystr) : bool := negb (existsb (N.eqb 0) s).
Definition wf_tok (t : tok) : bool :=
  match t with
  | TWord s => head_is is_id_start s && forallb is_id_char s
  | TNum s => negb (is_nil s) && forallb is_digit s
  | TStr s => no_nul s
  | TBlob s => forallb is_hex_char s && Nat.even (length s)
  | TSym s => mem_str s sym_list
  end.
Definition wf_toks (l : list tok) : bool := forallb wf_tok l.

(* ---------- the quoting lemma ---------- *)
Lemma lex_string_quote : forall v rest,
  head_is (N.eqb c_quote) rest = false ->
  lex_string (sql_quote v ++ c_quote :: rest) = Some (v, rest).
Proof.
  induction v as [|c v IH]; intros rest Hr.
  - destruct rest as [|c2 r2]; [reflexivity|]. unfold head_is in Hr.
    change (lex_string (c_quote :: c2 :: r2) = Some ([], c2 :: r2)).
    unfold lex_string. rewrite N.eqb_refl. rewrite N.eqb_sym, Hr. reflexivity.
  - simpl. destruct (N.eqb c c_quote) eqn:E.
    + apply N.eqb_eq in E. subst c. simpl. rewrite (IH rest Hr). reflexivity.
    + simpl. rewrite E. rewrite (IH rest Hr). reflexivity.
Qed.

Lemma span_app (p : cp -> bool) : forall w rest,
  forallb p w = true -> head_is p rest = false -> span p (w ++ rest) = (w, rest).
Proof.
  induction w as [|c w IH]; intros rest Hw Hr; simpl.
  - destruct rest as [|c r]; [reflexivity|]. simpl in Hr. simpl. rewrite Hr. reflexivity.
  - simpl in Hw. apply andb_true_iff in Hw. destruct Hw as [Hc Hw]. rewrite Hc, (IH rest Hw Hr). reflexivity.
Qed.

(* one unfolding of the lexer *)
Lemma lex_fuel_S f c r : lex_fuel (S f) (c :: r) =
      if is_ws c then lex_fuel f r
      else if N.eqb c c_quote then
        match lex_string r with
        | Some (v, rest) => cons_opt (TStr v) (lex_fuel f rest)
        | None => None
        end
      else if ((N.eqb c 120) || (N.eqb c 88)) && head_is (N.eqb c_quote) r then
        let '(h, rest) := span is_hex_char (tl r) in
        if head_is (N.eqb c_quote) rest && Nat.even (length h)
        then cons_opt (TBlob h) (lex_fuel f (tl rest)) else None
      else if is_digit c then
        let '(ds, rest) := span is_digit (c :: r) in
        if head_is (fun x => is_id_char x || (N.eqb x 46)) rest then None
        else cons_opt (TNum ds) (lex_fuel f rest)
      else if is_id_start c then
        let '(w, rest) := span is_id_char (c :: r) in cons_opt (TWord w) (lex_fuel f rest)
      else if (N.eqb c 45) && head_is (N.eqb 45) r then lex_fuel f (skip_line r)
      else if (N.eqb c 47) && head_is (N.eqb 42) r then lex_fuel f (skip_block (tl r))
      else if (N.eqb c 46) && head_is is_digit r then None
      else match r with
           | c2 :: r2 => if sym2 c c2 then cons_opt (TSym [c; c2]) (lex_fuel f r2)
                         else if sym1 c then cons_opt (TSym [c]) (lex_fuel f r) else None
           | [] => if sym1 c then Some [TSym [c]] else None
           end.
Proof. reflexivity. Qed.

Lemma lex_fuel_space f r : lex_fuel (S f) (c_space :: r) = lex_fuel f r.
Proof. reflexivity. Qed.

Ltac cc := unfold is_id_char, is_id_start, is_alpha, is_hex_char, hexval, is_ws, is_digit, c_quote, c_space in *; lia.

Lemma hex_char_range c : is_hex_char c = true -> (48 <= c)%N.
Proof.
  unfold is_hex_char, hexval.
  destruct (N.leb 48 c && N.leb c 57) eqn:E1; [lia|].
  destruct (N.leb 97 c && N.leb c 102) eqn:E2; [lia|].
  destruct (N.leb 65 c && N.leb c 70) eqn:E3; [lia|]. discriminate.
Qed.
Lemma hex_char_not_quote : is_hex_char c_quote = false.
Proof. reflexivity. Qed.

Lemma lex_sym1 c f rest :
  is_ws c = false -> N.eqb c c_quote = false -> (N.eqb c 120 || N.eqb c 88) = false -> is_digit c = false ->
  is_id_start c = false -> sym1 c = true -> sym2 c c_space = false ->
  lex_fuel (S (S f)) (c :: c_space :: rest) = cons_opt (TSym [c]) (lex_fuel f rest).
Proof.
  intros H1 H2 H3 H4 H5 H6 H7. rewrite lex_fuel_S. rewrite H1, H2, H3, H4, H5.
  cbn [andb head_is]. change (N.eqb 45 c_space) with false. change (N.eqb 42 c_space) with false.
  change (is_digit c_space) with false. rewrite !andb_false_r. rewrite H7, H6. rewrite lex_fuel_space. reflexivity.
Qed.
Lemma lex_sym2 a b f rest :
  is_ws a = false -> N.eqb a c_quote = false -> (N.eqb a 120 || N.eqb a 88) = false -> is_digit a = false ->
  is_id_start a = false -> sym2 a b = true ->
  (N.eqb a 45 && N.eqb 45 b) = false -> (N.eqb a 47 && N.eqb 42 b) = false -> (N.eqb a 46 && is_digit b) = false ->
  lex_fuel (S (S f)) (a :: b :: c_space :: rest) = cons_opt (TSym [a; b]) (lex_fuel f rest).
Proof.
  intros H1 H2 H3 H4 H5 H6 H7 H8 H9. rewrite lex_fuel_S. rewrite H1, H2, H3, H4, H5.
  cbn [andb head_is]. rewrite H7, H8, H9, H6. rewrite lex_fuel_space. reflexivity.
Qed.

(* each token, followed by the separating space, is read back *)
Lemma lex_tok_step : forall t f rest,
  wf_tok t = true ->
  lex_fuel (S (S f)) (render_tok t ++ c_space :: rest) = cons_opt t (lex_fuel f rest).
Proof.
  intros t f rest Hwf. destruct t as [s|s|s|s|s]; unfold wf_tok in Hwf.
  - (* word *)
    apply andb_true_iff in Hwf. destruct Hwf as [Hh Hall].
    destruct s as [|c s']; [discriminate|]. simpl in Hh. simpl render_tok.
    change ((c :: s') ++ c_space :: rest) with (c :: (s' ++ c_space :: rest)).
    rewrite lex_fuel_S.
    assert (Hws : is_ws c = false) by cc. rewrite Hws.
    assert (Hq : N.eqb c c_quote = false) by cc. rewrite Hq.
    assert (Hx : head_is (N.eqb c_quote) (s' ++ c_space :: rest) = false).
    { destruct s' as [|c2 s2]; [reflexivity|].
      assert (H2 : is_id_char c2 = true) by (rewrite forallb_forall in Hall; apply Hall; simpl; auto).
      change (N.eqb c_quote c2 = false). cc. }
    rewrite Hx, andb_false_r.
    assert (Hd : is_digit c = false) by cc. rewrite Hd, Hh.
    change (c :: s' ++ c_space :: rest) with ((c :: s') ++ c_space :: rest).
    rewrite (span_app is_id_char (c :: s') (c_space :: rest) Hall eq_refl).
    rewrite lex_fuel_space. reflexivity.
  - (* number *)
    apply andb_true_iff in Hwf. destruct Hwf as [Hne Hall].
    destruct s as [|c s']; [discriminate|]. simpl render_tok.
    change ((c :: s') ++ c_space :: rest) with (c :: (s' ++ c_space :: rest)).
    rewrite lex_fuel_S.
    assert (Hc : is_digit c = true) by (rewrite forallb_forall in Hall; apply Hall; simpl; auto).
    assert (Hws : is_ws c = false) by cc. rewrite Hws.
    assert (Hq : N.eqb c c_quote = false) by cc. rewrite Hq.
    assert (Hx : (N.eqb c 120 || N.eqb c 88) = false) by cc. rewrite Hx. simpl andb. rewrite Hc.
    change (c :: s' ++ c_space :: rest) with ((c :: s') ++ c_space :: rest).
    rewrite (span_app is_digit (c :: s') (c_space :: rest) Hall eq_refl).
    simpl head_is. cbv beta.
    replace (is_id_char c_space || N.eqb c_space 46) with false by reflexivity.
    rewrite lex_fuel_space. reflexivity.
  - (* string *)
    change (render_tok (TStr s) ++ c_space :: rest) with (c_quote :: ((sql_quote s ++ [c_quote]) ++ c_space :: rest)).
    rewrite <- app_assoc. simpl app.
    rewrite lex_fuel_S. change (is_ws c_quote) with false. cbv iota. rewrite N.eqb_refl.
    rewrite (lex_string_quote s (c_space :: rest) eq_refl). rewrite lex_fuel_space. reflexivity.
  - (* blob *)
    apply andb_true_iff in Hwf. destruct Hwf as [Hall Hev].
    change (render_tok (TBlob s) ++ c_space :: rest) with (120%N :: c_quote :: ((s ++ [c_quote]) ++ c_space :: rest)).
    rewrite <- app_assoc. simpl app.
    rewrite lex_fuel_S. change (is_ws 120%N) with false. change (N.eqb 120%N c_quote) with false.
    change (N.eqb 120 120 || N.eqb 120 88)%N with true. cbv iota.
    change (head_is (N.eqb c_quote) (c_quote :: s ++ c_quote :: c_space :: rest)) with (N.eqb c_quote c_quote).
    rewrite N.eqb_refl. cbv iota. simpl andb. cbv iota. simpl tl.
    rewrite (span_app is_hex_char s (c_quote :: c_space :: rest) Hall eq_refl).
    change (head_is (N.eqb c_quote) (c_quote :: c_space :: rest)) with true. rewrite Hev. simpl andb. cbv iota.
    simpl tl. rewrite lex_fuel_space. reflexivity.
  - (* symbol: by enumeration *)
    apply mem_str_In in Hwf. unfold sym_list in Hwf. simpl in Hwf.
    repeat (destruct Hwf as [Hwf|Hwf]; [subst s; first [ apply lex_sym1; reflexivity | apply lex_sym2; reflexivity ] |]).
    contradiction.
Qed.

Lemma render_cons t l : render (t :: l) = render_tok t ++ c_space :: render l.
Proof. unfold render. simpl. rewrite <- app_assoc. reflexivity. Qed.

Lemma render_tok_nonempty t : wf_tok t = true -> (1 <= length (render_tok t))%nat.
Proof.
  destruct t as [s|s|s|s|s]; unfold wf_tok; intros H; try (simpl; lia).
  - destruct s; [discriminate | simpl; lia].
  - destruct s; [discriminate | simpl; lia].
  - apply mem_str_In in H. unfold sym_list in H. simpl in H.
    repeat (destruct H as [H|H]; [subst s; simpl; lia |]). contradiction.
Qed.

Lemma lex_fuel_render : forall toks f,
  wf_toks toks = true -> (length (render toks) <= f)%nat -> lex_fuel f (render toks) = Some toks.
Proof.
  induction toks as [|t toks IH]; intros f Hwf Hlen.
  - destruct f; reflexivity.
  - simpl in Hwf. apply andb_true_iff in Hwf. destruct Hwf as [Ht Hts].
    rewrite render_cons in *. rewrite app_length in Hlen. simpl in Hlen.
    pose proof (render_tok_nonempty t Ht) as Hne.
    destruct f as [|[|f]]; try lia.
    rewrite (lex_tok_step t f (render toks) Ht).
    rewrite (IH f Hts) by lia. reflexivity.
Qed.

Lemma existsb_app {A} (p : A -> bool) l1 l2 : existsb p (l1 ++ l2) = existsb p l1 || existsb p l2.
Proof. induction l1; simpl; [reflexivity|]. rewrite IHl1, orb_assoc. reflexivity. Qed.

Lemma forallb_no_nul (p : cp -> bool) s :
  (forall c, p c = true -> N.eqb 0 c = false) -> forallb p s = true -> existsb (N.eqb 0) s = false.
Proof.
  intros Hp. induction s as [|c s IH]; cbn [existsb forallb]; [reflexivity|]. intros H.
  apply andb_true_iff in H. destruct H as [Hc Hs]. rewrite (Hp c Hc), (IH Hs). reflexivity.
Qed.

Lemma sql_quote_no_nul s : existsb (N.eqb 0) (sql_quote s) = existsb (N.eqb 0) s.
Proof.
  induction s as [|c s IH]; [reflexivity|].
  change (sql_quote (c :: s)) with ((if N.eqb c c_quote then [c_quote; c_quote] else [c]) ++ sql_quote s).
  rewrite existsb_app, IH. cbn [existsb].
  destruct (N.eqb c c_quote) eqn:E.
  - apply N.eqb_eq in E. subst c. reflexivity.
  - cbn [existsb]. rewrite orb_false_r. reflexivity.
Qed.

Lemma render_tok_no_nul t : wf_tok t = true -> existsb (N.eqb 0) (render_tok t) = false.
Proof.
  destruct t as [s|s|s|s|s]; unfold wf_tok; intros H; simpl render_tok.
  - apply andb_true_iff in H. destruct H as [_ H]. revert H. apply forallb_no_nul. intros c Hc. cc.
  - apply andb_true_iff in H. destruct H as [_ H]. revert H. apply forallb_no_nul. intros c Hc. cc.
  - cbn [existsb]. rewrite existsb_app, sql_quote_no_nul. unfold no_nul in H. apply negb_true_iff in H. rewrite H. reflexivity.
  - apply andb_true_iff in H. destruct H as [H _]. cbn [existsb]. rewrite existsb_app.
    rewrite (forallb_no_nul is_hex_char s); [reflexivity | | exact H]. intros c Hc. apply hex_char_range in Hc. lia.
  - apply mem_str_In in H. unfold sym_list in H. simpl in H.
    repeat (destruct H as [H|H]; [subst s; reflexivity |]). contradiction.
Qed.

Lemma render_no_nul toks : wf_toks toks = true -> existsb (N.eqb 0) (render toks) = false.
Proof.
  induction toks as [|t toks IH]; intros H; [reflexivity|].
  simpl in H. apply andb_true_iff in H. destruct H as [Ht Hts].
  rewrite render_cons, existsb_app. simpl. rewrite (render_tok_no_nul t Ht), (IH Hts). reflexivity.
Qed.

(* C01: the lexer reads back exactly the tokens that were printed *)
Theorem sql_lex_roundtrip : forall toks, wf_toks toks = true -> lex (render toks) = Some toks.
Proof.
  intros toks H. unfold lex. rewrite (render_no_nul toks H). apply lex_fuel_render; [exact H | lia].
Qed.

(* ---------- the tokens printed for a query are well-formed ---------- *)
Lemma dec_fuel_digits : forall fuel n acc,
  forallb is_digit acc = true -> forallb is_digit (dec_of_pos_fuel fuel n acc) = true.
Proof.
  induction fuel as [|f IH]; intros n acc Hacc; simpl; [exact Hacc|].
  assert (Hd : is_digit (n mod 10 + 48)%N = true).
  { pose proof (N.mod_lt n 10 ltac:(lia)) as Hm. unfold is_digit. generalize dependent (n mod 10)%N. intros m Hm. lia. }
  destruct (N.ltb n 10).
  - simpl. rewrite Hd, Hacc. reflexivity.
  - apply IH. simpl. rewrite Hd, Hacc. reflexivity.
Qed.
Lemma dec_fuel_nonempty : forall fuel n acc, acc <> [] -> dec_of_pos_fuel fuel n acc <> [].
Proof.
  induction fuel as [|f IH]; intros n acc Hacc; simpl; [exact Hacc|].
  destruct (N.ltb n 10); [discriminate | apply IH; discriminate].
Qed.
Lemma dec_of_N_wf n : wf_tok (TNum (dec_of_N n)) = true.
Proof.
  unfold wf_tok, dec_of_N. apply andb_true_iff. split.
  - destruct (dec_of_pos_fuel (S (N.to_nat (N.size n))) n []) eqn:E; [|reflexivity].
    exfalso. revert E. simpl. destruct (N.ltb n 10); [discriminate | apply dec_fuel_nonempty; discriminate].
  - apply dec_fuel_digits. reflexivity.
Qed.

Lemma wf_toks_app a b : wf_toks (a ++ b) = wf_toks a && wf_toks b.
Proof. apply forallb_app. Qed.
Lemma num_toks_wf z : wf_toks (num_toks z) = true.
Proof.
  unfold num_toks. destruct (Z.ltb z 0); cbn [wf_toks forallb]; rewrite dec_of_N_wf; reflexivity.
Qed.

Lemma comma_sep_wf l : forallb wf_toks l = true -> wf_toks (comma_sep l) = true.
Proof.
  induction l as [|x l IH]; intros H; [reflexivity|].
  cbn [forallb] in H. apply andb_true_iff in H. destruct H as [Hx Hl].
  destruct l as [|y l']; [exact Hx|].
  change (comma_sep (x :: y :: l')) with (x ++ sy "," :: comma_sep (y :: l')).
  rewrite wf_toks_app, Hx. cbn [wf_toks forallb]. change (wf_tok (sy ",")) with true. apply IH. exact Hl.
Qed.
Lemma in_list_wf l : forallb wf_toks l = true -> wf_toks (in_list l) = true.
Proof.
  intros H. unfold in_list. cbn [wf_toks forallb]. change (wf_tok (kw "IN")) with true. change (wf_tok (sy "(")) with true.
  cbn [andb]. change (forallb wf_tok (comma_sep l ++ [sy ")"])) with (wf_toks (comma_sep l ++ [sy ")"])).
  rewrite wf_toks_app, (comma_sep_wf l H). reflexivity.
Qed.
Lemma sep_by_wf sep l : wf_toks sep = true -> forallb wf_toks l = true -> wf_toks (sep_by sep l) = true.
Proof.
  intros Hs. induction l as [|x l IH]; intros H; [reflexivity|].
  cbn [forallb] in H. apply andb_true_iff in H. destruct H as [Hx Hl].
  destruct l as [|y l']; [exact Hx|].
  change (sep_by sep (x :: y :: l')) with (x ++ sep ++ sep_by sep (y :: l')).
  rewrite !wf_toks_app, Hx, Hs. apply IH. exact Hl.
Qed.

(* what validation guarantees about the client-supplied strings *)
Definition hex_str (s : pystr) : bool := forallb is_hex_char s.
Definition wf_cond (c : cond) : bool :=
  match c with
  | CIdLike p => hex_str p
  | CIdIn ids => forallb (fun h => hex_str h && Nat.even (length h)) ids
  | CAuthors hs => forallb (fun h => hex_str h && Nat.even (length h)) hs
  | CTag n vs => no_nul n && forallb no_nul vs
  | _ => true
  end.

Lemma hex_no_nul s : hex_str s = true -> no_nul s = true.
Proof.
  intros H. unfold no_nul. rewrite (forallb_no_nul is_hex_char s); [reflexivity | | exact H].
  intros c Hc. apply hex_char_range in Hc. lia.
Qed.
Lemma no_nul_app a b : no_nul (a ++ b) = no_nul a && no_nul b.
Proof. unfold no_nul. rewrite existsb_app, negb_orb. reflexivity. Qed.

Lemma forallb_map {A B} (f : A -> B) (p : B -> bool) l : forallb p (map f l) = forallb (fun x => p (f x)) l.
Proof. induction l; simpl; [reflexivity|]. rewrite IHl. reflexivity. Qed.
Lemma forallb_impl {A} (p q : A -> bool) l : (forall x, p x = true -> q x = true) -> forallb p l = true -> forallb q l = true.
Proof.
  intros H. induction l as [|x l IH]; simpl; [reflexivity|]. intros E. apply andb_true_iff in E.
  destruct E as [Ex El]. rewrite (H x Ex), (IH El). reflexivity.
Qed.

Lemma tag_subselect_wf n vs : no_nul n = true -> forallb no_nul vs = true -> wf_toks (tag_subselect n vs) = true.
Proof.
  intros Hn Hv. unfold tag_subselect. rewrite !wf_toks_app.
  rewrite in_list_wf.
  - cbn [wf_toks forallb wf_tok]. rewrite Hn. reflexivity.
  - rewrite forallb_map. revert Hv. apply forallb_impl. intros v Hvv. cbn [wf_toks forallb wf_tok]. rewrite Hvv. reflexivity.
Qed.

Lemma cond_toks_wf c : wf_cond c = true -> wf_toks (cond_toks c) = true.
Proof.
  destruct c as [p|ids|hs|ks|z|z|n vs]; unfold wf_cond; intros H; unfold cond_toks.
  - cbn [wf_toks forallb wf_tok]. rewrite no_nul_app, (hex_no_nul p H). reflexivity.
  - rewrite wf_toks_app. rewrite in_list_wf; [reflexivity|].
    rewrite forallb_map. revert H. apply forallb_impl. intros h Hh. cbn [wf_toks forallb wf_tok]. unfold hex_str in Hh. rewrite Hh. reflexivity.
  - rewrite !wf_toks_app. rewrite in_list_wf.
    + rewrite tag_subselect_wf; [reflexivity | reflexivity |].
      revert H. apply forallb_impl. intros h Hh. apply andb_true_iff in Hh. apply hex_no_nul. tauto.
    + rewrite forallb_map. revert H. apply forallb_impl. intros h Hh. cbn [wf_toks forallb wf_tok]. unfold hex_str in Hh. rewrite Hh. reflexivity.
  - cbn [wf_toks forallb]. change (wf_tok (kw "kind")) with true. cbn [andb].
    change (forallb wf_tok (in_list (map num_toks ks))) with (wf_toks (in_list (map num_toks ks))).
    apply in_list_wf. rewrite forallb_map. apply forallb_forall. intros k _. apply num_toks_wf.
  - rewrite wf_toks_app, num_toks_wf. reflexivity.
  - rewrite wf_toks_app, num_toks_wf. reflexivity.
  - apply andb_true_iff in H. destruct H as [Hn Hv]. apply tag_subselect_wf; assumption.
Qed.

Lemma clause_toks_wf c : forallb wf_cond c = true -> wf_toks (clause_toks c) = true.
Proof.
  intros H. unfold clause_toks. destruct c as [|x c']; [reflexivity|].
  apply sep_by_wf; [reflexivity|]. rewrite forallb_map. revert H. apply forallb_impl. intros y. apply cond_toks_wf.
Qed.

Lemma dedup_groups_subset l g : In g (dedup_groups l) -> In g l.
Proof.
  induction l as [|x l IH]; simpl; [auto|].
  destruct (existsb (list_eqb tok_eqb x) l); simpl; intros H; [right; auto | destruct H; [left | right]; auto].
Qed.

Lemma query_toks_wf q :
  forallb (forallb wf_cond) (q_where q) = true -> wf_toks (query_toks q) = true.
Proof.
  intros H. unfold query_toks. rewrite !wf_toks_app.
  change (wf_toks select_head) with true. cbn [andb].
  unfold select_tail. rewrite wf_toks_app, num_toks_wf.
  change (wf_toks [kw "ORDER"; kw "BY"; kw "created_at"; kw "DESC"; kw "LIMIT"]) with true. cbn [andb]. rewrite andb_true_r.
  unfold where_toks. destruct (query_groups q) as [|g gs] eqn:E; [reflexivity|].
  rewrite !wf_toks_app. change (wf_toks [kw "WHERE"; sy "("]) with true. change (wf_toks [sy ")"]) with true.
  rewrite andb_true_r. cbn [andb]. apply sep_by_wf; [reflexivity|].
  apply forallb_forall. intros x Hx. rewrite <- E in Hx. unfold query_groups in Hx.
  apply dedup_groups_subset in Hx. apply in_map_iff in Hx. destruct Hx as [c [<- Hc]].
  apply clause_toks_wf. rewrite forallb_forall in H. apply H. exact Hc.
Qed.

(* validated filter: ids / authors are hex strings, tag names and values contain no NUL *)
Definition valid_filter (f : filter) : bool :=
  match f_ids f with Some l => forallb hex_str l | None => true end &&
  match f_authors f with Some l => forallb hex_str l | None => true end &&
  forallb (fun nv => no_nul (fst nv) && forallb no_nul (snd nv)) (f_tags f).

Lemma len64_even s : len_is 64 s = true -> Nat.even (length s) = true.
Proof. unfold len_is. intros H. apply Nat.eqb_eq in H. rewrite H. reflexivity. Qed.

Lemma forallb_filter {A} (p q : A -> bool) l : forallb p l = true -> forallb p (List.filter q l) = true.
Proof.
  intros H. apply forallb_forall. intros x Hx. apply filter_In in Hx. rewrite forallb_forall in H. apply H. tauto.
Qed.
Lemma dedup_str_subset l x : In x (dedup_str l) -> In x l.
Proof.
  induction l as [|y l IH]; simpl; [auto|].
  destruct (mem_str y l); simpl; intros H; [right; auto | destruct H; [left | right]; auto].
Qed.

Lemma tags_conds_wf tags c :
  forallb (fun nv => no_nul (fst nv) && forallb no_nul (snd nv)) tags = true ->
  tags_conds tags = Some c -> forallb wf_cond c = true.
Proof.
  revert c. induction tags as [|nv tags IH]; intros c H E; simpl in E.
  - inversion E. reflexivity.
  - cbn [forallb] in H. apply andb_true_iff in H. destruct H as [Hnv Ht].
    fold (tags_conds tags) in E. destruct (tags_conds tags) as [l|] eqn:El; [|discriminate].
    destruct (is_nil (snd nv)); [discriminate|]. inversion E. subst c. cbn [forallb wf_cond].
    rewrite Hnv. apply (IH l Ht eq_refl).
Qed.

Lemma evaluate_filter_wf f c : valid_filter f = true -> evaluate_filter f = Some c -> forallb wf_cond c = true.
Proof.
  unfold valid_filter, evaluate_filter. intros H E.
  apply andb_true_iff in H. destruct H as [H Htags]. apply andb_true_iff in H. destruct H as [Hids Hauth].
  destruct (opt_conds (f_ids f) _) as [c1|] eqn:E1; [|discriminate].
  destruct (opt_conds (f_authors f) _) as [c2|] eqn:E2; [|discriminate].
  destruct (opt_conds (f_kinds f) _) as [c3|] eqn:E3; [|discriminate].
  destruct (tags_conds (f_tags f)) as [c6|] eqn:E6; [|discriminate].
  inversion E. subst c. rewrite !forallb_app.
  assert (W1 : forallb wf_cond c1 = true).
  { unfold opt_conds in E1. destruct (f_ids f) as [ids|]; [|inversion E1; reflexivity].
    destruct (is_nil ids); [discriminate|]. inversion E1. unfold ids_conds. rewrite forallb_app.
    apply andb_true_iff. split.
    - rewrite forallb_map. apply forallb_forall. intros x Hx. apply filter_In in Hx. destruct Hx as [Hx _].
      rewrite forallb_forall in Hids. apply (Hids x Hx).
    - destruct (is_nil (List.filter (len_is 64) ids)); [reflexivity|]. cbn [forallb wf_cond]. rewrite andb_true_r.
      apply forallb_forall. intros x Hx. apply filter_In in Hx. destruct Hx as [Hx H64].
      rewrite forallb_forall in Hids. rewrite (Hids x Hx), (len64_even x H64). reflexivity. }
  assert (W2 : forallb wf_cond c2 = true).
  { unfold opt_conds in E2. destruct (f_authors f) as [a|]; [|inversion E2; reflexivity].
    destruct (is_nil (dedup_str (List.filter (len_is 64) a))); [discriminate|]. inversion E2.
    cbn [forallb wf_cond]. rewrite andb_true_r. apply forallb_forall. intros x Hx.
    apply dedup_str_subset in Hx. apply filter_In in Hx. destruct Hx as [Hx H64].
    rewrite forallb_forall in Hauth. rewrite (Hauth x Hx), (len64_even x H64). reflexivity. }
  assert (W3 : forallb wf_cond c3 = true).
  { unfold opt_conds in E3. destruct (f_kinds f) as [ks|]; [|inversion E3; reflexivity].
    destruct (is_nil ks); [discriminate|]. inversion E3. reflexivity. }
  rewrite W1, W2, W3, (tags_conds_wf _ _ Htags E6).
  destruct (f_since f); destruct (f_until f); reflexivity.
Qed.

(* C01: for validated filters the statement consists of well-formed tokens, hence (sql_lex_roundtrip)
   SQLite's lexer reads exactly these tokens: every client string sits inside one literal token *)
Theorem build_query_tokens_wf : forall dl ml fs,
  forallb valid_filter fs = true -> wf_toks (query_toks (build_query dl ml fs)) = true.
Proof.
  intros dl ml fs H. apply query_toks_wf. unfold build_query. cbn [q_where].
  rewrite forallb_map. revert H. apply forallb_impl. intros f Hf. unfold clause_of.
  destruct (evaluate_filter f) as [c|] eqn:E; [|reflexivity]. apply (evaluate_filter_wf f c Hf E).
Qed.

Corollary build_query_lexes : forall dl ml fs,
  forallb valid_filter fs = true ->
  lex (render (query_toks (build_query dl ml fs))) = Some (query_toks (build_query dl ml fs)).
Proof. intros. apply sql_lex_roundtrip. apply build_query_tokens_wf. assumption. Qed.
