(* SQLM - meaning of the REQ statement over the relational state: WHERE (c1) OR (c2) ...
   ORDER BY created_at DESC LIMIT n.  SQLite's evaluation of the parsed statement is
   modelled (trusted, pinned by corr:sql-answer).  Executable; no proofs in this file. *)
From NR Require Import Lib.Base Lib.Nip01 SQLM.Rel SQLM.Write SQLM.Query.
Open Scope list_scope. Open Scope Z_scope.

(* a blob literal x'<hex>' with an even number of hex digits; anything else cannot be lexed *)
Definition blob_of_hex (h : pystr) : bytes := match py_fromhex h with Some b => b | None => [] end.

(* id IN (SELECT id FROM tags WHERE name = n AND value IN (vs)) *)
Definition tag_subquery (tags : list trow) (i : bytes) (n : pystr) (vs : list pystr) : bool :=
  existsb (fun t => bytes_eqb (t_id t) i && str_eqb (t_name t) n && mem_str (t_value t) vs) tags.

Definition eval_cond (tags : list trow) (r : row) (c : cond) : bool :=
  match c with
  | CIdLike p => is_prefix p (hex_of_bytes (r_id r))          (* lower(hex(id)) LIKE 'p%', p lower-case hex *)
  | CIdIn ids => existsb (fun h => bytes_eqb (r_id r) (blob_of_hex h)) ids
  | CAuthors hs => existsb (fun h => bytes_eqb (r_pubkey r) (blob_of_hex h)) hs
                   || tag_subquery tags (r_id r) s_delegation hs
  | CKindIn ks => mem_Z (r_kind r) ks
  | CSince z => z <=? r_created r
  | CUntil z => r_created r <? z
  | CTag n vs => tag_subquery tags (r_id r) n vs
  end.
(* [] is the clause `false` *)
Definition eval_clause (tags : list trow) (r : row) (c : clause) : bool :=
  match c with [] => false | _ => forallb (eval_cond tags r) c end.
Definition eval_where (tags : list trow) (r : row) (w : list clause) : bool :=
  match w with [] => true | _ => existsb (eval_clause tags r) w end.

(* ORDER BY created_at DESC: stable insertion sort (order among equal timestamps is the
   engine's choice; answers are compared modulo it) *)
Fixpoint insert_desc (r : row) (l : list row) : list row :=
  match l with
  | [] => [r]
  | x :: rest => if r_created x <? r_created r then r :: l else x :: insert_desc r rest
  end.
Definition sort_desc (l : list row) : list row := fold_right insert_desc [] l.

(* LIMIT n: a negative n means no limit in SQLite *)
Definition sql_limit {A} (n : Z) (l : list A) : list A := if n <? 0 then l else firstn (Z.to_nat n) l.

Definition matching (d : db) (w : list clause) : list row :=
  List.filter (fun r => eval_where (d_tags d) r w) (d_events d).
Definition answer (d : db) (q : query) : list row :=
  sql_limit (q_limit q) (sort_desc (matching d (q_where q))).

(* the REQ path: Subscription.build_query then run_query *)
Definition req (default_limit max_limit : Z) (d : db) (fs : list filter) : list row :=
  answer d (build_query default_limit max_limit fs).
