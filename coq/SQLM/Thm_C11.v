(* C11, SQL half: the exact, store-independent answer predicate and its three corollaries
   (unrelated data, monotone in the filter, union over values). *)
From NR Require Import Lib.Base Lib.BaseFacts Lib.Nip01 SQLM.Rel SQLM.Write SQLM.Query SQLM.Text SQLM.Where SQLM.Req SQLM.Spec
     SQLM.Examples SQLM.Proofs_Text SQLM.Proofs_Rel SQLM.Proofs_Write SQLM.Proofs_Where SQLM.Proofs_Hist.
From Coq Require Import Sorting.Permutation.
Open Scope list_scope. Open Scope Z_scope.

(* P_sql f r: the WHERE clause of f evaluated on the row's OWN tag rows; must_match f -> P_sql f -> may_match f *)
Theorem sql_P_between : forall f r, row_ok r ->
  (wf_filter f -> has_conditions f -> must_match f (event_of_row r) = true -> P_sql f r = true) /\
  (validated f -> row32 r -> P_sql f r = true -> may_match f (event_of_row r) = true).
Proof. intros f r Hok. split; [intros; apply sql_complete; assumption | intros; apply sql_where_sound; assumption]. Qed.
(* answer_exact_sql: P_sql f is a predicate of the filter and the row alone, between must_match and may_match
   (sql_complete_thm, sql_where_sound), and the answer is exactly the newest n rows satisfying it *)
Theorem sql_answer_exact : forall now h dl ml f,
  req dl ml (run_history now h) [f] =
  sql_limit (query_limit dl ml [f]) (sort_desc (List.filter (P_sql f) (d_events (run_history now h)))).
Proof. intros. apply answer_exact_sql. apply history_Inv. Qed.
(* (1) events that do not may-match the filter never change the set of matching rows, however close they are *)
Theorem sql_unrelated_data : forall dl ml d d2 f extra, Inv d -> Inv d2 -> validated f ->
  (forall r, In r (d_events d2) <-> In r (d_events d) \/ In r extra) ->
  (forall r, In r extra -> row_ok r /\ row32 r /\ may_match f (event_of_row r) = false) ->
  forall r, In r (matching d2 (q_where (build_query dl ml [f]))) <-> In r (matching d (q_where (build_query dl ml [f]))).
Proof. exact unrelated_data. Qed.
(* (2) a filter whose clause implies another one's (one more condition: stronger_more_conditions; a narrower
   window: since_narrower / until_narrower with stronger_cond) matches a subset *)
Theorem sql_monotone : forall dl ml d f f', Inv d -> clause_stronger (clause_of f') (clause_of f) ->
  forall r, In r (matching d (q_where (build_query dl ml [f']))) -> In r (matching d (q_where (build_query dl ml [f]))).
Proof. exact monotone_filter. Qed.
Theorem sql_more_conditions_stronger : forall c extra, c <> [] -> clause_stronger (c ++ extra) c.
Proof. exact stronger_more_conditions. Qed.
Theorem sql_narrower_window_stronger : forall tags r pre post s s', s <= s' ->
  eval_clause tags r (pre ++ CSince s' :: post) = true -> eval_clause tags r (pre ++ CSince s :: post) = true.
Proof. intros tags r pre post s s' H. apply stronger_cond. apply since_narrower. exact H. Qed.
Theorem sql_narrower_until_stronger : forall tags r pre post u u', u' <= u ->
  eval_clause tags r (pre ++ CUntil u' :: post) = true -> eval_clause tags r (pre ++ CUntil u :: post) = true.
Proof. intros tags r pre post u u' H. apply stronger_cond. apply until_narrower. exact H. Qed.
(* (3) a multi-valued condition selects exactly the union of what its parts select (kinds, ids, authors, tag values) *)
Theorem sql_union_over_values : forall tags r pre post cab ca cb,
  eval_cond tags r cab = eval_cond tags r ca || eval_cond tags r cb ->
  eval_clause tags r (pre ++ cab :: post) = eval_clause tags r (pre ++ ca :: post) || eval_clause tags r (pre ++ cb :: post).
Proof. exact union_over_values. Qed.
Theorem sql_union_instances : forall tags r,
  (forall a b, eval_cond tags r (CKindIn (a ++ b)) = eval_cond tags r (CKindIn a) || eval_cond tags r (CKindIn b)) /\
  (forall a b, eval_cond tags r (CIdIn (a ++ b)) = eval_cond tags r (CIdIn a) || eval_cond tags r (CIdIn b)) /\
  (forall a b, eval_cond tags r (CAuthors (a ++ b)) = eval_cond tags r (CAuthors a) || eval_cond tags r (CAuthors b)) /\
  (forall n a b, eval_cond tags r (CTag n (a ++ b)) = eval_cond tags r (CTag n a) || eval_cond tags r (CTag n b)).
Proof.
  intros tags r. split; [intros; apply union_kinds|]. split; [intros; apply union_ids|].
  split; [intros; apply union_authors | intros; apply union_tag].
Qed.


(* non-vacuity: a neighbour whose tag value extends the requested one, with a timestamp outside the window, and a
   neighbouring kind do not change the answer; the narrower filter answers a subset *)
Example c11_neighbours :
  let base := [mkev "01" "aa" 20 1 [["t"; "ab"]]; mkev "02" "aa" 30 1 [["t"; "ab"]]] in
  let extra := [mkev "03" "aa" 5 1 [["t"; "abc"]]; mkev "04" "aa" 25 2 [["t"; "ab"]]; mkev "05" "aa" 25 1 [["t"; "a"]]] in
  let f := {| f_ids := None; f_authors := None; f_kinds := Some [1]; f_since := Some 10; f_until := None; f_limit := None;
              f_tags := [(pys "t", [pys "ab"])] |} in
  let f' := {| f_ids := None; f_authors := None; f_kinds := Some [1]; f_since := Some 25; f_until := None; f_limit := None;
               f_tags := [(pys "t", [pys "ab"])] |} in
  let ans := fun h g => map (fun r => firstn 2 (hex_of_bytes (r_id r))) (req_exec 100 100 (run_history now0 h) [g]) in
  ans base f = [pys "02"; pys "01"] /\ ans (base ++ extra) f = [pys "02"; pys "01"] /\ ans (base ++ extra) f' = [pys "02"].
Proof. vm_compute. repeat split; reflexivity. Qed.
