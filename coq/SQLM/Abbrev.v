(* SQLM - abbreviations used in the statements of Props/SQLM.v *)
From NR Require Import Lib.Base Lib.Nip01 SQLM.Rel SQLM.Write.
(* the store after the submission of e on top of history h, and what add_event returned *)
Definition after (now : Z) (h : list wevent) (e : wevent) : db := ar_db (add_event None now true true (run_history now h) e).
Definition outcome (now : Z) (h : list wevent) (e : wevent) : bool + pyerr := ar_out (add_event None now true true (run_history now h) e).
