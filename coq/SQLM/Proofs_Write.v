(* SQLM - the write path: what one transaction of add_event does to the store (exact
   characterisation), preservation of the invariants over all histories, atomicity under
   engine faults, and the statement trace. *)
From NR Require Import Lib.Base Lib.BaseFacts Lib.Nip01 Lib.PyRt Gen.Kinds
     SQLM.Rel SQLM.Write SQLM.Spec SQLM.Proofs_Hex SQLM.Proofs_Rel.
From Coq Require Import ZifyBool.
Open Scope list_scope. Open Scope Z_scope.

(* ---------- tie to the translated aionostr kind classes (Gen/Kinds.v) ---------- *)
Definition vev (e : wevent) : vevent :=
  {| ev_id := w_id e; ev_pubkey := w_pubkey e; ev_created_at := w_created e; ev_kind := w_kind e;
     ev_tags := w_tags e; ev_content := w_content e; ev_sig := w_sig e |}.
Lemma kinds_tie e :
  is_repl_py (w_kind e) = k_is_replaceable (vev e) /\ is_param_py (w_kind e) = k_is_paramaterized_replaceable (vev e) /\
  Write.kind_DELETE = Gen.Kinds.kind_DELETE /\ Write.kind_SET_METADATA = Gen.Kinds.kind_SET_METADATA /\
  Write.kind_CONTACTS = Gen.Kinds.kind_CONTACTS.
Proof. repeat split; reflexivity. Qed.

(* ---------- evaluation without faults ---------- *)
Definition eval (d : db) (p : prog) : (db * bool) + pyerr := snd (run None d p []).

Lemma run_snd_trace : forall p d tr, snd (run None d p tr) = snd (run None d p []).
Proof.
  induction p as [c|e|s k IH]; intros d tr; try reflexivity.
  cbn [run]. destruct (exec s d) as [[d' res]|x]; [|reflexivity]. rewrite IH. symmetry. apply IH.
Qed.
Lemma eval_exec s k d :
  eval d (PExec s k) = match exec s d with
                       | inr x => inr (err_of_engine x)
                       | inl (d', res) => eval d' (k res)
                       end.
Proof.
  unfold eval. cbn [run]. destruct (exec s d) as [[d' res]|x]; [|reflexivity]. apply run_snd_trace.
Qed.

(* ---------- NIP-09 deletes ---------- *)
Definition own_pred (pk i : bytes) (r : row) : bool := bytes_eqb (r_pubkey r) pk && bytes_eqb (r_id r) i.
Fixpoint apply_refs (pk : bytes) (tags : list (list pystr)) (d : db) : db :=
  match tags with
  | [] => d
  | t :: rest =>
      match t with
      | n :: v :: _ =>
          if str_eqb n s_e then
            match py_fromhex v with
            | Some i => apply_refs pk rest (fst (delete_where (own_pred pk i) d))
            | None => apply_refs pk rest d
            end
          else apply_refs pk rest d
      | _ => apply_refs pk rest d
      end
  end.
Lemma eval_delete_refs pk k : forall tags d, eval d (delete_refs pk tags k) = eval (apply_refs pk tags d) k.
Proof.
  induction tags as [|t rest IH]; intros d; [reflexivity|].
  destruct t as [|n [|v t']]; cbn [delete_refs apply_refs]; try apply IH.
  destruct (str_eqb n s_e); [|apply IH]. destruct (py_fromhex v) as [i|]; [|apply IH].
  rewrite eval_exec. unfold exec. fold (own_pred pk i).
  destruct (delete_where (own_pred pk i) d) as [d1 n1] eqn:E. rewrite IH. reflexivity.
Qed.

(* r is referenced by an e tag of `tags` *)
Definition ref_in (tags : list (list pystr)) (i : bytes) : bool :=
  existsb (fun t => match t with
                    | n :: v :: _ => str_eqb n s_e && match py_fromhex v with Some j => bytes_eqb i j | None => false end
                    | _ => false
                    end) tags.
Lemma apply_refs_events pk : forall tags d r,
  In r (d_events (apply_refs pk tags d)) <-> In r (d_events d) /\ (bytes_eqb (r_pubkey r) pk && ref_in tags (r_id r)) = false.
Proof.
  induction tags as [|t rest IH]; intros d r.
  - simpl. rewrite andb_false_r. tauto.
  - destruct t as [|n [|v t']]; cbn [apply_refs];
      try (rewrite IH; unfold ref_in; cbn [existsb orb]; reflexivity).
    destruct (str_eqb n s_e) eqn:En;
      [|rewrite IH; unfold ref_in; cbn [existsb]; rewrite En; cbn [andb orb]; reflexivity].
    destruct (py_fromhex v) as [i|] eqn:Ev;
      [|rewrite IH; unfold ref_in; cbn [existsb]; rewrite En, Ev; cbn [andb orb]; reflexivity].
    rewrite IH, delete_events. unfold ref_in. cbn [existsb]. rewrite En, Ev. unfold own_pred.
    fold (ref_in rest (r_id r)). cbn [andb].
    destruct (bytes_eqb (r_pubkey r) pk); destruct (bytes_eqb (r_id r) i); destruct (ref_in rest (r_id r)); simpl; tauto.
Qed.
Lemma apply_refs_Inv pk : forall tags d, Inv d -> Inv (apply_refs pk tags d).
Proof.
  induction tags as [|t rest IH]; intros d H; [exact H|].
  destruct t as [|n [|v t']]; cbn [apply_refs]; try (apply IH; exact H).
  destruct (str_eqb n s_e); [|apply IH; exact H]. destruct (py_fromhex v); [|apply IH; exact H].
  apply IH. apply delete_Inv. exact H.
Qed.

(* ---------- d values ---------- *)
Lemma first_d_py_value : forall tags v, first_d_py tags = Some v -> v = d_value tags.
Proof.
  induction tags as [|t rest IH]; intros v H; simpl in *; [inversion H; reflexivity|].
  destruct t as [|n r]; [discriminate|]. destruct (str_eqb n s_d); [inversion H; reflexivity | apply IH; exact H].
Qed.
Lemma first_d_py_total : forall tags, no_empty_tag tags = true -> first_d_py tags = Some (d_value tags).
Proof.
  induction tags as [|t rest IH]; intros H; [reflexivity|].
  simpl in H. destruct t as [|n r]; [discriminate|]. simpl in H. simpl.
  destruct (str_eqb n s_d); [reflexivity | apply IH; exact H].
Qed.
Lemma tag_pairs_some : forall tags, no_empty_tag tags = true -> exists l, tag_pairs tags = Some l.
Proof.
  induction tags as [|t rest IH]; intros H; [eexists; reflexivity|].
  simpl in H. destruct t as [|n r]; [discriminate|]. simpl in H. destruct (IH H) as [l El].
  simpl. rewrite El. eexists; reflexivity.
Qed.
Lemma tag_pairs_no_empty : forall tags l, tag_pairs tags = Some l -> no_empty_tag tags = true.
Proof.
  induction tags as [|t rest IH]; intros l H; [reflexivity|].
  simpl in H. destruct t as [|n r]; [discriminate|]. destruct (tag_pairs rest) as [l'|] eqn:E; [|discriminate].
  simpl. apply (IH l' eq_refl).
Qed.

(* which rows pre_save deletes *)
Definition presel (e : wevent) (pk : bytes) (r : row) : bool :=
  older_pred pk (w_kind e) (w_created e) r &&
  (if is_param_py (w_kind e) then str_eqb (d_value (r_tags r)) (d_value (w_tags e)) else true).

Lemma same_d_ids_spec d0 : forall rows,
  (forall r, In r rows -> no_empty_tag (r_tags r) = true) ->
  same_d_ids d0 rows = Some (map r_id (List.filter (fun r => str_eqb (d_value (r_tags r)) d0) rows)).
Proof.
  induction rows as [|r rows IH]; intros H; [reflexivity|].
  cbn [same_d_ids]. unfold old_d_py. rewrite (H r (or_introl eq_refl)).
  rewrite (first_d_py_total _ (H r (or_introl eq_refl))). rewrite IH by (intros x Hx; apply H; right; exact Hx).
  cbn [List.filter]. destruct (str_eqb (d_value (r_tags r)) d0); reflexivity.
Qed.

Lemma delete_none q d : List.filter q (d_events d) = [] -> fst (delete_where q d) = d.
Proof.
  intros H. unfold delete_where. rewrite H. simpl. destruct d as [ev tg]. simpl in *. f_equal.
  - clear tg. induction ev as [|x l IH]; [reflexivity|]. simpl in H. destruct (q x) eqn:E; [discriminate|].
    simpl. rewrite E. simpl. f_equal. apply IH. exact H.
  - induction tg as [|t l IH]; [reflexivity|]. simpl. f_equal. exact IH.
Qed.

Lemma eval_delete_then q d k : PK d ->
  eval d (delete_then (map r_id (List.filter q (d_events d))) k) = eval (fst (delete_where q d)) k.
Proof.
  intros Hpk. unfold delete_then. destruct (List.filter q (d_events d)) as [|x l] eqn:E.
  - cbn [map]. rewrite (delete_none q d E). reflexivity.
  - rewrite <- E. destruct (map r_id (List.filter q (d_events d))) eqn:Em; [rewrite E in Em; discriminate|].
    rewrite <- Em. rewrite eval_exec. unfold exec.
    rewrite <- (delete_ids_as_pred q d Hpk).
    destruct (delete_where (fun r => mem_bytes (r_id r) (map r_id (List.filter q (d_events d)))) d) as [d1 n1]. reflexivity.
Qed.

Lemma filter_filter {A} (p q : A -> bool) l : List.filter p (List.filter q l) = List.filter (fun x => q x && p x) l.
Proof.
  induction l as [|x l IH]; [reflexivity|]. simpl. destruct (q x); simpl; [destruct (p x); rewrite IH; reflexivity | exact IH].
Qed.

(* pre_save: either the event is already stored (nothing happens), or every older version of
   its address is deleted and the continuation runs *)
Lemma eval_pre_save e k d d' c : Inv d ->
  (is_repl_py (w_kind e) || is_param_py (w_kind e)) = true ->
  eval d (pre_save_then e k) = inl (d', c) ->
  (exists i, py_fromhex (w_id e) = Some i /\ has_id i (d_events d) = true /\ d' = d /\ c = false) \/
  (exists i pk, py_fromhex (w_id e) = Some i /\ has_id i (d_events d) = false /\ py_fromhex (w_pubkey e) = Some pk /\
                eval (fst (delete_where (presel e pk) d)) k = inl (d', c)).
Proof.
  intros [Hpk [Hcoh Hrows]] Hk H. unfold pre_save_then in H. rewrite Hk in H.
  destruct (py_fromhex (w_id e)) as [i|] eqn:Ei; [|discriminate].
  rewrite eval_exec in H. cbn [exec] in H.
  destruct (List.filter (fun r => bytes_eqb (r_id r) i) (d_events d)) as [|x l] eqn:Ef; cbn [rows_of] in H.
  - right. destruct (py_fromhex (w_pubkey e)) as [pk|] eqn:Ep; [|discriminate].
    exists i, pk. split; [reflexivity|]. split.
    { apply has_id_false. intros C. apply in_map_iff in C. destruct C as [r [Er Hr]].
      assert (In r (List.filter (fun r => bytes_eqb (r_id r) i) (d_events d))) by (apply filter_In; split; [exact Hr | apply bytes_eqb_eq; exact Er]).
      rewrite Ef in H0. contradiction. }
    split; [reflexivity|].
    rewrite eval_exec in H. cbn [exec] in H.
    destruct (int64_ok (w_kind e) && int64_ok (w_created e)); [|discriminate]. cbn [rows_of] in H.
    unfold presel. destruct (is_param_py (w_kind e)) eqn:Epar.
    + destruct (first_d_py (w_tags e)) as [d0|] eqn:Ed; [|discriminate].
      rewrite (first_d_py_value _ _ Ed) in H.
      rewrite same_d_ids_spec in H by (intros r Hr; apply filter_In in Hr; destruct (Hrows r (proj1 Hr)) as [_ [_ [_ Hn]]]; exact Hn).
      rewrite filter_filter in H. rewrite (eval_delete_then _ d k Hpk) in H. exact H.
    + rewrite <- (eval_delete_then _ d k Hpk).
      replace (List.filter (fun r => older_pred pk (w_kind e) (w_created e) r && true) (d_events d))
        with (List.filter (older_pred pk (w_kind e) (w_created e)) (d_events d)); [exact H|].
      apply filter_ext. intros r. rewrite andb_true_r. reflexivity.
  - left. exists i. split; [reflexivity|]. split.
    + apply has_id_In. apply in_map_iff. exists x.
      assert (Hx : In x (List.filter (fun r => bytes_eqb (r_id r) i) (d_events d))) by (rewrite Ef; left; reflexivity).
      apply filter_In in Hx. destruct Hx as [Hx Ex]. apply bytes_eqb_eq in Ex. auto.
    + unfold eval in H. simpl in H. inversion H. auto.
Qed.

(* ---------- INSERT + post_save ---------- *)
Definition meta_kind (k : Z) : bool := (k =? kind_SET_METADATA) || (k =? kind_CONTACTS).
(* the store after inserting the fresh row r0 and running post_save *)
Definition after_insert (r0 : row) (d : db) (d' : db) : Prop :=
  Inv d' /\
  forall r, In r (d_events d') <->
            (In r (d_events d) \/ r = r0) /\
            (meta_kind (r_kind r0) && older_pred (r_pubkey r0) (r_kind r0) (r_created r0) r) = false /\
            ((r_kind r0 =? kind_DELETE) && bytes_eqb (r_pubkey r) (r_pubkey r0) && ref_in (r_tags r0) (r_id r)) = false.

Lemma row_of_event_ok e r : row_of_event e = Some r -> no_empty_tag (w_tags e) = true -> row_ok r.
Proof.
  unfold row_of_event. destruct (py_fromhex (w_id e)) eqn:E1; [|discriminate].
  destruct (py_fromhex (w_pubkey e)) eqn:E2; [|discriminate]. destruct (py_fromhex (w_sig e)) eqn:E3; [|discriminate].
  intros H Hn. inversion H. subst r. unfold row_ok. simpl.
  repeat split; try (eapply py_fromhex_bytes; eassumption). exact Hn.
Qed.

Lemma eval_process_tags r0 d d' c : PK d -> RowsOk d -> Coh (Some (r_id r0)) d -> In r0 (d_events d) ->
  eval d (process_tags r0) = inl (d', c) ->
  c = true /\ Inv d' /\ no_empty_tag (r_tags r0) = true /\
  forall r, In r (d_events d') <-> In r (d_events d) /\
            ((r_kind r0 =? kind_DELETE) && bytes_eqb (r_pubkey r) (r_pubkey r0) && ref_in (r_tags r0) (r_id r)) = false.
Proof.
  intros Hpk Hrows Hcoh Hin H. unfold process_tags in H.
  destruct (tag_pairs (r_tags r0)) as [pairs|] eqn:Ep.
  2:{ destruct (r_tags r0); [simpl in Ep; discriminate | discriminate]. }
  destruct (insert_own_tags r0 d pairs Ep Hcoh Hpk Hin) as [d1 [E1 [E2 E3]]].
  assert (Hinv1 : Inv d1).
  { split; [unfold PK, ids; rewrite E2; exact Hpk|]. split; [exact E3|]. intros r Hr. rewrite E2 in Hr. apply Hrows. exact Hr. }
  (* the state in which the kind-5 deletes run is d1, whether or not an INSERT statement was issued *)
  assert (Hafter : forall after, eval d (match dedup_pairs pairs with
                                         | [] => after
                                         | p :: l => PExec (SInsertTags (map (fun p => mktrow (r_id r0) (fst p) (snd p)) (p :: l))) (fun _ => after)
                                         end) = eval d1 after).
  { intros after. destruct (dedup_pairs pairs) as [|p l] eqn:Ed.
    - simpl in E1. inversion E1. reflexivity.
    - rewrite eval_exec. cbn [exec]. rewrite E1. reflexivity. }
  assert (Hne : no_empty_tag (r_tags r0) = true) by (apply (tag_pairs_no_empty _ _ Ep)).
  destruct (r_tags r0) as [|t0 trest] eqn:Et.
  - (* no tags at all: nothing to do; d1 = d *)
    unfold eval in H. simpl in H. inversion H. subst d' c. simpl in Ep. inversion Ep. subst pairs. simpl in E1. inversion E1. subst d1.
    split; [reflexivity|]. split; [exact Hinv1|]. split; [reflexivity|]. intros r. unfold ref_in. simpl. rewrite andb_false_r. tauto.
  - rewrite <- Et in *. rewrite Hafter in H.
    destruct (r_kind r0 =? kind_DELETE) eqn:Ek.
    + rewrite eval_delete_refs in H. unfold eval in H. simpl in H. inversion H. subst d' c.
      split; [reflexivity|]. split; [apply apply_refs_Inv; exact Hinv1|]. split; [exact Hne|].
      intros r. rewrite apply_refs_events, E2. cbn [andb]. tauto.
    + unfold eval in H. simpl in H. inversion H. subst d' c.
      split; [reflexivity|]. split; [exact Hinv1|]. split; [exact Hne|]. intros r. rewrite E2. cbn [andb]. tauto.
Qed.

Lemma process_tags_no_empty r0 d dd cc : eval d (process_tags r0) = inl (dd, cc) -> no_empty_tag (r_tags r0) = true.
Proof.
  unfold process_tags. destruct (r_tags r0) as [|t0 tr] eqn:Et; [reflexivity|].
  destruct (tag_pairs (t0 :: tr)) as [pp|] eqn:Epp; [intros _; apply (tag_pairs_no_empty _ _ Epp) | discriminate].
Qed.
Lemma row_of_event_tags e r : row_of_event e = Some r -> r_tags r = w_tags e.
Proof.
  unfold row_of_event. destruct (py_fromhex (w_id e)); [|discriminate].
  destruct (py_fromhex (w_pubkey e)); [|discriminate]. destruct (py_fromhex (w_sig e)); [|discriminate].
  intros H. inversion H. reflexivity.
Qed.

Lemma eval_insert_and_post e d d' c : Inv d ->
  eval d (insert_and_post e) = inl (d', c) ->
  exists r0, row_of_event e = Some r0 /\
    ((has_id (r_id r0) (d_events d) = true /\ d' = d /\ c = false) \/
     (has_id (r_id r0) (d_events d) = false /\ c = true /\ after_insert r0 d d')).
Proof.
  intros [Hpk [Hcoh Hrows]] H. unfold insert_and_post in H.
  destruct (row_of_event e) as [r0|] eqn:Er; [|discriminate]. exists r0. split; [reflexivity|].
  rewrite eval_exec in H. cbn [exec] in H.
  destruct (int64_ok (r_kind r0) && int64_ok (r_created r0)); [|discriminate].
  destruct (has_id (r_id r0) (d_events d)) eqn:Eh.
  - left. rewrite (insert_event_dup r0 d Eh) in H. unfold eval in H. simpl in H. inversion H. auto.
  - right. rewrite (insert_event_fresh r0 d Eh) in H. cbn [count_of] in H. simpl (Nat.eqb 1 1) in H. cbv iota in H.
    set (d1 := mkdb (d_events d ++ [r0]) (d_tags d)) in *.
    assert (Hpk1 : PK d1) by (apply insert_PK; assumption).
    assert (Hcoh1 : Coh (Some (r_id r0)) d1) by (apply insert_Coh; assumption).
    assert (Hin1 : In r0 (d_events d1)) by (simpl; apply in_or_app; right; left; reflexivity).
    unfold post_save in H. fold (meta_kind (r_kind r0)) in H.
    destruct (meta_kind (r_kind r0)) eqn:Em.
    + rewrite eval_exec in H. cbn [exec] in H.
      destruct (int64_ok (r_kind r0) && int64_ok (r_created r0)); [|discriminate].
      destruct (delete_where (older_pred (r_pubkey r0) (r_kind r0) (r_created r0)) d1) as [d2 n2] eqn:Ed.
      assert (Ed2 : d2 = fst (delete_where (older_pred (r_pubkey r0) (r_kind r0) (r_created r0)) d1)) by (rewrite Ed; reflexivity).
      assert (Hok0 : row_ok r0).
      { apply (row_of_event_ok e r0 Er). rewrite <- (row_of_event_tags e r0 Er). apply (process_tags_no_empty r0 d2 d' c H). }
      assert (Hin2 : In r0 (d_events d2)).
      { rewrite Ed2. apply delete_events. split; [exact Hin1|]. unfold older_pred. rewrite Z.ltb_irrefl, andb_false_r. reflexivity. }
      assert (Hrows2 : RowsOk d2).
      { rewrite Ed2. apply delete_RowsOk. apply insert_RowsOk; assumption. }
      destruct (eval_process_tags r0 d2 d' c) as [Hc [Hinv [Hne Hev]]]; try assumption.
      { rewrite Ed2. apply delete_PK. exact Hpk1. }
      { rewrite Ed2. apply delete_Coh; assumption. }
      split; [reflexivity|]. split; [exact Hc|]. split; [exact Hinv|].
      intros r. rewrite Hev, Ed2, delete_events. simpl. rewrite in_app_iff. simpl. rewrite Em. cbn [andb]. intuition congruence.
    + assert (Hok0 : row_ok r0).
      { apply (row_of_event_ok e r0 Er). rewrite <- (row_of_event_tags e r0 Er). apply (process_tags_no_empty r0 d1 d' c H). }
      assert (Hrows1 : RowsOk d1) by (apply insert_RowsOk; assumption).
      destruct (eval_process_tags r0 d1 d' c) as [Hc [Hinv [Hne Hev]]]; try assumption.
      split; [reflexivity|]. split; [exact Hc|]. split; [exact Hinv|].
      intros r. rewrite Hev. simpl. rewrite in_app_iff. simpl. rewrite Em. cbn [andb]. intuition congruence.
Qed.

(* ---------- one transaction, exactly ---------- *)
Definition superseded (r0 r : row) : bool :=
  older_pred (r_pubkey r0) (r_kind r0) (r_created r0) r &&
  (is_repl_py (r_kind r0) || meta_kind (r_kind r0) ||
   (is_param_py (r_kind r0) && str_eqb (d_value (r_tags r)) (d_value (r_tags r0)))).
Definition ref_deleted (r0 r : row) : bool :=
  (r_kind r0 =? kind_DELETE) && bytes_eqb (r_pubkey r) (r_pubkey r0) && ref_in (r_tags r0) (r_id r).
Definition removed_by (r0 r : row) : bool := superseded r0 r || ref_deleted r0 r.

Lemma row_of_event_fields e r : row_of_event e = Some r ->
  py_fromhex (w_id e) = Some (r_id r) /\ py_fromhex (w_pubkey e) = Some (r_pubkey r) /\
  r_kind r = w_kind e /\ r_created r = w_created e /\ r_tags r = w_tags e.
Proof.
  unfold row_of_event. destruct (py_fromhex (w_id e)); [|discriminate].
  destruct (py_fromhex (w_pubkey e)); [|discriminate]. destruct (py_fromhex (w_sig e)); [|discriminate].
  intros H. inversion H. simpl. auto.
Qed.

Lemma has_id_delete q d i : has_id i (d_events d) = false -> has_id i (d_events (fst (delete_where q d))) = false.
Proof.
  intros H. apply has_id_false. apply has_id_false in H. intros C. apply H.
  apply (delete_ids_subset q d i C).
Qed.

Theorem txn_spec : forall d e d' c, Inv d -> eval d (txn_body e) = inl (d', c) ->
  Inv d' /\
  ((c = false /\ d' = d /\ exists i, py_fromhex (w_id e) = Some i /\ has_id i (d_events d) = true) \/
   (c = true /\ exists r0, row_of_event e = Some r0 /\ has_id (r_id r0) (d_events d) = false /\
      forall r, In r (d_events d') <-> (In r (d_events d) \/ r = r0) /\ removed_by r0 r = false)).
Proof.
  intros d e d' c Hinv H. unfold txn_body in H.
  destruct (is_repl_py (w_kind e) || is_param_py (w_kind e)) eqn:Ek.
  - (* replaceable / parameterized replaceable *)
    destruct (eval_pre_save e _ d d' c Hinv Ek H) as [[i [Ei [Hh [-> ->]]]] | [i [pk [Ei [Hh [Ep H2]]]]]].
    + split; [exact Hinv|]. left. split; [reflexivity|]. split; [reflexivity|]. exists i. auto.
    + set (d1 := fst (delete_where (presel e pk) d)) in *.
      assert (Hinv1 : Inv d1) by (apply delete_Inv; exact Hinv).
      destruct (eval_insert_and_post e d1 d' c Hinv1 H2) as [r0 [Er [[Hdup _] | [Hfresh [-> [Hinv' Hev]]]]]].
      * exfalso. destruct (row_of_event_fields e r0 Er) as [Fi _]. rewrite Ei in Fi. inversion Fi. subst i.
        unfold d1 in Hdup. rewrite (has_id_delete _ d _ Hh) in Hdup. discriminate.
      * split; [exact Hinv'|]. right. split; [reflexivity|]. exists r0. split; [exact Er|].
        destruct (row_of_event_fields e r0 Er) as [Fi [Fp [Fk [Fc Ft]]]].
        rewrite Ei in Fi. inversion Fi. subst i. rewrite Ep in Fp. inversion Fp. subst pk.
        split; [exact Hh|]. intros r. rewrite Hev. unfold d1. rewrite delete_events.
        assert (Hm : meta_kind (r_kind r0) = false).
        { rewrite Fk. unfold meta_kind, kind_SET_METADATA, kind_CONTACTS. unfold is_repl_py, is_param_py in Ek. lia. }
        assert (H5 : (r_kind r0 =? kind_DELETE) = false).
        { rewrite Fk. unfold kind_DELETE. unfold is_repl_py, is_param_py in Ek. lia. }
        assert (Hsup : forall x, removed_by r0 x = presel e (r_pubkey r0) x).
        { intros x. unfold removed_by, ref_deleted, superseded, presel. rewrite H5, Hm, Fk, Fc, Ft. cbn [andb]. rewrite orb_false_r.
          destruct (is_param_py (w_kind e)) eqn:Epar.
          - assert (Er' : is_repl_py (w_kind e) = false) by (unfold is_repl_py, is_param_py in *; lia). rewrite Er'. reflexivity.
          - rewrite orb_false_r in Ek. rewrite Ek. reflexivity. }
        rewrite Hm, H5. cbn [andb]. rewrite Hsup.
        assert (Hself : presel e (r_pubkey r0) r0 = false).
        { unfold presel, older_pred. rewrite Fc, Z.ltb_irrefl, andb_false_r. reflexivity. }
        split.
        -- intros [[[Hr Hp] | Heq] _]; [tauto | subst r; split; [right; reflexivity | exact Hself]].
        -- intros [[Hr | Heq] Hp]; [tauto | subst r; split; [right; reflexivity | auto]].
  - (* every other kind *)
    unfold pre_save_then in H. rewrite Ek in H.
    destruct (eval_insert_and_post e d d' c Hinv H) as [r0 [Er [[Hdup [-> ->]] | [Hfresh [-> [Hinv' Hev]]]]]].
    + split; [exact Hinv|]. left. split; [reflexivity|]. split; [reflexivity|].
      destruct (row_of_event_fields e r0 Er) as [Fi _]. exists (r_id r0). auto.
    + split; [exact Hinv'|]. right. split; [reflexivity|]. exists r0. split; [exact Er|]. split; [exact Hfresh|].
      destruct (row_of_event_fields e r0 Er) as [_ [_ [Fk _]]].
      intros r. rewrite Hev. unfold removed_by, superseded, ref_deleted.
      assert (E1 : is_repl_py (r_kind r0) = false) by (rewrite Fk; apply orb_false_iff in Ek; tauto).
      assert (E2 : is_param_py (r_kind r0) = false) by (rewrite Fk; apply orb_false_iff in Ek; tauto).
      rewrite E1, E2. cbn [andb orb]. rewrite orb_false_r.
      rewrite (andb_comm (older_pred _ _ _ _) (meta_kind _)).
      rewrite orb_false_iff. tauto.
Qed.

(* ---------- add_event and histories ---------- *)
Lemma add_event_eval fault now valid can d e :
  fault = None -> valid = true -> can = true ->
  let r := add_event fault now valid can d e in
  match eval d (txn_body (event_init now e)) with
  | inl (d', c) => ar_db r = d' /\ ar_out r = inl c
  | inr x => ar_db r = d /\ ar_out r = inr x
  end.
Proof.
  intros -> -> ->. unfold add_event, eval. simpl negb. cbv iota.
  destruct (run None d (txn_body (event_init now e)) []) as [tr [[d' c]|x]]; simpl; auto.
Qed.

Lemma submit_Inv now d e : Inv d -> Inv (submit now d e).
Proof.
  intros H. unfold submit. pose proof (add_event_eval None now true true d e eq_refl eq_refl eq_refl) as A. simpl in A.
  destruct (eval d (txn_body (event_init now e))) as [[d' c]|x] eqn:E.
  - destruct A as [-> _]. apply (txn_spec d _ d' c H E).
  - destruct A as [-> _]. exact H.
Qed.

(* TagsCoherent, the primary key and well-formedness of rows hold after every history *)
Theorem history_Inv : forall now h, Inv (run_history now h).
Proof.
  intros now h. unfold run_history. generalize Inv_empty. generalize empty_db.
  induction h as [|e h IH]; intros d H; [exact H|]. simpl. apply IH. apply submit_Inv. exact H.
Qed.
