(* C06 (b)-(e), SQL half: what DBStorage.add_event reports agrees with what it did. *)
From NR Require Import Lib.Base Lib.BaseFacts Lib.Nip01 SQLM.Rel SQLM.Write SQLM.Spec SQLM.Examples
     SQLM.Proofs_Hex SQLM.Proofs_Rel SQLM.Proofs_Write SQLM.Proofs_Props SQLM.Proofs_Progress.
Open Scope list_scope. Open Scope Z_scope.

Section C06.
  Variables (now : Z) (h : list wevent) (e : wevent).
  Let d := run_history now h.
  Let res := add_event None now true true d e.

  (* (b) (event, True) only if the event is stored afterwards.  A deletion whose e tag names its own id is
     excluded: the id is the hash of the content including that tag (C03) *)
  Theorem sql_ack_true_stored : forall r0, row_of_event (event_init now e) = Some r0 -> ar_out res = inl true ->
    ref_in (r_tags r0) (r_id r0) = false -> In r0 (d_events (ar_db res)).
  Proof. intros. apply (accepted_stored now d e (history_Inv now h) r0); assumption. Qed.
  (* (c) an admitted event that passes validators and authorisation and is not yet stored is accepted: no exception *)
  Theorem sql_valid_event_accepted : forall r0, wf_wevent (event_init now e) = true ->
    row_of_event (event_init now e) = Some r0 -> has_id (r_id r0) (d_events d) = false -> ar_out res = inl true.
  Proof. intros. apply (wf_event_accepted now d e r0 (history_Inv now h)); assumption. Qed.
  (* (d) anything else - duplicate or exception - leaves both tables exactly as they were and notifies nobody *)
  Theorem sql_refused_no_trace : ar_out res <> inl true -> ar_db res = d /\ ~ In TNotify (ar_trace res).
  Proof. intros. apply (refused_no_trace now d e (history_Inv now h)); assumption. Qed.
  (* (e) resubmitting a stored event: nothing changes, nothing is notified *)
  Theorem sql_resubmission : forall r0, row_of_event (event_init now e) = Some r0 -> has_id (r_id r0) (d_events d) = true ->
    ar_db res = d /\ ~ In TNotify (ar_trace res).
  Proof.
    intros r0 Er Hh. destruct (resubmission_no_change now d e (history_Inv now h) r0 Er Hh) as [_ Hne].
    apply (refused_no_trace now d e (history_Inv now h) Hne).
  Qed.
End C06.
(* validators / authorisation refusing: no transaction at all *)
Theorem sql_not_admitted_untouched : forall f now valid can d e, valid && can = false ->
  ar_db (add_event f now valid can d e) = d /\ ar_trace (add_event f now valid can d e) = [].
Proof.
  intros f now valid can d e H. unfold add_event. destruct valid; [destruct can; [discriminate|]|]; simpl; auto.
Qed.

(* non-vacuity: versions 20 then 10 of a replaceable address are both stored; resubmitting 20 changes nothing *)
Example c06_resubmit :
  let h := [mkev "14" "aa" 20 10000 []; mkev "0a" "aa" 10 10000 []] in
  ids_of (run_history now0 h) = [pys "14"; pys "0a"] /\
  ids_of (run_history now0 (h ++ [mkev "14" "aa" 20 10000 []])) = [pys "14"; pys "0a"].
Proof. vm_compute. split; reflexivity. Qed.
(* a NIP-33 event whose older sibling carries no d tag is accepted (F12) *)
Example c06_f12 :
  ids_of (run_history now0 [mkev "01" "aa" 10 30000 []; mkev "02" "aa" 20 30000 [["d"; "a"]]]) = [pys "01"; pys "02"].
Proof. vm_compute. reflexivity. Qed.
