(* SQLM - model of DBStorage.add_event (nostr_relay/storage/db.py): Event(json),
   validators, can_do, and ONE transaction: pre_save (NIP-16/33 replacement),
   INSERT OR IGNORE, post_save (kind 0/3 cleanup, process_tags: tag rows, NIP-09 deletes);
   any exception rolls the transaction back; notification only after commit and only
   if the row was inserted.  The transaction body is a small program over the statements
   of Rel.v (statement, continuation on its result), so that the statement trace and
   engine-fault injection at the k-th statement are defined once, by the interpreter.
   Executable; no proofs in this file. *)
From NR Require Import Lib.Base Lib.Nip01 SQLM.Rel.
Open Scope list_scope. Open Scope Z_scope.

(* ---------- bytes.fromhex (CPython >= 3.7: ASCII whitespace skipped between pairs) ---------- *)
Definition is_py_space (c : cp) : bool :=
  (N.eqb c 32 || N.eqb c 9 || N.eqb c 10 || N.eqb c 11 || N.eqb c 12 || N.eqb c 13)%bool.
Fixpoint py_fromhex (s : pystr) : option bytes :=
  match s with
  | [] => Some []
  | a :: r =>
      if is_py_space a then py_fromhex r
      else match r with
           | b :: r' =>
               match hexval a, hexval b with
               | Some x, Some y => option_map (cons (x * 16 + y)%N) (py_fromhex r')
               | _, _ => None
               end
           | [] => None
           end
  end.

(* ---------- rows and events ---------- *)
Definition event_of_row (r : row) : wevent :=
  {| w_id := hex_of_bytes (r_id r); w_pubkey := hex_of_bytes (r_pubkey r); w_created := r_created r;
     w_kind := r_kind r; w_tags := r_tags r; w_content := r_content r; w_sig := hex_of_bytes (r_sig r) |}.
(* the INSERT parameters: id_bytes, bytes.fromhex(pubkey), bytes.fromhex(sig) - each may raise ValueError *)
Definition row_of_event (e : wevent) : option row :=
  match py_fromhex (w_id e), py_fromhex (w_pubkey e), py_fromhex (w_sig e) with
  | Some i, Some p, Some s => Some (mkrow i (w_created e) (w_kind e) p (w_tags e) s (w_content e))
  | _, _, _ => None
  end.

(* Event.__init__: created_at = created_at or int(time.time()) *)
Definition event_init (now : Z) (e : wevent) : wevent :=
  if w_created e =? 0 then
    {| w_id := w_id e; w_pubkey := w_pubkey e; w_created := now; w_kind := w_kind e;
       w_tags := w_tags e; w_content := w_content e; w_sig := w_sig e |}
  else e.

(* kind classes as aionostr.Event defines them (tied to Gen/Kinds.v in Proofs_Write.v) *)
Definition is_repl_py (k : Z) : bool := (k >=? 10000) && (k <? 20000).
Definition is_param_py (k : Z) : bool := (k >=? 30000) && (k <? 40000).
Definition kind_DELETE : Z := 5.
Definition kind_SET_METADATA : Z := 0.
Definition kind_CONTACTS : Z := 3.

(* ---------- pre_save's d-tag logic ----------
     d_tag = ""
     for tag in event.tags:
         if tag[0] == "d":                      (IndexError on an empty tag)
             if len(tag) > 1: d_tag = tag[1]
             break                                                                  *)
Fixpoint first_d_py (tags : list (list pystr)) : option pystr :=
  match tags with
  | [] => Some []
  | [] :: _ => None
  | (n :: rest) :: r =>
      if str_eqb n s_d then Some (match rest with v :: _ => v | [] => [] end) else first_d_py r
  end.
(*   found_tag = [tag for tag in tags if tag[0] == "d"]
     old_d = found_tag[0][1] if found_tag and len(found_tag[0]) > 1 else ""
   the comprehension visits every tag, so an empty tag anywhere raises *)
Definition no_empty_tag (tags : list (list pystr)) : bool :=
  forallb (fun t => match t with [] => false | _ => true end) tags.
Definition old_d_py (tags : list (list pystr)) : option pystr :=
  if no_empty_tag tags then first_d_py tags else None.
(* ids of the older rows carrying the same d value; None = IndexError *)
Fixpoint same_d_ids (d : pystr) (rows : list row) : option (list bytes) :=
  match rows with
  | [] => Some []
  | r :: rest =>
      match old_d_py (r_tags r), same_d_ids d rest with
      | Some od, Some ids => Some (if str_eqb od d then r_id r :: ids else ids)
      | _, _ => None
      end
  end.

(* ---------- process_tags' tag rows ----------
     for tag in event.tags:
         if tag[0] in ("delegation", "expiration"):
             if len(tag) > 1: tags.add((tag[0], tag[1]))
         elif len(tag[0]) == 1 and len(tag) > 1:
             tags.add((tag[0], tag[1]))
   (a Python set: duplicates collapse; INSERT OR IGNORE would drop them anyway) *)
Definition indexed_name (n : pystr) : bool :=
  str_eqb n s_delegation || str_eqb n s_expiration || (Nat.eqb (length n) 1).
Fixpoint tag_pairs (tags : list (list pystr)) : option (list (pystr * pystr)) :=
  match tags with
  | [] => Some []
  | [] :: _ => None
  | (n :: rest) :: r =>
      match tag_pairs r with
      | None => None
      | Some l =>
          Some (match rest with
                | v :: _ => if indexed_name n then (n, v) :: l else l
                | [] => l
                end)
      end
  end.
Fixpoint dedup_pairs (l : list (pystr * pystr)) : list (pystr * pystr) :=
  match l with
  | [] => []
  | p :: r => if existsb (fun q => str_eqb (fst p) (fst q) && str_eqb (snd p) (snd q)) r
              then dedup_pairs r else p :: dedup_pairs r
  end.

(* ---------- the transaction body as a program ---------- *)
Inductive pyerr := EIndex | EValue | EOverflow | EIntegrity | EOperational | EStorage | EAuth.
Inductive prog :=
| PDone (changed : bool)
| PRaise (e : pyerr)
| PExec (s : stmt) (k : result -> prog).

Definition err_of_engine (x : engine_err) : pyerr :=
  match x with XOverflow => EOverflow | XIntegrity => EIntegrity end.

(* Interpreter: the working copy, the statements handed to the cursor so far, and an
   optional engine fault (OperationalError) at the statement with index `fault`. *)
Fixpoint run (fault : option nat) (d : db) (p : prog) (trace : list stmt)
  : list stmt * ((db * bool) + pyerr) :=
  match p with
  | PDone c => (trace, inl (d, c))
  | PRaise e => (trace, inr e)
  | PExec s k =>
      let trace' := trace ++ [s] in
      match fault with
      | Some O => (trace', inr EOperational)
      | _ =>
          match exec s d with
          | inr x => (trace', inr (err_of_engine x))
          | inl (d', res) => run (match fault with Some (S n) => Some n | _ => None end) d' (k res) trace'
          end
      end
  end.

(* NIP-09: for tag in event.tags: if tag[0] == "e": DELETE WHERE pubkey = author AND id = fromhex(tag[1]);
   a bare or non-hex reference is skipped *)
Fixpoint delete_refs (pk : bytes) (tags : list (list pystr)) (k : prog) : prog :=
  match tags with
  | [] => k
  | t :: r =>
      match t with
      | n :: v :: _ =>
          if str_eqb n s_e then
            match py_fromhex v with
            | Some i => PExec (SDeleteOwn pk i) (fun _ => delete_refs pk r k)
            | None => delete_refs pk r k
            end
          else delete_refs pk r k
      | _ => delete_refs pk r k
      end
  end.

Definition process_tags (r : row) : prog :=
  match r_tags r with
  | [] => PDone true
  | _ =>
      match tag_pairs (r_tags r) with
      | None => PRaise EIndex
      | Some pairs =>
          let after := if r_kind r =? kind_DELETE then delete_refs (r_pubkey r) (r_tags r) (PDone true) else PDone true in
          match dedup_pairs pairs with
          | [] => after
          | l => PExec (SInsertTags (map (fun p => mktrow (r_id r) (fst p) (snd p)) l)) (fun _ => after)
          end
      end
  end.

Definition post_save (r : row) : prog :=
  if (r_kind r =? kind_SET_METADATA) || (r_kind r =? kind_CONTACTS)
  then PExec (SDeleteOlder (r_pubkey r) (r_kind r) (r_created r)) (fun _ => process_tags r)
  else process_tags r.

Definition insert_and_post (e : wevent) : prog :=
  match row_of_event e with
  | None => PRaise EValue
  | Some r => PExec (SInsertEvent r) (fun res => if Nat.eqb (count_of res) 1 then post_save r else PDone false)
  end.

Definition delete_then (ids : list bytes) (k : prog) : prog :=
  match ids with [] => k | _ => PExec (SDeleteIds ids) (fun _ => k) end.

Definition pre_save_then (e : wevent) (k : prog) : prog :=
  if is_repl_py (w_kind e) || is_param_py (w_kind e) then
    match py_fromhex (w_id e) with
    | None => PRaise EValue
    | Some i =>
        PExec (SSelectById i) (fun res =>
          match rows_of res with
          | _ :: _ => PDone false                        (* already stored: nothing to do *)
          | [] =>
              match py_fromhex (w_pubkey e) with
              | None => PRaise EValue
              | Some pk =>
                  PExec (SSelectOlder pk (w_kind e) (w_created e)) (fun res2 =>
                    let rows := rows_of res2 in
                    if is_param_py (w_kind e) then
                      match first_d_py (w_tags e) with
                      | None => PRaise EIndex
                      | Some d =>
                          match same_d_ids d rows with
                          | None => PRaise EIndex
                          | Some ids => delete_then ids k
                          end
                      end
                    else delete_then (map r_id rows) k)
              end
          end)
    end
  else k.

Definition txn_body (e : wevent) : prog := pre_save_then e (insert_and_post e).

(* ---------- add_event ---------- *)
Inductive tevent := TBegin | TStmt (s : stmt) | TCommit | TRollback | TNotify.
Record add_result := { ar_db : db; ar_out : bool + pyerr; ar_trace : list tevent }.

Definition add_event (fault : option nat) (now : Z) (valid can : bool) (d : db) (e0 : wevent) : add_result :=
  let e := event_init now e0 in
  if negb valid then {| ar_db := d; ar_out := inr EStorage; ar_trace := [] |}
  else if negb can then {| ar_db := d; ar_out := inr EAuth; ar_trace := [] |}
  else
    let '(tr, res) := run fault d (txn_body e) [] in
    match res with
    | inl (d', changed) =>
        {| ar_db := d'; ar_out := inl changed;
           ar_trace := TBegin :: map TStmt tr ++ TCommit :: (if changed then [TNotify] else []) |}
    | inr err =>
        {| ar_db := d; ar_out := inr err; ar_trace := TBegin :: map TStmt tr ++ [TRollback] |}
    end.

(* the store after a history of submissions (all validated and authorised) *)
Definition submit (now : Z) (d : db) (e : wevent) : db := ar_db (add_event None now true true d e).
Definition run_history (now : Z) (h : list wevent) : db := fold_left (submit now) h empty_db.

(* QueryGarbageCollector.collect inside BaseGarbageCollector.run_once's transaction *)
Definition collect (now : Z) (d : db) : db * nat :=
  match exec (SGc now) d with
  | inl (d', res) => (d', count_of res)
  | inr _ => (d, O)
  end.

Definition stored (d : db) : list wevent := map event_of_row (d_events d).
