(* C09, SQL half: replaceable events - newest kept, older superseded, everything else untouched. *)
From NR Require Import Lib.Base Lib.BaseFacts Lib.Nip01 SQLM.Rel SQLM.Write SQLM.Spec SQLM.Examples
     SQLM.Proofs_Hex SQLM.Proofs_Rel SQLM.Proofs_Write SQLM.Proofs_Props.
Open Scope list_scope. Open Scope Z_scope.

Section C09.
  Variables (now : Z) (h : list wevent) (e : wevent) (r0 : row).
  Let d := run_history now h.
  Let res := add_event None now true true d e.
  (* e0: the submitted event as the store holds it (for an admitted event: the event itself, sql_canonical) *)
  Hypothesis Hrow : row_of_event (event_init now e) = Some r0.
  Let e0 := event_of_row r0.

  (* (i) every stored event of the same address (author, kind, d value) that is older disappears,
     however many there are and whatever the d values look like *)
  Theorem sql_replace_removes_older : ar_out res = inl true ->
    forall x, In x (stored d) -> same_address x e0 = true -> w_created x < w_created e0 ->
              in_store x (stored (ar_db res)) = false.
  Proof.
    intros Hout x Hx Ha Hc. pose proof (removes_older now d e (history_Inv now h) r0 Hrow Hout) as H.
    unfold c09_removes_older in H. rewrite forallb_forall in H. specialize (H x Hx).
    unfold supersedes in H. fold e0 in H. rewrite Ha in H. assert (E : (w_created x <? w_created e0) = true) by (apply Z.ltb_lt; exact Hc).
    rewrite E in H. simpl in H. apply negb_true_iff in H. exact H.
  Qed.

  (* (ii) whatever the outcome (accepted, duplicate, exception): a stored event that disappears is an
     older-or-equal version of e0's address, or - e0 being a deletion - an own event it references *)
  Theorem sql_replace_frame :
    forall x, In x (stored d) -> in_store x (stored (ar_db res)) = false ->
              (same_address x e0 = true /\ w_created x <= w_created e0) \/ may_delete e0 x = true.
  Proof.
    intros x Hx Hgone. pose proof (frame now d e (history_Inv now h) r0 Hrow) as H.
    unfold c09_frame in H. rewrite forallb_forall in H. specialize (H x Hx). fold e0 in H.
    unfold res, d in *. rewrite Hgone in H. simpl in H. apply orb_true_iff in H. destruct H as [H|H]; [left|right; exact H].
    apply andb_true_iff in H. destruct H as [H1 H2]. split; [exact H1 | apply Z.leb_le; exact H2].
  Qed.
  Corollary sql_replace_frame_regular : w_kind e0 <> 5 ->
    forall x, In x (stored d) -> in_store x (stored (ar_db res)) = false -> same_address x e0 = true /\ w_created x <= w_created e0.
  Proof.
    intros Hk x Hx Hg. destruct (sql_replace_frame x Hx Hg) as [H|H]; [exact H|].
    unfold may_delete in H. apply andb_true_iff in H. destruct H as [H _]. apply andb_true_iff in H. destruct H as [H _].
    apply Z.eqb_eq in H. contradiction.
  Qed.
End C09.

Theorem sql_canonical : forall e r, wf_wevent e = true -> row_of_event e = Some r -> event_of_row r = e.
Proof. exact event_of_row_of_event. Qed.

(* non-vacuity: arrival order 10, 5, 20 of one replaceable address leaves only the newest *)
Example c09_order_10_5_20 :
  ids_of (run_history now0 [mkev "0a" "aa" 10 10000 []; mkev "05" "aa" 5 10000 []; mkev "14" "aa" 20 10000 []]) = [pys "14"].
Proof. vm_compute. reflexivity. Qed.
(* d values that are substrings of one another, absent / bare / empty d, another author: only the same address goes *)
Example c09_d_values :
  ids_of (run_history now0 [mkev "01" "aa" 10 30000 [["d"; "a"]]; mkev "02" "aa" 10 30000 [["d"; "abc"]];
                            mkev "03" "aa" 10 30000 []; mkev "04" "bb" 10 30000 [["d"; "a"]];
                            mkev "05" "aa" 20 30000 [["d"; "a"]]; mkev "06" "aa" 20 30000 [["d"]]])
  = [pys "02"; pys "04"; pys "05"; pys "06"].
Proof. vm_compute. reflexivity. Qed.
