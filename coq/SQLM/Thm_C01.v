(* C01, SQL half: a REQ is answered only with stored events matching one of its filters, and filters
   are pure data in the SQL text. *)
From NR Require Import Lib.Base Lib.BaseFacts Lib.Nip01 SQLM.Rel SQLM.Write SQLM.Query SQLM.Text SQLM.Where SQLM.Req SQLM.Spec
     SQLM.Examples SQLM.Proofs_Text SQLM.Proofs_Shape SQLM.Proofs_Rel SQLM.Proofs_Write SQLM.Proofs_Where SQLM.Proofs_Hist.
Open Scope list_scope. Open Scope Z_scope.

(* the lexer reads back exactly the printed tokens; core: the quoting lemma *)
Theorem sql_lex_string_quote : forall v rest, head_is (N.eqb c_quote) rest = false ->
  lex_string (sql_quote v ++ c_quote :: rest) = Some (v, rest).
Proof. exact lex_string_quote. Qed.
Theorem sql_lex_roundtrip_thm : forall toks, wf_toks toks = true -> lex (render toks) = Some toks.
Proof. exact sql_lex_roundtrip. Qed.
(* for validated filters (hex ids/authors, no NUL in tag names / values) the statement is made of well-formed
   tokens: every client string is the content of exactly one literal token *)
Theorem sql_build_query_tokens_wf : forall dl ml fs,
  forallb valid_filter fs = true -> wf_toks (query_toks (build_query dl ml fs)) = true.
Proof. exact build_query_tokens_wf. Qed.
(* filters are pure data: the token structure depends on the shape of the filters only *)
Theorem sql_build_query_shape : forall dl ml fs fs', map shape fs = map shape fs' ->
  map erase (map clause_toks (q_where (build_query dl ml fs))) = map erase (map clause_toks (q_where (build_query dl ml fs'))).
Proof. exact build_query_shape. Qed.
(* soundness of the WHERE clause on one row, and of the whole REQ over every history of admitted events *)
Theorem sql_where_sound_thm : forall f r, validated f -> row_ok r -> row32 r -> P_sql f r = true -> may_match f (event_of_row r) = true.
Proof. exact sql_where_sound. Qed.
Theorem sql_c01_sound : forall now h dl ml fs r, wf_history now h -> fs <> [] -> Forall validated fs ->
  In r (req_exec dl ml (run_history now h) fs) ->
  In r (d_events (run_history now h)) /\ exists f, In f fs /\ may_match f (event_of_row r) = true.
Proof. exact sql_req_sound. Qed.
(* the invariant the soundness argument rests on, for all histories *)
Theorem sql_tags_coherent : forall now h, TagsCoherent (run_history now h).
Proof. intros. apply history_Inv. Qed.

(* non-vacuity / F01 witness, repaired: the hostile tag name and value of {"#'": [" OR 1=1)) --"]} each sit
   inside one string literal, and the text lexes back to exactly the printed tokens *)
Definition hostile_filter : filter := f_tag (pys "'") (pys " OR 1=1)) --").
Example c01_hostile_tokens :
  let toks := query_toks (build_query 100 100 [hostile_filter]) in
  lex (render toks) = Some toks /\ existsb (tok_eqb (TStr (pys "'"))) toks = true /\
  existsb (tok_eqb (TStr (pys " OR 1=1)) --"))) toks = true /\
  map erase (map clause_toks (q_where (build_query 100 100 [hostile_filter]))) =
  map erase (map clause_toks (q_where (build_query 100 100 [f_tag (pys "t") (pys "x")]))).
Proof. vm_compute. repeat split; reflexivity. Qed.
(* and it matches nothing but events carrying that very tag *)
Example c01_hostile_answer :
  let d := run_history now0 [mkev "01" "aa" 10 1 [["t"; "x"]]; mkev "02" "aa" 11 1 [["'"; " OR 1=1)) --"]]] in
  map (fun r => firstn 2 (hex_of_bytes (r_id r))) (req_exec 100 100 d [hostile_filter]) = [pys "02"].
Proof. vm_compute. reflexivity. Qed.
