(* C02, SQL half: every matching stored event exactly once when under the limit. *)
From NR Require Import Lib.Base Lib.BaseFacts Lib.Nip01 SQLM.Rel SQLM.Write SQLM.Query SQLM.Text SQLM.Where SQLM.Req SQLM.Spec
     SQLM.Examples SQLM.Proofs_Text SQLM.Proofs_Rel SQLM.Proofs_Write SQLM.Proofs_Where SQLM.Proofs_Hist.
From Coq Require Import Sorting.Permutation.
Open Scope list_scope. Open Scope Z_scope.

(* the WHERE clause of a well-formed filter with at least one condition holds for every must-matching row *)
Theorem sql_complete_thm : forall f r, wf_filter f -> has_conditions f -> row_ok r ->
  must_match f (event_of_row r) = true -> P_sql f r = true.
Proof. exact sql_complete. Qed.
(* C02_partial (guards = negations of the open classifiers sql_value_contains_nul, sql_filter_without_conditions):
   single-filter REQ whose matching rows do not exceed the limit - every must-matching stored event is
   answered exactly once, over every history *)
Theorem sql_c02_complete_partial : forall now h dl ml f r, 0 <= query_limit dl ml [f] ->
  valid_filter f = true -> wf_filter f -> has_conditions f ->
  Z.of_nat (length (List.filter (P_sql f) (d_events (run_history now h)))) <= query_limit dl ml [f] ->
  In r (d_events (run_history now h)) -> must_match f (event_of_row r) = true ->
  count_occ_b (fun y => bytes_eqb (r_id y) (r_id r)) (req_exec dl ml (run_history now h) [f]) = 1%nat.
Proof. exact sql_req_complete. Qed.

(* the full statement without the two guards is refuted by the faithful model: *)
Definition c02_full (dl ml : Z) (d : db) (f : filter) : bool :=
  forallb (fun r => negb (must_match f (event_of_row r)) ||
                    Nat.eqb (count_occ_b (fun y => bytes_eqb (r_id y) (r_id r)) (req_exec dl ml d [f])) 1) (d_events d).
(* (a) a tag value containing NUL makes the statement unexecutable: the stored, matching event is not served *)
Theorem sql_c02_refuted_nul : exists d f, c02_full 100 100 d f = false.
Proof.
  exists (run_history now0 [{| w_id := hex64 "01"; w_pubkey := hex64 "aa"; w_created := 10; w_kind := 1;
                               w_tags := [[pys "t"; [97; 0; 98]%N]]; w_content := []; w_sig := hex128 "00" |}]),
         (f_tag (pys "t") [97; 0; 98]%N).
  vm_compute. reflexivity.
Qed.
(* (b) a filter without any condition ({} or {"limit": n}) is answered with nothing *)
Theorem sql_c02_refuted_no_conditions : exists d f, c02_full 100 100 d f = false.
Proof. exists (run_history now0 [mkev "01" "aa" 10 1 []]), no_filter. vm_compute. reflexivity. Qed.

(* non-vacuity: tag values that are prefixes of one another, "" and a bare tag *)
Example c02_prefix_values :
  let d := run_history now0 [mkev "01" "aa" 10 1 [["t"; "ab"]]; mkev "02" "aa" 11 1 [["t"; "abc"]]; mkev "03" "aa" 12 1 [["t"; "a"]];
                             mkev "04" "aa" 13 1 [["t"; ""]]; mkev "05" "aa" 14 1 [["t"]]] in
  let ans := fun v => map (fun r => firstn 2 (hex_of_bytes (r_id r))) (req_exec 100 100 d [f_tag (pys "t") (pys v)]) in
  ans "ab"%string = [pys "01"] /\ ans ""%string = [pys "04"] /\ ans "abcd"%string = [].
Proof. vm_compute. repeat split; reflexivity. Qed.
