(* SQLM - relational engine model for the SQL backend (SQLite).
   Schema of nostr_relay/storage/__init__.py:
     events(id BLOB PRIMARY KEY, created_at INTEGER, kind INTEGER, pubkey BLOB, tags JSON, sig BLOB, content TEXT)
     tags(id BLOB REFERENCES events(id) ON DELETE CASCADE, name TEXT, value TEXT, UNIQUE(id,name,value))
   and the statements nostr_relay/storage/db.py issues inside one transaction.
   What SQLite does with a parsed statement is modelled here (trusted, pinned by the
   correspondence suites); executable, no proofs in this file. *)
From NR Require Import Lib.Base.
Open Scope list_scope. Open Scope Z_scope.

Record row := mkrow { r_id : bytes; r_created : Z; r_kind : Z; r_pubkey : bytes;
                      r_tags : list (list pystr); r_sig : bytes; r_content : pystr }.
Record trow := mktrow { t_id : bytes; t_name : pystr; t_value : pystr }.
Record db := mkdb { d_events : list row; d_tags : list trow }.
Definition empty_db : db := mkdb [] [].

Definition bytes_eqb : bytes -> bytes -> bool := str_eqb.
Definition trow_eqb (a b : trow) : bool :=
  bytes_eqb (t_id a) (t_id b) && str_eqb (t_name a) (t_name b) && str_eqb (t_value a) (t_value b).
Definition has_id (i : bytes) (l : list row) : bool := existsb (fun r => bytes_eqb (r_id r) i) l.
Definition mem_bytes (i : bytes) (l : list bytes) : bool := existsb (bytes_eqb i) l.

(* SQLite INTEGER is a signed 64-bit value; the sqlite3 binding raises OverflowError outside *)
Definition int64_ok (z : Z) : bool := (-9223372036854775808 <=? z) && (z <=? 9223372036854775807).

(* ---------- the statements of db.py ---------- *)
Inductive stmt :=
| SSelectById (i : bytes)                          (* SELECT id FROM events WHERE id = ?                       *)
| SSelectOlder (pk : bytes) (kind created : Z)     (* SELECT id, created_at, tags WHERE pubkey=? AND kind=? AND created_at<? *)
| SDeleteIds (ids : list bytes)                    (* DELETE FROM events WHERE id IN (?, ...)                  *)
| SInsertEvent (r : row)                           (* INSERT OR IGNORE INTO events ...                         *)
| SDeleteOlder (pk : bytes) (kind created : Z)     (* DELETE FROM events WHERE pubkey=? AND kind=? AND created_at<? *)
| SInsertTags (l : list trow)                      (* INSERT OR IGNORE INTO tags ... (executemany)             *)
| SDeleteOwn (pk i : bytes)                        (* DELETE FROM events WHERE pubkey=? AND id=?               *)
| SGc (now : Z).                                   (* the garbage collector's DELETE                           *)

Inductive result := RRows (l : list row) | RCount (n : nat).
Inductive engine_err := XOverflow | XIntegrity.

(* DELETE FROM events WHERE p, with ON DELETE CASCADE on tags (PRAGMA foreign_keys = ON) *)
Definition delete_where (p : row -> bool) (d : db) : db * nat :=
  let gone := filter p (d_events d) in
  (mkdb (filter (fun r => negb (p r)) (d_events d))
        (filter (fun t => negb (has_id (t_id t) gone)) (d_tags d)),
   length gone).

Definition older_pred (pk : bytes) (kind created : Z) (r : row) : bool :=
  bytes_eqb (r_pubkey r) pk && (r_kind r =? kind) && (r_created r <? created).

(* INSERT OR IGNORE INTO events: primary-key conflict -> ignored, rowcount 0 *)
Definition insert_event (r : row) (d : db) : db * nat :=
  if has_id (r_id r) (d_events d) then (d, O)
  else (mkdb (d_events d ++ [r]) (d_tags d), 1%nat).

(* INSERT OR IGNORE INTO tags, row by row: UNIQUE(id,name,value) conflict -> ignored;
   a foreign-key violation is not ignorable *)
Fixpoint insert_tags (l : list trow) (d : db) : option db :=
  match l with
  | [] => Some d
  | t :: rest =>
      if negb (has_id (t_id t) (d_events d)) then None
      else if existsb (trow_eqb t) (d_tags d) then insert_tags rest d
      else insert_tags rest (mkdb (d_events d) (d_tags d ++ [t]))
  end.

(* ---------- NIP-40 expiration as the (repaired) collector query reads it ----------
     tags.name = 'expiration' AND tags.value <> '' AND tags.value NOT GLOB '*[^0-9]*'
                              AND CAST(tags.value AS INTEGER) < <now>
   CAST of a digit string that exceeds the 64-bit range yields 9223372036854775807. *)
Definition all_digits (s : pystr) : bool := negb (match s with [] => true | _ => false end) && forallb is_digit s.
Definition digits_value (s : pystr) : Z :=
  fold_left (fun acc c => acc * 10 + Z.of_N (c - 48)) s 0.
Definition cast_integer (s : pystr) : Z := Z.min (digits_value s) 9223372036854775807.
Definition s_expiration_name : pystr := pys "expiration".
Definition expired_value (now : Z) (v : pystr) : bool := all_digits v && (cast_integer v <? now).
Definition gc_pred (now : Z) (tags : list trow) (r : row) : bool :=
  ((20000 <=? r_kind r) && (r_kind r <? 30000)) ||
  existsb (fun t => bytes_eqb (t_id t) (r_id r) && str_eqb (t_name t) s_expiration_name &&
                    expired_value now (t_value t)) tags.

Definition exec (s : stmt) (d : db) : (db * result) + engine_err :=
  match s with
  | SSelectById i => inl (d, RRows (filter (fun r => bytes_eqb (r_id r) i) (d_events d)))
  | SSelectOlder pk k c =>
      if int64_ok k && int64_ok c then inl (d, RRows (filter (older_pred pk k c) (d_events d)))
      else inr XOverflow
  | SDeleteIds ids => let '(d', n) := delete_where (fun r => mem_bytes (r_id r) ids) d in inl (d', RCount n)
  | SInsertEvent r =>
      if int64_ok (r_kind r) && int64_ok (r_created r)
      then let '(d', n) := insert_event r d in inl (d', RCount n)
      else inr XOverflow
  | SDeleteOlder pk k c =>
      if int64_ok k && int64_ok c
      then let '(d', n) := delete_where (older_pred pk k c) d in inl (d', RCount n)
      else inr XOverflow
  | SInsertTags l =>
      match insert_tags l d with Some d' => inl (d', RCount (length l)) | None => inr XIntegrity end
  | SDeleteOwn pk i =>
      let '(d', n) := delete_where (fun r => bytes_eqb (r_pubkey r) pk && bytes_eqb (r_id r) i) d in inl (d', RCount n)
  | SGc now => let '(d', n) := delete_where (gc_pred now (d_tags d)) d in inl (d', RCount n)
  end.

Definition rows_of (r : result) : list row := match r with RRows l => l | RCount _ => [] end.
Definition count_of (r : result) : nat := match r with RCount n => n | RRows l => length l end.
