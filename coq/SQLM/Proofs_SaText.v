(* SQLM - F27: sqlalchemy.text() preprocessing is the identity on the statements build_query hands to it
   (after the colon escaping of string literals): SQLite receives exactly the rendering of the model's tokens,
   for every Unicode word-character predicate that excludes colon, backslash and the single quote. *)
From NR Require Import Lib.Base Lib.BaseFacts Lib.Nip01 SQLM.Query SQLM.Text SQLM.Proofs_Text.
From Coq Require Import ZifyBool.
Open Scope list_scope. Open Scope N_scope.

Section SaTextId.
  Variable w : cp -> bool.
  Hypothesis w_colon : w c_colon = false.
  Hypothesis w_bslash : w c_bslash = false.
  Hypothesis w_quote : w c_quote = false.

  (* ---- no bound parameter is ever recognised: every colon follows a backslash ---- *)
  Fixpoint guarded (prev_bslash : bool) (s : pystr) : bool :=
    match s with
    | [] => true
    | c :: r => (if c =? c_colon then prev_bslash else true) && guarded (c =? c_bslash) r
    end.
  Lemma guarded_no_bind : forall s pb b, guarded b s = true -> (b = true -> pb = true) -> has_bind_from w pb s = false.
  Proof.
    induction s as [|c r IH]; intros pb b Hg Hb; [reflexivity|]. cbn [guarded] in Hg. apply andb_true_iff in Hg. destruct Hg as [Hc Hr].
    cbn [has_bind_from].
    assert (E : ((c =? c_colon) && negb pb) = false).
    { destruct (c =? c_colon); [|reflexivity]. rewrite (Hb Hc). reflexivity. }
    rewrite E. cbn [andb]. apply (IH _ (c =? c_bslash) Hr). intros Hbs. rewrite Hbs. rewrite !orb_true_r. reflexivity.
  Qed.
  Lemma guarded_no_colon : forall s b, existsb (N.eqb c_colon) s = false -> guarded b s = true.
  Proof.
    induction s as [|c r IH]; intros b H; [reflexivity|]. cbn [existsb] in H. apply orb_false_iff in H. destruct H as [Hc Hr].
    cbn [guarded]. rewrite N.eqb_sym, Hc. cbn [andb]. apply IH. exact Hr.
  Qed.
  Lemma guarded_app_nc : forall s rest b, existsb (N.eqb c_colon) s = false -> existsb (N.eqb c_bslash) s = false ->
    s <> [] -> guarded b (s ++ rest) = guarded false rest.
  Proof.
    induction s as [|c r IH]; intros rest b Hc Hb Hne; [congruence|]. cbn [existsb] in Hc, Hb.
    apply orb_false_iff in Hc. apply orb_false_iff in Hb. destruct Hc as [Hc Hcr]. destruct Hb as [Hb Hbr].
    cbn [app guarded]. rewrite N.eqb_sym, Hc. cbn [andb]. rewrite (N.eqb_sym c c_bslash), Hb.
    destruct r as [|c2 r2]; [reflexivity|]. apply IH; [exact Hcr | exact Hbr | discriminate].
  Qed.
  Lemma guarded_escape : forall u q rest b, (q =? c_colon) = false ->
    guarded b (colon_escape u ++ q :: rest) = guarded (q =? c_bslash) rest.
  Proof.
    induction u as [|c u IH]; intros q rest b Hq.
    - cbn [colon_escape flat_map app guarded]. rewrite Hq. reflexivity.
    - change (colon_escape (c :: u)) with ((if c =? c_colon then [c_bslash; c_colon] else [c]) ++ colon_escape u).
      destruct (c =? c_colon) eqn:E.
      + cbn [app guarded]. change (c_bslash =? c_colon) with false. change (c_bslash =? c_bslash) with true.
        change (c_colon =? c_colon) with true. change (c_colon =? c_bslash) with false. cbn [andb]. apply IH. exact Hq.
      + cbn [app guarded]. rewrite E. cbn [andb]. apply IH. exact Hq.
  Qed.

  (* ---- the unescape pass restores the original characters ---- *)
  Lemma unescape_skip : forall l tail, unescape_from w (length l) (l ++ tail) = unescape_from w O tail.
  Proof. induction l as [|c l IH]; intros tail; [reflexivity|]. destruct tail; simpl; apply IH. Qed.
  Lemma unescape_plain : forall s rest, existsb (N.eqb c_bslash) s = false ->
    unescape_from w O (s ++ rest) = s ++ unescape_from w O rest.
  Proof.
    induction s as [|c r IH]; intros rest H; [reflexivity|]. cbn [existsb] in H. apply orb_false_iff in H. destruct H as [Hc Hr].
    cbn [app unescape_from]. rewrite N.eqb_sym, Hc. cbn [andb]. rewrite (IH rest Hr). reflexivity.
  Qed.
  Lemma wd_colon : w_dollar w c_colon = false. Proof. unfold w_dollar. rewrite w_colon. reflexivity. Qed.
  Lemma wd_bslash : w_dollar w c_bslash = false. Proof. unfold w_dollar. rewrite w_bslash. reflexivity. Qed.
  Lemma wd_quote : w_dollar w c_quote = false. Proof. unfold w_dollar. rewrite w_quote. reflexivity. Qed.

  Lemma colon_escape_app a b : colon_escape (a ++ b) = colon_escape a ++ colon_escape b.
  Proof. unfold colon_escape. apply flat_map_app. Qed.
  Lemma colon_escape_wd a : forallb (w_dollar w) a = true -> colon_escape a = a.
  Proof.
    induction a as [|c a IH]; intros H; [reflexivity|]. cbn [forallb] in H. apply andb_true_iff in H. destruct H as [Hc Ha].
    change (colon_escape (c :: a)) with ((if c =? c_colon then [c_bslash; c_colon] else [c]) ++ colon_escape a).
    destruct (c =? c_colon) eqn:E; [apply N.eqb_eq in E; subst c; rewrite wd_colon in Hc; discriminate|]. rewrite (IH Ha). reflexivity.
  Qed.
  Lemma span_split (p : cp -> bool) : forall u, let '(a, b) := span p u in u = a ++ b /\ forallb p a = true /\ head_is p b = false.
  Proof.
    induction u as [|c u IH]; [simpl; auto|]. cbn [span]. destruct (p c) eqn:E.
    - destruct (span p u) as [a b]. destruct IH as [H1 [H2 H3]]. cbn [app forallb]. rewrite E, H2. subst u. auto.
    - simpl. rewrite E. auto.
  Qed.
  Lemma span_escape : forall u rest,
    span (w_dollar w) (colon_escape u ++ c_quote :: rest) =
    let '(a, b) := span (w_dollar w) u in (a, colon_escape b ++ c_quote :: rest).
  Proof.
    induction u as [|c u IH]; intros rest.
    - cbn [colon_escape flat_map app span]. rewrite wd_quote. reflexivity.
    - change (colon_escape (c :: u)) with ((if c =? c_colon then [c_bslash; c_colon] else [c]) ++ colon_escape u).
      destruct (c =? c_colon) eqn:E.
      + apply N.eqb_eq in E. subst c. cbn [app span]. rewrite wd_bslash, wd_colon.
        change (colon_escape (c_colon :: u)) with ([c_bslash; c_colon] ++ colon_escape u). reflexivity.
      + cbn [app span]. destruct (w_dollar w c) eqn:Ew.
        * rewrite IH. destruct (span (w_dollar w) u) as [a b]. reflexivity.
        * change (colon_escape (c :: u)) with ((if c =? c_colon then [c_bslash; c_colon] else [c]) ++ colon_escape u). rewrite E. reflexivity.
  Qed.
  Lemma head_colon_escape b rest : head_is (w_dollar w) b = false -> head_is (N.eqb c_colon) (colon_escape b ++ c_quote :: rest) = false.
  Proof.
    destruct b as [|c b]; intros H; [reflexivity|].
    change (colon_escape (c :: b)) with ((if c =? c_colon then [c_bslash; c_colon] else [c]) ++ colon_escape b).
    destruct (c =? c_colon) eqn:E; [reflexivity|]. cbn [app head_is]. rewrite N.eqb_sym. exact E.
  Qed.

  Lemma unescape_escape_len : forall n u rest, (length u <= n)%nat ->
    unescape_from w O (colon_escape u ++ c_quote :: rest) = u ++ c_quote :: unescape_from w O rest.
  Proof.
    induction n as [|n IH]; intros u rest Hlen.
    - destruct u; [reflexivity | simpl in Hlen; lia].
    - destruct u as [|c u]; [reflexivity|].
      change (colon_escape (c :: u)) with ((if c =? c_colon then [c_bslash; c_colon] else [c]) ++ colon_escape u).
      destruct (c =? c_colon) eqn:E.
      + apply N.eqb_eq in E. subst c. cbn [app]. cbn [unescape_from]. change (c_bslash =? c_bslash) with true.
        cbn [head_is]. change (c_colon =? c_colon) with true. cbn [andb tl].
        rewrite span_escape. pose proof (span_split (w_dollar w) u) as S. destruct (span (w_dollar w) u) as [a b].
        destruct S as [Hu [Ha Hb]]. rewrite (head_colon_escape b rest Hb).
        assert (Er : colon_escape u ++ c_quote :: rest = a ++ (colon_escape b ++ c_quote :: rest)).
        { rewrite Hu, colon_escape_app, (colon_escape_wd a Ha), <- app_assoc. reflexivity. }
        rewrite Er. rewrite unescape_skip.
        rewrite (IH b rest) by (simpl in Hlen; rewrite Hu, app_length in Hlen; lia).
        rewrite Hu. rewrite <- !app_assoc. reflexivity.
      + cbn [app unescape_from].
        assert (Ec : ((c =? c_bslash) && head_is (N.eqb c_colon) (colon_escape u ++ c_quote :: rest)) = false).
        { destruct (c =? c_bslash) eqn:Eb; [|reflexivity]. cbn [andb].
          destruct u as [|c2 u2]; [reflexivity|].
          change (colon_escape (c2 :: u2)) with ((if c2 =? c_colon then [c_bslash; c_colon] else [c2]) ++ colon_escape u2).
          destruct (c2 =? c_colon) eqn:E2; [reflexivity|]. cbn [app head_is]. rewrite N.eqb_sym. exact E2. }
        rewrite Ec. rewrite (IH u rest) by (simpl in Hlen; lia). reflexivity.
  Qed.

  (* ---- tokens ---- *)
  Lemma forallb_excl (p : cp -> bool) x s : (forall c, p c = true -> N.eqb x c = false) -> forallb p s = true -> existsb (N.eqb x) s = false.
  Proof.
    intros Hp. induction s as [|c s IH]; cbn [existsb forallb]; [reflexivity|]. intros H.
    apply andb_true_iff in H. destruct H as [Hc Hs]. rewrite (Hp c Hc), (IH Hs). reflexivity.
  Qed.
  Lemma hex_char_cases c : is_hex_char c = true -> (48 <= c <= 57) \/ (97 <= c <= 102) \/ (65 <= c <= 70).
  Proof.
    unfold is_hex_char, hexval.
    destruct (N.leb 48 c && N.leb c 57) eqn:E1; [lia|]. destruct (N.leb 97 c && N.leb c 102) eqn:E2; [lia|].
    destruct (N.leb 65 c && N.leb c 70) eqn:E3; [lia | discriminate].
  Qed.
  Definition is_str_tok (t : tok) : bool := match t with TStr _ => true | _ => false end.
  Lemma plain_no_special t x : wf_tok t = true -> is_str_tok t = false -> (x = c_colon \/ x = c_bslash) ->
    existsb (N.eqb x) (render_tok t) = false.
  Proof.
    intros H Hp Hx. destruct t as [s|s|s|s|s]; try discriminate; unfold wf_tok in H; cbn [render_tok].
    - apply andb_true_iff in H. destruct H as [_ H]. revert H. apply forallb_excl. intros c Hc. destruct Hx; subst x; unfold c_colon, c_bslash; cc.
    - apply andb_true_iff in H. destruct H as [_ H]. revert H. apply forallb_excl. intros c Hc. destruct Hx; subst x; unfold c_colon, c_bslash; cc.
    - apply andb_true_iff in H. destruct H as [H _]. cbn [existsb]. rewrite existsb_app. cbn [existsb].
      rewrite (forallb_excl is_hex_char x s); [destruct Hx; subst x; reflexivity | | exact H].
      intros c Hc. apply hex_char_cases in Hc. destruct Hx; subst x; unfold c_colon, c_bslash; lia.
    - apply mem_str_In in H. unfold sym_list in H. simpl in H.
      repeat (destruct H as [H|H]; [subst s; destruct Hx; subst x; reflexivity |]). contradiction.
  Qed.
  Lemma quote_not_special : (c_quote =? c_colon) = false /\ (c_quote =? c_bslash) = false /\ (c_space =? c_colon) = false /\ (c_space =? c_bslash) = false.
  Proof. repeat split; reflexivity. Qed.

  (* one token followed by its separating space *)
  Lemma py_tok_guarded t rest b : wf_tok t = true ->
    guarded b (py_render_tok t ++ c_space :: rest) = guarded false rest.
  Proof.
    intros H. destruct (is_str_tok t) eqn:Es.
    - destruct t as [s|s|s|s|s]; try discriminate. cbn [py_render_tok].
      change ((c_quote :: colon_escape (sql_quote s) ++ [c_quote]) ++ c_space :: rest)
        with (c_quote :: ((colon_escape (sql_quote s) ++ [c_quote]) ++ c_space :: rest)).
      rewrite <- app_assoc. cbn [app guarded]. change (c_quote =? c_colon) with false. change (c_quote =? c_bslash) with false. cbn [andb].
      rewrite guarded_escape by reflexivity. change (c_quote =? c_bslash) with false. cbn [guarded].
      change (c_space =? c_colon) with false. change (c_space =? c_bslash) with false. reflexivity.
    - assert (E : py_render_tok t = render_tok t) by (destruct t; try reflexivity; discriminate). rewrite E.
      rewrite guarded_app_nc.
      + cbn [guarded]. reflexivity.
      + apply plain_no_special; auto.
      + apply plain_no_special; auto.
      + pose proof (render_tok_nonempty t H) as L. destruct (render_tok t); [simpl in L; lia | discriminate].
  Qed.
  Lemma py_render_guarded : forall toks, wf_toks toks = true -> guarded false (py_render toks) = true.
  Proof.
    induction toks as [|t toks IH]; intros H; [reflexivity|]. cbn [wf_toks forallb] in H. apply andb_true_iff in H. destruct H as [Ht Hts].
    unfold py_render. cbn [flat_map]. fold (py_render toks). rewrite <- app_assoc. cbn [app].
    rewrite (py_tok_guarded t (py_render toks) false Ht). apply IH. exact Hts.
  Qed.

  Lemma py_tok_unescape t rest : wf_tok t = true ->
    unescape_from w O (py_render_tok t ++ c_space :: rest) = render_tok t ++ c_space :: unescape_from w O rest.
  Proof.
    intros H. destruct (is_str_tok t) eqn:Es.
    - destruct t as [s|s|s|s|s]; try discriminate. cbn [py_render_tok render_tok].
      change ((c_quote :: colon_escape (sql_quote s) ++ [c_quote]) ++ c_space :: rest)
        with (c_quote :: ((colon_escape (sql_quote s) ++ [c_quote]) ++ c_space :: rest)).
      rewrite <- app_assoc. cbn [app]. cbn [unescape_from]. change (c_quote =? c_bslash) with false. cbn [andb].
      rewrite (unescape_escape_len (length (sql_quote s))) by lia.
      cbn [unescape_from]. change (c_space =? c_bslash) with false. cbn [andb].
      change ((c_quote :: sql_quote s ++ [c_quote]) ++ c_space :: unescape_from w O rest)
        with (c_quote :: ((sql_quote s ++ [c_quote]) ++ c_space :: unescape_from w O rest)).
      rewrite <- app_assoc. reflexivity.
    - assert (E : py_render_tok t = render_tok t) by (destruct t; try reflexivity; discriminate). rewrite E.
      rewrite unescape_plain by (apply plain_no_special; auto).
      cbn [unescape_from]. change (c_space =? c_bslash) with false. reflexivity.
  Qed.
  Lemma py_render_unescape : forall toks, wf_toks toks = true -> unescape_from w O (py_render toks) = render toks.
  Proof.
    induction toks as [|t toks IH]; intros H; [reflexivity|]. cbn [wf_toks forallb] in H. apply andb_true_iff in H. destruct H as [Ht Hts].
    unfold py_render, render. cbn [flat_map]. fold (py_render toks). fold (render toks). rewrite <- !app_assoc. cbn [app].
    rewrite (py_tok_unescape t (py_render toks) Ht), (IH Hts). reflexivity.
  Qed.

  (* F27, repaired: text() hands SQLite exactly the rendering of the tokens *)
  Theorem sa_text_pre_identity : forall toks, wf_toks toks = true -> sa_text_pre w (py_render toks) = Some (render toks).
  Proof.
    intros toks H. unfold sa_text_pre, has_bind.
    rewrite (guarded_no_bind (py_render toks) false false (py_render_guarded toks H)) by discriminate.
    rewrite (py_render_unescape toks H). reflexivity.
  Qed.
End SaTextId.

(* for every history-independent REQ of validated filters: the statement SQLite receives lexes to the model's tokens *)
Theorem sql_received_statement : forall w dl ml fs,
  w c_colon = false -> w c_bslash = false -> w c_quote = false -> forallb valid_filter fs = true ->
  let toks := query_toks (build_query dl ml fs) in
  exists received, sa_text_pre w (py_render toks) = Some received /\ lex received = Some toks.
Proof.
  intros w dl ml fs H1 H2 H3 Hv toks. exists (render toks). split.
  - apply sa_text_pre_identity; auto. apply build_query_tokens_wf. exact Hv.
  - apply sql_lex_roundtrip. apply build_query_tokens_wf. exact Hv.
Qed.
