(* C17, SQL half: garbage collection removes expired and ephemeral events and nothing else. *)
From NR Require Import Lib.Base Lib.BaseFacts Lib.Nip01 SQLM.Rel SQLM.Write SQLM.Spec SQLM.Examples
     SQLM.Proofs_Rel SQLM.Proofs_Write SQLM.Proofs_Gc.
Open Scope list_scope. Open Scope Z_scope.

(* gc_exact: after a pass at time T the store holds exactly the events that are neither of an ephemeral
   kind nor carry an expiration tag whose value is a decimal number below T
   (may_collect; T is int(time()), below 2^63) *)
Theorem sql_gc_exact : forall now h T, T <= int64_max ->
  stored (fst (collect T (run_history now h))) =
  List.filter (fun e => negb (may_collect T e)) (stored (run_history now h)).
Proof. intros. apply gc_exact; [assumption | apply history_Inv]. Qed.
(* gc_frame: no row is added or altered, and the tags table stays exactly the tag rows of the kept events *)
Theorem sql_gc_frame : forall now h T,
  Inv (fst (collect T (run_history now h))) /\
  forall r, In r (d_events (fst (collect T (run_history now h)))) -> In r (d_events (run_history now h)).
Proof. intros. apply gc_frame. apply history_Inv. Qed.
(* the executable statement used as oracle: must_collect (ephemeral, or FIRST expiration tag well-formed
   and earlier than T) are gone, everything that is not may_collect is kept *)
Theorem sql_gc_statement : forall now h T, T <= int64_max ->
  c17_ok T (stored (run_history now h)) (stored (fst (collect T (run_history now h)))) = true.
Proof. intros. apply gc_statement; [assumption | apply history_Inv]. Qed.

(* non-vacuity (F21 values): at T = 1700000000 the pass removes "999999999" (numerically earlier) and the
   ephemeral kinds 20000/29999, keeps T, "10000000000", "", "abc", "1e9" and the boundary kinds 19999/30000 *)
Example c17_values :
  ids_of (fst (collect 1700000000 (run_history now0
     [mkev "01" "aa" 10 1 [["expiration"; "999999999"]]; mkev "02" "aa" 10 1 [["expiration"; "1700000000"]];
      mkev "03" "aa" 10 1 [["expiration"; "10000000000"]]; mkev "04" "aa" 10 1 [["expiration"; ""]];
      mkev "05" "aa" 10 1 [["expiration"; "abc"]]; mkev "06" "aa" 10 1 [["expiration"; "1e9"]];
      mkev "07" "aa" 10 19999 []; mkev "08" "aa" 10 20000 []; mkev "09" "aa" 10 29999 []; mkev "0a" "aa" 10 30000 [];
      mkev "0b" "aa" 10 1 [["expiration"; "1699999999"]]])))
  = [pys "02"; pys "03"; pys "04"; pys "05"; pys "06"; pys "07"; pys "0a"].
Proof. vm_compute. reflexivity. Qed.
