(* SQLM - from the exact characterisation of one transaction (txn_spec) to the statements of
   C09, C08, C06 (b)-(e) over events. *)
From NR Require Import Lib.Base Lib.BaseFacts Lib.Nip01
     SQLM.Rel SQLM.Write SQLM.Spec SQLM.Proofs_Hex SQLM.Proofs_Rel SQLM.Proofs_Write.
From Coq Require Import ZifyBool.
Open Scope list_scope. Open Scope Z_scope.

(* ---------- rows and the events they denote ---------- *)
Lemma ev_id_inj r1 r2 : row_ok r1 -> row_ok r2 -> w_id (event_of_row r1) = w_id (event_of_row r2) -> r_id r1 = r_id r2.
Proof. intros [H1 _] [H2 _] E. simpl in E. apply hex_of_bytes_inj; assumption. Qed.

Lemma in_store_stored d x : Inv d -> row_ok x ->
  in_store (event_of_row x) (stored d) = true <-> exists r, In r (d_events d) /\ r_id r = r_id x.
Proof.
  intros [_ [_ Hrows]] Hx. unfold in_store, stored. rewrite existsb_exists. split.
  - intros [y [Hy E]]. apply in_map_iff in Hy. destruct Hy as [r [<- Hr]]. exists r. split; [exact Hr|].
    apply str_eqb_eq in E. apply ev_id_inj; auto.
  - intros [r [Hr E]]. exists (event_of_row r). split; [apply in_map; exact Hr|]. apply str_eqb_eq. simpl. rewrite E. reflexivity.
Qed.

Lemma row_of_event_bytes e r : row_of_event e = Some r ->
  Forall is_byte (r_pubkey r) /\ Forall is_byte (r_id r) /\ Forall is_byte (r_sig r).
Proof.
  unfold row_of_event. destruct (py_fromhex (w_id e)) eqn:E1; [|discriminate].
  destruct (py_fromhex (w_pubkey e)) eqn:E2; [|discriminate]. destruct (py_fromhex (w_sig e)) eqn:E3; [|discriminate].
  intros H. inversion H. simpl. repeat split; eapply py_fromhex_bytes; eassumption.
Qed.

(* canonical form: for an admitted event (lower-case hex) the stored row denotes the event itself *)
Lemma wf_hex_lower n s : wf_hex n s = true -> is_lower_hex s = true.
Proof. unfold wf_hex. intros H. apply andb_true_iff in H. tauto. Qed.
Lemma event_of_row_of_event e r : wf_wevent e = true -> row_of_event e = Some r -> event_of_row r = e.
Proof.
  unfold wf_wevent. intros H.
  apply andb_true_iff in H. destruct H as [H _]. apply andb_true_iff in H. destruct H as [H _].
  apply andb_true_iff in H. destruct H as [H _]. apply andb_true_iff in H. destruct H as [H Hs].
  apply andb_true_iff in H. destruct H as [Hi Hp].
  unfold row_of_event. destruct (py_fromhex (w_id e)) eqn:E1; [|discriminate].
  destruct (py_fromhex (w_pubkey e)) eqn:E2; [|discriminate]. destruct (py_fromhex (w_sig e)) eqn:E3; [|discriminate].
  intros R. inversion R. unfold event_of_row. simpl.
  rewrite (hex_fromhex_lower _ _ (wf_hex_lower _ _ Hi) E1), (hex_fromhex_lower _ _ (wf_hex_lower _ _ Hp) E2),
          (hex_fromhex_lower _ _ (wf_hex_lower _ _ Hs) E3).
  destruct e; reflexivity.
Qed.

(* ---------- addresses: Lib.Nip01.same_address on events vs the row predicate ---------- *)
Lemma kind_classes k :
  is_replaceable_kind k = is_repl_py k || meta_kind k /\ is_param_replaceable_kind k = is_param_py k.
Proof.
  unfold is_replaceable_kind, is_param_replaceable_kind, is_repl_py, is_param_py, meta_kind, kind_SET_METADATA, kind_CONTACTS.
  split; lia.
Qed.

Lemma supersedes_superseded r0 x : Forall is_byte (r_pubkey r0) -> Forall is_byte (r_pubkey x) ->
  supersedes (event_of_row r0) (event_of_row x) = superseded r0 x.
Proof.
  intros Hp0 Hpx. unfold supersedes, same_address, address, superseded, older_pred. simpl.
  destruct (kind_classes (r_kind x)) as [Rx Px]. destruct (kind_classes (r_kind r0)) as [R0 P0].
  rewrite Rx, Px, R0, P0.
  assert (Hpk : str_eqb (hex_of_bytes (r_pubkey x)) (hex_of_bytes (r_pubkey r0)) = bytes_eqb (r_pubkey x) (r_pubkey r0)).
  { destruct (bytes_eqb (r_pubkey x) (r_pubkey r0)) eqn:E.
    - apply bytes_eqb_eq in E. rewrite E. apply str_eqb_refl.
    - apply str_eqb_neq. intros C. apply hex_of_bytes_inj in C; auto. rewrite C, bytes_eqb_refl in E. discriminate. }
  destruct (r_kind x =? r_kind r0) eqn:Ek.
  - apply Z.eqb_eq in Ek. rewrite Ek.
    destruct (is_repl_py (r_kind r0) || meta_kind (r_kind r0)); destruct (is_param_py (r_kind r0));
      simpl; rewrite ?Hpk, ?Z.eqb_refl;
      destruct (bytes_eqb (r_pubkey x) (r_pubkey r0)); destruct (str_eqb (d_value (r_tags x)) (d_value (r_tags r0)));
      destruct (r_created x <? r_created r0); reflexivity.
  - destruct (is_repl_py (r_kind x) || meta_kind (r_kind x)); destruct (is_repl_py (r_kind r0) || meta_kind (r_kind r0));
      destruct (is_param_py (r_kind x)); destruct (is_param_py (r_kind r0)); simpl; rewrite ?Ek, ?andb_false_r; reflexivity.
Qed.

Lemma superseded_frame r0 x : Forall is_byte (r_pubkey r0) -> Forall is_byte (r_pubkey x) -> superseded r0 x = true ->
  same_address (event_of_row x) (event_of_row r0) = true /\ w_created (event_of_row x) < w_created (event_of_row r0).
Proof.
  intros H0 Hx H. rewrite <- (supersedes_superseded r0 x H0 Hx) in H. unfold supersedes in H.
  apply andb_true_iff in H. destruct H as [Ha Hc]. split; [exact Ha | lia].
Qed.

(* ---------- references: Lib.Nip01.e_refs vs the loop over the e tags ---------- *)
Lemma ref_in_e_refs tags i : Forall is_byte i ->
  ref_in tags i = existsb (fun v => match py_fromhex v, py_fromhex (hex_of_bytes i) with
                                    | Some a, Some b => bytes_eqb a b | _, _ => false end)
                          (flat_map (fun t => match t with n :: v :: _ => if str_eqb n s_e then [v] else [] | _ => [] end) tags).
Proof.
  intros Hi. rewrite (py_fromhex_hex i Hi). induction tags as [|t rest IH]; [reflexivity|].
  unfold ref_in in *. cbn [existsb flat_map]. rewrite existsb_app, <- IH.
  destruct t as [|n [|v t']]; try reflexivity. destruct (str_eqb n s_e); [|reflexivity]. cbn [andb existsb].
  rewrite orb_false_r. destruct (py_fromhex v) as [j|]; [|reflexivity]. f_equal.
  destruct (bytes_eqb i j) eqn:E.
  - apply bytes_eqb_eq in E. subst. symmetry. apply bytes_eqb_refl.
  - symmetry. apply str_eqb_neq. intros C. subst. rewrite bytes_eqb_refl in E. discriminate.
Qed.

Lemma may_delete_ref_deleted r0 x : Forall is_byte (r_pubkey r0) -> row_ok x ->
  may_delete (event_of_row r0) (event_of_row x) = ref_deleted r0 x.
Proof.
  intros Hp0 [Hix [Hpx _]]. unfold may_delete, ref_deleted, same_author, references, ref_matches, e_refs. simpl.
  rewrite (py_fromhex_hex _ Hp0), (py_fromhex_hex _ Hpx). rewrite (ref_in_e_refs _ _ Hix). unfold kind_DELETE.
  f_equal. f_equal. destruct (bytes_eqb (r_pubkey x) (r_pubkey r0)) eqn:E.
  - apply bytes_eqb_eq in E. rewrite E. apply bytes_eqb_refl.
  - apply str_eqb_neq. intros C. subst. rewrite C, bytes_eqb_refl in E. discriminate.
Qed.

(* ---------- one accepted submission, over events ---------- *)
Section OneSubmission.
  Variables (now : Z) (d : db) (e : wevent).
  Hypothesis HInv : Inv d.
  Let res := add_event None now true true d e.
  Let d' := ar_db res.

  Lemma res_cases :
    (exists x, ar_out res = inr x /\ d' = d) \/
    (ar_out res = inl false /\ d' = d /\ exists i, py_fromhex (w_id (event_init now e)) = Some i /\ has_id i (d_events d) = true) \/
    (ar_out res = inl true /\ Inv d' /\ exists r0, row_of_event (event_init now e) = Some r0 /\ has_id (r_id r0) (d_events d) = false /\
       forall r, In r (d_events d') <-> (In r (d_events d) \/ r = r0) /\ removed_by r0 r = false).
  Proof.
    pose proof (add_event_eval None now true true d e eq_refl eq_refl eq_refl) as A. simpl in A. fold res in A.
    destruct (eval d (txn_body (event_init now e))) as [[d1 c]|x] eqn:E.
    - destruct A as [A1 A2]. destruct (txn_spec d _ d1 c HInv E) as [Hi [[-> [-> Hdup]] | [-> Hacc]]].
      + right. left. unfold d'. rewrite A1. auto.
      + right. right. unfold d'. rewrite A1. auto.
    - left. exists x. unfold d'. tauto.
  Qed.

  Lemma Inv_after : Inv d'.
  Proof.
    destruct res_cases as [[x [_ ->]] | [[_ [-> _]] | [_ [H _]]]]; auto.
  Qed.

  (* C09 (i) *)
  Lemma removes_older r0 : row_of_event (event_init now e) = Some r0 -> ar_out res = inl true ->
    c09_removes_older (stored d) (stored d') (event_of_row r0) = true.
  Proof.
    intros Er Hout. destruct res_cases as [[x [Hx _]] | [[Hx _] | [_ [Hinv' [r1 [Er1 [Hfresh Hev]]]]]]]; try congruence.
    rewrite Er in Er1. inversion Er1. subst r1.
    assert (Hok0 : Forall is_byte (r_pubkey r0)) by (apply (row_of_event_bytes _ _ Er)).
    unfold c09_removes_older. apply forallb_forall. intros x Hx. unfold stored in Hx. apply in_map_iff in Hx.
    destruct Hx as [rx [<- Hrx]]. assert (Hokx : row_ok rx) by (destruct HInv as [_ [_ Hr]]; apply Hr; exact Hrx).
    rewrite (supersedes_superseded r0 rx Hok0 (proj1 (proj2 Hokx))).
    destruct (superseded r0 rx) eqn:Es; [|reflexivity]. simpl.
    apply negb_true_iff. destruct (in_store (event_of_row rx) (stored d')) eqn:Ein; [|reflexivity]. exfalso.
    apply (in_store_stored d' rx Hinv' Hokx) in Ein. destruct Ein as [ry [Hry Eid]].
    apply Hev in Hry. destruct Hry as [[Hry | ->] Hrm].
    + destruct HInv as [Hpk _]. rewrite (PK_unique d ry rx Hpk Hry Hrx Eid) in Hrm. unfold removed_by in Hrm. rewrite Es in Hrm. discriminate.
    + apply has_id_false in Hfresh. apply Hfresh. rewrite Eid. apply in_map. exact Hrx.
  Qed.
End OneSubmission.

Section OneSubmissionMore.
  Variables (now : Z) (d : db) (e : wevent).
  Hypothesis HInv : Inv d.
  Let res := add_event None now true true d e.
  Let d' := ar_db res.

  Lemma in_store_self x : In x (d_events d) -> in_store (event_of_row x) (stored d) = true.
  Proof.
    intros Hx. unfold in_store, stored. apply existsb_exists. exists (event_of_row x).
    split; [apply in_map; exact Hx | apply str_eqb_refl].
  Qed.

  (* C09 (ii) / C08 frame: whatever the outcome, an event that disappears is an older version of the
     submitted event's address or an own event referenced by the submitted deletion *)
  Lemma frame r0 : row_of_event (event_init now e) = Some r0 ->
    c09_frame (stored d) (stored d') (event_of_row r0) = true.
  Proof.
    intros Er. unfold c09_frame. apply forallb_forall. intros x Hx. unfold stored in Hx. apply in_map_iff in Hx.
    destruct Hx as [rx [<- Hrx]].
    assert (Hokx : row_ok rx) by (destruct HInv as [_ [_ Hr]]; apply Hr; exact Hrx).
    destruct (row_of_event_bytes _ _ Er) as [Hp0 _].
    destruct (res_cases now d e HInv) as [[x [_ E]] | [[_ [E _]] | [_ [Hinv' [r1 [Er1 [Hfresh Hev]]]]]]].
    - unfold d', res. rewrite E. rewrite (in_store_self rx Hrx). reflexivity.
    - unfold d', res. rewrite E. rewrite (in_store_self rx Hrx). reflexivity.
    - rewrite Er in Er1. inversion Er1. subst r1. fold d' in Hev, Hinv'.
      destruct (removed_by r0 rx) eqn:Erm.
      + unfold removed_by in Erm. apply orb_true_iff in Erm. destruct Erm as [Es | Ed].
        * destruct (superseded_frame r0 rx Hp0 (proj1 (proj2 Hokx)) Es) as [Ha Hc]. rewrite Ha.
          assert (Hle : (w_created (event_of_row rx) <=? w_created (event_of_row r0)) = true) by lia.
          rewrite Hle. simpl. rewrite orb_true_r. reflexivity.
        * rewrite (may_delete_ref_deleted r0 rx Hp0 Hokx), Ed. rewrite orb_true_r. reflexivity.
      + assert (Hin : In rx (d_events d')) by (apply Hev; split; [left; exact Hrx | exact Erm]).
        assert (E : in_store (event_of_row rx) (stored d') = true).
        { unfold in_store, stored. apply existsb_exists. exists (event_of_row rx). split; [apply in_map; exact Hin | apply str_eqb_refl]. }
        rewrite E. reflexivity.
  Qed.

  (* C08: an accepted deletion removes every own referenced event (older or not) *)
  Lemma delete_effective r0 : row_of_event (event_init now e) = Some r0 -> ar_out res = inl true ->
    forall x, In x (d_events d) -> may_delete (event_of_row r0) (event_of_row x) = true ->
              in_store (event_of_row x) (stored d') = false.
  Proof.
    intros Er Hout x Hx Hm.
    assert (Hokx : row_ok x) by (destruct HInv as [_ [_ Hr]]; apply Hr; exact Hx).
    destruct (row_of_event_bytes _ _ Er) as [Hp0 _].
    destruct (res_cases now d e HInv) as [[y [Hy _]] | [[Hy _] | [_ [Hinv' [r1 [Er1 [Hfresh Hev]]]]]]]; try (fold res in Hy; congruence).
    rewrite Er in Er1. inversion Er1. subst r1. fold d' in Hev, Hinv'.
    rewrite (may_delete_ref_deleted r0 x Hp0 Hokx) in Hm.
    destruct (in_store (event_of_row x) (stored d')) eqn:Ein; [|reflexivity]. exfalso.
    apply (in_store_stored d' x Hinv' Hokx) in Ein. destruct Ein as [ry [Hry Eid]].
    apply Hev in Hry. destruct Hry as [[Hry | ->] Hrm].
    - destruct HInv as [Hpk _]. rewrite (PK_unique d ry x Hpk Hry Hx Eid) in Hrm. unfold removed_by in Hrm. rewrite Hm, orb_true_r in Hrm. discriminate.
    - apply has_id_false in Hfresh. apply Hfresh. rewrite Eid. apply in_map. exact Hx.
  Qed.
  Lemma c08_effective_holds r0 : row_of_event (event_init now e) = Some r0 -> ar_out res = inl true ->
    c08_effective (stored d) (stored d') (event_of_row r0) = true.
  Proof.
    intros Er Hout. unfold c08_effective. apply forallb_forall. intros x Hx. unfold stored in Hx. apply in_map_iff in Hx.
    destruct Hx as [rx [<- Hrx]]. destruct (may_delete (event_of_row r0) (event_of_row rx)) eqn:Em; [|reflexivity].
    rewrite (delete_effective r0 Er Hout rx Hrx Em). rewrite orb_true_r. reflexivity.
  Qed.
  (* C08 frame for a deletion event: kind 5 has no address, so only own referenced events may go *)
  Lemma c08_frame_holds r0 : row_of_event (event_init now e) = Some r0 -> r_kind r0 = 5 ->
    c08_frame (stored d) (stored d') (event_of_row r0) = true.
  Proof.
    intros Er Hk. pose proof (frame r0 Er) as F. unfold c09_frame in F. unfold c08_frame.
    rewrite forallb_forall in F. apply forallb_forall. intros x Hx. specialize (F x Hx).
    assert (Ha : same_address x (event_of_row r0) = false).
    { unfold same_address, address. simpl. rewrite Hk. destruct (is_replaceable_kind (w_kind x)); [reflexivity|].
      destruct (is_param_replaceable_kind (w_kind x)); reflexivity. }
    rewrite Ha in F. simpl in F. rewrite orb_false_r in F. exact F.
  Qed.

  (* C06 (d), (e): anything but OK=true leaves both tables as they were and notifies nobody *)
  Lemma refused_no_trace : ar_out res <> inl true -> d' = d /\ ~ In TNotify (ar_trace res).
  Proof.
    intros Hne. split.
    - destruct (res_cases now d e HInv) as [[x [_ E]] | [[_ [E _]] | [E _]]]; auto. fold res in E. congruence.
    - unfold res, add_event in *. simpl negb in *. cbv iota in *.
      destruct (run None d (txn_body (event_init now e)) []) as [tr [[d1 c]|x]]; simpl in *.
      + destruct c; [congruence|]. intros [C|C]; [discriminate|]. apply in_app_or in C. destruct C as [C|[C|[]]]; [|discriminate].
        apply in_map_iff in C. destruct C as [s [C _]]. discriminate.
      + intros [C|C]; [discriminate|]. apply in_app_or in C. destruct C as [C|[C|[]]]; [|discriminate].
        apply in_map_iff in C. destruct C as [s [C _]]. discriminate.
  Qed.
  Lemma resubmission_no_change r0 : row_of_event (event_init now e) = Some r0 ->
    has_id (r_id r0) (d_events d) = true -> d' = d /\ ar_out res <> inl true.
  Proof.
    intros Er Hh. destruct (res_cases now d e HInv) as [[x [E1 E2]] | [[E1 [E2 _]] | [_ [_ [r1 [Er1 [Hfresh _]]]]]]].
    - fold res in E1. split; [exact E2 | congruence].
    - fold res in E1. split; [exact E2 | congruence].
    - rewrite Er in Er1. inversion Er1. subst r1. congruence.
  Qed.
  (* C06 (b): an accepted event is stored afterwards (a deletion referencing its own id is excluded:
     ids are hashes of the content, including the tags) *)
  Lemma accepted_stored r0 : row_of_event (event_init now e) = Some r0 -> ar_out res = inl true ->
    ref_in (r_tags r0) (r_id r0) = false -> In r0 (d_events d').
  Proof.
    intros Er Hout Hself. destruct (res_cases now d e HInv) as [[y [Hy _]] | [[Hy _] | [_ [Hinv' [r1 [Er1 [Hfresh Hev]]]]]]]; try (fold res in Hy; congruence).
    rewrite Er in Er1. inversion Er1. subst r1. fold d' in Hev. apply Hev. split; [right; reflexivity|].
    unfold removed_by, superseded, ref_deleted, older_pred. rewrite Z.ltb_irrefl, Hself, !andb_false_r. reflexivity.
  Qed.
End OneSubmissionMore.
