(* Extraction of the executable model. ExtrOcamlBasic only: its Extract
   Inductive directives for bool, option, unit, list, prod, sumbool, sumor; no
   Extract Constant; positive/N/Z stay the extracted Coq datatypes. *)
From Coq Require Import Extraction ExtrOcamlBasic.
From NR Require Import Lib.Base Dispatch.
Extraction "model.ml" Dispatch.dispatch Lib.Base.Z_of_dec Lib.Base.dec_of_Z.
