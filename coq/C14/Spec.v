(* C14 - what role-based authorization means. *)
From NR Require Import Lib.Base Lib.PyRt C14.Model.
Open Scope list_scope. Open Scope Z_scope.

Definition anonymous : roleset := [97%N].                         (* Role.anonymous = "a" *)
Definition roles_of_token (tk : option roleset) : roleset := match tk with Some r => r | None => anonymous end.

(* the connection's roles intersect the roles configured for the action (when authentication is enabled) *)
Definition permitted (c : authcfg) (tk : option roleset) (a : action) : Prop :=
  ac_enabled c = true -> exists r, In r (roles_of_token tk) /\ In r (action_roles c a).
Definition permittedb (c : authcfg) (tk : option roleset) (a : action) : bool :=
  negb (ac_enabled c) || existsb (fun r => mem_N r (action_roles c a)) (roles_of_token tk).

(* role assignments read back exactly as last set: as a lower-cased character set, default if never set *)
Fixpoint last_assigned (assignments : list (pystr * pystr)) (pk : pystr) (acc : option pystr) : option pystr :=
  match assignments with
  | [] => acc
  | (k, v) :: r => last_assigned r pk (if str_eqb k pk then Some v else acc)
  end.
Definition expected_roles (assignments : list (pystr * pystr)) (pk : pystr) : roleset :=
  match last_assigned assignments pk None with Some v => lower_roles v | None => anonymous end.
Definition same_roles (a b : roleset) : Prop := forall x, In x a <-> In x b.
Definition same_rolesb (a b : roleset) : bool := forallb (fun x => mem_N x b) a && forallb (fun x => mem_N x a) b.
