(* C14 - lemmas: can_do is the role intersection; the save, query and delivery paths are
   guarded; role storage reads back the last assignment on both backends. *)
From NR Require Import Lib.Base Lib.BaseFacts Lib.PyRt C15.Rt Gen.Auth C14.Model C14.Spec.
From Coq Require Import ZifyBool Sorting.Sorted.
Open Scope Z_scope.

(* ================================================================== can_do *)
Lemma role_inter_nonempty a b : is_nil (role_inter a b) = false <-> exists r, In r a /\ In r b.
Proof.
  unfold role_inter. induction a as [|x a IH]; simpl.
  - split; [discriminate | intros [r [[] _]]].
  - destruct (mem_N x b) eqn:M; simpl.
    + apply mem_N_In in M. split; [intros _; exists x; auto | reflexivity].
    + rewrite IH. split.
      * intros [r [H1 H2]]. exists r. auto.
      * intros [r [[<-|H1] H2]]; [apply mem_N_In in H2; congruence | exists r; auto].
Qed.

Lemma token_roles_spec tk : token_roles tk = roles_of_token tk.
Proof. destruct tk; reflexivity. Qed.

Lemma can_do_spec c tk a : can_do c tk a = true <-> permitted c tk a.
Proof.
  unfold can_do, can_do_core, permitted, evaluate_target_save_query. rewrite token_roles_spec.
  destruct (ac_enabled c).
  - rewrite andb_true_r, negb_true_iff, role_inter_nonempty. split.
    + intros [r [H1 H2]] _. exists r. auto.
    + intros H. destruct (H eq_refl) as [r [H1 H2]]. exists r. auto.
  - split; [intros _ H; discriminate | reflexivity].
Qed.

Lemma permittedb_spec c tk a : permittedb c tk a = true <-> permitted c tk a.
Proof.
  unfold permittedb, permitted. destruct (ac_enabled c); simpl.
  - rewrite existsb_exists. split.
    + intros [r [H1 H2]] _. exists r. apply mem_N_In in H2. auto.
    + intros H. destruct (H eq_refl) as [r [H1 H2]]. exists r. apply mem_N_In in H2. auto.
  - split; [intros _ H; discriminate | reflexivity].
Qed.

(* ================================================================== save path, per backend *)
Lemma save_checked_all b : save_checked b = true.
Proof. destruct b; reflexivity. Qed.

Lemma add_event_done b c tk ctor_ok valid :
  add_event b c tk ctor_ok valid = AddDone <-> ctor_ok = true /\ valid = true /\ permitted c tk ASave.
Proof.
  unfold add_event. rewrite save_checked_all. rewrite <- can_do_spec.
  destruct ctor_ok, valid, (can_do c tk ASave); simpl; split; try discriminate; try tauto; intros (A & B & C); discriminate.
Qed.

Lemma add_event_restricted b c tk ctor_ok valid :
  add_event b c tk ctor_ok valid = AddRestricted <-> ctor_ok = true /\ valid = true /\ ~ permitted c tk ASave.
Proof.
  unfold add_event. rewrite save_checked_all. rewrite <- can_do_spec.
  destruct ctor_ok, valid, (can_do c tk ASave); simpl; split; try discriminate; try tauto;
    try (intros (A & B & C); try discriminate; exfalso; apply C; reflexivity).
  intros _. repeat split. discriminate.
Qed.

(* ================================================================== query path *)
Lemma subscribe_started c tk limit subs sid f p subs' :
  subscribe c tk limit subs sid f p = (SubStarted, subs') -> permitted c tk AQuery /\ In sid subs'.
Proof.
  unfold subscribe. destruct (negb (limit =? 0) && _); [discriminate|].
  destruct (negb f); [discriminate|]. destruct (negb p); [discriminate|].
  change subscribe_query_checked with true. simpl.
  destruct (can_do c tk AQuery) eqn:E; simpl; [|discriminate].
  intros H. injection H as <-. split; [apply can_do_spec; exact E | apply in_or_app; right; left; reflexivity].
Qed.

Lemma subscribe_not_started c tk limit subs sid f p o subs' :
  subscribe c tk limit subs sid f p = (o, subs') -> o <> SubStarted ->
  ~ In sid subs' /\ (forall s, In s subs' -> In s subs).
Proof.
  unfold subscribe. set (subs1 := filter (fun s => negb (str_eqb s sid)) subs).
  assert (N : ~ In sid subs1) by (unfold subs1; rewrite filter_In, str_eqb_refl; intros [_ H]; discriminate).
  assert (S : forall s, In s subs1 -> In s subs) by (unfold subs1; intros s H; apply filter_In in H; tauto).
  destruct (negb (limit =? 0) && _); [intros H _; injection H as <- <-; auto|].
  destruct (negb f); [intros H _; injection H as <- <-; auto|].
  destruct (negb p); [intros H _; injection H as <- <-; auto|].
  destruct (subscribe_query_checked && negb (can_do c tk AQuery)); [intros H _; injection H as <- <-; auto|].
  intros H D. injection H as <- <-. contradiction.
Qed.

Lemma subscribe_restricted c tk limit subs sid f p subs' :
  subscribe c tk limit subs sid f p = (SubRestricted, subs') -> ~ permitted c tk AQuery.
Proof.
  unfold subscribe. destruct (negb (limit =? 0) && _); [discriminate|].
  destruct (negb f); [discriminate|]. destruct (negb p); [discriminate|].
  change subscribe_query_checked with true. simpl.
  destruct (can_do c tk AQuery) eqn:E; simpl; [discriminate|].
  intros _ H. apply can_do_spec in H. congruence.
Qed.

Lemma subscribe_permitted_starts c tk limit subs sid :
  permitted c tk AQuery ->
  (limit = 0 \/ Z.of_nat (length (filter (fun s => negb (str_eqb s sid)) subs)) <> limit) ->
  fst (subscribe c tk limit subs sid true true) = SubStarted.
Proof.
  intros P L. apply can_do_spec in P. unfold subscribe.
  replace (negb (limit =? 0) && _) with false by (symmetry; destruct L as [->|L]; [reflexivity | apply andb_false_iff; right; lia]).
  change subscribe_query_checked with true. simpl. rewrite P. reflexivity.
Qed.

(* ================================================================== output validator *)
Section Output.
Variable event ctx : Type.
Variable check_output : option (event -> ctx -> bool).

Lemma stored_checked_all b : stored_checked b = true.
Proof. destruct b; reflexivity. Qed.

Lemma deliver_stored_spec b x results e :
  In e (deliver_stored event ctx check_output b x results) <-> In e results /\ passes event ctx check_output e x = true.
Proof. unfold deliver_stored. rewrite stored_checked_all. apply filter_In. Qed.

Lemma deliver_live_spec x matched e e' :
  In e' (deliver_live event ctx check_output x matched e) <-> e' = e /\ matched = true /\ passes event ctx check_output e x = true.
Proof.
  unfold deliver_live. change live_output_checked with true. cbv iota.
  destruct matched; [|simpl; split; [intros [] | intros (_ & H & _); discriminate]].
  destruct (passes event ctx check_output e x); simpl; split.
  - intros [<-|[]]. auto.
  - intros (-> & _). auto.
  - intros [].
  - intros (_ & _ & H). discriminate.
Qed.
End Output.

(* ================================================================== role storage: SQL *)
Lemma last_assigned_app l1 l2 pk acc :
  last_assigned (l1 ++ l2) pk acc = last_assigned l2 pk (last_assigned l1 pk acc).
Proof. revert acc. induction l1 as [|[k v] l1 IH]; intros acc; simpl; [reflexivity | apply IH]. Qed.

Lemma sql_get_set t pk roles pk' :
  sql_get_row (sql_set_roles t pk roles) pk' = if str_eqb pk pk' then Some roles else sql_get_row t pk'.
Proof.
  induction t as [|[k v] t IH]; simpl.
  - destruct (str_eqb pk pk'); reflexivity.
  - destruct (str_eqb k pk) eqn:E; simpl.
    + apply str_eqb_eq in E. subst k. destruct (str_eqb pk pk'); reflexivity.
    + destruct (str_eqb k pk') eqn:E2.
      * apply str_eqb_eq in E2. subst k. rewrite (str_eqb_sym pk pk'), E. reflexivity.
      * exact IH.
Qed.

Definition sql_apply (t : auth_table) (assignments : list (pystr * pystr)) : auth_table :=
  fold_left (fun t a => sql_set_roles t (fst a) (snd a)) assignments t.

Lemma sql_apply_row assignments : forall t pk,
  sql_get_row (sql_apply t assignments) pk = last_assigned assignments pk (sql_get_row t pk).
Proof.
  induction assignments as [|[k v] l IH]; intros t pk; simpl; [reflexivity|].
  unfold sql_apply in *. simpl. rewrite IH, sql_get_set. rewrite (str_eqb_sym k pk). reflexivity.
Qed.

Lemma roles_readback_sql assignments pk :
  sql_get_roles (sql_apply [] assignments) pk = expected_roles assignments pk.
Proof. unfold sql_get_roles, expected_roles. rewrite sql_apply_row. simpl. reflexivity. Qed.

(* ================================================================== role storage: LMDB service events *)
Definition dsel (pk : pystr) (e : svc) : bool := str_eqb (sv_d e) pk.

Lemma newest_only_d store pk : forall best,
  newest store pk best = newest (filter (dsel pk) store) pk best.
Proof.
  induction store as [|e r IH]; intros best; simpl; [reflexivity|].
  unfold dsel at 1. destruct (str_eqb (sv_d e) pk) eqn:E; simpl; [rewrite E|apply IH].
  destruct best as [b|]; [destruct (sv_created b <? sv_created e)|]; apply IH.
Qed.

Definition kv_apply (store : list svc) (ops : list (Z * pystr * pystr)) : list svc :=
  fold_left (fun s o => kv_set_roles s (fst (fst o)) (snd (fst o)) (snd o)) ops store.
Definition op_time (o : Z * pystr * pystr) : Z := fst (fst o).
Definition op_assign (o : Z * pystr * pystr) : pystr * pystr := (snd (fst o), snd o).

(* per d value: nothing, or exactly the event of the last assignment *)
Definition kv_inv (store : list svc) (done : list (pystr * pystr)) : Prop :=
  forall pk, match last_assigned done pk None with
             | Some v => exists t, filter (dsel pk) store = [{| sv_d := pk; sv_created := t; sv_content := lower_roles v |}]
             | None => filter (dsel pk) store = []
             end.

Lemma filter_filter {A} (f g : A -> bool) l : filter f (filter g l) = filter (fun x => f x && g x) l.
Proof. induction l as [|a l IH]; simpl; [reflexivity|]. destruct (g a); simpl; [destruct (f a); simpl; rewrite IH; reflexivity | rewrite andb_false_r; exact IH]. Qed.
Lemma filter_ext_in' {A} (f g : A -> bool) l : (forall x, In x l -> f x = g x) -> filter f l = filter g l.
Proof. induction l as [|a l IH]; intros H; simpl; [reflexivity|]. rewrite (H a (or_introl eq_refl)), IH; [reflexivity|]. intros x Hx. apply H. right; exact Hx. Qed.
Lemma filter_none {A} (f : A -> bool) l : (forall x, In x l -> f x = false) -> filter f l = [].
Proof. induction l as [|a l IH]; intros H; simpl; [reflexivity|]. rewrite (H a (or_introl eq_refl)). apply IH. intros x Hx. apply H. right; exact Hx. Qed.

Lemma kv_set_inv store done now pk roles :
  kv_inv store done -> (forall e, In e store -> sv_created e < now) ->
  kv_inv (kv_set_roles store now pk roles) (done ++ [(pk, roles)]) /\
  (forall e, In e (kv_set_roles store now pk roles) -> sv_created e <= now).
Proof.
  intros I B. split.
  - intros pk'. rewrite last_assigned_app. unfold kv_set_roles.
    change (last_assigned [(pk, roles)] pk' (last_assigned done pk' None))
      with (if str_eqb pk pk' then Some roles else last_assigned done pk' None).
    cbn [filter].
    change (dsel pk' {| sv_d := pk; sv_created := now; sv_content := lower_roles roles |}) with (str_eqb pk pk').
    rewrite filter_filter.
    destruct (str_eqb pk pk') eqn:E.
    + apply str_eqb_eq in E. subst pk'. exists now. f_equal.
      apply filter_none. intros e He. unfold dsel. destruct (str_eqb (sv_d e) pk); simpl; [|reflexivity].
      specialize (B e He). replace (sv_created e <? now) with true by lia. reflexivity.
    + specialize (I pk').
      assert (F : filter (fun x => dsel pk' x && negb (str_eqb (sv_d x) pk && (sv_created x <? now))) store = filter (dsel pk') store).
      { apply filter_ext_in'. intros e He. unfold dsel. destruct (str_eqb (sv_d e) pk') eqn:D; [|reflexivity].
        apply str_eqb_eq in D. rewrite D. rewrite (str_eqb_sym pk' pk), E. reflexivity. }
      rewrite F. exact I.
  - intros e [<-|He]; [simpl; lia|]. apply filter_In in He. destruct He as [He _]. specialize (B e He). lia.
Qed.

Lemma kv_apply_inv ops : forall store done,
  kv_inv store done ->
  StronglySorted (fun a b => op_time a < op_time b) ops ->
  (forall e o, In e store -> In o ops -> sv_created e < op_time o) ->
  kv_inv (kv_apply store ops) (done ++ map op_assign ops).
Proof.
  induction ops as [|[[t pk] roles] ops IH]; intros store done I S B; simpl.
  - rewrite app_nil_r. exact I.
  - inversion S as [|? ? S' F]; subst.
    destruct (kv_set_inv store done t pk roles I) as [I' B'].
    { intros e He. apply (B e (t, pk, roles) He). left; reflexivity. }
    unfold kv_apply in *. simpl.
    replace (done ++ op_assign (t, pk, roles) :: map op_assign ops) with ((done ++ [(pk, roles)]) ++ map op_assign ops)
      by (rewrite <- app_assoc; reflexivity).
    apply IH; [exact I' | exact S' |].
    intros e o He Ho. specialize (B' e He). rewrite Forall_forall in F. specialize (F o Ho). unfold op_time in *. simpl in *. lia.
Qed.

(* assignments made at strictly increasing clock values read back as last set *)
Lemma roles_readback_kv ops pk :
  StronglySorted (fun a b => op_time a < op_time b) ops ->
  kv_get_roles (kv_apply [] ops) pk = expected_roles (map op_assign ops) pk.
Proof.
  intros S.
  assert (I : kv_inv (kv_apply [] ops) ([] ++ map op_assign ops)).
  { apply kv_apply_inv; [intros k; reflexivity | exact S | intros e o []]. }
  simpl in I. specialize (I pk). unfold kv_get_roles, expected_roles. rewrite newest_only_d.
  destruct (last_assigned (map op_assign ops) pk None) as [v|].
  - destruct I as [t ->]. simpl. rewrite str_eqb_refl. reflexivity.
  - rewrite I. reflexivity.
Qed.

