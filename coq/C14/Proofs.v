From NR Require Import Lib.Base Lib.BaseFacts Lib.PyRt C15.Rt Gen.Auth C14.Model C14.Spec.
Open Scope Z_scope.
Lemma placeholder : default_roles = anonymous.
Proof. reflexivity. Qed.
