(* C14 - wire entry points and executable statements. *)
From NR Require Import Lib.Base Lib.PyRt Lib.Wire C15.Rt Gen.Auth C14.Model C14.Spec.
Open Scope string_scope. Open Scope list_scope. Open Scope Z_scope.

Definition roles_of_jv (v : jv) : roleset := as_str v.
Definition token_of_jv (v : jv) : option roleset := match v with JStr s => Some s | _ => None end.
Definition cfg_of_jv (v : jv) : authcfg :=
  {| ac_enabled := as_bool (jfield "enabled" v); ac_save := roles_of_jv (jfield "save" v); ac_query := roles_of_jv (jfield "query" v) |}.
Definition backend_of_jv (v : jv) : backend := if str_eqb (as_str v) (pys "kv") then Kv else Sql.
Definition action_of_jv (v : jv) : action := if str_eqb (as_str v) (pys "query") then AQuery else ASave.

Definition run_can_do (v : jv) : jv :=
  JBool (can_do (cfg_of_jv v) (token_of_jv (jfield "token" v)) (action_of_jv (jfield "action" v))).

Definition add_name (o : add_outcome) : pystr :=
  match o with AddBadJson => pys "badjson" | AddInvalid => pys "invalid" | AddRestricted => pys "restricted" | AddDone => pys "done" end.
Definition sub_name (o : sub_outcome) : pystr :=
  match o with SubTooMany => pys "toomany" | SubEose => pys "eose" | SubRestricted => pys "restricted" | SubStarted => pys "started" end.

(* one cell of the matrix.  The store holds events of the authors in "stored" (newest first);
   the connection under test (token) submits one valid event and opens one REQ matching everything;
   then a privileged writer (token roles = "writer") submits events of the authors in "live".
   The output validator, when "ov" is set, rejects events of the author "marked". *)
Definition ov_of (v : jv) : option (pystr -> unit -> bool) :=
  if as_bool (jfield "ov" v) then Some (fun author _ => negb (str_eqb author (as_str (jfield "marked" v)))) else None.
Definition run_cell (v : jv) : jv :=
  let b := backend_of_jv (jfield "backend" v) in
  let c := cfg_of_jv v in
  let tk := token_of_jv (jfield "token" v) in
  let add := add_event b c tk true true in
  let '(sub, _) := subscribe c tk 32 [] (pys "s") true true in
  let ov := ov_of v in
  let started := match sub with SubStarted => true | _ => false end in
  let stored := if started then deliver_stored pystr unit ov b tt (map as_str (as_arr (jfield "stored" v))) else [] in
  let wtk := token_of_jv (jfield "writer" v) in
  let live := if started then
                flat_map (fun a => match add_event b c wtk true true with
                                   | AddDone => deliver_live pystr unit ov tt true a
                                   | _ => [] end) (map as_str (as_arr (jfield "live" v)))
              else [] in
  jobj [("add", JStr (add_name add)); ("sub", JStr (sub_name sub)); ("stored", jstrs stored); ("live", jstrs live)].

(* executable statement on the implementation's observation of a cell:
   obs = {add, sub, stored, live, registered: bool} *)
Definition holds_cell (v : jv) : jv :=
  let c := cfg_of_jv v in
  let tk := token_of_jv (jfield "token" v) in
  let o := jfield "obs" v in
  let add := as_str (jfield "add" o) in
  let sub := as_str (jfield "sub" o) in
  let delivered := map as_str (as_arr (jfield "stored" o)) ++ map as_str (as_arr (jfield "live" o)) in
  let marked := as_str (jfield "marked" v) in
  if str_eqb add (pys "done") && negb (permittedb c tk ASave) then jstr "saved-without-role"
  else if negb (str_eqb add (pys "done")) && permittedb c tk ASave then jstr "save-refused-with-role"
  else if negb (str_eqb add (pys "done")) && negb (str_eqb add (pys "restricted")) then jstr "save-refusal-not-restricted"
  else if str_eqb sub (pys "started") && negb (permittedb c tk AQuery) then jstr "served-without-role"
  else if negb (str_eqb sub (pys "started")) && permittedb c tk AQuery then jstr "query-refused-with-role"
  else if negb (str_eqb sub (pys "started")) &&
          (negb (str_eqb sub (pys "restricted")) || as_bool (jfield "registered" o) || negb (is_nil delivered))
       then jstr "restricted-but-something-happened"
  else if as_bool (jfield "ov" v) && mem_str marked (map as_str (as_arr (jfield "stored" o))) then jstr "unvalidated-output-stored"
  else if as_bool (jfield "ov" v) && mem_str marked (map as_str (as_arr (jfield "live" o))) then jstr "unvalidated-output-live"
  else jstr "ok".

(* role storage: ops = ["set", pk, roles] | ["get", pk]; the clock of the LMDB model advances by one per op *)
Fixpoint run_sql_ops (t : auth_table) (ops : list jv) : list jv :=
  match ops with
  | [] => []
  | op :: r =>
      if str_eqb (as_str (jv_nth 0 op)) (pys "set")
      then run_sql_ops (sql_set_roles t (as_str (jv_nth 1 op)) (as_str (jv_nth 2 op))) r
      else JStr (sql_get_roles t (as_str (jv_nth 1 op))) :: run_sql_ops t r
  end.
Fixpoint run_kv_ops (s : list svc) (now : Z) (ops : list jv) : list jv :=
  match ops with
  | [] => []
  | op :: r =>
      if str_eqb (as_str (jv_nth 0 op)) (pys "set")
      then run_kv_ops (kv_set_roles s now (as_str (jv_nth 1 op)) (as_str (jv_nth 2 op))) (now + 1) r
      else JStr (kv_get_roles s (as_str (jv_nth 1 op))) :: run_kv_ops s (now + 1) r
  end.
Definition run_roles (v : jv) : jv :=
  match backend_of_jv (jfield "backend" v) with
  | Sql => JArr (run_sql_ops [] (as_arr (jfield "ops" v)))
  | Kv => JArr (run_kv_ops [] 0 (as_arr (jfield "ops" v)))
  end.

(* obs = the implementation's answers to the gets, in order *)
Fixpoint check_roles (seen : list (pystr * pystr)) (ops : list jv) (obs : list jv) : pystr :=
  match ops with
  | [] => match obs with [] => pys "ok" | _ => pys "shape" end
  | op :: r =>
      if str_eqb (as_str (jv_nth 0 op)) (pys "set")
      then check_roles (seen ++ [(as_str (jv_nth 1 op), as_str (jv_nth 2 op))]) r obs
      else match obs with
           | o :: orest => if same_rolesb (as_str o) (expected_roles seen (as_str (jv_nth 1 op)))
                           then check_roles seen r orest else pys "roles-not-as-last-set"
           | [] => pys "shape"
           end
  end.
Definition holds_roles (v : jv) : jv := JStr (check_roles [] (as_arr (jfield "ops" v)) (as_arr (jfield "obs" v))).

Definition suites : list (string * (jv -> jv)) :=
  [("c14.can_do", run_can_do); ("c14.cell", run_cell); ("c14.holds", holds_cell);
   ("c14.roles", run_roles); ("c14.roles_holds", holds_roles)].
Definition dispatch := dispatch_in suites.
