(* C14 - executable model of role-based authorization as written:
   Authenticator.can_do (Gen.Auth.can_do_core), the save path of both add_event
   implementations, BaseStorage.subscribe, the output validator on stored and live
   delivery, and role storage on both backends.  Where a check sits on a path is a
   boolean regenerated from the source (Gen.Auth.*_checked).  No proofs in this file. *)
From NR Require Import Lib.Base Lib.PyRt C15.Rt Gen.Auth.
Open Scope string_scope. Open Scope list_scope. Open Scope Z_scope.

(* ------------------------------------------------------------------ can_do *)
Record authcfg := { ac_enabled : bool; ac_save : roleset; ac_query : roleset }.
Inductive action := ASave | AQuery.
Definition action_roles (c : authcfg) (a : action) : roleset := match a with ASave => ac_save c | AQuery => ac_query c end.

(* auth_token: None = the empty dict of an unauthenticated connection (-> default roles);
   Some r = a token from authenticate(), r the roles read back from storage *)
Definition token_roles (tk : option roleset) : roleset := match tk with Some r => r | None => default_roles end.

(* both actions are always keys of self.actions (parse_options installs defaults); the target
   (the event / the subscription object) is truthy and evaluate_target returns True for both *)
Definition can_do (c : authcfg) (tk : option roleset) (a : action) : bool :=
  can_do_core (ac_enabled c) true (action_roles c a) (token_roles tk) evaluate_target_save_query.

Inductive backend := Sql | Kv.

(* ------------------------------------------------------------------ save path *)
Inductive add_outcome :=
| AddBadJson                 (* Event(...) raised: StorageError("invalid: Bad JSON") *)
| AddInvalid                 (* a validator raised *)
| AddRestricted              (* AuthenticationError("restricted: permission denied") *)
| AddDone.                   (* stored (or queued for the writer) and broadcast *)

Definition save_checked (b : backend) : bool := match b with Sql => sql_save_checked | Kv => kv_save_checked end.

(* effects happen only in the AddDone outcome: nothing precedes the checks *)
Definition add_event (b : backend) (c : authcfg) (tk : option roleset) (ctor_ok valid : bool) : add_outcome :=
  if negb ctor_ok then AddBadJson else
  if negb valid then AddInvalid else
  if save_checked b && negb (can_do c tk ASave) then AddRestricted else AddDone.

(* ------------------------------------------------------------------ query path *)
Inductive sub_outcome :=
| SubTooMany                 (* StorageError("rejected: too many subscriptions") *)
| SubEose                    (* no valid filter / prepare() failed: EOSE, nothing registered *)
| SubRestricted              (* AuthenticationError("restricted: permission denied") *)
| SubStarted.                (* registered and its stored query started *)

(* registry of one client: subscription ids *)
Definition subscribe (c : authcfg) (tk : option roleset) (limit : Z) (subs : list pystr) (sid : pystr)
           (has_valid_filter prepared : bool) : sub_outcome * list pystr :=
  let subs1 := filter (fun s => negb (str_eqb s sid)) subs in         (* an existing sub with this id is replaced first *)
  if negb (limit =? 0) && (Z.of_nat (length subs1) =? limit) then (SubTooMany, subs1) else
  if negb has_valid_filter then (SubEose, subs1) else
  if negb prepared then (SubEose, subs1) else
  if subscribe_query_checked && negb (can_do c tk AQuery) then (SubRestricted, subs1)
  else (SubStarted, subs1 ++ [sid]).

(* ------------------------------------------------------------------ output validator *)
Section Output.
Variable event : Type.
Variable ctx : Type.                              (* {config, client_id, auth_token} of the subscription *)
Variable check_output : option (event -> ctx -> bool).

Definition passes (e : event) (x : ctx) : bool := match check_output with Some f => f e x | None => true end.

Definition stored_checked (b : backend) : bool :=
  match b with Sql => sql_stored_output_checked | Kv => kv_stored_output_checked end.
(* run_query: the stored results put on the connection's queue, in order (EOSE follows) *)
Definition deliver_stored (b : backend) (x : ctx) (results : list event) : list event :=
  if stored_checked b then filter (fun e => passes e x) results else results.
(* notify: a new event pushed to one subscription *)
Definition deliver_live (x : ctx) (matched : bool) (e : event) : list event :=
  if matched then (if live_output_checked then (if passes e x then [e] else []) else [e]) else [].
End Output.

(* ------------------------------------------------------------------ role storage *)
Definition lower_roles (r : pystr) : pystr :=
  map (fun c => if (N.leb 65 c && N.leb c 90)%N then (c + 32)%N else c) r.

(* SQL: table auth(pubkey PRIMARY KEY, roles): INSERT, on IntegrityError UPDATE; read: set(roles.lower()) *)
Definition auth_table := list (pystr * pystr).
Fixpoint sql_set_roles (t : auth_table) (pk roles : pystr) : auth_table :=
  match t with
  | [] => [(pk, roles)]
  | (k, v) :: r => if str_eqb k pk then (k, roles) :: r else (k, v) :: sql_set_roles r pk roles
  end.
Fixpoint sql_get_row (t : auth_table) (pk : pystr) : option pystr :=
  match t with [] => None | (k, v) :: r => if str_eqb k pk then Some v else sql_get_row r pk end.
Definition sql_get_roles (t : auth_table) (pk : pystr) : roleset :=
  match sql_get_row t pk with Some v => lower_roles v | None => default_roles end.

(* LMDB (BaseStorage): one kind-31494 service event per assignment, d = "auth:<pubkey>",
   content = roles.lower(), created_at = the clock; NIP-33: an event supersedes the older ones
   with the same d value; read = content of the newest event with that d value *)
Record svc := { sv_d : pystr; sv_created : Z; sv_content : pystr }.
Definition kv_set_roles (store : list svc) (now : Z) (pk roles : pystr) : list svc :=
  {| sv_d := pk; sv_created := now; sv_content := lower_roles roles |}
  :: filter (fun e => negb (str_eqb (sv_d e) pk && (sv_created e <? now))) store.
Fixpoint newest (store : list svc) (pk : pystr) (best : option svc) : option svc :=
  match store with
  | [] => best
  | e :: r =>
      if str_eqb (sv_d e) pk then
        match best with
        | Some b => if sv_created b <? sv_created e then newest r pk (Some e) else newest r pk best
        | None => newest r pk (Some e)
        end
      else newest r pk best
  end.
Definition kv_get_roles (store : list svc) (pk : pystr) : roleset :=
  match newest store pk None with Some e => sv_content e | None => default_roles end.
