(* C04 - frames and codecs.

   * CPython's json.encoder.encode_basestring (and python-rapidjson's string escaping,
     which differs only in the case of the \u00XX hex digits) - `encode_string`;
   * a JSON value printer and a fuelled recursive-descent JSON parser for the frame
     grammar (strings, integers, true/false/null, arrays, objects, insignificant whitespace);
   * util.event_as_json as the f-string concatenation it is, the EOSE f-string of
     web.send_subscriptions, and their unrepaired (`legacy_`) versions that pasted the
     subscription id unescaped (F09);
   * the row codecs: kv.encode_event/decode_event modulo msgpack, db.py's row mapping. *)
From NR Require Import Lib.Base.
From Coq Require Import Decimal DecimalN.
Open Scope list_scope. Open Scope N_scope.

(* ---------- string escaping ---------- *)
Definition hexd (upper : bool) (n : N) : cp :=
  if n <? 10 then n + 48 else if upper then n + 55 else n + 87.

(* one character of the body of a JSON string literal *)
Definition esc_char (upper : bool) (c : cp) : pystr :=
  if c =? 34 then [92; 34]            (* \' *)
  else if c =? 92 then [92; 92]       (* \\ *)
  else if c =? 10 then [92; 110]      (* \n *)
  else if c =? 13 then [92; 114]      (* \r *)
  else if c =? 9 then [92; 116]       (* \t *)
  else if c =? 8 then [92; 98]        (* \b *)
  else if c =? 12 then [92; 102]      (* \f *)
  else if c <? 32 then [92; 117; 48; 48; hexd upper (c / 16); hexd upper (c mod 16)]   (* \u00XX *)
  else [c].                            (* everything else verbatim, incl. DEL, non-BMP, surrogates *)

Definition encode_string (upper : bool) (s : pystr) : pystr := 34 :: flat_map (esc_char upper) s ++ [34].
(* json.encoder.encode_basestring (c_encode_basestring / py_encode_basestring agree) *)
Definition encode_basestring : pystr -> pystr := encode_string false.
(* rapidjson.Encoder(ensure_ascii=False) applied to a str *)
Definition rj_string : pystr -> pystr := encode_string true.

(* ---------- decimal integers ---------- *)
Fixpoint cps_of_uint (d : uint) : pystr :=
  match d with
  | Nil => []
  | D0 r => 48 :: cps_of_uint r | D1 r => 49 :: cps_of_uint r | D2 r => 50 :: cps_of_uint r
  | D3 r => 51 :: cps_of_uint r | D4 r => 52 :: cps_of_uint r | D5 r => 53 :: cps_of_uint r
  | D6 r => 54 :: cps_of_uint r | D7 r => 55 :: cps_of_uint r | D8 r => 56 :: cps_of_uint r
  | D9 r => 57 :: cps_of_uint r
  end.
(* str(int) *)
Definition print_int (z : Z) : pystr :=
  if (z <? 0)%Z then 45 :: cps_of_uint (N.to_uint (Z.to_N (- z))) else cps_of_uint (N.to_uint (Z.to_N z)).

Definition digit_cons (c : cp) : option (uint -> uint) :=
  if c =? 48 then Some D0 else if c =? 49 then Some D1 else if c =? 50 then Some D2
  else if c =? 51 then Some D3 else if c =? 52 then Some D4 else if c =? 53 then Some D5
  else if c =? 54 then Some D6 else if c =? 55 then Some D7 else if c =? 56 then Some D8
  else if c =? 57 then Some D9 else None.
(* the maximal digit prefix *)
Fixpoint read_digits (s : pystr) : uint * pystr :=
  match s with
  | [] => (Nil, [])
  | c :: r =>
      match digit_cons c with
      | Some k => let '(d, r') := read_digits r in (k d, r')
      | None => (Nil, s)
      end
  end.
(* JSON int: no leading zeros, at least one digit (unorm Nil = zero <> Nil) *)
Definition norm_ok (d : uint) : bool := uint_beq (unorm d) d.
Definition parse_number (s : pystr) : option (jv * pystr) :=
  match s with
  | c :: r =>
      if c =? 45 then
        let '(d, r') := read_digits r in
        if norm_ok d then Some (JInt (- Z.of_N (N.of_uint d)), r') else None
      else
        let '(d, r') := read_digits s in
        if norm_ok d then Some (JInt (Z.of_N (N.of_uint d)), r') else None
  | [] => None
  end.

(* ---------- the JSON parser ---------- *)
Definition hex4 (a b c d : cp) : option N :=
  match hexval a, hexval b, hexval c, hexval d with
  | Some x, Some y, Some z, Some w => Some (((x * 16 + y) * 16 + z) * 16 + w)
  | _, _, _, _ => None
  end.
Definition unescape (e : cp) : option cp :=
  if e =? 34 then Some 34 else if e =? 92 then Some 92 else if e =? 47 then Some 47
  else if e =? 98 then Some 8 else if e =? 102 then Some 12 else if e =? 110 then Some 10
  else if e =? 114 then Some 13 else if e =? 116 then Some 9 else None.
Definition is_high (v : N) : bool := (55296 <=? v) && (v <=? 56319).
Definition is_low (v : N) : bool := (56320 <=? v) && (v <=? 57343).
Definition ocons (c : cp) (o : option (pystr * pystr)) : option (pystr * pystr) :=
  match o with Some (s, r) => Some (c :: s, r) | None => None end.

(* the body of a string literal, after the opening quote: (decoded string, rest after the closing quote) *)
Fixpoint parse_chars (s : pystr) : option (pystr * pystr) :=
  match s with
  | [] => None
  | c :: r =>
      if c =? 34 then Some ([], r)
      else if c =? 92 then
        match r with
        | [] => None
        | e :: r1 =>
            if e =? 117 then
              match r1 with
              | a :: b :: c' :: d :: r2 =>
                  match hex4 a b c' d with
                  | None => None
                  | Some v =>
                      if is_high v then
                        (* \uD8xx\uDCxx -> one code point; a lone surrogate escape stays as it is (as json.loads does) *)
                        match r2 with
                        | b1 :: u1 :: a2 :: b2 :: c2 :: d2 :: r3 =>
                            if (b1 =? 92) && (u1 =? 117) then
                              match hex4 a2 b2 c2 d2 with
                              | Some w => if is_low w then ocons (65536 + (v - 55296) * 1024 + (w - 56320)) (parse_chars r3)
                                          else ocons v (parse_chars r2)
                              | None => None
                              end
                            else ocons v (parse_chars r2)
                        | _ => ocons v (parse_chars r2)
                        end
                      else ocons v (parse_chars r2)
                  end
              | _ => None
              end
            else match unescape e with
                 | Some x => ocons x (parse_chars r1)
                 | None => None
                 end
        end
      else if c <? 32 then None                   (* raw control characters are not allowed *)
      else ocons c (parse_chars r)
  end.

Definition is_ws (c : cp) : bool := (c =? 32) || (c =? 9) || (c =? 10) || (c =? 13).
Fixpoint skip_ws (s : pystr) : pystr :=
  match s with
  | c :: r => if is_ws c then skip_ws r else s
  | [] => []
  end.
Fixpoint strip_prefix (p s : pystr) : option pystr :=
  match p, s with
  | [], _ => Some s
  | x :: p', y :: s' => if x =? y then strip_prefix p' s' else None
  | _ :: _, [] => None
  end.
Definition lit (v : jv) (p r : pystr) : option (jv * pystr) :=
  match strip_prefix p r with Some r' => Some (v, r') | None => None end.

Fixpoint parse_value (fuel : nat) (s : pystr) {struct fuel} : option (jv * pystr) :=
  match fuel with
  | O => None
  | S f =>
      match skip_ws s with
      | [] => None
      | c :: r =>
          if c =? 34 then
            match parse_chars r with Some (x, r') => Some (JStr x, r') | None => None end
          else if c =? 91 then                                        (* [ *)
            match skip_ws r with
            | [] => None
            | c2 :: r2 =>
                if c2 =? 93 then Some (JArr [], r2)
                else match parse_elems f r with Some (l, r') => Some (JArr l, r') | None => None end
            end
          else if c =? 123 then                                       (* { *)
            match skip_ws r with
            | [] => None
            | c2 :: r2 =>
                if c2 =? 125 then Some (JObj [], r2)
                else match parse_members f r with Some (l, r') => Some (JObj l, r') | None => None end
            end
          else if c =? 116 then lit (JBool true) [114; 117; 101] r            (* true *)
          else if c =? 102 then lit (JBool false) [97; 108; 115; 101] r       (* false *)
          else if c =? 110 then lit JNull [117; 108; 108] r                   (* null *)
          else parse_number (c :: r)
      end
  end
with parse_elems (fuel : nat) (s : pystr) {struct fuel} : option (list jv * pystr) :=
  match fuel with
  | O => None
  | S f =>
      match parse_value f s with
      | None => None
      | Some (v, r) =>
          match skip_ws r with
          | [] => None
          | c :: r' =>
              if c =? 44 then match parse_elems f r' with Some (l, r'') => Some (v :: l, r'') | None => None end
              else if c =? 93 then Some ([v], r')
              else None
          end
      end
  end
with parse_members (fuel : nat) (s : pystr) {struct fuel} : option (list (pystr * jv) * pystr) :=
  match fuel with
  | O => None
  | S f =>
      match skip_ws s with
      | [] => None
      | q :: r0 =>
          if q =? 34 then
            match parse_chars r0 with
            | None => None
            | Some (k, r1) =>
                match skip_ws r1 with
                | [] => None
                | c1 :: r2 =>
                    if c1 =? 58 then
                      match parse_value f r2 with
                      | None => None
                      | Some (v, r3) =>
                          match skip_ws r3 with
                          | [] => None
                          | c3 :: r4 =>
                              if c3 =? 44 then
                                match parse_members f r4 with Some (l, r5) => Some ((k, v) :: l, r5) | None => None end
                              else if c3 =? 125 then Some ([(k, v)], r4)
                              else None
                          end
                      end
                    else None
                end
            end
          else None
      end
  end.

(* a whole text: one value, nothing but whitespace after it *)
Definition parse_json (s : pystr) : option jv :=
  match parse_value (2 * length s + 2) s with
  | Some (v, r) => match skip_ws r with [] => Some v | _ => None end
  | None => None
  end.

(* ---------- the JSON printer (no insignificant whitespace) ---------- *)
Fixpoint join (sep : pystr) (l : list pystr) : pystr :=
  match l with
  | [] => []
  | x :: r => match r with [] => x | _ => x ++ sep ++ join sep r end
  end.

(* up = false: strings escaped like json.encoder.encode_basestring; up = true: like rapidjson *)
Fixpoint print (up : bool) (v : jv) : pystr :=
  match v with
  | JNull => [110; 117; 108; 108]
  | JBool true => [116; 114; 117; 101]
  | JBool false => [102; 97; 108; 115; 101]
  | JInt z => print_int z
  | JStr s => encode_string up s
  | JBytes _ => [110; 117; 108; 108]            (* outside the frame grammar (excluded by json_ok) *)
  | JFloat _ => [110; 117; 108; 108]
  | JArr l => 91 :: join [44] (map (print up) l) ++ [93]
  | JObj kv => 123 :: join [44] (map (fun p => encode_string up (fst p) ++ 58 :: print up (snd p)) kv) ++ [125]
  end.

Fixpoint json_ok (v : jv) : bool :=
  match v with
  | JBytes _ => false | JFloat _ => false
  | JArr l => forallb json_ok l
  | JObj kv => forallb (fun p => json_ok (snd p)) kv
  | _ => true
  end.

(* ---------- str() of a decoded JSON value, as far as modelled ---------- *)
Definition simple_repr_char (c : cp) : bool := (32 <=? c) && (c <=? 126) && negb (c =? 39) && negb (c =? 92).
Fixpoint all_some {A} (l : list (option A)) : option (list A) :=
  match l with
  | [] => Some []
  | Some x :: r => match all_some r with Some l' => Some (x :: l') | None => None end
  | None :: _ => None
  end.
(* py_fmt false = str(), py_fmt true = repr(); None = outside the modelled fragment *)
Fixpoint py_fmt (repr : bool) (v : jv) : option pystr :=
  match v with
  | JNull => Some [78; 111; 110; 101]
  | JBool true => Some [84; 114; 117; 101]
  | JBool false => Some [70; 97; 108; 115; 101]
  | JInt z => Some (print_int z)
  | JStr s => if repr then (if forallb simple_repr_char s then Some (39 :: s ++ [39]) else None) else Some s
  | JFloat r => Some r
  | JArr l => match all_some (map (py_fmt true) l) with
              | Some items => Some (91 :: join [44; 32] items ++ [93])
              | None => None
              end
  | _ => None
  end.
Definition py_str : jv -> option pystr := py_fmt false.

(* ---------- util.event_as_json ---------- *)
(* the Event object as the serializer sees it: attributes of any JSON type (content is a str:
   the constructor checked it) *)
Record rawev := mkRaw { r_id : jv; r_pubkey : jv; r_created_at : jv; r_kind : jv;
                        r_tags : jv; r_content : pystr; r_sig : jv }.

(* (encode_basestring(i) if isinstance(i, str) else str(i)) *)
Definition tag_item (i : jv) : option pystr :=
  match i with JStr s => Some (encode_basestring s) | _ => py_str i end.
(* f'[{','.join(... for i in t)}]'; a tag that is itself a str is iterated character by character *)
Definition render_tag (t : jv) : option pystr :=
  match t with
  | JArr items => match all_some (map tag_item items) with
                  | Some l => Some (91 :: join [44] l ++ [93])
                  | None => None
                  end
  | JStr s => Some (91 :: join [44] (map (fun c => encode_basestring [c]) s) ++ [93])
  | _ => None
  end.
(* if event.tags: ','.join(...) else '' *)
Definition render_tags (tags : jv) : option pystr :=
  match tags with
  | JArr ts => match all_some (map render_tag ts) with Some l => Some (join [44] l) | None => None end
  | _ => None
  end.

Definition s_event_open : pystr := [91; 34; 69; 86; 69; 78; 84; 34; 44].               (* ['EVENT', *)
Definition s_id : pystr := [44; 123; 34; 105; 100; 34; 58; 34].                          (* ,{'id':' *)
Definition s_created : pystr := [34; 44; 34; 99; 114; 101; 97; 116; 101; 100; 95; 97; 116; 34; 58].   (* ','created_at': *)
Definition s_pubkey : pystr := [44; 34; 112; 117; 98; 107; 101; 121; 34; 58; 34].        (* ,'pubkey':' *)
Definition s_kind : pystr := [34; 44; 34; 107; 105; 110; 100; 34; 58].                   (* ','kind': *)
Definition s_sig : pystr := [44; 34; 115; 105; 103; 34; 58; 34].                         (* ,'sig':' *)
Definition s_content : pystr := [34; 44; 34; 99; 111; 110; 116; 101; 110; 116; 34; 58].  (* ','content': *)
Definition s_tags : pystr := [44; 34; 116; 97; 103; 115; 34; 58; 91].                    (* ,'tags':[ *)
Definition s_close : pystr := [93; 125; 93].                                             (* ]}] *)

Definition event_body (e : rawev) : option pystr :=
  match render_tags (r_tags e), py_str (r_id e), py_str (r_created_at e), py_str (r_pubkey e),
        py_str (r_kind e), py_str (r_sig e) with
  | Some tags, Some id, Some ca, Some pk, Some kd, Some sg =>
      Some (s_id ++ id ++ s_created ++ ca ++ s_pubkey ++ pk ++ s_kind ++ kd ++ s_sig ++ sg ++ s_content
            ++ encode_basestring (r_content e) ++ s_tags ++ tags ++ s_close)
  | _, _, _, _, _, _ => None
  end.

(* repaired: f'['EVENT',{encode_basestring(sub_id)},{{'id':'{event.id}',...' *)
Definition event_as_json (sub_id : pystr) (e : rawev) : option pystr :=
  match event_body e with Some b => Some (s_event_open ++ encode_basestring sub_id ++ b) | None => None end.
(* unrepaired: f'['EVENT','{sub_id}',{{...' *)
Definition legacy_event_as_json (sub_id : pystr) (e : rawev) : option pystr :=
  match event_body e with Some b => Some (s_event_open ++ 34 :: sub_id ++ 34 :: b) | None => None end.

Definition s_eose_open : pystr := [91; 34; 69; 79; 83; 69; 34; 44].    (* ['EOSE', *)
(* repaired: f'['EOSE',{json_dumps(sub_id)}]' (json_dumps = rapidjson encoder; upper-case \u00XX) *)
Definition eose_frame (upper : bool) (sub_id : pystr) : pystr := s_eose_open ++ encode_string upper sub_id ++ [93].
(* unrepaired: f'['EOSE','{sub_id}']' *)
Definition legacy_eose_frame (sub_id : pystr) : pystr := s_eose_open ++ 34 :: sub_id ++ [34; 93].

(* ---------- the two f-strings as templates (what tools/pyfrag.d/frames_c04.py regenerates from the source) ---------- *)
Inductive piece :=
| PLit (s : pystr)          (* constant text *)
| PSubRaw                   (* {sub_id} *)
| PSubEnc                   (* {encode_basestring(sub_id)} *)
| PSubDumps                 (* {json_dumps(sub_id)} *)
| PId | PCreated | PPubkey | PKind | PSig      (* {event.<field>} *)
| PContentEnc               (* {encode_basestring(event.content)} *)
| PTags.                    (* {tags} *)
Definition interp_piece (sub : pystr) (e : rawev) (p : piece) : option pystr :=
  match p with
  | PLit s => Some s
  | PSubRaw => Some sub
  | PSubEnc => Some (encode_basestring sub)
  | PSubDumps => Some (rj_string sub)
  | PId => py_str (r_id e) | PCreated => py_str (r_created_at e) | PPubkey => py_str (r_pubkey e)
  | PKind => py_str (r_kind e) | PSig => py_str (r_sig e)
  | PContentEnc => Some (encode_basestring (r_content e))
  | PTags => render_tags (r_tags e)
  end.
Fixpoint interp (sub : pystr) (e : rawev) (t : list piece) : option pystr :=
  match t with
  | [] => Some []
  | p :: r => match interp_piece sub e p, interp sub e r with
              | Some a, Some b => Some (a ++ b)
              | _, _ => None
              end
  end.
Definition model_event_template : list piece :=
  [PLit s_event_open; PSubEnc; PLit s_id; PId; PLit s_created; PCreated; PLit s_pubkey; PPubkey; PLit s_kind; PKind;
   PLit s_sig; PSig; PLit s_content; PContentEnc; PLit s_tags; PTags; PLit s_close].
Definition model_eose_template : list piece := [PLit s_eose_open; PSubDumps; PLit [93]].

(* ---------- well-formed (admitted) events ---------- *)
(* tag items are JSON strings or - because the relay admits them (its own test-suite stores
   ["expiration", 1672329427]) - JSON integers *)
Record wevent := mkW { w_id : pystr; w_pubkey : pystr; w_created_at : Z; w_kind : Z;
                       w_tags : list (list jv); w_content : pystr; w_sig : pystr }.
Definition tag_item_ok (i : jv) : bool := match i with JStr _ => true | JInt _ => true | _ => false end.
Definition tags_ok (tags : list (list jv)) : bool := forallb (forallb tag_item_ok) tags.
Definition jtags (tags : list (list jv)) : jv := JArr (map JArr tags).
Definition raw_of (w : wevent) : rawev :=
  mkRaw (JStr (w_id w)) (JStr (w_pubkey w)) (JInt (w_created_at w)) (JInt (w_kind w))
        (jtags (w_tags w)) (w_content w) (JStr (w_sig w)).
(* what C03's admission check guarantees: lower-case hex id/pubkey/sig (their lengths do not matter
   here), tag items that are strings or integers *)
Definition hex_fields_ok (w : wevent) : bool :=
  is_lower_hex (w_id w) && is_lower_hex (w_pubkey w) && is_lower_hex (w_sig w).
Definition event_ok (w : wevent) : bool := hex_fields_ok w && tags_ok (w_tags w).

Definition k_id : pystr := [105; 100].
Definition k_created : pystr := [99; 114; 101; 97; 116; 101; 100; 95; 97; 116].
Definition k_pubkey : pystr := [112; 117; 98; 107; 101; 121].
Definition k_kind : pystr := [107; 105; 110; 100].
Definition k_sig : pystr := [115; 105; 103].
Definition k_content : pystr := [99; 111; 110; 116; 101; 110; 116].
Definition k_tags : pystr := [116; 97; 103; 115].
Definition event_obj (w : wevent) : jv :=
  JObj [(k_id, JStr (w_id w)); (k_created, JInt (w_created_at w)); (k_pubkey, JStr (w_pubkey w));
        (k_kind, JInt (w_kind w)); (k_sig, JStr (w_sig w)); (k_content, JStr (w_content w));
        (k_tags, jtags (w_tags w))].
Definition event_frame_value (sub_id : pystr) (w : wevent) : jv :=
  JArr [JStr [69; 86; 69; 78; 84]; JStr sub_id; event_obj w].
Definition eose_frame_value (sub_id : pystr) : jv := JArr [JStr [69; 79; 83; 69]; JStr sub_id].

(* ---------- row codecs ---------- *)
Local Open Scope Z_scope.
(* msgpack values (assumed to round-trip: ints in [-2^63, 2^64), UTF-8 encodable str, bytes, list -> tuple) *)
Inductive mp := MInt (z : Z) | MStr (s : pystr) | MBin (b : bytes) | MArr (l : list mp).
Definition mp_int_ok (z : Z) : bool := (-9223372036854775808 <=? z) && (z <? 18446744073709551616).
Definition utf8_char_ok (c : cp) : bool := ((c <? 55296) || (57343 <? c))%N && (c <? 1114112)%N.
Definition utf8_ok (s : pystr) : bool := forallb utf8_char_ok s.

Definition item_mp_ok (i : jv) : bool :=
  match i with JStr s => utf8_ok s | JInt z => mp_int_ok z | _ => false end.
Definition mp_of_item (i : jv) : mp := match i with JStr s => MStr s | JInt z => MInt z | _ => MStr [] end.
(* kv.encode_event: row = (VERSION, id_bytes, created_at, kind, fromhex(pubkey), content, tags, fromhex(sig)) *)
Definition kv_encode (w : wevent) : option (list mp) :=
  match bytes_of_hex (w_id w), bytes_of_hex (w_pubkey w), bytes_of_hex (w_sig w) with
  | Some i, Some p, Some s =>
      if mp_int_ok (w_created_at w) && mp_int_ok (w_kind w) && utf8_ok (w_content w)
         && forallb (forallb item_mp_ok) (w_tags w)
      then Some [MInt 1; MBin i; MInt (w_created_at w); MInt (w_kind w); MBin p; MStr (w_content w);
                 MArr (map (fun t => MArr (map mp_of_item t)) (w_tags w)); MBin s]
      else None
  | _, _, _ => None
  end.
Definition mp_item (m : mp) : option jv := match m with MStr s => Some (JStr s) | MInt z => Some (JInt z) | _ => None end.
Definition mp_tag (m : mp) : option (list jv) :=
  match m with MArr l => all_some (map mp_item l) | _ => None end.
(* kv.decode_event / matcher: Event(id=data[1].hex(), created_at=data[2], ...); the constructor
   replaces a falsy created_at by the clock and an empty id by a recomputed one (outside the model) *)
Definition kv_decode (now : Z) (row : list mp) : option wevent :=
  match row with
  | [MInt 1; MBin i; MInt c; MInt k; MBin p; MStr ct; MArr ts; MBin s] =>
      match all_some (map mp_tag ts), i with
      | Some tags, _ :: _ =>
          Some (mkW (hex_of_bytes i) (hex_of_bytes p) (if c =? 0 then now else c) k tags ct (hex_of_bytes s))
      | _, _ => None
      end
  | _ => None
  end.

(* db.py: BLOB id/pubkey/sig, INTEGER created_at/kind (SQLite: signed 64 bit), JSON tags column
   (json_dumps on the way in, json_loads on the way out), TEXT content *)
Record dbrow := mkRow { d_id : bytes; d_created_at : Z; d_kind : Z; d_pubkey : bytes;
                        d_tags : pystr; d_sig : bytes; d_content : pystr }.
Definition sql_int_ok (z : Z) : bool := (-9223372036854775808 <=? z) && (z <? 9223372036854775808).
Definition item_db_ok (i : jv) : bool := match i with JStr s => utf8_ok s | JInt _ => true | _ => false end.
Definition db_encode (w : wevent) : option dbrow :=
  match bytes_of_hex (w_id w), bytes_of_hex (w_pubkey w), bytes_of_hex (w_sig w) with
  | Some i, Some p, Some s =>
      if sql_int_ok (w_created_at w) && sql_int_ok (w_kind w) && utf8_ok (w_content w)
         && forallb (forallb item_db_ok) (w_tags w)
      then Some (mkRow i (w_created_at w) (w_kind w) p (print true (jtags (w_tags w))) s (w_content w))
      else None
  | _, _, _ => None
  end.
Definition jv_str (v : jv) : option pystr := match v with JStr s => Some s | _ => None end.
Definition jv_item (v : jv) : option jv := if tag_item_ok v then Some v else None.
Definition jv_tag (v : jv) : option (list jv) :=
  match v with JArr l => all_some (map jv_item l) | _ => None end.
(* event_from_tuple *)
Definition db_decode (now : Z) (r : dbrow) : option wevent :=
  match parse_json (d_tags r), d_id r with
  | Some (JArr ts), _ :: _ =>
      match all_some (map jv_tag ts) with
      | Some tags => Some (mkW (hex_of_bytes (d_id r)) (hex_of_bytes (d_pubkey r))
                               (if d_created_at r =? 0 then now else d_created_at r) (d_kind r)
                               tags (d_content r) (hex_of_bytes (d_sig r)))
      | None => None
      end
  | _, _ => None
  end.
