(* C04 - parse_print: the parser inverts the printer on the frame value grammar. *)
From NR Require Import Lib.Base C04.Model C04.ProofsStr.
From Coq Require Import ZifyBool ZifyN.
Open Scope list_scope. Open Scope N_scope.

(* ---------- induction on JSON values ---------- *)
Section JvInd.
  Variable P : jv -> Prop.
  Hypothesis Hnull : P JNull.
  Hypothesis Hbool : forall b, P (JBool b).
  Hypothesis Hint : forall z, P (JInt z).
  Hypothesis Hstr : forall s, P (JStr s).
  Hypothesis Hbytes : forall b, P (JBytes b).
  Hypothesis Hfloat : forall r, P (JFloat r).
  Hypothesis Harr : forall l, Forall P l -> P (JArr l).
  Hypothesis Hobj : forall kv, Forall (fun p => P (snd p)) kv -> P (JObj kv).
  Fixpoint jv_ind2 (v : jv) : P v :=
    match v with
    | JNull => Hnull
    | JBool b => Hbool b
    | JInt z => Hint z
    | JStr s => Hstr s
    | JBytes b => Hbytes b
    | JFloat r => Hfloat r
    | JArr l => Harr l ((fix go (l : list jv) : Forall P l :=
                           match l with [] => Forall_nil _ | x :: r => Forall_cons x (jv_ind2 x) (go r) end) l)
    | JObj kv => Hobj kv ((fix go (l : list (pystr * jv)) : Forall (fun p => P (snd p)) l :=
                             match l with [] => Forall_nil _ | x :: r => Forall_cons x (jv_ind2 (snd x)) (go r) end) kv)
    end.
End JvInd.

(* fuel a value needs: one unit per node and per array element / object member *)
Fixpoint need (v : jv) : nat :=
  match v with
  | JArr l => S (list_sum (map (fun x => S (need x)) l))
  | JObj kv => S (list_sum (map (fun p => S (need (snd p))) kv))
  | _ => 1
  end.

(* ---------- unfolding equations ---------- *)
Lemma skip_ws_nonws c r : is_ws c = false -> skip_ws (c :: r) = c :: r.
Proof. intros H. simpl. rewrite H. reflexivity. Qed.

Lemma parse_value_S f s :
  parse_value (S f) s =
  match skip_ws s with
  | [] => None
  | c :: r =>
      if c =? 34 then match parse_chars r with Some (x, r') => Some (JStr x, r') | None => None end
      else if c =? 91 then
        match skip_ws r with
        | [] => None
        | c2 :: r2 => if c2 =? 93 then Some (JArr [], r2)
                      else match parse_elems f r with Some (l, r') => Some (JArr l, r') | None => None end
        end
      else if c =? 123 then
        match skip_ws r with
        | [] => None
        | c2 :: r2 => if c2 =? 125 then Some (JObj [], r2)
                      else match parse_members f r with Some (l, r') => Some (JObj l, r') | None => None end
        end
      else if c =? 116 then lit (JBool true) [114; 117; 101] r
      else if c =? 102 then lit (JBool false) [97; 108; 115; 101] r
      else if c =? 110 then lit JNull [117; 108; 108] r
      else parse_number (c :: r)
  end.
Proof. reflexivity. Qed.

Lemma parse_elems_S f s :
  parse_elems (S f) s =
  match parse_value f s with
  | None => None
  | Some (v, r) =>
      match skip_ws r with
      | [] => None
      | c :: r' =>
          if c =? 44 then match parse_elems f r' with Some (l, r'') => Some (v :: l, r'') | None => None end
          else if c =? 93 then Some ([v], r')
          else None
      end
  end.
Proof. reflexivity. Qed.

Lemma parse_members_S f s :
  parse_members (S f) s =
  match skip_ws s with
  | [] => None
  | q :: r0 =>
      if q =? 34 then
        match parse_chars r0 with
        | None => None
        | Some (k, r1) =>
            match skip_ws r1 with
            | [] => None
            | c1 :: r2 =>
                if c1 =? 58 then
                  match parse_value f r2 with
                  | None => None
                  | Some (v, r3) =>
                      match skip_ws r3 with
                      | [] => None
                      | c3 :: r4 =>
                          if c3 =? 44 then
                            match parse_members f r4 with Some (l, r5) => Some ((k, v) :: l, r5) | None => None end
                          else if c3 =? 125 then Some ([(k, v)], r4)
                          else None
                      end
                  end
                else None
            end
        end
      else None
  end.
Proof. reflexivity. Qed.

Lemma join_one sep (x : pystr) : join sep [x] = x.
Proof. reflexivity. Qed.
Lemma join_cons2 sep (x y : pystr) l : join sep (x :: y :: l) = x ++ sep ++ join sep (y :: l).
Proof. reflexivity. Qed.

(* ---------- first characters ---------- *)
Definition head_ok (s : pystr) : Prop :=
  exists c r, s = c :: r /\ is_ws c = false /\ (c =? 93) = false /\ (c =? 125) = false.

Lemma print_head up v : head_ok (print up v).
Proof.
  destruct v as [|[|]|z|s|b|r|l|kv]; unfold head_ok; cbn [print];
    try (eexists; eexists; split; [reflexivity | repeat split; reflexivity]).
  - destruct (print_int_head z) as [c [r [E H]]]. exists c, r. split; [exact E|]. unfold is_ws. repeat split; lia.
Qed.

Lemma skip_ws_head s rest : head_ok s -> skip_ws (s ++ rest) = s ++ rest.
Proof. intros [c [r [-> [H _]]]]. rewrite <- app_comm_cons. apply skip_ws_nonws. exact H. Qed.

(* ---------- the main induction ---------- *)
Definition parses_back (up : bool) (v : jv) : Prop :=
  forall f rest, (need v <= f)%nat -> no_digit_head rest -> parse_value f (print up v ++ rest) = Some (v, rest).

Lemma ndh_44 r : no_digit_head (44 :: r). Proof. reflexivity. Qed.
Lemma ndh_93 r : no_digit_head (93 :: r). Proof. reflexivity. Qed.
Lemma ndh_125 r : no_digit_head (125 :: r). Proof. reflexivity. Qed.

Lemma parse_elems_print up : forall l, Forall (parses_back up) l -> l <> [] ->
  forall f rest, (list_sum (map (fun x => S (need x)) l) <= f)%nat ->
  parse_elems f (join [44] (map (print up) l) ++ 93 :: rest) = Some (l, rest).
Proof.
  induction l as [|x l IH]; intros Hall Hne f rest Hf; [congruence|].
  pose proof (Forall_inv Hall) as Hx. pose proof (Forall_inv_tail Hall) as Hl.
  change (list_sum (map (fun x0 => S (need x0)) (x :: l))) with (S (need x) + list_sum (map (fun x0 => S (need x0)) l))%nat in Hf.
  destruct f as [|f]; [lia|]. rewrite parse_elems_S.
  destruct l as [|y l'].
  - change (map (print up) [x]) with [print up x]. rewrite join_one.
    rewrite (Hx f (93 :: _)) by (try apply ndh_93; lia).
    rewrite skip_ws_nonws by reflexivity. change (93 =? 44) with false. change (93 =? 93) with true. reflexivity.
  - change (map (print up) (x :: y :: l')) with (print up x :: print up y :: map (print up) l').
    rewrite join_cons2, <- !app_assoc. rewrite app1.
    rewrite (Hx f (44 :: _)) by (try apply ndh_44; lia).
    rewrite skip_ws_nonws by reflexivity. change (44 =? 44) with true. cbv iota.
    change (print up y :: map (print up) l') with (map (print up) (y :: l')).
    rewrite (IH Hl ltac:(discriminate) f rest) by lia. reflexivity.
Qed.

Definition member_text up (p : pystr * jv) : pystr := encode_string up (fst p) ++ 58 :: print up (snd p).

Lemma parse_members_print up : forall kv, Forall (fun p => parses_back up (snd p)) kv -> kv <> [] ->
  forall f rest, (list_sum (map (fun p => S (need (snd p))) kv) <= f)%nat ->
  parse_members f (join [44] (map (member_text up) kv) ++ 125 :: rest) = Some (kv, rest).
Proof.
  induction kv as [|[k v] kv IH]; intros Hall Hne f rest Hf; [congruence|].
  pose proof (Forall_inv Hall : parses_back up v) as Hx. pose proof (Forall_inv_tail Hall) as Hl.
  change (list_sum (map (fun p => S (need (snd p))) ((k, v) :: kv))) with (S (need v) + list_sum (map (fun p => S (need (snd p))) kv))%nat in Hf.
  destruct f as [|f]; [lia|]. rewrite parse_members_S.
  destruct kv as [|y kv'].
  - change (map (member_text up) [(k, v)]) with [member_text up (k, v)]. rewrite join_one.
    unfold member_text. cbn [fst snd]. rewrite <- app_assoc, encode_string_app.
    rewrite skip_ws_nonws by reflexivity. change (34 =? 34) with true. cbv iota.
    rewrite parse_chars_encode. rewrite <- app_comm_cons. rewrite skip_ws_nonws by reflexivity.
    change (58 =? 58) with true. cbv iota.
    rewrite (Hx f (125 :: _)) by (try apply ndh_125; lia).
    rewrite skip_ws_nonws by reflexivity. change (125 =? 44) with false. change (125 =? 125) with true. reflexivity.
  - change (map (member_text up) ((k, v) :: y :: kv')) with (member_text up (k, v) :: member_text up y :: map (member_text up) kv').
    rewrite join_cons2, <- !app_assoc. unfold member_text at 1. cbn [fst snd]. rewrite <- app_assoc, encode_string_app.
    rewrite skip_ws_nonws by reflexivity. change (34 =? 34) with true. cbv iota.
    rewrite parse_chars_encode. rewrite <- app_comm_cons. rewrite skip_ws_nonws by reflexivity.
    change (58 =? 58) with true. cbv iota. rewrite app1.
    rewrite (Hx f (44 :: _)) by (try apply ndh_44; lia).
    rewrite skip_ws_nonws by reflexivity. change (44 =? 44) with true. cbv iota.
    change (member_text up y :: map (member_text up) kv') with (map (member_text up) (y :: kv')).
    rewrite (IH Hl ltac:(discriminate) f rest) by lia. reflexivity.
Qed.

Lemma forallb_Forall {A} (p : A -> bool) l : forallb p l = true -> Forall (fun x => p x = true) l.
Proof. intros H. apply Forall_forall. intros x Hx. rewrite forallb_forall in H. apply H. exact Hx. Qed.

Lemma parse_print_gen up : forall v, json_ok v = true -> parses_back up v.
Proof.
  induction v as [|b|z|s|b|r|l IH|kv IH] using jv_ind2; intros Hok f rest Hf Hr; cbn [need] in Hf;
    try discriminate.
  - destruct f; [lia|]. reflexivity.
  - destruct f; [lia|]. destruct b; reflexivity.
  - destruct f; [lia|]. rewrite parse_value_S. destruct (print_int_head z) as [c [r [E H]]].
    cbn [print]. rewrite E, <- app_comm_cons.
    rewrite skip_ws_nonws by (unfold is_ws; lia).
    replace (c =? 34) with false by lia. replace (c =? 91) with false by lia. replace (c =? 123) with false by lia.
    replace (c =? 116) with false by lia. replace (c =? 102) with false by lia. replace (c =? 110) with false by lia.
    rewrite app_comm_cons, <- E. apply parse_number_print. exact Hr.
  - destruct f; [lia|]. rewrite parse_value_S. cbn [print]. rewrite encode_string_app.
    rewrite skip_ws_nonws by reflexivity. change (34 =? 34) with true. cbv iota.
    rewrite parse_chars_encode. reflexivity.
  - (* arrays *)
    destruct f; [lia|]. apply le_S_n in Hf. rewrite parse_value_S. cbn [print]. rewrite <- app_comm_cons.
    rewrite skip_ws_nonws by reflexivity. change (91 =? 34) with false. change (91 =? 91) with true. cbv iota.
    rewrite <- app_assoc, app1.
    destruct l as [|x l'].
    + reflexivity.
    + assert (Hall : Forall (parses_back up) (x :: l')).
      { cbn [json_ok] in Hok. apply forallb_Forall in Hok. rewrite Forall_forall in *. intros y Hy. apply IH; [exact Hy | apply Hok; exact Hy]. }
      pose proof (parse_elems_print up (x :: l') Hall ltac:(discriminate) f rest Hf) as PE.
      change (map (print up) (x :: l')) with (print up x :: map (print up) l') in *.
      assert (Hh : head_ok (join [44] (print up x :: map (print up) l'))).
      { destruct (print_head up x) as [c [r [E H]]]. destruct l' as [|y l''].
        - rewrite join_one. exists c, r. split; [exact E | exact H].
        - change (map (print up) (y :: l'')) with (print up y :: map (print up) l''). rewrite join_cons2, E.
          exists c, (r ++ [44] ++ join [44] (print up y :: map (print up) l'')). split; [reflexivity | exact H]. }
      rewrite (skip_ws_head _ _ Hh). destruct Hh as [c [r [E [_ [H93 _]]]]]. rewrite E in *.
      rewrite <- app_comm_cons. rewrite H93. rewrite <- app_comm_cons in PE.
      match goal with |- context [parse_elems ?a ?b] => replace (parse_elems a b) with (Some (x :: l', rest)) by (symmetry; exact PE) end.
      reflexivity.
  - (* objects *)
    destruct f; [lia|]. apply le_S_n in Hf. rewrite parse_value_S. cbn [print]. rewrite <- app_comm_cons.
    rewrite skip_ws_nonws by reflexivity. change (123 =? 34) with false. change (123 =? 91) with false.
    change (123 =? 123) with true. cbv iota.
    rewrite <- app_assoc, app1.
    destruct kv as [|[k v] kv'].
    + reflexivity.
    + assert (Hall : Forall (fun p => parses_back up (snd p)) ((k, v) :: kv')).
      { cbn [json_ok] in Hok. apply forallb_Forall in Hok. rewrite Forall_forall in *. intros y Hy. apply IH; [exact Hy | apply Hok; exact Hy]. }
      pose proof (parse_members_print up ((k, v) :: kv') Hall ltac:(discriminate) f rest Hf) as PM.
      change (map (fun p => encode_string up (fst p) ++ 58 :: print up (snd p)) ((k, v) :: kv'))
        with (map (member_text up) ((k, v) :: kv')).
      change (map (member_text up) ((k, v) :: kv')) with (member_text up (k, v) :: map (member_text up) kv') in *.
      assert (Hh : exists r, join [44] (member_text up (k, v) :: map (member_text up) kv') = 34 :: r).
      { destruct kv' as [|y kv''].
        - rewrite join_one. unfold member_text, encode_string. eexists. reflexivity.
        - change (map (member_text up) (y :: kv'')) with (member_text up y :: map (member_text up) kv''). rewrite join_cons2.
          unfold member_text at 1. unfold encode_string. eexists. reflexivity. }
      destruct Hh as [r E]. rewrite E in *. rewrite <- app_comm_cons in *.
      rewrite skip_ws_nonws by reflexivity. change (34 =? 125) with false. cbv iota.
      match goal with |- context [parse_members ?a ?b] => replace (parse_members a b) with (Some ((k, v) :: kv', rest)) by (symmetry; exact PM) end.
      reflexivity.
Qed.

(* ---------- fuel: a printed text is at least as long as the fuel its value needs ---------- *)
Lemma join_length_ge (ls : list pystr) (ws : list nat) :
  Forall2 (fun s w => (w <= length s)%nat) ls ws ->
  (list_sum (map S ws) <= length (join [44%N] ls) + 1)%nat.
Proof.
  induction 1 as [|s w ls ws Hsw Hrest IH]; [simpl; lia|].
  destruct ls as [|s2 ls'].
  - inversion Hrest; subst. rewrite join_one. simpl. lia.
  - rewrite join_cons2, !app_length. change (list_sum (map S (w :: ws))) with (S w + list_sum (map S ws))%nat.
    change (length [44]) with 1%nat. unfold pystr, cp in *. lia.
Qed.

Lemma encode_string_length up s : (2 <= length (encode_string up s))%nat.
Proof. unfold encode_string. cbn [length]. rewrite app_length. simpl. lia. Qed.

Lemma need_le_length up : forall v, (need v <= length (print up v))%nat.
Proof.
  induction v as [|b|z|s|b|r|l IH|kv IH] using jv_ind2; cbn [need print]; try (simpl; lia).
  - destruct b; simpl; lia.
  - destruct (print_int_head z) as [c [r [E _]]]. rewrite E. simpl. lia.
  - cbn [length]. rewrite app_length. cbn [length].
    assert (F2 : Forall2 (fun s w => (w <= length s)%nat) (map (print up) l) (map need l)).
    { induction IH; cbn [map]; constructor; assumption. }
    pose proof (join_length_ge _ _ F2) as H. rewrite map_map in H. lia.
  - cbn [length]. rewrite app_length. cbn [length].
    assert (F2 : Forall2 (fun s w => (w <= length s)%nat)
                   (map (fun p => encode_string up (fst p) ++ 58 :: print up (snd p)) kv) (map (fun p => need (snd p)) kv)).
    { induction IH; cbn [map]; constructor; [|assumption]. rewrite app_length. cbn [length]. lia. }
    pose proof (join_length_ge _ _ F2) as H. rewrite map_map in H. lia.
Qed.

(* parse_print: the whole-text parser inverts the printer *)
Lemma parse_print up v : json_ok v = true -> parse_json (print up v) = Some v.
Proof.
  intros H. unfold parse_json. rewrite <- (app_nil_r (print up v)) at 2.
  rewrite (parse_print_gen up v H _ []); [reflexivity | | exact I].
  pose proof (need_le_length up v). lia.
Qed.
