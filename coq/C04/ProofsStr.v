(* C04 - string literals and integers: the parser inverts the encoders. *)
From NR Require Import Lib.Base C04.Model.
From Coq Require Import ZifyBool ZifyN Decimal DecimalFacts DecimalN.
Open Scope list_scope. Open Scope N_scope.
Ltac Zify.zify_post_hook ::= Z.to_euclidean_division_equations.

(* ---------- hex digits ---------- *)
Lemma hexval_hexd up n : n < 16 -> hexval (hexd up n) = Some n.
Proof.
  intros H. unfold hexd, hexval. destruct (n <? 10) eqn:E1.
  - replace ((48 <=? n + 48) && (n + 48 <=? 57))%bool with true by lia. f_equal. lia.
  - destruct up.
    + replace ((48 <=? n + 55) && (n + 55 <=? 57))%bool with false by lia.
      replace ((97 <=? n + 55) && (n + 55 <=? 102))%bool with false by lia.
      replace ((65 <=? n + 55) && (n + 55 <=? 70))%bool with true by lia. f_equal. lia.
    + replace ((48 <=? n + 87) && (n + 87 <=? 57))%bool with false by lia.
      replace ((97 <=? n + 87) && (n + 87 <=? 102))%bool with true by lia. f_equal. lia.
Qed.

Lemma hex4_00 up c : c < 32 -> hex4 48 48 (hexd up (c / 16)) (hexd up (c mod 16)) = Some c.
Proof.
  intros H. unfold hex4. rewrite (hexval_hexd up (c / 16)) by lia. rewrite (hexval_hexd up (c mod 16)) by lia.
  change (hexval 48) with (Some 0). cbv iota beta. f_equal. lia.
Qed.

Lemma is_high_small c : c < 32 -> is_high c = false.
Proof. intros H. unfold is_high. lia. Qed.

(* ---------- string bodies ---------- *)
Lemma parse_chars_cons c r :
  parse_chars (c :: r) =
  if c =? 34 then Some ([], r)
  else if c =? 92 then
    match r with
    | [] => None
    | e :: r1 =>
        if e =? 117 then
          match r1 with
          | a :: b :: c' :: d :: r2 =>
              match hex4 a b c' d with
              | None => None
              | Some v =>
                  if is_high v then
                    match r2 with
                    | y1 :: y2 :: y3 :: y4 :: y5 :: y6 :: r3 =>
                        if (y1 =? 92) && (y2 =? 117) then
                          match hex4 y3 y4 y5 y6 with
                          | Some w => if is_low w then ocons (65536 + (v - 55296) * 1024 + (w - 56320)) (parse_chars r3)
                                      else ocons v (parse_chars r2)
                          | None => None
                          end
                        else ocons v (parse_chars r2)
                    | _ => ocons v (parse_chars r2)
                    end
                  else ocons v (parse_chars r2)
              end
          | _ => None
          end
        else match unescape e with
             | Some x => ocons x (parse_chars r1)
             | None => None
             end
    end
  else if c <? 32 then None
  else ocons c (parse_chars r).
Proof. reflexivity. Qed.

Lemma parse_chars_short e x r : (e =? 117) = false -> unescape e = Some x ->
  parse_chars (92 :: e :: r) = ocons x (parse_chars r).
Proof.
  intros H1 H2. rewrite parse_chars_cons. change (92 =? 34) with false. change (92 =? 92) with true.
  cbv iota. rewrite H1, H2. reflexivity.
Qed.

Lemma parse_chars_u00 up c r : c < 32 ->
  parse_chars (92 :: 117 :: 48 :: 48 :: hexd up (c / 16) :: hexd up (c mod 16) :: r) = ocons c (parse_chars r).
Proof.
  intros H. rewrite parse_chars_cons. change (92 =? 34) with false. change (92 =? 92) with true.
  cbv iota. change (117 =? 117) with true. cbv iota. rewrite (hex4_00 up c H), (is_high_small c H). reflexivity.
Qed.

Lemma parse_chars_plain c r : (c =? 34) = false -> (c =? 92) = false -> (c <? 32) = false ->
  parse_chars (c :: r) = ocons c (parse_chars r).
Proof. intros H1 H2 H3. rewrite parse_chars_cons, H1, H2, H3. reflexivity. Qed.

Lemma app1 {A} (a : A) l : [a] ++ l = a :: l. Proof. reflexivity. Qed.
Lemma app2 {A} (a b : A) l : [a; b] ++ l = a :: b :: l. Proof. reflexivity. Qed.
Lemma app6 {A} (a b c d e f : A) l : [a; b; c; d; e; f] ++ l = a :: b :: c :: d :: e :: f :: l. Proof. reflexivity. Qed.

(* parse_string_encode, on string bodies: for every string s, either escaping, every rest *)
Lemma parse_chars_encode up : forall s rest,
  parse_chars (flat_map (esc_char up) s ++ 34 :: rest) = Some (s, rest).
Proof.
  induction s as [|c s IH]; intros rest.
  - simpl. reflexivity.
  - cbn [flat_map]. rewrite <- app_assoc. unfold esc_char at 1.
    destruct (c =? 34) eqn:E34.
    { apply N.eqb_eq in E34. subst c. rewrite app2. rewrite (parse_chars_short 34 34) by reflexivity. rewrite IH. reflexivity. }
    destruct (c =? 92) eqn:E92.
    { apply N.eqb_eq in E92. subst c. rewrite app2. rewrite (parse_chars_short 92 92) by reflexivity. rewrite IH. reflexivity. }
    destruct (c =? 10) eqn:E10.
    { apply N.eqb_eq in E10. subst c. rewrite app2. rewrite (parse_chars_short 110 10) by reflexivity. rewrite IH. reflexivity. }
    destruct (c =? 13) eqn:E13.
    { apply N.eqb_eq in E13. subst c. rewrite app2. rewrite (parse_chars_short 114 13) by reflexivity. rewrite IH. reflexivity. }
    destruct (c =? 9) eqn:E9.
    { apply N.eqb_eq in E9. subst c. rewrite app2. rewrite (parse_chars_short 116 9) by reflexivity. rewrite IH. reflexivity. }
    destruct (c =? 8) eqn:E8.
    { apply N.eqb_eq in E8. subst c. rewrite app2. rewrite (parse_chars_short 98 8) by reflexivity. rewrite IH. reflexivity. }
    destruct (c =? 12) eqn:E12.
    { apply N.eqb_eq in E12. subst c. rewrite app2. rewrite (parse_chars_short 102 12) by reflexivity. rewrite IH. reflexivity. }
    destruct (c <? 32) eqn:E32.
    { rewrite app6. rewrite parse_chars_u00 by lia. rewrite IH. reflexivity. }
    rewrite app1. rewrite parse_chars_plain by assumption. rewrite IH. reflexivity.
Qed.

Lemma encode_string_app up s rest : encode_string up s ++ rest = 34 :: flat_map (esc_char up) s ++ 34 :: rest.
Proof. unfold encode_string. rewrite <- app_comm_cons, <- app_assoc. reflexivity. Qed.

(* strings that need no escaping: hex digits *)
Lemma esc_lower_hex up s : is_lower_hex s = true -> flat_map (esc_char up) s = s.
Proof.
  unfold is_lower_hex. induction s as [|c s IH]; intros H; [reflexivity|].
  cbn [forallb] in H. apply andb_true_iff in H. destruct H as [Hc Hs]. cbn [flat_map]. rewrite (IH Hs).
  unfold is_lower_hex_char in Hc. unfold esc_char.
  replace (c =? 34) with false by lia. replace (c =? 92) with false by lia. replace (c =? 10) with false by lia.
  replace (c =? 13) with false by lia. replace (c =? 9) with false by lia. replace (c =? 8) with false by lia.
  replace (c =? 12) with false by lia. replace (c <? 32) with false by lia. reflexivity.
Qed.

(* ---------- integers ---------- *)
Definition no_digit_head (rest : pystr) : Prop :=
  match rest with c :: _ => digit_cons c = None | [] => True end.

Lemma read_digits_cons c r :
  read_digits (c :: r) = match digit_cons c with
                         | Some k => let '(d, r') := read_digits r in (k d, r')
                         | None => (Nil, c :: r)
                         end.
Proof. reflexivity. Qed.

Lemma read_digits_cps : forall d rest, no_digit_head rest -> read_digits (cps_of_uint d ++ rest) = (d, rest).
Proof.
  induction d as [|d IH|d IH|d IH|d IH|d IH|d IH|d IH|d IH|d IH|d IH]; intros rest H.
  - change (cps_of_uint Nil ++ rest) with rest. destruct rest as [|c r]; [reflexivity|]. simpl in H.
    rewrite read_digits_cons, H. reflexivity.
  - change (cps_of_uint (D0 d) ++ rest) with (48 :: (cps_of_uint d ++ rest)). rewrite read_digits_cons.
    change (digit_cons 48) with (Some D0). cbv iota beta. rewrite (IH rest H). reflexivity.
  - change (cps_of_uint (D1 d) ++ rest) with (49 :: (cps_of_uint d ++ rest)). rewrite read_digits_cons.
    change (digit_cons 49) with (Some D1). cbv iota beta. rewrite (IH rest H). reflexivity.
  - change (cps_of_uint (D2 d) ++ rest) with (50 :: (cps_of_uint d ++ rest)). rewrite read_digits_cons.
    change (digit_cons 50) with (Some D2). cbv iota beta. rewrite (IH rest H). reflexivity.
  - change (cps_of_uint (D3 d) ++ rest) with (51 :: (cps_of_uint d ++ rest)). rewrite read_digits_cons.
    change (digit_cons 51) with (Some D3). cbv iota beta. rewrite (IH rest H). reflexivity.
  - change (cps_of_uint (D4 d) ++ rest) with (52 :: (cps_of_uint d ++ rest)). rewrite read_digits_cons.
    change (digit_cons 52) with (Some D4). cbv iota beta. rewrite (IH rest H). reflexivity.
  - change (cps_of_uint (D5 d) ++ rest) with (53 :: (cps_of_uint d ++ rest)). rewrite read_digits_cons.
    change (digit_cons 53) with (Some D5). cbv iota beta. rewrite (IH rest H). reflexivity.
  - change (cps_of_uint (D6 d) ++ rest) with (54 :: (cps_of_uint d ++ rest)). rewrite read_digits_cons.
    change (digit_cons 54) with (Some D6). cbv iota beta. rewrite (IH rest H). reflexivity.
  - change (cps_of_uint (D7 d) ++ rest) with (55 :: (cps_of_uint d ++ rest)). rewrite read_digits_cons.
    change (digit_cons 55) with (Some D7). cbv iota beta. rewrite (IH rest H). reflexivity.
  - change (cps_of_uint (D8 d) ++ rest) with (56 :: (cps_of_uint d ++ rest)). rewrite read_digits_cons.
    change (digit_cons 56) with (Some D8). cbv iota beta. rewrite (IH rest H). reflexivity.
  - change (cps_of_uint (D9 d) ++ rest) with (57 :: (cps_of_uint d ++ rest)). rewrite read_digits_cons.
    change (digit_cons 57) with (Some D9). cbv iota beta. rewrite (IH rest H). reflexivity.
Qed.

Lemma uint_beq_refl d : uint_beq d d = true.
Proof. apply internal_uint_dec_lb. reflexivity. Qed.

Lemma unorm_to_uint n : unorm (N.to_uint n) = N.to_uint n.
Proof. rewrite <- Unsigned.to_of, Unsigned.of_to. reflexivity. Qed.

Lemma norm_ok_to_uint n : norm_ok (N.to_uint n) = true.
Proof. unfold norm_ok. rewrite unorm_to_uint. apply uint_beq_refl. Qed.

Lemma to_uint_nonnil n : N.to_uint n <> Nil.
Proof. rewrite <- unorm_to_uint. apply unorm_nonnil. Qed.

(* the first character of a decimal rendering is a digit *)
Lemma cps_of_uint_head d : d <> Nil -> exists c r, cps_of_uint d = c :: r /\ 48 <= c <= 57.
Proof. destruct d; intros H; try congruence; cbn [cps_of_uint]; eexists; eexists; (split; [reflexivity | lia]). Qed.

Lemma print_int_head z : exists c r, print_int z = c :: r /\ (c = 45 \/ 48 <= c <= 57).
Proof.
  unfold print_int. destruct (z <? 0)%Z.
  - eexists; eexists; split; [reflexivity | left; reflexivity].
  - destruct (cps_of_uint_head _ (to_uint_nonnil (Z.to_N z))) as [c [r [E H]]]. exists c, r. split; [exact E | right; exact H].
Qed.

Lemma parse_number_cons c r :
  parse_number (c :: r) =
  if c =? 45 then
    let '(d, r') := read_digits r in
    if norm_ok d then Some (JInt (- Z.of_N (N.of_uint d)), r') else None
  else
    let '(d, r') := read_digits (c :: r) in
    if norm_ok d then Some (JInt (Z.of_N (N.of_uint d)), r') else None.
Proof. reflexivity. Qed.

Lemma parse_number_print z rest : no_digit_head rest ->
  parse_number (print_int z ++ rest) = Some (JInt z, rest).
Proof.
  intros H. unfold print_int. destruct (z <? 0)%Z eqn:Ez.
  - rewrite <- app_comm_cons, parse_number_cons. change (45 =? 45) with true. cbv iota.
    rewrite (read_digits_cps _ rest H), norm_ok_to_uint, Unsigned.of_to. do 3 f_equal. lia.
  - destruct (cps_of_uint_head _ (to_uint_nonnil (Z.to_N z))) as [c [r [E Hc]]].
    rewrite E, <- app_comm_cons, parse_number_cons. replace (c =? 45) with false by lia.
    rewrite app_comm_cons, <- E.
    rewrite (read_digits_cps _ rest H), norm_ok_to_uint, Unsigned.of_to. do 3 f_equal. lia.
Qed.
