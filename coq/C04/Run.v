(* C04 - wire entry points for the correspondence harness and the executable statement. *)
From NR Require Import Lib.Base Lib.Wire C04.Model C04.Spec.
Open Scope string_scope. Open Scope list_scope. Open Scope Z_scope.

Definition jopt (o : option pystr) : jv := match o with Some s => JStr s | None => JNull end.

(* {strs:[str]} -> {py:[encode_basestring s], rj:[rapidjson string]} *)
Definition run_enc (v : jv) : jv :=
  let strs := map as_str (as_arr (jfield "strs" v)) in
  jobj [("py", JArr (map (fun s => JStr (encode_basestring s)) strs));
        ("rj", JArr (map (fun s => JStr (rj_string s)) strs))].

Definition rawev_of_jv (v : jv) : rawev :=
  mkRaw (jfield "id" v) (jfield "pubkey" v) (jfield "created_at" v) (jfield "kind" v)
        (jfield "tags" v) (as_str (jfield "content" v)) (jfield "sig" v).
Definition wevent_of_jv (v : jv) : wevent :=
  mkW (as_str (jfield "id" v)) (as_str (jfield "pubkey" v)) (as_int (jfield "created_at" v)) (as_int (jfield "kind" v))
      (map as_arr (as_arr (jfield "tags" v))) (as_str (jfield "content" v))
      (as_str (jfield "sig" v)).
Definition jv_of_wevent (w : wevent) : jv :=
  jobj [("id", JStr (w_id w)); ("pubkey", JStr (w_pubkey w)); ("created_at", JInt (w_created_at w));
        ("kind", JInt (w_kind w)); ("tags", jtags (w_tags w)); ("content", JStr (w_content w)); ("sig", JStr (w_sig w))].

(* {sub, ev} -> the model's util.event_as_json text (null: outside the modelled str() fragment),
   and what the unrepaired serializer produced *)
Definition run_event (v : jv) : jv :=
  let sub := as_str (jfield "sub" v) in
  let e := rawev_of_jv (jfield "ev" v) in
  jobj [("raw", jopt (event_as_json sub e)); ("legacy", jopt (legacy_event_as_json sub e))].

(* {sub, upper} -> EOSE frame text *)
Definition run_eose (v : jv) : jv :=
  let sub := as_str (jfield "sub" v) in
  jobj [("raw", JStr (eose_frame (as_bool (jfield "upper" v)) sub)); ("legacy", JStr (legacy_eose_frame sub))].

(* {v, upper} -> printed text *)
Definition run_print (v : jv) : jv := JStr (print (as_bool (jfield "upper" v)) (jfield "v" v)).

(* raw text -> parsed value or null (a JSON null parses to ["null"] so that it differs from failure) *)
Definition run_parse (v : jv) : jv :=
  match parse_json (as_str v) with Some x => JArr [x] | None => JNull end.

(* the executable statement: {raw, expected} -> verdict *)
Definition holds_frame (v : jv) : jv := JStr (check_frame (as_str (jfield "raw" v)) (jfield "expected" v)).

(* {ev, now, path: "sql"|"kv"|"live"} -> the event the model serves, or null *)
Definition run_codec (v : jv) : jv :=
  let w := wevent_of_jv (jfield "ev" v) in
  let p := as_str (jfield "path" v) in
  let path := if str_eqb p (pys "sql") then StoredSQL else if str_eqb p (pys "kv") then StoredKV else LivePush in
  match served (as_int (jfield "now" v)) path w with
  | Some w' => jv_of_wevent w'
  | None => JNull
  end.

(* {a, b} -> are two served/submitted events field-for-field equal *)
Definition holds_verbatim (v : jv) : jv :=
  JStr (if wevent_eqb (wevent_of_jv (jfield "accepted" v)) (wevent_of_jv (jfield "served" v))
        then pys "ok" else pys "served-event-differs").

Definition suites : list (string * (jv -> jv)) :=
  [("c04.enc", run_enc); ("c04.event", run_event); ("c04.eose", run_eose); ("c04.print", run_print);
   ("c04.parse", run_parse); ("c04.frame", holds_frame); ("c04.codec", run_codec); ("c04.verbatim", holds_verbatim)].
Definition dispatch := dispatch_in suites.
