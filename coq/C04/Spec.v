(* C04 - what "well-formed frame" and "served verbatim" mean. *)
From NR Require Import Lib.Base C04.Model.
Open Scope list_scope.

(* a raw text frame is well-formed for the expected value iff the JSON parser reads exactly that value *)
Definition frame_is (raw : pystr) (expected : jv) : Prop := parse_json raw = Some expected.

(* the five frame shapes of the property text *)
Definition s_EVENT : pystr := [69; 86; 69; 78; 84]%N.
Definition s_EOSE : pystr := [69; 79; 83; 69]%N.
Definition s_OK : pystr := [79; 75]%N.
Definition s_NOTICE : pystr := [78; 79; 84; 73; 67; 69]%N.
Definition s_AUTH : pystr := [65; 85; 84; 72]%N.
Definition frame_shape_ok (v : jv) : bool :=
  match v with
  | JArr [JStr t; JStr _; JObj _] => str_eqb t s_EVENT
  | JArr [JStr t; JStr _] => str_eqb t s_EOSE || str_eqb t s_NOTICE || str_eqb t s_AUTH
  | JArr [JStr t; JStr _; JBool _; JStr _] => str_eqb t s_OK
  | _ => false
  end.

(* equality of JSON values up to the order of object members *)
Fixpoint jv_sim (a b : jv) {struct a} : bool :=
  match a, b with
  | JNull, JNull => true
  | JBool x, JBool y => Bool.eqb x y
  | JInt x, JInt y => Z.eqb x y
  | JStr x, JStr y => str_eqb x y
  | JArr x, JArr y =>
      (fix go (l1 l2 : list jv) : bool :=
         match l1, l2 with
         | [], [] => true
         | u :: l1', v :: l2' => jv_sim u v && go l1' l2'
         | _, _ => false
         end) x y
  | JObj x, JObj y =>
      Nat.eqb (length x) (length y) &&
      (fix go (l1 : list (pystr * jv)) : bool :=
         match l1 with
         | [] => true
         | (k, u) :: l1' => existsb (fun q => str_eqb k (fst q) && jv_sim u (snd q)) y && go l1'
         end) x
  | _, _ => false
  end.

(* executable statement for one frame: raw text as sent, value it must denote *)
Definition check_frame (raw : pystr) (expected : jv) : pystr :=
  match parse_json raw with
  | None => pys "unparsable-frame"
  | Some v => if negb (frame_shape_ok v) then pys "not-a-relay-frame-shape"
              else if jv_sim v expected then pys "ok" else pys "altered-frame"
  end.

(* served verbatim: the event that comes out of a serving path is the event that went in *)
Inductive path := StoredSQL | StoredKV | LivePush.
Definition served (now : Z) (p : path) (w : wevent) : option wevent :=
  match p with
  | StoredSQL => match db_encode w with Some r => db_decode now r | None => None end
  | StoredKV => match kv_encode w with Some r => kv_decode now r | None => None end
  | LivePush => Some w            (* the very object that was admitted is queued *)
  end.

Definition wevent_eqb (a b : wevent) : bool :=
  str_eqb (w_id a) (w_id b) && str_eqb (w_pubkey a) (w_pubkey b) && Z.eqb (w_created_at a) (w_created_at b)
  && Z.eqb (w_kind a) (w_kind b) && list_eqb (list_eqb jv_eqb) (w_tags a) (w_tags b)
  && str_eqb (w_content a) (w_content b) && str_eqb (w_sig a) (w_sig b).
