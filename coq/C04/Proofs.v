(* C04 - frames are prints of their values; the row codecs round-trip well-formed events. *)
From NR Require Import Lib.Base C04.Model C04.Spec C04.ProofsStr C04.ProofsParse.
From Coq Require Import ZifyBool ZifyN.
Open Scope list_scope. Open Scope N_scope.
Ltac Zify.zify_post_hook ::= Z.to_euclidean_division_equations.

(* ---------- helpers ---------- *)
Lemma all_some_map_some {A B} (g : A -> B) l : all_some (map (fun x => Some (g x)) l) = Some (map g l).
Proof. induction l as [|x l IH]; [reflexivity|]. cbn [map all_some]. rewrite IH. reflexivity. Qed.

Lemma all_some_map_ext {A B} (f : A -> option B) (g : A -> B) l :
  (forall x, In x l -> f x = Some (g x)) -> all_some (map f l) = Some (map g l).
Proof.
  induction l as [|x l IH]; intros H; [reflexivity|]. cbn [map all_some].
  rewrite (H x (or_introl eq_refl)), IH; [reflexivity|]. intros y Hy. apply H. right. exact Hy.
Qed.

Lemma tag_item_json_ok i : tag_item_ok i = true -> json_ok i = true.
Proof. destruct i; try discriminate; reflexivity. Qed.

Lemma json_ok_jtags tags : tags_ok tags = true -> json_ok (jtags tags) = true.
Proof.
  unfold jtags, tags_ok. intros H. cbn [json_ok]. apply forallb_forall. intros v Hv. apply in_map_iff in Hv.
  destruct Hv as [t [<- Ht]]. cbn [json_ok]. apply forallb_forall. intros u Hu.
  rewrite forallb_forall in H. specialize (H t Ht). rewrite forallb_forall in H. apply tag_item_json_ok, H, Hu.
Qed.

(* ---------- util.event_as_json on admitted events is the printer ---------- *)
Lemma tag_item_print i : tag_item_ok i = true -> tag_item i = Some (print false i).
Proof. destruct i; try discriminate; reflexivity. Qed.

Lemma render_tag_wf t : forallb tag_item_ok t = true -> render_tag (JArr t) = Some (print false (JArr t)).
Proof.
  intros H. unfold render_tag. rewrite (all_some_map_ext tag_item (print false)); [reflexivity|].
  intros x Hx. apply tag_item_print. rewrite forallb_forall in H. apply H, Hx.
Qed.

Lemma render_tags_wf tags : tags_ok tags = true ->
  render_tags (jtags tags) = Some (join [44] (map (print false) (map JArr tags))).
Proof.
  intros H. unfold render_tags, jtags. rewrite (all_some_map_ext render_tag (print false)); [reflexivity|].
  intros v Hv. apply in_map_iff in Hv. destruct Hv as [t [<- Ht]]. apply render_tag_wf.
  unfold tags_ok in H. rewrite forallb_forall in H. apply H, Ht.
Qed.

Lemma enc_hex up s : is_lower_hex s = true -> encode_string up s = 34 :: s ++ [34].
Proof. intros H. unfold encode_string. rewrite (esc_lower_hex up s H). reflexivity. Qed.

Lemma enc_EVENT : encode_string false [69; 86; 69; 78; 84] = [34; 69; 86; 69; 78; 84; 34]. Proof. reflexivity. Qed.
Lemma enc_EOSE up : encode_string up [69; 79; 83; 69] = [34; 69; 79; 83; 69; 34]. Proof. destruct up; reflexivity. Qed.
Lemma enc_k_id : encode_string false k_id = 34 :: k_id ++ [34]. Proof. reflexivity. Qed.
Lemma enc_k_created : encode_string false k_created = 34 :: k_created ++ [34]. Proof. reflexivity. Qed.
Lemma enc_k_pubkey : encode_string false k_pubkey = 34 :: k_pubkey ++ [34]. Proof. reflexivity. Qed.
Lemma enc_k_kind : encode_string false k_kind = 34 :: k_kind ++ [34]. Proof. reflexivity. Qed.
Lemma enc_k_sig : encode_string false k_sig = 34 :: k_sig ++ [34]. Proof. reflexivity. Qed.
Lemma enc_k_content : encode_string false k_content = 34 :: k_content ++ [34]. Proof. reflexivity. Qed.
Lemma enc_k_tags : encode_string false k_tags = 34 :: k_tags ++ [34]. Proof. reflexivity. Qed.

Lemma print_event_frame sub w :
  hex_fields_ok w = true ->
  print false (event_frame_value sub w) =
  s_event_open ++ encode_basestring sub ++ s_id ++ w_id w ++ s_created ++ print_int (w_created_at w) ++ s_pubkey
  ++ w_pubkey w ++ s_kind ++ print_int (w_kind w) ++ s_sig ++ w_sig w ++ s_content ++ encode_basestring (w_content w)
  ++ s_tags ++ join [44] (map (print false) (map JArr (w_tags w))) ++ s_close.
Proof.
  intros H. unfold hex_fields_ok in H. apply andb_true_iff in H. destruct H as [H Hs].
  apply andb_true_iff in H. destruct H as [Hi Hp].
  unfold event_frame_value, event_obj, jtags, encode_basestring.
  cbn [print map fst snd]. rewrite enc_EVENT, enc_k_id, enc_k_created, enc_k_pubkey, enc_k_kind, enc_k_sig, enc_k_content, enc_k_tags.
  rewrite (enc_hex false _ Hi), (enc_hex false _ Hp), (enc_hex false _ Hs).
  generalize (encode_string false sub) (w_id w) (print_int (w_created_at w)) (w_pubkey w) (print_int (w_kind w))
             (w_sig w) (encode_string false (w_content w))
             (join [44] (map (print false) (map JArr (w_tags w)))).
  intros a b c d e f g h.
  unfold s_event_open, s_id, s_created, s_pubkey, s_kind, s_sig, s_content, s_tags, s_close,
         k_id, k_created, k_pubkey, k_kind, k_sig, k_content, k_tags.
  cbn [join]. repeat (rewrite <- app_assoc || rewrite <- app_comm_cons). reflexivity.
Qed.

Lemma event_ok_split w : event_ok w = true -> hex_fields_ok w = true /\ tags_ok (w_tags w) = true.
Proof. unfold event_ok. intros H. apply andb_true_iff in H. exact H. Qed.

Lemma event_as_json_is_print sub w :
  event_ok w = true ->
  event_as_json sub (raw_of w) = Some (print false (event_frame_value sub w)).
Proof.
  intros H0. destruct (event_ok_split w H0) as [H Ht]. rewrite (print_event_frame sub w H).
  unfold event_as_json, event_body, raw_of. cbn [r_tags r_id r_created_at r_pubkey r_kind r_sig r_content].
  rewrite (render_tags_wf _ Ht). cbn [py_str py_fmt]. repeat rewrite <- app_assoc. reflexivity.
Qed.

Lemma json_ok_event_frame sub w : tags_ok (w_tags w) = true -> json_ok (event_frame_value sub w) = true.
Proof.
  intros H. unfold event_frame_value, event_obj. cbn [json_ok forallb snd]. rewrite (json_ok_jtags _ H). reflexivity.
Qed.

(* every EVENT frame parses to the expected array, with the subscription id equal to the client's string *)
Lemma event_frame_parses sub w :
  event_ok w = true ->
  exists raw, event_as_json sub (raw_of w) = Some raw /\ frame_is raw (event_frame_value sub w).
Proof.
  intros H. eexists. split; [apply event_as_json_is_print; exact H|].
  apply parse_print. apply json_ok_event_frame. apply (event_ok_split w H).
Qed.

Lemma eose_is_print up sub : eose_frame up sub = print up (eose_frame_value sub).
Proof.
  unfold eose_frame, eose_frame_value. cbn [print map]. rewrite enc_EOSE. cbn [join].
  unfold s_eose_open. repeat (rewrite <- app_assoc || rewrite <- app_comm_cons). reflexivity.
Qed.

Lemma eose_frame_parses up sub : frame_is (eose_frame up sub) (eose_frame_value sub).
Proof. unfold frame_is. rewrite eose_is_print. apply parse_print. reflexivity. Qed.

(* the model's serializers are the interpretation of the templates *)
Lemma interp_event_template sub e : interp sub e model_event_template = event_as_json sub e.
Proof.
  unfold model_event_template, event_as_json, event_body. cbn [interp interp_piece].
  destruct (render_tags (r_tags e)) as [tags|]; destruct (py_str (r_id e)) as [i|]; destruct (py_str (r_created_at e)) as [c|];
    destruct (py_str (r_pubkey e)) as [p|]; destruct (py_str (r_kind e)) as [k|]; destruct (py_str (r_sig e)) as [s|];
    reflexivity.
Qed.

Lemma interp_eose_template sub e : interp sub e model_eose_template = Some (eose_frame true sub).
Proof. unfold model_eose_template, eose_frame, rj_string. cbn [interp interp_piece]. reflexivity. Qed.

(* ---------- hex ---------- *)
Lemma list_ind2 {A} (P : list A -> Prop) :
  P [] -> (forall a, P [a]) -> (forall a b l, P l -> P (a :: b :: l)) -> forall l, P l.
Proof.
  intros H0 H1 H2. fix IH 1. intros [|a [|b l]]; [exact H0 | apply H1 | apply H2, IH].
Qed.

Lemma hexval_lt c v : hexval c = Some v -> v < 16.
Proof.
  unfold hexval. destruct ((48 <=? c) && (c <=? 57))%bool eqn:E1; [intros H; inversion H; lia|].
  destruct ((97 <=? c) && (c <=? 102))%bool eqn:E2; [intros H; inversion H; lia|].
  destruct ((65 <=? c) && (c <=? 70))%bool eqn:E3; [intros H; inversion H; lia | discriminate].
Qed.

Lemma hexdigit_hexval c v : is_lower_hex_char c = true -> hexval c = Some v -> hexdigit v = c.
Proof.
  unfold is_lower_hex_char, hexval, hexdigit. intros L.
  destruct ((48 <=? c) && (c <=? 57))%bool eqn:E1.
  - intros H; inversion H; subst. replace (c - 48 <? 10) with true by lia. lia.
  - destruct ((97 <=? c) && (c <=? 102))%bool eqn:E2; [|lia].
    intros H; inversion H; subst. replace (c - 87 <? 10) with false by lia. lia.
Qed.

Lemma hexdigit_lower v : v < 16 -> is_lower_hex_char (hexdigit v) = true.
Proof. intros H. unfold hexdigit, is_lower_hex_char. destruct (v <? 10) eqn:E; lia. Qed.

Lemma hex_of_byte_pair x y : x < 16 -> y < 16 -> hex_of_byte (x * 16 + y) = [hexdigit x; hexdigit y].
Proof.
  intros Hx Hy. unfold hex_of_byte. replace ((x * 16 + y) / 16) with x by lia. replace ((x * 16 + y) mod 16) with y by lia.
  reflexivity.
Qed.

(* bytes.fromhex(x).hex() = x  iff  x is lower-case (even length is implied by fromhex succeeding) *)
Lemma hex_roundtrip : forall x b, bytes_of_hex x = Some b -> is_lower_hex x = true -> hex_of_bytes b = x.
Proof.
  induction x as [|a|a b' x IH] using list_ind2; intros b E L.
  - inversion E. reflexivity.
  - discriminate.
  - cbn [bytes_of_hex] in E. destruct (hexval a) as [va|] eqn:Ea; [|discriminate].
    destruct (hexval b') as [vb|] eqn:Eb; [|discriminate].
    destruct (bytes_of_hex x) as [r|] eqn:Er; [|discriminate]. inversion E; subst.
    unfold is_lower_hex in L. cbn [forallb] in L. apply andb_true_iff in L. destruct L as [La L].
    apply andb_true_iff in L. destruct L as [Lb L].
    unfold hex_of_bytes. cbn [flat_map]. rewrite hex_of_byte_pair by (eapply hexval_lt; eassumption).
    rewrite (hexdigit_hexval a va La Ea), (hexdigit_hexval b' vb Lb Eb). cbn [app]. do 2 f_equal.
    apply (IH r eq_refl). exact L.
Qed.

Lemma hex_roundtrip_conv : forall x b, bytes_of_hex x = Some b -> hex_of_bytes b = x -> is_lower_hex x = true.
Proof.
  induction x as [|a|a b' x IH] using list_ind2; intros b E R.
  - reflexivity.
  - discriminate.
  - cbn [bytes_of_hex] in E. destruct (hexval a) as [va|] eqn:Ea; [|discriminate].
    destruct (hexval b') as [vb|] eqn:Eb; [|discriminate].
    destruct (bytes_of_hex x) as [r|] eqn:Er; [|discriminate]. inversion E; subst.
    unfold hex_of_bytes in R. cbn [flat_map] in R.
    rewrite hex_of_byte_pair in R by (eapply hexval_lt; eassumption). cbn [app] in R. inversion R as [[R1 R2 R3]].
    unfold is_lower_hex. cbn [forallb]. rewrite R1, R2.
    rewrite <- R1 at 1. rewrite hexdigit_lower by (eapply hexval_lt; eassumption).
    rewrite <- R2 at 1. rewrite hexdigit_lower by (eapply hexval_lt; eassumption).
    cbn [andb]. rewrite R3. apply (IH r eq_refl). exact R3.
Qed.

Lemma bytes_of_hex_nil x : bytes_of_hex x = Some [] -> x = [].
Proof.
  destruct x as [|a [|b x]]; [reflexivity | discriminate|]. cbn [bytes_of_hex].
  destruct (hexval a); [|discriminate]. destruct (hexval b); [|discriminate]. destruct (bytes_of_hex x); discriminate.
Qed.

(* ---------- codecs ---------- *)
Local Open Scope Z_scope.

Lemma mp_item_back i : tag_item_ok i = true -> mp_item (mp_of_item i) = Some i.
Proof. destruct i; try discriminate; reflexivity. Qed.

Lemma mp_tags_back tags : tags_ok tags = true ->
  all_some (map mp_tag (map (fun t => MArr (map mp_of_item t)) tags)) = Some tags.
Proof.
  intros H. rewrite map_map. rewrite (all_some_map_ext _ (fun t => t)); [rewrite map_id; reflexivity|].
  intros t Ht. cbn [mp_tag]. rewrite map_map. rewrite (all_some_map_ext _ (fun i => i)); [rewrite map_id; reflexivity|].
  intros i Hi. apply mp_item_back. unfold tags_ok in H. rewrite forallb_forall in H. specialize (H t Ht).
  rewrite forallb_forall in H. apply H, Hi.
Qed.

Lemma jv_tags_back tags : tags_ok tags = true -> all_some (map jv_tag (map JArr tags)) = Some tags.
Proof.
  intros H. rewrite map_map. rewrite (all_some_map_ext _ (fun t => t)); [rewrite map_id; reflexivity|].
  intros t Ht. cbn [jv_tag]. rewrite (all_some_map_ext _ (fun i => i)); [rewrite map_id; reflexivity|].
  intros i Hi. unfold jv_item. unfold tags_ok in H. rewrite forallb_forall in H. specialize (H t Ht).
  rewrite forallb_forall in H. rewrite (H i Hi). reflexivity.
Qed.

Lemma kv_roundtrip now w row :
  kv_encode w = Some row -> event_ok w = true -> w_id w <> [] -> w_created_at w <> 0 ->
  kv_decode now row = Some w.
Proof.
  intros E H0 Hid Hc. destruct (event_ok_split w H0) as [H Ht]. unfold hex_fields_ok in H. apply andb_true_iff in H. destruct H as [H Hs].
  apply andb_true_iff in H. destruct H as [Hi Hp].
  unfold kv_encode in E. destruct (bytes_of_hex (w_id w)) as [i|] eqn:Ei; [|discriminate].
  destruct (bytes_of_hex (w_pubkey w)) as [p|] eqn:Ep; [|discriminate].
  destruct (bytes_of_hex (w_sig w)) as [s|] eqn:Es; [|discriminate].
  destruct (mp_int_ok (w_created_at w) && mp_int_ok (w_kind w) && utf8_ok (w_content w) && forallb (forallb item_mp_ok) (w_tags w))%bool; [|discriminate].
  inversion E; subst row. cbn [kv_decode]. rewrite (mp_tags_back _ Ht).
  destruct i as [|i0 i']; [apply bytes_of_hex_nil in Ei; contradiction|].
  rewrite (hex_roundtrip _ _ Ei Hi), (hex_roundtrip _ _ Ep Hp), (hex_roundtrip _ _ Es Hs).
  replace (w_created_at w =? 0) with false by lia. destruct w; reflexivity.
Qed.

Lemma db_roundtrip now w row :
  db_encode w = Some row -> event_ok w = true -> w_id w <> [] -> w_created_at w <> 0 ->
  db_decode now row = Some w.
Proof.
  intros E H0 Hid Hc. destruct (event_ok_split w H0) as [H Ht]. unfold hex_fields_ok in H. apply andb_true_iff in H. destruct H as [H Hs].
  apply andb_true_iff in H. destruct H as [Hi Hp].
  unfold db_encode in E. destruct (bytes_of_hex (w_id w)) as [i|] eqn:Ei; [|discriminate].
  destruct (bytes_of_hex (w_pubkey w)) as [p|] eqn:Ep; [|discriminate].
  destruct (bytes_of_hex (w_sig w)) as [s|] eqn:Es; [|discriminate].
  destruct (sql_int_ok (w_created_at w) && sql_int_ok (w_kind w) && utf8_ok (w_content w) && forallb (forallb item_db_ok) (w_tags w))%bool; [|discriminate].
  inversion E; subst row. unfold db_decode. cbn [d_tags d_id d_pubkey d_created_at d_kind d_content d_sig].
  change (91%N :: join [44%N] (map (print true) (map JArr (w_tags w))) ++ [93%N])
    with (print true (jtags (w_tags w))).
  rewrite (parse_print true (jtags (w_tags w)) (json_ok_jtags _ Ht)). unfold jtags at 1.
  destruct i as [|i0 i']; [apply bytes_of_hex_nil in Ei; contradiction|].
  rewrite (jv_tags_back _ Ht).
  rewrite (hex_roundtrip _ _ Ei Hi), (hex_roundtrip _ _ Ep Hp), (hex_roundtrip _ _ Es Hs).
  replace (w_created_at w =? 0) with false by lia. destruct w; reflexivity.
Qed.

Lemma served_verbatim now p w w' :
  event_ok w = true -> w_id w <> [] -> w_created_at w <> 0 ->
  served now p w = Some w' -> w' = w.
Proof.
  intros H Hid Hc S. destruct p; cbn [served] in S.
  - destruct (db_encode w) as [r|] eqn:E; [|discriminate]. rewrite (db_roundtrip now w r E H Hid Hc) in S. congruence.
  - destruct (kv_encode w) as [r|] eqn:E; [|discriminate]. rewrite (kv_roundtrip now w r E H Hid Hc) in S. congruence.
  - congruence.
Qed.
