(* C03 - is_signed implies authentic; admission; the unrepaired verify ignores the claimed id. *)
From NR Require Import Lib.Base Lib.BaseFacts Lib.PyRt C04.Model C03.Model C03.Spec.
From Coq Require Import ZifyBool.
Open Scope list_scope. Open Scope Z_scope.

(* ---------- shapes ---------- *)
Lemma all_some_jv_item : forall l t, all_some (map jv_item l) = Some t -> l = t /\ forallb tag_item_ok t = true.
Proof.
  induction l as [|x l IH]; intros t H.
  - inversion H. split; reflexivity.
  - cbn [map all_some] in H. unfold jv_item at 1 in H. destruct (tag_item_ok x) eqn:Ex; [|discriminate].
    destruct (all_some (map jv_item l)) as [t'|] eqn:El; [|discriminate]. inversion H; subst.
    destruct (IH t' eq_refl) as [-> Hok]. split; [reflexivity|]. cbn [forallb]. rewrite Ex, Hok. reflexivity.
Qed.

Lemma wf_tag_shape v t : wf_tag v = Some t -> v = JArr t /\ t <> [] /\ forallb tag_item_ok t = true.
Proof.
  unfold wf_tag. destruct v as [| | | | | |l|]; try discriminate. destruct l as [|x l]; [discriminate|].
  intros H. destruct (all_some_jv_item _ _ H) as [E Hok]. rewrite <- E. repeat split; [discriminate | rewrite E; exact Hok].
Qed.

Lemma all_some_wf_tag : forall l ts, all_some (map wf_tag l) = Some ts ->
  l = map JArr ts /\ Forall (fun t => t <> []) ts /\ tags_ok ts = true.
Proof.
  induction l as [|x l IH]; intros ts H.
  - inversion H. repeat split; constructor.
  - cbn [map all_some] in H. destruct (wf_tag x) as [t|] eqn:Ex; [|discriminate].
    destruct (all_some (map wf_tag l)) as [ts'|] eqn:El; [|discriminate]. inversion H; subst.
    destruct (wf_tag_shape _ _ Ex) as [-> [Hne Hok]]. destruct (IH ts' eq_refl) as [-> [Hf Hoks]].
    repeat split; [constructor; assumption|]. unfold tags_ok in *. cbn [forallb]. rewrite Hok, Hoks. reflexivity.
Qed.

Lemma wf_tags_shape v ts : wf_tags v = Some ts -> v = jtags ts /\ Forall (fun t => t <> []) ts /\ tags_ok ts = true.
Proof.
  unfold wf_tags. destruct v as [| | | | | |l|]; try discriminate. intros H.
  destruct (all_some_wf_tag _ _ H) as [-> Hf]. split; [reflexivity | exact Hf].
Qed.

Lemma wf_hex_shape n v s : wf_hex n v = Some s -> v = JStr s /\ length s = n /\ is_lower_hex s = true.
Proof.
  unfold wf_hex. destruct v; try discriminate. destruct (Nat.eqb (length s0) n && is_lower_hex s0)%bool eqn:E; [|discriminate].
  intros H; inversion H; subst. apply andb_true_iff in E. destruct E as [E1 E2]. apply Nat.eqb_eq in E1. auto.
Qed.

Record wf_facts (ev : robj) (w : wevent) : Prop := {
  wf_id : o_id ev = JStr (w_id w); wf_pubkey : o_pubkey ev = JStr (w_pubkey w); wf_sig : o_sig ev = JStr (w_sig w);
  wf_created : o_created_at ev = JInt (w_created_at w); wf_kind : o_kind ev = w_kind w;
  wf_tagsv : o_tags ev = jtags (w_tags w); wf_content : o_content ev = w_content w;
  wf_idlen : length (w_id w) = 64%nat; wf_idhex : is_lower_hex (w_id w) = true;
  wf_pklen : length (w_pubkey w) = 64%nat; wf_pkhex : is_lower_hex (w_pubkey w) = true;
  wf_siglen : length (w_sig w) = 128%nat; wf_sighex : is_lower_hex (w_sig w) = true;
  wf_tags_nonempty : Forall (fun t => t <> []) (w_tags w);
  wf_tags_items : tags_ok (w_tags w) = true }.

Lemma wf_event_facts ev w : wf_event ev = Some w -> wf_facts ev w.
Proof.
  unfold wf_event. destruct (wf_hex 64 (o_id ev)) as [i|] eqn:Ei; [|discriminate].
  destruct (wf_hex 64 (o_pubkey ev)) as [p|] eqn:Ep; [|discriminate].
  destruct (wf_hex 128 (o_sig ev)) as [s|] eqn:Es; [|discriminate].
  destruct (o_created_at ev) as [| |c| | | | |] eqn:Ec; try discriminate.
  destruct (wf_tags (o_tags ev)) as [ts|] eqn:Et; [|discriminate].
  intros H; inversion H; subst. clear H.
  destruct (wf_hex_shape _ _ _ Ei) as [A1 [A2 A3]]. destruct (wf_hex_shape _ _ _ Ep) as [B1 [B2 B3]].
  destruct (wf_hex_shape _ _ _ Es) as [C1 [C2 C3]]. destruct (wf_tags_shape _ _ Et) as [D1 [D2 D3]].
  constructor; cbn [w_id w_pubkey w_sig w_created_at w_kind w_tags w_content]; auto.
Qed.

Section Proofs.
  Variable serialize : jv -> jv -> Z -> jv -> pystr -> option bytes.
  Variable sha256 : bytes -> bytes.
  Variable schnorr_ok : bytes -> bytes -> bytes -> bool.
  Variable utf8 : pystr -> option bytes.
  Variable int_of_float : pystr -> option Z.

  Notation is_signed := (is_signed serialize sha256 schnorr_ok utf8).
  Notation legacy_is_signed := (legacy_is_signed serialize sha256 schnorr_ok utf8).
  Notation authentic := (authentic serialize sha256 schnorr_ok utf8).
  Notation construct := (construct serialize sha256 int_of_float).
  Notation add_event := (add_event serialize sha256 int_of_float).
  Notation path_outcome := (path_outcome serialize sha256 int_of_float).

  Lemma check_delegation_valid pubkey tag :
    check_delegation sha256 schnorr_ok utf8 pubkey tag = true <-> delegation_valid sha256 schnorr_ok utf8 pubkey tag.
  Proof.
    unfold check_delegation, delegation_valid. split.
    - destruct tag as [|a [|b [|c [|d [|e r]]]]]; try discriminate;
        try (destruct b; try discriminate); try (destruct c; try discriminate); try (destruct d; try discriminate).
      match goal with |- context [py_fromhex ?x1] => destruct (py_fromhex x1) as [dk|] eqn:E1; [|discriminate] end.
      match goal with |- context [utf8 ?t] => destruct (utf8 t) as [tok|] eqn:E2; [|discriminate] end.
      match goal with |- context [py_fromhex ?x2] => destruct (py_fromhex x2) as [sgb|] eqn:E3; [|discriminate] end.
      intros H. do 7 eexists. repeat split; try eassumption; reflexivity.
    - intros [a [b [c [d [dk [tok [sgb [-> [E1 [E2 [E3 H]]]]]]]]]]]. rewrite E1, E2, E3. exact H.
  Qed.

  (* the repaired validator lets only authentic events through *)
  Lemma is_signed_authentic ev : is_signed ev = true -> authentic ev.
  Proof.
    unfold C03.Model.is_signed. destruct (wf_event ev) as [w|] eqn:Ew; [|discriminate].
    pose proof (wf_event_facts ev w Ew) as F.
    destruct (serialize (o_pubkey ev) (o_created_at ev) (o_kind ev) (o_tags ev) (o_content ev)) as [ser|] eqn:Es; [|discriminate].
    intros H. apply andb_true_iff in H. destruct H as [Hid H].
    destruct (py_fromhex (w_pubkey w)) as [pk|] eqn:Epk; [|discriminate].
    destruct (py_fromhex (w_sig w)) as [sg|] eqn:Esg; [|discriminate].
    apply andb_true_iff in H. destruct H as [Hs Hd].
    exists w, ser, pk, sg.
    rewrite (wf_pubkey _ _ F), (wf_created _ _ F), (wf_kind _ _ F), (wf_tagsv _ _ F), (wf_content _ _ F) in Es.
    repeat split; auto.
    - apply str_eqb_eq. exact Hid.
    - intros tag Hin Hdel. unfold delegations_ok in Hd. rewrite forallb_forall in Hd. specialize (Hd tag Hin).
      rewrite Hdel in Hd. apply check_delegation_valid. exact Hd.
  Qed.

  Lemma authentic_is_signed ev : authentic ev -> is_signed ev = true.
  Proof.
    intros [w [ser [pk [sg [Ew [Es [Hid [Epk [Esg [Hs Hd]]]]]]]]]]. pose proof (wf_event_facts ev w Ew) as F.
    unfold C03.Model.is_signed. rewrite Ew.
    rewrite (wf_pubkey _ _ F), (wf_created _ _ F), (wf_kind _ _ F), (wf_tagsv _ _ F), (wf_content _ _ F), Es, Epk, Esg, Hs.
    rewrite Hid, str_eqb_refl. cbn [andb]. unfold delegations_ok. apply forallb_forall. intros tag Hin.
    destruct (is_delegation tag) eqn:Hdel; [|reflexivity]. apply check_delegation_valid. apply Hd; assumption.
  Qed.

  (* admission: whatever the configured validator list (as long as it contains is_signed) and whatever
     the backend does afterwards, an effect is produced only for an authentic event *)
  Lemma admit_authentic now validators post j :
    In (fun ev => is_signed ev) validators ->
    let o := add_event now validators post j in
    (acked o = true \/ stored o = true \/ broadcast o = true) ->
    exists ev, construct now j = Built ev /\ o = post ev /\ authentic ev.
  Proof.
    intros Hin o. subst o. unfold C03.Model.add_event. destruct (construct now j) as [|ev] eqn:Ec.
    - cbn. intros [H|[H|H]]; discriminate.
    - destruct (forallb (fun v => v ev) validators) eqn:Ev.
      + intros _. exists ev. repeat split. apply is_signed_authentic. rewrite forallb_forall in Ev. apply (Ev _ Hin).
      + cbn. intros [H|[H|H]]; discriminate.
  Qed.

  (* the three admission paths produce their effects through add_event *)
  Lemma all_paths_admit now validators post p :
    let o := path_outcome now validators post p in
    (acked o = true \/ stored o = true \/ broadcast o = true) ->
    exists j, o = add_event now validators post j.
  Proof.
    intros o. subst o. destruct p as [limited payload | line | j]; cbn [C03.Model.path_outcome].
    - destruct limited; [cbn; intros [H|[H|H]]; discriminate|]. intros _. eexists; reflexivity.
    - intros _. destruct line; eexists; reflexivity.
    - intros _. eexists; reflexivity.
  Qed.

  (* created_at of a constructed event is never 0 (the constructor replaces falsy values by the clock) *)
  Lemma construct_created_nonzero now j ev c :
    construct now j = Built ev -> now <> 0 -> o_created_at ev = JInt c -> c <> 0.
  Proof.
    unfold C03.Model.construct. destruct j as [| | | | | | |kv]; try discriminate.
    destruct (negb (forallb (fun p => mem_str (fst p) allowed_keys) kv)); [discriminate|].
    destruct (match jget k_content kv with None => Some [] | Some (JStr s) => Some s | Some _ => None end) as [content|]; [|discriminate].
    destruct (match jget k_kind kv with None => Some 1 | Some v => py_int int_of_float v end) as [kind|]; [|discriminate].
    set (created := match jget k_created_at kv with Some v => if truthy v then v else JInt now | None => JInt now end).
    assert (HC : forall c, created = JInt c -> now <> 0 -> c <> 0).
    { subst created. intros c0 E Hn. destruct (jget k_created_at kv) as [v|]; [|inversion E; subst; exact Hn].
      destruct (truthy v) eqn:T; [|inversion E; subst; exact Hn]. subst v. cbn in T. lia. }
    intros H Hn Ec.
    destruct (jget k_id kv) as [v|].
    - destruct (truthy v).
      + inversion H; subst. cbn in Ec. apply (HC c Ec Hn).
      + destruct (serialize _ created kind _ content); [|discriminate]. inversion H; subst. cbn in Ec. apply (HC c Ec Hn).
    - destruct (serialize _ created kind _ content); [|discriminate]. inversion H; subst. cbn in Ec. apply (HC c Ec Hn).
  Qed.

  (* what C04 needs from admission *)
  Lemma wf_event_c04 ev w : wf_event ev = Some w -> event_ok w = true /\ w_id w <> [].
  Proof.
    intros H. pose proof (wf_event_facts ev w H) as F. split.
    - unfold event_ok, hex_fields_ok. rewrite (wf_idhex _ _ F), (wf_pkhex _ _ F), (wf_sighex _ _ F), (wf_tags_items _ _ F). reflexivity.
    - intros E. pose proof (wf_idlen _ _ F) as L. rewrite E in L. discriminate.
  Qed.

  (* ---------- the unrepaired verify (F08) ---------- *)
  Definition set_id (ev : robj) (x : jv) : robj :=
    mkObj x (o_pubkey ev) (o_created_at ev) (o_kind ev) (o_tags ev) (o_content ev) (o_sig ev).

  Lemma legacy_ignores_id ev x : legacy_is_signed (set_id ev x) = legacy_is_signed ev.
  Proof. reflexivity. Qed.

  Lemma authentic_legacy ev : authentic ev -> legacy_is_signed ev = true.
  Proof.
    intros [w [ser [pk [sg [Ew [Es [Hid [Epk [Esg [Hs Hd]]]]]]]]]]. pose proof (wf_event_facts ev w Ew) as F.
    unfold C03.Model.legacy_is_signed.
    assert (Ht : wf_tags (o_tags ev) = Some (w_tags w)).
    { unfold wf_event in Ew. destruct (wf_hex 64 (o_id ev)); [|discriminate]. destruct (wf_hex 64 (o_pubkey ev)); [|discriminate].
      destruct (wf_hex 128 (o_sig ev)); [|discriminate]. destruct (o_created_at ev); try discriminate.
      destruct (wf_tags (o_tags ev)); [|discriminate]. inversion Ew. reflexivity. }
    rewrite Ht. rewrite (wf_pubkey _ _ F) at 1. rewrite (wf_sig _ _ F) at 1. rewrite Epk, Esg.
    rewrite (wf_pubkey _ _ F), (wf_created _ _ F), (wf_kind _ _ F), (wf_tagsv _ _ F), (wf_content _ _ F), Es, Hs.
    cbn [andb]. unfold delegations_ok. apply forallb_forall. intros tag Hin.
    destruct (is_delegation tag) eqn:Hdel; [|reflexivity]. apply check_delegation_valid. apply Hd; assumption.
  Qed.

  (* a validly signed event whose id field is replaced by ANY other well-formed id passes the
     unrepaired validator although it is not authentic *)
  Lemma legacy_refuted ev x :
    authentic ev -> wf_hex 64 (JStr x) = Some x -> o_id ev <> JStr x ->
    legacy_is_signed (set_id ev (JStr x)) = true /\ ~ authentic (set_id ev (JStr x)).
  Proof.
    intros A Hx Hne. split; [rewrite legacy_ignores_id; apply authentic_legacy; exact A|].
    intros [w' [ser' [pk' [sg' [Ew' [Es' [Hid' _]]]]]]].
    destruct A as [w [ser [pk [sg [Ew [Es [Hid _]]]]]]].
    pose proof (wf_event_facts _ _ Ew) as F. pose proof (wf_event_facts _ _ Ew') as F'.
    assert (Eid : w_id w' = x) by (pose proof (wf_id _ _ F') as H; cbn in H; inversion H; reflexivity).
    assert (Epk : w_pubkey w' = w_pubkey w) by (pose proof (wf_pubkey _ _ F') as H; cbn in H; rewrite (wf_pubkey _ _ F) in H; inversion H; reflexivity).
    assert (Eca : w_created_at w' = w_created_at w) by (pose proof (wf_created _ _ F') as H; cbn in H; rewrite (wf_created _ _ F) in H; inversion H; reflexivity).
    assert (Ek : w_kind w' = w_kind w) by (pose proof (wf_kind _ _ F') as H; cbn in H; rewrite (wf_kind _ _ F) in H; symmetry; exact H).
    assert (Et : jtags (w_tags w') = jtags (w_tags w)) by (pose proof (wf_tagsv _ _ F') as H; cbn in H; rewrite (wf_tagsv _ _ F) in H; symmetry; exact H).
    assert (Ec : w_content w' = w_content w) by (pose proof (wf_content _ _ F') as H; cbn in H; rewrite (wf_content _ _ F) in H; symmetry; exact H).
    rewrite Epk, Eca, Ek, Et, Ec, Es in Es'. inversion Es'; subst ser'.
    apply Hne. rewrite (wf_id _ _ F). f_equal. rewrite Hid, <- Hid'. exact Eid.
  Qed.

  (* ---------- relative to another serializer (the open finding on 9 control characters) ---------- *)
  Variable nip01 : jv -> jv -> Z -> jv -> pystr -> option bytes.
  Notation authentic_nip01 := (C03.Spec.authentic nip01 sha256 schnorr_ok utf8).

  Lemma is_signed_authentic_nip01 ev w :
    (forall w, clean_event w = true ->
       serialize (JStr (w_pubkey w)) (JInt (w_created_at w)) (w_kind w) (jtags (w_tags w)) (w_content w) =
       nip01 (JStr (w_pubkey w)) (JInt (w_created_at w)) (w_kind w) (jtags (w_tags w)) (w_content w)) ->
    is_signed ev = true -> wf_event ev = Some w -> clean_event w = true -> authentic_nip01 ev.
  Proof.
    intros Agree H Ew Hc. destruct (is_signed_authentic ev H) as [w' [ser [pk [sg [Ew' [Es R]]]]]].
    rewrite Ew in Ew'. inversion Ew'; subst w'. exists w, ser, pk, sg. split; [exact Ew|]. split; [|exact R].
    rewrite <- (Agree w Hc). exact Es.
  Qed.

  Lemma serializers_differ_refutes ev w ser ser' :
    is_signed ev = true -> wf_event ev = Some w ->
    serialize (JStr (w_pubkey w)) (JInt (w_created_at w)) (w_kind w) (jtags (w_tags w)) (w_content w) = Some ser ->
    nip01 (JStr (w_pubkey w)) (JInt (w_created_at w)) (w_kind w) (jtags (w_tags w)) (w_content w) = Some ser' ->
    hex_of_bytes (sha256 ser) <> hex_of_bytes (sha256 ser') ->
    ~ authentic_nip01 ev.
  Proof.
    intros H Ew Es Es' Hne [w' [s2 [pk [sg [Ew' [E2 [Hid _]]]]]]].
    rewrite Ew in Ew'. inversion Ew'; subst w'. rewrite Es' in E2. inversion E2; subst s2.
    destruct (is_signed_authentic ev H) as [w2 [s3 [pk3 [sg3 [Ew2 [E3 [Hid3 _]]]]]]].
    rewrite Ew in Ew2. inversion Ew2; subst w2. rewrite Es in E3. inversion E3; subst s3.
    apply Hne. rewrite <- Hid, <- Hid3. reflexivity.
  Qed.
End Proofs.
