(* C03 - the format check translated from the source of validators.is_signed (Gen/IsSigned.v,
   regenerated on every run) implies the model's "correctly formatted". *)
From NR Require Import Lib.Base Lib.BaseFacts Lib.PyRt C04.Model C03.Model Gen.IsSigned.
From Coq Require Import ZifyBool ZifyN.
Open Scope list_scope.

Lemma hexdigit_class c : mem_N c gen_hexdigits = is_lower_hex_char c.
Proof.
  unfold gen_hexdigits, mem_N, is_lower_hex_char. cbn [pys map list_ascii_of_string existsb].
  change (N_of_ascii "0") with 48%N. change (N_of_ascii "1") with 49%N. change (N_of_ascii "2") with 50%N.
  change (N_of_ascii "3") with 51%N. change (N_of_ascii "4") with 52%N. change (N_of_ascii "5") with 53%N.
  change (N_of_ascii "6") with 54%N. change (N_of_ascii "7") with 55%N. change (N_of_ascii "8") with 56%N.
  change (N_of_ascii "9") with 57%N. change (N_of_ascii "a") with 97%N. change (N_of_ascii "b") with 98%N.
  change (N_of_ascii "c") with 99%N. change (N_of_ascii "d") with 100%N. change (N_of_ascii "e") with 101%N.
  change (N_of_ascii "f") with 102%N.
  destruct ((48 <=? c) && (c <=? 57) || (97 <=? c) && (c <=? 102))%N eqn:E; lia.
Qed.

Lemma gen_is_hex_wf n v : gen_is_hex n v = true -> exists s, wf_hex n v = Some s.
Proof.
  unfold gen_is_hex, wf_hex. destruct v; try discriminate. intros H. apply andb_true_iff in H. destruct H as [H1 H2].
  assert (L : is_lower_hex s = true).
  { unfold is_lower_hex. rewrite forallb_forall in *. intros c Hc. rewrite <- hexdigit_class. apply H2, Hc. }
  rewrite H1, L. eexists; reflexivity.
Qed.

Lemma gen_items_ok l : forallb gen_item_ok l = true -> all_some (map jv_item l) = Some l.
Proof.
  induction l as [|x l IH]; intros H; [reflexivity|]. cbn [forallb] in H. apply andb_true_iff in H. destruct H as [Hx Hl].
  cbn [map all_some]. unfold jv_item at 1. replace (tag_item_ok x) with true by (destruct x; try discriminate; reflexivity).
  rewrite (IH Hl). reflexivity.
Qed.

Lemma gen_tag_ok_wf t : gen_tag_ok t = true -> exists l, wf_tag t = Some l.
Proof.
  unfold gen_tag_ok, wf_tag. destruct t; try discriminate. destruct l as [|x l]; [discriminate|].
  intros H. apply andb_true_iff in H. destruct H as [_ H]. rewrite (gen_items_ok _ H). eexists; reflexivity.
Qed.

Lemma gen_tags_ok_wf v : gen_tags_ok v = true -> exists ts, wf_tags v = Some ts.
Proof.
  unfold gen_tags_ok, wf_tags. destruct v; try discriminate. induction l as [|t l IH]; intros H.
  - eexists; reflexivity.
  - cbn [forallb] in H. apply andb_true_iff in H. destruct H as [Ht Hl].
    destruct (gen_tag_ok_wf t Ht) as [x Ex]. destruct (IH Hl) as [ts Ets].
    cbn [map all_some]. rewrite Ex, Ets. eexists; reflexivity.
Qed.

(* the source's format check implies the model's wf_event *)
Lemma gen_format_ok_wf ev : gen_format_ok ev = true -> exists w, wf_event ev = Some w.
Proof.
  unfold gen_format_ok. intros H. repeat (apply andb_true_iff in H; destruct H as [H ?]).
  destruct (gen_is_hex_wf _ _ H) as [i Ei].
  match goal with H1 : gen_is_hex 64 (o_pubkey ev) = true |- _ => destruct (gen_is_hex_wf _ _ H1) as [p Ep] end.
  match goal with H1 : gen_is_hex 128 (o_sig ev) = true |- _ => destruct (gen_is_hex_wf _ _ H1) as [s Es] end.
  match goal with H1 : gen_tags_ok (o_tags ev) = true |- _ => destruct (gen_tags_ok_wf _ H1) as [ts Ets] end.
  match goal with H1 : gen_is_int (o_created_at ev) = true |- _ => unfold gen_is_int in H1; destruct (o_created_at ev) eqn:Ec; try discriminate end.
  unfold wf_event. rewrite Ei, Ep, Es, Ec, Ets. eexists; reflexivity.
Qed.
