(* C03 - wire entry points.  The oracles are instantiated per case from tables computed by the
   harness with code independent of aionostr (hashlib, its own NIP-01 serializer, its own
   BIP-340 verifier). *)
From NR Require Import Lib.Base Lib.BaseFacts Lib.PyRt Lib.Wire C04.Model C03.Model C03.Spec.
Open Scope string_scope. Open Scope list_scope. Open Scope Z_scope.

Definition jv_bytes (v : jv) : option bytes := match v with JBytes b => Some b | JStr b => Some b | _ => None end.
Definition flatten {A} (o : option (option A)) : option A := match o with Some x => x | None => None end.

(* ---- oracle tables ---- *)
(* ser: [[pubkey, created_at, kind, tags, content, bytes|null] ...] *)
Definition tbl_ser (t : jv) (pk ca : jv) (kd : Z) (tags : jv) (content : pystr) : option bytes :=
  flatten (find_map (fun e => let l := as_arr e in
                       if jv_eqb (nth 0 l JNull) pk && jv_eqb (nth 1 l JNull) ca && jv_eqb (nth 2 l JNull) (JInt kd)
                          && jv_eqb (nth 3 l JNull) tags && jv_eqb (nth 4 l JNull) (JStr content)
                       then Some (jv_bytes (nth 5 l JNull)) else None) (as_arr t)).
(* sha: [[input, digest] ...] *)
Definition tbl_sha (t : jv) (x : bytes) : bytes :=
  match find_map (fun e => let l := as_arr e in
                    if str_eqb (as_str (nth 0 l JNull)) x then Some (as_str (nth 1 l JNull)) else None) (as_arr t) with
  | Some d => d | None => [] end.
(* schnorr: [[pubkey, msg, sig, bool] ...] *)
Definition tbl_schnorr (t : jv) (pk msg sg : bytes) : bool :=
  match find_map (fun e => let l := as_arr e in
                    if str_eqb (as_str (nth 0 l JNull)) pk && str_eqb (as_str (nth 1 l JNull)) msg
                       && str_eqb (as_str (nth 2 l JNull)) sg then Some (as_bool (nth 3 l JNull)) else None) (as_arr t) with
  | Some b => b | None => false end.
(* utf8: [[str, bytes|null] ...] *)
Definition tbl_utf8 (t : jv) (s : pystr) : option bytes :=
  flatten (find_map (fun e => let l := as_arr e in
                       match nth 0 l JNull with
                       | JStr s' => if str_eqb s' s then Some (jv_bytes (nth 1 l JNull)) else None
                       | _ => None end) (as_arr t)).
(* floats: [[repr, int|null] ...] *)
Definition tbl_float (t : jv) (r : pystr) : option Z :=
  flatten (find_map (fun e => let l := as_arr e in
                       match nth 0 l JNull with
                       | JFloat r' => if str_eqb r' r then Some (as_opt_int (nth 1 l JNull)) else None
                       | _ => None end) (as_arr t)).

(* ---- phase 1: what the oracles will be asked ---- *)
(* {now, json, floats} -> {ser_args: [pubkey, created_at, kind, tags, content] | null, tokens: [str]} *)
Definition no_ser : jv -> jv -> Z -> jv -> pystr -> option bytes := fun _ _ _ _ _ => Some [].
Definition run_queries (v : jv) : jv :=
  let j := jfield "json" v in
  let now := as_int (jfield "now" v) in
  (* with a serializer that always succeeds the constructed object has the right hashed fields *)
  match construct no_ser (fun _ => []) (tbl_float (jfield "floats" v)) now j with
  | BadJSON => jobj [("ser_args", JNull); ("tokens", JArr [])]
  | Built ev =>
      let tokens := match o_pubkey ev, wf_tags (o_tags ev) with
                    | JStr pk, Some tags =>
                        flat_map (fun tag => match tag with
                                             | [_; JStr _; JStr conditions; JStr _] => if is_delegation tag then [JStr (deleg_token pk conditions)] else []
                                             | _ => [] end) tags
                    | _, _ => [] end in
      jobj [("ser_args", JArr [o_pubkey ev; o_created_at ev; JInt (o_kind ev); o_tags ev; JStr (o_content ev)]);
            ("tokens", JArr tokens)]
  end.

(* ---- phase 2: the model's admission decision ---- *)
Definition jv_of_obj (ev : robj) : jv :=
  jobj [("id", o_id ev); ("pubkey", o_pubkey ev); ("created_at", o_created_at ev); ("kind", JInt (o_kind ev));
        ("tags", o_tags ev); ("content", JStr (o_content ev)); ("sig", o_sig ev)].

Definition classify (ser : jv -> jv -> Z -> jv -> pystr -> option bytes) (sha : bytes -> bytes)
           (sch : bytes -> bytes -> bytes -> bool) (u8 : pystr -> option bytes) (ev : robj) : pystr :=
  match wf_event ev with
  | None => pys "bad-format"
  | Some w =>
      match ser (o_pubkey ev) (o_created_at ev) (o_kind ev) (o_tags ev) (o_content ev) with
      | None => pys "unserializable"
      | Some s =>
          if negb (str_eqb (w_id w) (hex_of_bytes (sha s))) then
            (if clean_event w then pys "id-not-hash" else pys "serializer-hex-case")
          else match py_fromhex (w_pubkey w), py_fromhex (w_sig w) with
               | Some pk, Some sg =>
                   if negb (sch pk (sha s) sg) then pys "bad-signature"
                   else if negb (delegations_ok sha sch u8 (w_pubkey w) (w_tags w)) then pys "bad-delegation"
                   else pys "ok"
               | _, _ => pys "bad-format"
               end
      end
  end.

(* {now, json, ser, sha, schnorr, utf8, floats, signed: bool (is_signed configured)} ->
   {result: bad_json | refused | accepted, event, why} *)
Definition run_admit (v : jv) : jv :=
  let ser := tbl_ser (jfield "ser" v) in
  let sha := tbl_sha (jfield "sha" v) in
  let sch := tbl_schnorr (jfield "schnorr" v) in
  let u8 := tbl_utf8 (jfield "utf8" v) in
  let fl := tbl_float (jfield "floats" v) in
  let now := as_int (jfield "now" v) in
  let validators := if as_bool (jfield "signed" v) then [is_signed ser sha sch u8] else [] in
  match construct ser sha fl now (jfield "json" v) with
  | BadJSON => jobj [("result", jstr "bad_json"); ("event", JNull); ("why", jstr "bad_json")]
  | Built ev =>
      let o := add_event ser sha fl now validators (fun _ => mkOut true true true) (jfield "json" v) in
      jobj [("result", if acked o then jstr "accepted" else jstr "refused"); ("event", jv_of_obj ev);
            ("why", JStr (classify ser sha sch u8 ev))]
  end.

(* ---- the executable statement: an observed effect requires an authentic event ---- *)
(* {now, json, tables..., acked: bool, stored: bool, broadcast: bool} -> verdict *)
Definition holds_c03 (v : jv) : jv :=
  let ser := tbl_ser (jfield "ser" v) in
  let sha := tbl_sha (jfield "sha" v) in
  let sch := tbl_schnorr (jfield "schnorr" v) in
  let u8 := tbl_utf8 (jfield "utf8" v) in
  let fl := tbl_float (jfield "floats" v) in
  let effect := as_bool (jfield "acked" v) || as_bool (jfield "stored" v) || as_bool (jfield "broadcast" v) in
  if negb effect then jstr "ok" else
  match construct ser sha fl (as_int (jfield "now" v)) (jfield "json" v) with
  | BadJSON => jstr "effect-for-unconstructible-event"
  | Built ev => JStr (classify ser sha sch u8 ev)
  end.

(* bytes.fromhex model *)
Definition run_fromhex (v : jv) : jv := match py_fromhex (as_str v) with Some b => JBytes b | None => JNull end.

Definition suites : list (string * (jv -> jv)) :=
  [("c03.queries", run_queries); ("c03.admission", run_admit); ("c03.holds", holds_c03); ("c03.fromhex", run_fromhex)].
Definition dispatch := dispatch_in suites.

(* the executable statement is the theorem's predicate: classify says "ok" exactly when is_signed holds
   (= authentic, Props/C03.v C03_is_signed_iff_authentic) *)
Lemma classify_ok ser sha sch u8 ev :
  classify ser sha sch u8 ev = pys "ok" <-> is_signed ser sha sch u8 ev = true.
Proof.
  unfold classify, is_signed. destruct (wf_event ev) as [w|]; [|split; intros H; [vm_compute in H|]; discriminate].
  destruct (ser (o_pubkey ev) (o_created_at ev) (o_kind ev) (o_tags ev) (o_content ev)) as [s|];
    [|split; intros H; [vm_compute in H|]; discriminate].
  destruct (str_eqb (w_id w) (hex_of_bytes (sha s))); cbn [negb andb].
  - destruct (py_fromhex (w_pubkey w)) as [pk|]; [|split; intros H; [vm_compute in H|]; discriminate].
    destruct (py_fromhex (w_sig w)) as [sg|]; [|split; intros H; [vm_compute in H|]; discriminate].
    destruct (sch pk (sha s) sg); cbn [negb andb]; [|split; intros H; [vm_compute in H|]; discriminate].
    destruct (delegations_ok sha sch u8 (w_pubkey w) (w_tags w)); cbn [negb];
      (split; intros H; try reflexivity; try discriminate; vm_compute in H; discriminate).
  - destruct (clean_event w); split; intros H; try discriminate; vm_compute in H; discriminate.
Qed.
