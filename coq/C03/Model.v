(* C03 - admission: Event( **json) construction, validators.is_signed (repaired and
   unrepaired), the validator pipeline and the three admission paths.

   SHA-256, BIP-340 verification, the canonical serialization, UTF-8 encoding and
   int(float) are ORACLES: Section variables about which nothing is assumed.  The
   oracles receive the very values the code would hash / verify. *)
From NR Require Import Lib.Base Lib.PyRt C04.Model.
Open Scope list_scope. Open Scope Z_scope.

(* the aionostr Event object after construction *)
Record robj := mkObj { o_id : jv; o_pubkey : jv; o_created_at : jv; o_kind : Z;
                       o_tags : jv; o_content : pystr; o_sig : jv }.

(* ---------- Python helpers ---------- *)
(* bytes.fromhex: ASCII whitespace is skipped between bytes, both cases accepted, two digits per byte *)
Definition is_space (c : cp) : bool := ((9 <=? c) && (c <=? 13) || (c =? 32))%N.
Fixpoint fromhex_aux (hi : option N) (s : pystr) : option bytes :=
  match s with
  | [] => match hi with None => Some [] | Some _ => None end
  | c :: r =>
      match hi with
      | None => if is_space c then fromhex_aux None r
                else match hexval c with Some h => fromhex_aux (Some h) r | None => None end
      | Some h => match hexval c with
                  | Some l => match fromhex_aux None r with Some b => Some ((h * 16 + l)%N :: b) | None => None end
                  | None => None
                  end
      end
  end.
Definition py_fromhex (s : pystr) : option bytes := fromhex_aux None s.

(* truthiness of a decoded JSON value (`created_at or int(time.time())`, `if not id`) *)
Definition truthy (v : jv) : bool :=
  match v with
  | JNull => false
  | JBool b => b
  | JInt z => negb (z =? 0)
  | JStr s => negb (is_nil s)
  | JBytes b => negb (is_nil b)
  | JFloat r => negb (str_eqb r [48; 46; 48]%N || str_eqb r [45; 48; 46; 48]%N)     (* 0.0, -0.0 *)
  | JArr l => negb (is_nil l)
  | JObj kv => negb (is_nil kv)
  end.

(* int(str): optional ASCII whitespace, optional sign, ASCII digits (underscores and non-ASCII digits
   are outside the model) *)
Fixpoint lstrip (s : pystr) : pystr := match s with c :: r => if is_space c then lstrip r else s | [] => [] end.
Definition strip (s : pystr) : pystr := rev (lstrip (rev (lstrip s))).
Definition int_of_str (s : pystr) : option Z :=
  match strip s with
  | 43%N :: r => match r with 45%N :: _ => None | 43%N :: _ => None | _ => Z_of_dec r end
  | r => match r with 45%N :: 45%N :: _ => None | 45%N :: 43%N :: _ => None | _ => Z_of_dec r end
  end.

Section Oracles.
  Variable serialize : jv -> jv -> Z -> jv -> pystr -> option bytes.   (* pubkey created_at kind tags content; None: raises *)
  Variable sha256 : bytes -> bytes.
  Variable schnorr_ok : bytes -> bytes -> bytes -> bool.               (* pubkey msg sig: BIP-340 Verify *)
  Variable utf8 : pystr -> option bytes.                               (* None: UnicodeEncodeError *)
  Variable int_of_float : pystr -> option Z.                           (* int(float) by repr; None: raises *)

  (* ---------- Event( **event_json) ---------- *)
  Definition k_created_at : pystr := k_created.
  Definition allowed_keys : list pystr := [k_pubkey; k_content; k_created_at; k_kind; k_tags; k_id; k_sig].

  (* int(kind) *)
  Definition py_int (v : jv) : option Z :=
    match v with
    | JInt z => Some z
    | JBool b => Some (if b then 1 else 0)
    | JFloat r => int_of_float r
    | JStr s => int_of_str s
    | _ => None
    end.

  Inductive built := BadJSON | Built (ev : robj).

  Definition construct (now : Z) (j : jv) : built :=
    match j with
    | JObj kv =>
        if negb (forallb (fun p => mem_str (fst p) allowed_keys) kv) then BadJSON else   (* unexpected keyword *)
        match (match jget k_content kv with None => Some [] | Some (JStr s) => Some s | Some _ => None end),
              (match jget k_kind kv with None => Some 1 | Some v => py_int v end) with
        | Some content, Some kind =>
            let pubkey := match jget k_pubkey kv with Some v => v | None => JStr [] end in
            let created := match jget k_created_at kv with
                           | Some v => if truthy v then v else JInt now
                           | None => JInt now end in
            let tags := match jget k_tags kv with Some v => v | None => JArr [] end in
            let sg := match jget k_sig kv with Some v => v | None => JNull end in
            match jget k_id kv with
            | Some v =>
                if truthy v then Built (mkObj v pubkey created kind tags content sg)
                else match serialize pubkey created kind tags content with
                     | Some ser => Built (mkObj (JStr (hex_of_bytes (sha256 ser))) pubkey created kind tags content sg)
                     | None => BadJSON end
            | None =>
                match serialize pubkey created kind tags content with
                | Some ser => Built (mkObj (JStr (hex_of_bytes (sha256 ser))) pubkey created kind tags content sg)
                | None => BadJSON end
            end
        | _, _ => BadJSON
        end
    | _ => BadJSON                                                        (* Event( **x) for a non-mapping *)
    end.

  (* ---------- "correctly formatted" ---------- *)
  Definition wf_hex (n : nat) (v : jv) : option pystr :=
    match v with
    | JStr s => if Nat.eqb (length s) n && is_lower_hex s then Some s else None
    | _ => None
    end.
  (* a non-empty array of strings or integers (type(item) is int: booleans are not integers here) *)
  Definition wf_tag (v : jv) : option (list jv) :=
    match v with
    | JArr (x :: l) => all_some (map jv_item (x :: l))
    | _ => None
    end.
  Definition wf_tags (v : jv) : option (list (list jv)) :=
    match v with JArr ts => all_some (map wf_tag ts) | _ => None end.

  Definition wf_event (ev : robj) : option wevent :=
    match wf_hex 64 (o_id ev), wf_hex 64 (o_pubkey ev), wf_hex 128 (o_sig ev), o_created_at ev, wf_tags (o_tags ev) with
    | Some i, Some p, Some s, JInt c, Some tags => Some (mkW i p c (o_kind ev) tags (o_content ev) s)
    | _, _, _, _, _ => None
    end.

  (* ---------- delegation tags, as Event.verify checks them ---------- *)
  Definition s_delegation : pystr := [100; 101; 108; 101; 103; 97; 116; 105; 111; 110]%N.
  Definition s_nostr_delegation : pystr :=
    [110; 111; 115; 116; 114; 58; 100; 101; 108; 101; 103; 97; 116; 105; 111; 110; 58]%N.    (* nostr:delegation: *)
  Definition deleg_token (pubkey conditions : pystr) : pystr := s_nostr_delegation ++ pubkey ++ 58%N :: conditions.
  (* `_, delegator, conditions, sig = tag` and the verification that follows; false: returns False or raises *)
  Definition check_delegation (pubkey : pystr) (tag : list jv) : bool :=
    match tag with
    | [_; JStr delegator; JStr conditions; JStr sg] =>
        match py_fromhex delegator, utf8 (deleg_token pubkey conditions), py_fromhex sg with
        | Some dk, Some tok, Some sgb => schnorr_ok dk (sha256 tok) sgb
        | _, _, _ => false
        end
    | _ => false
    end.
  (* tag[0] == "delegation" *)
  Definition is_delegation (tag : list jv) : bool :=
    match tag with JStr n :: _ => str_eqb n s_delegation | _ => false end.
  Definition delegations_ok (pubkey : pystr) (tags : list (list jv)) : bool :=
    forallb (fun tag => if is_delegation tag then check_delegation pubkey tag else true) tags.

  (* ---------- validators.is_signed, repaired ---------- *)
  (* format check; claimed id = recomputed hash; Event.verify (signature over the recomputed
     hash, delegation tags); every exception of the last two steps is turned into a refusal *)
  Definition is_signed (ev : robj) : bool :=
    match wf_event ev with
    | None => false
    | Some w =>
        match serialize (o_pubkey ev) (o_created_at ev) (o_kind ev) (o_tags ev) (o_content ev) with
        | None => false
        | Some ser =>
            str_eqb (w_id w) (hex_of_bytes (sha256 ser)) &&
            match py_fromhex (w_pubkey w), py_fromhex (w_sig w) with
            | Some pk, Some sg => schnorr_ok pk (sha256 ser) sg && delegations_ok (w_pubkey w) (w_tags w)
            | _, _ => false
            end
        end
    end.

  (* ---------- validators.is_signed, unrepaired (= Event.verify): never looks at the claimed id ---------- *)
  Definition legacy_is_signed (ev : robj) : bool :=
    match o_pubkey ev, o_sig ev, wf_tags (o_tags ev) with
    | JStr pkh, JStr sgh, Some tags =>
        match py_fromhex pkh, serialize (o_pubkey ev) (o_created_at ev) (o_kind ev) (o_tags ev) (o_content ev), py_fromhex sgh with
        | Some pk, Some ser, Some sg => schnorr_ok pk (sha256 ser) sg && delegations_ok pkh tags
        | _, _, _ => false
        end
    | _, _, _ => false                   (* other shapes: outside this model of the unrepaired code *)
    end.

  (* ---------- pipeline and paths ---------- *)
  Record outcome := mkOut { acked : bool; stored : bool; broadcast : bool }.
  Definition refused : outcome := mkOut false false false.

  (* get_validator: every configured function in turn; `post` is whatever the backend does with a
     validated event (authorization, duplicate detection, replacement, write, fan-out) *)
  Definition add_event (now : Z) (validators : list (robj -> bool)) (post : robj -> outcome) (j : jv) : outcome :=
    match construct now j with
    | BadJSON => refused
    | Built ev => if forallb (fun v => v ev) validators then post ev else refused
    end.

  Inductive path_input :=
  | WsEvent (limited : bool) (payload : jv)        (* ["EVENT", payload] through web.start_client *)
  | BulkLine (line : jv)                           (* one line of `nostr-relay load`: an event or ["EVENT", event] *)
  | ServiceEvent (signed_json : jv).               (* BaseStorage.add_service_event: event.to_json_object() *)

  Definition path_outcome (now : Z) (validators : list (robj -> bool)) (post : robj -> outcome) (p : path_input) : outcome :=
    match p with
    | WsEvent limited payload => if limited then refused else add_event now validators post payload
    | BulkLine (JArr l) => add_event now validators post (nth 1 l JNull)
    | BulkLine line => add_event now validators post line
    | ServiceEvent j => add_event now validators post j
    end.
End Oracles.
