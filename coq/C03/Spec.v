(* C03 - what "authentic" means, relative to the oracles. *)
From NR Require Import Lib.Base Lib.PyRt C04.Model C03.Model.
Open Scope list_scope. Open Scope Z_scope.

Section Spec.
  Variable serialize : jv -> jv -> Z -> jv -> pystr -> option bytes.
  Variable sha256 : bytes -> bytes.
  Variable schnorr_ok : bytes -> bytes -> bytes -> bool.
  Variable utf8 : pystr -> option bytes.

  (* a delegation tag is validly signed by the named delegator for this event's pubkey *)
  Definition delegation_valid (pubkey : pystr) (tag : list jv) : Prop :=
    exists name delegator conditions sg dk tok sgb,
      tag = [name; JStr delegator; JStr conditions; JStr sg] /\
      py_fromhex delegator = Some dk /\ utf8 (deleg_token pubkey conditions) = Some tok /\
      py_fromhex sg = Some sgb /\ schnorr_ok dk (sha256 tok) sgb = true.

  (* correctly formatted; id = lower-case hex SHA-256 of the canonical serialization of its own
     pubkey, created_at, kind, tags, content; sig a valid BIP-340 signature of that id under pubkey;
     every delegation tag validly signed by the named delegator *)
  Definition authentic (ev : robj) : Prop :=
    exists w ser pk sg,
      wf_event ev = Some w /\
      serialize (JStr (w_pubkey w)) (JInt (w_created_at w)) (w_kind w) (jtags (w_tags w)) (w_content w) = Some ser /\
      w_id w = hex_of_bytes (sha256 ser) /\
      py_fromhex (w_pubkey w) = Some pk /\ py_fromhex (w_sig w) = Some sg /\
      schnorr_ok pk (sha256 ser) sg = true /\
      forall tag, In tag (w_tags w) -> is_delegation tag = true -> delegation_valid (w_pubkey w) tag.
End Spec.

(* the classifier of the open finding: the 9 control characters whose \u00XX escape contains a hex
   letter (0b 0e 0f 1a-1f): aionostr/rapidjson writes it in upper case, JSON.stringify / json.dumps in
   lower case, so the two serializations - and the ids - differ exactly on strings containing one *)
Definition hexletter_control (c : cp) : bool :=
  ((c =? 11) || (c =? 14) || (c =? 15) || ((26 <=? c) && (c <=? 31)))%N.
Definition clean_str (s : pystr) : bool := forallb (fun c => negb (hexletter_control c)) s.
Definition clean_item (i : jv) : bool := match i with JStr s => clean_str s | _ => true end.
Definition clean_event (w : wevent) : bool :=
  clean_str (w_content w) && forallb (forallb clean_item) (w_tags w).
