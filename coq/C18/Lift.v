(* C18 - lifting the per-deque refinement to RateLimiter.is_limited as a whole: for every
   configuration, every address that is not literally "global" or "ip", every command and every
   non-decreasing clock, the model's verdict equals the sliding-window specification's, over
   whole arrival sequences. *)
From NR Require Import Lib.Base Lib.BaseFacts Lib.PyRt C18.Model C18.Spec C18.Proofs.
From Coq Require Import ZifyBool.
Open Scope list_scope. Open Scope Z_scope.

(* ---- association-list facts ---- *)
Lemma dkey_eqb_refl k : dkey_eqb k k = true.
Proof. unfold dkey_eqb. rewrite !str_eqb_refl. reflexivity. Qed.
Lemma dkey_eqb_eq a b : dkey_eqb a b = true -> a = b.
Proof.
  unfold dkey_eqb. intros H. apply andb_true_iff in H. destruct H as [H1 H2].
  apply str_eqb_eq in H1. apply str_eqb_eq in H2. destruct a, b; simpl in *; subst; reflexivity.
Qed.
Lemma get_set_same k d s : get_deque k (set_deque k d s) = d.
Proof.
  induction s as [|[k' d'] s IH]; simpl.
  - rewrite dkey_eqb_refl. reflexivity.
  - destruct (dkey_eqb k k') eqn:E; simpl; [rewrite dkey_eqb_refl | rewrite E]; auto.
Qed.
Lemma get_set_other k k' d s : dkey_eqb k' k = false -> get_deque k' (set_deque k d s) = get_deque k' s.
Proof.
  intros Hn. induction s as [|[k2 d2] s IH]; simpl.
  - rewrite Hn. reflexivity.
  - destruct (dkey_eqb k k2) eqn:E; simpl.
    + apply dkey_eqb_eq in E. subst k2. rewrite Hn. reflexivity.
    + destruct (dkey_eqb k' k2); auto.
Qed.

(* ---- which rule list governs a deque ---- *)
Definition rules_at (cfg : config) (scope cmd : pystr) : option (list rule) :=
  match lookup_str scope cfg with
  | Some ((_ :: _) as cr) => lookup_str cmd cr
  | _ => None
  end.
Definition gov (cfg : config) (k : dkey) : list rule :=
  let '(bucket, cmd) := k in
  if str_eqb bucket g_global then match rules_at cfg g_global cmd with Some r => r | None => [] end
  else match rules_at cfg bucket cmd with
       | Some r => r
       | None => match rules_at cfg g_ip cmd with Some r => r | None => [] end
       end.

Definition SRel (cfg : config) (last : Z) (s sp : lstate) : Prop :=
  forall k, Rel (gov cfg k) (get_deque k s) (get_deque k sp) last.

Lemma SRel_later cfg last t s sp : SRel cfg last s sp -> last <= t -> SRel cfg t s sp.
Proof. intros H Ht k. eapply Rel_later; [apply H | assumption]. Qed.

(* one visit of scan_keys: the same deque is stepped on both sides with its governing rules *)
Lemma visit cfg t s sp k rules :
  SRel cfg t s sp -> gov cfg k = rules ->
  fst (deque_step rules (get_deque k s) t) = fst (spec_step rules (get_deque k sp) t) /\
  SRel cfg t (set_deque k (snd (deque_step rules (get_deque k s) t)) s)
             (set_deque k (snd (spec_step rules (get_deque k sp) t)) sp).
Proof.
  intros HS Hg. destruct (deque_step_refines rules (get_deque k s) (get_deque k sp) t t) as [A B];
    [rewrite <- Hg; apply HS | lia |].
  split; [assumption|]. intros k'. destruct (dkey_eqb k' k) eqn:E.
  - apply dkey_eqb_eq in E. subst k'. rewrite !get_set_same, Hg. assumption.
  - rewrite !get_set_other by assumption. apply HS.
Qed.

Lemma scan_one_key dstep cfg addr cmd t key rest s :
  scan_keys dstep cfg addr cmd t (key :: rest) s =
  match rules_at cfg key cmd with
  | Some rules =>
      let bucket := if str_eqb key g_global then g_global else addr in
      let k := (bucket, cmd) in
      let '(lim, d') := dstep rules (get_deque k s) t in
      let s' := set_deque k d' s in
      if lim then (true, s')
      else if negb (str_eqb key g_global || str_eqb key g_ip) then (false, s')
           else scan_keys dstep cfg addr cmd t rest s'
  | None => scan_keys dstep cfg addr cmd t rest s
  end.
Proof.
  unfold rules_at. simpl. destruct (lookup_str key cfg) as [[|p cr]|]; reflexivity.
Qed.

Local Opaque scan_keys.

Theorem is_limited_refines cfg s sp last t addr cmd :
  str_eqb addr g_global = false -> str_eqb addr g_ip = false ->
  SRel cfg last s sp -> last <= t ->
  fst (is_limited cfg s addr cmd t) = fst (spec_is_limited cfg sp addr cmd t) /\
  SRel cfg t (snd (is_limited cfg s addr cmd t)) (snd (spec_is_limited cfg sp addr cmd t)).
Proof.
  intros Hag Hai HS0 Ht. pose proof (SRel_later _ _ _ _ _ HS0 Ht) as HS. clear HS0.
  unfold is_limited, spec_is_limited, is_limited_gen.
  destruct cfg as [|c0 cfg0]; [simpl; split; [reflexivity | assumption]|].
  cbv iota. set (cfg := c0 :: cfg0) in *.
  assert (Hgi : str_eqb g_global g_ip = false) by reflexivity.
  assert (Hgg : str_eqb g_global g_global = true) by reflexivity.
  assert (Hig : str_eqb g_ip g_global = false) by reflexivity.
  assert (Hii : str_eqb g_ip g_ip = true) by reflexivity.
  rewrite (scan_one_key deque_step), (scan_one_key spec_step).
  destruct (rules_at cfg addr cmd) as [ra|] eqn:Ea.
  - (* a specific rule list for this address: evaluated alone *)
    rewrite Hag, Hai. simpl.
    assert (G : gov cfg (addr, cmd) = ra) by (unfold gov; rewrite Hag, Ea; reflexivity).
    destruct (visit cfg t s sp (addr, cmd) ra HS G) as [A B].
    destruct (deque_step ra (get_deque (addr, cmd) s) t) as [l1 d1].
    destruct (spec_step ra (get_deque (addr, cmd) sp) t) as [l2 d2]. simpl in *. subst l2.
    destruct l1; simpl; split; auto.
  - (* generic rules: global, then ip *)
    rewrite (scan_one_key deque_step), (scan_one_key spec_step). rewrite Hgg. cbv beta iota zeta.
    assert (Step2 : forall s1 sp1, SRel cfg t s1 sp1 ->
       fst (scan_keys deque_step cfg addr cmd t [g_ip] s1) = fst (scan_keys spec_step cfg addr cmd t [g_ip] sp1) /\
       SRel cfg t (snd (scan_keys deque_step cfg addr cmd t [g_ip] s1)) (snd (scan_keys spec_step cfg addr cmd t [g_ip] sp1))).
    { intros s1 sp1 H1. rewrite (scan_one_key deque_step), (scan_one_key spec_step). rewrite Hig, Hii. simpl.
      destruct (rules_at cfg g_ip cmd) as [ri|] eqn:Ei; [|split; [reflexivity | assumption]].
      assert (G : gov cfg (addr, cmd) = ri) by (unfold gov; rewrite Hag, Ea, Ei; reflexivity).
      destruct (visit cfg t s1 sp1 (addr, cmd) ri H1 G) as [A B].
      destruct (deque_step ri (get_deque (addr, cmd) s1) t) as [l1 d1].
      destruct (spec_step ri (get_deque (addr, cmd) sp1) t) as [l2 d2]. simpl in *. subst l2.
      destruct l1; simpl; split; auto. }
    destruct (rules_at cfg g_global cmd) as [rg|] eqn:Eg; [|apply Step2; assumption].
    assert (G : gov cfg (g_global, cmd) = rg) by (unfold gov; rewrite Hgg, Eg; reflexivity).
    destruct (visit cfg t s sp (g_global, cmd) rg HS G) as [A B].
    destruct (deque_step rg (get_deque (g_global, cmd) s) t) as [l1 d1].
    destruct (spec_step rg (get_deque (g_global, cmd) sp) t) as [l2 d2]. simpl in *. subst l2.
    destruct l1; simpl; [split; auto|]. apply Step2. assumption.
Qed.

(* whole arrival sequences *)
Fixpoint times_ok (last : Z) (arr : list arrival) : Prop :=
  match arr with
  | [] => True
  | (t, a, _) :: r => last <= t /\ str_eqb a g_global = false /\ str_eqb a g_ip = false /\ times_ok t r
  end.

Theorem run_refines cfg arr : forall s sp last,
  SRel cfg last s sp -> times_ok last arr ->
  fst (run cfg s arr) = fst (spec_run cfg sp arr).
Proof.
  unfold run, spec_run. induction arr as [|[[t a] c] arr IH]; simpl; intros s sp last HS Ht; [reflexivity|].
  destruct Ht as (H1 & H2 & H3 & H4).
  destruct (is_limited_refines cfg s sp last t a c H2 H3 HS H1) as [A B].
  unfold is_limited, spec_is_limited in A, B.
  destruct (is_limited_gen deque_step cfg s a c t) as [l1 s1].
  destruct (is_limited_gen spec_step cfg sp a c t) as [l2 s2]. simpl in *. subst l2.
  specialize (IH s1 s2 t B H4).
  destruct (run_gen deque_step cfg s1 arr) as [ds1 f1]. destruct (run_gen spec_step cfg s2 arr) as [ds2 f2].
  simpl in *. congruence.
Qed.

Lemma SRel_init cfg last : SRel cfg last [] [].
Proof.
  intros k. simpl. split; [exact I|]. exists last. split; [lia|]. split; [constructor | reflexivity].
Qed.

Theorem limiter_refines_spec cfg arr :
  times_ok 0 arr -> fst (run cfg [] arr) = fst (spec_run cfg [] arr).
Proof. intros H. eapply run_refines; [apply (SRel_init cfg 0) | assumption]. Qed.

(* ---- cleanup (run at every client disconnect) keeps the refinement ---- *)
Lemma cleanup_deque_rel rules ts log last now h :
  Rel rules ts log last -> last <= now -> max_interval rules <= h ->
  Rel rules (cleanup_deque h now ts) log now.
Proof.
  intros HR Hl Hh. pose proof (Rel_later _ _ _ _ _ HR Hl) as HRn.
  destruct HR as (Hd & p & Hp & Hf & E).
  unfold cleanup_deque. destruct ts as [|a0 tsr]; [assumption|].
  destruct (now - a0 >? h) eqn:Es; [|assumption].
  split; [assumption|]. exists now. split; [lia|]. split.
  - eapply Forall_impl; [|exact Hf]. simpl; intros; lia.
  - (* nothing in the log is younger than the horizon *)
    assert (Hdts : desc (a0 :: tsr)) by (rewrite E; apply desc_filter; assumption).
    destruct Hdts as [Hall _]. rewrite Forall_forall in Hall.
    symmetry. rewrite <- (filter_filter_cut (p - max_interval rules)) by lia. rewrite <- E.
    simpl. replace (now - max_interval rules <=? a0) with false by lia.
    clear -Hall Es Hh. induction tsr as [|b l IH]; simpl; [reflexivity|].
    assert (b <= a0) by (apply Hall; left; reflexivity).
    replace (now - max_interval rules <=? b) with false by lia.
    apply IH. intros x Hx. apply Hall. right. assumption.
Qed.

Lemma get_deque_map (f : dkey * list Z -> dkey * list Z) (s : lstate) k :
  (forall e, fst (f e) = fst e) ->
  get_deque k (map f s) = match find (fun e => dkey_eqb k (fst e)) s with
                          | Some e => snd (f e) | None => [] end.
Proof.
  intros Hf. induction s as [|[k' d] s IH]; simpl; [reflexivity|].
  specialize (Hf (k', d)) as Hk. destruct (f (k', d)) as [k2 d2] eqn:Ef. simpl in *. subst k2.
  destruct (dkey_eqb k k'); [rewrite Ef; reflexivity | exact IH].
Qed.
Lemma get_deque_find (s : lstate) k :
  get_deque k s = match find (fun e => dkey_eqb k (fst e)) s with Some e => snd e | None => [] end.
Proof. induction s as [|[k' d] s IH]; simpl; [reflexivity|]. destruct (dkey_eqb k k'); [reflexivity | exact IH]. Qed.

(* the horizon covers every rule list that can govern a per-address deque *)
Lemma scope_horizon_ge cr cmd rules : lookup_str cmd cr = Some rules -> max_interval rules <= scope_horizon cr.
Proof.
  unfold scope_horizon. induction cr as [|[c r] cr IH]; simpl; [discriminate|].
  destruct (str_eqb cmd c); [intros E; inversion E; subst; lia | intros E; specialize (IH E); lia].
Qed.
Lemma horizon_ge cfg scope cmd rules :
  str_eqb scope g_global = false -> rules_at cfg scope cmd = Some rules -> max_interval rules <= horizon cfg.
Proof.
  unfold rules_at, horizon. intros Hs. induction cfg as [|[sc cr] cfg IH]; simpl; [discriminate|].
  destruct (str_eqb scope sc) eqn:E.
  - apply str_eqb_eq in E. subst sc. rewrite Hs. destruct cr as [|p cr']; [discriminate|].
    intros El. pose proof (scope_horizon_ge _ _ _ El). lia.
  - intros El. specialize (IH El). lia.
Qed.
Lemma horizon_nonneg cfg : 0 <= horizon cfg.
Proof. unfold horizon. induction cfg; simpl; lia. Qed.

Lemma gov_le_horizon cfg k :
  str_eqb (fst k) g_global = false -> str_eqb (fst k) g_ip = false -> max_interval (gov cfg k) <= horizon cfg.
Proof.
  destruct k as [b c]. simpl. intros Hg Hi. unfold gov. rewrite Hg.
  destruct (rules_at cfg b c) as [r|] eqn:E1.
  - eapply horizon_ge; eassumption.
  - destruct (rules_at cfg g_ip c) as [r|] eqn:E2.
    + apply (horizon_ge cfg g_ip c r); [reflexivity | assumption].
    + simpl. apply horizon_nonneg.
Qed.

(* deques are only ever created for the bucket "global" or for a client address; the theorem is
   stated for states whose non-global buckets are addresses other than the literal "ip" *)
Definition buckets_ok (s : lstate) : Prop :=
  forall e, In e s -> str_eqb (fst (fst e)) g_global = true \/ str_eqb (fst (fst e)) g_ip = false.

Theorem cleanup_refines cfg s sp last now :
  SRel cfg last s sp -> last <= now -> buckets_ok s -> SRel cfg now (cleanup cfg now s) sp.
Proof.
  intros HS Hl Hb. unfold cleanup.
  destruct (lookup_str g_ip cfg) as [[|p cr]|]; try (eapply SRel_later; eassumption).
  intros k. rewrite get_deque_map by (intros [k' d]; simpl; destruct (str_eqb (fst k') g_global); reflexivity).
  pose proof (HS k) as Hk. rewrite (get_deque_find s k) in Hk.
  destruct (find (fun e => dkey_eqb k (fst e)) s) as [[k' d]|] eqn:Ef.
  - apply find_some in Ef. destruct Ef as [Hin Heq]. simpl in Heq. apply dkey_eqb_eq in Heq. subst k'.
    simpl in *. destruct (str_eqb (fst k) g_global) eqn:Eg; simpl.
    + eapply Rel_later; eassumption.
    + destruct (Hb _ Hin) as [H|H]; simpl in H; [congruence|].
      apply cleanup_deque_rel with (last := last); try assumption. apply gov_le_horizon; assumption.
  - eapply Rel_later; eassumption.
Qed.
