(* C18 - what "n per interval" means: a sliding-window log per (bucket, command).
   The log of a deque is the list of every timestamp its rule list let through,
   never trimmed.  A rule (interval, n) refuses at time t iff n >= 0 and at least n
   logged timestamps a satisfy t - interval < a (window (t-interval, t], R5);
   n < 0 exempts. *)
From NR Require Import Lib.Base C18.Model.
Open Scope Z_scope.

Definition in_window (t i a : Z) : bool := t - a <? i.
Definition wcount (t i : Z) (log : list Z) : Z := Z.of_nat (length (filter (in_window t i) log)).
Definition rule_refuses (t : Z) (log : list Z) (r : rule) : bool :=
  (0 <=? snd r) && (snd r <=? wcount t (fst r) log).
Definition spec_limited (rules : list rule) (t : Z) (log : list Z) : bool :=
  existsb (rule_refuses t log) rules.
Definition spec_step (rules : list rule) (log : list Z) (t : Z) : bool * list Z :=
  if spec_limited rules t log then (true, log) else (false, t :: log).

Definition spec_is_limited := is_limited_gen spec_step.
Definition spec_run := run_gen spec_step.
