(* C18 - wire entry points for the correspondence harness and the executable
   statement (oracle) of the property. *)
From NR Require Import Lib.Base Lib.PyRt Lib.Wire Gen.Rate C18.Model C18.Spec.
Open Scope string_scope. Open Scope list_scope. Open Scope Z_scope.

Definition rule_of_jv (v : jv) : rule :=
  (as_int (nth 0 (as_arr v) JNull), as_int (nth 1 (as_arr v) JNull)).
Definition cmdrules_of_jv (v : jv) : cmdrules :=
  match v with JObj kv => map (fun p => (fst p, map rule_of_jv (as_arr (snd p)))) kv | _ => [] end.
Definition config_of_jv (v : jv) : config :=
  match v with JObj kv => map (fun p => (fst p, cmdrules_of_jv (snd p))) kv | _ => [] end.
Definition arrival_of_jv (v : jv) : arrival :=
  let l := as_arr v in (as_int (nth 0 l JNull), as_str (nth 1 l JNull), as_str (nth 2 l JNull)).

Definition lop_of_jv (v : jv) : lop :=
  let l := as_arr v in
  match nth 1 l JNull with
  | JStr _ => LArr (arrival_of_jv v)
  | _ => LCleanup (as_int (nth 0 l JNull))       (* [t] alone = a cleanup at time t *)
  end.

(* decisions and, after each arrival, the lengths of the (addr,cmd) and (global,cmd) deques *)
Fixpoint run_obs (dstep : list rule -> list Z -> Z -> bool * list Z) (clean : bool) (cfg : config) (s : lstate)
         (ops : list lop) : list jv :=
  match ops with
  | [] => []
  | LArr (t, a, c) :: r =>
      let '(lim, s') := is_limited_gen dstep cfg s a c t in
      JArr [JBool lim; JInt (Z.of_nat (length (get_deque (a, c) s')));
            JInt (Z.of_nat (length (get_deque (g_global, c) s')))]
      :: run_obs dstep clean cfg s' r
  | LCleanup t :: r => run_obs dstep clean cfg (if clean then cleanup cfg t s else s) r
  end.

Definition run_c18 (v : jv) : jv :=
  JArr (run_obs deque_step true (config_of_jv (jfield "cfg" v)) [] (map lop_of_jv (as_arr (jfield "arrivals" v)))).

(* ---- the executable statement ---- *)
(* the rule list governing the (addr, cmd) deque: the specific-address list if there is one, else "ip" *)
Definition governing (cfg : config) (addr cmd : pystr) : list rule :=
  match lookup_str addr cfg with
  | Some ((_ :: _) as cr) =>
      match lookup_str cmd cr with Some r => r | None =>
        match lookup_str g_ip cfg with Some cr' => match lookup_str cmd cr' with Some r => r | None => [] end | None => [] end end
  | _ => match lookup_str g_ip cfg with Some cr' => match lookup_str cmd cr' with Some r => r | None => [] end | None => [] end
  end.
(* bound on the deque length promised by Proofs.deque_bounded: 2n for a rule (max interval, n>=1) *)
Definition deque_bound (rules : list rule) : option Z :=
  let m := max_interval rules in
  fold_right (fun r acc => if (fst r =? m) && (1 <=? snd r) && (1 <=? fst r)
                           then match acc with Some b => Some (Z.min b (2 * snd r)) | None => Some (2 * snd r) end
                           else acc) None rules.

Fixpoint arrivals_of (ops : list lop) : list arrival :=
  match ops with [] => [] | LArr a :: r => a :: arrivals_of r | LCleanup _ :: r => arrivals_of r end.
Fixpoint check_obs (cfg : config) (arr : list arrival) (spec_dec : list bool) (obs : list jv) : pystr :=
  match arr, spec_dec, obs with
  | (t, a, c) :: ar, sd :: sr, o :: orest =>
      let l := as_arr o in
      let d := as_bool (nth 0 l JNull) in
      let len := as_int (nth 1 l JNull) in
      if negb (Bool.eqb d sd) then (if d then pys "refused-without-justification" else pys "window-exceeded")
      else match deque_bound (governing cfg a c) with
           | Some b => if len >? b then pys "deque-unbounded" else check_obs cfg ar sr orest
           | None => check_obs cfg ar sr orest
           end
  | [], [], [] => pys "ok"
  | _, _, _ => pys "shape"
  end.

(* case: {cfg, arrivals, obs = implementation observations in the format of run_c18} *)
Definition holds_c18 (v : jv) : jv :=
  let cfg := config_of_jv (jfield "cfg" v) in
  let ops := map lop_of_jv (as_arr (jfield "arrivals" v)) in
  (* the specification keeps the full log: a cleanup is a no-op for it *)
  let sd := fst (run_ops spec_step false cfg [] ops) in
  JStr (check_obs cfg (arrivals_of ops) sd (as_arr (jfield "obs" v))).

Definition interval_c18 (v : jv) : jv :=
  match interval_of (as_str v) interval_table with Some z => JInt z | None => JNull end.

Definition suites : list (string * (jv -> jv)) :=
  [("c18.run", run_c18); ("c18.holds", holds_c18); ("c18.interval", interval_c18)].
Definition dispatch := dispatch_in suites.
