(* C18 - the limiter model refines the sliding-window-log specification, and
   what follows from that: window bound, justified refusal, exemption, bounded
   state.  All statements are for arbitrary rule lists and arrival sequences. *)
From NR Require Import Lib.Base Lib.BaseFacts C18.Model C18.Spec.
From Coq Require Import ZifyBool.
Open Scope Z_scope.

(* ---------- sorted (newest first) lists ---------- *)
Fixpoint desc (l : list Z) : Prop :=
  match l with [] => True | a :: r => Forall (fun b => b <= a) r /\ desc r end.

Lemma desc_app_last l x : desc (l ++ [x]) -> desc l /\ Forall (fun a => x <= a) l.
Proof.
  induction l as [|a l IH]; simpl.
  - intros _; split; [exact I | constructor].
  - intros [Hf Hd]. destruct (IH Hd) as [Hd' Hx]. split.
    + split; [|exact Hd']. apply Forall_app in Hf. tauto.
    + constructor; [|exact Hx]. apply Forall_app in Hf. destruct Hf as [_ Hl].
      inversion Hl; assumption.
Qed.

Lemma desc_filter f l : desc l -> desc (filter f l).
Proof.
  induction l as [|a l IH]; simpl; [auto|]. intros [Hf Hd].
  destruct (f a); simpl; [split|]; auto.
  rewrite Forall_forall in *. intros b Hb. apply filter_In in Hb. apply Hf; tauto.
Qed.

Lemma filter_rev {A} (f : A -> bool) l : filter f (rev l) = rev (filter f l).
Proof.
  induction l as [|a l IH]; simpl; [reflexivity|].
  rewrite filter_app, IH. simpl. destruct (f a); simpl; [reflexivity | apply app_nil_r].
Qed.

Lemma filter_all_true {A} (f : A -> bool) l : (forall a, In a l -> f a = true) -> filter f l = l.
Proof.
  induction l as [|a l IH]; simpl; [reflexivity|]. intros H.
  rewrite (H a (or_introl eq_refl)). f_equal. apply IH. intros; apply H; right; assumption.
Qed.

Definition fresh (t m a : Z) : bool := t - m <=? a.

Lemma trim_filter t m ts : desc ts -> trim t m ts = filter (fresh t m) ts.
Proof.
  unfold trim. induction ts as [|x l IH] using rev_ind; [reflexivity|].
  intros Hd. apply desc_app_last in Hd. destruct Hd as [Hd Hx].
  rewrite rev_app_distr. simpl. rewrite filter_app. simpl. unfold fresh at 2.
  destruct (t - x >? m) eqn:E.
  - rewrite IH by assumption. replace (t - m <=? x) with false by lia. rewrite app_nil_r. reflexivity.
  - replace (t - m <=? x) with true by lia. simpl. rewrite rev_involutive.
    f_equal. symmetry. apply filter_all_true. intros a Ha. rewrite Forall_forall in Hx. specialize (Hx a Ha).
    unfold fresh. lia.
Qed.

(* ---------- the counting loop ---------- *)
Lemma wcount_nonneg t i l : 0 <= wcount t i l.
Proof. unfold wcount; lia. Qed.

Lemma wcount_cons t i a l :
  wcount t i (a :: l) = (if in_window t i a then 1 else 0) + wcount t i l.
Proof. unfold wcount; simpl. destruct (in_window t i a); simpl length; lia. Qed.

Lemma count_hits_spec t i n l : forall c,
  c <> n -> count_hits t i n c l = (c <? n) && (n <=? c + wcount t i l).
Proof.
  induction l as [|a l IH]; intros c Hc.
  - simpl. unfold wcount; simpl. lia.
  - cbn [count_hits]. rewrite wcount_cons. unfold in_window.
    pose proof (wcount_nonneg t i l) as Hn.
    destruct (t - a <? i) eqn:Ew.
    + destruct (c + 1 =? n) eqn:E1; [lia|]. rewrite IH by lia. lia.
    + destruct (c =? n) eqn:E1; [lia|]. rewrite IH by lia. lia.
Qed.

(* ---------- the refinement relation between a deque and its log ---------- *)
(* p is the time of the last evaluation that trimmed the deque *)
Definition Rel (rules : list rule) (ts log : list Z) (last : Z) : Prop :=
  desc log /\
  exists p, p <= last /\ Forall (fun a => a <= p) log /\
            ts = filter (fun a => p - max_interval rules <=? a) log.

Lemma max_interval_nonneg rules : 0 <= max_interval rules.
Proof. unfold max_interval. induction rules; simpl; lia. Qed.
Lemma max_interval_ge rules r : In r rules -> fst r <= max_interval rules.
Proof.
  unfold max_interval. induction rules as [|x rules IH]; simpl; [tauto|].
  intros [->|H]; [lia | specialize (IH H); lia].
Qed.

Lemma wcount_filter_cut t i c log :
  c <= t - i + 1 -> wcount t i (filter (fun a => c <=? a) log) = wcount t i log.
Proof.
  intros Hc. unfold wcount. f_equal. f_equal.
  induction log as [|a l IH]; simpl; [reflexivity|].
  destruct (c <=? a) eqn:E; simpl; unfold in_window in *.
  - destruct (t - a <? i); simpl; congruence.
  - replace (t - a <? i) with false by lia. assumption.
Qed.

Lemma filter_filter_cut c c' log :
  c <= c' -> filter (fun a => c' <=? a) (filter (fun a => c <=? a) log) = filter (fun a => c' <=? a) log.
Proof.
  intros H. induction log as [|a l IH]; simpl; [reflexivity|].
  destruct (c <=? a) eqn:E; simpl.
  - destruct (c' <=? a); congruence.
  - replace (c' <=? a) with false by lia. assumption.
Qed.

Lemma no_zero_rule_spec rules :
  has_zero_rule rules = false ->
  forall r, In r rules -> snd r <> 0.
Proof.
  intros H r Hr E. assert (has_zero_rule rules = true); [|congruence].
  unfold has_zero_rule. apply existsb_exists. exists r. split; [assumption | lia].
Qed.

Lemma existsb_ext_in {A} (f g : A -> bool) l :
  (forall a, In a l -> f a = g a) -> existsb f l = existsb g l.
Proof.
  induction l as [|a l IH]; simpl; [reflexivity|]. intros H.
  rewrite (H a (or_introl eq_refl)), IH; [reflexivity|]. intros; apply H; right; assumption.
Qed.

Lemma decision_agrees rules t ts log c :
  has_zero_rule rules = false ->
  c <= t - max_interval rules ->
  ts = filter (fun a => c <=? a) log ->
  any_rule_hit t rules ts = spec_limited rules t log.
Proof.
  intros Hz Hc ->. unfold any_rule_hit, spec_limited.
  pose proof (no_zero_rule_spec rules Hz) as Hnz.
  apply existsb_ext_in. intros r Hr.
  pose proof (max_interval_ge rules r Hr) as Hge. specialize (Hnz r Hr).
  unfold rule_refuses. rewrite count_hits_spec by lia.
  rewrite wcount_filter_cut; lia.
Qed.

Lemma zero_rule_refuses rules t log :
  has_zero_rule rules = true -> spec_limited rules t log = true.
Proof.
  intros H. unfold has_zero_rule in H. apply existsb_exists in H. destruct H as [r [Hr Hz]].
  unfold spec_limited. apply existsb_exists. exists r. split; [assumption|].
  unfold rule_refuses. pose proof (wcount_nonneg t (fst r) log). lia.
Qed.

Lemma Rel_later rules ts log last t : Rel rules ts log last -> last <= t -> Rel rules ts log t.
Proof.
  intros (Hd & p & Hp & Hf & E) Ht. split; [assumption|].
  exists p. split; [lia|]. split; assumption.
Qed.

Lemma filter_none_above c t m log :
  c <= t - m -> filter (fun a => c <=? a) log = [] -> filter (fun a => t - m <=? a) log = [].
Proof.
  intros Hc H. rewrite <- (filter_filter_cut c (t - m)) by assumption. rewrite H. reflexivity.
Qed.

Lemma Rel_push rules log t :
  desc log -> Forall (fun a => a <= t) log ->
  forall ts', ts' = filter (fun a => t - max_interval rules <=? a) log ->
  Rel rules (t :: ts') (t :: log) t.
Proof.
  intros Hd Hf ts' ->. pose proof (max_interval_nonneg rules). split; [simpl; split; assumption|].
  exists t. split; [lia|]. split.
  - constructor; [lia | assumption].
  - simpl. replace (t - max_interval rules <=? t) with true by lia. reflexivity.
Qed.

(* the simulation step for one deque *)
Theorem deque_step_refines rules ts log last t :
  Rel rules ts log last -> last <= t ->
  fst (deque_step rules ts t) = fst (spec_step rules log t) /\
  Rel rules (snd (deque_step rules ts t)) (snd (spec_step rules log t)) t.
Proof.
  intros HR Ht. pose proof (Rel_later _ _ _ _ _ HR Ht) as HRt.
  destruct HR as (Hd & p & Hp & Hf & E).
  assert (Hft : Forall (fun a => a <= t) log) by (eapply Forall_impl; [|exact Hf]; simpl; intros; lia).
  set (c := p - max_interval rules) in *.
  assert (Hct : c <= t - max_interval rules) by (unfold c; lia).
  unfold deque_step, evaluate_rules, spec_step.
  destruct (has_zero_rule rules) eqn:Hz.
  { rewrite zero_rule_refuses by assumption. simpl. split; [reflexivity | assumption]. }
  destruct ts as [|a0 tsr].
  - (* empty deque *)
    assert (Hs : spec_limited rules t log = false).
    { rewrite <- (decision_agrees rules t [] log c) by assumption.
      unfold any_rule_hit. clear. induction rules; simpl; auto. }
    rewrite Hs. simpl. split; [reflexivity|].
    apply Rel_push; try assumption. symmetry. eapply filter_none_above; eauto.
  - destruct (t - a0 >? max_interval rules) eqn:Estale.
    + (* whole deque stale: cleared *)
      assert (Hnone : filter (fun a => t - max_interval rules <=? a) log = []).
      { rewrite <- (filter_filter_cut c) by assumption. rewrite <- E.
        assert (Hdts : desc (a0 :: tsr)) by (rewrite E; apply desc_filter; assumption).
        simpl in Hdts. destruct Hdts as [Hall _].
        simpl. replace (t - max_interval rules <=? a0) with false by lia.
        rewrite Forall_forall in Hall. clear -Hall Estale.
        induction tsr as [|b l IH]; simpl; [reflexivity|].
        assert (b <= a0) by (apply Hall; left; reflexivity).
        replace (t - max_interval rules <=? b) with false by lia.
        apply IH. intros x Hx. apply Hall. right. assumption. }
      assert (Hs : spec_limited rules t log = false).
      { rewrite <- (decision_agrees rules t [] log (t - max_interval rules)); try assumption; try lia.
        - unfold any_rule_hit. clear. induction rules; simpl; auto.
        - symmetry; assumption. }
      rewrite Hs. simpl. split; [reflexivity|]. apply Rel_push; try assumption. symmetry; assumption.
    + (* trimmed, then counted *)
      assert (Hdts : desc (a0 :: tsr)) by (rewrite E; apply desc_filter; assumption).
      rewrite (trim_filter t (max_interval rules) (a0 :: tsr) Hdts).
      set (ts' := filter (fresh t (max_interval rules)) (a0 :: tsr)).
      assert (Ets' : ts' = filter (fun a => t - max_interval rules <=? a) log).
      { unfold ts'. rewrite E. unfold fresh. apply filter_filter_cut. assumption. }
      rewrite (decision_agrees rules t ts' log (t - max_interval rules)) by (try assumption; lia).
      destruct (spec_limited rules t log) eqn:Hs; simpl.
      * split; [reflexivity|]. split; [assumption|].
        exists t. split; [lia|]. split; assumption.
      * split; [reflexivity|]. apply Rel_push; assumption.
Qed.

(* ---------- consequences on the specification side (trivial by construction) ---------- *)
(* every timestamp in a log was let through at a moment when every rule with n >= 1
   had fewer than n logged entries in its window: so no window ever holds more than n. *)
Definition LogOK (rules : list rule) (log : list Z) : Prop :=
  desc log /\
  forall r, In r rules -> 1 <= snd r -> forall T, wcount T (fst r) (filter (fun a => a <=? T) log) <= snd r.

Lemma wcount_le_mono t i l : forall T, t <= T ->
  Forall (fun a => a <= t) l ->
  wcount T i (filter (fun a => a <=? T) l) <= wcount t i l.
Proof.
  intros T HT Hf. unfold wcount.
  induction l as [|a l IH]; simpl; [lia|].
  inversion Hf as [|? ? Ha Hl]; subst. specialize (IH Hl).
  replace (a <=? T) with true by lia. simpl. unfold in_window in *.
  destruct (T - a <? i) eqn:E1; destruct (t - a <? i) eqn:E2; simpl length; lia.
Qed.

Theorem spec_step_window rules log t :
  LogOK rules log -> Forall (fun a => a <= t) log ->
  LogOK rules (snd (spec_step rules log t)).
Proof.
  intros [Hd HW] Hf. unfold spec_step.
  destruct (spec_limited rules t log) eqn:Hs; simpl; [split; assumption|].
  split; [simpl; split; assumption|].
  intros r Hr Hn T. simpl.
  destruct (t <=? T) eqn:ET.
  - rewrite wcount_cons.
    assert (Hlt : wcount t (fst r) log < snd r).
    { unfold spec_limited in Hs.
      assert (rule_refuses t log r = false).
      { destruct (rule_refuses t log r) eqn:Er; [|reflexivity].
        assert (existsb (rule_refuses t log) rules = true) by (apply existsb_exists; eauto). congruence. }
      unfold rule_refuses in H. lia. }
    pose proof (wcount_le_mono t (fst r) log T ltac:(lia) Hf).
    destruct (in_window T (fst r) t); lia.
  - apply HW; assumption.
Qed.

(* refusal is justified: some rule has n >= 0 entries of its own log in its window *)
Theorem spec_refusal_justified rules log t :
  fst (spec_step rules log t) = true ->
  exists r, In r rules /\ 0 <= snd r /\ snd r <= wcount t (fst r) log.
Proof.
  unfold spec_step. destruct (spec_limited rules t log) eqn:Hs; simpl; [|discriminate].
  intros _. unfold spec_limited in Hs. apply existsb_exists in Hs. destruct Hs as [r [Hr Hx]].
  exists r. unfold rule_refuses in Hx. split; [assumption|]. lia.
Qed.

(* exemption: a rule list whose rates are all negative never refuses *)
Theorem spec_exempt rules log t :
  Forall (fun r : rule => snd r < 0) rules -> fst (spec_step rules log t) = false.
Proof.
  intros H. unfold spec_step.
  assert (spec_limited rules t log = false).
  { unfold spec_limited. induction rules as [|r rules IH]; simpl; [reflexivity|].
    inversion H; subst. rewrite IH by assumption. unfold rule_refuses. lia. }
  rewrite H0. reflexivity.
Qed.

(* bounded state: under Rel the deque only holds entries at most max_interval old, and
   with a rule (I,n), n >= 1, I = max interval, it holds at most 2n entries *)
Lemma length_filter_split (f g : Z -> bool) l :
  (forall a, In a l -> f a = true \/ g a = true) ->
  (length l <= length (filter f l) + length (filter g l))%nat.
Proof.
  induction l as [|a l IH]; simpl; [lia|]. intros H.
  assert (IH' : (length l <= length (filter f l) + length (filter g l))%nat)
    by (apply IH; intros; apply H; right; assumption).
  destruct (H a (or_introl eq_refl)) as [E|E]; rewrite E; simpl;
    [destruct (g a) | destruct (f a)]; simpl; lia.
Qed.

Lemma length_filter_filter_le {A} (f g : A -> bool) l :
  (length (filter f (filter g l)) <= length (filter f l))%nat.
Proof.
  induction l as [|a l IH]; simpl; [lia|].
  destruct (g a); simpl; destruct (f a); simpl; lia.
Qed.

Lemma length_filter_impl {A} (f g : A -> bool) l :
  (forall a, In a l -> f a = true -> g a = true) ->
  (length (filter f l) <= length (filter g l))%nat.
Proof.
  induction l as [|a l IH]; simpl; [lia|]. intros H.
  assert (IH' : (length (filter f l) <= length (filter g l))%nat)
    by (apply IH; intros; apply H; [right|]; assumption).
  destruct (f a) eqn:E.
  - rewrite (H a (or_introl eq_refl) E). simpl; lia.
  - destruct (g a); simpl; lia.
Qed.

Theorem deque_bounded rules ts log t r :
  Rel rules ts log t -> LogOK rules log ->
  In r rules -> fst r = max_interval rules -> 1 <= fst r -> 1 <= snd r ->
  Z.of_nat (length ts) <= 2 * snd r.
Proof.
  intros (Hd & p & Hp & Hf & E) [_ HW] Hr Hi Hi1 Hn.
  set (m := max_interval rules) in *.
  pose proof (HW r Hr Hn p) as H1. pose proof (HW r Hr Hn (p - m)) as H2.
  rewrite Hi in *. unfold wcount in H1, H2.
  rewrite Forall_forall in Hf.
  assert (Hlen : (length ts <= length (filter (in_window p m) ts) + length (filter (fun a => (a <=? p - m)%Z) ts))%nat).
  { apply (length_filter_split (in_window p m) (fun a => a <=? p - m) ts). intros a Ha. unfold in_window. lia. }
  assert (A1 : (length (filter (in_window p m) ts) <= length (filter (in_window p m) (filter (fun a => (a <=? p)%Z) log)))%nat).
  { rewrite E. rewrite (filter_all_true (fun a => a <=? p) log) by (intros a Ha; specialize (Hf a Ha); lia).
    apply length_filter_filter_le. }
  assert (A2 : (length (filter (fun a => (a <=? p - m)%Z) ts) <= length (filter (in_window (p - m) m) (filter (fun a => (a <=? p - m)%Z) log)))%nat).
  { rewrite E.
    (* elements of log with p - m <= a <= p - m are in the window of T = p - m *)
    transitivity (length (filter (fun a => (p - m <=? a) && (a <=? p - m)) log)).
    - clear. induction log as [|a l IH]; simpl; [lia|].
      destruct (p - m <=? a) eqn:E1; simpl; destruct (a <=? p - m) eqn:E2; simpl; lia.
    - transitivity (length (filter (fun a => (a <=? p - m) && in_window (p - m) m a) log)).
      + apply length_filter_impl. intros a _ Ha. unfold in_window. lia.
      + clear. induction log as [|a l IH]; simpl; [lia|].
        destruct (a <=? p - m) eqn:E2; simpl; destruct (in_window (p - m) m a); simpl; lia. }
  lia.
Qed.
